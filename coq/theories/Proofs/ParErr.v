(** Errors in the parallel protocol: the reader's error reaches the consumer exactly
    once; failing init closures make read_parallel_init return Err. *)
From SeqIO Require Import Model.Par Proofs.ParP Proofs.ParInv Proofs.ParContent Proofs.ParLive.
Require Import List Arith Bool Lia.
Import ListNotations.

Definition merr_pend (p : mpc_t) : nat := match p with MGot CErr => 1 | _ => 0 end.
Definition err_past (p : rpc_t) : bool :=
  match p with RJoin | RSendEnd | RScopeEnd | RExit | RDone => true | _ => false end.
Definition qerrs (l : list msg) : nat := list_sum (map msg_errs l).

Lemma qerrs_app : forall l1 l2, qerrs (l1 ++ l2) = qerrs l1 + qerrs l2.
Proof. intros; unfold qerrs; rewrite map_app, list_sum_app; reflexivity. Qed.
Lemma qerrs_cons : forall m l, qerrs (m :: l) = msg_errs m + qerrs l.
Proof. reflexivity. Qed.
Lemma qerrs_nil : qerrs [] = 0.
Proof. reflexivity. Qed.

(** error accounting *)
Definition invN (cfg : config) (s : state) : Prop :=
  nerr_seen s + merr_pend (mpc s) + qerrs (doneq s) + nerr_lost s = nerr s /\
  (nerr s = 0 \/ (nerr s = 1 /\ err_past (rpc s) = true /\ fend cfg = ScriptErr)) /\
  (fend cfg = ScriptErr -> rinit_ok cfg = true -> drecv_live s = true ->
   err_past (rpc s) = true -> nerr s = 1) /\
  (drecv_live s = true -> nerr_lost s = 0).

Lemma invN_init : forall cfg, invN cfg init_state.
Proof.
  intros cfg; unfold invN; cbn. repeat split; auto; intros; discriminate.
Qed.

Lemma invN_step : forall cfg s e s',
  invA cfg s -> invF cfg s -> invN cfg s -> step cfg s e s' -> invN cfg s'.
Proof.
  intros cfg s e s' HA HF (N1 & N2 & N3 & N4) Hs.
  unfold invA in HA;
    destruct HA as (Ies & Idr & Ier & Irs & Idq & Ieq & Ii & Iidle & Iact & Icur & Irinit & Ifill & Imf & Idql).
  unfold invF in HF. fold (qerrs (doneq s)) in *.
  destruct Hs; try match goal with r : cres |- _ => destruct r end;
    unfold invN, consume_effect; sst; rw_state; fold (qerrs (doneq s)) in *;
    cbn [main_alive reader_alive merr_pend err_past] in *;
    rewrite ?qerrs_app, ?qerrs_cons, ?qerrs_nil in *; cbn [msg_errs] in *;
    (split; [|split; [|split]]).
  all: try assumption.
  all: split_ifs; cbn [merr_pend err_past] in *; try assumption; try lia.
  all: try solve [intros; discriminate].
  all: try solve [intros; auto].
  all: try solve [destruct N2 as [N2|(N2 & N2' & N2'')]; [left; lia|try discriminate; right; auto]].
  all: try solve [intros; congruence].
  all: try solve [destruct HF as [_ HF]; destruct N2 as [N2|(N2 & N2' & _)];
                  [right; rewrite N2; auto|discriminate]].
Qed.

Lemma invN_reachable : forall cfg s, wf_config cfg -> reachable cfg s -> invN cfg s.
Proof.
  intros cfg s Hwf Hr; induction Hr using reachable_ind'.
  - apply invN_init.
  - eapply invN_step; eauto.
    + apply invA_reachable; auto.
    + apply invF_reachable; auto.
Qed.


(** consumers that do not leave before the error or the end *)
Definition err_waiting (cfg : config) : Prop :=
  consumer cfg = Drain \/ consumer cfg = DrainStopErr.

Definition invS (cfg : config) (s : state) : Prop :=
  err_waiting cfg -> fend cfg = ScriptErr -> rinit_ok cfg = true -> mfail s = false ->
  main_finishing (mpc s) = true -> nerr_seen s = 1.

Lemma err_waiting_wants_first : forall cfg, err_waiting cfg -> wants_first cfg = true.
Proof. intros cfg [H|H]; unfold wants_first; rewrite H; reflexivity. Qed.
Lemma err_waiting_data : forall cfg n t c o, err_waiting cfg -> continues cfg n (CData t c o) = true.
Proof. intros cfg n t c o [H|H]; unfold continues; rewrite H; reflexivity. Qed.

Lemma invS_step : forall cfg s e s',
  invA cfg s -> invE s -> invN cfg s -> invS cfg s -> step cfg s e s' -> invS cfg s'.
Proof.
  intros cfg s e s' HA HE (N1 & N2 & N3 & N4) HS Hs Hw Hfe Hri Hmf.
  pose proof (err_waiting_wants_first cfg Hw) as Hwf.
  pose proof (fun n t c o => err_waiting_data cfg n t c o Hw) as Hcd.
  pose proof (fun rest => invE_head_end s rest HE) as HEh.
  unfold invA in HA;
    destruct HA as (Ies & Idr & Ier & Irs & Idq & Ieq & Ii & Iidle & Iact & Icur & Irinit & Ifill & Imf & Idql).
  unfold invS in HS. specialize (HS Hw Hfe Hri). specialize (N3 Hfe Hri).
  fold (qerrs (doneq s)) in *.
  destruct Hs; try match goal with r : cres |- _ => destruct r end;
    unfold consume_effect in *; sst; rw_state;
    cbn [main_alive reader_alive main_finishing merr_pend] in *;
    rewrite ?Hwf, ?Hcd, ?continues_none in *; cbn [main_finishing] in *;
    try discriminate Hmf;
    try (intros Hfin; try discriminate Hfin; exact (HS Hmf Hfin)).
  - split_ifs; intros; discriminate.
  - (* recv End: the error was sent before the end marker and is no longer queued *)
    intros _. destruct (HEh _ eq_refl) as (Q1 & Q2 & _). subst rest.
    assert (Hn : nerr s = 1) by (apply N3; [reflexivity|destruct (rpc s); cbn in *; congruence]).
    specialize (N4 eq_refl). rewrite qerrs_cons, qerrs_nil in N1. cbn [msg_errs] in N1. lia.
  - (* recv Closed: all senders are gone, so the reader has exited *)
    intros _. unfold senders in *.
    assert (Hrp : rpc s = RDone).
    { destruct (rpc s); cbn [reader_alive] in Irs; rewrite ?Irs in *; cbn [b2n] in *;
        try lia; reflexivity. }
    rewrite Hrp in *.
    assert (Hn : nerr s = 1) by (apply N3; reflexivity).
    specialize (N4 eq_refl). rewrite qerrs_nil in N1. lia.
  - (* the consumer receives the error *)
    split_ifs; cbn [main_finishing]; intros Hfin; try discriminate Hfin.
    destruct N2 as [N2|(N2 & _)]; lia.
Qed.

Lemma invS_reachable : forall cfg s, wf_config cfg -> reachable cfg s -> invS cfg s.
Proof.
  intros cfg s Hwf Hr; induction Hr using reachable_ind'.
  - intros _ _ _ _ H; discriminate.
  - eapply invS_step; eauto.
    + apply invA_reachable; auto.
    + apply (invE_reachable cfg); auto.
    + apply invN_reachable; auto.
Qed.

(** C15_error_once *)
Lemma error_enqueued_at_most_once : forall cfg s, wf_config cfg -> reachable cfg s ->
  nerr s <= 1 /\ (nerr s = 1 -> fend cfg = ScriptErr /\ length (filled s) <= nfills cfg) /\
  nerr_seen s + merr_pend (mpc s) + qerrs (doneq s) + nerr_lost s = nerr s.
Proof.
  intros cfg s Hwf Hr. destruct (invN_reachable cfg s Hwf Hr) as (N1 & N2 & _).
  pose proof (invA_reachable cfg s Hwf Hr) as HA.
  unfold invA in HA; destruct HA as (_ & _ & _ & _ & _ & _ & _ & _ & _ & _ & _ & Ifill & _).
  split; [|split]; [destruct N2 as [N2|(N2 & _)]; lia| |exact N1].
  intros H1. destruct N2 as [N2|(_ & _ & N2)]; [lia|auto].
Qed.

Lemma send_err_only_at_script_end : forall cfg s ok s', wf_config cfg -> reachable cfg s ->
  apply cfg s (ESendErr ok) = Some s' ->
  fend cfg = ScriptErr /\ length (filled s) = nfills cfg /\ nerr s = 0.
Proof.
  intros cfg s ok s' Hwf Hr Ha.
  pose proof (invF_reachable cfg s Hwf Hr) as HF. unfold invF in HF.
  destruct (invN_reachable cfg s Hwf Hr) as (_ & N2 & _).
  apply apply_step in Ha. inversion Ha; subst;
    match goal with H : rpc s = _ |- _ => rewrite H in * end; cbn [err_past] in *;
    (destruct N2 as [N2|(_ & N2 & _)]; [tauto|discriminate]).
Qed.

Lemma filled_below_script : forall cfg s c, wf_config cfg -> reachable cfg s ->
  In c (filled s) -> c < nfills cfg.
Proof.
  intros cfg s c Hwf Hr Hin.
  pose proof (invA_reachable cfg s Hwf Hr) as HA.
  unfold invA in HA; destruct HA as (_ & _ & _ & _ & _ & _ & _ & _ & _ & _ & _ & Ifill & _).
  rewrite (filled_seq cfg s Hr) in Hin. apply in_seq in Hin. lia.
Qed.

Lemma error_seen_once : forall cfg s, wf_config cfg -> reachable cfg s -> final s = true ->
  err_waiting cfg -> fend cfg = ScriptErr -> rinit_ok cfg = true -> mfail s = false ->
  nerr_seen s = 1 /\ nerr s = 1 /\ nerr_lost s = 0.
Proof.
  intros cfg s Hwf Hr Hf Hw Hfe Hri Hmf.
  destruct (final_clean cfg s Hwf Hr Hf) as (Hm & Hrp & _ & _ & Hq & _).
  pose proof (invS_reachable cfg s Hwf Hr Hw Hfe Hri Hmf) as HS.
  rewrite Hm in HS. specialize (HS eq_refl).
  destruct (invN_reachable cfg s Hwf Hr) as (N1 & N2 & _).
  rewrite Hm, Hq in N1. cbn in N1. destruct N2 as [N2|(N2 & _)]; lia.
Qed.


(* ------------------------------------------------------------------ *)
(** * Failing init closures *)

(** reader_init failed: nothing is ever read, sent or delivered *)
Definition invR (cfg : config) (s : state) : Prop :=
  rinit_ok cfg = false ->
  doneq s = [] /\ filled s = [] /\ jobs s = [] /\ active s = [] /\ delivered s = [] /\
  nerr s = 0 /\ nerr_seen s = 0 /\
  match mpc s with MRecycle _ _ _ _ | MGot (CData _ _ _) | MGot CErr => False | _ => True end.

Lemma invR_step : forall cfg s e s', invA cfg s -> invR cfg s -> step cfg s e s' -> invR cfg s'.
Proof.
  intros cfg s e s' HA HR Hs Hri. specialize (HR Hri).
  destruct HR as (R1 & R2 & R3 & R4 & R5 & R6 & R7 & R8).
  unfold invA in HA; destruct HA as (_ & _ & _ & _ & _ & _ & _ & _ & _ & _ & Irinit & _).
  specialize (Irinit Hri).
  destruct Hs; try match goal with r : cres |- _ => destruct r end;
    unfold consume_effect; sst; rw_state; try discriminate; try contradiction;
    nil_contra; split_ifs; repeat split; auto; try congruence.
Qed.

Lemma invR_reachable : forall cfg s, wf_config cfg -> reachable cfg s -> invR cfg s.
Proof.
  intros cfg s Hwf Hr; induction Hr using reachable_ind'.
  - intros _; cbn; repeat split; auto.
  - eapply invR_step; eauto. apply invA_reachable; auto.
Qed.

(** with a failed reader_init the consumer's next() sees a closed channel: None *)
Lemma rinit_fail_closed : forall cfg s, wf_config cfg -> reachable cfg s -> rinit_ok cfg = false ->
  (forall r s', apply cfg s (EDoneRecv r) = Some s' -> r = RClosed) /\
  (forall r s', apply cfg s (EConsume r) = Some s' -> r = CNone) /\
  delivered s = [] /\ filled s = [] /\ nerr_seen s = 0.
Proof.
  intros cfg s Hwf Hr Hri.
  destruct (invR_reachable cfg s Hwf Hr Hri) as (R1 & R2 & R3 & R4 & R5 & R6 & R7 & R8).
  split; [|split; [|auto]].
  - intros r s' Ha. apply apply_step in Ha. inversion Ha; subst; try reflexivity; congruence.
  - intros r s' Ha. apply apply_step in Ha. inversion Ha; subst.
    match goal with H : mpc s = _ |- _ => rewrite H in R8 end.
    destruct r; [contradiction|contradiction|reflexivity].
Qed.

(** the value returned by read_parallel_init *)
Lemma return_value : forall cfg s ok s', apply cfg s (EReturn ok) = Some s' ->
  ok = rinit_ok cfg && negb (mfail s).
Proof.
  intros cfg s ok s' Ha. apply apply_step in Ha. inversion Ha; subst. reflexivity.
Qed.

(** mfail records exactly a failed dataset_init call *)
Lemma mfail_iff_dinit_failed : forall cfg evs s, run cfg init_state evs = Some s ->
  (mfail s = true <-> In (EDatasetInit None) evs).
Proof.
  intros cfg evs; induction evs as [|e evs IH] using rev_ind; intros s Hrun.
  - cbn in Hrun; inversion Hrun; subst. cbn. split; [discriminate|tauto].
  - rewrite run_app in Hrun. destruct (run cfg init_state evs) as [s1|] eqn:E; [|discriminate].
    cbn [run] in Hrun. destruct (apply cfg s1 e) as [s2|] eqn:Ea; [|discriminate].
    inversion Hrun; subst s2. specialize (IH s1 eq_refl).
    rewrite in_app_iff. cbn [In].
    apply apply_step in Ea.
    destruct Ea; try match goal with r : cres |- _ => destruct r end;
      unfold consume_effect; sst;
      destruct IH as [I1 I2];
      (split; [intros Hx; first [left; apply I1; exact Hx|right; left; reflexivity]
              |intros [Hx|[Hx|[]]]; first [apply I2; exact Hx|discriminate Hx|reflexivity]]).
Qed.

(** a run that has reached a final state ends with the return event, whose payload is
    Ok iff no init closure failed *)
Lemma final_run_ends_with_return : forall cfg evs s, wf_config cfg ->
  run cfg init_state evs = Some s -> final s = true ->
  exists pre, evs = pre ++ [EReturn (result_ok cfg s)].
Proof.
  intros cfg evs s Hwf Hrun Hf.
  destruct evs as [|e0 evs0] using rev_ind.
  - cbn in Hrun; inversion Hrun; subst; discriminate.
  - clear IHevs0. rewrite run_app in Hrun.
    destruct (run cfg init_state evs0) as [s1|] eqn:E; [|discriminate].
    cbn [run] in Hrun. destruct (apply cfg s1 e0) as [s2|] eqn:Ea; [|discriminate].
    inversion Hrun; subst s2. exists evs0. f_equal. f_equal.
    assert (Hr1 : reachable cfg s1) by (exists evs0; exact E).
    destruct (final s1) eqn:Hf1.
    + exfalso; eapply final_no_step; eauto.
    + unfold final in Hf, Hf1. apply apply_step in Ea.
      destruct Ea; try match goal with r : cres |- _ => destruct r end;
        unfold consume_effect in *; sst;
        try (rewrite Hf in Hf1; discriminate Hf1);
        try (split_ifs; discriminate Hf).
      reflexivity.
Qed.

(** C15_init_failures: if reader_init failed or some dataset_init call failed, a run
    that has terminated has returned Err *)
Lemma init_failure_returns_err : forall cfg evs s, wf_config cfg ->
  run cfg init_state evs = Some s -> final s = true ->
  (rinit_ok cfg = false \/ In (EDatasetInit None) evs) ->
  exists pre, evs = pre ++ [EReturn false].
Proof.
  intros cfg evs s Hwf Hrun Hf Hfail.
  destruct (final_run_ends_with_return cfg evs s Hwf Hrun Hf) as [pre Hp].
  exists pre. rewrite Hp at 1. f_equal. f_equal. f_equal. unfold result_ok.
  destruct Hfail as [H|H].
  - rewrite H; reflexivity.
  - apply (mfail_iff_dinit_failed cfg evs s Hrun) in H. rewrite H. apply andb_false_r.
Qed.

Lemma no_failure_returns_ok : forall cfg evs s, wf_config cfg ->
  run cfg init_state evs = Some s -> final s = true ->
  rinit_ok cfg = true -> ~ In (EDatasetInit None) evs ->
  exists pre, evs = pre ++ [EReturn true].
Proof.
  intros cfg evs s Hwf Hrun Hf Hri Hnf.
  destruct (final_run_ends_with_return cfg evs s Hwf Hrun Hf) as [pre Hp].
  exists pre. rewrite Hp at 1. f_equal. f_equal. f_equal. unfold result_ok. rewrite Hri.
  destruct (mfail s) eqn:Hm; [|reflexivity].
  exfalso; apply Hnf. apply (mfail_iff_dinit_failed cfg evs s Hrun). exact Hm.
Qed.

Lemma drain_receives_all_before_error : forall cfg s, wf_config cfg -> reachable cfg s ->
  final s = true -> consumer cfg = Drain -> fend cfg = ScriptErr -> rinit_ok cfg = true ->
  mfail s = false ->
  Permutation.Permutation (delivered s) (map (fun c => (c, work cfg c)) (seq 0 (nfills cfg))) /\
  nerr_seen s = 1.
Proof.
  intros cfg s Hwf Hr Hf Hc Hfe Hri Hmf. split.
  - apply (delivered_exactly_once cfg s Hwf Hr Hf (or_introl Hc) Hri Hmf).
  - apply (error_seen_once cfg s Hwf Hr Hf (or_introl Hc) Hfe Hri Hmf).
Qed.
