(** Concrete configurations and schedules used by the non-vacuity examples in
    Props/C07.v, C08.v, C15.v, C16.v (definitions only). *)
From SeqIO Require Import Model.Par Proofs.ParP.
Require Import List Arith.
Import ListNotations.

Definition c16_cfg := mkConfig 2 2 true None (5, ScriptEnd) Drain (fun c => c + 100).
Definition c16_trace := greedy true c16_cfg 200 init_state.
Definition c07_cfg := mkConfig 2 2 true None (5, ScriptEnd) Drain (fun c => c * c + 7).
Definition c07_trace := greedy false c07_cfg 300 init_state.
Definition c07_cfg1 := mkConfig 1 3 true None (4, ScriptEnd) DrainStopErr (fun c => c + 1).
Definition c07_trace1 := greedy true c07_cfg1 300 init_state.
Definition c07_ooo : list event :=
  [EDatasetInit (Some 0); EEmptySend 0 true; EDatasetInit (Some 1); EEmptySend 1 true;
   EDatasetInit (Some 2); EReaderInit true;
   EEmptyRecv (Some 0); EFill 0 (FOk 0); EExecute 0 0;
   EEmptyRecv (Some 1); EFill 1 (FOk 1); EExecute 1 1;
   EJobStart 0 0; EJobStart 1 1; EWork 1 1 8; EJobSend 1 1 8 true;
   EDoneRecv (RData 1 1 8); EEmptySend 2 true; EConsume (CData 1 1 8)].
Definition c08_cfg1 := mkConfig 2 2 true None (6, ScriptEnd) (StopAfter 2) (fun c => c).
Definition c08_cfg2 := mkConfig 3 1 true None (4, ScriptErr) (StopAfter 0) (fun c => c).
Definition c08_cfg3 := mkConfig 1 3 true None (2, ScriptErr) DrainStopErr (fun c => c).
Definition c15_cfg1 := mkConfig 2 2 true None (3, ScriptErr) DrainStopErr (fun c => c + 1).
Definition c15_cfg2 := mkConfig 2 2 true None (3, ScriptErr) Drain (fun c => c + 1).
Definition c15_cfg3 := mkConfig 2 3 false None (3, ScriptEnd) Drain (fun c => c + 1).
Definition c15_cfg4 := mkConfig 2 3 true (Some 2) (3, ScriptEnd) Drain (fun c => c + 1).
Definition c15_t1 := greedy true c15_cfg1 300 init_state.
Definition c15_t2 := greedy false c15_cfg2 300 init_state.
Definition c15_t3 := greedy false c15_cfg3 300 init_state.
Definition c15_t4 := greedy true c15_cfg4 300 init_state.
