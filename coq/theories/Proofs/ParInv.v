(** Invariants of the parallel protocol, part A: control state, liveness flags,
    queue bounds; part B: token accounting. *)
From SeqIO Require Import Model.Par Proofs.ParP.
Require Import List Arith Bool Lia Permutation.
Import ListNotations.

Definition main_alive (p : mpc_t) : bool :=
  match p with MJoin | MRet | MDone => false | _ => true end.
Definition reader_alive (p : rpc_t) : bool :=
  match p with RDone => false | _ => true end.

Definition invA (cfg : config) (s : state) : Prop :=
  esend_live s = main_alive (mpc s) /\
  drecv_live s = main_alive (mpc s) /\
  erecv_live s = reader_alive (rpc s) /\
  rsend_live s = reader_alive (rpc s) /\
  (drecv_live s = false -> doneq s = []) /\
  (erecv_live s = false -> emptyq s = []) /\
  match mpc s with MInit i | MInitSend i _ => i < qlen cfg | _ => True end /\
  match rpc s with RInit | RSendEnd | RExit | RDone => jobs s = [] /\ active s = [] | _ => True end /\
  length (active s) <= nworkers cfg /\
  match mpc s with
  | MFunc | MRecycle _ _ _ _ | MGot _ => cur s <> None
  | MDrop => True
  | _ => cur s = None
  end /\
  (rinit_ok cfg = false -> match rpc s with RInit | RExit | RDone => True | _ => False end) /\
  length (filled s) <= nfills cfg /\
  (mfail s = true -> match mpc s with MDrop | MJoin | MRet | MDone => True | _ => False end) /\
  length (doneq s) <= qlen cfg.

Lemma invA_init : forall cfg, wf_config cfg -> invA cfg init_state.
Proof.
  intros cfg [Hn Hq]; unfold invA, init_state; sst; cbn.
  repeat split; auto; try lia; try discriminate.
Qed.

Ltac case_pcs :=
  repeat match goal with
  | |- context [match rpc ?s with _ => _ end] => destruct (rpc s) eqn:?
  | H : context [match rpc ?s with _ => _ end] |- _ => destruct (rpc s) eqn:?
  | |- context [match mpc ?s with _ => _ end] => destruct (mpc s) eqn:?
  | H : context [match mpc ?s with _ => _ end] |- _ => destruct (mpc s) eqn:?
  end.

Ltac nil_contra :=
  repeat match goal with
  | H : _ ++ _ :: _ = [] |- _ => symmetry in H; apply app_cons_not_nil in H; destruct H
  | H : [] = _ ++ _ :: _ |- _ => apply app_cons_not_nil in H; destruct H
  | H : _ /\ _ |- _ => destruct H
  end.

Lemma invA_step : forall cfg s e s', invA cfg s -> step cfg s e s' -> invA cfg s'.
Proof.
  intros cfg s e s' HI Hs.
  unfold invA in HI;
    destruct HI as (Ies & Idr & Ier & Irs & Idq & Ieq & Ii & Iidle & Iact & Icur & Irinit & Ifill & Imf & Idql).
  destruct Hs; try match goal with r : cres |- _ => destruct r end;
    unfold invA, consume_effect; sst; rw_state; cbn [main_alive reader_alive] in *;
    repeat rewrite app_length in *; cbn [length] in *; case_pcs; nil_contra.
  all: repeat match goal with |- _ /\ _ => split end.
  all: try assumption; try reflexivity; try exact I; try discriminate.
  all: split_ifs; cbn [main_alive reader_alive] in *; norm_hyps;
       try assumption; try reflexivity; try exact I; try discriminate;
       try congruence; try lia; try tauto; auto.
Qed.

Lemma invA_reachable : forall cfg s, wf_config cfg -> reachable cfg s -> invA cfg s.
Proof.
  intros cfg s Hwf Hr; induction Hr using reachable_ind'.
  - apply invA_init; exact Hwf.
  - eapply invA_step; eauto.
Qed.

(* ------------------------------------------------------------------ *)
(** * Pointwise counting *)

Definition cnt (x : nat) (l : list nat) : nat := count_occ Nat.eq_dec l x.

Lemma cnt_nil : forall x, cnt x [] = 0.
Proof. reflexivity. Qed.
Lemma cnt_cons : forall x a l, cnt x (a :: l) = b2n (a =? x) + cnt x l.
Proof.
  intros x a l; unfold cnt; cbn [count_occ].
  destruct (Nat.eq_dec a x) as [E|E].
  - apply Nat.eqb_eq in E; rewrite E; reflexivity.
  - apply Nat.eqb_neq in E; rewrite E; reflexivity.
Qed.
Lemma cnt_app : forall x l1 l2, cnt x (l1 ++ l2) = cnt x l1 + cnt x l2.
Proof. intros; unfold cnt; apply count_occ_app. Qed.
Lemma cnt_seq : forall x m, cnt x (seq 0 m) = if x <? m then 1 else 0.
Proof.
  intros x m; induction m as [|m IH].
  - reflexivity.
  - rewrite seq_S, cnt_app, cnt_cons, cnt_nil, IH. cbn [plus].
    destruct (Nat.ltb_spec x m), (Nat.ltb_spec x (S m)), (Nat.eqb_spec m x); cbn [b2n]; lia.
Qed.
Lemma cnt_in : forall x l, 0 < cnt x l <-> In x l.
Proof. intros x l; unfold cnt; symmetry; apply count_occ_In. Qed.
Global Opaque cnt.

Lemma cnt_perm_seq : forall l m,
  (forall x, cnt x l = if x <? m then 1 else 0) -> Permutation l (seq 0 m).
Proof.
  intros l m H. apply (Permutation_count_occ Nat.eq_dec).
  intros x. pose proof (H x) as Hx. pose proof (cnt_seq x m) as Hs.
  Transparent cnt. unfold cnt in *. Opaque cnt. congruence.
Qed.

Lemma b2n_eqb_cases : forall a x, (a = x /\ b2n (a =? x) = 1) \/ (a <> x /\ b2n (a =? x) = 0).
Proof. intros a x; destruct (Nat.eqb_spec a x); cbn [b2n]; auto. Qed.

(* ------------------------------------------------------------------ *)
(** * Part B: token conservation *)

Definition rhold (p : rpc_t) : list nat :=
  match p with RFill t | RExec t _ => [t] | _ => [] end.
Definition mhold (p : mpc_t) : list nat :=
  match p with MInitSend _ t => [t] | MRecycle prev _ _ _ => [prev] | _ => [] end.

(** where every data set is: each created tag occurs exactly once in this list *)
Definition tokens (s : state) : list nat :=
  emptyq s ++ rhold (rpc s) ++ map fst (jobs s) ++ map ajob_tag (active s)
  ++ flat_map msg_tags (doneq s) ++ opt_list (cur s) ++ mhold (mpc s) ++ destroyed s.

Definition inv_tokens (s : state) : Prop :=
  forall x, cnt x (tokens s) = if x <? length (created s) then 1 else 0.

Ltac list_norm :=
  repeat rewrite ?map_app, ?flat_map_app, ?app_length, ?app_nil_r in *;
  cbn [map flat_map msg_tags msg_contents ajob_tag ajob_content fst snd app length
       rhold mhold opt_list] in *.

Ltac cnt_norm := repeat rewrite ?cnt_app, ?cnt_cons, ?cnt_nil in *.

Lemma inv_tokens_init : inv_tokens init_state.
Proof. intros x; reflexivity. Qed.

Lemma invA_cur : forall cfg s, invA cfg s ->
  match mpc s with
  | MFunc | MRecycle _ _ _ _ | MGot _ => cur s <> None
  | MDrop => True
  | _ => cur s = None
  end.
Proof. intros cfg s H; unfold invA in H; tauto. Qed.

Lemma inv_tokens_step : forall cfg s e s',
  invA cfg s -> inv_tokens s -> step cfg s e s' -> inv_tokens s'.
Proof.
  intros cfg s e s' HA HI Hs x. specialize (HI x). unfold tokens in *.
  apply invA_cur in HA.
  destruct Hs; try match goal with r : cres |- _ => destruct r end;
    unfold consume_effect; sst; rw_state; cbv beta iota in HA; rw_state;
    split_ifs; list_norm; cnt_norm;
    try lia.
  all: match goal with
       | |- context [b2n (?a =? ?y)] =>
           destruct (b2n_eqb_cases a y) as [[? ->]|[? ->]];
           repeat match goal with
           | |- context [?u <? ?v] => destruct (Nat.ltb_spec u v)
           | H : context [?u <? ?v] |- _ => destruct (Nat.ltb_spec u v)
           end; lia
       end.
Qed.

Lemma inv_tokens_reachable : forall cfg s, wf_config cfg -> reachable cfg s -> inv_tokens s.
Proof.
  intros cfg s Hwf Hr; induction Hr using reachable_ind'.
  - apply inv_tokens_init.
  - eapply inv_tokens_step; eauto. apply invA_reachable; auto.
Qed.

(** number of data sets created, by program counter; nothing is destroyed while the
    reader is in its loop and the consumer handle is alive *)
Definition reader_in_loop (p : rpc_t) : bool :=
  match p with RInit | RRecv | RFill _ | RExec _ _ => true | _ => false end.

Definition invB (cfg : config) (s : state) : Prop :=
  match mpc s with
  | MInit i => length (created s) = i
  | MInitSend i _ => length (created s) = i + 1
  | MCur => length (created s) <= qlen cfg /\
            (erecv_live s = true -> length (created s) = qlen cfg)
  | MFunc | MRecycle _ _ _ _ | MGot _ =>
      length (created s) <= qlen cfg + 1 /\
      (erecv_live s = true -> length (created s) = qlen cfg + 1)
  | _ => length (created s) <= qlen cfg + 1
  end /\
  (reader_in_loop (rpc s) = true -> drecv_live s = true -> destroyed s = []) /\
  length (created s) <= qlen cfg + length (opt_list (cur s)) + Nat.min 1 (length (destroyed s)).

Lemma invB_init : forall cfg, invB cfg init_state.
Proof. intros cfg; unfold invB; cbn; repeat split; auto; lia. Qed.

Lemma invB_step : forall cfg s e s',
  invA cfg s -> invB cfg s -> step cfg s e s' -> invB cfg s'.
Proof.
  intros cfg s e s' HA HI Hs.
  unfold invA in HA;
    destruct HA as (Ies & Idr & Ier & Irs & Idq & Ieq & Ii & Iidle & Iact & Icur & Irinit & Ifill & Imf & Idql).
  unfold invB in HI; destruct HI as (Ic & Id & Ij).
  destruct Hs; try match goal with r : cres |- _ => destruct r end;
    unfold invB, consume_effect; sst; rw_state; cbn [main_alive reader_alive reader_in_loop] in *;
    repeat rewrite app_length in *; cbn [length opt_list] in *; case_pcs; nil_contra.
  all: repeat match goal with |- _ /\ _ => split end.
  all: try assumption; try reflexivity; try exact I; try discriminate.
  all: split_ifs; cbn [main_alive reader_alive reader_in_loop] in *; norm_hyps;
       try assumption; try reflexivity; try exact I; try discriminate;
       try congruence; try lia; try tauto; auto.
  all: try (destruct (cur s); cbn [opt_list length] in *; try congruence; lia).
Qed.

Lemma invB_reachable : forall cfg s, wf_config cfg -> reachable cfg s -> invB cfg s.
Proof.
  intros cfg s Hwf Hr; induction Hr using reachable_ind'.
  - apply invB_init.
  - eapply invB_step; eauto. apply invA_reachable; auto.
Qed.

(* ------------------------------------------------------------------ *)
(** * Consequences of token conservation *)

Lemma tokens_perm : forall s, inv_tokens s -> Permutation (tokens s) (seq 0 (length (created s))).
Proof. intros s H; apply cnt_perm_seq; exact H. Qed.

Lemma tokens_length : forall s, inv_tokens s -> length (tokens s) = length (created s).
Proof.
  intros s H. rewrite (Permutation_length (tokens_perm s H)). apply seq_length.
Qed.

Lemma tokens_nodup : forall s, inv_tokens s -> NoDup (tokens s).
Proof.
  intros s H. eapply Permutation_NoDup; [apply Permutation_sym, tokens_perm; exact H|].
  apply seq_NoDup.
Qed.

Lemma tokens_lt : forall s t, inv_tokens s -> In t (tokens s) -> t < length (created s).
Proof.
  intros s t H Hin. eapply Permutation_in in Hin; [|apply tokens_perm; exact H].
  apply in_seq in Hin; lia.
Qed.

Lemma created_seq : forall cfg s, reachable cfg s -> created s = seq 0 (length (created s)).
Proof.
  intros cfg s Hr; induction Hr using reachable_ind'.
  - reflexivity.
  - match goal with Hs : step _ _ _ _ |- _ => destruct Hs end;
      try match goal with r : cres |- _ => destruct r end;
      unfold consume_effect; sst; try assumption;
      rewrite app_length; cbn [length]; rewrite Nat.add_1_r, seq_S; cbn [plus]; congruence.
Qed.

(** C16 *)
Lemma created_bound : forall cfg s, wf_config cfg -> reachable cfg s ->
  length (created s) <= qlen cfg + 1.
Proof.
  intros cfg s Hwf Hr.
  pose proof (invA_reachable cfg s Hwf Hr) as HA. pose proof (invB_reachable cfg s Hwf Hr) as HB.
  unfold invA in HA; destruct HA as (_ & _ & _ & _ & _ & _ & Ii & _).
  unfold invB in HB; destruct HB as (Ic & _).
  destruct (mpc s); lia.
Qed.

(** filled sets that the consumer has not yet received: handed to the pool
    ([RExec]), queued, being worked on, or waiting in the result channel *)
Definition rexec_n (p : rpc_t) : nat := match p with RExec _ _ => 1 | _ => 0 end.
Definition in_flight (s : state) : nat :=
  rexec_n (rpc s) + length (jobs s) + length (active s) + length (flat_map msg_tags (doneq s)).

Lemma in_flight_bound : forall cfg s, wf_config cfg -> reachable cfg s ->
  in_flight s <= qlen cfg.
Proof.
  intros cfg s Hwf Hr.
  pose proof (tokens_length s (inv_tokens_reachable cfg s Hwf Hr)) as HL.
  pose proof (invB_reachable cfg s Hwf Hr) as HB.
  unfold invB in HB; destruct HB as (_ & _ & Ij).
  unfold tokens in HL; repeat rewrite app_length in HL; repeat rewrite map_length in HL.
  unfold in_flight.
  assert (rexec_n (rpc s) <= length (rhold (rpc s))) by (destruct (rpc s); cbn; lia).
  lia.
Qed.

Lemma fill_uses_created_tag : forall cfg s t r s', wf_config cfg -> reachable cfg s ->
  apply cfg s (EFill t r) = Some s' -> In t (created s).
Proof.
  intros cfg s t r s' Hwf Hr Ha.
  pose proof (inv_tokens_reachable cfg s Hwf Hr) as HT.
  assert (Hin : In t (tokens s)).
  { apply apply_step in Ha. inversion Ha; subst; unfold tokens;
      match goal with H : rpc s = _ |- _ => rewrite H end; cbn [rhold];
      apply in_or_app; right; left; reflexivity. }
  rewrite (created_seq cfg s Hr). apply in_seq. pose proof (tokens_lt s t HT Hin); lia.
Qed.

(** C08: the sends of the consumer side never block *)
Lemma main_send_never_blocks : forall cfg s, wf_config cfg -> reachable cfg s ->
  match mpc s with
  | MInitSend _ _ | MRecycle _ _ _ _ => length (emptyq s) < qlen cfg
  | _ => True
  end.
Proof.
  intros cfg s Hwf Hr.
  pose proof (tokens_length s (inv_tokens_reachable cfg s Hwf Hr)) as HL.
  pose proof (invA_reachable cfg s Hwf Hr) as HA. pose proof (invB_reachable cfg s Hwf Hr) as HB.
  unfold invA in HA; destruct HA as (_ & _ & _ & _ & _ & _ & Ii & _ & _ & Icur & _).
  unfold invB in HB; destruct HB as (Ic & _).
  unfold tokens in HL; repeat rewrite app_length in HL.
  destruct (mpc s); try exact I; cbn [mhold length] in HL.
  - lia.
  - destruct (cur s); [cbn [opt_list length] in HL; lia|congruence].
Qed.

Lemma token_conservation : forall cfg s, wf_config cfg -> reachable cfg s ->
  Permutation (tokens s) (seq 0 (length (created s))) /\ created s = seq 0 (length (created s)).
Proof.
  intros cfg s Hwf Hr; split;
    [apply tokens_perm, (inv_tokens_reachable cfg); assumption|apply (created_seq cfg); assumption].
Qed.
