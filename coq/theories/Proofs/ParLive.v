(** Termination of the parallel protocol: a measure that decreases along every step,
    and absence of deadlock. *)
From SeqIO Require Import Model.Par Proofs.ParP Proofs.ParInv Proofs.ParContent.
Require Import List Arith Bool Lia.
Import ListNotations.

Lemma list_sum_cons : forall a l, list_sum (a :: l) = a + list_sum l.
Proof. reflexivity. Qed.

Lemma continues_none : forall cfg n, continues cfg n CNone = false.
Proof. reflexivity. Qed.

(** C08_measure *)
Lemma measure_decreases_step : forall cfg s e s',
  invA cfg s -> step cfg s e s' -> measure cfg s' < measure cfg s.
Proof.
  intros cfg s e s' HA Hs.
  unfold invA in HA; destruct HA as (_ & _ & _ & _ & _ & _ & Ii & _ & _ & _ & _ & Ifill & _).
  destruct Hs; try match goal with r : cres |- _ => destruct r end;
    unfold measure, mrank, rrank, consume_effect; sst; rw_state;
    repeat rewrite ?map_app, ?list_sum_app, ?app_length in *;
    cbn [map length ajob_weight] in *; repeat rewrite ?list_sum_cons in *;
    change (list_sum []) with 0 in *; rewrite ?continues_none in *;
    split_ifs; norm_hyps; lia.
Qed.

Lemma measure_decreases : forall cfg s e s', wf_config cfg -> reachable cfg s ->
  apply cfg s e = Some s' -> measure cfg s' < measure cfg s.
Proof.
  intros cfg s e s' Hwf Hr Ha. eapply measure_decreases_step.
  - apply invA_reachable; eauto.
  - apply apply_step; exact Ha.
Qed.

(** every run from a reachable state is finite: its length is bounded by the measure *)
Lemma run_length_bound : forall cfg evs s s', wf_config cfg -> reachable cfg s ->
  run cfg s evs = Some s' -> length evs + measure cfg s' <= measure cfg s.
Proof.
  intros cfg evs; induction evs as [|e evs IH]; intros s s' Hwf Hr Hrun; cbn [run] in Hrun.
  - inversion Hrun; subst; cbn [length]; lia.
  - destruct (apply cfg s e) as [s1|] eqn:Ea; [|discriminate].
    pose proof (measure_decreases cfg s e s1 Hwf Hr Ea).
    pose proof (IH s1 s' Hwf (reachable_step cfg s e s1 Hr Ea) Hrun).
    cbn [length]; lia.
Qed.

(** explicit bound on the length of any accepted event list *)
Lemma accepted_length_bound : forall cfg evs, wf_config cfg -> accepts cfg evs = true ->
  length evs <= 2 * qlen cfg + 9 * nfills cfg + 20.
Proof.
  intros cfg evs Hwf Ha. unfold accepts in Ha.
  destruct (run cfg init_state evs) as [s|] eqn:E; [|discriminate].
  pose proof (run_length_bound cfg evs init_state s Hwf (reachable_init cfg) E) as H.
  unfold measure at 2 in H. cbn in H. lia.
Qed.


(* ------------------------------------------------------------------ *)
(** * Every step of the relation is accepted by [apply] *)

Lemma remove_first_some_of_split : forall x l1 l2, exists r, remove_first x (l1 ++ x :: l2) = Some r.
Proof.
  intros x l1 l2. apply remove_first_in. apply in_or_app; right; left; reflexivity.
Qed.

Lemma ltb_true : forall a b, a < b -> (a <? b) = true.
Proof. intros; apply Nat.ltb_lt; assumption. Qed.
Lemma ltb_false : forall a b, b <= a -> (a <? b) = false.
Proof. intros; apply Nat.ltb_ge; assumption. Qed.

Lemma step_apply : forall cfg s e s', step cfg s e s' -> exists s'', apply cfg s e = Some s''.
Proof.
  intros cfg s e s' Hs.
  destruct Hs; cbn [apply];
    unfold step_dataset_init, step_empty_send, step_done_recv, step_consume,
      step_drop_handle, step_join_reader, step_return, step_reader_init, step_empty_recv,
      step_fill, step_execute, step_send_err, step_join_all, step_send_end, step_scope_end,
      step_reader_exit, step_job_start, step_work, step_job_send, guard, send_status_of, pool_idle;
    cbv zeta;
    repeat match goal with
    | H : mpc _ = _ |- _ => rewrite H
    | H : rpc _ = _ |- _ => rewrite H
    | H : doneq _ = _ |- _ => rewrite H
    | H : emptyq _ = _ |- _ => rewrite H
    | H : jobs _ = _ |- _ => rewrite H
    | H : cur _ = _ |- _ => rewrite H
    | H : erecv_live _ = _ |- _ => rewrite H
    | H : drecv_live _ = _ |- _ => rewrite H
    | H : esend_live _ = _ |- _ => rewrite H
    | H : dinit_fails_now _ _ = _ |- _ => rewrite H
    | H : senders _ = _ |- _ => rewrite H
    | H : fend _ = _ |- _ => rewrite H
    | H : _ < _ |- _ => rewrite (ltb_true _ _ H)
    | H : _ <= _ |- _ => rewrite (ltb_false _ _ H)
    end;
    rewrite ?Nat.eqb_refl, ?recv_res_eqb_refl, ?cres_eqb_refl, ?opt_nat_eqb_refl,
      ?fill_res_eqb_refl, ?Bool.eqb_reflx;
    cbn [negb andb];
    try (eexists; reflexivity).
  all: repeat match goal with H : active _ = _ |- _ => rewrite H end;
       try (eexists; reflexivity).
  all: match goal with
       | |- context [remove_first ?x (?l1 ++ ?x :: ?l2)] =>
           destruct (remove_first_some_of_split x l1 l2) as [r Hr]; rewrite Hr;
           eexists; reflexivity
       end.
Qed.


(* ------------------------------------------------------------------ *)
(** * [enabled] is exactly the set of accepted events *)

Lemma enabled_sound : forall cfg s e, In e (enabled cfg s) -> exists s', apply cfg s e = Some s'.
Proof.
  intros cfg s e H. unfold enabled in H. apply filter_In in H. destruct H as [_ H].
  destruct (apply cfg s e) as [s'|]; [exists s'; reflexivity|discriminate].
Qed.

Lemma candidates_complete : forall cfg s e s', step cfg s e s' ->
  In e (main_candidates cfg s ++ reader_candidates cfg s ++ worker_candidates cfg s).
Proof.
  intros cfg s e s' Hs.
  destruct Hs;
    first [ (* main *)
            apply in_or_app; left; unfold main_candidates;
            repeat match goal with
            | H : mpc _ = _ |- _ => rewrite H
            | H : doneq _ = _ |- _ => rewrite H
            end;
            try (destruct (result_ok cfg s));
            cbn [In]; solve [auto 6]
          | (* reader *)
            apply in_or_app; right; apply in_or_app; left; unfold reader_candidates;
            repeat match goal with
            | H : rpc _ = _ |- _ => rewrite H
            | H : emptyq _ = _ |- _ => rewrite H
            end;
            try (destruct (rinit_ok cfg));
            cbn [In]; solve [auto 6]
          | (* worker *)
            apply in_or_app; right; apply in_or_app; right; unfold worker_candidates;
            match goal with
            | H : jobs _ = _ |- _ => rewrite H; apply in_or_app; left; left; reflexivity
            | H : active _ = _ |- _ =>
                rewrite H; apply in_or_app; right; apply in_flat_map;
                eexists; split; [apply in_or_app; right; left; reflexivity|];
                cbn [ajob_candidates In]; auto
            end ].
Qed.

Lemma enabled_complete : forall cfg s e s', apply cfg s e = Some s' -> In e (enabled cfg s).
Proof.
  intros cfg s e s' Ha. unfold enabled. apply filter_In. split.
  - eapply candidates_complete. apply apply_step. exact Ha.
  - rewrite Ha; reflexivity.
Qed.

Lemma enabled_iff : forall cfg s e, In e (enabled cfg s) <-> exists s', apply cfg s e = Some s'.
Proof.
  intros cfg s e; split; [apply enabled_sound|]. intros [s' H]; eapply enabled_complete; eauto.
Qed.

Lemma step_enabled : forall cfg s e s', step cfg s e s' -> enabled cfg s <> [].
Proof.
  intros cfg s e s' Hs. destruct (step_apply cfg s e s' Hs) as [s'' Ha].
  pose proof (enabled_complete cfg s e s'' Ha) as Hin. intros E; rewrite E in Hin; destruct Hin.
Qed.

(* ------------------------------------------------------------------ *)
(** * No deadlock *)

(** if the result channel cannot block a sender, some worker or the reader can move,
    unless the reader waits for an empty set that main could still send, or has exited *)
Lemma others_progress : forall cfg s, wf_config cfg -> invA cfg s ->
  (drecv_live s = false \/ length (doneq s) < qlen cfg) ->
  (rpc s = RRecv -> emptyq s = [] -> esend_live s = true ->
   jobs s = [] -> active s = [] -> False) ->
  (rpc s = RDone -> jobs s = [] -> active s = [] -> False) ->
  exists e s', step cfg s e s'.
Proof.
  intros cfg s [Hn Hq] HA Hdq Hblk Hdone.
  unfold invA in HA; destruct HA as (_ & _ & _ & _ & _ & _ & _ & _ & _ & _ & _ & Ifill & _).
  destruct (active s) as [|a arest] eqn:Hact.
  2:{ change (a :: arest) with ([] ++ a :: arest) in Hact. destruct a as [t c|t c o].
      - eexists; eexists; eapply S_work; exact Hact.
      - destruct (drecv_live s) eqn:Hd.
        + destruct Hdq as [Hdq|Hdq]; [discriminate|].
          eexists; eexists; eapply S_job_send_ok; eauto.
        + eexists; eexists; eapply S_job_send_fail; eauto. }
  destruct (jobs s) as [|[t c] jrest] eqn:Hjobs.
  2:{ eexists; eexists; eapply S_job_start; [exact Hjobs|rewrite Hact; cbn [length]; lia]. }
  destruct (rpc s) eqn:Hrp.
  - eexists; eexists; eapply S_rinit; eauto.
  - destruct (emptyq s) as [|t rest] eqn:He.
    + destruct (esend_live s) eqn:Hes.
      * exfalso; apply Hblk; auto.
      * eexists; eexists; eapply S_erecv_none; eauto.
    + eexists; eexists; eapply S_erecv_some; eauto.
  - destruct (Nat.ltb_spec (length (filled s)) (nfills cfg)) as [Hlt|Hge].
    + eexists; eexists; eapply S_fill_ok; eauto.
    + destruct (fend cfg) eqn:Hfe.
      * eexists; eexists; eapply S_fill_end; eauto.
      * eexists; eexists; eapply S_fill_err; eauto.
  - eexists; eexists; eapply S_execute; eauto.
  - destruct (drecv_live s) eqn:Hd.
    + destruct Hdq as [Hdq|Hdq]; [discriminate|].
      eexists; eexists; eapply S_send_err_ok; eauto.
    + eexists; eexists; eapply S_send_err_fail; eauto.
  - eexists; eexists; eapply S_join_all; eauto.
  - destruct (drecv_live s) eqn:Hd.
    + destruct Hdq as [Hdq|Hdq]; [discriminate|].
      eexists; eexists; eapply S_send_end_ok; eauto.
    + eexists; eexists; eapply S_send_end_fail; eauto.
  - eexists; eexists; eapply S_scope_end; eauto.
  - eexists; eexists; eapply S_reader_exit; eauto.
  - exfalso; apply Hdone; auto.
Qed.

Lemma progress_step : forall cfg s, wf_config cfg -> reachable cfg s -> final s = false ->
  exists e s', step cfg s e s'.
Proof.
  intros cfg s Hwf Hr Hf.
  pose proof (invA_reachable cfg s Hwf Hr) as HA.
  pose proof (invB_reachable cfg s Hwf Hr) as HB.
  pose proof (tokens_length s (inv_tokens_reachable cfg s Hwf Hr)) as HL.
  pose proof (main_send_never_blocks cfg s Hwf Hr) as Hnb.
  pose proof HA as HA'.
  unfold invA in HA;
    destruct HA as (Ies & Idr & Ier & Irs & Idq & Ieq & Ii & Iidle & Iact & Icur & Irinit & Ifill & Imf & Idql).
  unfold invB in HB; destruct HB as (Ic & Id & Ij).
  destruct Hwf as [Hn Hq].
  unfold final in Hf.
  destruct (mpc s) eqn:Hm; try discriminate Hf; cbn [main_alive] in *.
  - (* MInit *)
    destruct (dinit_fails_now cfg s) eqn:Hd.
    + eexists; eexists; eapply S_dinit_fail; eauto.
    + eexists; eexists; eapply S_dinit_ok; eauto.
  - (* MInitSend *)
    destruct (erecv_live s) eqn:He.
    + eexists; eexists; eapply S_isend_ok; eauto.
    + eexists; eexists; eapply S_isend_fail; eauto.
  - (* MCur *)
    destruct (dinit_fails_now cfg s) eqn:Hd.
    + eexists; eexists; eapply S_cur_fail; eauto.
    + eexists; eexists; eapply S_cur_ok; eauto.
  - (* MFunc *)
    destruct (doneq s) as [|m rest] eqn:Hdq.
    + destruct (senders s) as [|k] eqn:Hsn.
      * eexists; eexists; eapply S_recv_closed; eauto.
      * apply others_progress; [split; assumption|exact HA'|right; rewrite Hdq; cbn [length]; lia| |].
        -- intros Hrp He Hes Hj Ha.
           rewrite Hrp in *. cbn [reader_alive reader_in_loop] in *.
           destruct Ic as [_ Ic]. specialize (Ic Ier). specialize (Id eq_refl Idr).
           unfold tokens in HL. rewrite Hrp, Hm, He, Hj, Ha, Hdq, Id in HL.
           cbn [rhold mhold map flat_map app length] in HL. rewrite app_nil_r in HL.
           destruct (cur s); cbn [opt_list length] in HL; lia.
        -- intros Hrp Hj Ha. unfold senders in Hsn. rewrite Hrp, Hj, Ha in *.
           cbn [reader_alive reader_clone length] in *. rewrite Irs in Hsn. cbn [b2n] in Hsn. lia.
    + destruct m as [t c o| |].
      * destruct (cur s) as [prev|] eqn:Hc; [|congruence].
        eexists; eexists; eapply S_recv_data; eauto.
      * eexists; eexists; eapply S_recv_err; eauto.
      * eexists; eexists; eapply S_recv_end; eauto.
  - (* MRecycle *)
    destruct (erecv_live s) eqn:He.
    + eexists; eexists; eapply S_recycle_ok; eauto.
    + eexists; eexists; eapply S_recycle_fail; eauto.
  - eexists; eexists; eapply S_consume; eauto.
  - eexists; eexists; eapply S_drop; eauto.
  - (* MJoin *)
    destruct (rpc s) eqn:Hrp;
      try (apply others_progress;
           [split; assumption|exact HA'|left; exact Idr
           |intros; congruence|intros; congruence]).
    eexists; eexists; eapply S_join_reader; eauto.
  - eexists; eexists; eapply S_return; eauto.
Qed.

(** C08_progress *)
Lemma no_deadlock : forall cfg s, wf_config cfg -> reachable cfg s -> final s = false ->
  enabled cfg s <> [].
Proof.
  intros cfg s Hwf Hr Hf. destruct (progress_step cfg s Hwf Hr Hf) as (e & s' & Hs).
  eapply step_enabled; eauto.
Qed.

Lemma never_deadlocked : forall cfg s, wf_config cfg -> reachable cfg s -> deadlocked cfg s = false.
Proof.
  intros cfg s Hwf Hr. unfold deadlocked. destruct (final s) eqn:Hf; [reflexivity|].
  pose proof (no_deadlock cfg s Hwf Hr Hf). destruct (enabled cfg s); [congruence|reflexivity].
Qed.

(** a final state has no enabled event: runs end exactly at final states *)
Lemma final_no_step : forall cfg s e s', wf_config cfg -> reachable cfg s -> final s = true ->
  apply cfg s e = Some s' -> False.
Proof.
  intros cfg s e s' Hwf Hr Hf Ha.
  destruct (final_clean cfg s Hwf Hr Hf) as (Hm & Hrp & Hj & Hac & _).
  apply apply_step in Ha. destruct Ha; try congruence;
    rewrite Hac in *; nil_contra.
Qed.
