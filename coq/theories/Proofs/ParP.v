(** Proofs about the parallel protocol model (Model/Par.v), part 1:
    basic lemmas, the step relation (an inversion principle for [apply]),
    reachability. *)
From SeqIO Require Import Model.Par.
Require Import List Arith Bool Lia.
Import ListNotations.

(* ------------------------------------------------------------------ *)
(** * Boolean equalities *)

Lemma ajob_eqb_eq : forall a b, ajob_eqb a b = true <-> a = b.
Proof.
  intros a b; destruct a, b; cbn [ajob_eqb]; split; intros H;
    try discriminate; try congruence;
    repeat rewrite andb_true_iff in *; repeat rewrite Nat.eqb_eq in *.
  - destruct H; subst; reflexivity.
  - inversion H; subst; auto.
  - destruct H as [[? ?] ?]; subst; reflexivity.
  - inversion H; subst; auto.
Qed.

Lemma ajob_eqb_refl : forall a, ajob_eqb a a = true.
Proof. intros a; apply ajob_eqb_eq; reflexivity. Qed.

Lemma remove_first_spec : forall x l r,
  remove_first x l = Some r -> exists l1 l2, l = l1 ++ x :: l2 /\ r = l1 ++ l2.
Proof.
  intros x l; induction l as [|y l IH]; intros r H; cbn [remove_first] in H.
  - discriminate.
  - destruct (ajob_eqb x y) eqn:E.
    + apply ajob_eqb_eq in E; subst y. inversion H; subst r.
      exists [], l; split; reflexivity.
    + destruct (remove_first x l) as [r'|] eqn:E2; [|discriminate].
      inversion H; subst r. destruct (IH r' eq_refl) as (l1 & l2 & -> & ->).
      exists (y :: l1), l2; split; reflexivity.
Qed.

Lemma remove_first_in : forall x l, In x l -> exists r, remove_first x l = Some r.
Proof.
  intros x l; induction l as [|y l IH]; intros H; [destruct H|].
  cbn [remove_first]. destruct (ajob_eqb x y) eqn:E; [eexists; reflexivity|].
  destruct H as [H|H].
  - subst y. rewrite ajob_eqb_refl in E; discriminate.
  - destruct (IH H) as [r ->]. eexists; reflexivity.
Qed.

Lemma send_status_ok : forall l len q, send_status_of l len q = SendOk -> l = true /\ len < q.
Proof.
  intros l len q; unfold send_status_of; destruct l; [|discriminate].
  destruct (len <? q) eqn:E; [|discriminate]. apply Nat.ltb_lt in E; auto.
Qed.
Lemma send_status_disc : forall l len q, send_status_of l len q = SendDisc -> l = false.
Proof.
  intros l len q; unfold send_status_of; destruct l; [|reflexivity].
  destruct (len <? q); discriminate.
Qed.
Lemma send_status_blocked : forall l len q,
  send_status_of l len q = SendBlocked -> l = true /\ q <= len.
Proof.
  intros l len q; unfold send_status_of; destruct l; [|discriminate].
  destruct (len <? q) eqn:E; [discriminate|]. apply Nat.ltb_ge in E; auto.
Qed.
Lemma send_status_ok_intro : forall len q, len < q -> send_status_of true len q = SendOk.
Proof. intros len q H; unfold send_status_of. apply Nat.ltb_lt in H; rewrite H; reflexivity. Qed.
Lemma send_status_disc_intro : forall len q, send_status_of false len q = SendDisc.
Proof. reflexivity. Qed.

Lemma pool_idle_true : forall s, pool_idle s = true <-> jobs s = [] /\ active s = [].
Proof.
  intros s; unfold pool_idle; destruct (jobs s), (active s); split; intros H;
    try discriminate; try (destruct H; discriminate); auto.
Qed.

Lemma opt_nat_eqb_eq : forall a b, opt_nat_eqb a b = true -> a = b.
Proof. intros [a|] [b|] H; cbn in H; try discriminate; auto. apply Nat.eqb_eq in H; congruence. Qed.
Lemma fill_res_eqb_eq : forall a b, fill_res_eqb a b = true -> a = b.
Proof. intros [a| |] [b| |] H; cbn in H; try discriminate; auto. apply Nat.eqb_eq in H; congruence. Qed.
Lemma recv_res_eqb_eq : forall a b, recv_res_eqb a b = true -> a = b.
Proof.
  intros [t c o| | |] [t' c' o'| | |] H; cbn in H; try discriminate; auto.
  repeat rewrite andb_true_iff in H; repeat rewrite Nat.eqb_eq in H.
  destruct H as [[? ?] ?]; subst; reflexivity.
Qed.
Lemma cres_eqb_eq : forall a b, cres_eqb a b = true -> a = b.
Proof.
  intros [t c o| |] [t' c' o'| |] H; cbn in H; try discriminate; auto.
  repeat rewrite andb_true_iff in H; repeat rewrite Nat.eqb_eq in H.
  destruct H as [[? ?] ?]; subst; reflexivity.
Qed.
Lemma opt_nat_eqb_refl : forall a, opt_nat_eqb a a = true.
Proof. intros [a|]; cbn; auto using Nat.eqb_refl. Qed.
Lemma fill_res_eqb_refl : forall a, fill_res_eqb a a = true.
Proof. intros [a| |]; cbn; auto using Nat.eqb_refl. Qed.
Lemma recv_res_eqb_refl : forall a, recv_res_eqb a a = true.
Proof. intros [t c o| | |]; cbn; auto. rewrite !Nat.eqb_refl; reflexivity. Qed.
Lemma cres_eqb_refl : forall a, cres_eqb a a = true.
Proof. intros [t c o| |]; cbn; auto. rewrite !Nat.eqb_refl; reflexivity. Qed.
Lemma bool_eqb_eq : forall a b, Bool.eqb a b = true -> a = b.
Proof. intros a b; apply Bool.eqb_prop. Qed.

(* ------------------------------------------------------------------ *)
(** * State simplification *)

Ltac sst :=
  cbn [emptyq esend_live erecv_live doneq drecv_live rsend_live jobs active rpc mpc cur
       ncalls mfail created filled delivered destroyed lost nerr nerr_seen nerr_lost
       set_emptyq set_esend_live set_erecv_live set_doneq set_drecv_live set_rsend_live
       set_jobs set_active set_rpc set_mpc set_cur set_ncalls set_mfail set_created
       set_filled set_delivered set_destroyed set_lost set_nerr set_nerr_seen set_nerr_lost] in *.

(* ------------------------------------------------------------------ *)
(** * The step relation: one constructor per (event, outcome) *)

Definition consume_effect (s : state) (r : cres) : state :=
  let s1 := set_ncalls (S (ncalls s)) s in
  match r with
  | CData _ c o => set_delivered (delivered s ++ [(c, o)]) s1
  | CErr => set_nerr_seen (S (nerr_seen s)) s1
  | CNone => s1
  end.

Inductive step (cfg : config) (s : state) : event -> state -> Prop :=
  (* Main *)
  | S_dinit_ok i : mpc s = MInit i -> dinit_fails_now cfg s = false ->
      step cfg s (EDatasetInit (Some (length (created s))))
        (set_mpc (MInitSend i (length (created s)))
           (set_created (created s ++ [length (created s)]) s))
  | S_dinit_fail i : mpc s = MInit i -> dinit_fails_now cfg s = true ->
      step cfg s (EDatasetInit None) (set_mpc MDrop (set_mfail true s))
  | S_cur_ok : mpc s = MCur -> dinit_fails_now cfg s = false ->
      step cfg s (EDatasetInit (Some (length (created s))))
        (set_mpc (if wants_first cfg then MFunc else MDrop)
           (set_cur (Some (length (created s)))
              (set_created (created s ++ [length (created s)]) s)))
  | S_cur_fail : mpc s = MCur -> dinit_fails_now cfg s = true ->
      step cfg s (EDatasetInit None) (set_mpc MDrop (set_mfail true s))
  | S_isend_ok i t : mpc s = MInitSend i t -> erecv_live s = true ->
      length (emptyq s) < qlen cfg ->
      step cfg s (EEmptySend t true)
        (set_mpc (if S i <? qlen cfg then MInit (S i) else MCur) (set_emptyq (emptyq s ++ [t]) s))
  | S_isend_fail i t : mpc s = MInitSend i t -> erecv_live s = false ->
      step cfg s (EEmptySend t false) (set_mpc MCur (set_destroyed (destroyed s ++ [t]) s))
  | S_recv_data t c o rest prev : mpc s = MFunc -> doneq s = Data t c o :: rest ->
      cur s = Some prev ->
      step cfg s (EDoneRecv (RData t c o))
        (set_mpc (MRecycle prev t c o) (set_cur (Some t) (set_doneq rest s)))
  | S_recv_err rest : mpc s = MFunc -> doneq s = MErr :: rest ->
      step cfg s (EDoneRecv RErr) (set_mpc (MGot CErr) (set_doneq rest s))
  | S_recv_end rest : mpc s = MFunc -> doneq s = MEnd :: rest ->
      step cfg s (EDoneRecv REnd) (set_mpc (MGot CNone) (set_doneq rest s))
  | S_recv_closed : mpc s = MFunc -> doneq s = [] -> senders s = 0 ->
      step cfg s (EDoneRecv RClosed) (set_mpc (MGot CNone) s)
  | S_recycle_ok prev t c o : mpc s = MRecycle prev t c o -> erecv_live s = true ->
      length (emptyq s) < qlen cfg ->
      step cfg s (EEmptySend prev true)
        (set_mpc (MGot (CData t c o)) (set_emptyq (emptyq s ++ [prev]) s))
  | S_recycle_fail prev t c o : mpc s = MRecycle prev t c o -> erecv_live s = false ->
      step cfg s (EEmptySend prev false)
        (set_mpc (MGot (CData t c o)) (set_destroyed (destroyed s ++ [prev]) s))
  | S_consume r : mpc s = MGot r ->
      step cfg s (EConsume r)
        (set_mpc (if continues cfg (S (ncalls s)) r then MFunc else MDrop) (consume_effect s r))
  | S_drop : mpc s = MDrop ->
      step cfg s EDropHandle
        (set_mpc MJoin
        (set_cur None
        (set_destroyed (destroyed s ++ flat_map msg_tags (doneq s) ++ opt_list (cur s))
        (set_lost (lost s ++ flat_map msg_contents (doneq s))
        (set_nerr_lost (nerr_lost s + list_sum (map msg_errs (doneq s)))
        (set_doneq []
        (set_drecv_live false
        (set_esend_live false s))))))))
  | S_join_reader : mpc s = MJoin -> rpc s = RDone -> step cfg s EJoinReader (set_mpc MRet s)
  | S_return : mpc s = MRet -> step cfg s (EReturn (result_ok cfg s)) (set_mpc MDone s)
  (* Reader *)
  | S_rinit : rpc s = RInit ->
      step cfg s (EReaderInit (rinit_ok cfg)) (set_rpc (if rinit_ok cfg then RRecv else RExit) s)
  | S_erecv_some t rest : rpc s = RRecv -> emptyq s = t :: rest ->
      step cfg s (EEmptyRecv (Some t)) (set_rpc (RFill t) (set_emptyq rest s))
  | S_erecv_none : rpc s = RRecv -> emptyq s = [] -> esend_live s = false ->
      step cfg s (EEmptyRecv None) (set_rpc RScopeEnd s)
  | S_fill_ok t : rpc s = RFill t -> length (filled s) < nfills cfg ->
      step cfg s (EFill t (FOk (length (filled s))))
        (set_rpc (RExec t (length (filled s))) (set_filled (filled s ++ [length (filled s)]) s))
  | S_fill_end t : rpc s = RFill t -> nfills cfg <= length (filled s) -> fend cfg = ScriptEnd ->
      step cfg s (EFill t FEnd) (set_rpc RJoin (set_destroyed (destroyed s ++ [t]) s))
  | S_fill_err t : rpc s = RFill t -> nfills cfg <= length (filled s) -> fend cfg = ScriptErr ->
      step cfg s (EFill t FErr) (set_rpc RSendErr (set_destroyed (destroyed s ++ [t]) s))
  | S_execute t c : rpc s = RExec t c ->
      step cfg s (EExecute t c) (set_rpc RRecv (set_jobs (jobs s ++ [(t, c)]) s))
  | S_send_err_ok : rpc s = RSendErr -> drecv_live s = true -> length (doneq s) < qlen cfg ->
      step cfg s (ESendErr true)
        (set_rpc RJoin (set_nerr (S (nerr s)) (set_doneq (doneq s ++ [MErr]) s)))
  | S_send_err_fail : rpc s = RSendErr -> drecv_live s = false ->
      step cfg s (ESendErr false) (set_rpc RJoin s)
  | S_join_all : rpc s = RJoin -> jobs s = [] -> active s = [] ->
      step cfg s EJoinAll (set_rpc RSendEnd s)
  | S_send_end_ok : rpc s = RSendEnd -> drecv_live s = true -> length (doneq s) < qlen cfg ->
      step cfg s (ESendEnd true) (set_rpc RScopeEnd (set_doneq (doneq s ++ [MEnd]) s))
  | S_send_end_fail : rpc s = RSendEnd -> drecv_live s = false ->
      step cfg s (ESendEnd false) (set_rpc RScopeEnd s)
  | S_scope_end : rpc s = RScopeEnd -> jobs s = [] -> active s = [] ->
      step cfg s EScopeEnd (set_rpc RExit s)
  | S_reader_exit : rpc s = RExit ->
      step cfg s EReaderExit
        (set_rpc RDone
        (set_destroyed (destroyed s ++ emptyq s)
        (set_emptyq []
        (set_rsend_live false
        (set_erecv_live false s)))))
  (* Worker *)
  | S_job_start t c rest : jobs s = (t, c) :: rest -> length (active s) < nworkers cfg ->
      step cfg s (EJobStart t c) (set_active (active s ++ [Run t c]) (set_jobs rest s))
  | S_work t c l1 l2 : active s = l1 ++ Run t c :: l2 ->
      step cfg s (EWork t c (work cfg c))
        (set_active ((l1 ++ l2) ++ [Send t c (work cfg c)]) s)
  | S_job_send_ok t c o l1 l2 : active s = l1 ++ Send t c o :: l2 ->
      drecv_live s = true -> length (doneq s) < qlen cfg ->
      step cfg s (EJobSend t c o true)
        (set_active (l1 ++ l2) (set_doneq (doneq s ++ [Data t c o]) s))
  | S_job_send_fail t c o l1 l2 : active s = l1 ++ Send t c o :: l2 ->
      drecv_live s = false ->
      step cfg s (EJobSend t c o false)
        (set_active (l1 ++ l2) (set_destroyed (destroyed s ++ [t]) (set_lost (lost s ++ [c]) s))).

(** inversion of [apply] *)

Ltac break_match H :=
  match type of H with
  | (match ?x with _ => _ end) = _ => destruct x eqn:?
  end.

Ltac norm_hyps :=
  repeat match goal with
  | H : _ && _ = true |- _ => apply andb_true_iff in H; destruct H
  | H : negb _ = true |- _ => apply negb_true_iff in H
  | H : negb _ = false |- _ => apply negb_false_iff in H
  | H : (_ =? _) = true |- _ => apply Nat.eqb_eq in H
  | H : (_ <? _) = true |- _ => apply Nat.ltb_lt in H
  | H : (_ <? _) = false |- _ => apply Nat.ltb_ge in H
  | H : opt_nat_eqb _ _ = true |- _ => apply opt_nat_eqb_eq in H
  | H : fill_res_eqb _ _ = true |- _ => apply fill_res_eqb_eq in H
  | H : recv_res_eqb _ _ = true |- _ => apply recv_res_eqb_eq in H
  | H : cres_eqb _ _ = true |- _ => apply cres_eqb_eq in H
  | H : Bool.eqb _ _ = true |- _ => apply bool_eqb_eq in H
  | H : pool_idle _ = true |- _ => apply pool_idle_true in H; destruct H
  | H : send_status_of _ _ _ = SendOk |- _ => apply send_status_ok in H; destruct H
  | H : send_status_of _ _ _ = SendDisc |- _ => apply send_status_disc in H
  | H : remove_first _ _ = Some _ |- _ =>
      apply remove_first_spec in H; destruct H as (? & ? & ? & ?)
  end.

Lemma apply_step : forall cfg s e s', apply cfg s e = Some s' -> step cfg s e s'.
Proof.
  intros cfg s e s' H.
  destruct e; cbn [apply] in H;
    unfold step_dataset_init, step_empty_send, step_done_recv, step_consume,
      step_drop_handle, step_join_reader, step_return, step_reader_init, step_empty_recv,
      step_fill, step_execute, step_send_err, step_join_all, step_send_end, step_scope_end,
      step_reader_exit, step_job_start, step_work, step_job_send, guard in H;
    cbv zeta in H;
    repeat break_match H; try discriminate H;
    injection H as H; norm_hyps; subst;
    econstructor; solve [eauto].
Qed.

(** the converse: the relation is exactly [apply] *)
Lemma remove_first_split : forall x l1 l2, ~ In x l1 ->
  remove_first x (l1 ++ x :: l2) = Some (l1 ++ l2).
Proof.
  intros x l1; induction l1 as [|y l1 IH]; intros l2 Hn; cbn [remove_first app].
  - rewrite ajob_eqb_refl; reflexivity.
  - destruct (ajob_eqb x y) eqn:E.
    + apply ajob_eqb_eq in E; subst y. exfalso; apply Hn; left; reflexivity.
    + rewrite IH; [reflexivity|]. intros Hi; apply Hn; right; exact Hi.
Qed.

(* ------------------------------------------------------------------ *)
(** * Runs and reachability *)

Lemma run_app : forall cfg evs1 evs2 s,
  run cfg s (evs1 ++ evs2) =
  match run cfg s evs1 with Some s1 => run cfg s1 evs2 | None => None end.
Proof.
  intros cfg evs1; induction evs1 as [|e evs1 IH]; intros evs2 s; cbn [run app].
  - reflexivity.
  - destruct (apply cfg s e); [apply IH|reflexivity].
Qed.

Definition reachable (cfg : config) (s : state) : Prop :=
  exists evs, run cfg init_state evs = Some s.

Lemma reachable_init : forall cfg, reachable cfg init_state.
Proof. intros cfg; exists []; reflexivity. Qed.

Lemma reachable_step : forall cfg s e s',
  reachable cfg s -> apply cfg s e = Some s' -> reachable cfg s'.
Proof.
  intros cfg s e s' [evs Hr] Ha. exists (evs ++ [e]).
  rewrite run_app, Hr. cbn [run]. rewrite Ha; reflexivity.
Qed.

Lemma reachable_ind' : forall cfg (P : state -> Prop),
  P init_state ->
  (forall s e s', reachable cfg s -> P s -> step cfg s e s' -> P s') ->
  forall s, reachable cfg s -> P s.
Proof.
  intros cfg P H0 Hs s [evs Hr]. revert s Hr.
  induction evs as [|e evs IH] using rev_ind; intros s Hr.
  - cbn in Hr; inversion Hr; subst; exact H0.
  - rewrite run_app in Hr. destruct (run cfg init_state evs) as [s1|] eqn:E; [|discriminate].
    cbn [run] in Hr. destruct (apply cfg s1 e) as [s2|] eqn:Ea; [|discriminate].
    inversion Hr; subst s2.
    apply (Hs s1 e s); [exists evs; exact E|apply IH; reflexivity|apply apply_step; exact Ea].
Qed.

Lemma accepts_reachable : forall cfg evs,
  accepts cfg evs = true -> exists s, run cfg init_state evs = Some s /\ reachable cfg s.
Proof.
  intros cfg evs H; unfold accepts in H.
  destruct (run cfg init_state evs) as [s|] eqn:E; [|discriminate].
  exists s; split; [reflexivity|exists evs; exact E].
Qed.

(** generic tactics for invariant proofs *)
Ltac rw_state :=
  repeat match goal with
  | H : mpc _ = _ |- _ => progress (rewrite H in * )
  | H : rpc _ = _ |- _ => progress (rewrite H in * )
  | H : doneq _ = _ |- _ => progress (rewrite H in * )
  | H : emptyq _ = _ |- _ => progress (rewrite H in * )
  | H : jobs _ = _ |- _ => progress (rewrite H in * )
  | H : active _ = _ |- _ => progress (rewrite H in * )
  | H : cur _ = _ |- _ => progress (rewrite H in * )
  | H : erecv_live _ = _ |- _ => progress (rewrite H in * )
  | H : drecv_live _ = _ |- _ => progress (rewrite H in * )
  | H : esend_live _ = _ |- _ => progress (rewrite H in * )
  | H : rsend_live _ = _ |- _ => progress (rewrite H in * )
  end.

Ltac split_ifs :=
  repeat match goal with
  | |- context [if ?b then _ else _] => destruct b eqn:?
  end.

(** a concrete schedule for the non-vacuity examples: always take the LAST enabled
    event (workers before reader before main), or the first *)
Fixpoint greedy (last : bool) (cfg : config) (fuel : nat) (s : state) : list event :=
  match fuel with
  | 0 => []
  | S f =>
      match (if last then rev (enabled cfg s) else enabled cfg s) with
      | [] => []
      | e :: _ => match apply cfg s e with
                  | Some s' => e :: greedy last cfg f s'
                  | None => []
                  end
      end
  end.

Definition end_state (cfg : config) (evs : list event) : state :=
  match run cfg init_state evs with Some s => s | None => init_state end.

Lemma reachable_end_state : forall cfg evs, reachable cfg (end_state cfg evs).
Proof.
  intros cfg evs; unfold end_state.
  destruct (run cfg init_state evs) as [s|] eqn:E; [exists evs; exact E|apply reachable_init].
Qed.
