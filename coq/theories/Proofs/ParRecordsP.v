(** C07 for the per-record functions parallel_fasta / parallel_fastq
    (macro parallel_record_impl! of /repo/src/parallel.rs): from record SETS to RECORDS.

    A data set of the per-record functions is (RecordSet, (Vec<D>, S)).  The protocol of
    Model/Par.v moves data sets (tag t) filled with content c around; here the content c is
    refined to the batch of records [nth c batches []], the WORK closure to
    [work_zip w d0 old batch] on the output vector [old] that travels with the recycled set,
    and the CONSUMER closure to [consume_zip batch out] (the list of the (record, &mut d)
    pairs `func` is called with, in call order).

    Part 1: which recycled vector meets which batch depends on the schedule, therefore the
            old vectors are an ARBITRARY function [old_of] of the content id.
    Part 2: the output vectors are TRACKED along an event trace (vector of tag t, empty at
            creation, rewritten by every EWork t c _), and what `func` sees at every
            EConsume (CData t c _) is computed from the tracked vector; the tracked run is an
            instance of Part 1 (every delivered set is paired with the vector the worker
            left for exactly that set, whatever happened to the other sets meanwhile). *)
From SeqIO Require Import Model.Base Model.Fastq Model.Views Spec.FastaSpec Spec.FastqSpec Spec.CursorQ
  Proofs.Window Proofs.FastaInv Proofs.FqSpecP Proofs.ViewsP Proofs.FastqInv Proofs.FastqNextP
  Proofs.FastqSetP Proofs.FastqSeekP Proofs.CursorP Proofs.CursorBridgeP Proofs.FastqHistP Proofs.FastqHistEx.
From SeqIO Require Import Model.Fasta Spec.Cursor Proofs.FastaStream Proofs.FastaNextP Proofs.FastaTopP
  Proofs.FastaPosP Proofs.FastaInitP Proofs.FastaSetP Proofs.FastaSeekP Proofs.FastaHistP.
From SeqIO Require Import Model.Par Proofs.ParP Proofs.ParEx Proofs.ParInv Proofs.ParContent Proofs.ParZip
  Proofs.ParLive Proofs.ParErr Proofs.ParComposeP.
Require Import List Arith Bool Lia Permutation.
Import ListNotations.

(* ------------------------------------------------------------------ *)
(** * Definitions *)

(** a record together with the output computed for it *)
Definition with_result {R D : Type} (f : R -> D) (l : list R) : list (R * D) := map (fun r => (r, f r)) l.

(** what `func` is called with while the consumer goes through the delivered sets [dl]
    (content id, abstract out): for set c the zip of its records with the vector the worker
    made of the recycled vector [old_of c] *)
Definition seen_of {R D : Type} (batches : list (list R)) (w : R -> D -> D) (d0 : D)
           (old_of : nat -> list D) (dl : list (nat * nat)) : list (R * D) :=
  concat (map (fun p => consume_zip (nth (fst p) batches [])
                          (work_zip w d0 (old_of (fst p)) (nth (fst p) batches []))) dl).

(** the records of the delivered sets, in delivery order *)
Definition recs_of {R : Type} (batches : list (list R)) (ids : list nat) : list R :=
  concat (map (fun c => nth c batches []) ids).

(* ------------------------------------------------------------------ *)
(** * Lists *)

Lemma with_result_app {R D} (f : R -> D) l1 l2 : with_result f (l1 ++ l2) = with_result f l1 ++ with_result f l2.
Proof. apply map_app. Qed.

Lemma with_result_concat {R D} (f : R -> D) (ll : list (list R)) :
  with_result f (concat ll) = concat (map (with_result f) ll).
Proof. unfold with_result. apply concat_map. Qed.

Lemma with_result_length {R D} (f : R -> D) l : length (with_result f l) = length l.
Proof. apply map_length. Qed.

Lemma with_result_firstn {R D} (f : R -> D) j l : firstn j (with_result f l) = with_result f (firstn j l).
Proof. unfold with_result. apply firstn_map. Qed.

Lemma with_result_forall {R D} (f : R -> D) l : Forall (fun p => snd p = f (fst p)) (with_result f l).
Proof. unfold with_result. apply Forall_forall. intros p Hin. apply in_map_iff in Hin. destruct Hin as (r & <- & _). reflexivity. Qed.

Lemma recs_of_map_fst {R} (batches : list (list R)) (dl : list (nat * nat)) :
  recs_of batches (map fst dl) = concat (map (fun p => nth (fst p) batches []) dl).
Proof. unfold recs_of. rewrite map_map. reflexivity. Qed.

Lemma recs_of_app {R} (batches : list (list R)) l1 l2 :
  recs_of batches (l1 ++ l2) = recs_of batches l1 ++ recs_of batches l2.
Proof. unfold recs_of. rewrite map_app, concat_app. reflexivity. Qed.

Lemma firstn_seq a k m : k <= m -> firstn k (seq a m) = seq a k.
Proof.
  intros Hk. replace m with (k + (m - k)) by lia. rewrite seq_app.
  rewrite firstn_app, seq_length, Nat.sub_diag. cbn [firstn]. rewrite app_nil_r.
  rewrite <- (seq_length k a) at 1. apply firstn_all.
Qed.

Lemma recs_of_seq {R} (batches : list (list R)) k : k <= length batches ->
  recs_of batches (seq 0 k) = concat (firstn k batches).
Proof.
  intros Hk. unfold recs_of. f_equal.
  transitivity (firstn k (map (fun c => nth c batches []) (seq 0 (length batches)))).
  - rewrite firstn_map, firstn_seq by exact Hk. reflexivity.
  - rewrite map_nth_seq. reflexivity.
Qed.

(** a list without duplicates contained in another one can be completed to a permutation of it *)
Lemma nodup_incl_perm {A} (l1 : list A) : forall l2, NoDup l1 -> incl l1 l2 ->
  exists rest, Permutation l2 (l1 ++ rest).
Proof.
  induction l1 as [|x l1 IH]; intros l2 Hnd Hin.
  - exists l2. apply Permutation_refl.
  - inversion Hnd as [|x' l' Hx Hnd']; subst.
    assert (Hx2 : In x l2) by (apply Hin; left; reflexivity).
    destruct (in_split x l2 Hx2) as (a & b & ->).
    destruct (IH (a ++ b) Hnd') as [rest Hr].
    { intros y Hy. assert (Hy2 : In y (a ++ x :: b)) by (apply Hin; right; exact Hy).
      apply in_app_or in Hy2. apply in_or_app. destruct Hy2 as [Hy2|[Hy2|Hy2]]; [left; exact Hy2| |right; exact Hy2].
      subst y. contradiction. }
    exists rest. cbn [app]. eapply Permutation_trans; [apply Permutation_sym, Permutation_middle|].
    apply perm_skip. exact Hr.
Qed.

Lemma app_eq_len {A} : forall (a c b d : list A), length a = length c -> a ++ b = c ++ d -> a = c /\ b = d.
Proof.
  induction a as [|x a IH]; intros [|y c] b d Hl He; cbn [length] in Hl; try discriminate.
  - split; [reflexivity | exact He].
  - cbn [app] in He. injection He as Hx He. destruct (IH c b d ltac:(lia) He) as [-> ->]. subst y. split; reflexivity.
Qed.

Lemma firstn_prefix {A} (l1 l2 : list A) j : j <= length l1 -> firstn j (l1 ++ l2) = firstn j l1.
Proof.
  intros Hj. rewrite firstn_app. replace (j - length l1) with 0 by lia. cbn [firstn]. apply app_nil_r.
Qed.

(* ------------------------------------------------------------------ *)
(** * The per-record layer over a list of delivered sets *)

(** if work overwrites its slot, `func` sees every record of every delivered set with the
    result for that very record, whatever the recycled vectors were *)
Lemma seen_of_eq {R D} (batches : list (list R)) (w : R -> D -> D) (f : R -> D) d0 old_of :
  (forall r d, w r d = f r) ->
  forall dl, seen_of batches w d0 old_of dl = with_result f (recs_of batches (map fst dl)).
Proof.
  intros Hw dl. rewrite recs_of_map_fst. unfold seen_of.
  induction dl as [|p dl IH]; [reflexivity|].
  cbn [map concat]. rewrite with_result_app, IH. f_equal.
  apply (consume_work_zip R D w f d0 Hw).
Qed.

(** general work function (not necessarily overwriting): record i of set c is worked into the
    slot value [slots d0 (old_of c)] provides for it *)
Lemma seen_of_general {R D} (batches : list (list R)) (w : R -> D -> D) d0 old_of dl :
  seen_of batches w d0 old_of dl =
  concat (map (fun p => let b := nth (fst p) batches [] in
                        combine b (map (fun x => w (fst x) (snd x)) (combine b (slots d0 (old_of (fst p)) (length b))))) dl).
Proof.
  unfold seen_of. f_equal. apply map_ext. intros p. cbv zeta.
  rewrite consume_zip_firstn, work_zip_firstn_gen. reflexivity.
Qed.

(* ------------------------------------------------------------------ *)
(** * Draining consumer: every record exactly once *)

Theorem records_exactly_once (R D : Type) (batches : list (list R)) (w : R -> D -> D) (f : R -> D) d0
        (old_of : nat -> list D) fe n q wk s :
  (forall r d, w r d = f r) ->
  1 <= n -> 1 <= q ->
  let cfg := mkConfig n q true None (length batches, fe) Drain wk in
  reachable cfg s -> final s = true -> mfail s = false ->
  let seen := concat (map (fun p => consume_zip (nth (fst p) batches [])
                                        (work_zip w d0 (old_of (fst p)) (nth (fst p) batches []))) (delivered s)) in
  Permutation seen (map (fun r => (r, f r)) (concat batches)) /\
  (n = 1 -> seen = map (fun r => (r, f r)) (concat batches)).
Proof.
  intros Hw Hn Hq cfg Hr Hfin Hmf seen.
  destruct (drain_batches batches fe n q wk s Hn Hq Hr Hfin Hmf) as (_ & HPc & Hord & _).
  assert (E : seen = with_result f (concat (map (fun p => nth (fst p) batches []) (delivered s)))).
  { unfold seen. fold (seen_of batches w d0 old_of (delivered s)).
    rewrite (seen_of_eq batches w f d0 old_of Hw), recs_of_map_fst. reflexivity. }
  rewrite E. split.
  - apply Permutation_map. exact HPc.
  - intros H1. rewrite (Hord H1). reflexivity.
Qed.

(** the same with the error count, and for the `result?` consumer of parallel_record_impl!
    ([DrainStopErr]) when the reader reports no error *)
Theorem records_exactly_once_patient (R D : Type) (batches : list (list R)) (w : R -> D -> D) (f : R -> D) d0
        (old_of : nat -> list D) cfg s :
  (forall r d, w r d = f r) ->
  wf_config cfg -> patient cfg -> rinit_ok cfg = true -> nfills cfg = length batches ->
  reachable cfg s -> final s = true -> mfail s = false ->
  Permutation (seen_of batches w d0 old_of (delivered s)) (with_result f (concat batches)) /\
  (nworkers cfg = 1 -> seen_of batches w d0 old_of (delivered s) = with_result f (concat batches)).
Proof.
  intros Hw Hwf Hp Hri Hnf Hr Hfin Hmf.
  destruct (delivered_exactly_once cfg s Hwf Hr Hfin Hp Hri Hmf) as (HP & _ & _).
  rewrite (seen_of_eq batches w f d0 old_of Hw), recs_of_map_fst.
  rewrite Hnf in HP. split.
  - apply Permutation_map.
    pose proof (Permutation_concat _ _ (Permutation_map (fun p : nat * nat => nth (fst p) batches []) HP)) as HPc.
    fold (batches_of batches (map (fun c => (c, work cfg c)) (seq 0 (length batches)))) in HPc.
    rewrite batches_of_all in HPc. exact HPc.
  - intros H1. rewrite (single_worker_order cfg s Hwf Hr Hfin Hp Hri Hmf H1), Hnf.
    f_equal. f_equal. exact (batches_of_all batches (work cfg)).
Qed.

(* ------------------------------------------------------------------ *)
(** * Any consumer (early exit), any state: nothing twice, every pair is (r, f r) *)

Theorem records_at_most_once (R D : Type) (batches : list (list R)) (w : R -> D -> D) (f : R -> D) d0
        (old_of : nat -> list D) cfg s :
  (forall r d, w r d = f r) ->
  wf_config cfg -> nfills cfg = length batches -> reachable cfg s ->
  let seen := seen_of batches w d0 old_of (delivered s) in
  let ids := map fst (delivered s) in
  NoDup ids /\ (forall c, In c ids -> c < length batches) /\
  seen = with_result f (recs_of batches ids) /\
  Forall (fun p => snd p = f (fst p)) seen /\
  (exists rest, Permutation (with_result f (concat batches)) (seen ++ rest)) /\
  (nworkers cfg = 1 -> ids = seq 0 (length ids) /\
                       seen = with_result f (concat (firstn (length ids) batches)) /\
                       forall j, j <= length seen -> firstn j seen = firstn j (with_result f (concat batches))).
Proof.
  intros Hw Hwf Hnf Hr seen ids.
  destruct (delivered_at_most_once cfg s Hr) as (Hnd & Hfill & _).
  fold ids in Hnd, Hfill.
  assert (Hlt : forall c, In c ids -> c < length batches).
  { intros c Hc. rewrite <- Hnf. apply (filled_below_script cfg s c Hwf Hr). apply Hfill. exact Hc. }
  assert (E : seen = with_result f (recs_of batches ids)) by (apply (seen_of_eq batches w f d0 old_of Hw)).
  split; [exact Hnd|]. split; [exact Hlt|]. split; [exact E|].
  split; [rewrite E; apply with_result_forall|]. split.
  - destruct (nodup_incl_perm ids (seq 0 (length batches)) Hnd) as [rest Hrest].
    { intros c Hc. apply in_seq. specialize (Hlt c Hc). lia. }
    exists (with_result f (recs_of batches rest)).
    rewrite E, <- with_result_app, <- recs_of_app. apply Permutation_map.
    unfold recs_of. rewrite <- (map_nth_seq batches []) at 1.
    apply Permutation_concat, Permutation_map. exact Hrest.
  - intros H1. destruct (single_worker_prefix cfg s Hwf Hr H1) as [rest Hpre]. fold ids in Hpre.
    assert (Hids : ids = seq 0 (length ids)).
    { assert (Hk : length ids <= length (filled s)).
      { apply (f_equal (@length nat)) in Hpre. rewrite seq_length, app_length in Hpre. lia. }
      replace (length (filled s)) with (length ids + (length (filled s) - length ids)) in Hpre by lia.
      rewrite seq_app in Hpre. apply app_eq_len in Hpre; [|rewrite seq_length; reflexivity].
      symmetry. exact (proj1 Hpre). }
    assert (Hle : length ids <= length batches).
    { destruct ids as [|c0 ids'] eqn:Ei; [cbn [length]; lia|].
      assert (Hin : In (length ids') (c0 :: ids')).
      { rewrite Hids. apply in_seq. cbn [length]. lia. }
      specialize (Hlt _ Hin). cbn [length]. lia. }
    assert (E2 : seen = with_result f (concat (firstn (length ids) batches))).
    { rewrite E. rewrite Hids at 1. rewrite recs_of_seq by exact Hle. reflexivity. }
    split; [exact Hids|]. split; [exact E2|].
    intros j Hj. rewrite E2 in Hj |- *.
    rewrite <- (firstn_skipn (length ids) batches) at 2.
    rewrite concat_app, with_result_app. symmetry. apply firstn_prefix. exact Hj.
Qed.

(* ------------------------------------------------------------------ *)
(** * End to end: the readers *)

Theorem parallel_fastq_records_end_to_end (D : Type) inp cap0 rs ss pol fuel ffuel m n q
        (w : owned_t -> D -> D) (f : owned_t -> D) d0 (old_of : nat -> list D) wk s :
  std_cfg inp cap0 rs ss pol fuel ffuel -> length (fq_spec_all inp) + 2 <= m -> 1 <= n -> 1 <= q ->
  (forall r d, w r d = f r) ->
  let '(batches, fin) := fq_fill_seq m fuel ffuel (fq_new cap0 (mkSource inp 0 rs ss) pol) fq_set_empty in
  let cfg := mkConfig n q true None (script_of batches fin) Drain wk in
  reachable cfg s -> final s = true -> mfail s = false ->
  let seen := concat (map (fun p => consume_zip (nth (fst p) batches [])
                                        (work_zip w d0 (old_of (fst p)) (nth (fst p) batches []))) (delivered s)) in
  exists j,
    j <= length (lead_recs (fq_spec_all inp)) /\
    Permutation seen (map (fun r => (r, f r)) (map own_of (firstn j (fq_spec_all inp)))) /\
    (n = 1 -> seen = map (fun r => (r, f r)) (map own_of (firstn j (fq_spec_all inp)))) /\
    match first_bad (fq_spec_all inp) with
    | None => j = length (fq_spec_all inp) /\ fin = Some QONone /\ nerr_seen s = 0
    | Some (QErr e l a) => fin = Some (QOErr (fq_err_of e)) /\ nerr_seen s = 1 /\
                           fq_spec_all inp = lead_recs (fq_spec_all inp) ++ [QErr e l a]
    | Some (QRec _) => False
    end.
Proof.
  intros Hcfg Hm Hn Hq Hw.
  pose proof (parallel_fastq_end_to_end inp cap0 rs ss pol fuel ffuel m n q wk s Hcfg Hm Hn Hq) as HE.
  destruct (fq_fill_seq m fuel ffuel _ fq_set_empty) as [batches fin].
  cbv zeta in HE |- *. intros Hr Hfin Hmf.
  destruct (HE Hr Hfin Hmf) as (j & Hj & _ & HPc & Hord & Hb).
  exists j. split; [exact Hj|].
  assert (E : concat (map (fun p => consume_zip (nth (fst p) batches [])
                (work_zip w d0 (old_of (fst p)) (nth (fst p) batches []))) (delivered s))
              = with_result f (concat (map (fun p => nth (fst p) batches []) (delivered s)))).
  { fold (seen_of batches w d0 old_of (delivered s)).
    rewrite (seen_of_eq batches w f d0 old_of Hw), recs_of_map_fst. reflexivity. }
  rewrite E. split; [apply Permutation_map; exact HPc|]. split; [|exact Hb].
  intros H1. rewrite (Hord H1). reflexivity.
Qed.

Theorem parallel_fasta_records_end_to_end (D : Type) inp cap0 rs sks pol fuel ffuel m n q
        (w : fa_owned_t -> D -> D) (f : fa_owned_t -> D) d0 (old_of : nat -> list D) wk s :
  3 <= cap0 -> forallb item_ok rs = true -> PolOk pol ->
  length rs + 2 <= ffuel -> length inp + 2 <= fuel -> length (fa_spec inp) + 2 <= m -> 1 <= n -> 1 <= q ->
  (forall r d, w r d = f r) ->
  let '(batches, fin) := fa_fill_seq m fuel ffuel (fa_new cap0 (mkSource inp 0 rs sks) pol) fa_set_empty in
  let cfg := mkConfig n q true None (fa_script_of batches fin) Drain wk in
  reachable cfg s -> final s = true -> mfail s = false ->
  let seen := concat (map (fun p => consume_zip (nth (fst p) batches [])
                                        (work_zip w d0 (old_of (fst p)) (nth (fst p) batches []))) (delivered s)) in
  match fa_spec inp with
  | [SInvalidStart l b] =>
      seen = [] /\ fin = Some (OErr (FaInvalidStart l b)) /\ nerr_seen s = 1
  | _ =>
      Permutation seen (map (fun r => (r, f r)) (map item_owned (fa_records inp))) /\
      (n = 1 -> seen = map (fun r => (r, f r)) (map item_owned (fa_records inp))) /\
      fin = Some ONone /\ nerr_seen s = 0
  end.
Proof.
  intros Hcap Hrs Hpol Hff Hfuel Hm Hn Hq Hw.
  pose proof (parallel_fasta_end_to_end inp cap0 rs sks pol fuel ffuel m n q wk s
                Hcap Hrs Hpol Hff Hfuel Hm Hn Hq) as HE.
  destruct (fa_fill_seq m fuel ffuel _ fa_set_empty) as [batches fin].
  cbv zeta in HE |- *. intros Hr Hfin Hmf.
  destruct (HE Hr Hfin Hmf) as (_ & HM). clear HE.
  assert (E : concat (map (fun p => consume_zip (nth (fst p) batches [])
                (work_zip w d0 (old_of (fst p)) (nth (fst p) batches []))) (delivered s))
              = with_result f (concat (map (fun p => nth (fst p) batches []) (delivered s)))).
  { fold (seen_of batches w d0 old_of (delivered s)).
    rewrite (seen_of_eq batches w f d0 old_of Hw), recs_of_map_fst. reflexivity. }
  rewrite E.
  assert (Hrec : Permutation (concat (map (fun p => nth (fst p) batches []) (delivered s))) (map item_owned (fa_records inp)) /\
      (n = 1 -> concat (map (fun p => nth (fst p) batches []) (delivered s)) = map item_owned (fa_records inp)) /\
      fin = Some ONone /\ nerr_seen s = 0 ->
    Permutation (with_result f (concat (map (fun p => nth (fst p) batches []) (delivered s))))
                (map (fun r => (r, f r)) (map item_owned (fa_records inp))) /\
    (n = 1 -> with_result f (concat (map (fun p => nth (fst p) batches []) (delivered s)))
              = map (fun r => (r, f r)) (map item_owned (fa_records inp))) /\
    fin = Some ONone /\ nerr_seen s = 0).
  { intros (HP & Hord & Hf & He). split; [apply Permutation_map; exact HP|].
    split; [|split; assumption]. intros H1. rewrite (Hord H1). reflexivity. }
  destruct (fa_spec inp) as [|[x|l b] [|y t]]; try (apply Hrec; exact HM).
  destruct HM as (Hd & Hf & He). rewrite Hd. split; [reflexivity|]. split; assumption.
Qed.

(* ================================================================== *)
(** * Part 2: the output vectors tracked along an event trace *)

(** the data set currently handed out by next() is the current record set *)
Definition invC (s : state) : Prop :=
  match mpc s with
  | MRecycle _ t _ _ | MGot (CData t _ _) => cur s = Some t
  | _ => True
  end.

Lemma invC_step : forall cfg s e s', invC s -> step cfg s e s' -> invC s'.
Proof.
  intros cfg s e s' HI Hs. unfold invC in *.
  destruct Hs; try match goal with r : cres |- _ => destruct r end;
    unfold consume_effect; sst; rw_state; split_ifs; sst; try exact I; try assumption; try reflexivity.
Qed.

Lemma invC_reachable : forall cfg s, reachable cfg s -> invC s.
Proof.
  intros cfg s Hr; induction Hr using reachable_ind'.
  - exact I.
  - eapply invC_step; eauto.
Qed.

Definition mtag (p : mpc_t) : list nat :=
  match p with MRecycle _ t _ _ | MGot (CData t _ _) => [t] | _ => [] end.

Lemma invC_mtag : forall s t, invC s -> In t (mtag (mpc s)) -> In t (opt_list (cur s)).
Proof.
  intros s t HC Hin. unfold invC in HC. destruct (mpc s) as [| | | |prev t' c o|[t' c o| |]| | | |]; cbn [mtag] in Hin;
    try contradiction; rewrite HC; exact Hin.
Qed.

(** an element in the middle part of a duplicate-free list occurs nowhere else *)
Lemma nodup_mid {A} (a x1 x2 b : list A) (x : A) :
  NoDup (a ++ (x1 ++ x :: x2) ++ b) -> ~ In x a /\ ~ In x (x1 ++ x2) /\ ~ In x b.
Proof.
  intros H.
  replace (a ++ (x1 ++ x :: x2) ++ b) with ((a ++ x1) ++ x :: (x2 ++ b)) in H
    by (repeat rewrite <- app_assoc; reflexivity).
  apply NoDup_remove_2 in H.
  repeat split; intros Hin; apply H; repeat rewrite in_app_iff in *; tauto.
Qed.

(** a running job's tag and content occur nowhere else in the system *)
Lemma run_tag_fresh : forall s l1 l2 t c, NoDup (tokens s) -> active s = l1 ++ Run t c :: l2 ->
  ~ In t (map ajob_tag (l1 ++ l2)) /\ ~ In t (flat_map msg_tags (doneq s)) /\ ~ In t (opt_list (cur s)).
Proof.
  intros s l1 l2 t c Hnd Ha. unfold tokens in Hnd. rewrite Ha in Hnd.
  rewrite map_app in Hnd. cbn [map ajob_tag] in Hnd.
  replace (emptyq s ++ rhold (rpc s) ++ map fst (jobs s) ++
           (map ajob_tag l1 ++ t :: map ajob_tag l2) ++ flat_map msg_tags (doneq s) ++
           opt_list (cur s) ++ mhold (mpc s) ++ destroyed s)
    with ((emptyq s ++ rhold (rpc s) ++ map fst (jobs s)) ++
          (map ajob_tag l1 ++ t :: map ajob_tag l2) ++ (flat_map msg_tags (doneq s) ++
           opt_list (cur s) ++ mhold (mpc s) ++ destroyed s)) in Hnd
    by (repeat rewrite <- app_assoc; reflexivity).
  apply nodup_mid in Hnd. destruct Hnd as (_ & H2 & H3).
  rewrite map_app. split; [exact H2|]. split; intros Hin; apply H3; repeat rewrite in_app_iff; tauto.
Qed.

Lemma run_content_fresh : forall s l1 l2 t c, NoDup (contents s) -> active s = l1 ++ Run t c :: l2 ->
  ~ In c (map fst (delivered s)) /\ ~ In c (mpend (mpc s)) /\ ~ In c (flat_map msg_contents (doneq s)) /\
  ~ In c (map ajob_content (l1 ++ l2)).
Proof.
  intros s l1 l2 t c Hnd Ha. unfold contents, pipeline in Hnd. rewrite Ha in Hnd.
  rewrite map_app in Hnd. cbn [map ajob_content] in Hnd.
  replace ((map fst (delivered s) ++ mpend (mpc s) ++ flat_map msg_contents (doneq s) ++
            (map ajob_content l1 ++ c :: map ajob_content l2) ++ map snd (jobs s) ++ rexec (rpc s)) ++ lost s)
    with ((map fst (delivered s) ++ mpend (mpc s) ++ flat_map msg_contents (doneq s)) ++
          (map ajob_content l1 ++ c :: map ajob_content l2) ++ (map snd (jobs s) ++ rexec (rpc s) ++ lost s)) in Hnd
    by (repeat rewrite <- app_assoc; reflexivity).
  apply nodup_mid in Hnd. destruct Hnd as (H1 & H2 & _).
  rewrite map_app. repeat split; try exact H2; intros Hin; apply H1; repeat rewrite in_app_iff; tauto.
Qed.

(** the tag of the current record set occurs nowhere else *)
Lemma cur_tag_fresh : forall s t, NoDup (tokens s) -> cur s = Some t ->
  ~ In t (map ajob_tag (active s)) /\ ~ In t (flat_map msg_tags (doneq s)).
Proof.
  intros s t Hnd Hc. unfold tokens in Hnd. rewrite Hc in Hnd. cbn [opt_list] in Hnd.
  replace (emptyq s ++ rhold (rpc s) ++ map fst (jobs s) ++ map ajob_tag (active s) ++
           flat_map msg_tags (doneq s) ++ [t] ++ mhold (mpc s) ++ destroyed s)
    with ((emptyq s ++ rhold (rpc s) ++ map fst (jobs s) ++ map ajob_tag (active s) ++
           flat_map msg_tags (doneq s)) ++ ([] ++ t :: []) ++ (mhold (mpc s) ++ destroyed s)) in Hnd
    by (repeat rewrite <- app_assoc; reflexivity).
  apply nodup_mid in Hnd. destruct Hnd as (H1 & _ & _).
  split; intros Hin; apply H1; repeat rewrite in_app_iff; tauto.
Qed.

Section Tracked.
Context {R D : Type}.
Variable batches : list (list R).
Variable w : R -> D -> D.
Variable d0 : D.
(** what the consumer's `func` (it gets `&mut D`) leaves in the output vector of the set
    with content c after it went through it: arbitrary *)
Variable cmut : nat -> list D -> list D.

(** payload state: [outs t] the output vector of data set t (`vec![]` at creation);
    ghost: [olds c] the vector the worker found when it started on content c;
    [seen] the (record, output) pairs `func` was called with so far *)
Record pst := mkPst { outs : nat -> list D; olds : nat -> list D; seen : list (R * D) }.

Definition upd (o : nat -> list D) (t : nat) (v : list D) : nat -> list D :=
  fun t' => if t' =? t then v else o t'.

Definition pinit : pst := mkPst (fun _ => []) (fun _ => []) [].

Definition pstep (p : pst) (e : event) : pst :=
  match e with
  | EWork t c _ =>
      mkPst (upd (outs p) t (work_zip w d0 (outs p t) (nth c batches [])))
            (upd (olds p) c (outs p t)) (seen p)
  | EConsume (CData t c _) =>
      mkPst (upd (outs p) t (cmut c (outs p t))) (olds p)
            (seen p ++ consume_zip (nth c batches []) (outs p t))
  | _ => p
  end.

Definition prun (evs : list event) : pst := fold_left pstep evs pinit.

Lemma prun_snoc evs e : prun (evs ++ [e]) = pstep (prun evs) e.
Proof. unfold prun. rewrite fold_left_app. reflexivity. Qed.

Lemma upd_same o t v : upd o t v t = v.
Proof. unfold upd. rewrite Nat.eqb_refl. reflexivity. Qed.
Lemma upd_other o t v t' : t' <> t -> upd o t v t' = o t'.
Proof. intros H. unfold upd. apply Nat.eqb_neq in H. rewrite H. reflexivity. Qed.
Lemma upd_notin o t v l t' : ~ In t l -> In t' l -> upd o t v t' = o t'.
Proof. intros Hn Hi. apply upd_other. intros ->. contradiction. Qed.

(** data set t carries content c, worked: its vector is the work pass over what was found *)
Definition hold_ok (p : pst) (t c : nat) : Prop :=
  outs p t = work_zip w d0 (olds p c) (nth c batches []).
Definition msgP (p : pst) (m : msg) : Prop := match m with Data t c _ => hold_ok p t c | _ => True end.
Definition ajobP (p : pst) (a : ajob) : Prop := match a with Send t c _ => hold_ok p t c | _ => True end.
Definition mpcP (p : pst) (m : mpc_t) : Prop :=
  match m with MRecycle _ t c _ | MGot (CData t c _) => hold_ok p t c | _ => True end.

Definition PInv (s : state) (p : pst) : Prop :=
  Forall (msgP p) (doneq s) /\ Forall (ajobP p) (active s) /\ mpcP p (mpc s) /\
  seen p = seen_of batches w d0 (olds p) (delivered s).

Lemma msgP_ext p p' l :
  (forall t, In t (flat_map msg_tags l) -> outs p' t = outs p t) ->
  (forall c, In c (flat_map msg_contents l) -> olds p' c = olds p c) ->
  Forall (msgP p) l -> Forall (msgP p') l.
Proof.
  induction l as [|m l IH]; intros Ht Hc H; [constructor|].
  apply Forall_cons_iff in H. destruct H as [Hm Hl]. constructor.
  - destruct m as [t c o| |]; cbn [msgP] in *; try exact I. unfold hold_ok in *.
    rewrite (Ht t), (Hc c); [exact Hm| |]; cbn [flat_map msg_tags msg_contents app]; left; reflexivity.
  - apply IH; [| |exact Hl]; intros x Hx; [apply Ht|apply Hc]; cbn [flat_map]; apply in_or_app; right; exact Hx.
Qed.

Lemma ajobP_ext p p' l :
  (forall t, In t (map ajob_tag l) -> outs p' t = outs p t) ->
  (forall c, In c (map ajob_content l) -> olds p' c = olds p c) ->
  Forall (ajobP p) l -> Forall (ajobP p') l.
Proof.
  induction l as [|a l IH]; intros Ht Hc H; [constructor|].
  apply Forall_cons_iff in H. destruct H as [Hm Hl]. constructor.
  - destruct a as [t c|t c o]; cbn [ajobP] in *; try exact I. unfold hold_ok in *.
    rewrite (Ht t), (Hc c); [exact Hm| |]; cbn [map ajob_tag ajob_content]; left; reflexivity.
  - apply IH; [| |exact Hl]; intros x Hx; [apply Ht|apply Hc]; cbn [map]; right; exact Hx.
Qed.

Lemma mpcP_ext p p' m :
  (forall t, In t (mtag m) -> outs p' t = outs p t) ->
  (forall c, In c (mpend m) -> olds p' c = olds p c) ->
  mpcP p m -> mpcP p' m.
Proof.
  intros Ht Hc H. destruct m as [| | | |prev t c o|[t c o| |]| | | |]; cbn [mpcP] in *; try exact I;
    unfold hold_ok in *; (rewrite (Ht t), (Hc c); [exact H| |]; cbn [mtag mpend]; left; reflexivity).
Qed.

Lemma seen_of_ext (o o' : nat -> list D) dl :
  (forall c, In c (map fst dl) -> o' c = o c) ->
  seen_of batches w d0 o' dl = seen_of batches w d0 o dl.
Proof.
  intros H. unfold seen_of. f_equal. apply map_ext_in. intros p Hp.
  rewrite H; [reflexivity|]. apply in_map. exact Hp.
Qed.

Lemma seen_of_snoc (o : nat -> list D) dl c x :
  seen_of batches w d0 o (dl ++ [(c, x)]) =
  seen_of batches w d0 o dl ++ consume_zip (nth c batches []) (work_zip w d0 (o c) (nth c batches [])).
Proof. unfold seen_of. rewrite map_app, concat_app. cbn [map concat fst]. rewrite app_nil_r. reflexivity. Qed.

Lemma PInv_init : PInv init_state pinit.
Proof. unfold PInv. cbn. repeat split; constructor. Qed.

Lemma PInv_step cfg s e s' p :
  NoDup (tokens s) -> NoDup (contents s) -> invC s ->
  PInv s p -> step cfg s e s' -> PInv s' (pstep p e).
Proof.
  intros Hnt Hnc HC (Hq & Ha & Hm & Hs) Hst.
  destruct Hst; try match goal with r : cres |- _ => destruct r end.
  all: try solve [unfold PInv, consume_effect; cbn [pstep]; sst; rw_state; split_ifs;
                  cbn [mpcP] in *; forall_norm;
                  repeat match goal with |- _ /\ _ => split end; forall_norm;
                  cbn [msgP ajobP] in *; auto].
  - (* EConsume (CData t c o): func goes through the set, may mutate its vector *)
    rename H into Hmp. pose proof HC as HC'. unfold invC in HC'. rewrite Hmp in HC'.
    destruct (cur_tag_fresh s t Hnt HC') as [Hta Htq].
    rewrite Hmp in Hm. cbn [mpcP] in Hm. unfold hold_ok in Hm.
    unfold PInv, consume_effect; cbn [pstep]; sst.
    split; [|split; [|split]].
    + apply (msgP_ext p); [| |exact Hq]; cbn [outs olds]; [|reflexivity].
      intros t' Ht'. apply (upd_notin _ _ _ _ _ Htq Ht').
    + apply (ajobP_ext p); [| |exact Ha]; cbn [outs olds]; [|reflexivity].
      intros t' Ht'. apply (upd_notin _ _ _ _ _ Hta Ht').
    + split_ifs; exact I.
    + cbn [seen olds]. rewrite seen_of_snoc, Hs, Hm. reflexivity.
  - (* EWork t c *)
    rename H into Hact.
    destruct (run_tag_fresh s l1 l2 t c Hnt Hact) as (Hta & Htq & Htc).
    destruct (run_content_fresh s l1 l2 t c Hnc Hact) as (Hcd & Hcm & Hcq & Hca).
    rewrite Hact in Ha. apply Forall_app in Ha. destruct Ha as [Ha1 Ha2].
    apply Forall_cons_iff in Ha2. destruct Ha2 as [_ Ha2].
    unfold PInv; cbn [pstep]; sst.
    split; [|split; [|split]].
    + apply (msgP_ext p); [| |exact Hq]; cbn [outs olds].
      * intros t' Ht'. apply (upd_notin _ _ _ _ _ Htq Ht').
      * intros c' Hc'. apply (upd_notin _ _ _ _ _ Hcq Hc').
    + apply Forall_app. split.
      * apply (ajobP_ext p); [| |apply Forall_app; split; assumption]; cbn [outs olds].
        -- intros t' Ht'. apply (upd_notin _ _ _ _ _ Hta Ht').
        -- intros c' Hc'. apply (upd_notin _ _ _ _ _ Hca Hc').
      * constructor; [|constructor]. cbn [ajobP]. unfold hold_ok. cbn [outs olds].
        rewrite !upd_same. reflexivity.
    + apply (mpcP_ext p); [| |exact Hm]; cbn [outs olds].
      * intros t' Ht'. apply upd_other. intros ->. apply Htc. apply invC_mtag; assumption.
      * intros c' Hc'. apply (upd_notin _ _ _ _ _ Hcm Hc').
    + cbn [seen olds]. rewrite Hs. symmetry. apply seen_of_ext.
      intros c' Hc'. apply (upd_notin _ _ _ _ _ Hcd Hc').
Qed.

(** the tracked run refines Part 1: at any time, what `func` has seen is [seen_of] of the
    delivered sets for the assignment [olds] of found vectors *)
Theorem tracked_refines cfg evs s : wf_config cfg -> run cfg init_state evs = Some s ->
  PInv s (prun evs).
Proof.
  intros Hwf. revert s. induction evs as [|e evs IH] using rev_ind; intros s Hrun.
  - cbn in Hrun. inversion Hrun; subst. apply PInv_init.
  - rewrite run_app in Hrun. destruct (run cfg init_state evs) as [s1|] eqn:E; [|discriminate].
    cbn [run] in Hrun. destruct (apply cfg s1 e) as [s2|] eqn:Ea; [|discriminate].
    inversion Hrun; subst s2. rewrite prun_snoc.
    assert (Hr1 : reachable cfg s1) by (exists evs; exact E).
    apply (PInv_step cfg s1 e s).
    + apply tokens_nodup, (inv_tokens_reachable cfg); assumption.
    + apply (pipeline_nodup cfg); exact Hr1.
    + apply (invC_reachable cfg); exact Hr1.
    + apply IH; reflexivity.
    + apply apply_step; exact Ea.
Qed.

Corollary tracked_seen cfg evs s : wf_config cfg -> run cfg init_state evs = Some s ->
  seen (prun evs) = seen_of batches w d0 (olds (prun evs)) (delivered s).
Proof. intros Hwf Hrun. destruct (tracked_refines cfg evs s Hwf Hrun) as (_ & _ & _ & H). exact H. Qed.

(** every record exactly once with its own result, on tracked vectors, for every trace *)
Theorem tracked_records_exactly_once (f : R -> D) fe n q wk evs s :
  (forall r d, w r d = f r) -> 1 <= n -> 1 <= q ->
  let cfg := mkConfig n q true None (length batches, fe) Drain wk in
  run cfg init_state evs = Some s -> final s = true -> mfail s = false ->
  Permutation (seen (prun evs)) (map (fun r => (r, f r)) (concat batches)) /\
  (n = 1 -> seen (prun evs) = map (fun r => (r, f r)) (concat batches)).
Proof.
  intros Hw Hn Hq cfg Hrun Hfin Hmf.
  assert (Hwf : wf_config cfg) by (split; assumption).
  rewrite (tracked_seen cfg evs s Hwf Hrun).
  apply (records_exactly_once R D batches w f d0 (olds (prun evs)) fe n q wk s Hw Hn Hq);
    [exists evs; exact Hrun | exact Hfin | exact Hmf].
Qed.

(** any consumer, any prefix of any trace: every pair `func` has seen is (r, f r), the
    records are those of distinct filled sets, set by set in file order *)
Theorem tracked_records_at_most_once (f : R -> D) cfg evs s :
  (forall r d, w r d = f r) -> wf_config cfg -> nfills cfg = length batches ->
  run cfg init_state evs = Some s ->
  NoDup (map fst (delivered s)) /\
  seen (prun evs) = with_result f (recs_of batches (map fst (delivered s))) /\
  (nworkers cfg = 1 -> forall j, j <= length (seen (prun evs)) ->
     firstn j (seen (prun evs)) = firstn j (with_result f (concat batches))).
Proof.
  intros Hw Hwf Hnf Hrun.
  assert (Hr : reachable cfg s) by (exists evs; exact Hrun).
  rewrite (tracked_seen cfg evs s Hwf Hrun).
  destruct (records_at_most_once R D batches w f d0 (olds (prun evs)) cfg s Hw Hwf Hnf Hr)
    as (H1 & _ & H3 & _ & _ & H6).
  split; [exact H1|]. split; [exact H3|]. intros Hn1. destruct (H6 Hn1) as (_ & _ & H). exact H.
Qed.

End Tracked.

Print Assumptions records_exactly_once.
Print Assumptions records_at_most_once.
Print Assumptions parallel_fastq_records_end_to_end.
Print Assumptions parallel_fasta_records_end_to_end.
Print Assumptions tracked_refines.

(* ------------------------------------------------------------------ *)
(** * Material for the non-vacuity examples of Props/C07r.v *)

(** three record sets; work = "ten times the record" (overwrites its slot); the consumer's
    `func` leaves 77 in every slot it visits *)
Definition c07r_batches : list (list nat) := [[1; 2; 3]; [4]; [5; 6]].
Definition c07r_w (r d : nat) : nat := r * 10.
Definition c07r_f (r : nat) : nat := r * 10.
(** a work function that does NOT overwrite its slot (accumulates) *)
Definition c07r_wacc (r d : nat) : nat := r * 10 + d.
Definition c07r_cmut (c : nat) (l : list nat) : list nat := map (fun _ => 77) l.
(** recycled vectors: shorter than batch 0, longer than batch 1, as long as batch 2 *)
Definition c07r_old (c : nat) : list nat :=
  match c with 0 => [91] | 1 => [91; 92; 93] | _ => [91; 92] end.
Definition c07r_cfg (n q : nat) : config := mkConfig n q true None (3, ScriptEnd) Drain (fun c => c + 1).
Definition c07r_trace (n q : nat) (last : bool) : list event := greedy last (c07r_cfg n q) 300 init_state.
(** two workers: the job of set 1 overtakes the job of set 0; completed by the greedy scheduler *)
Definition c07r_ooo_prefix : list event :=
  [EDatasetInit (Some 0); EEmptySend 0 true; EDatasetInit (Some 1); EEmptySend 1 true;
   EDatasetInit (Some 2); EReaderInit true;
   EEmptyRecv (Some 0); EFill 0 (FOk 0); EExecute 0 0;
   EEmptyRecv (Some 1); EFill 1 (FOk 1); EExecute 1 1;
   EJobStart 0 0; EJobStart 1 1; EWork 1 1 2; EJobSend 1 1 2 true;
   EDoneRecv (RData 1 1 2); EEmptySend 2 true; EConsume (CData 1 1 2)].
Definition c07r_ooo : list event :=
  c07r_ooo_prefix ++ greedy false (c07r_cfg 2 2) 300 (end_state (c07r_cfg 2 2) c07r_ooo_prefix).
(** four record sets through TWO data sets (queue length 1): every vector is recycled *)
Definition c07r_batches4 : list (list nat) := [[1; 2; 3]; [4]; [5; 6]; [7; 8; 9]].
Definition c07r_cfg4 : config := mkConfig 1 1 true None (4, ScriptEnd) Drain (fun c => c + 1).
Definition c07r_trace4 : list event := greedy true c07r_cfg4 300 init_state.
(** a consumer that leaves after two sets *)
Definition c07r_cfg_stop : config := mkConfig 2 2 true None (3, ScriptEnd) (StopAfter 2) (fun c => c + 1).
Definition c07r_trace_stop : list event := greedy false c07r_cfg_stop 300 init_state.
(** per-record work on FASTQ / FASTA records: the length of the sequence *)
Definition c07r_fq_f (r : owned_t) : nat := match r with Some (_, sq, _) => length sq | None => 0 end.
Definition c07r_fa_f (r : fa_owned_t) : nat := match r with Some (_, sq) => length sq | None => 0 end.

(** the `result?` consumer of parallel_record_impl!, a reader that reports no error *)
Theorem records_exactly_once_result_consumer (R D : Type) (batches : list (list R)) (w : R -> D -> D) (f : R -> D) d0
        (old_of : nat -> list D) n q wk s :
  (forall r d, w r d = f r) ->
  1 <= n -> 1 <= q ->
  let cfg := mkConfig n q true None (length batches, ScriptEnd) DrainStopErr wk in
  reachable cfg s -> final s = true -> mfail s = false ->
  let seen := concat (map (fun p => consume_zip (nth (fst p) batches [])
                                        (work_zip w d0 (old_of (fst p)) (nth (fst p) batches []))) (delivered s)) in
  Permutation seen (map (fun r => (r, f r)) (concat batches)) /\
  (n = 1 -> seen = map (fun r => (r, f r)) (concat batches)).
Proof.
  intros Hw Hn Hq cfg Hr Hfin Hmf seen.
  assert (Hwf : wf_config cfg) by (split; assumption).
  assert (Hp : patient cfg) by (right; split; reflexivity).
  exact (records_exactly_once_patient R D batches w f d0 old_of cfg s Hw Hwf Hp eq_refl eq_refl Hr Hfin Hmf).
Qed.
Print Assumptions records_exactly_once_result_consumer.

(** the `result?` consumer and a reader error: the error overtakes the job of set 0
    (one worker, one filled set, then the error), the consumer leaves, set 0 is lost *)
Definition c07r_cfg_err : config := mkConfig 1 2 true None (1, ScriptErr) DrainStopErr (fun c => c + 1).
Definition c07r_err_prefix : list event :=
  [EDatasetInit (Some 0); EEmptySend 0 true; EDatasetInit (Some 1); EEmptySend 1 true;
   EDatasetInit (Some 2); EReaderInit true;
   EEmptyRecv (Some 0); EFill 0 (FOk 0); EExecute 0 0;
   EEmptyRecv (Some 1); EFill 1 FErr; ESendErr true;
   EDoneRecv RErr; EConsume CErr; EDropHandle].
Definition c07r_err_trace : list event :=
  c07r_err_prefix ++ greedy true c07r_cfg_err 300 (end_state c07r_cfg_err c07r_err_prefix).
