(** C16 for the per-record functions (macro parallel_record_impl! of /repo/src/parallel.rs):
    the number of calls of record_data_init() (creations of output slots) is bounded
    independently of the number of batches.

    Every data set (tag t) carries an output vector [outs p t]; the work closure
    ([work_zip]) overwrites the first [length recs] slots and pushes new slots only for the
    surplus of the batch over the recycled vector; nothing ever shortens a vector (the
    consumer gets `&mut D` for each slot: [cmut_len]).  Hence
      - the vector of set t is, at any time, as long as the longest batch t has worked on,
      - the slots created for set t so far = the length of its vector,
      - the slots created in total = sum over the created sets <= (queue_len + 1) * M.
    The trace-generic part (Sections 1-3) needs no protocol invariant; the protocol enters
    only through "EWork happens on created tags" and [created_bound]. *)
From SeqIO Require Import Model.Par Proofs.ParP Proofs.ParEx Proofs.ParInv Proofs.ParContent Proofs.ParRecordsP.
Require Import List Arith Bool Lia.
Import ListNotations.

(* ------------------------------------------------------------------ *)
(** * 1. One run of the work closure *)

(** slots pushed by one run of the work closure: the surplus of the batch over the recycled vector *)
Definition pushes {R D : Type} (old : list D) (recs : list R) : nat := length recs - length old.

Lemma work_zip_length {R D} (w : R -> D -> D) (d0 : D) : forall (old : list D) (recs : list R),
  length (work_zip w d0 old recs) = Nat.max (length old) (length recs).
Proof.
  induction old as [|d old IH]; intros recs.
  - cbn [work_zip length]. rewrite map_length. reflexivity.
  - destruct recs as [|r recs].
    + cbn [work_zip length]. lia.
    + cbn [work_zip length]. rewrite IH. lia.
Qed.

Lemma work_zip_length_pushes {R D} (w : R -> D -> D) (d0 : D) (old : list D) (recs : list R) :
  length (work_zip w d0 old recs) = length old + pushes old recs.
Proof. rewrite work_zip_length. unfold pushes. lia. Qed.

(** the defective variant: `out.truncate(n)` before the surplus loop *)
Definition work_zip_trunc {R D : Type} (w : R -> D -> D) (d0 : D) (old : list D) (recs : list R) : list D :=
  work_zip w d0 (firstn (length recs) old) recs.

Lemma work_zip_trunc_length {R D} (w : R -> D -> D) (d0 : D) (old : list D) (recs : list R) :
  length (work_zip_trunc w d0 old recs) = length recs.
Proof. unfold work_zip_trunc. rewrite work_zip_length, firstn_length. lia. Qed.

(** slot creations of ONE data set that works through the batches [bs] one after the other,
    for an arbitrary vector transformer [wz] (the surplus loop is the same in both variants) *)
Fixpoint set_inits {R D : Type} (wz : list D -> list R -> list D) (old : list D) (bs : list (list R)) : nat :=
  match bs with
  | [] => 0
  | b :: r => pushes old b + set_inits wz (wz old b) r
  end.

Fixpoint set_final {R D : Type} (wz : list D -> list R -> list D) (old : list D) (bs : list (list R)) : list D :=
  match bs with
  | [] => old
  | b :: r => set_final wz (wz old b) r
  end.

(** the library: creations = growth of the vector, whatever the batches *)
Lemma set_inits_work_zip {R D} (w : R -> D -> D) (d0 : D) : forall (bs : list (list R)) (old : list D),
  length old + set_inits (work_zip w d0) old bs = length (set_final (work_zip w d0) old bs).
Proof.
  induction bs as [|b bs IH]; intros old; cbn [set_inits set_final].
  - lia.
  - rewrite <- IH, work_zip_length_pushes. lia.
Qed.

Lemma set_final_work_zip_le {R D} (w : R -> D -> D) (d0 : D) M : forall (bs : list (list R)) (old : list D),
  length old <= M -> (forall b, In b bs -> length b <= M) ->
  length (set_final (work_zip w d0) old bs) <= M.
Proof.
  induction bs as [|b bs IH]; intros old Ho Hb; cbn [set_final].
  - exact Ho.
  - apply IH.
    + rewrite work_zip_length. specialize (Hb b (or_introl eq_refl)). lia.
    + intros b' Hb'. apply Hb. right. exact Hb'.
Qed.

Lemma set_inits_work_zip_bound {R D} (w : R -> D -> D) (d0 : D) M (bs : list (list R)) :
  (forall b, In b bs -> length b <= M) -> set_inits (work_zip w d0) [] bs <= M.
Proof.
  intros Hb. pose proof (set_inits_work_zip w d0 bs []) as E.
  pose proof (set_final_work_zip_le w d0 M bs [] (Nat.le_0_l _) Hb) as L.
  cbn [length] in E. lia.
Qed.

(** the truncating variant on k rounds [long; short]: every round after the first creates
    (again) the slots the short batch made it drop *)
Lemma set_inits_trunc_alt {R D} (w : R -> D -> D) (d0 : D) (long short : list R) :
  length short <= length long ->
  forall k (old : list D), length old = length short ->
  set_inits (work_zip_trunc w d0) old (concat (repeat [long; short] k)) = k * (length long - length short).
Proof.
  intros Hls. induction k as [|k IH]; intros old Ho.
  - reflexivity.
  - cbn [repeat concat app set_inits]. rewrite IH.
    + unfold pushes. rewrite work_zip_trunc_length, Ho. lia.
    + apply work_zip_trunc_length.
Qed.

Lemma set_inits_trunc_unbounded {R D} (w : R -> D -> D) (d0 : D) (long short : list R) :
  length short <= length long -> forall k,
  set_inits (work_zip_trunc w d0) [] (concat (repeat [long; short] (S k)))
  = length long + k * (length long - length short).
Proof.
  intros Hls k. cbn [repeat concat app set_inits].
  rewrite (set_inits_trunc_alt w d0 long short Hls k); [|apply work_zip_trunc_length].
  unfold pushes. rewrite work_zip_trunc_length. cbn [length]. lia.
Qed.

(* ------------------------------------------------------------------ *)
(** * 2. Slot creations along an event trace *)

Section Slots.
Context {R D : Type}.
Variable batches : list (list R).
Variable w : R -> D -> D.
Variable d0 : D.
Variable cmut : nat -> list D -> list D.
(** the consumer's `func` gets `&mut D` for each slot: it cannot change the length of the vector *)
Hypothesis cmut_len : forall c l, length (cmut c l) = length l.

Local Notation pst := (@pst R D).
Local Notation pinit := (@pinit R D).
Local Notation pstep := (pstep batches w d0 cmut).
Local Notation prun := (prun batches w d0 cmut).

(** slots created by event [e] in payload state [p] *)
Definition ev_inits (p : pst) (e : event) : nat :=
  match e with EWork t c _ => pushes (outs p t) (nth c batches []) | _ => 0 end.

(** number of record_data_init() calls along a trace that starts in payload state [p] *)
Fixpoint slot_inits (evs : list event) (p : pst) : nat :=
  match evs with
  | [] => 0
  | e :: r => ev_inits p e + slot_inits r (pstep p e)
  end.

(** the same for the data set with tag [t] only *)
Definition ev_inits_of (t : nat) (p : pst) (e : event) : nat :=
  match e with EWork t' c _ => if t' =? t then pushes (outs p t) (nth c batches []) else 0 | _ => 0 end.

Fixpoint slot_inits_of (t : nat) (evs : list event) (p : pst) : nat :=
  match evs with
  | [] => 0
  | e :: r => ev_inits_of t p e + slot_inits_of t r (pstep p e)
  end.

(** longest batch the data set [t] has worked on *)
Fixpoint max_batch_seen (t : nat) (evs : list event) : nat :=
  match evs with
  | [] => 0
  | EWork t' c _ :: r =>
      if t' =? t then Nat.max (length (nth c batches [])) (max_batch_seen t r) else max_batch_seen t r
  | _ :: r => max_batch_seen t r
  end.

(** tags of the work events *)
Definition work_tag_lt (n : nat) (e : event) : Prop :=
  match e with EWork t _ _ => t < n | _ => True end.

(** effect of one event on the length of the vector of set t *)
Lemma pstep_length p e t :
  length (outs (pstep p e) t) = length (outs p t) + ev_inits_of t p e.
Proof.
  destruct e as [| | |[t' c o| |]| | | | | | | | | | | | | |t' c o|]; cbn [ParRecordsP.pstep ev_inits_of outs]; try lia.
  - (* EConsume (CData ..) *)
    unfold upd. destruct (Nat.eqb_spec t t') as [->|Hne].
    + rewrite cmut_len. lia.
    + lia.
  - (* EWork *)
    unfold upd. rewrite (Nat.eqb_sym t' t). destruct (Nat.eqb_spec t t') as [->|Hne].
    + apply work_zip_length_pushes.
    + lia.
Qed.

Lemma pstep_length_max p e t :
  length (outs (pstep p e) t) = Nat.max (length (outs p t)) (max_batch_seen t [e]).
Proof.
  rewrite pstep_length.
  destruct e as [| | |[t' c o| |]| | | | | | | | | | | | | |t' c o|]; cbn [ev_inits_of max_batch_seen]; try lia.
  destruct (t' =? t); unfold pushes; lia.
Qed.

(** creations for set t = growth of its vector *)
Lemma slot_inits_of_growth t : forall evs p,
  length (outs p t) + slot_inits_of t evs p = length (outs (fold_left pstep evs p) t).
Proof.
  induction evs as [|e evs IH]; intros p; cbn [slot_inits_of fold_left].
  - lia.
  - rewrite <- IH, pstep_length. lia.
Qed.

Lemma outs_length_max t : forall evs p,
  length (outs (fold_left pstep evs p) t) = Nat.max (length (outs p t)) (max_batch_seen t evs).
Proof.
  induction evs as [|e evs IH]; intros p; cbn [fold_left].
  - cbn [max_batch_seen]. lia.
  - rewrite IH, pstep_length_max.
    destruct e as [| | |[t' c o| |]| | | | | | | | | | | | | |t' c o|]; cbn [max_batch_seen]; try lia.
    destruct (t' =? t); lia.
Qed.

Lemma max_batch_seen_le M t : (forall b, In b batches -> length b <= M) ->
  forall evs, max_batch_seen t evs <= M.
Proof.
  intros Hb. induction evs as [|e evs IH]; cbn [max_batch_seen]; [lia|].
  destruct e; try exact IH.
  destruct (_ =? _); [|exact IH].
  apply Nat.max_lub; [|exact IH].
  destruct (Nat.lt_ge_cases c (length batches)) as [Hc|Hc].
  - apply Hb. apply nth_In. exact Hc.
  - rewrite nth_overflow by exact Hc. cbn [length]. lia.
Qed.

(** sum of the per-set quantities over the tags 0 .. n-1 *)
Fixpoint sum_below (f : nat -> nat) (n : nat) : nat :=
  match n with 0 => 0 | S k => sum_below f k + f k end.

Lemma sum_below_ext f g n : (forall t, t < n -> f t = g t) -> sum_below f n = sum_below g n.
Proof.
  induction n as [|n IH]; intros H; cbn [sum_below]; [reflexivity|].
  rewrite IH, H; [reflexivity|lia|]. intros t Ht. apply H. lia.
Qed.

Lemma sum_below_add f g n : sum_below (fun t => f t + g t) n = sum_below f n + sum_below g n.
Proof. induction n as [|n IH]; cbn [sum_below]; [reflexivity|]. rewrite IH. lia. Qed.

Lemma sum_below_le f n M : (forall t, t < n -> f t <= M) -> sum_below f n <= n * M.
Proof.
  induction n as [|n IH]; intros H; cbn [sum_below]; [lia|].
  assert (H1 : sum_below f n <= n * M) by (apply IH; intros t Ht; apply H; lia).
  specialize (H n ltac:(lia)). lia.
Qed.

Lemma sum_below_zero n : sum_below (fun _ => 0) n = 0.
Proof. induction n as [|n IH]; cbn [sum_below]; lia. Qed.

(** an indicator sums to its value *)
Lemma sum_below_single t v n : t < n -> sum_below (fun t' => if t =? t' then v else 0) n = v.
Proof.
  induction n as [|n IH]; intros Ht; [lia|]. cbn [sum_below].
  destruct (Nat.eqb_spec t n) as [->|Hne].
  - rewrite (sum_below_ext _ (fun _ => 0)), sum_below_zero; [lia|].
    intros t' Ht'. destruct (Nat.eqb_spec n t'); [lia|reflexivity].
  - rewrite IH by lia. lia.
Qed.

Lemma ev_inits_split p e n : work_tag_lt n e ->
  ev_inits p e = sum_below (fun t => ev_inits_of t p e) n.
Proof.
  intros Hlt.
  destruct e as [| | |[t' c o| |]| | | | | | | | | | | | | |t' c o|]; cbn [ev_inits ev_inits_of];
    try (rewrite sum_below_zero; reflexivity).
  cbn [work_tag_lt] in Hlt.
  rewrite (sum_below_ext _ (fun t => if t' =? t then pushes (outs p t') (nth c batches []) else 0)).
  - symmetry. apply sum_below_single. exact Hlt.
  - intros t Ht. destruct (Nat.eqb_spec t' t) as [->|]; reflexivity.
Qed.

(** the total is the sum over the sets *)
Lemma slot_inits_split n : forall evs p, Forall (work_tag_lt n) evs ->
  slot_inits evs p = sum_below (fun t => slot_inits_of t evs p) n.
Proof.
  induction evs as [|e evs IH]; intros p Hall; cbn [slot_inits slot_inits_of].
  - rewrite sum_below_zero. reflexivity.
  - apply Forall_cons_iff in Hall. destruct Hall as [He Hall].
    rewrite sum_below_add, <- IH by exact Hall. rewrite <- ev_inits_split by exact He. reflexivity.
Qed.

(** per data set, from the initial payload state: creations = length of the vector = longest batch seen *)
Lemma slot_inits_of_pinit t evs :
  slot_inits_of t evs pinit = length (outs (prun evs) t) /\
  length (outs (prun evs) t) = max_batch_seen t evs.
Proof.
  pose proof (slot_inits_of_growth t evs pinit) as E.
  pose proof (outs_length_max t evs pinit) as F.
  cbn [ParRecordsP.pinit outs length] in E, F. unfold ParRecordsP.prun. split; lia.
Qed.

(** trace-generic form of the bound: n data sets, batches of at most M records *)
Lemma slot_inits_generic n M evs :
  Forall (work_tag_lt n) evs -> (forall b, In b batches -> length b <= M) ->
  slot_inits evs pinit = sum_below (fun t => max_batch_seen t evs) n /\
  slot_inits evs pinit <= n * M.
Proof.
  intros Hall Hb.
  assert (E : slot_inits evs pinit = sum_below (fun t => max_batch_seen t evs) n).
  { rewrite (slot_inits_split n evs pinit Hall). apply sum_below_ext. intros t _.
    destruct (slot_inits_of_pinit t evs) as [E1 E2]. lia. }
  split; [exact E|]. rewrite E. apply sum_below_le. intros t _. apply max_batch_seen_le. exact Hb.
Qed.

(* ------------------------------------------------------------------ *)
(** * 3. The protocol: work happens on created data sets only *)

Lemma created_mono_step cfg s e s' : step cfg s e s' -> length (created s) <= length (created s').
Proof.
  intros Hs. destruct Hs; try match goal with r : cres |- _ => destruct r end;
    unfold consume_effect; sst; try rewrite app_length; cbn [length]; lia.
Qed.

Lemma created_mono_run cfg : forall evs s s', run cfg s evs = Some s' -> length (created s) <= length (created s').
Proof.
  induction evs as [|e evs IH]; intros s s' Hrun; cbn [run] in Hrun.
  - inversion Hrun; subst. lia.
  - destruct (apply cfg s e) as [s1|] eqn:Ea; [|discriminate].
    apply apply_step, created_mono_step in Ea. specialize (IH _ _ Hrun). lia.
Qed.

Lemma work_on_created_step cfg s e s' : inv_tokens s -> step cfg s e s' -> work_tag_lt (length (created s)) e.
Proof.
  intros Hinv Hs. destruct Hs; cbn [work_tag_lt]; try exact I.
  apply (tokens_lt s t Hinv). unfold tokens.
  match goal with H : active s = _ |- _ => rewrite H end.
  rewrite map_app. cbn [map ajob_tag]. repeat rewrite in_app_iff. cbn [In]. tauto.
Qed.

Lemma work_on_created cfg : wf_config cfg -> forall evs s0 s, reachable cfg s0 -> run cfg s0 evs = Some s ->
  Forall (work_tag_lt (length (created s))) evs.
Proof.
  intros Hwf. induction evs as [|e evs IH]; intros s0 s Hr Hrun; [constructor|].
  cbn [run] in Hrun. destruct (apply cfg s0 e) as [s1|] eqn:Ea; [|discriminate].
  constructor.
  - pose proof (work_on_created_step cfg s0 e s1 (inv_tokens_reachable cfg s0 Hwf Hr) (apply_step _ _ _ _ Ea)) as H0.
    pose proof (created_mono_step cfg s0 e s1 (apply_step _ _ _ _ Ea)) as H1.
    pose proof (created_mono_run cfg evs s1 s Hrun) as H2.
    destruct e; cbn [work_tag_lt] in *; try exact I. lia.
  - apply (IH s1 s); [|exact Hrun]. apply (reachable_step cfg s0 e s1 Hr Ea).
Qed.

(* ------------------------------------------------------------------ *)
(** * 4. The theorems of Props/C16r.v *)

(** the slots created along an accepted trace: for every created data set as many as the longest
    batch it has worked on *)
Theorem record_slots_exact cfg evs s :
  wf_config cfg -> run cfg init_state evs = Some s ->
  slot_inits evs pinit = sum_below (fun t => max_batch_seen t evs) (length (created s)) /\
  slot_inits evs pinit = sum_below (fun t => length (outs (prun evs) t)) (length (created s)).
Proof.
  intros Hwf Hrun.
  pose proof (work_on_created cfg Hwf evs init_state s (reachable_init cfg) Hrun) as Hall.
  rewrite (slot_inits_split _ evs pinit Hall). split; apply sum_below_ext; intros t _;
    destruct (slot_inits_of_pinit t evs) as [E1 E2]; lia.
Qed.

Theorem record_slots_bounded cfg evs s M :
  wf_config cfg -> run cfg init_state evs = Some s ->
  (forall b, In b batches -> length b <= M) ->
  slot_inits evs pinit <= (qlen cfg + 1) * M.
Proof.
  intros Hwf Hrun Hb.
  pose proof (work_on_created cfg Hwf evs init_state s (reachable_init cfg) Hrun) as Hall.
  destruct (slot_inits_generic _ M evs Hall Hb) as [_ H].
  assert (Hc : length (created s) <= qlen cfg + 1) by (apply (created_bound cfg s Hwf); exists evs; exact Hrun).
  apply (Nat.le_trans _ _ _ H). apply Nat.mul_le_mono_r. exact Hc.
Qed.

(** per data set; holds for every event list (no protocol needed) *)
Theorem record_slots_per_set evs t :
  length (outs (prun evs) t) = max_batch_seen t evs /\
  slot_inits_of t evs pinit = max_batch_seen t evs.
Proof. destruct (slot_inits_of_pinit t evs) as [E1 E2]. split; lia. Qed.

Theorem record_slots_per_set_bounded evs t M :
  (forall b, In b batches -> length b <= M) ->
  length (outs (prun evs) t) <= M /\ slot_inits_of t evs pinit <= M.
Proof.
  intros Hb. destruct (record_slots_per_set evs t) as [E1 E2]. rewrite E1, E2.
  split; apply max_batch_seen_le; exact Hb.
Qed.

(** vectors never shrink, and a set that has not worked yet has the empty vector *)
Theorem record_slots_monotone evs e t :
  length (outs (prun evs) t) <= length (outs (prun (evs ++ [e])) t).
Proof. rewrite prun_snoc, pstep_length. lia. Qed.

(** slot creations of a trace extended by one event *)
Lemma slot_inits_snoc : forall evs e p,
  slot_inits (evs ++ [e]) p = slot_inits evs p + ev_inits (fold_left pstep evs p) e.
Proof.
  induction evs as [|e' evs IH]; intros e p; cbn [app slot_inits fold_left].
  - lia.
  - rewrite IH. lia.
Qed.

(** the defective variant on the tracked model: the work closure truncates the recycled vector to
    the length of the batch before the surplus loop *)
Definition pstep_trunc (p : pst) (e : event) : pst :=
  match e with
  | EWork t c _ =>
      mkPst (upd (outs p) t (work_zip_trunc w d0 (outs p t) (nth c batches [])))
            (upd (olds p) c (outs p t)) (seen p)
  | _ => pstep p e
  end.

Fixpoint slot_inits_trunc (evs : list event) (p : pst) : nat :=
  match evs with
  | [] => 0
  | e :: r => ev_inits p e + slot_inits_trunc r (pstep_trunc p e)
  end.

End Slots.

(* ------------------------------------------------------------------ *)
(** * 5. Material for the examples of Props/C16r.v *)

(** one data set, rounds of a batch of 3 and a batch of 1 records *)
Definition c16r_long : list nat := [1; 2; 3].
Definition c16r_short : list nat := [4].
Definition c16r_alt (k : nat) : list (list nat) := concat (repeat [c16r_long; c16r_short] k).

(** a consumer that SHORTENS the vector (impossible for `func`, which gets `&mut D` per slot):
    without [cmut_len] the bound fails *)
Definition c16r_cmut_clear (c : nat) (l : list nat) : list nat := [].

(** eight / twelve record sets of lengths 3,3,1,1,3,3,1,1,.. through TWO data sets (queue length 1, one
    worker): each data set meets batches of lengths 3,1,3,1,.. *)
Definition c16r_batches (k : nat) : list (list nat) :=
  concat (repeat [[1; 2; 3]; [4; 5; 6]; [7]; [8]] k).
Definition c16r_cfg (k : nat) : config := mkConfig 1 1 true None (4 * k, ScriptEnd) Drain (fun c => c + 1).
Definition c16r_trace (k : nat) : list event := greedy true (c16r_cfg k) 1000 init_state.
