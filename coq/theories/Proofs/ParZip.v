(** The per-record layer of parallel_record_impl!: work_zip / consume_zip. *)
From SeqIO Require Import Model.Par.
Require Import List Arith Lia.
Import ListNotations.

(** the slot value each record's work call starts from: the old output if there is
    one, otherwise a freshly initialised one *)
Fixpoint slots {D : Type} (d0 : D) (old : list D) (n : nat) : list D :=
  match n with
  | 0 => []
  | S n' => match old with d :: old' => d :: slots d0 old' n' | [] => d0 :: slots d0 [] n' end
  end.

Lemma work_zip_nil_old : forall (R D : Type) (w : R -> D -> D) d0 recs,
  work_zip w d0 [] recs = map (fun r => w r d0) recs.
Proof. intros R D w d0 recs; destruct recs; reflexivity. Qed.

Lemma work_zip_length : forall (R D : Type) (w : R -> D -> D) d0 old recs,
  length (work_zip w d0 old recs) = Nat.max (length old) (length recs).
Proof.
  intros R D w d0; induction old as [|d old IH]; intros recs.
  - rewrite work_zip_nil_old, map_length; reflexivity.
  - destruct recs as [|r recs]; cbn [work_zip length]; [reflexivity|]. rewrite IH; reflexivity.
Qed.

(** general form: record i is worked into slot i *)
Lemma work_zip_firstn_gen : forall (R D : Type) (w : R -> D -> D) d0 old recs,
  firstn (length recs) (work_zip w d0 old recs)
  = map (fun p => w (fst p) (snd p)) (combine recs (slots d0 old (length recs))).
Proof.
  intros R D w d0; induction old as [|d old IH]; intros recs.
  - rewrite work_zip_nil_old. rewrite <- (map_length (fun r => w r d0) recs) at 1.
    rewrite firstn_all. induction recs as [|r recs IHr]; [reflexivity|].
    cbn [map length slots combine fst snd]. rewrite IHr; reflexivity.
  - destruct recs as [|r recs]; [reflexivity|].
    cbn [work_zip length firstn slots combine map fst snd]. rewrite IH; reflexivity.
Qed.

(** surplus old outputs stay *)
Lemma work_zip_skipn : forall (R D : Type) (w : R -> D -> D) d0 old recs,
  skipn (length recs) (work_zip w d0 old recs) = skipn (length recs) old.
Proof.
  intros R D w d0; induction old as [|d old IH]; intros recs.
  - rewrite work_zip_nil_old. rewrite <- (map_length (fun r => w r d0) recs) at 1.
    rewrite skipn_all. destruct (length recs); reflexivity.
  - destruct recs as [|r recs]; [reflexivity|]. cbn [work_zip length skipn]. apply IH.
Qed.

(** C07_work_zip: whatever the old outputs were (shorter, equal or longer), after the
    work pass output i is the result for record i *)
Lemma work_zip_firstn : forall (R D : Type) (w : R -> D -> D) (f : R -> D) d0,
  (forall r d, w r d = f r) ->
  forall old recs, firstn (length recs) (work_zip w d0 old recs) = map f recs.
Proof.
  intros R D w f d0 Hw; induction old as [|d old IH]; intros recs.
  - rewrite work_zip_nil_old. rewrite <- (map_length (fun r => w r d0) recs) at 1.
    rewrite firstn_all. apply map_ext. intros r; apply Hw.
  - destruct recs as [|r recs]; [reflexivity|].
    cbn [work_zip length firstn map]. rewrite IH, Hw; reflexivity.
Qed.

Lemma consume_zip_firstn : forall (R D : Type) (recs : list R) (out : list D),
  consume_zip recs out = combine recs (firstn (length recs) out).
Proof.
  intros R D; unfold consume_zip. induction recs as [|r recs IH]; intros out; [reflexivity|].
  destruct out as [|o out]; [reflexivity|]. cbn [combine length firstn]. rewrite IH; reflexivity.
Qed.

(** the consumer sees record i together with the result for record i, for every i,
    and nothing else *)
Lemma consume_work_zip : forall (R D : Type) (w : R -> D -> D) (f : R -> D) d0,
  (forall r d, w r d = f r) ->
  forall old recs, consume_zip recs (work_zip w d0 old recs) = map (fun r => (r, f r)) recs.
Proof.
  intros R D w f d0 Hw old recs. rewrite consume_zip_firstn, (work_zip_firstn R D w f d0 Hw).
  induction recs as [|r recs IH]; [reflexivity|]. cbn [map combine]. rewrite IH; reflexivity.
Qed.

Lemma consume_zip_nth : forall (R D : Type) (recs : list R) (out : list D) i r0 o0,
  i < length recs -> length recs <= length out ->
  nth i (consume_zip recs out) (r0, o0) = (nth i recs r0, nth i out o0).
Proof.
  intros R D; unfold consume_zip. induction recs as [|r recs IH]; intros out i r0 o0 Hi Hl.
  - cbn [length] in Hi; lia.
  - destruct out as [|o out]; [cbn [length] in Hl; lia|].
    destruct i as [|i]; [reflexivity|]. cbn [combine nth]. apply IH; cbn [length] in *; lia.
Qed.

Lemma consume_zip_length : forall (R D : Type) (recs : list R) (out : list D),
  length recs <= length out -> length (consume_zip recs out) = length recs.
Proof. intros R D recs out H; unfold consume_zip; rewrite combine_length; lia. Qed.

Lemma work_zip_general : forall (R D : Type) (w : R -> D -> D) d0 old recs,
  firstn (length recs) (work_zip w d0 old recs)
  = map (fun p => w (fst p) (snd p)) (combine recs (slots d0 old (length recs))) /\
  skipn (length recs) (work_zip w d0 old recs) = skipn (length recs) old /\
  length (work_zip w d0 old recs) = Nat.max (length old) (length recs).
Proof.
  intros; split; [apply work_zip_firstn_gen|split; [apply work_zip_skipn|apply work_zip_length]].
Qed.
