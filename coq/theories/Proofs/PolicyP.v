(** C09 (f): the built-in growth policies, over the definitions GENERATED from
    src/policy.rs (Gen/PolicyGen.v), and their relation to the executable
    policies of the reader model (Model/Base.v). *)
From SeqIO Require Import Model.Base Gen.PolicyGen.
Local Open Scope Z_scope.

Definition threshold : Z := 2 ^ 23.

Lemma shiftl_23 : Z.shiftl 1 23 = threshold.
Proof. reflexivity. Qed.

Lemma threshold_val : threshold = 8388608.
Proof. reflexivity. Qed.

(** the size a doubling policy with threshold [a] computes *)
Definition doubled (a c : Z) : Z := if c <? a then 2 * c else c + a.

Lemma doubled_larger a c : 1 <= c -> 1 <= a -> c < doubled a c.
Proof. intros Hc Ha. unfold doubled. destruct (Z.ltb_spec c a); lia. Qed.

Lemma doubled_mono a c1 c2 : 0 <= c1 -> c1 <= c2 -> doubled a c1 <= doubled a c2.
Proof. intros H0 H. unfold doubled. destruct (Z.ltb_spec c1 a), (Z.ltb_spec c2 a); lia. Qed.

Lemma doubled_below a c : c < a -> doubled a c = 2 * c.
Proof. intros H. unfold doubled. destruct (Z.ltb_spec c a); lia. Qed.

Lemma doubled_above a c : a <= c -> doubled a c = c + a.
Proof. intros H. unfold doubled. destruct (Z.ltb_spec c a); lia. Qed.

(** The three [_spec] lemmas are the only ones that look inside the GENERATED definitions.  Their proofs do
    not depend on how the Rust code arranges the computation (a `let`, `Some` inside or outside the `if`,
    the order of the operands): unfold, case-split on every comparison, arithmetic. *)
Ltac pol_cases :=
  cbv zeta;
  change (Z.shiftl 1 23) with 8388608 in *; change (2 ^ 23) with 8388608 in *;
  repeat match goal with
  | |- context [?a <? ?b] => destruct (Z.ltb_spec a b)
  | |- context [?a <=? ?b] => destruct (Z.leb_spec a b)
  end;
  try reflexivity; try discriminate; try lia; try (f_equal; lia).

(** ** StdPolicy *)
Lemma std_grow_to_spec c : std_grow_to c = Some (if c <? 2 ^ 23 then 2 * c else c + 2 ^ 23).
Proof. unfold std_grow_to. pol_cases. Qed.

Lemma std_grow_to_doubled c : std_grow_to c = Some (doubled threshold c).
Proof. rewrite std_grow_to_spec. reflexivity. Qed.

Lemma std_grow_to_larger c : 1 <= c -> exists n, std_grow_to c = Some n /\ c < n.
Proof.
  intros H. rewrite std_grow_to_doubled. eexists. split; [reflexivity|].
  apply doubled_larger; [exact H|rewrite threshold_val; lia].
Qed.

Lemma std_grow_to_mono c1 c2 n1 n2 : 0 <= c1 -> c1 <= c2 ->
  std_grow_to c1 = Some n1 -> std_grow_to c2 = Some n2 -> n1 <= n2.
Proof.
  intros H0 H. rewrite !std_grow_to_doubled. intros E1 E2. inversion E1; inversion E2; subst.
  apply doubled_mono; assumption.
Qed.

(** ** DoubleUntil(a) *)
Lemma double_until_grow_to_spec a c :
  double_until_grow_to a c = Some (if c <? a then 2 * c else c + a).
Proof. unfold double_until_grow_to. pol_cases. Qed.

Lemma double_until_doubles_below a c : c < a -> double_until_grow_to a c = Some (2 * c).
Proof. intros H. rewrite double_until_grow_to_spec. fold (doubled a c). rewrite doubled_below by exact H. reflexivity. Qed.

Lemma double_until_adds_above a c : a <= c -> double_until_grow_to a c = Some (c + a).
Proof. intros H. rewrite double_until_grow_to_spec. fold (doubled a c). rewrite doubled_above by exact H. reflexivity. Qed.

Lemma double_until_larger a c : 1 <= c -> 1 <= a -> exists n, double_until_grow_to a c = Some n /\ c < n.
Proof.
  intros Hc Ha. rewrite double_until_grow_to_spec. fold (doubled a c). eexists. split; [reflexivity|].
  apply doubled_larger; assumption.
Qed.

(** with threshold 0 the answer is the current size: no progress (finding F8) *)
Lemma double_until_zero_no_progress c : 0 <= c -> double_until_grow_to 0 c = Some c.
Proof. intros H. rewrite double_until_adds_above by exact H. f_equal. lia. Qed.

Lemma double_until_mono a c1 c2 n1 n2 : 0 <= c1 -> c1 <= c2 ->
  double_until_grow_to a c1 = Some n1 -> double_until_grow_to a c2 = Some n2 -> n1 <= n2.
Proof.
  intros H0 H. rewrite !double_until_grow_to_spec. fold (doubled a c1) (doubled a c2).
  intros E1 E2. inversion E1; inversion E2; subst. apply doubled_mono; assumption.
Qed.

(** ** DoubleUntilLimited(a, limit) *)
Lemma double_until_limited_spec a lim c :
  double_until_limited_grow_to a lim c = if doubled a c <=? lim then Some (doubled a c) else None.
Proof. unfold double_until_limited_grow_to, doubled. pol_cases. Qed.

(** it refuses exactly when the doubled size exceeds the limit *)
Lemma double_until_limited_refuses_iff a lim c :
  double_until_limited_grow_to a lim c = None <-> lim < doubled a c.
Proof.
  rewrite double_until_limited_spec. destruct (Z.leb_spec (doubled a c) lim); split; intros H'; try lia; try discriminate.
  reflexivity.
Qed.

Lemma double_until_limited_answers_iff a lim c n :
  double_until_limited_grow_to a lim c = Some n <-> n = doubled a c /\ n <= lim.
Proof.
  rewrite double_until_limited_spec. destruct (Z.leb_spec (doubled a c) lim); split.
  - intros E; inversion E; subst. auto.
  - intros [-> _]. reflexivity.
  - discriminate.
  - intros [-> Hle]. lia.
Qed.

Lemma double_until_limited_larger a lim c n : 1 <= c -> 1 <= a ->
  double_until_limited_grow_to a lim c = Some n -> c < n.
Proof. intros Hc Ha E. apply double_until_limited_answers_iff in E. destruct E as [-> _]. apply doubled_larger; assumption. Qed.

(** monotone: a smaller request is answered whenever a larger one is, with a size not larger *)
Lemma double_until_limited_mono a lim c1 c2 n2 : 0 <= c1 -> c1 <= c2 ->
  double_until_limited_grow_to a lim c2 = Some n2 ->
  exists n1, double_until_limited_grow_to a lim c1 = Some n1 /\ n1 <= n2.
Proof.
  intros H0 H E. apply double_until_limited_answers_iff in E. destruct E as [-> Hle].
  pose proof (doubled_mono a c1 c2 H0 H) as Hm.
  exists (doubled a c1). split; [|exact Hm]. apply double_until_limited_answers_iff. split; [reflexivity|lia].
Qed.

(** ** the policies of the reader model are the generated ones *)
Local Close Scope Z_scope.

Lemma pol_std_is_generated h c : pol_std h c = option_map Z.to_nat (std_grow_to (Z.of_nat c)).
Proof.
  rewrite std_grow_to_spec. unfold pol_std. cbn [option_map]. f_equal.
  change (2 ^ 23)%Z with 8388608%Z.
  destruct (N.ltb_spec (N.of_nat c) 8388608), (Z.ltb_spec (Z.of_nat c) 8388608); lia.
Qed.

Lemma pol_double_until_is_generated a h c :
  pol_double_until a h c = option_map Z.to_nat (double_until_grow_to (Z.of_nat a) (Z.of_nat c)).
Proof.
  rewrite double_until_grow_to_spec. unfold pol_double_until. cbn [option_map]. f_equal.
  destruct (Nat.ltb_spec c a), (Z.ltb_spec (Z.of_nat c) (Z.of_nat a)); lia.
Qed.

Lemma pol_double_until_limited_is_generated a lim h c :
  pol_double_until_limited a lim h c =
  option_map Z.to_nat (double_until_limited_grow_to (Z.of_nat a) (Z.of_nat lim) (Z.of_nat c)).
Proof.
  rewrite double_until_limited_spec. unfold pol_double_until_limited, doubled. cbv zeta.
  destruct (Nat.ltb_spec c a), (Z.ltb_spec (Z.of_nat c) (Z.of_nat a)); try lia.
  - destruct (Nat.leb_spec (c * 2) lim), (Z.leb_spec (2 * Z.of_nat c) (Z.of_nat lim)); try lia; cbn [option_map]; f_equal; lia.
  - destruct (Nat.leb_spec (c + a) lim), (Z.leb_spec (Z.of_nat c + Z.of_nat a) (Z.of_nat lim)); try lia; cbn [option_map]; f_equal; lia.
Qed.
