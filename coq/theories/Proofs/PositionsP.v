(** Positions reported after a call are the coordinates of the specification item
    (corollaries of the refinement theorems). *)
From SeqIO Require Import Model.Base Model.Fasta Model.Fastq Model.Views Spec.FastaSpec Spec.FastqSpec
     Proofs.Window Proofs.FastaInv Proofs.FastaNextP Proofs.FastaTopP Proofs.FastqInv Proofs.FastqNextP.

Lemma Forall2_nth {A B} (R : A -> B -> Prop) l1 l2 : Forall2 R l1 l2 ->
  forall k a b, nth_error l1 k = Some a -> nth_error l2 k = Some b -> R a b.
Proof.
  induction 1 as [|x y l1 l2 Hxy _ IH]; intros k a b Ha Hb; [destruct k; discriminate|].
  destruct k as [|k]; cbn in Ha, Hb.
  - inversion Ha; inversion Hb; subst. exact Hxy.
  - eapply IH; eassumption.
Qed.

Lemma nth_stream {A} (l : list A) n k x : k < n -> nth_error l k = Some x ->
  nth_error (firstn n (map Some l ++ repeat None n)) k = Some (Some x).
Proof.
  intros Hk Hx. rewrite Window.nth_error_firstn_lt by lia. rewrite nth_error_app1.
  - rewrite nth_error_map, Hx. reflexivity.
  - rewrite map_length. apply nth_error_Some. rewrite Hx. discriminate.
Qed.

Lemma fa_position_after_next inp cap0 rs ss pol fuel ffuel n k o pos i :
  3 <= cap0 -> forallb item_ok rs = true -> PolOk pol ->
  length rs + 2 <= ffuel -> length inp + 2 <= fuel -> k < n ->
  nth_error (fa_run fuel ffuel n (fa_new cap0 (mkSource inp 0 rs ss) pol)) k = Some (o, pos) ->
  nth_error (fa_spec inp) k = Some (SRec i) ->
  pos = Some (fi_line i, fi_byte i) /\ exists rc, o = ORec rc.
Proof.
  intros Hc Hrs Hp Hff Hfu Hk Hrun Hspec.
  pose proof (fa_next_refines_spec inp cap0 rs ss pol fuel ffuel n Hc Hrs Hp Hff Hfu) as H.
  pose proof (Forall2_nth _ _ _ H k _ _ Hrun (nth_stream _ n k _ Hk Hspec)) as Hm.
  destruct o; cbn in Hm; try contradiction. destruct Hm as (_ & _ & _ & Hpos). split; [exact Hpos | eexists; reflexivity].
Qed.

Lemma fa_error_fields inp cap0 rs ss pol fuel ffuel n k o pos line found :
  3 <= cap0 -> forallb item_ok rs = true -> PolOk pol ->
  length rs + 2 <= ffuel -> length inp + 2 <= fuel -> k < n ->
  nth_error (fa_run fuel ffuel n (fa_new cap0 (mkSource inp 0 rs ss) pol)) k = Some (o, pos) ->
  nth_error (fa_spec inp) k = Some (SInvalidStart line found) ->
  o = OErr (FaInvalidStart line found).
Proof.
  intros Hc Hrs Hp Hff Hfu Hk Hrun Hspec.
  pose proof (fa_next_refines_spec inp cap0 rs ss pol fuel ffuel n Hc Hrs Hp Hff Hfu) as H.
  pose proof (Forall2_nth _ _ _ H k _ _ Hrun (nth_stream _ n k _ Hk Hspec)) as Hm.
  destruct o; cbn in Hm; try contradiction. destruct e; try contradiction. destruct Hm as [-> ->]. reflexivity.
Qed.

Lemma fq_position_after_next inp cap0 rs ss pol fuel ffuel n k o pos :
  1 <= cap0 -> forallb item_ok rs = true -> PolOk pol ->
  length rs + 2 <= ffuel -> length inp + 2 <= fuel -> k < n ->
  nth_error (fq_run fuel ffuel n (fq_new cap0 (mkSource inp 0 rs ss) pol)) k = Some (o, pos) ->
  match nth_error (fq_spec_all inp) k with
  | Some (QRec i) => pos = (qi_line i, qi_byte i) /\ exists rc, o = QORec rc
  | Some (QErr e line byte_) => pos = (line, byte_) /\ o = QOErr (fq_err_of e)
  | None => o = QONone
  end.
Proof.
  intros Hc Hrs Hp Hff Hfu Hk Hrun.
  pose proof (fq_next_refines_spec_gen inp cap0 rs ss pol fuel ffuel n Hc Hrs (PolOk_PolOk1 _ Hp) Hff Hfu) as H.
  destruct (nth_error (fq_spec_all inp) k) as [it|] eqn:Hspec.
  - pose proof (Forall2_nth _ _ _ H k _ _ Hrun (nth_stream _ n k _ Hk Hspec)) as Hm.
    destruct it as [i|e l bt]; destruct o; cbn in Hm; try contradiction.
    + destruct Hm as (_ & _ & _ & Hpos & _). split; [exact Hpos | eexists; reflexivity].
    + destruct Hm as (-> & Hpos). split; [exact Hpos | reflexivity].
  - assert (Hn : nth_error (firstn n (map Some (fq_spec_all inp) ++ repeat None n)) k = Some None).
    { rewrite Window.nth_error_firstn_lt by lia. apply nth_error_None in Hspec.
      rewrite nth_error_app2 by (rewrite map_length; exact Hspec). rewrite map_length.
      rewrite nth_error_repeat by lia. reflexivity. }
    pose proof (Forall2_nth _ _ _ H k _ _ Hrun Hn) as Hm.
    destruct o; cbn in Hm; try contradiction. reflexivity.
Qed.
