(** C06 building blocks: offset sanity of the reader states.  A simple predicate
    on states that (1) holds for a new reader, (2) is preserved by every entry
    point for EVERY policy, capacity, input and read/seek fault script, also
    through calls that return errors, and (3) excludes every panic site of the
    reader functions (slice out of range, usize underflow).  Fuel exhaustion and
    the genuineness of the records are not the subject here.
    This file: the FASTA reader. *)
From Coq Require Import Sorting.Sorted.
From SeqIO Require Import Model.Base Model.Fasta Proofs.FastaScanP Proofs.FastaInitP
     Proofs.TraceP Proofs.FaTraceP Proofs.GrowP.

(** offsets of the FASTA reader are in range: [start <= search_pos <= |buffer|], all
    recorded line ends are at or after [start]; a reader that has not yet found
    its first record has all offsets at 0 *)
Definition FaOff (r : fa) : Prop :=
  start r <= spos r /\ spos r <= length (buf r) /\ Forall (fun x => start r <= x) (seqpos r) /\
  (st r = FNew -> start r = 0 /\ spos r = 0 /\ seqpos r = []).

(** The sanity predicate: a [Finished] reader needs nothing (it answers every read
    with end of input and [seek] re-establishes the offsets; after a failed
    refill its buffer has been dropped, so the offsets may well lie outside);
    every other reader has its offsets in range. *)
Definition FaSane (r : fa) : Prop := st r = FFinished \/ FaOff r.

Lemma fa_new_off c s p : FaOff (fa_new c s p).
Proof. unfold FaOff. cbn. splits; auto. Qed.

Lemma fa_new_sane c s p : FaSane (fa_new c s p).
Proof. right. apply fa_new_off. Qed.

Lemma all_geb_Forall l n : all_geb l n = true <-> Forall (fun x => n <= x) l.
Proof.
  induction l as [|x l IH]; cbn [all_geb]; [split; auto|].
  rewrite andb_true_iff, IH, Nat.leb_le. split.
  - intros [H1 H2]. constructor; assumption.
  - intros H. inversion H; subst. auto.
Qed.

Lemma fa_fill_sane ffuel r r' fr : fa_fill ffuel r = (r', fr) -> FaOff r -> FaOff r' /\ st r' = st r.
Proof.
  intros H (S1 & S2 & S3 & S4).
  destruct (fa_fill_run false _ _ _ _ H) as (_ & _ & Hst & Hs & Hsp & Hsq & _ & _ & (ap & Hb) & _).
  unfold FaOff. rewrite Hst, Hs, Hsp, Hsq, Hb, app_length. splits; auto. lia.
Qed.

Lemma fa_grow_sane r r' g : fa_grow r = (r', g) -> FaOff r -> FaOff r' /\ st r' = st r /\ (forall s, g <> GPanic s).
Proof.
  intros H (S1 & S2 & S3 & S4).
  destruct (fa_grow_run false _ _ _ H (no_ex' _)) as (_ & Hst & Hs & Hsp & Hsq & Hb & _).
  unfold FaOff. rewrite Hst, Hs, Hsp, Hsq, Hb. splits; auto.
  intros s ->. unfold fa_grow in H. destruct (polf r (polh r) (cap r)) as [n|]; [destruct (n <=? cap r)|]; inversion H.
Qed.

Lemma fa_make_room_sane r r' g : fa_make_room r = (r', g) -> FaOff r -> FaOff r' /\ st r' = st r /\ g = GOk.
Proof.
  intros H (S1 & S2 & S3 & S4). unfold fa_make_room in H.
  assert (E1 : (spos r <? start r) = false) by (apply Nat.ltb_ge; exact S1).
  assert (E2 : all_geb (seqpos r) (start r) = true) by (apply all_geb_Forall; exact S3).
  rewrite E1, E2 in H. cbn [orb negb] in H. inversion H; subst. unfold FaOff. fa_simpl.
  rewrite skipn_length. splits; auto; try lia.
  - apply Forall_forall. intros x Hx. lia.
  - intros Hn. destruct (S4 Hn) as (A & B & C). rewrite B, C. auto.
Qed.

Lemma fa_search_sane r r' sr : fa_search r = (r', sr) -> FaOff r -> st r <> FNew ->
  FaOff r' /\ st r' <> FNew /\ (forall s, sr <> SPanic s).
Proof.
  intros H (S1 & S2 & S3 & S4) Hn. unfold fa_search in H.
  assert (E1 : (length (buf r) <? spos r) = false) by (apply Nat.ltb_ge; exact S2).
  rewrite E1 in H.
  destruct (fa_scan (skipn (spos r) (buf r)) (spos r) (seqpos r)) as [[found sp] sq] eqn:Es.
  pose proof (fa_scan_pos _ _ _ _ _ _ Es) as [Hp _]. rewrite skipn_length in Hp.
  destruct (fa_scan_acc _ _ _ _ _ _ Es) as (new & -> & Hnew & _).
  assert (Hsq : Forall (fun x => start r <= x) (seqpos r ++ new)).
  { apply Forall_app. split; [exact S3|]. eapply Forall_impl; [|exact Hnew]. cbn. intros; lia. }
  destruct found.
  { inversion H; subst. unfold FaOff. fa_simpl. splits; auto; try lia; try discriminate. intros Hx; contradiction. }
  cbn [buf cap set_seqpos set_spos] in H.
  destruct (length (buf r) <? cap r); inversion H; subst; unfold FaOff; fa_simpl; splits; auto; try lia;
    try discriminate.
  apply Forall_app. split; [exact Hsq|]. constructor; [lia|constructor].
Qed.

Lemma fa_increment_sane r : FaOff r -> st r <> FNew ->
  exists r', fa_increment r = Some r' /\ FaOff r' /\ st r' = st r.
Proof.
  intros (S1 & S2 & S3 & S4) Hn. unfold fa_increment.
  assert (E1 : (spos r <? start r) = false) by (apply Nat.ltb_ge; exact S1). rewrite E1.
  eexists. split; [reflexivity|]. unfold FaOff. fa_simpl. splits; auto. intros Hx; contradiction.
Qed.

Lemma FaOff_set_st r s : FaOff r -> s <> FNew -> FaOff (set_st r s).
Proof. intros (A & B & C & D) Hs. unfold FaOff. fa_simpl. splits; auto. intros Hx; contradiction. Qed.

(** the search loop: no panic; afterwards the offsets are in range, except after
    the (final) I/O error, which drops the buffer and finishes the reader *)
Lemma fa_resume_sane ffuel mk : forall fuel r r' res, fa_resume fuel ffuel mk r = (r', res) ->
  FaOff r -> st r <> FNew ->
  (FaOff r' \/ ((exists k, res = RsErr (FaIo k)) /\ st r' = FFinished)) /\ st r' <> FNew /\
  (forall s, res <> RsPanic s).
Proof.
  induction fuel as [|f IH]; intros r r' res H S Hn; cbn [fa_resume] in H.
  { inversion H; subst. splits; auto. discriminate. }
  destruct (if negb mk || (start r =? 0) then fa_grow r else fa_make_room r) as [r1 g] eqn:E1.
  assert (H1 : FaOff r1 /\ st r1 = st r /\ (forall s, g <> GPanic s)).
  { destruct (negb mk || (start r =? 0)).
    - apply (fa_grow_sane _ _ _ E1 S).
    - destruct (fa_make_room_sane _ _ _ E1 S) as (A & B & ->). splits; auto. discriminate. }
  destruct H1 as (S1 & Hst1 & Hg).
  destruct g as [|e|s]; [|inversion H; subst; splits; auto; [congruence|discriminate]|exfalso; apply (Hg s); reflexivity].
  destruct (fa_fill ffuel r1) as [r2 fr] eqn:E2. destruct (fa_fill_sane _ _ _ _ E2 S1) as [S2 Hst2].
  assert (Hn2 : st r2 <> FNew) by congruence.
  destruct fr as [n|k|]; [|inversion H; subst; splits; [right; split; [exists k; reflexivity|reflexivity]|discriminate|discriminate]
                          |inversion H; subst; splits; auto; discriminate].
  destruct (fa_search r2) as [r3 sr] eqn:E3. destruct (fa_search_sane _ _ _ E3 S2 Hn2) as (S3 & Hn3 & Hp3).
  destruct sr as [[|]|s]; [inversion H; subst; splits; auto; discriminate| |exfalso; apply (Hp3 s); reflexivity].
  apply (IH _ _ _ H S3 Hn3).
Qed.

(** [first_byte] touches only buffer, position (byte and line), source and log *)
Lemma fa_first_byte_frame ffuel : forall fuel r ln r' res, fa_first_byte fuel ffuel r ln = (r', res) ->
  start r' = start r /\ spos r' = spos r /\ seqpos r' = seqpos r /\ st r' = st r /\
  (forall l p b, res = FbSome l p b -> p < length (buf r')).
Proof.
  induction fuel as [|f IH]; intros r ln r' res H; cbn [fa_first_byte] in H.
  { inversion H; subst. splits; auto. discriminate. }
  destruct (fa_fill ffuel r) as [r1 fr] eqn:E1.
  destruct (fa_fill_run false _ _ _ _ E1) as (_ & _ & Hst & Hs & Hsp & Hsq & _).
  destruct fr as [[|n]|k|]; try (inversion H; subst; splits; auto; discriminate).
  destruct (fb_scan (pieces (buf r1)) ln 0 0) as [[[l p] b]|[[l p] last]] eqn:Eb.
  - inversion H; subst. splits; auto. intros l0 p0 b0 Hq. inversion Hq; subst.
    rewrite fb_scan_direct in Eb. apply fb_direct_inl in Eb. destruct Eb as [_ Hnth].
    rewrite Nat.sub_0_r in Hnth. apply nth_error_Some. rewrite Hnth. discriminate.
  - apply IH in H. cbn [buf start spos seqpos st set_buf set_pbyte set_pline] in H. destruct H as (A & B & C & D & E). splits; auto; congruence.
Qed.

Lemma fa_init_sane fuel ffuel r r' res : fa_init fuel ffuel r = (r', res) -> FaOff r -> st r = FNew ->
  match res with
  | IOk true => forall s, s <> FNew -> FaOff (set_st r' s)
  | _ => FaOff r' /\ (st r' = FNew \/ st r' = FFinished)
  end.
Proof.
  unfold fa_init. intros H (S1 & S2 & S3 & S4) Hn. destruct (S4 Hn) as (A & B & C).
  destruct (fa_first_byte fuel ffuel r (pline r)) as [r1 fb] eqn:E1.
  destruct (fa_first_byte_frame _ _ _ _ _ _ E1) as (Hs & Hsp & Hsq & Hst & Hpos).
  assert (Sane1 : forall s, FaOff (set_st r1 s)).
  { intros s. unfold FaOff. fa_simpl. rewrite Hs, Hsp, Hsq, A, B, C. splits; auto; lia. }
  assert (Sane1' : FaOff r1).
  { unfold FaOff. rewrite Hs, Hsp, Hsq, A, B, C. splits; auto; lia. }
  destruct fb as [ln pos b| |k|].
  - specialize (Hpos _ _ _ eq_refl). destruct (b =? GT).
    + inversion H; subst. intros s Hs'. unfold FaOff. fa_simpl. rewrite Hsq, C. splits; auto; try lia.
      intros Hx; contradiction.
    + inversion H; subst. split; [apply Sane1|right; reflexivity].
  - inversion H; subst. split; [apply Sane1|right; reflexivity].
  - inversion H; subst. split; [exact Sane1'|left; congruence].
  - inversion H; subst. split; [exact Sane1'|left; congruence].
Qed.

Lemma fa_next_tail_sane fuel ffuel r r' o : fa_next_tail fuel ffuel r = (r', o) ->
  FaOff r -> st r <> FNew -> FaSane r' /\ (forall s, o <> OPanic s).
Proof.
  unfold fa_next_tail. intros H S Hn.
  destruct (if fa_state_eqb (st r) FIncomplete then (r, SFound true) else fa_search r) as [r1 sr] eqn:E1.
  assert (H1 : FaOff r1 /\ st r1 <> FNew /\ (forall s, sr <> SPanic s)).
  { destruct (fa_state_eqb (st r) FIncomplete).
    - inversion E1; subst. splits; auto. discriminate.
    - apply (fa_search_sane _ _ _ E1 S Hn). }
  destruct H1 as (S1 & Hn1 & Hp1).
  destruct sr as [b|s]; [|exfalso; apply (Hp1 s); reflexivity].
  destruct (fa_state_eqb (st r1) FIncomplete); [|inversion H; subst; split; [right; exact S1|discriminate]].
  destruct (fa_resume fuel ffuel true r1) as [r2 rr] eqn:E2.
  destruct (fa_resume_sane _ _ _ _ _ _ E2 S1 Hn1) as (S2 & Hn2 & Hp2).
  assert (Sane2 : FaSane r2) by (destruct S2 as [S2|[_ Hf]]; [right; exact S2|left; exact Hf]).
  destruct rr as [[|]|e|s|]; inversion H; subst; (split; [|discriminate || idtac]); try exact Sane2.
  - destruct S2 as [S2|[[k Hk] _]]; [|discriminate Hk].
    destruct (fa_state_eqb (st r2) FFinished); [right; exact S2|]. right. apply FaOff_set_st; [exact S2|discriminate].
  - intros s0 Hs0. apply (Hp2 s). reflexivity.
Qed.

Theorem fa_next_sane fuel ffuel r r' o : fa_next fuel ffuel r = (r', o) -> FaSane r ->
  FaSane r' /\ (forall s, o <> OPanic s).
Proof.
  unfold fa_next. intros H [Hfin|S].
  { rewrite Hfin in H. inversion H; subst. split; [left; exact Hfin|discriminate]. }
  destruct (st r) eqn:Es.
  - destruct (fa_init fuel ffuel r) as [r1 ir] eqn:E1. pose proof (fa_init_sane _ _ _ _ _ E1 S Es) as Hi.
    destruct ir as [[|]|e|]; try (inversion H; subst; split; [right; apply Hi|discriminate]).
    apply (fa_next_tail_sane _ _ (set_st r1 FParsing) _ _ H); [apply Hi|]; discriminate.
  - destruct (fa_increment_sane r S) as (r1 & E1 & S1 & Hst1); [congruence|]. rewrite E1 in H.
    apply (fa_next_tail_sane _ _ _ _ _ H S1). congruence.
  - apply (fa_next_tail_sane _ _ _ _ _ H S). congruence.
  - apply (fa_next_tail_sane _ _ (set_st r FParsing) _ _ H); [|discriminate].
    apply FaOff_set_st; [exact S|discriminate].
  - inversion H; subst. split; [left; exact Es|discriminate].
Qed.

Lemma fa_set_loop_sane rfuel ffuel : forall fuel n is_new r rs r' rs' res,
  fa_set_loop fuel rfuel ffuel n is_new r rs = (r', rs', res) -> FaOff r -> st r <> FNew ->
  FaSane r' /\ (forall s, res <> LPanic s).
Proof.
  induction fuel as [|f IH]; intros n is_new r rs r' rs' res H S Hn; cbn [fa_set_loop] in H.
  { inversion H; subst. split; [right; exact S|discriminate]. }
  destruct (fa_state_eqb (st r) FFinished); [inversion H; subst; split; [right; exact S|discriminate]|].
  assert (Hfound : forall r2 rs2, FaOff r2 -> st r2 <> FNew ->
     (let rs3 := fa_set_put rs2 r2 in
      match fa_increment r2 with
      | None => (r2, rs3, LPanic 3)
      | Some r4 => if reached n (snpos rs3) then (r4, rs3, LDone)
                   else fa_set_loop f rfuel ffuel n is_new r4 rs3
      end) = (r', rs', res) -> FaSane r' /\ (forall s, res <> LPanic s)).
  { intros r2 rs2 S2 Hn2 Hq. cbv zeta in Hq.
    destruct (fa_increment_sane r2 S2 Hn2) as (r4 & E4 & S4 & Hst4). rewrite E4 in Hq.
    destruct (reached n (snpos (fa_set_put rs2 r2))); [inversion Hq; subst; split; [right; exact S4|discriminate]|].
    apply (IH _ _ _ _ _ _ _ Hq S4). congruence. }
  destruct (fa_state_eqb (st r) FIncomplete).
  - destruct (fa_resume rfuel ffuel is_new r) as [r1 rr] eqn:E1.
    destruct (fa_resume_sane _ _ _ _ _ _ E1 S Hn) as (S1 & Hn1 & Hp1).
    assert (Sane1 : FaSane r1) by (destruct S1 as [S1|[_ Hf]]; [right; exact S1|left; exact Hf]).
    destruct rr as [[|]|e|s|]; try (inversion H; subst; split; [exact Sane1|discriminate]).
    + destruct S1 as [S1|[[k Hk] _]]; [|discriminate Hk].
      apply (Hfound (if fa_state_eqb (st r1) FFinished then r1 else set_st r1 FPositioned) rs); [| |exact H].
      * destruct (fa_state_eqb (st r1) FFinished); [exact S1|apply FaOff_set_st; [exact S1|discriminate]].
      * destruct (fa_state_eqb (st r1) FFinished); [exact Hn1|discriminate].
    + exfalso; apply (Hp1 s); reflexivity.
  - destruct (fa_search r) as [r1 sr] eqn:E1. destruct (fa_search_sane _ _ _ E1 S Hn) as (S1 & Hn1 & Hp1).
    destruct sr as [[|]|s]; [| |exfalso; apply (Hp1 s); reflexivity].
    + apply (Hfound r1 rs S1 Hn1 H).
    + destruct (snpos rs =? 0); [apply (IH _ _ _ _ _ _ _ H S1 Hn1)|].
      destruct (below n (snpos rs)); [apply (IH _ _ _ _ _ _ _ H S1 Hn1)|].
      inversion H; subst. split; [right; exact S1|discriminate].
Qed.

Theorem fa_read_set_sane fuel ffuel n r rs r' rs' o : fa_read_set fuel ffuel n r rs = (r', rs', o) -> FaSane r ->
  FaSane r' /\ (forall s, o <> OPanic s).
Proof.
  unfold fa_read_set. intros H [Hfin|S].
  { rewrite Hfin in H. inversion H; subst. split; [left; exact Hfin|discriminate]. }
  assert (Hgo : forall r0, FaOff r0 -> st r0 <> FNew ->
     fa_set_finish (fa_set_loop fuel fuel ffuel n true r0 (mkFaSet (sbuf rs) (spositions rs) 0)) = (r', rs', o) ->
     FaSane r' /\ (forall s, o <> OPanic s)).
  { intros r0 S0 Hn0 Hq.
    destruct (fa_set_loop fuel fuel ffuel n true r0 (mkFaSet (sbuf rs) (spositions rs) 0)) as [[r1 rs1] lr] eqn:E.
    destruct (fa_set_loop_sane _ _ _ _ _ _ _ _ _ _ E S0 Hn0) as [S1 Hp1].
    unfold fa_set_finish in Hq. destruct lr as [|e|s| |]; inversion Hq; subst; split; auto; try discriminate.
    exfalso; apply (Hp1 s); reflexivity. }
  destruct (st r) eqn:Es.
  - destruct (fa_init fuel ffuel r) as [r1 ir] eqn:E1. pose proof (fa_init_sane _ _ _ _ _ E1 S Es) as Hi.
    destruct ir as [[|]|e|]; try (inversion H; subst; split; [right; apply Hi|discriminate]).
    apply (Hgo (set_st r1 FPositioned)); [apply Hi; discriminate|discriminate|exact H].
  - destruct (fa_increment_sane r S) as (r1 & E1 & S1 & Hst1); [congruence|]. rewrite E1 in H.
    apply (Hgo (set_st r1 FPositioned)); [apply FaOff_set_st; [exact S1|discriminate]|discriminate|exact H].
  - apply (Hgo r S); [congruence|exact H].
  - apply (Hgo r S); [congruence|exact H].
  - inversion H; subst. split; [left; exact Es|discriminate].
Qed.

(** [seek] re-establishes the offsets whatever they were: the in-buffer shortcut
    is taken only for a target inside the buffer, the real seek empties the
    buffer; a failed source seek changes nothing but source and log *)
Theorem fa_seek_sane ffuel r line byte_ r' o : fa_seek ffuel r line byte_ = (r', o) -> FaSane r ->
  FaSane r' /\ (forall s, o <> OPanic s).
Proof.
  unfold fa_seek. intros H S.
  destruct ((0 <=? Z.of_nat (start r) + (Z.of_nat byte_ - Z.of_nat (pbyte r)))%Z &&
            (Z.of_nat (start r) + (Z.of_nat byte_ - Z.of_nat (pbyte r)) <? Z.of_nat (length (buf r)))%Z && negb (fa_state_eqb (st r) FNew)) eqn:Ec.
  { apply andb_true_iff in Ec. destruct Ec as [Ec _].
    apply andb_true_iff in Ec. destruct Ec as [E1 E2]. apply Z.leb_le in E1. apply Z.ltb_lt in E2.
    inversion H; subst. split; [|discriminate]. right. unfold FaOff. fa_simpl. splits; auto; try lia.
    intros Hx; discriminate Hx. }
  destruct (src_seek (src r) byte_) as [s' res] eqn:Es.
  destruct res as [k|].
  { inversion H; subst. split; [|discriminate]. destruct S as [Hf|S]; [left; exact Hf|right; exact S]. }
  match type of H with (let '(r1, fr) := fa_fill ffuel ?R in _) = _ => set (r0 := R) in * end.
  assert (S0 : FaOff r0).
  { unfold FaOff, r0. fa_simpl. cbn [length]. splits; auto; try (intros Hx; discriminate Hx). }
  destruct (fa_fill ffuel r0) as [r1 fr] eqn:E1. destruct (fa_fill_sane _ _ _ _ E1 S0) as [S1 _].
  destruct fr; inversion H; subst; (split; [|discriminate]); try (right; exact S1).
  left. reflexivity.
Qed.

Lemma fa_set_policy_sane r p : FaSane r -> FaSane (fa_set_policy r p).
Proof. intros S. exact S. Qed.

(** ** summary (FASTA) *)
Theorem fa_sane_preserved :
  (forall c s p, FaSane (fa_new c s p)) /\
  (forall fuel ffuel r r' o, fa_next fuel ffuel r = (r', o) -> FaSane r -> FaSane r') /\
  (forall fuel ffuel n r rs r' rs' o, fa_read_set fuel ffuel n r rs = (r', rs', o) -> FaSane r -> FaSane r') /\
  (forall ffuel r line byte_ r' o, fa_seek ffuel r line byte_ = (r', o) -> FaSane r -> FaSane r') /\
  (forall r p, FaSane r -> FaSane (fa_set_policy r p)).
Proof.
  splits.
  - apply fa_new_sane.
  - intros fuel ffuel r r' o H S. apply (fa_next_sane _ _ _ _ _ H S).
  - intros fuel ffuel n r rs r' rs' o H S. apply (fa_read_set_sane _ _ _ _ _ _ _ _ H S).
  - intros ffuel r line byte_ r' o H S. apply (fa_seek_sane _ _ _ _ _ _ H S).
  - intros r p S. exact S.
Qed.

Theorem fa_sane_no_panic :
  (forall fuel ffuel r s, FaSane r -> snd (fa_next fuel ffuel r) <> OPanic s) /\
  (forall fuel ffuel n r rs s, FaSane r -> snd (fa_read_set fuel ffuel n r rs) <> OPanic s) /\
  (forall ffuel r line byte_ s, FaSane r -> snd (fa_seek ffuel r line byte_) <> OPanic s).
Proof.
  splits.
  - intros fuel ffuel r s S. destruct (fa_next fuel ffuel r) as [r' o] eqn:E. apply (fa_next_sane _ _ _ _ _ E S).
  - intros fuel ffuel n r rs s S. destruct (fa_read_set fuel ffuel n r rs) as [[r' rs'] o] eqn:E.
    apply (fa_read_set_sane _ _ _ _ _ _ _ _ E S).
  - intros ffuel r line byte_ s S. destruct (fa_seek ffuel r line byte_) as [r' o] eqn:E.
    apply (fa_seek_sane _ _ _ _ _ _ E S).
Qed.
