(** Seeking to a record restores the stream ALSO from the states a source
    failure leaves behind (C05 / C06).

    An I/O error while refilling leaves the reader either [Finished] with an
    EMPTY buffer (error in the search loop or in the refill of a seek), or
    still [New] with a partly filled buffer (error in the very first call).
    Nothing is known about offsets, position or the search state of such a
    reader -- and nothing needs to be known: with an empty buffer no target
    is "inside the buffer", and a New reader never takes the in-buffer
    shortcut, so [seek] takes the real-seek path, which overwrites them all.

    Part 1 (FASTA) and part 4 (FASTQ): the seek from such a state leads to
    the state "positioned at the target" ([PosAt] / [HQ]) that a seek from a
    healthy state leads to; the next read returns the target record.
    Part 2 (FASTA) and part 5 (FASTQ): what one call of [next] does to the
    source, for EVERY reader state: data, seek script, policy are kept, the
    capacity never shrinks, and the read script is consumed up to and
    including the failure item iff the call returns that I/O error.
    Part 3 / 3b (FASTA) and part 6 (FASTQ): end to end -- a new reader over a
    read script with ONE failure item; the call that returns the I/O error;
    then a seek; then the rest of the stream (offset-based stream [FaStream],
    and line-based specification [fa_spec] / [fq_spec_all]).
    Part 7 (FASTA): the same for every entry point ([next],
    [read_record_set], [seek]) and any history before the failure, through
    an invariant on source, policy and capacity only ([HealthySrc]). *)
From Coq Require Import Sorting.Sorted.
From SeqIO Require Import Model.Base Model.Fasta Model.Alloc Proofs.Window Proofs.FastaScanP Proofs.FastaInv
     Proofs.FastaStream Proofs.FastaNextP Proofs.FastaSetP Proofs.FastaSeekP Proofs.FinalErrP.

(* ------------------------------------------------------------------ *)
(** * 1. FASTA: the seek from a failure state *)

(** the states an I/O error leaves behind never take the in-buffer shortcut *)
Lemma fa_shortcut_off r (pos : Z) : buf r = [] \/ st r = FNew ->
  ((0 <=? pos)%Z && (pos <? Z.of_nat (length (buf r)))%Z && negb (fa_state_eqb (st r) FNew)) = false.
Proof.
  intros [Hb|Hn].
  - rewrite Hb. cbn [length]. destruct (0 <=? pos)%Z eqn:E; [|reflexivity].
    apply Z.leb_le in E. assert ((pos <? Z.of_nat 0)%Z = false) as -> by (apply Z.ltb_ge; lia). reflexivity.
  - rewrite Hn. cbn [fa_state_eqb negb]. apply andb_false_r.
Qed.

Lemma src_seek_okF s p : seek_ok s ->
  exists ss', src_seek s p = (mkSource (s_data s) p (s_rs s) ss', None) /\ forallb sitem_ok ss' = true.
Proof.
  unfold src_seek, seek_ok. destruct (s_ss s) as [|[|k] ss0]; intros Hsk.
  - exists []. split; reflexivity.
  - exists ss0. split; [reflexivity|]. cbn [forallb sitem_ok] in Hsk. exact Hsk.
  - cbn [forallb sitem_ok andb] in Hsk. discriminate.
Qed.

Theorem fa_seek_from_failure inp ffuel r s line :
  s_data (src r) = inp ->
  (buf r = [] \/ st r = FNew) ->
  no_fail (src r) -> seek_ok (src r) ->
  length (s_rs (src r)) + 2 <= ffuel -> 1 <= cap r -> PolOk (polf r) ->
  nth_error inp s = Some GT ->
  exists r', fa_seek ffuel r line s = (r', OOk) /\ PosAt inp ffuel r' s s line /\ seek_ok (src r') /\ start r' = 0 /\
             cap r' = cap r /\ polf r' = polf r /\ no_fail (src r') /\ length (s_rs (src r')) <= length (s_rs (src r)).
Proof.
  intros Hd Hfs Hnf Hsk Hfu Hcap Hpol Hgt.
  assert (Hin : s < length inp) by (apply nth_error_Some; rewrite Hgt; discriminate).
  unfold fa_seek. rewrite (fa_shortcut_off r _ Hfs).
  destruct (src_seek_okF (src r) s Hsk) as (ss' & -> & Hss').
  set (s1 := mkSource (s_data (src r)) s (s_rs (src r)) ss').
  set (r2 := set_seqpos (set_start (set_spos (set_st (set_pbyte (set_pline
               (set_buf (set_log (set_src r s1) (EvSeek s None :: log r)) []) line) s) FPositioned) 0) 0) []).
  assert (W2 : Win inp ffuel r2 s).
  { constructor; unfold r2, s1, no_fail in *;
      cbn [buf src cap s_pos s_data s_rs length set_seqpos set_start set_spos set_st set_pbyte set_pline set_buf set_log set_src];
      auto; try lia.
    rewrite window_nil. reflexivity. }
  pose proof (fill_buf_ok ffuel (buf r2) (cap r2) (src r2) (log r2) 0) as Hfb.
  destruct (fa_fill_ok _ _ _ _ W2) as (s' & lg' & Hfill & Hps' & Hds' & Hnf' & Hfu' & Hss2 & _ & Hle').
  cbv zeta in Hfill.
  (* the length of the remaining script: from [fill_buf_ok] directly *)
  assert (Hlen : length (s_rs s') <= length (s_rs (src r))).
  { destruct Hfb as (s'' & lg'' & Heq & _ & _ & _ & _ & Hl & _).
    - apply (w_nf _ _ _ _ W2).
    - apply (w_fuel _ _ _ _ W2).
    - apply (w_cap _ _ _ _ W2).
    - rewrite (w_data _ _ _ _ W2). apply (w_pos _ _ _ _ W2).
    - unfold fa_fill in Hfill. rewrite Heq in Hfill. inversion Hfill; subst s''. exact Hl. }
  rewrite Hfill.
  change (cap r2) with (cap r) in *.
  set (e' := Nat.min (s + cap r) (length inp)) in *.
  assert (Hwl : length (window inp s e') = e' - s) by (apply window_length; unfold e'; lia).
  eexists. split; [reflexivity|].
  unfold r2; cbn [buf src st start spos seqpos pline pbyte polf cap set_log set_src set_buf
           set_seqpos set_start set_spos set_st set_pbyte set_pline].
  splits; auto.
  - constructor; unfold r2;
      cbn [buf src st start spos seqpos pline pbyte polf cap set_log set_src set_buf
           set_seqpos set_start set_spos set_st set_pbyte set_pline]; auto; try lia.
    constructor;
      cbn [buf src st start spos seqpos pline pbyte polf cap set_log set_src set_buf
           set_seqpos set_start set_spos set_st set_pbyte set_pline]; auto; try lia.
    + constructor; cbn [buf src cap set_log set_src set_buf set_seqpos set_start set_spos set_st set_pbyte set_pline];
        rewrite ?Hps', ?Hwl; auto; try (unfold e'; lia).
    + unfold EofKnown. cbn [buf src cap set_log set_src set_buf set_seqpos set_start set_spos set_st set_pbyte set_pline].
      rewrite Hwl, Hps'. unfold e'. lia.
  - unfold seek_ok. rewrite Hss2. exact Hss'.
Qed.

(** the first read after such a seek returns the target record, exactly as
    after a seek from a healthy state *)
Corollary fa_seek_then_next_from_failure inp ffuel fuel r s line :
  s_data (src r) = inp ->
  (buf r = [] \/ st r = FNew) ->
  no_fail (src r) -> seek_ok (src r) ->
  length (s_rs (src r)) + 2 <= ffuel -> 1 <= cap r -> PolOk (polf r) ->
  nth_error inp s = Some GT -> length inp < fuel ->
  exists r1 r2 off2, fa_seek ffuel r line s = (r1, OOk) /\ fa_position r1 = None /\
    fa_next fuel ffuel r1 = (r2, ORec (fa_cur r2)) /\
    AtRec inp ffuel r2 off2 s line (scan_abs inp (S s) []) /\
    RecAt inp (fa_cur r2) s (FastaNextP.ends_of (scan_abs inp (S s) [])).
Proof.
  intros Hd Hfs Hnf Hsk Hfu Hcap Hpol Hgt Hfuel.
  destruct (fa_seek_from_failure inp ffuel r s line Hd Hfs Hnf Hsk Hfu Hcap Hpol Hgt) as (r1 & Heq & Hpos & _).
  destruct (next_pos inp ffuel fuel r1 s s line Hpos Hfuel) as (r2 & off2 & Hn & Hat & Hrec).
  exists r1, r2, off2. split; [exact Heq|]. split; [eapply PosAt_position; eassumption|]. auto.
Qed.

(* ------------------------------------------------------------------ *)
(** * 2. What one call does to the source, the policy and the capacity *)

(** [consumed e rs rs']: a call that returned the I/O error of kind [k]
    ([e = Some k]) consumed fault-free items and then the item [RFailI k];
    a call that returned no I/O error ([e = None]) consumed fault-free items
    only.  [rs'] is what is left of the read script [rs]. *)
Definition consumed (e : option nat) (rs rs' : list ritem) : Prop :=
  exists pre, forallb item_ok pre = true /\
    rs = pre ++ match e with None => rs' | Some k => RFailI k :: rs' end.

Lemma consumed_refl rs : consumed None rs rs.
Proof. exists []. split; reflexivity. Qed.

Lemma consumed_trans e a b c : consumed None a b -> consumed e b c -> consumed e a c.
Proof.
  intros (p1 & H1 & ->) (p2 & H2 & ->). exists (p1 ++ p2). split.
  - rewrite forallb_app, H1, H2. reflexivity.
  - rewrite app_assoc. reflexivity.
Qed.

(** data and seek script kept, read script consumed *)
Definition SrcStep (e : option nat) (s s' : source) : Prop :=
  s_data s' = s_data s /\ s_ss s' = s_ss s /\ consumed e (s_rs s) (s_rs s').

Lemma SrcStep_refl s : SrcStep None s s.
Proof. split; [reflexivity|]. split; [reflexivity|apply consumed_refl]. Qed.

Lemma SrcStep_trans e a b c : SrcStep None a b -> SrcStep e b c -> SrcStep e a c.
Proof.
  intros (D1 & S1 & C1) (D2 & S2 & C2). split; [congruence|]. split; [congruence|].
  eapply consumed_trans; eassumption.
Qed.

Definition rres_io (x : rres) : option nat := match x with RFailed k => Some k | _ => None end.
Definition fill_io (x : fill_res) : option nat := match x with FillErr k => Some k | _ => None end.

Lemma src_read_step s o s' d x : src_read s o = (s', d, x) -> SrcStep (rres_io x) s s'.
Proof.
  unfold src_read, SrcStep, consumed. destruct (s_rs s) as [|[m| |k] rs] eqn:E; intros H; inversion H; subst;
    cbn [s_data s_ss s_rs rres_io]; (split; [reflexivity|]); (split; [reflexivity|]).
  - exists []. split; reflexivity.
  - exists [RDeliver m]. split; reflexivity.
  - exists [RInterrupt]. split; reflexivity.
  - exists []. split; reflexivity.
Qed.

Lemma fill_buf_step fuel : forall b c s lg nr b' s' lg' res,
  fill_buf fuel b c s lg nr = (b', s', lg', res) -> SrcStep (fill_io res) s s'.
Proof.
  induction fuel as [|f IH]; intros b c s lg nr b' s' lg' res H; cbn [fill_buf] in H.
  - inversion H; subst. apply SrcStep_refl.
  - destruct (length b <? c); [|inversion H; subst; apply SrcStep_refl].
    destruct (src_read s (c - length b)) as [[s1 data] rr] eqn:E.
    pose proof (src_read_step _ _ _ _ _ E) as H1.
    destruct rr as [n| |k]; cbn [rres_io] in H1.
    + destruct n as [|n]; [inversion H; subst; exact H1|].
      apply IH in H. eapply SrcStep_trans; eassumption.
    + apply IH in H. eapply SrcStep_trans; eassumption.
    + inversion H; subst. exact H1.
Qed.

(** the reader: source step, same policy, capacity not smaller *)
Definition Stp (e : option nat) (r r' : fa) : Prop :=
  SrcStep e (src r) (src r') /\ polf r' = polf r /\ cap r <= cap r'.

Lemma Stp_refl r : Stp None r r.
Proof. split; [apply SrcStep_refl|]. split; [reflexivity|lia]. Qed.

Lemma Stp_same r r' : src r' = src r -> polf r' = polf r -> cap r <= cap r' -> Stp None r r'.
Proof. intros Hs Hp Hc. split; [rewrite Hs; apply SrcStep_refl|]. split; assumption. Qed.

Lemma Stp_trans e a b c : Stp None a b -> Stp e b c -> Stp e a c.
Proof.
  intros (S1 & P1 & C1) (S2 & P2 & C2). split; [eapply SrcStep_trans; eassumption|].
  split; [congruence|lia].
Qed.

(** the result state may be changed in other fields *)
Lemma Stp_ext e r r' r'' : Stp e r r' -> src r'' = src r' -> polf r'' = polf r' -> cap r'' = cap r' -> Stp e r r''.
Proof. intros (S1 & P1 & C1) Hs Hp Hc. split; [rewrite Hs; exact S1|]. split; [congruence|lia]. Qed.

Lemma Stp_ext_l e r0 r r' : Stp e r r' -> src r0 = src r -> polf r0 = polf r -> cap r0 = cap r -> Stp e r0 r'.
Proof. intros (S1 & P1 & C1) Hs Hp Hc. split; [rewrite Hs; exact S1|]. split; [congruence|lia]. Qed.

Lemma fa_fill_step ffuel r r' x : fa_fill ffuel r = (r', x) -> Stp (fill_io x) r r'.
Proof.
  unfold fa_fill. destruct (fill_buf ffuel (buf r) (cap r) (src r) (log r) 0) as [[[b s] lg] res] eqn:E.
  intros H. inversion H; subst. split; [|split; [reflexivity|cbn [cap set_log set_src set_buf]; lia]].
  cbn [src set_log set_src set_buf]. eapply fill_buf_step; eassumption.
Qed.

Lemma fa_search_step r r' x : fa_search r = (r', x) -> Stp None r r'.
Proof.
  unfold fa_search. destruct (length (buf r) <? spos r); [intros H; inversion H; apply Stp_refl|].
  destruct (fa_scan (skipn (spos r) (buf r)) (spos r) (seqpos r)) as [[f sp] sq].
  destruct f; [intros H; inversion H; apply Stp_same; reflexivity|].
  cbn [buf cap set_seqpos set_spos].
  destruct (length (buf r) <? cap r); intros H; inversion H; apply Stp_same; reflexivity.
Qed.

Lemma br_reserve_ge b c a : c <= br_reserve b c a.
Proof. unfold br_reserve. destruct (a <=? c - length b); [lia|]. destruct b; lia. Qed.

Lemma fa_grow_step r r' x : fa_grow r = (r', x) -> Stp None r r'.
Proof.
  unfold fa_grow. destruct (polf r (polh r) (cap r)) as [n|]; [destruct (n <=? cap r)|];
    intros H; inversion H; apply Stp_same; try reflexivity.
  cbn [cap set_cap set_log set_pol]. apply br_reserve_ge.
Qed.

Lemma fa_make_room_step r r' x : fa_make_room r = (r', x) -> Stp None r r'.
Proof.
  unfold fa_make_room. destruct ((spos r <? start r) || negb (all_geb (seqpos r) (start r)));
    intros H; inversion H; apply Stp_same; reflexivity.
Qed.

Definition rr_io (x : rres_b) : option nat := match x with RsErr (FaIo k) => Some k | _ => None end.
Definition fb_io (x : fb_res) : option nat := match x with FbErr k => Some k | _ => None end.
Definition i_io (x : ires) : option nat := match x with IErr (FaIo k) => Some k | _ => None end.
Definition o_io (x : fa_out) : option nat := match x with OErr (FaIo k) => Some k | _ => None end.

Lemma fa_grow_err_limit r r' e : fa_grow r = (r', GErr e) -> e = FaBufferLimit.
Proof.
  unfold fa_grow. destruct (polf r (polh r) (cap r)) as [n|]; [destruct (n <=? cap r)|];
    intros H; inversion H; reflexivity.
Qed.

Lemma fa_make_room_no_err r r' e : fa_make_room r = (r', GErr e) -> False.
Proof.
  unfold fa_make_room. destruct ((spos r <? start r) || negb (all_geb (seqpos r) (start r)));
    intros H; inversion H.
Qed.

Lemma fa_resume_step ffuel mk : forall fuel r r' x, fa_resume fuel ffuel mk r = (r', x) -> Stp (rr_io x) r r'.
Proof.
  induction fuel as [|f IH]; intros r r' x H; cbn [fa_resume] in H; [inversion H; apply Stp_refl|].
  destruct (if negb mk || (start r =? 0) then fa_grow r else fa_make_room r) as [r1 g] eqn:E1.
  assert (H1 : Stp None r r1).
  { destruct (negb mk || (start r =? 0)); [eapply fa_grow_step | eapply fa_make_room_step]; eassumption. }
  assert (Hg : forall e, g = GErr e -> e = FaBufferLimit).
  { intros e ->. destruct (negb mk || (start r =? 0)); [eapply fa_grow_err_limit; eassumption|].
    exfalso. eapply fa_make_room_no_err; eassumption. }
  destruct g as [|e|sx].
  - destruct (fa_fill ffuel r1) as [r2 fr] eqn:E2.
    pose proof (fa_fill_step _ _ _ _ E2) as H2.
    destruct fr as [k|k|]; cbn [fill_io] in H2.
    + destruct (fa_search r2) as [r3 sr] eqn:E3.
      pose proof (fa_search_step _ _ _ E3) as H3.
      assert (H13 : Stp None r r3) by (eapply Stp_trans; [exact H1|]; eapply Stp_trans; eassumption).
      destruct sr as [[|]|sx]; [inversion H; subst; exact H13| |inversion H; subst; exact H13].
      apply IH in H. eapply Stp_trans; eassumption.
    + inversion H; subst. cbn [rr_io]. eapply Stp_trans; [exact H1|].
      eapply Stp_ext; [exact H2| | |]; reflexivity.
    + inversion H; subst. cbn [rr_io]. eapply Stp_trans; eassumption.
  - inversion H; subst. rewrite (Hg e eq_refl). exact H1.
  - inversion H; subst. exact H1.
Qed.

Lemma fa_first_byte_step ffuel : forall fuel r ln r' x, fa_first_byte fuel ffuel r ln = (r', x) -> Stp (fb_io x) r r'.
Proof.
  induction fuel as [|f IH]; intros r ln r' x H; cbn [fa_first_byte] in H; [inversion H; apply Stp_refl|].
  destruct (fa_fill ffuel r) as [r1 fr] eqn:E1.
  pose proof (fa_fill_step _ _ _ _ E1) as H1.
  destruct fr as [k|k|]; cbn [fill_io] in H1; [|inversion H; subst; exact H1|inversion H; subst; exact H1].
  destruct k as [|k]; [inversion H; subst; exact H1|].
  destruct (fb_scan (pieces (buf r1)) ln 0 0) as [[[a b] c]|[[a b] c]].
  - inversion H; subst; exact H1.
  - apply IH in H. eapply Stp_trans; [exact H1|].
    eapply Stp_ext_l; [exact H| | |]; reflexivity.
Qed.

Lemma fa_init_step fuel ffuel r r' x : fa_init fuel ffuel r = (r', x) -> Stp (i_io x) r r'.
Proof.
  unfold fa_init. destruct (fa_first_byte fuel ffuel r (pline r)) as [r1 fb] eqn:E.
  pose proof (fa_first_byte_step _ _ _ _ _ _ E) as H1.
  destruct fb as [ln pos b| |k|]; cbn [fb_io] in H1.
  - destruct (b =? GT); intros H; inversion H; subst; cbn [i_io];
      (eapply Stp_ext; [exact H1| | |]; reflexivity).
  - intros H; inversion H; subst; cbn [i_io]. eapply Stp_ext; [exact H1| | |]; reflexivity.
  - intros H; inversion H; subst; exact H1.
  - intros H; inversion H; subst; exact H1.
Qed.

Lemma fa_next_tail_step fuel ffuel r r' x : fa_next_tail fuel ffuel r = (r', x) -> Stp (o_io x) r r'.
Proof.
  unfold fa_next_tail.
  destruct (if fa_state_eqb (st r) FIncomplete then (r, SFound true) else fa_search r) as [r1 sr] eqn:E1.
  assert (H1 : Stp None r r1).
  { destruct (fa_state_eqb (st r) FIncomplete); [inversion E1; apply Stp_refl | eapply fa_search_step; eassumption]. }
  destruct sr as [b|sx]; [|intros H; inversion H; subst; exact H1].
  destruct (fa_state_eqb (st r1) FIncomplete); [|intros H; inversion H; subst; exact H1].
  destruct (fa_resume fuel ffuel true r1) as [r2 rr] eqn:E2.
  pose proof (fa_resume_step _ _ _ _ _ _ E2) as H2.
  assert (H12 : Stp (rr_io rr) r r2) by (eapply Stp_trans; eassumption).
  destruct rr as [[|]|e|sx|]; intros H; inversion H; subst; cbn [rr_io o_io] in *; try exact H12.
  destruct (fa_state_eqb (st r2) FFinished); [exact H12|]. eapply Stp_ext; [exact H12| | |]; reflexivity.
Qed.

Lemma fa_increment_same r r1 : fa_increment r = Some r1 -> src r1 = src r /\ polf r1 = polf r /\ cap r1 = cap r.
Proof. unfold fa_increment. destruct (spos r <? start r); intros H; inversion H; auto. Qed.

Theorem fa_next_step fuel ffuel r r' x : fa_next fuel ffuel r = (r', x) -> Stp (o_io x) r r'.
Proof.
  unfold fa_next. destruct (st r).
  - destruct (fa_init fuel ffuel r) as [r1 ir] eqn:E. pose proof (fa_init_step _ _ _ _ _ E) as H1.
    destruct ir as [[|]|e|]; cbn [i_io] in H1; try (intros H; inversion H; subst; exact H1).
    intros H. apply fa_next_tail_step in H. eapply Stp_trans; [exact H1|].
    eapply Stp_ext_l; [exact H| | |]; reflexivity.
  - destruct (fa_increment r) as [r1|] eqn:E; [|intros H; inversion H; apply Stp_refl].
    destruct (fa_increment_same _ _ E) as (Hs & Hp & Hc).
    intros H. apply fa_next_tail_step in H. eapply Stp_ext_l; [exact H| | |]; auto.
  - apply fa_next_tail_step.
  - intros H. apply fa_next_tail_step in H. eapply Stp_ext_l; [exact H| | |]; reflexivity.
  - intros H; inversion H; apply Stp_refl.
Qed.

(* ------------------------------------------------------------------ *)
(** * 3. End to end: one failure item in the read script *)

Lemma fa_iter_snoc fuel ffuel : forall k r,
  fa_iter fuel ffuel (S k) r = fst (fa_next fuel ffuel (fa_iter fuel ffuel k r)).
Proof.
  induction k as [|k IH]; intros r; [reflexivity|].
  change (fa_iter fuel ffuel (S (S k)) r) with (fa_iter fuel ffuel (S k) (fst (fa_next fuel ffuel r))).
  rewrite IH. reflexivity.
Qed.

(** where a consumed prefix ends relative to the single failure item *)
Lemma split_at_failure k rs2 : forall p pre X,
  forallb item_ok p = true -> forallb item_ok pre = true ->
  p ++ X = pre ++ RFailI k :: rs2 ->
  exists pre', pre = p ++ pre' /\ X = pre' ++ RFailI k :: rs2.
Proof.
  induction p as [|a p IH]; intros pre X Hp Hpre H.
  - exists pre. split; [reflexivity|exact H].
  - destruct pre as [|b pre].
    + cbn [app] in H. inversion H; subst a. cbn [forallb item_ok andb] in Hp. discriminate.
    + cbn [app] in H. inversion H; subst b.
      cbn [forallb] in Hp, Hpre. apply andb_true_iff in Hp. apply andb_true_iff in Hpre.
      destruct (IH pre X (proj2 Hp) (proj2 Hpre) H2) as (pre' & -> & ->).
      exists pre'. split; reflexivity.
Qed.

Lemma consumed_before k rs2 pre rs rs' :
  forallb item_ok pre = true -> rs = pre ++ RFailI k :: rs2 -> consumed None rs rs' ->
  exists pre', forallb item_ok pre' = true /\ rs' = pre' ++ RFailI k :: rs2.
Proof.
  intros Hpre -> (p & Hp & H).
  destruct (split_at_failure k rs2 p pre rs' Hp Hpre (eq_sym H)) as (pre' & -> & ->).
  exists pre'. split; [|reflexivity]. rewrite forallb_app in Hpre. apply andb_true_iff in Hpre. apply Hpre.
Qed.

Lemma consumed_at k rs2 pre rs k' rs' :
  forallb item_ok pre = true -> rs = pre ++ RFailI k :: rs2 -> consumed (Some k') rs rs' ->
  k' = k /\ rs' = rs2.
Proof.
  intros Hpre -> (p & Hp & H).
  destruct (split_at_failure k rs2 p pre _ Hp Hpre (eq_sym H)) as (pre' & -> & HX).
  destruct pre' as [|a pre'].
  - cbn [app] in HX. inversion HX. auto.
  - cbn [app] in HX. inversion HX; subst a.
    rewrite forallb_app in Hpre. apply andb_true_iff in Hpre. destruct Hpre as [_ Hpre].
    cbn [forallb item_ok andb] in Hpre. discriminate.
Qed.

Lemma consumed_ok_none rs rs' : forallb item_ok rs = true -> consumed None rs rs' ->
  forallb item_ok rs' = true /\ length rs' <= length rs.
Proof.
  intros Hok (p & Hp & ->). rewrite forallb_app in Hok. apply andb_true_iff in Hok.
  split; [apply Hok|]. rewrite app_length. lia.
Qed.

Lemma consumed_ok_some rs k rs' : forallb item_ok rs = true -> consumed (Some k) rs rs' -> False.
Proof.
  intros Hok (p & Hp & ->). rewrite forallb_app in Hok. apply andb_true_iff in Hok.
  destruct Hok as [_ Hok]. cbn [forallb item_ok andb] in Hok. discriminate.
Qed.

(** the failure item is still ahead / has been consumed *)
Definition SAhead (k : nat) (rs2 : list ritem) (s : source) : Prop :=
  exists pre, forallb item_ok pre = true /\ s_rs s = pre ++ RFailI k :: rs2.
Definition SBehind (rs2 : list ritem) (s : source) : Prop :=
  forallb item_ok (s_rs s) = true /\ length (s_rs s) <= length rs2.

Lemma src_script_step k rs2 e s s' : SrcStep e s s' -> SAhead k rs2 s \/ SBehind rs2 s ->
  match e with
  | None => SAhead k rs2 s' \/ SBehind rs2 s'
  | Some k' => SAhead k rs2 s /\ k' = k /\ s_rs s' = rs2
  end.
Proof.
  intros (_ & _ & C) [(pre & Hpre & Hrs)|(Hok & Hlen)]; destruct e as [k'|].
  - destruct (consumed_at k rs2 pre _ k' _ Hpre Hrs C) as [-> ->].
    split; [exists pre; auto|auto].
  - left. eapply consumed_before; eassumption.
  - exfalso. eapply consumed_ok_some; eassumption.
  - right. destruct (consumed_ok_none _ _ Hok C) as [H1 H2]. split; [exact H1|lia].
Qed.

Definition Ahead (k : nat) (rs2 : list ritem) (r : fa) : Prop := SAhead k rs2 (src r).
Definition Behind (rs2 : list ritem) (r : fa) : Prop := SBehind rs2 (src r).
(** what no call of [next] changes *)
Definition Frame (inp : list byte) (sks : list sitem) (pol : policy) (cap0 : nat) (r : fa) : Prop :=
  s_data (src r) = inp /\ s_ss (src r) = sks /\ polf r = pol /\ cap0 <= cap r.

Lemma Frame_step inp sks pol cap0 e r r' : Stp e r r' -> Frame inp sks pol cap0 r -> Frame inp sks pol cap0 r'.
Proof.
  intros ((D & S & _) & P & C) (F1 & F2 & F3 & F4). unfold Frame. splits; try congruence. lia.
Qed.

Lemma script_step k rs2 e r r' : Stp e r r' -> Ahead k rs2 r \/ Behind rs2 r ->
  match e with
  | None => Ahead k rs2 r' \/ Behind rs2 r'
  | Some k' => Ahead k rs2 r /\ k' = k /\ s_rs (src r') = rs2
  end.
Proof. intros (S & _ & _). apply src_script_step. exact S. Qed.

Lemma fa_iter_inv inp sks pol cap0 k rs2 fuel ffuel r0 :
  forallb item_ok rs2 = true ->
  Frame inp sks pol cap0 r0 -> Ahead k rs2 r0 ->
  forall i, Frame inp sks pol cap0 (fa_iter fuel ffuel i r0) /\
            (Ahead k rs2 (fa_iter fuel ffuel i r0) \/ Behind rs2 (fa_iter fuel ffuel i r0)).
Proof.
  intros Hrs2 HF HA. induction i as [|i [IHF IHS]]; [cbn [fa_iter]; auto|].
  rewrite fa_iter_snoc.
  destruct (fa_next fuel ffuel (fa_iter fuel ffuel i r0)) as [r' o] eqn:E. cbn [fst].
  pose proof (fa_next_step _ _ _ _ _ E) as HS.
  split; [eapply Frame_step; eassumption|].
  pose proof (script_step k rs2 _ _ _ HS IHS) as H.
  destruct (o_io o) as [k'|]; [|exact H].
  right. destruct H as (_ & _ & Hrs). split; rewrite Hrs; [exact Hrs2|lia].
Qed.

(** from a positioned reader: the whole rest of the stream, then the end for ever *)
Lemma run_from_pos inp ffuel fuel m r off s line its :
  PosAt inp ffuel r off s line -> FaStream inp s line its -> length inp < fuel ->
  Forall2 (fa_matches inp) (fa_run fuel ffuel m r) (firstn m (map Some its ++ repeat None m)).
Proof.
  intros Hpos Hst Hfuel. destruct m as [|m]; [constructor|].
  destruct (next_pos inp ffuel fuel r off s line Hpos Hfuel) as (r2 & off2 & Hn & Hat & Hrec).
  destruct its as [|cur rest]; [inversion Hst|].
  destruct (FaStream_inv _ _ _ _ _ Hst) as [-> _].
  cbn [fa_run]. rewrite Hn. cbn [map app firstn]. constructor.
  - cbn [fa_matches]. split; [exact Hrec|]. eapply AtRec_position; eassumption.
  - eapply run_after_rec; [exact Hfuel| |exact Hat|exact Hst]. lia.
Qed.

(** the state after the call that returned the I/O error: everything the
    seek theorem asks for, derived from the new reader and the run *)
Lemma fa_state_after_io_error inp cap0 rs1 k rs2 sks pol fuel ffuel j r :
  3 <= cap0 -> forallb item_ok rs1 = true -> forallb item_ok rs2 = true -> forallb sitem_ok sks = true ->
  let r0 := fa_new cap0 (mkSource inp 0 (rs1 ++ RFailI k :: rs2) sks) pol in
  fa_iter fuel ffuel j r0 = r -> 1 <= j ->
  forall k', snd (fa_next fuel ffuel (fa_iter fuel ffuel (j - 1) r0)) = OErr (FaIo k') ->
  k' = k /\ s_data (src r) = inp /\ (buf r = [] \/ st r = FNew) /\ s_rs (src r) = rs2 /\
  s_ss (src r) = sks /\ polf r = pol /\ cap0 <= cap r.
Proof.
  intros Hcap Hrs1 Hrs2 Hsks r0 Hr Hj k' Herr.
  destruct j as [|j]; [lia|]. replace (S j - 1) with j in Herr by lia.
  assert (HF0 : Frame inp sks pol cap0 r0) by (unfold Frame, r0; cbn; auto).
  assert (HA0 : Ahead k rs2 r0) by (exists rs1; split; [exact Hrs1|reflexivity]).
  destruct (fa_iter_inv inp sks pol cap0 k rs2 fuel ffuel r0 Hrs2 HF0 HA0 j) as [HF HS].
  rewrite fa_iter_snoc in Hr.
  destruct (fa_next fuel ffuel (fa_iter fuel ffuel j r0)) as [r' o] eqn:E. cbn [fst snd] in *. subst r' o.
  pose proof (fa_next_step _ _ _ _ _ E) as HStp.
  pose proof (script_step k rs2 _ _ _ HStp HS) as H. cbn [o_io] in H.
  destruct H as (_ & -> & Hrs).
  destruct (Frame_step _ _ _ _ _ _ _ HStp HF) as (F1 & F2 & F3 & F4).
  splits; auto.
  destruct (fa_next_io_buffer _ _ _ _ _ E) as [[_ Hn]|[_ Hb]]; auto.
Qed.

Theorem fa_io_error_then_seek_restores inp cap0 rs1 k rs2 sks pol fuel ffuel s line its m :
  3 <= cap0 -> forallb item_ok rs1 = true -> forallb item_ok rs2 = true -> forallb sitem_ok sks = true -> PolOk pol ->
  length (rs1 ++ RFailI k :: rs2) + 2 <= ffuel -> length inp + 2 <= fuel -> nth_error inp s = Some GT ->
  FaStream inp s line its ->
  let r0 := fa_new cap0 (mkSource inp 0 (rs1 ++ RFailI k :: rs2) sks) pol in
  forall j r,
    fa_iter fuel ffuel j r0 = r -> snd (fa_next fuel ffuel (fa_iter fuel ffuel (j - 1) r0)) = OErr (FaIo k) -> 1 <= j ->
    exists r1, fa_seek ffuel r line s = (r1, OOk) /\ fa_position r1 = None /\
      Forall2 (fa_matches inp) (fa_run fuel ffuel m r1) (firstn m (map Some its ++ repeat None m)).
Proof.
  intros Hcap Hrs1 Hrs2 Hsks Hpol Hff Hfuel Hgt Hst r0 j r Hr Herr Hj.
  destruct (fa_state_after_io_error inp cap0 rs1 k rs2 sks pol fuel ffuel j r Hcap Hrs1 Hrs2 Hsks Hr Hj k Herr)
    as (_ & Hd & Hfs & Hrs & Hss & Hpf & Hc).
  rewrite app_length in Hff. cbn [length] in Hff.
  destruct (fa_seek_from_failure inp ffuel r s line Hd Hfs) as (r1 & Heq & Hpos & _);
    try (unfold no_fail, seek_ok; rewrite ?Hrs, ?Hss, ?Hpf; auto; lia).
  exists r1. split; [exact Heq|]. split; [eapply PosAt_position; exact Hpos|].
  eapply run_from_pos; [exact Hpos|exact Hst|lia].
Qed.

(* ------------------------------------------------------------------ *)
(** * 3b. The same against the line-based specification [fa_spec] *)
From SeqIO Require Import Model.Views Spec.FastaSpec Proofs.ViewsP Proofs.ViewShiftP Proofs.FastaPosP Proofs.FastaTopP Proofs.FastaHistP.

Lemma Forall2_skipn {A B} (R : A -> B -> Prop) n : forall l1 l2,
  Forall2 R l1 l2 -> Forall2 R (skipn n l1) (skipn n l2).
Proof.
  induction n as [|n IH]; intros l1 l2 H; [exact H|].
  destruct H; cbn [skipn]; [constructor|apply IH; assumption].
Qed.

Lemma Forall2_nth_r {A B} (R : A -> B -> Prop) : forall l1 l2 i y,
  Forall2 R l1 l2 -> nth_error l2 i = Some y -> exists x, nth_error l1 i = Some x /\ R x y.
Proof.
  intros l1 l2 i y H. revert i. induction H as [|a b l1 l2 Hab _ IH]; intros i Hn.
  - destruct i; discriminate.
  - destruct i as [|i]; cbn [nth_error] in *.
    + inversion Hn; subst. exists a. auto.
    + apply IH; assumption.
Qed.

(** an outcome that matches an offset-based item matches the related line-based item *)
Lemma omatches_smatches inp o oi si :
  fa_omatches inp o oi -> opt_rel (FastaTopP.item_rel inp) oi si -> fa_smatches o si.
Proof.
  destruct o as [o pos]. intros Ha Hq.
  destruct oi as [[s line ends|l f]|]; destruct si as [[i|l' f']|]; cbn in Hq; try contradiction.
  - destruct o as [|rc| | | | |]; cbn in Ha; try contradiction. destruct Ha as [Hat ->].
    destruct Hq as (Hwf & Hh & Hl & Hli & Hby).
    destruct (fa_view_shift_same inp rc s ends Hat Hwf) as (Hwf' & Hv).
    destruct Hv as (Hv1 & _ & Hv3 & _). cbn [fa_smatches].
    rewrite Hv1, Hv3, Hli, Hby. auto.
  - destruct o; cbn in Ha; try contradiction. destruct e; try contradiction.
    cbn. destruct Ha as [-> ->]. destruct Hq as [-> ->]. auto.
  - destruct o; cbn in Ha; try contradiction. exact I.
Qed.

(** record [i] of the specification: its coordinates hold '>' and the offset-based
    stream from there is item-wise related to the rest of the specification *)
Lemma spec_item_stream inp i it : nth_error (fa_spec inp) i = Some (SRec it) ->
  exists its, FaStream inp (fi_byte it) (fi_line it) its /\ nth_error inp (fi_byte it) = Some GT /\
    Forall2 (FastaTopP.item_rel inp) (map oirec its) (skipn i (fa_spec inp)).
Proof.
  intros Hn. destruct (fa_ospec_exists inp) as (items & Hspec & Hrel).
  destruct (Forall2_nth_r _ _ _ _ _ Hrel Hn) as (x & Hx & Hxr).
  inversion Hspec as [Hos | ln b Hos | pos ln its0 Hos Hstream]; subst items.
  - destruct i; discriminate.
  - destruct i as [|[|i]]; cbn [nth_error] in Hx; try discriminate. inversion Hx; subst x. cbn in Hxr. contradiction.
  - change (map (fun it0 : nat * nat * list nat => let '(s, line, ends) := it0 in OiRec s line ends) its0)
      with (map oirec its0) in *.
    rewrite nth_error_map in Hx. destruct (nth_error its0 i) as [it0|] eqn:E0; [|discriminate].
    cbn [option_map] in Hx. inversion Hx; subst x.
    pose proof (FaStream_skipn inp i its0 pos ln Hstream it0 E0) as Hsk.
    pose proof (FaStream_gt inp its0 pos ln Hstream (fa_ostart_recs_pos inp pos ln Hos)) as Hgt.
    pose proof (Forall_nth_error _ _ _ _ Hgt E0) as Hgt0. cbv beta in Hgt0.
    destruct it0 as [[s0 l0] e0]. cbn [oirec FastaTopP.item_rel] in Hxr.
    destruct Hxr as (_ & _ & _ & Hl & Hb). cbn [i_s i_line fst snd] in *.
    exists (skipn i its0). rewrite Hl, Hb. split; [exact Hsk|]. split; [exact Hgt0|].
    rewrite <- skipn_map. apply Forall2_skipn. exact Hrel.
Qed.

Lemma matches_smatches inp its sp m l :
  Forall2 (FastaTopP.item_rel inp) (map oirec its) sp ->
  Forall2 (fa_matches inp) l (firstn m (map Some its ++ repeat None m)) ->
  Forall2 fa_smatches l (firstn m (map Some sp ++ repeat None m)).
Proof.
  intros Hrel H. apply matches_lift in H.
  rewrite (map_firstn_app_repeat (fun it => let '(s, line, ends) := it in OiRec s line ends)) in H.
  eapply (Forall2_trans2 (fa_omatches inp) (opt_rel (FastaTopP.item_rel inp)) fa_smatches);
    [apply omatches_smatches|exact H|].
  apply Forall2_firstn. apply Forall2_opt_stream. exact Hrel.
Qed.

Theorem fa_io_error_then_seek_restores_spec inp cap0 rs1 k rs2 sks pol fuel ffuel i it m :
  3 <= cap0 -> forallb item_ok rs1 = true -> forallb item_ok rs2 = true -> forallb sitem_ok sks = true -> PolOk pol ->
  length (rs1 ++ RFailI k :: rs2) + 2 <= ffuel -> length inp + 2 <= fuel ->
  nth_error (fa_spec inp) i = Some (SRec it) ->
  let r0 := fa_new cap0 (mkSource inp 0 (rs1 ++ RFailI k :: rs2) sks) pol in
  forall j r,
    fa_iter fuel ffuel j r0 = r -> snd (fa_next fuel ffuel (fa_iter fuel ffuel (j - 1) r0)) = OErr (FaIo k) -> 1 <= j ->
    exists r1, fa_seek ffuel r (fi_line it) (fi_byte it) = (r1, OOk) /\ fa_position r1 = None /\
      Forall2 fa_smatches (fa_run fuel ffuel m r1) (firstn m (map Some (skipn i (fa_spec inp)) ++ repeat None m)).
Proof.
  intros Hcap Hrs1 Hrs2 Hsks Hpol Hff Hfuel Hit r0 j r Hr Herr Hj.
  destruct (spec_item_stream inp i it Hit) as (its & Hst & Hgt & Hrel).
  destruct (fa_io_error_then_seek_restores inp cap0 rs1 k rs2 sks pol fuel ffuel (fi_byte it) (fi_line it) its m
              Hcap Hrs1 Hrs2 Hsks Hpol Hff Hfuel Hgt Hst j r Hr Herr Hj) as (r1 & Heq & Hp & Hrun).
  exists r1. split; [exact Heq|]. split; [exact Hp|].
  eapply matches_smatches; eassumption.
Qed.

(* ------------------------------------------------------------------ *)
(** * 4. FASTQ: the seek from a failure state *)
From SeqIO Require Import Model.Fastq Spec.FastqSpec Proofs.FqSpecP Proofs.FastqInv Proofs.FastqNextP
     Proofs.FastqSetP Proofs.FastqSeekP.

Lemma fq_shortcut_off r (pos : Z) : qbuf r = [] \/ qst r = QNew ->
  ((0 <=? pos)%Z && (pos <? Z.of_nat (length (qbuf r)))%Z && negb (fq_state_eqb (qst r) QNew)) = false.
Proof.
  intros [Hb|Hn].
  - rewrite Hb. cbn [length]. destruct (0 <=? pos)%Z eqn:E; [|reflexivity].
    apply Z.leb_le in E. assert ((pos <? Z.of_nat 0)%Z = false) as -> by (apply Z.ltb_ge; lia). reflexivity.
  - rewrite Hn. cbn [fq_state_eqb negb]. apply andb_false_r.
Qed.

(** the state [seek] builds before the refill of a real seek is a window of
    the input at the target, whatever the buffer and the source position were *)
Lemma seek_real_win_any inp ffuel r line byte_ s' lg :
  s_data (qsrc r) = inp -> no_fail (qsrc r) -> length (s_rs (qsrc r)) + 2 <= ffuel -> byte_ <= length inp ->
  s_data s' = s_data (qsrc r) -> s_pos s' = byte_ -> s_rs s' = s_rs (qsrc r) ->
  QWin inp ffuel (qset_p1 (qset_p0 (qset_st (qset_inc (qset_byte (qset_line
               (qset_buf (qset_log (qset_src r s') lg) []) line) byte_) None) QPositioned) 0) 0) byte_.
Proof.
  intros Hd Hnf Hfu Hb Hd' Hp' Hr'.
  constructor;
    cbn [qbuf qsrc qcap qset_p1 qset_p0 qset_st qset_inc qset_byte qset_line qset_buf qset_log qset_src].
  - rewrite Hp', window_nil. reflexivity.
  - rewrite Hd'. exact Hd.
  - lia.
  - lia.
  - cbn [length]. lia.
  - unfold no_fail. rewrite Hr'. exact Hnf.
  - rewrite Hr'. exact Hfu.
Qed.

Theorem fq_seek_from_failure inp ffuel r line byte_ :
  s_data (qsrc r) = inp ->
  (qbuf r = [] \/ qst r = QNew) ->
  no_fail (qsrc r) -> no_sfail (qsrc r) ->
  length (s_rs (qsrc r)) + 2 <= ffuel -> 1 <= qcap r -> PolOk1 (qpolf r) ->
  byte_ <= length inp ->
  exists r', fq_seek ffuel r line byte_ = (r', QOOk) /\
    HQo inp ffuel r' byte_ (fq_parse (skipn byte_ inp) line byte_) /\
    qst r' = QPositioned /\ fq_position r' = (line, byte_) /\ p0 r' = 0.
Proof.
  intros Hd Hfs Hnf Sk Hfu Cap Pol Hb.
  rewrite fq_seek_unfold. cbv zeta. rewrite (fq_shortcut_off r _ Hfs).
  destruct (src_seek_ok (qsrc r) byte_ Sk) as (s' & -> & Hd' & Hp' & Hr' & Sk').
  pose proof (seek_real_win_any inp ffuel r line byte_ s' (EvSeek byte_ None :: qlog r) Hd Hnf Hfu Hb Hd' Hp' Hr') as W1.
  destruct (fill_at inp ffuel _ byte_ W1 Sk' Hp' Pol Cap) as (r2 & n & Hfill & B2 & Hsame).
  rewrite Hfill. exists r2. split; [reflexivity|].
  assert (H123 : HQo inp ffuel r2 byte_ (fq_parse (skipn byte_ inp) line byte_) /\
                 qst r2 = QPositioned /\ fq_position r2 = (line, byte_))
    by (eapply pos0_of_fill; [| | | | |exact Hsame|exact B2]; reflexivity).
  destruct H123 as (H1 & H2 & H3).
  splits; auto.
  destruct Hsame as (_ & S2 & _). rewrite S2. reflexivity.
Qed.

(** seek to item [k] of the stream from a failure state, then [next]: a record
    item is returned again; the invalid group reproduces its error; the
    position is the item's in both cases *)
Corollary fq_seek_then_next_from_failure inp ffuel fuel r k it :
  s_data (qsrc r) = inp ->
  (qbuf r = [] \/ qst r = QNew) ->
  no_fail (qsrc r) -> no_sfail (qsrc r) ->
  length (s_rs (qsrc r)) + 2 <= ffuel -> 1 <= qcap r -> PolOk1 (qpolf r) ->
  nth_error (fq_spec_all inp) k = Some it -> length inp + 2 <= fuel ->
  exists r1 r2 o,
    fq_seek ffuel r (fst (coords it)) (snd (coords it)) = (r1, QOOk) /\
    HQ inp ffuel r1 (skipn k (fq_spec_all inp)) /\
    fq_next fuel ffuel r1 = (r2, o) /\ fq_position r2 = coords it /\
    NextOut inp ffuel (skipn k (fq_spec_all inp)) r2 o /\
    match it with
    | QRec i => exists rc, o = QORec rc /\ rec_at inp rc i
    | QErr e _ _ => o = QOErr (fq_err_of e)
    end.
Proof.
  intros Hd Hfs Hnf Sk Hfu Cap Pol Hk Hfuel. destruct (stream_nth inp k it Hk) as [Hb Hskip].
  destruct (fq_seek_from_failure inp ffuel r (fst (coords it)) (snd (coords it)) Hd Hfs Hnf Sk Hfu Cap Pol Hb)
    as (r1 & Hs & HQ1o & _).
  assert (HQ1 : HQ inp ffuel r1 (skipn k (fq_spec_all inp))) by (rewrite Hskip; eexists; exact HQ1o).
  destruct (gnext_step inp ffuel fuel r1 _ HQ1 Hfuel) as (r2 & o & Hn & HN).
  exists r1, r2, o. split; [exact Hs|]. split; [exact HQ1|]. split; [exact Hn|].
  assert (Hhd : exists rest, skipn k (fq_spec_all inp) = it :: rest).
  { assert (E : nth_error (skipn k (fq_spec_all inp)) 0 = Some it)
      by (rewrite nth_error_skipn_add, Nat.add_0_r; exact Hk).
    destruct (skipn k (fq_spec_all inp)) as [|x rest]; [discriminate|].
    cbn [nth_error] in E. inversion E. eexists. reflexivity. }
  destruct Hhd as (rest & Hhd). 
  assert (HN' := HN). rewrite Hhd in HN'.
  destruct HN' as [i rest' Hit Hrec Hpos _|e l a Hit Hpos _ _|Hit _ _].
  - inversion Hit; subst. split; [exact Hpos|]. split; [exact HN|]. eexists. split; [reflexivity | exact Hrec].
  - inversion Hit; subst. split; [exact Hpos|]. split; [exact HN|]. reflexivity.
  - discriminate Hit.
Qed.

(* ------------------------------------------------------------------ *)
(** * 5. FASTQ: what one call of [next] does to the source, the policy and the capacity *)
From SeqIO Require Import Proofs.TraceP Proofs.FqTraceP.

Definition QStp (e : option nat) (r r' : fq) : Prop :=
  SrcStep e (qsrc r) (qsrc r') /\ qpolf r' = qpolf r /\ qcap r <= qcap r'.

Lemma QStp_refl r : QStp None r r.
Proof. split; [apply SrcStep_refl|]. split; [reflexivity|lia]. Qed.

Lemma QStp_same r r' : qsrc r' = qsrc r -> qpolf r' = qpolf r -> qcap r <= qcap r' -> QStp None r r'.
Proof. intros Hs Hp Hc. split; [rewrite Hs; apply SrcStep_refl|]. split; assumption. Qed.

Lemma QStp_core r r' : qsrc r' = qsrc r -> fq_core r' = fq_core r -> QStp None r r'.
Proof.
  intros Hs Hc. unfold fq_core in Hc. inversion Hc as [[H1 H2 H3 H4]]. apply QStp_same; auto. lia.
Qed.

Lemma QStp_trans e a b c : QStp None a b -> QStp e b c -> QStp e a c.
Proof.
  intros (S1 & P1 & C1) (S2 & P2 & C2). split; [eapply SrcStep_trans; eassumption|].
  split; [congruence|lia].
Qed.

Lemma QStp_ext e r r' r'' : QStp e r r' -> qsrc r'' = qsrc r' -> qpolf r'' = qpolf r' -> qcap r'' = qcap r' -> QStp e r r''.
Proof. intros (S1 & P1 & C1) Hs Hp Hc. split; [rewrite Hs; exact S1|]. split; [congruence|lia]. Qed.

Lemma QStp_ext_l e r0 r r' : QStp e r r' -> qsrc r0 = qsrc r -> qpolf r0 = qpolf r -> qcap r0 = qcap r -> QStp e r0 r'.
Proof. intros (S1 & P1 & C1) Hs Hp Hc. split; [rewrite Hs; exact S1|]. split; [congruence|lia]. Qed.

Definition e_io (e : fq_err) : option nat := match e with FqIo k => Some k | _ => None end.
Definition qrr_io (x : qrres) : option nat := match x with QrErr e => e_io e | _ => None end.
Definition qi_io (x : qires) : option nat := match x with QIErr e => e_io e | _ => None end.
Definition qo_io (x : fq_out) : option nat := match x with QOErr e => e_io e | _ => None end.

Lemma e_io_class e : fq_err_class e = None -> e_io e = None.
Proof. destruct e; cbn; intros H; try reflexivity; discriminate. Qed.

Lemma fq_fill_step ffuel r r' x : fq_fill ffuel r = (r', x) -> QStp (fill_io x) r r'.
Proof.
  unfold fq_fill. destruct (fill_buf ffuel (qbuf r) (qcap r) (qsrc r) (qlog r) 0) as [[[b s] lg] res] eqn:E.
  intros H. inversion H; subst. split; [|split; [reflexivity|cbn [qcap qset_log qset_src qset_buf]; lia]].
  cbn [qsrc qset_log qset_src qset_buf]. eapply fill_buf_step; eassumption.
Qed.

Lemma fq_validate_src r r' v : fq_validate r = (r', v) -> qsrc r' = qsrc r.
Proof.
  unfold fq_validate. intros H.
  repeat match type of H with
         | context [match nth_error ?l ?n with _ => _ end] => destruct (nth_error l n)
         | context [match fq_error_pos ?a ?b ?c with _ => _ end] => destruct (fq_error_pos a b c) as [[? ?]|]
         | context [match bp_seq ?a ?b ?c with _ => _ end] => destruct (bp_seq a b c)
         | context [match bp_qual ?a ?b ?c with _ => _ end] => destruct (bp_qual a b c)
         | context [if ?c then _ else _] => destruct c
         end;
    inversion H; subst; reflexivity.
Qed.

Lemma fq_search_from_src from clear r r' sr : fq_search_from from clear r = (r', sr) -> qsrc r' = qsrc r.
Proof.
  unfold fq_search_from. intros H.
  destruct from; cbn [stage_leb stage_num Nat.leb] in H;
  repeat match type of H with
         | context [match fq_find_line ?b ?p with _ => _ end] => destruct (fq_find_line b p) as [[?|]|]
         end;
    try (inversion H; subst; reflexivity);
    match type of H with of_vres (fq_validate ?R) = _ =>
      destruct (fq_validate R) as [rv v] eqn:Ev; pose proof (fq_validate_src _ _ _ Ev) as Hs;
      destruct v; cbn [of_vres] in H; inversion H; subst; clear H;
      rewrite Hs; destruct clear; reflexivity
    end.
Qed.

Lemma fq_check_end_src s r r' rr : fq_check_end s r = (r', rr) -> qsrc r' = qsrc r.
Proof.
  unfold fq_check_end. intros H.
  assert (Hq : forall r0, qsrc r0 = qsrc r ->
            match fq_validate r0 with
            | (r1, VOk) => (r1, QrOk true) | (r1, VErr e) => (r1, QrErr e) | (r1, VPanic x) => (r1, QrPanic x)
            end = (r', rr) -> qsrc r' = qsrc r).
  { intros r0 H0 Hv. destruct (fq_validate r0) as [r1 v] eqn:Ev.
    pose proof (fq_validate_src _ _ _ Ev) as Hs.
    destruct v; inversion Hv; subst; congruence. }
  destruct s; try (apply (Hq (qset_p1 r (length (qbuf r))) eq_refl H));
    (destruct (length (qbuf r) <? p0 r); [inversion H; subst; auto|];
     destruct (forallb _ _); [inversion H; subst; auto|];
     destruct (fq_error_pos _ _ _) as [[l id]|]; inversion H; subst; auto).
Qed.

Lemma fq_make_room_src s r r' g : fq_make_room s r = (r', g) -> qsrc r' = qsrc r.
Proof.
  unfold fq_make_room. intros H.
  destruct s; cbn [stage_leb stage_num Nat.leb] in H;
    repeat match type of H with context [if ?c then _ else _] => destruct c end;
    inversion H; subst; reflexivity.
Qed.

Lemma fq_grow_step r r' x : fq_grow r = (r', x) -> QStp None r r'.
Proof.
  unfold fq_grow. destruct (qpolf r (qpolh r) (qcap r)) as [n|]; [destruct (n <=? qcap r)|];
    intros H; inversion H; apply QStp_same; try reflexivity.
  cbn [qcap qset_cap qset_log qset_pol]. apply br_reserve_ge.
Qed.

Lemma fq_resume_step ffuel mk : forall fuel s r r' x, fq_resume fuel ffuel s mk r = (r', x) -> QStp (qrr_io x) r r'.
Proof.
  induction fuel as [|f IH]; intros s r r' x H; cbn [fq_resume] in H; [inversion H; apply QStp_refl|].
  destruct (length (qbuf r) <? qcap r).
  { destruct (fq_check_end_facts _ _ _ _ H) as [Hc Hn]. pose proof (fq_check_end_src _ _ _ _ H) as Hs.
    assert (qrr_io x = None) as -> by (destruct x; try reflexivity; apply e_io_class; exact Hn).
    apply QStp_core; [exact Hs|exact Hc]. }
  destruct (if negb mk || (p0 r =? 0) then fq_grow r else fq_make_room s r) as [r1 g] eqn:E1.
  assert (H1 : QStp None r r1).
  { destruct (negb mk || (p0 r =? 0)); [eapply fq_grow_step; eassumption|].
    destruct (fq_make_room_facts _ _ _ _ E1) as (Hc & _). apply QStp_core; [eapply fq_make_room_src; eassumption|exact Hc]. }
  assert (Hg : forall e, g = QGErr e -> e = FqBufferLimit).
  { intros e ->. destruct (negb mk || (p0 r =? 0)).
    - apply (fq_grow_err _ _ _ E1).
    - destruct (fq_make_room_facts _ _ _ _ E1) as (_ & _ & _ & Hne & _). exfalso. apply (Hne e). reflexivity. }
  destruct g as [|e|sx].
  - destruct (fq_fill ffuel r1) as [r2 fr] eqn:E2.
    pose proof (fq_fill_step _ _ _ _ E2) as H2.
    destruct fr as [k|k|]; cbn [fill_io] in H2.
    + destruct (fq_search_from s true r2) as [r3 sr] eqn:E3.
      destruct (fq_search_from_facts _ _ _ _ _ E3) as (Hc & _ & Hcls & _).
      pose proof (fq_search_from_src _ _ _ _ _ E3) as Hs3.
      assert (H13 : QStp None r r3).
      { eapply QStp_trans; [exact H1|]. eapply QStp_trans; [exact H2|]. apply QStp_core; assumption. }
      destruct sr as [|s'|e|sx]; try (inversion H; subst; exact H13).
      * apply IH in H. eapply QStp_trans; eassumption.
      * inversion H; subst. cbn [qrr_io]. cbn [qsres_class] in Hcls. rewrite (e_io_class _ Hcls). exact H13.
    + inversion H; subst. cbn [qrr_io e_io]. eapply QStp_trans; [exact H1|].
      eapply QStp_ext; [exact H2| | |]; reflexivity.
    + inversion H; subst. cbn [qrr_io]. eapply QStp_trans; eassumption.
  - inversion H; subst. rewrite (Hg e eq_refl). exact H1.
  - inversion H; subst. exact H1.
Qed.

Lemma fq_init_step ffuel r r' x : fq_init ffuel r = (r', x) -> QStp (qi_io x) r r'.
Proof.
  unfold fq_init. intros H.
  destruct (fq_fill ffuel r) as [r1 fr] eqn:E1.
  pose proof (fq_fill_step _ _ _ _ E1) as H1.
  destruct fr as [[|n]|k|]; inversion H; subst; cbn [fill_io qi_io e_io] in *; exact H1.
Qed.

Lemma fq_next_tail_step fuel ffuel r r' o : fq_next_tail fuel ffuel r = (r', o) -> QStp (qo_io o) r r'.
Proof.
  unfold fq_next_tail. intros H.
  destruct (match inc r with None => fq_search_from Head false r | Some _ => (r, QsRec) end) as [r1 sr] eqn:E1.
  assert (H1 : QStp None r r1 /\ qsres_class sr = None).
  { destruct (inc r).
    - inversion E1; subst. split; [apply QStp_refl|reflexivity].
    - destruct (fq_search_from_facts _ _ _ _ _ E1) as (Hc & _ & Hcls & _).
      split; [apply QStp_core; [eapply fq_search_from_src; eassumption|exact Hc]|exact Hcls]. }
  destruct H1 as [R1 Hcls].
  assert (Hrest : match inc r1 with
      | Some s =>
          let '(r2, rr) := fq_resume fuel ffuel s true r1 in
          match rr with
          | QrErr e => (r2, QOErr e)
          | QrPanic x => (r2, QOPanic x)
          | QrFuel => (r2, QOFuel)
          | QrOk false => (r2, QONone)
          | QrOk true => (r2, QORec (fq_cur r2))
          end
      | None => (r1, QORec (fq_cur r1))
      end = (r', o) -> QStp (qo_io o) r r').
  { intros Hq. destruct (inc r1) as [s|]; [|inversion Hq; subst; exact R1].
    destruct (fq_resume fuel ffuel s true r1) as [r2 rr] eqn:E2.
    pose proof (fq_resume_step _ _ _ _ _ _ _ E2) as R2.
    pose proof (QStp_trans _ _ _ _ R1 R2) as R.
    destruct rr as [[|]|e|x|]; inversion Hq; subst; exact R. }
  destruct sr as [|s|e|x]; try (apply Hrest; exact H).
  - inversion H; subst. cbn [qo_io]. cbn [qsres_class] in Hcls. rewrite (e_io_class _ Hcls). exact R1.
  - inversion H; subst. exact R1.
Qed.

Lemma fq_increment_same r r1 : fq_increment r = Some r1 -> qsrc r1 = qsrc r /\ qpolf r1 = qpolf r /\ qcap r1 = qcap r.
Proof. unfold fq_increment. destruct (p1 r + 1 <? p0 r); intros H; inversion H; auto. Qed.

Theorem fq_next_step fuel ffuel r r' o : fq_next fuel ffuel r = (r', o) -> QStp (qo_io o) r r'.
Proof.
  unfold fq_next. intros H.
  destruct (qst r) eqn:Es.
  - destruct (fq_init ffuel r) as [r1 ir] eqn:E1.
    pose proof (fq_init_step _ _ _ _ E1) as R1.
    destruct ir as [[|]|e|]; try (inversion H; subst; exact R1).
    eapply QStp_trans; [exact R1|]. apply fq_next_tail_step in H.
    eapply QStp_ext_l; [exact H| | |]; reflexivity.
  - destruct (inc r); [eapply fq_next_tail_step; exact H|].
    destruct (fq_increment r) as [r1|] eqn:E1; [|inversion H; subst; apply QStp_refl].
    destruct (fq_increment_same _ _ E1) as (Hs & Hp & Hc).
    apply fq_next_tail_step in H. eapply QStp_ext_l; [exact H| | |]; auto.
  - apply fq_next_tail_step in H. eapply QStp_ext_l; [exact H| | |]; reflexivity.
  - inversion H; subst. apply QStp_refl.
Qed.

(* ------------------------------------------------------------------ *)
(** * 6. FASTQ end to end: one failure item in the read script *)

Lemma fq_iter_snoc fuel ffuel : forall k r,
  fq_iter fuel ffuel (S k) r = fst (fq_next fuel ffuel (fq_iter fuel ffuel k r)).
Proof.
  induction k as [|k IH]; intros r; [reflexivity|].
  change (fq_iter fuel ffuel (S (S k)) r) with (fq_iter fuel ffuel (S k) (fst (fq_next fuel ffuel r))).
  rewrite IH. reflexivity.
Qed.

Definition QFrame (inp : list byte) (sks : list sitem) (pol : policy) (cap0 : nat) (r : fq) : Prop :=
  s_data (qsrc r) = inp /\ s_ss (qsrc r) = sks /\ qpolf r = pol /\ cap0 <= qcap r.

Lemma QFrame_step inp sks pol cap0 e r r' : QStp e r r' -> QFrame inp sks pol cap0 r -> QFrame inp sks pol cap0 r'.
Proof.
  intros ((D & S & _) & P & C) (F1 & F2 & F3 & F4). unfold QFrame. splits; try congruence. lia.
Qed.

Lemma fq_iter_inv inp sks pol cap0 k rs2 fuel ffuel r0 :
  forallb item_ok rs2 = true ->
  QFrame inp sks pol cap0 r0 -> SAhead k rs2 (qsrc r0) ->
  forall i, QFrame inp sks pol cap0 (fq_iter fuel ffuel i r0) /\
            (SAhead k rs2 (qsrc (fq_iter fuel ffuel i r0)) \/ SBehind rs2 (qsrc (fq_iter fuel ffuel i r0))).
Proof.
  intros Hrs2 HF HA. induction i as [|i [IHF IHS]]; [cbn [fq_iter]; auto|].
  rewrite fq_iter_snoc.
  destruct (fq_next fuel ffuel (fq_iter fuel ffuel i r0)) as [r' o] eqn:E. cbn [fst].
  pose proof (fq_next_step _ _ _ _ _ E) as HS.
  split; [eapply QFrame_step; eassumption|].
  pose proof (src_script_step k rs2 _ _ _ (proj1 HS) IHS) as H.
  destruct (qo_io o) as [k'|]; [|exact H].
  right. destruct H as (_ & _ & Hrs). split; rewrite Hrs; [exact Hrs2|lia].
Qed.

(** the state after the call that returned the I/O error *)
Lemma fq_state_after_io_error inp cap0 rs1 k rs2 sks pol fuel ffuel j r :
  forallb item_ok rs1 = true -> forallb item_ok rs2 = true ->
  let r0 := fq_new cap0 (mkSource inp 0 (rs1 ++ RFailI k :: rs2) sks) pol in
  fq_iter fuel ffuel j r0 = r -> 1 <= j ->
  forall k', snd (fq_next fuel ffuel (fq_iter fuel ffuel (j - 1) r0)) = QOErr (FqIo k') ->
  k' = k /\ s_data (qsrc r) = inp /\ (qbuf r = [] \/ qst r = QNew) /\ s_rs (qsrc r) = rs2 /\
  s_ss (qsrc r) = sks /\ qpolf r = pol /\ cap0 <= qcap r.
Proof.
  intros Hrs1 Hrs2 r0 Hr Hj k' Herr.
  destruct j as [|j]; [lia|]. replace (S j - 1) with j in Herr by lia.
  assert (HF0 : QFrame inp sks pol cap0 r0) by (unfold QFrame, r0; cbn; auto).
  assert (HA0 : SAhead k rs2 (qsrc r0)) by (exists rs1; split; [exact Hrs1|reflexivity]).
  destruct (fq_iter_inv inp sks pol cap0 k rs2 fuel ffuel r0 Hrs2 HF0 HA0 j) as [HF HS].
  rewrite fq_iter_snoc in Hr.
  destruct (fq_next fuel ffuel (fq_iter fuel ffuel j r0)) as [r' o] eqn:E. cbn [fst snd] in *. subst r' o.
  pose proof (fq_next_step _ _ _ _ _ E) as HStp.
  pose proof (src_script_step k rs2 _ _ _ (proj1 HStp) HS) as H. cbn [qo_io e_io] in H.
  destruct H as (_ & -> & Hrs).
  destruct (QFrame_step _ _ _ _ _ _ _ HStp HF) as (F1 & F2 & F3 & F4).
  splits; auto.
  destruct (fq_next_io_buffer _ _ _ _ _ E) as [[_ Hn]|[_ Hb]]; auto.
Qed.

(** one call against the head of the stream *)
Lemma NextOut_matches inp ffuel items r' o : NextOut inp ffuel items r' o ->
  fq_matches inp (o, fq_position r') (hd_error items) /\ HQ inp ffuel r' (tl items).
Proof.
  intros [i rest Hit Hrec Hpos HQ'|e l a Hit Hpos HQ' _|Hit HQ' _]; subst items; cbn [hd_error tl fq_matches].
  - split; [|exact HQ']. destruct Hrec as (off & Hh & Hs & Hq & _ & Hr0 & e & Hb & _).
    splits; auto. exists off, e. auto.
  - split; [|exact HQ']. auto.
  - split; [exact I|exact HQ'].
Qed.

(** from every state between calls: the rest of the stream, then the end for ever *)
Lemma hq_run_spec inp ffuel fuel : length inp + 2 <= fuel -> forall n m r items,
  n <= m -> HQ inp ffuel r items ->
  Forall2 (fq_matches inp) (fq_run fuel ffuel n r) (firstn n (map Some items ++ repeat None m)).
Proof.
  intros Hfuel. induction n as [|n IH]; intros m r items Hm HQ0; [constructor|].
  cbn [fq_run].
  destruct (gnext_step inp ffuel fuel r items HQ0 Hfuel) as (r' & o & -> & HN).
  destruct (NextOut_matches _ _ _ _ _ HN) as [Hmatch HQ'].
  destruct items as [|it items]; cbn [hd_error tl map app] in *.
  - destruct m as [|m]; [lia|]. cbn [repeat firstn]. constructor; [exact Hmatch|].
    apply (IH m r' []); [lia | exact HQ'].
  - cbn [firstn]. constructor; [exact Hmatch|]. apply IH; [lia | exact HQ'].
Qed.

Theorem fq_io_error_then_seek_restores inp cap0 rs1 k rs2 sks pol fuel ffuel i it m :
  1 <= cap0 -> forallb item_ok rs1 = true -> forallb item_ok rs2 = true -> forallb sitem_ok sks = true -> PolOk1 pol ->
  length (rs1 ++ RFailI k :: rs2) + 2 <= ffuel -> length inp + 2 <= fuel ->
  nth_error (fq_spec_all inp) i = Some it ->
  let r0 := fq_new cap0 (mkSource inp 0 (rs1 ++ RFailI k :: rs2) sks) pol in
  forall j r,
    fq_iter fuel ffuel j r0 = r -> snd (fq_next fuel ffuel (fq_iter fuel ffuel (j - 1) r0)) = QOErr (FqIo k) -> 1 <= j ->
    exists r1, fq_seek ffuel r (fst (coords it)) (snd (coords it)) = (r1, QOOk) /\ fq_position r1 = coords it /\
      Forall2 (fq_matches inp) (fq_run fuel ffuel m r1) (firstn m (map Some (skipn i (fq_spec_all inp)) ++ repeat None m)).
Proof.
  intros Hcap Hrs1 Hrs2 Hsks Hpol Hff Hfuel Hit r0 j r Hr Herr Hj.
  destruct (fq_state_after_io_error inp cap0 rs1 k rs2 sks pol fuel ffuel j r Hrs1 Hrs2 Hr Hj k Herr)
    as (_ & Hd & Hfs & Hrs & Hss & Hpf & Hc).
  rewrite app_length in Hff. cbn [length] in Hff.
  destruct (stream_nth inp i it Hit) as [Hb Hskip].
  destruct (fq_seek_from_failure inp ffuel r (fst (coords it)) (snd (coords it)) Hd Hfs) as (r1 & Heq & HQ1 & _ & Hpos & _);
    try (unfold no_fail, no_sfail; rewrite ?Hrs, ?Hss, ?Hpf; auto; lia).
  exists r1. split; [exact Heq|]. split; [rewrite Hpos; destruct (coords it); reflexivity|].
  apply (hq_run_spec inp ffuel fuel Hfuel m m); [lia|]. rewrite Hskip. eexists. exact HQ1.
Qed.

(* ------------------------------------------------------------------ *)
(** * 7. FASTA, every entry point: the failing call may be [next], [read_record_set] or [seek] *)

Definition l_io (x : lres) : option nat := match x with LErr (FaIo k) => Some k | _ => None end.

Lemma fa_set_loop_step rfuel ffuel n : forall lf is_new r rs r' rs' x,
  fa_set_loop lf rfuel ffuel n is_new r rs = (r', rs', x) -> Stp (l_io x) r r'.
Proof.
  induction lf as [|f IH]; intros is_new r rs r' rs' x H; [inversion H; apply Stp_refl|].
  rewrite FastaSetP.fa_set_loop_S in H.
  assert (Hfound : forall r1 rs1, Stp None r r1 ->
            FastaSetP.set_found (fa_set_loop f rfuel ffuel n is_new) n r1 rs1 = (r', rs', x) -> Stp (l_io x) r r').
  { intros r1 rs1 H1 Hf. unfold FastaSetP.set_found in Hf.
    destruct (fa_increment r1) as [r2|] eqn:E; [|inversion Hf; subst; exact H1].
    destruct (fa_increment_same _ _ E) as (Hs & Hp & Hc).
    assert (H2 : Stp None r r2) by (eapply Stp_ext; [exact H1| | |]; assumption).
    destruct (reached n (snpos (fa_set_put rs1 r1))); [inversion Hf; subst; exact H2|].
    apply IH in Hf. eapply Stp_trans; eassumption. }
  destruct (fa_state_eqb (st r) FFinished); [inversion H; apply Stp_refl|].
  destruct (fa_state_eqb (st r) FIncomplete).
  - destruct (fa_resume rfuel ffuel is_new r) as [r1 rr] eqn:E1.
    pose proof (fa_resume_step _ _ _ _ _ _ E1) as H1.
    destruct rr as [[|]|e|sx|]; try (inversion H; subst; exact H1).
    refine (Hfound _ _ _ H). cbn [rr_io] in H1.
    destruct (fa_state_eqb (st r1) FFinished); [exact H1|]. eapply Stp_ext; [exact H1| | |]; reflexivity.
  - destruct (fa_search r) as [r1 sr] eqn:E1.
    pose proof (fa_search_step _ _ _ E1) as H1.
    destruct sr as [[|]|sx]; [exact (Hfound _ _ H1 H)| |inversion H; subst; exact H1].
    destruct (snpos rs =? 0); [apply IH in H; eapply Stp_trans; eassumption|].
    destruct (below n (snpos rs)); [apply IH in H; eapply Stp_trans; eassumption|inversion H; subst; exact H1].
Qed.

Lemma fa_set_finish_io y r' rs' x : fa_set_finish y = (r', rs', x) -> r' = fst (fst y) /\ o_io x = l_io (snd y).
Proof. destruct y as [[r rs] lr]. cbn [fa_set_finish fst snd]. destruct lr; intros H; inversion H; auto. Qed.

Theorem fa_read_set_step fuel ffuel n r rs r' rs' x :
  fa_read_set fuel ffuel n r rs = (r', rs', x) -> Stp (o_io x) r r'.
Proof.
  unfold fa_read_set.
  assert (Hgo : forall r1, Stp None r r1 ->
     fa_set_finish (fa_set_loop fuel fuel ffuel n true r1 (mkFaSet (sbuf rs) (spositions rs) 0)) = (r', rs', x) ->
     Stp (o_io x) r r').
  { intros r1 H1 H. apply fa_set_finish_io in H.
    destruct (fa_set_loop fuel fuel ffuel n true r1 (mkFaSet (sbuf rs) (spositions rs) 0)) as [[r2 rs2] lr] eqn:E.
    cbn [fst snd] in H. destruct H as [-> ->]. apply fa_set_loop_step in E. eapply Stp_trans; eassumption. }
  destruct (st r).
  - destruct (fa_init fuel ffuel r) as [r1 ir] eqn:E. pose proof (fa_init_step _ _ _ _ _ E) as H1.
    destruct ir as [[|]|e|]; cbn [i_io] in H1; try (intros H; inversion H; subst; exact H1).
    apply Hgo. eapply Stp_ext; [exact H1| | |]; reflexivity.
  - destruct (fa_increment r) as [r1|] eqn:E; [|intros H; inversion H; apply Stp_refl].
    destruct (fa_increment_same _ _ E) as (Hs & Hp & Hc).
    apply Hgo. apply Stp_same; cbn [src polf cap set_st]; auto. lia.
  - apply Hgo. apply Stp_refl.
  - apply Hgo. apply Stp_refl.
  - intros H; inversion H; apply Stp_refl.
Qed.

(** [seek] over a source whose seeks do not fail: an I/O error can only come from the
    refill; the seek script stays fault-free (one item is consumed by a real seek) *)
Lemma fa_seek_step ffuel r line b r' o : fa_seek ffuel r line b = (r', o) -> seek_ok (src r) ->
  s_data (src r') = s_data (src r) /\ consumed (o_io o) (s_rs (src r)) (s_rs (src r')) /\
  seek_ok (src r') /\ polf r' = polf r /\ cap r <= cap r' /\
  (forall k, o = OErr (FaIo k) -> st r' = FFinished /\ buf r' = []).
Proof.
  unfold fa_seek. intros H Hsk.
  destruct ((0 <=? Z.of_nat (start r) + (Z.of_nat b - Z.of_nat (pbyte r)))%Z &&
            (Z.of_nat (start r) + (Z.of_nat b - Z.of_nat (pbyte r)) <? Z.of_nat (length (buf r)))%Z &&
            negb (fa_state_eqb (st r) FNew)).
  { inversion H; subst. cbn [src polf cap set_seqpos set_start set_spos set_st set_pbyte set_pline o_io].
    splits; auto using consumed_refl. intros k Hk; discriminate. }
  destruct (src_seek_okF (src r) b Hsk) as (ss' & Hseek & Hss'). rewrite Hseek in H.
  match type of H with (let '(r1, fr) := fa_fill ffuel ?R in _) = _ => set (r0 := R) in * end.
  destruct (fa_fill ffuel r0) as [r1 fr] eqn:E1.
  pose proof (fa_fill_step _ _ _ _ E1) as ((D & S & C) & P & Cp).
  unfold r0 in D, S, C, P, Cp.
  cbn [src polf cap s_data s_ss s_rs set_log set_src set_buf set_seqpos set_start set_spos set_st set_pbyte set_pline] in D, S, C, P, Cp.
  destruct fr as [m|k|]; inversion H; subst; cbn [fill_io o_io] in *;
    cbn [src polf cap st buf set_st set_buf].
  all: split; [exact D|]. all: split; [exact C|]. all: split; [unfold seek_ok; first [exact Hss' | rewrite S; exact Hss']|].
  all: split; [exact P|]. all: split; [exact Cp|].
  - intros k Hk; discriminate.
  - intros k0 Hk. auto.
  - intros k Hk; discriminate.
Qed.

(** [HealthySrc inp k rs2 r]: all that is asked of the reader BEFORE the failing call -- nothing
    about its buffer, offsets or state: the source holds [inp], its seeks do not fail, the read
    script has fault-free items, then the failure [RFailI k], then [rs2]; the policy never refuses *)
Definition HealthySrc (inp : list byte) (k : nat) (rs2 : list ritem) (r : fa) : Prop :=
  s_data (src r) = inp /\ seek_ok (src r) /\ PolOk (polf r) /\ 1 <= cap r /\ Ahead k rs2 r.

(** [FailState inp rs2 r]: what the failing call leaves behind *)
Definition FailState (inp : list byte) (rs2 : list ritem) (r : fa) : Prop :=
  s_data (src r) = inp /\ (buf r = [] \/ st r = FNew) /\ s_rs (src r) = rs2 /\
  seek_ok (src r) /\ PolOk (polf r) /\ 1 <= cap r.

(** one call of an entry point *)
Inductive fa_call (r r' : fa) (o : fa_out) : Prop :=
| FC_next fuel ffuel : fa_next fuel ffuel r = (r', o) -> fa_call r r' o
| FC_set fuel ffuel n rs rs' : fa_read_set fuel ffuel n r rs = (r', rs', o) -> fa_call r r' o
| FC_seek ffuel line b : fa_seek ffuel r line b = (r', o) -> fa_call r r' o.

Lemma fa_call_facts r r' o : fa_call r r' o -> seek_ok (src r) ->
  s_data (src r') = s_data (src r) /\ consumed (o_io o) (s_rs (src r)) (s_rs (src r')) /\
  seek_ok (src r') /\ polf r' = polf r /\ cap r <= cap r' /\
  (forall k, o = OErr (FaIo k) -> buf r' = [] \/ st r' = FNew).
Proof.
  intros [fuel ffuel H|fuel ffuel n rs rs' H|ffuel line b H] Hsk.
  - pose proof (fa_next_step _ _ _ _ _ H) as ((D & S & C) & P & Cp).
    splits; auto; [unfold seek_ok; rewrite S; exact Hsk|].
    intros k ->. destruct (fa_next_io_buffer _ _ _ _ _ H) as [[_ Hn]|[_ Hb]]; auto.
  - pose proof (fa_read_set_step _ _ _ _ _ _ _ _ H) as ((D & S & C) & P & Cp).
    splits; auto; [unfold seek_ok; rewrite S; exact Hsk|].
    intros k ->. destruct (fa_read_set_io_buffer _ _ _ _ _ _ _ _ H) as [[_ Hn]|[_ Hb]]; auto.
  - destruct (fa_seek_step _ _ _ _ _ _ H Hsk) as (D & C & S & P & Cp & Hf).
    splits; auto. intros k Hk. left. apply (Hf k Hk).
Qed.

(** a call that returns no I/O error keeps the source healthy; the call that returns the
    I/O error consumed exactly the failure item and leaves a failure state *)
Theorem fa_call_healthy inp k rs2 r r' o : fa_call r r' o -> HealthySrc inp k rs2 r ->
  match o_io o with
  | None => HealthySrc inp k rs2 r'
  | Some k' => k' = k /\ FailState inp rs2 r'
  end.
Proof.
  intros Hc (Hd & Hsk & Hpol & Hcap & HA).
  destruct (fa_call_facts _ _ _ Hc Hsk) as (D & C & S & P & Cp & Hf).
  assert (HS : SrcStep (o_io o) (mkSource (s_data (src r)) 0 (s_rs (src r)) [])
                              (mkSource (s_data (src r)) 0 (s_rs (src r')) [])).
  { split; [reflexivity|]. split; [reflexivity|exact C]. }
  pose proof (src_script_step k rs2 _ _ _ HS (or_introl HA)) as Hstep.
  destruct (o_io o) as [k'|] eqn:Eo.
  - destruct Hstep as (_ & -> & Hrs). cbn [s_rs] in Hrs. split; [reflexivity|].
    unfold FailState. splits; auto; try congruence; try lia.
    + apply (Hf k). destruct o as [| | | |[k0| |]| |]; cbn [o_io] in Eo; try discriminate. congruence.
    + rewrite P. exact Hpol.
  - destruct Hstep as [HA'|[Hok Hlen]].
    + unfold HealthySrc. splits; auto; try congruence; try lia. rewrite P. exact Hpol.
    + (* the failure item cannot have disappeared *)
      exfalso. destruct HA as (pre & Hpre & Hrs). destruct C as (p & Hp & Hc'). cbn [s_rs] in *.
      rewrite Hrs in Hc'.
      destruct (split_at_failure k rs2 p pre _ Hp Hpre (eq_sym Hc')) as (pre' & _ & HX).
      rewrite HX in Hok. rewrite forallb_app in Hok. apply andb_true_iff in Hok. destruct Hok as [_ Hok].
      cbn [forallb item_ok andb] in Hok. discriminate.
Qed.

Lemma HealthySrc_set_policy inp k rs2 r p : PolOk p -> HealthySrc inp k rs2 r -> HealthySrc inp k rs2 (fa_set_policy r p).
Proof. intros Hp (Hd & Hsk & _ & Hcap & HA). unfold HealthySrc, fa_set_policy. splits; auto. Qed.

Lemma HealthySrc_new inp cap0 rs1 k rs2 sks pol :
  1 <= cap0 -> forallb item_ok rs1 = true -> forallb FastaSeekP.sitem_ok sks = true -> PolOk pol ->
  HealthySrc inp k rs2 (fa_new cap0 (mkSource inp 0 (rs1 ++ RFailI k :: rs2) sks) pol).
Proof.
  intros Hc Hrs1 Hsks Hpol. unfold HealthySrc, fa_new. cbn [src polf cap s_data]. splits; auto.
  exists rs1. split; [exact Hrs1|reflexivity].
Qed.

(** the seek from the failure state *)
Theorem fa_seek_from_FailState inp ffuel rs2 r s line :
  FailState inp rs2 r -> forallb item_ok rs2 = true -> length rs2 + 2 <= ffuel -> nth_error inp s = Some GT ->
  exists r', fa_seek ffuel r line s = (r', OOk) /\ PosAt inp ffuel r' s s line /\ seek_ok (src r') /\ start r' = 0.
Proof.
  intros (Hd & Hfs & Hrs & Hsk & Hpol & Hcap) Hok Hff Hgt.
  destruct (fa_seek_from_failure inp ffuel r s line Hd Hfs) as (r' & H1 & H2 & H3 & H4 & _); auto.
  - unfold no_fail. rewrite Hrs. exact Hok.
  - rewrite Hrs. exact Hff.
  - exists r'. auto.
Qed.

(** any failing call, then the seek, then the rest of the stream *)
Theorem fa_failed_call_then_seek inp k rs2 r r' k' fuel ffuel s line its m :
  HealthySrc inp k rs2 r -> fa_call r r' (OErr (FaIo k')) ->
  forallb item_ok rs2 = true -> length rs2 + 2 <= ffuel -> length inp < fuel ->
  nth_error inp s = Some GT -> FaStream inp s line its ->
  k' = k /\
  exists r1, fa_seek ffuel r' line s = (r1, OOk) /\ PosAt inp ffuel r1 s s line /\ seek_ok (src r1) /\
    Forall2 (fa_matches inp) (fa_run fuel ffuel m r1) (firstn m (map Some its ++ repeat None m)).
Proof.
  intros HH Hc Hok Hff Hfuel Hgt Hst.
  pose proof (fa_call_healthy inp k rs2 r r' _ Hc HH) as H. cbn [o_io] in H. destruct H as [-> HF].
  split; [reflexivity|].
  destruct (fa_seek_from_FailState inp ffuel rs2 r' s line HF Hok Hff Hgt) as (r1 & H1 & H2 & H3 & _).
  exists r1. splits; auto. eapply run_from_pos; eassumption.
Qed.

(* ------------------------------------------------------------------ *)
(** * The statements as they are claimed in Props/C05s.v *)

Theorem fa_seek_restores_from_failure_states : forall inp ffuel r s line,
  s_data (src r) = inp ->
  (buf r = [] \/ st r = FNew) ->
  no_fail (src r) -> seek_ok (src r) ->
  length (s_rs (src r)) + 2 <= ffuel -> 1 <= cap r -> PolOk (polf r) ->
  nth_error inp s = Some GT ->
  exists r', fa_seek ffuel r line s = (r', OOk) /\ PosAt inp ffuel r' s s line /\ seek_ok (src r') /\ start r' = 0.
Proof.
  intros inp ffuel r s line Hd Hfs Hnf Hsk Hfu Hcap Hpol Hgt.
  destruct (fa_seek_from_failure inp ffuel r s line Hd Hfs Hnf Hsk Hfu Hcap Hpol Hgt) as (r' & H1 & H2 & H3 & H4 & _).
  exists r'. auto.
Qed.

(** what else the seek keeps: capacity and policy, a fault-free (and not longer) read script *)
Theorem fa_seek_from_failure_keeps : forall inp ffuel r s line,
  s_data (src r) = inp ->
  (buf r = [] \/ st r = FNew) ->
  no_fail (src r) -> seek_ok (src r) ->
  length (s_rs (src r)) + 2 <= ffuel -> 1 <= cap r -> PolOk (polf r) ->
  nth_error inp s = Some GT ->
  exists r', fa_seek ffuel r line s = (r', OOk) /\
             cap r' = cap r /\ polf r' = polf r /\ no_fail (src r') /\ length (s_rs (src r')) <= length (s_rs (src r)).
Proof.
  intros inp ffuel r s line Hd Hfs Hnf Hsk Hfu Hcap Hpol Hgt.
  destruct (fa_seek_from_failure inp ffuel r s line Hd Hfs Hnf Hsk Hfu Hcap Hpol Hgt) as (r' & H1 & _ & _ & _ & H5).
  exists r'. auto.
Qed.

Theorem fq_seek_restores_from_failure_states : forall inp ffuel r line byte_,
  s_data (qsrc r) = inp ->
  (qbuf r = [] \/ qst r = QNew) ->
  no_fail (qsrc r) -> no_sfail (qsrc r) ->
  length (s_rs (qsrc r)) + 2 <= ffuel -> 1 <= qcap r -> PolOk1 (qpolf r) ->
  byte_ <= length inp ->
  exists r', fq_seek ffuel r line byte_ = (r', QOOk) /\
    HQ inp ffuel r' (fq_parse (skipn byte_ inp) line byte_) /\
    qst r' = QPositioned /\ fq_position r' = (line, byte_) /\ p0 r' = 0.
Proof.
  intros inp ffuel r line byte_ Hd Hfs Hnf Sk Hfu Cap Pol Hb.
  destruct (fq_seek_from_failure inp ffuel r line byte_ Hd Hfs Hnf Sk Hfu Cap Pol Hb) as (r' & H1 & H2 & H3).
  exists r'. split; [exact H1|]. split; [eexists; exact H2|exact H3].
Qed.

Theorem fa_calls_consume_script :
  (forall fuel ffuel r r' o, fa_next fuel ffuel r = (r', o) -> Stp (o_io o) r r') /\
  (forall fuel ffuel n r rs r' rs' o, fa_read_set fuel ffuel n r rs = (r', rs', o) -> Stp (o_io o) r r').
Proof. split; [exact fa_next_step | exact fa_read_set_step]. Qed.

Theorem Stp_plain_words : forall e r r', Stp e r r' <->
  s_data (src r') = s_data (src r) /\ s_ss (src r') = s_ss (src r) /\
  (exists pre, forallb item_ok pre = true /\
     s_rs (src r) = pre ++ match e with None => s_rs (src r') | Some k => RFailI k :: s_rs (src r') end) /\
  polf r' = polf r /\ cap r <= cap r'.
Proof. intros e r r'. unfold Stp, SrcStep, consumed. tauto. Qed.

Theorem QStp_plain_words : forall e r r', QStp e r r' <->
  s_data (qsrc r') = s_data (qsrc r) /\ s_ss (qsrc r') = s_ss (qsrc r) /\
  (exists pre, forallb item_ok pre = true /\
     s_rs (qsrc r) = pre ++ match e with None => s_rs (qsrc r') | Some k => RFailI k :: s_rs (qsrc r') end) /\
  qpolf r' = qpolf r /\ qcap r <= qcap r'.
Proof. intros e r r'. unfold QStp, SrcStep, consumed. tauto. Qed.

Theorem fa_call_healthy_both :
  (forall inp k rs2 r r' o, fa_call r r' o -> HealthySrc inp k rs2 r ->
     match o_io o with
     | None => HealthySrc inp k rs2 r'
     | Some k' => k' = k /\ FailState inp rs2 r'
     end) /\
  (forall inp k rs2 r p, PolOk p -> HealthySrc inp k rs2 r -> HealthySrc inp k rs2 (fa_set_policy r p)).
Proof. split; [exact fa_call_healthy | exact HealthySrc_set_policy]. Qed.

Theorem healthy_plain_words :
  (forall inp k rs2 r, HealthySrc inp k rs2 r <->
     s_data (src r) = inp /\ seek_ok (src r) /\ PolOk (polf r) /\ 1 <= cap r /\
     exists pre, forallb item_ok pre = true /\ s_rs (src r) = pre ++ RFailI k :: rs2) /\
  (forall inp rs2 r, FailState inp rs2 r <->
     s_data (src r) = inp /\ (buf r = [] \/ st r = FNew) /\ s_rs (src r) = rs2 /\
     seek_ok (src r) /\ PolOk (polf r) /\ 1 <= cap r) /\
  (forall r r' o, fa_call r r' o <->
     (exists fuel ffuel, fa_next fuel ffuel r = (r', o)) \/
     (exists fuel ffuel n rs rs', fa_read_set fuel ffuel n r rs = (r', rs', o)) \/
     (exists ffuel line b, fa_seek ffuel r line b = (r', o))).
Proof.
  split; [|split].
  - intros. unfold HealthySrc, Ahead, SAhead. tauto.
  - intros. unfold FailState. tauto.
  - intros r r' o. split.
    + intros [fuel ffuel H|fuel ffuel n rs rs' H|ffuel line b H]; eauto 10.
    + intros [(fuel & ffuel & H)|[(fuel & ffuel & n & rs & rs' & H)|(ffuel & line & b & H)]];
        [eapply FC_next|eapply FC_set|eapply FC_seek]; exact H.
Qed.

Print Assumptions fa_seek_restores_from_failure_states.
Print Assumptions fa_seek_then_next_from_failure.
Print Assumptions fa_io_error_then_seek_restores.
Print Assumptions fa_io_error_then_seek_restores_spec.
Print Assumptions fa_failed_call_then_seek.
Print Assumptions fq_seek_then_next_from_failure.
Print Assumptions fq_io_error_then_seek_restores.
