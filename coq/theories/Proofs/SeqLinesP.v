(** Proofs about the SeqLines iterator model (Model/Views.v): it refines a
    double-ended queue over the record's sequence lines. *)
From SeqIO Require Import Model.Base Model.Fasta Model.Fastq Model.Views.

(** Abstract deque of the items still to come. *)
Inductive dq_step := DFront | DBack.

Definition dq_front {A} (l : list A) : list A * option A :=
  match l with [] => ([], None) | x :: t => (t, Some x) end.
Definition dq_back {A} (l : list A) : list A * option A :=
  match rev l with [] => ([], None) | x :: t => (rev t, Some x) end.

(** the i-th line of a record, as the iterator reports it *)
Definition sl_line (r : fa_rec) (i : nat) : sl_res :=
  match nth_error (rseqpos r) i, nth_error (rseqpos r) (S i) with
  | Some a, Some e => match fa_line (rbuf r) a e with Some l => SlItem l | None => SlPanic end
  | _, _ => SlPanic
  end.

(** the items still to come, by line index *)
Definition sl_todo (s : seqlines) : list nat := seq (af s) (sl_len s).

Definition SLInv (s : seqlines) : Prop :=
  (bf s = S (af s) /\ bf s <= bb s /\ (ab s = bb s \/ S (ab s) = bb s))
  \/ (af s = ab s /\ bf s = bb s).

Lemma sl_init_inv r s : fa_seq_lines r = Some s -> SLInv s /\ sl_rec s = r /\
  sl_todo s = seq 0 (length (rseqpos r) - 1).
Proof.
  unfold fa_seq_lines. cbv zeta.
  intros H; inversion H; subst; clear H.
  unfold SLInv, sl_todo, sl_len; cbn [af ab bf bb sl_rec].
  (* an empty offset list gives the empty iterator (second disjunct of SLInv) *)
  destruct (rseqpos r) as [|x xs]; cbn [length].
  - split; [right; cbn; lia|split; reflexivity].
  - split; [|split].
    + left. destruct xs; cbn; lia.
    + reflexivity.
    + f_equal. destruct xs; cbn [length Nat.min]; lia.
Qed.

Lemma sl_len_live s : bf s = S (af s) -> bf s <= bb s -> (ab s = bb s \/ S (ab s) = bb s) ->
  sl_len s = bb s - bf s.
Proof. unfold sl_len; lia. Qed.

Lemma sl_item_line s i : sl_item s i (S i) = match sl_line (sl_rec s) i with
                                               | SlItem l => Some l | _ => None end
                          \/ True.
Proof. right; exact I. Qed.

Definition res_of (r : fa_rec) (i : nat) : sl_res := sl_line r i.

Lemma sl_item_res s i :
  match sl_item s i (S i) with Some l => SlItem l | None => SlPanic end = sl_line (sl_rec s) i.
Proof.
  unfold sl_item, sl_line.
  destruct (nth_error (rseqpos (sl_rec s)) i); [|reflexivity].
  destruct (nth_error (rseqpos (sl_rec s)) (S i)); [|reflexivity].
  destruct (fa_line _ _ _); reflexivity.
Qed.

(** one step from the front *)
Lemma sl_next_spec s : SLInv s ->
  let '(s', out) := sl_next s in
  SLInv s' /\ sl_rec s' = sl_rec s /\
  match sl_todo s with
  | [] => out = SlNone /\ sl_todo s' = []
  | i :: t => out = sl_line (sl_rec s) i /\ sl_todo s' = t
  end.
Proof.
  intros [(H1 & H2 & H3) | (H1 & H2)].
  - unfold sl_next, sl_todo. rewrite (sl_len_live s H1 H2 H3).
    destruct (af s <? ab s) eqn:Ea; [apply Nat.ltb_lt in Ea | apply Nat.ltb_ge in Ea].
    + destruct (bf s <? bb s) eqn:Eb; [apply Nat.ltb_lt in Eb | apply Nat.ltb_ge in Eb].
      * assert (Hl : sl_len (mkSL (sl_rec s) (S (af s)) (ab s) (S (bf s)) (bb s)) = bb s - bf s - 1)
          by (unfold sl_len; cbn; lia).
        rewrite Hl. cbn [af ab bf bb sl_rec].
        split; [left; cbn; lia|]. split; [reflexivity|].
        destruct (bb s - bf s) as [|k] eqn:Ek; [lia|]. cbn [seq].
        split; [rewrite H1; apply sl_item_res | f_equal; lia].
      * assert (bb s - bf s = 0) as -> by lia. cbn [seq af ab bf bb sl_rec].
        split; [right; cbn; lia|]. split; [reflexivity|]. split; [reflexivity|].
        unfold sl_len; cbn. assert (bb s - bf s = 0) as -> by lia. rewrite Nat.min_0_r. reflexivity.
    + assert (bb s - bf s = 0) as -> by lia. cbn [seq].
      split; [left; lia|]. split; [reflexivity|]. split; [reflexivity|].
      rewrite (sl_len_live s H1 H2 H3). assert (bb s - bf s = 0) as -> by lia. reflexivity.
  - unfold sl_next, sl_todo.
    assert (Hl : sl_len s = 0) by (unfold sl_len; lia). rewrite Hl.
    assert (af s <? ab s = false) as -> by (apply Nat.ltb_ge; lia). cbn [seq].
    split; [right; lia|]. split; [reflexivity|]. split; [reflexivity|]. rewrite Hl; reflexivity.
Qed.

Lemma seq_snoc a n : seq a (S n) = seq a n ++ [a + n].
Proof. rewrite seq_S. reflexivity. Qed.

(** one step from the back *)
Lemma sl_next_back_spec s : SLInv s ->
  let '(s', out) := sl_next_back s in
  SLInv s' /\ sl_rec s' = sl_rec s /\
  match rev (sl_todo s) with
  | [] => out = SlNone /\ sl_todo s' = []
  | i :: t => out = sl_line (sl_rec s) i /\ sl_todo s' = rev t
  end.
Proof.
  intros [(H1 & H2 & H3) | (H1 & H2)].
  - unfold sl_next_back, sl_todo. rewrite (sl_len_live s H1 H2 H3).
    destruct H3 as [H3 | H3].
    + (* untrimmed: a has one item more *)
      assert ((bb s - bf s <? ab s - af s) = true) as -> by (apply Nat.ltb_lt; lia).
      assert ((ab s - af s <? bb s - bf s) = false) as -> by (apply Nat.ltb_ge; lia).
      destruct (af s <? ab s - (ab s - af s - (bb s - bf s))) eqn:Ea;
        [apply Nat.ltb_lt in Ea | apply Nat.ltb_ge in Ea].
      * cbn [af ab bf bb sl_rec]. split; [left; cbn; lia|]. split; [reflexivity|].
        destruct (bb s - bf s) as [|k] eqn:Ek; [lia|].
        rewrite seq_snoc, rev_app_distr. cbn [rev app]. rewrite rev_involutive.
        split.
        -- replace (ab s - (ab s - af s - S k) - 1) with (af s + k) by lia.
           replace (bb s - 1) with (S (af s + k)) by lia. apply sl_item_res.
        -- unfold sl_len; cbn. f_equal. lia.
      * assert (bb s - bf s = 0) as -> by lia. cbn [seq rev af ab bf bb sl_rec].
        split; [right; cbn; lia|]. split; [reflexivity|]. split; [reflexivity|].
        unfold sl_len; cbn. assert (bb s - bf s = 0) as -> by lia. rewrite Nat.min_0_r. reflexivity.
    + assert ((bb s - bf s <? ab s - af s) = false) as -> by (apply Nat.ltb_ge; lia).
      assert ((ab s - af s <? bb s - bf s) = false) as -> by (apply Nat.ltb_ge; lia).
      destruct (af s <? ab s) eqn:Ea; [apply Nat.ltb_lt in Ea | apply Nat.ltb_ge in Ea].
      * cbn [af ab bf bb sl_rec]. split; [left; cbn; lia|]. split; [reflexivity|].
        destruct (bb s - bf s) as [|k] eqn:Ek; [lia|].
        rewrite seq_snoc, rev_app_distr. cbn [rev app]. rewrite rev_involutive.
        split.
        -- replace (ab s - 1) with (af s + k) by lia.
           replace (bb s - 1) with (S (af s + k)) by lia. apply sl_item_res.
        -- unfold sl_len; cbn. f_equal. lia.
      * assert (bb s - bf s = 0) as -> by lia. cbn [seq rev af ab bf bb sl_rec].
        split; [left; cbn; lia|]. split; [reflexivity|]. split; [reflexivity|].
        unfold sl_len; cbn. assert (bb s - bf s = 0) as -> by lia. rewrite Nat.min_0_r. reflexivity.
  - unfold sl_next_back, sl_todo.
    assert (Hl : sl_len s = 0) by (unfold sl_len; lia). rewrite Hl.
    assert ((bb s - bf s <? ab s - af s) = false) as -> by (apply Nat.ltb_ge; lia).
    assert ((ab s - af s <? bb s - bf s) = false) as -> by (apply Nat.ltb_ge; lia).
    assert (af s <? ab s = false) as -> by (apply Nat.ltb_ge; lia). cbn [seq rev af ab bf bb sl_rec].
    split; [right; cbn; lia|]. split; [reflexivity|]. split; [reflexivity|].
    unfold sl_len; cbn. replace (ab s - af s) with 0 by lia. reflexivity.
Qed.

(** * Runs: any sequence of front/back steps *)

Definition sl_step (s : seqlines) (d : dq_step) : seqlines * sl_res :=
  match d with DFront => sl_next s | DBack => sl_next_back s end.

(** the abstract deque over line indices *)
Definition dq_step_abs (l : list nat) (d : dq_step) : list nat * option nat :=
  match d with DFront => dq_front l | DBack => dq_back l end.

(** outputs of a run: (item, len() afterwards) per step *)
Fixpoint sl_run (s : seqlines) (ds : list dq_step) : list (sl_res * nat) :=
  match ds with
  | [] => []
  | d :: r => let '(s', o) := sl_step s d in (o, sl_len s') :: sl_run s' r
  end.

Fixpoint dq_run (rc : fa_rec) (l : list nat) (ds : list dq_step) : list (sl_res * nat) :=
  match ds with
  | [] => []
  | d :: r =>
      let '(l', o) := dq_step_abs l d in
      (match o with Some i => sl_line rc i | None => SlNone end, length l') :: dq_run rc l' r
  end.

Lemma sl_len_todo s : sl_len s = length (sl_todo s).
Proof. unfold sl_todo. rewrite seq_length. reflexivity. Qed.

Lemma sl_run_refines s ds : SLInv s -> sl_run s ds = dq_run (sl_rec s) (sl_todo s) ds.
Proof.
  revert s. induction ds as [|d ds IH]; intros s Hi; [reflexivity|].
  cbn [sl_run dq_run]. destruct d; cbn [sl_step dq_step_abs].
  - pose proof (sl_next_spec s Hi) as H. destruct (sl_next s) as [s' o].
    destruct H as (Hi' & Hr & H). unfold dq_front.
    destruct (sl_todo s) as [|i t]; destruct H as [-> Ht];
      rewrite sl_len_todo, Ht, (IH s' Hi'), Hr, Ht; reflexivity.
  - pose proof (sl_next_back_spec s Hi) as H. destruct (sl_next_back s) as [s' o].
    destruct H as (Hi' & Hr & H). unfold dq_back.
    destruct (rev (sl_todo s)) as [|i t]; destruct H as [-> Ht];
      rewrite sl_len_todo, Ht, (IH s' Hi'), Hr, Ht; reflexivity.
Qed.

(** properties of the abstract deque: every index exactly once, ends meet *)
Fixpoint dq_taken (l : list nat) (ds : list dq_step) : list nat * list nat * list nat :=
  (* (taken from the front in order, taken from the back in order, rest) *)
  match ds with
  | [] => ([], [], l)
  | d :: r =>
      let '(l', o) := dq_step_abs l d in
      let '(f, b, rest) := dq_taken l' r in
      match d, o with
      | DFront, Some i => (i :: f, b, rest)
      | DBack, Some i => (f, i :: b, rest)
      | _, None => (f, b, rest)
      end
  end.

Lemma dq_partition l ds :
  let '(f, b, rest) := dq_taken l ds in l = f ++ rest ++ rev b.
Proof.
  revert l; induction ds as [|d ds IH]; intros l; cbn [dq_taken].
  - rewrite app_nil_r. reflexivity.
  - destruct d; cbn [dq_step_abs].
    + unfold dq_front. destruct l as [|x t].
      * specialize (IH []). destruct (dq_taken [] ds) as [[f b] rest]. exact IH.
      * specialize (IH t). destruct (dq_taken t ds) as [[f b] rest]. cbn. f_equal. exact IH.
    + unfold dq_back. destruct (rev l) as [|x t] eqn:E.
      * specialize (IH []). destruct (dq_taken [] ds) as [[f b] rest].
        apply (f_equal (@rev nat)) in E. rewrite rev_involutive in E. subst l. exact IH.
      * specialize (IH (rev t)). destruct (dq_taken (rev t) ds) as [[f b] rest].
        apply (f_equal (@rev nat)) in E. rewrite rev_involutive in E. subst l.
        cbn [rev]. rewrite IH, !app_assoc. reflexivity.
Qed.

(** once the end was reported, the end is reported for ever *)
Lemma dq_fused (l : list nat) d : fst (dq_step_abs l d) = [] -> forall ds rc,
  Forall (fun x => fst x = SlNone) (dq_run rc [] ds).
Proof.
  intros _ ds rc. induction ds as [|d' ds IH]; [constructor|].
  cbn [dq_run]. destruct d'; cbn; constructor; auto.
Qed.

(** sticky end of the readers (what RecordsIter / RecordsIntoIter delegate to) *)
Lemma fa_finished_sticky fuel ffuel r : st r = FFinished -> fa_next fuel ffuel r = (r, ONone).
Proof. intros H. unfold fa_next. rewrite H. reflexivity. Qed.

Lemma fq_finished_sticky fuel ffuel r : qst r = QFinished -> fq_next fuel ffuel r = (r, QONone).
Proof. intros H. unfold fq_next. rewrite H. reflexivity. Qed.

(** the abstract deque over a range of indices stays a range: this is what
    [Enumerate::next_back] (index = count + len()) relies on *)
Lemma dq_front_range a n : dq_front (seq a (S n)) = (seq (S a) n, Some a).
Proof. reflexivity. Qed.

Lemma dq_back_range a n : dq_back (seq a (S n)) = (seq a n, Some (a + n)).
Proof.
  unfold dq_back. rewrite seq_snoc, rev_app_distr. cbn [rev app]. rewrite rev_involutive. reflexivity.
Qed.

Theorem seqlines_refines_deque r s ds : fa_seq_lines r = Some s ->
  sl_run s ds = dq_run r (seq 0 (length (rseqpos r) - 1)) ds.
Proof.
  intros H. destruct (sl_init_inv r s H) as (Hi & Hr & Ht).
  rewrite (sl_run_refines s ds Hi), Hr, Ht. reflexivity.
Qed.
