(** Proofs for C19: the serde model (Model/Serde.v) round-trips every
    well-typed struct value when the schema is plain (derives both traits, no
    serde attributes) and has pairwise distinct field names; instantiated to
    the six schemas generated from the Rust source (Gen/SerdeGen.v). *)
From SeqIO Require Import Model.Base Model.Fasta Model.Fastq Model.Serde Gen.SerdeGen.

(* ------------------------------------------------------------------ *)
(** * Vocabulary *)

Definition field := (list byte * fty * bool)%type.
Definition smap := list (list byte * sval).

Definition fname (f : field) : list byte := fst (fst f).
Definition ftype (f : field) : fty := snd (fst f).
Definition names (fs : list field) : list (list byte) := map fname fs.

(** pairwise distinct names, decided with [bytes_eqb] (earlier name first,
    the orientation [lookup] uses) *)
Fixpoint distinct_names (l : list (list byte)) : bool :=
  match l with
  | [] => true
  | n :: r => negb (existsb (bytes_eqb n) r) && distinct_names r
  end.

(** no field carries a serde attribute (the last conjunct of [plain]) *)
Definition unattributed (fs : list field) : bool := forallb (fun f => negb (snd f)) fs.

(** no field is a [Vec<BufferPosition>]: the struct is flat *)
Definition no_nested (fs : list field) : bool :=
  forallb (fun f => match ftype f with TVecPos => false | _ => true end) fs.

(** the value list has one value of the right shape per field *)
Definition typed (fs : list field) (vs : list value) : Prop :=
  Forall2 (fun f v => has_type (ftype f) v = true) fs vs.

(** every element of a [Vec<BufferPosition>] value is a well-typed value of
    the inner struct *)
Definition pos_ok (ifs : list field) (v : value) : Prop :=
  match v with
  | VPosList ps => Forall (typed ifs) ps
  | _ => True
  end.

(* ------------------------------------------------------------------ *)
(** * [bytes_eqb] *)

Lemma bytes_eqb_refl : forall a, bytes_eqb a a = true.
Proof.
  induction a as [|x a IH]; [reflexivity|].
  cbn [bytes_eqb]. rewrite Nat.eqb_refl, IH. reflexivity.
Qed.

Lemma bytes_eqb_eq : forall a b, bytes_eqb a b = true <-> a = b.
Proof.
  induction a as [|x a IH]; intros [|y b]; cbn [bytes_eqb]; split; intros H;
    try reflexivity; try discriminate.
  - apply andb_true_iff in H. destruct H as [Hx Hr].
    apply Nat.eqb_eq in Hx. apply IH in Hr. subst. reflexivity.
  - inversion H; subst. rewrite Nat.eqb_refl, bytes_eqb_refl. reflexivity.
Qed.

(** [distinct_names] is exactly [NoDup] *)
Lemma distinct_names_NoDup : forall l, distinct_names l = true <-> NoDup l.
Proof.
  induction l as [|n r IH]; cbn [distinct_names].
  - split; [constructor | reflexivity].
  - rewrite andb_true_iff, negb_true_iff, IH. split.
    + intros [Hn Hr]. constructor; [|exact Hr]. intros Hin.
      assert (Hex : existsb (bytes_eqb n) r = true).
      { apply existsb_exists. exists n. split; [exact Hin | apply bytes_eqb_refl]. }
      rewrite Hn in Hex. discriminate.
    + intros Hnd. inversion Hnd as [|x xs Hnotin Hr]; subst. split; [|exact Hr].
      destruct (existsb (bytes_eqb n) r) eqn:E; [|reflexivity].
      apply existsb_exists in E. destruct E as [y [Hy Hyn]].
      apply bytes_eqb_eq in Hyn. subst y. contradiction.
Qed.

(* ------------------------------------------------------------------ *)
(** * Flat structs *)

(** an entry whose key is none of the wanted names does not matter *)
Lemma de_flat_skip : forall (fs : list field) n s m,
  existsb (bytes_eqb n) (names fs) = false ->
  de_flat fs ((n, s) :: m) = de_flat fs m.
Proof.
  induction fs as [|[[name t] attr] fr IH]; intros n s m Hn; [reflexivity|].
  cbn [names map fname fst existsb] in Hn. apply orb_false_iff in Hn.
  destruct Hn as [Hne Hr].
  cbn [de_flat]. rewrite (IH n s m Hr). cbn [lookup]. rewrite Hne. reflexivity.
Qed.

Lemma flat_roundtrip : forall (fs : list field) (vs : list value),
  distinct_names (names fs) = true ->
  unattributed fs = true ->
  no_nested fs = true ->
  typed fs vs ->
  de_flat fs (ser_flat fs vs) = Some vs.
Proof.
  induction fs as [|[[name t] attr] fr IH]; intros vs Hd Hu Hn Ht;
    inversion Ht as [|f v fr' vr Hv Hrest]; subst; [reflexivity|].
  cbn [names map fname fst distinct_names] in Hd.
  apply andb_true_iff in Hd. destruct Hd as [Hfresh Hd].
  apply negb_true_iff in Hfresh.
  cbn [unattributed forallb snd] in Hu.
  apply andb_true_iff in Hu. destruct Hu as [Ha Hu].
  apply negb_true_iff in Ha. subst attr.
  cbn [no_nested forallb ftype fst snd] in Hn.
  apply andb_true_iff in Hn. destruct Hn as [Hty Hn].
  cbn [ftype fst snd] in Hv.
  specialize (IH vr Hd Hu Hn Hrest).
  destruct t; destruct v; cbn [has_type] in Hv; try discriminate Hv; try discriminate Hty;
    cbn [ser_flat de_flat]; rewrite (de_flat_skip fr _ _ _ Hfresh), IH;
    cbn [lookup]; rewrite bytes_eqb_refl; reflexivity.
Qed.

(* ------------------------------------------------------------------ *)
(** * Structs with a [Vec<BufferPosition>] field *)

Lemma de_nested_skip : forall inner (fs : list field) n s m,
  existsb (bytes_eqb n) (names fs) = false ->
  de_nested inner fs ((n, s) :: m) = de_nested inner fs m.
Proof.
  induction fs as [|[[name t] attr] fr IH]; intros n s m Hn; [reflexivity|].
  cbn [names map fname fst existsb] in Hn. apply orb_false_iff in Hn.
  destruct Hn as [Hne Hr].
  cbn [de_nested]. rewrite (IH n s m Hr). cbn [lookup]. rewrite Hne. reflexivity.
Qed.

Lemma seq_roundtrip : forall (ifs : list field) (ps : list (list value)),
  distinct_names (names ifs) = true ->
  unattributed ifs = true ->
  no_nested ifs = true ->
  Forall (typed ifs) ps ->
  map_opt (de_flat ifs) (map (ser_flat ifs) ps) = Some ps.
Proof.
  intros ifs ps Hd Hu Hn Hps. induction Hps as [|p ps Hp Hps IH]; [reflexivity|].
  cbn [map map_opt]. rewrite (flat_roundtrip ifs p Hd Hu Hn Hp), IH. reflexivity.
Qed.

Lemma nested_roundtrip : forall (inner : schema) (fs : list field) (vs : list value),
  distinct_names (names fs) = true ->
  unattributed fs = true ->
  distinct_names (names (sc_fields inner)) = true ->
  unattributed (sc_fields inner) = true ->
  no_nested (sc_fields inner) = true ->
  typed fs vs ->
  Forall (pos_ok (sc_fields inner)) vs ->
  de_nested inner fs (ser_nested inner fs vs) = Some vs.
Proof.
  intros inner fs. induction fs as [|[[name t] attr] fr IH];
    intros vs Hd Hu Hid Hiu Hin Ht Hok;
    inversion Ht as [|f v fr' vr Hv Hrest]; subst; [reflexivity|].
  cbn [names map fname fst distinct_names] in Hd.
  apply andb_true_iff in Hd. destruct Hd as [Hfresh Hd].
  apply negb_true_iff in Hfresh.
  cbn [unattributed forallb snd] in Hu.
  apply andb_true_iff in Hu. destruct Hu as [Ha Hu].
  apply negb_true_iff in Ha. subst attr.
  cbn [ftype fst snd] in Hv.
  inversion Hok as [|v' vr' Hvok Hrok]; subst.
  specialize (IH vr Hd Hu Hid Hiu Hin Hrest Hrok).
  destruct t; destruct v; cbn [has_type] in Hv; try discriminate Hv;
    cbn [ser_nested de_nested]; rewrite (de_nested_skip inner fr _ _ _ Hfresh), IH;
    cbn [lookup]; rewrite bytes_eqb_refl; try reflexivity.
  cbn [pos_ok] in Hvok.
  rewrite (seq_roundtrip (sc_fields inner) l Hid Hiu Hin Hvok). reflexivity.
Qed.

(* ------------------------------------------------------------------ *)
(** * Whole structs: the derives must be there *)

(** [Serialize] exists only with the derive; a container attribute is
    unknown territory and refused *)
Definition ser_ok (s : schema) : bool := sc_ser s && negb (sc_cattr s).
Definition de_ok (s : schema) : bool := sc_de s && negb (sc_cattr s).

Definition ser_flat_struct (sch : schema) (vs : list value) : option smap :=
  if ser_ok sch then Some (ser_flat (sc_fields sch) vs) else None.
Definition de_flat_struct (sch : schema) (m : smap) : option (list value) :=
  if de_ok sch then de_flat (sc_fields sch) m else None.

Definition ser_nested_struct (inner sch : schema) (vs : list value) : option smap :=
  if ser_ok sch && ser_ok inner then Some (ser_nested inner (sc_fields sch) vs) else None.
Definition de_nested_struct (inner sch : schema) (m : smap) : option (list value) :=
  if de_ok sch && de_ok inner then de_nested inner (sc_fields sch) m else None.

Lemma plain_parts : forall s, plain s = true ->
  ser_ok s = true /\ de_ok s = true /\ unattributed (sc_fields s) = true.
Proof.
  intros s H. unfold plain in H.
  apply andb_true_iff in H. destruct H as [H Hf].
  apply andb_true_iff in H. destruct H as [H Hc].
  apply andb_true_iff in H. destruct H as [Hs Hd].
  unfold ser_ok, de_ok, unattributed. rewrite Hs, Hd, Hc. auto.
Qed.

Lemma flat_struct_roundtrip : forall sch vs,
  plain sch = true ->
  distinct_names (names (sc_fields sch)) = true ->
  no_nested (sc_fields sch) = true ->
  typed (sc_fields sch) vs ->
  exists m, ser_flat_struct sch vs = Some m /\ de_flat_struct sch m = Some vs.
Proof.
  intros sch vs Hp Hd Hn Ht. destruct (plain_parts sch Hp) as [Hs [Hde Hu]].
  unfold ser_flat_struct, de_flat_struct. rewrite Hs, Hde.
  eexists. split; [reflexivity|]. apply flat_roundtrip; assumption.
Qed.

Lemma nested_struct_roundtrip : forall inner sch vs,
  plain sch = true ->
  plain inner = true ->
  distinct_names (names (sc_fields sch)) = true ->
  distinct_names (names (sc_fields inner)) = true ->
  no_nested (sc_fields inner) = true ->
  typed (sc_fields sch) vs ->
  Forall (pos_ok (sc_fields inner)) vs ->
  exists m, ser_nested_struct inner sch vs = Some m /\ de_nested_struct inner sch m = Some vs.
Proof.
  intros inner sch vs Hp Hpi Hd Hdi Hn Ht Hok.
  destruct (plain_parts sch Hp) as [Hs [Hde Hu]].
  destruct (plain_parts inner Hpi) as [Hsi [Hdei Hui]].
  unfold ser_nested_struct, de_nested_struct. rewrite Hs, Hde, Hsi, Hdei.
  eexists. split; [reflexivity|]. apply nested_roundtrip; assumption.
Qed.

(* ------------------------------------------------------------------ *)
(** * The six generated schemas *)

Definition schema_good (s : schema) : bool :=
  plain s && distinct_names (names (sc_fields s)).

Lemma schemas_plain :
  schema_good fa_BufferPosition_schema = true /\
  schema_good fa_OwnedRecord_schema = true /\
  schema_good fa_RecordSet_schema = true /\
  schema_good fq_BufferPosition_schema = true /\
  schema_good fq_OwnedRecord_schema = true /\
  schema_good fq_RecordSet_schema = true.
Proof. vm_compute. repeat split. Qed.

Lemma schema_good_parts : forall s, schema_good s = true ->
  plain s = true /\ distinct_names (names (sc_fields s)) = true.
Proof. intros s H. unfold schema_good in H. apply andb_true_iff in H. exact H. Qed.

(* ------------------------------------------------------------------ *)
(** * Encodings of the model types, in the generated field order *)

(** fasta::BufferPosition { start, seq_pos } *)
Definition enc_fa_pos (p : nat * list nat) : list value := [VNat (fst p); VNats (snd p)].
Definition dec_fa_pos (vs : list value) : option (nat * list nat) :=
  match vs with [VNat a; VNats l] => Some (a, l) | _ => None end.

(** fasta::OwnedRecord { head, seq } *)
Definition enc_fa_owned (r : list byte * list byte) : list value :=
  [VBytes (fst r); VBytes (snd r)].
Definition dec_fa_owned (vs : list value) : option (list byte * list byte) :=
  match vs with [VBytes h; VBytes s] => Some (h, s) | _ => None end.

(** fasta::RecordSet { buffer, positions, npos } *)
Definition enc_fa_set (s : fa_set) : list value :=
  [VBytes (sbuf s); VPosList (map enc_fa_pos (spositions s)); VNat (snpos s)].
Definition dec_fa_set (vs : list value) : option fa_set :=
  match vs with
  | [VBytes b; VPosList ps; VNat n] =>
      option_map (fun q => mkFaSet b q n) (map_opt dec_fa_pos ps)
  | _ => None
  end.

(** fastq::BufferPosition { pos: (usize, usize), seq, sep, qual } *)
Definition enc_fq_pos (p : nat * nat * nat * nat * nat) : list value :=
  match p with (a, b, c, d, e) => [VPair a b; VNat c; VNat d; VNat e] end.
Definition dec_fq_pos (vs : list value) : option (nat * nat * nat * nat * nat) :=
  match vs with [VPair a b; VNat c; VNat d; VNat e] => Some (a, b, c, d, e) | _ => None end.

(** fastq::OwnedRecord { head, seq, qual } *)
Definition enc_fq_owned (r : list byte * list byte * list byte) : list value :=
  match r with (h, s, q) => [VBytes h; VBytes s; VBytes q] end.
Definition dec_fq_owned (vs : list value) : option (list byte * list byte * list byte) :=
  match vs with [VBytes h; VBytes s; VBytes q] => Some (h, s, q) | _ => None end.

(** fastq::RecordSet { buffer, buf_positions } *)
Definition enc_fq_set (s : fq_set) : list value :=
  [VBytes (qsbuf s); VPosList (map enc_fq_pos (qspos s))].
Definition dec_fq_set (vs : list value) : option fq_set :=
  match vs with
  | [VBytes b; VPosList ps] => option_map (fun q => mkFqSet b q) (map_opt dec_fq_pos ps)
  | _ => None
  end.

Definition obind {A B} (o : option A) (f : A -> option B) : option B :=
  match o with Some x => f x | None => None end.

(** serialise / deserialise the model types through the generated schemas *)
Definition ser_fa_owned (r : list byte * list byte) : option smap :=
  ser_flat_struct fa_OwnedRecord_schema (enc_fa_owned r).
Definition deser_fa_owned (m : smap) : option (list byte * list byte) :=
  obind (de_flat_struct fa_OwnedRecord_schema m) dec_fa_owned.

Definition ser_fq_owned (r : list byte * list byte * list byte) : option smap :=
  ser_flat_struct fq_OwnedRecord_schema (enc_fq_owned r).
Definition deser_fq_owned (m : smap) : option (list byte * list byte * list byte) :=
  obind (de_flat_struct fq_OwnedRecord_schema m) dec_fq_owned.

Definition ser_fa_set (s : fa_set) : option smap :=
  ser_nested_struct fa_BufferPosition_schema fa_RecordSet_schema (enc_fa_set s).
Definition deser_fa_set (m : smap) : option fa_set :=
  obind (de_nested_struct fa_BufferPosition_schema fa_RecordSet_schema m) dec_fa_set.

Definition ser_fq_set (s : fq_set) : option smap :=
  ser_nested_struct fq_BufferPosition_schema fq_RecordSet_schema (enc_fq_set s).
Definition deser_fq_set (m : smap) : option fq_set :=
  obind (de_nested_struct fq_BufferPosition_schema fq_RecordSet_schema m) dec_fq_set.

(** a BufferPosition alone (flat) *)
Definition ser_fa_pos (p : nat * list nat) : option smap :=
  ser_flat_struct fa_BufferPosition_schema (enc_fa_pos p).
Definition deser_fa_pos (m : smap) : option (nat * list nat) :=
  obind (de_flat_struct fa_BufferPosition_schema m) dec_fa_pos.
Definition ser_fq_pos (p : nat * nat * nat * nat * nat) : option smap :=
  ser_flat_struct fq_BufferPosition_schema (enc_fq_pos p).
Definition deser_fq_pos (m : smap) : option (nat * nat * nat * nat * nat) :=
  obind (de_flat_struct fq_BufferPosition_schema m) dec_fq_pos.

(* ------------------------------------------------------------------ *)
(** * decode after encode *)

Lemma dec_enc_fa_pos : forall p, dec_fa_pos (enc_fa_pos p) = Some p.
Proof. intros [a l]. reflexivity. Qed.
Lemma dec_enc_fq_pos : forall p, dec_fq_pos (enc_fq_pos p) = Some p.
Proof. intros [[[[a b] c] d] e]. reflexivity. Qed.

Lemma map_opt_dec_enc : forall {A} (enc : A -> list value) (dec : list value -> option A),
  (forall x, dec (enc x) = Some x) ->
  forall l, map_opt dec (map enc l) = Some l.
Proof.
  intros A enc dec H l. induction l as [|x l IH]; [reflexivity|].
  cbn [map map_opt]. rewrite H, IH. reflexivity.
Qed.

Lemma dec_enc_fa_set : forall s, dec_fa_set (enc_fa_set s) = Some s.
Proof.
  intros [b ps n]. unfold enc_fa_set, dec_fa_set. cbn [sbuf spositions snpos].
  rewrite (map_opt_dec_enc enc_fa_pos dec_fa_pos dec_enc_fa_pos). reflexivity.
Qed.
Lemma dec_enc_fq_set : forall s, dec_fq_set (enc_fq_set s) = Some s.
Proof.
  intros [b ps]. unfold enc_fq_set, dec_fq_set. cbn [qsbuf qspos].
  rewrite (map_opt_dec_enc enc_fq_pos dec_fq_pos dec_enc_fq_pos). reflexivity.
Qed.

(* ------------------------------------------------------------------ *)
(** * well-typedness of the encodings *)

Lemma typed_fa_pos : forall p, typed (sc_fields fa_BufferPosition_schema) (enc_fa_pos p).
Proof. intros p. unfold typed, enc_fa_pos. cbn [sc_fields fa_BufferPosition_schema]. repeat constructor. Qed.
Lemma typed_fq_pos : forall p, typed (sc_fields fq_BufferPosition_schema) (enc_fq_pos p).
Proof.
  intros [[[[a b] c] d] e]. unfold typed, enc_fq_pos. cbn [sc_fields fq_BufferPosition_schema].
  repeat constructor.
Qed.
Lemma typed_fa_owned : forall r, typed (sc_fields fa_OwnedRecord_schema) (enc_fa_owned r).
Proof. intros r. unfold typed, enc_fa_owned. cbn [sc_fields fa_OwnedRecord_schema]. repeat constructor. Qed.
Lemma typed_fq_owned : forall r, typed (sc_fields fq_OwnedRecord_schema) (enc_fq_owned r).
Proof.
  intros [[h s] q]. unfold typed, enc_fq_owned. cbn [sc_fields fq_OwnedRecord_schema].
  repeat constructor.
Qed.
Lemma typed_fa_set : forall s, typed (sc_fields fa_RecordSet_schema) (enc_fa_set s).
Proof. intros s. unfold typed, enc_fa_set. cbn [sc_fields fa_RecordSet_schema]. repeat constructor. Qed.
Lemma typed_fq_set : forall s, typed (sc_fields fq_RecordSet_schema) (enc_fq_set s).
Proof. intros s. unfold typed, enc_fq_set. cbn [sc_fields fq_RecordSet_schema]. repeat constructor. Qed.

Lemma Forall_map_all : forall {A B} (P : B -> Prop) (f : A -> B) l,
  (forall x, P (f x)) -> Forall P (map f l).
Proof. intros A B P f l H. induction l; cbn [map]; constructor; auto. Qed.

Lemma pos_ok_fa_set : forall s,
  Forall (pos_ok (sc_fields fa_BufferPosition_schema)) (enc_fa_set s).
Proof.
  intros s. unfold enc_fa_set. repeat constructor.
  cbn [pos_ok]. apply Forall_map_all. exact typed_fa_pos.
Qed.
Lemma pos_ok_fq_set : forall s,
  Forall (pos_ok (sc_fields fq_BufferPosition_schema)) (enc_fq_set s).
Proof.
  intros s. unfold enc_fq_set. repeat constructor.
  cbn [pos_ok]. apply Forall_map_all. exact typed_fq_pos.
Qed.

(* ------------------------------------------------------------------ *)
(** * Round trips through the generated schemas *)

Ltac good H :=
  let Hp := fresh "Hplain" in let Hd := fresh "Hdist" in
  destruct (schema_good_parts _ H) as [Hp Hd].

Lemma fa_pos_roundtrip : forall p,
  exists m, ser_fa_pos p = Some m /\ deser_fa_pos m = Some p.
Proof.
  intros p. destruct schemas_plain as [G _]. good G.
  destruct (flat_struct_roundtrip fa_BufferPosition_schema (enc_fa_pos p) Hplain Hdist
              eq_refl (typed_fa_pos p)) as [m [Hs Hd]].
  exists m. split; [exact Hs|]. unfold deser_fa_pos. rewrite Hd. apply dec_enc_fa_pos.
Qed.

Lemma fq_pos_roundtrip : forall p,
  exists m, ser_fq_pos p = Some m /\ deser_fq_pos m = Some p.
Proof.
  intros p. destruct schemas_plain as [_ [_ [_ [G _]]]]. good G.
  destruct (flat_struct_roundtrip fq_BufferPosition_schema (enc_fq_pos p) Hplain Hdist
              eq_refl (typed_fq_pos p)) as [m [Hs Hd]].
  exists m. split; [exact Hs|]. unfold deser_fq_pos. rewrite Hd. apply dec_enc_fq_pos.
Qed.

Lemma fa_owned_roundtrip : forall r,
  exists m, ser_fa_owned r = Some m /\ deser_fa_owned m = Some r.
Proof.
  intros r. destruct schemas_plain as [_ [G _]]. good G.
  destruct (flat_struct_roundtrip fa_OwnedRecord_schema (enc_fa_owned r) Hplain Hdist
              eq_refl (typed_fa_owned r)) as [m [Hs Hd]].
  exists m. split; [exact Hs|]. unfold deser_fa_owned. rewrite Hd.
  destruct r as [h s]. reflexivity.
Qed.

Lemma fq_owned_roundtrip : forall r,
  exists m, ser_fq_owned r = Some m /\ deser_fq_owned m = Some r.
Proof.
  intros r. destruct schemas_plain as [_ [_ [_ [_ [G _]]]]]. good G.
  destruct (flat_struct_roundtrip fq_OwnedRecord_schema (enc_fq_owned r) Hplain Hdist
              eq_refl (typed_fq_owned r)) as [m [Hs Hd]].
  exists m. split; [exact Hs|]. unfold deser_fq_owned. rewrite Hd.
  destruct r as [[h s] q]. reflexivity.
Qed.

Lemma fa_recordset_roundtrip : forall s,
  exists m, ser_fa_set s = Some m /\ deser_fa_set m = Some s.
Proof.
  intros s. destruct schemas_plain as [Gi [_ [G _]]].
  destruct (schema_good_parts _ Gi) as [Hpi Hdi].
  destruct (schema_good_parts _ G) as [Hp Hd].
  destruct (nested_struct_roundtrip fa_BufferPosition_schema fa_RecordSet_schema (enc_fa_set s)
              Hp Hpi Hd Hdi eq_refl (typed_fa_set s) (pos_ok_fa_set s)) as [m [Hs Hde]].
  exists m. split; [exact Hs|]. unfold deser_fa_set. rewrite Hde. apply dec_enc_fa_set.
Qed.

Lemma fq_recordset_roundtrip : forall s,
  exists m, ser_fq_set s = Some m /\ deser_fq_set m = Some s.
Proof.
  intros s. destruct schemas_plain as [_ [_ [_ [Gi [_ G]]]]].
  destruct (schema_good_parts _ Gi) as [Hpi Hdi].
  destruct (schema_good_parts _ G) as [Hp Hd].
  destruct (nested_struct_roundtrip fq_BufferPosition_schema fq_RecordSet_schema (enc_fq_set s)
              Hp Hpi Hd Hdi eq_refl (typed_fq_set s) (pos_ok_fq_set s)) as [m [Hs Hde]].
  exists m. split; [exact Hs|]. unfold deser_fq_set. rewrite Hde. apply dec_enc_fq_set.
Qed.

(** iteration over the deserialised set yields the records of the original *)
Lemma iteration_preserved :
  (forall s, exists m s', ser_fa_set s = Some m /\ deser_fa_set m = Some s' /\
                          fa_set_records s' = fa_set_records s) /\
  (forall s, exists m s', ser_fq_set s = Some m /\ deser_fq_set m = Some s' /\
                          fq_set_records s' = fq_set_records s).
Proof.
  split; intros s.
  - destruct (fa_recordset_roundtrip s) as [m [Hs Hd]]. exists m, s. auto.
  - destruct (fq_recordset_roundtrip s) as [m [Hs Hd]]. exists m, s. auto.
Qed.

(** ... and whatever a serialised form deserialises to, it is determined by
    the serialised form alone: two sets with the same serialisation iterate
    alike *)
Lemma iteration_depends_only_on_serialised :
  (forall s1 s2 m, ser_fa_set s1 = Some m -> ser_fa_set s2 = Some m ->
                   fa_set_records s1 = fa_set_records s2) /\
  (forall s1 s2 m, ser_fq_set s1 = Some m -> ser_fq_set s2 = Some m ->
                   fq_set_records s1 = fq_set_records s2).
Proof.
  split; intros s1 s2 m H1 H2.
  - destruct (fa_recordset_roundtrip s1) as [m1 [Hs1 Hd1]].
    destruct (fa_recordset_roundtrip s2) as [m2 [Hs2 Hd2]].
    rewrite H1 in Hs1. rewrite H2 in Hs2. inversion Hs1; inversion Hs2; subst.
    rewrite Hd1 in Hd2. inversion Hd2. reflexivity.
  - destruct (fq_recordset_roundtrip s1) as [m1 [Hs1 Hd1]].
    destruct (fq_recordset_roundtrip s2) as [m2 [Hs2 Hd2]].
    rewrite H1 in Hs1. rewrite H2 in Hs2. inversion Hs1; inversion Hs2; subst.
    rewrite Hd1 in Hd2. inversion Hd2. reflexivity.
Qed.
