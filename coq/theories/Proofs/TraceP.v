(** Event traces of the reader models: what a call adds to the environment log
    ([EvRead] / [EvSeek] / [EvGrow]) and how that determines the outcome class
    (I/O error, buffer-limit error, anything else), the capacity and the policy
    history.  Everything here holds for EVERY reader state, fuel, policy and
    source script: no refinement invariant is assumed. *)
From SeqIO Require Import Model.Base.

Ltac splits := repeat match goal with |- _ /\ _ => split end.

(* ------------------------------------------------------------------ *)
(** * Events added by a call *)

(** the events that [new] has in front of [old] (newest first) *)
Definition new_events (new old : list ev) : list ev := firstn (length new - length old) new.

Lemma new_events_app added old : new_events (added ++ old) old = added.
Proof.
  unfold new_events. rewrite app_length.
  replace (length added + length old - length old) with (length added + 0) by lia.
  rewrite firstn_app_2. cbn [firstn]. apply app_nil_r.
Qed.

Lemma new_events_refl l : new_events l l = [].
Proof. apply (new_events_app [] l). Qed.

Lemma new_events_cons e l : new_events (e :: l) l = [e].
Proof. apply (new_events_app [e] l). Qed.

(** * Classification of events and outcomes *)

(** the two ways in which the environment can make a call fail *)
Inductive adverse := AIo (k : nat) | ALimit.

(** a source failure of kind [k] (read or seek) *)
Definition ev_fail (e : ev) : option nat :=
  match e with
  | EvRead _ (RFailed k) => Some k
  | EvSeek _ (Some k) => Some k
  | _ => None
  end.

(** the policy refuses: no size, or a size that is not larger *)
Definition ev_refuse (e : ev) : bool :=
  match e with
  | EvGrow _ None => true
  | EvGrow c (Some n) => n <=? c
  | _ => false
  end.

Definition ev_adverse (e : ev) : option adverse :=
  match ev_fail e with
  | Some k => Some (AIo k)
  | None => if ev_refuse e then Some ALimit else None
  end.

Definition benign (l : list ev) : Prop := Forall (fun e => ev_adverse e = None) l.

(** [a = None]: nothing adverse happened.  [a = Some x]: exactly one adverse
    event happened, it is of class [x], and it is the newest event (nothing was
    read, sought or asked after it). *)
Definition AdverseSpec (added : list ev) (a : option adverse) : Prop :=
  match a with
  | None => benign added
  | Some x => exists e rest, added = e :: rest /\ ev_adverse e = Some x /\ benign rest
  end.

Lemma benign_nil : benign [].
Proof. constructor. Qed.

Lemma benign_app a b : benign a -> benign b -> benign (a ++ b).
Proof. intros; apply Forall_app; split; assumption. Qed.

Lemma AdverseSpec_app e2 e1 a : benign e1 -> AdverseSpec e2 a -> AdverseSpec (e2 ++ e1) a.
Proof.
  intros H1 H2. destruct a as [x|]; cbn [AdverseSpec] in *.
  - destruct H2 as (e & rest & -> & He & Hr). exists e, (rest ++ e1).
    splits; [reflexivity | exact He | apply benign_app; assumption].
  - apply benign_app; assumption.
Qed.

(** consequences used by the property theorems *)
Lemma AdverseSpec_in added a e x :
  AdverseSpec added a -> In e added -> ev_adverse e = Some x ->
  a = Some x /\ exists rest, added = e :: rest /\ benign rest.
Proof.
  intros HS Hin He. destruct a as [y|]; cbn [AdverseSpec] in HS.
  - destruct HS as (e0 & rest & -> & He0 & Hr). destruct Hin as [<-|Hin].
    + rewrite He in He0. inversion He0; subst. split; [reflexivity|]. exists rest. split; [reflexivity|exact Hr].
    + unfold benign in Hr. rewrite Forall_forall in Hr. rewrite (Hr _ Hin) in He. discriminate.
  - unfold benign in HS. rewrite Forall_forall in HS. rewrite (HS _ Hin) in He. discriminate.
Qed.

Lemma AdverseSpec_some added x :
  AdverseSpec added (Some x) -> exists e rest, added = e :: rest /\ ev_adverse e = Some x /\ benign rest.
Proof. intros H; exact H. Qed.

(* ------------------------------------------------------------------ *)
(** * Capacity and policy along a trace *)

Definition is_grow (e : ev) : bool := match e with EvGrow _ _ => true | _ => false end.

(** the arguments the policy was asked with (newest first) *)
Definition grow_args (l : list ev) : list nat :=
  flat_map (fun e => match e with EvGrow a _ => [a] | _ => [] end) l.

Lemma grow_args_app a b : grow_args (a ++ b) = grow_args a ++ grow_args b.
Proof. apply flat_map_app. Qed.

(** [CapTrace ex c added c']: replaying the added events oldest to newest from
    capacity [c] ends with capacity [c'].  The capacity changes only at an
    [EvGrow] whose answer is a larger size; every [EvGrow] carries the capacity
    of that moment as its argument; the new capacity lies between the old one
    and the answer, and IS the answer when [ex = true] (the buffer was full). *)
Inductive CapTrace (ex : bool) (c : nat) : list ev -> nat -> Prop :=
| ct_nil : CapTrace ex c [] c
| ct_other e l c1 : CapTrace ex c l c1 -> is_grow e = false -> CapTrace ex c (e :: l) c1
| ct_refuse ans l c1 : CapTrace ex c l c1 -> ev_refuse (EvGrow c1 ans) = true ->
                       CapTrace ex c (EvGrow c1 ans :: l) c1
| ct_grow n l c1 c2 : CapTrace ex c l c1 -> c1 < n -> c1 <= c2 -> c2 <= n -> (ex = true -> c2 = n) ->
                      CapTrace ex c (EvGrow c1 (Some n) :: l) c2.

Lemma CapTrace_trans ex c e1 c1 e2 c2 :
  CapTrace ex c e1 c1 -> CapTrace ex c1 e2 c2 -> CapTrace ex c (e2 ++ e1) c2.
Proof.
  intros H1 H2. induction H2 as [|e l c3 H2 IH Hg|ans l c3 H2 IH Hr|n l c3 c4 H2 IH Hlt Hle1 Hle2 Hex];
    cbn [app].
  - exact H1.
  - apply ct_other; assumption.
  - apply ct_refuse; assumption.
  - apply ct_grow; assumption.
Qed.

Lemma CapTrace_weaken ex c l c' : CapTrace ex c l c' -> CapTrace false c l c'.
Proof.
  induction 1; [apply ct_nil | apply ct_other | apply ct_refuse | apply ct_grow]; auto; discriminate.
Qed.

Lemma CapTrace_mono ex c l c' : CapTrace ex c l c' -> c <= c'.
Proof. induction 1; lia. Qed.

Lemma CapTrace_no_grow ex c l : forallb (fun e => negb (is_grow e)) l = true -> CapTrace ex c l c.
Proof.
  induction l as [|e l IH]; intros H; [apply ct_nil|].
  cbn [forallb] in H. apply andb_true_iff in H. destruct H as [He Hl].
  apply ct_other; [apply IH; exact Hl|]. destruct (is_grow e); [discriminate|reflexivity].
Qed.

(** a changed capacity means that the policy was asked with the OLD capacity
    and answered a larger size *)
Lemma CapTrace_changed ex c l c' :
  CapTrace ex c l c' -> c' <> c -> exists n, In (EvGrow c (Some n)) l /\ c < n.
Proof.
  induction 1 as [|e l c1 H IH Hg|ans l c1 H IH Hr|n l c1 c2 H IH Hlt Hle1 Hle2 Hex]; intros Hne.
  - congruence.
  - destruct (IH Hne) as (n & Hin & Hn). exists n. split; [right; exact Hin|exact Hn].
  - destruct (IH Hne) as (n & Hin & Hn). exists n. split; [right; exact Hin|exact Hn].
  - destruct (Nat.eq_dec c1 c) as [->|Hc1].
    + exists n. split; [left; reflexivity|exact Hlt].
    + destruct (IH Hc1) as (m & Hin & Hm). exists m. split; [right; exact Hin|exact Hm].
Qed.

(** without a successful growth event the capacity is unchanged *)
Lemma CapTrace_unchanged ex c l c' :
  CapTrace ex c l c' -> (forall a n, In (EvGrow a (Some n)) l -> n <= a) -> c' = c.
Proof.
  induction 1 as [|e l c1 H IH Hg|ans l c1 H IH Hr|n l c1 c2 H IH Hlt Hle1 Hle2 Hex]; intros Hno.
  - reflexivity.
  - apply IH. intros a n Hin. apply Hno. right; exact Hin.
  - apply IH. intros a n Hin. apply Hno. right; exact Hin.
  - specialize (Hno c1 n (or_introl eq_refl)). lia.
Qed.

(** every answer in the trace is the answer of policy [pf] to the history at
    that moment ([h0] = the history before the call) *)
Fixpoint GrowAnswers (pf : policy) (h0 : list nat) (l : list ev) : Prop :=
  match l with
  | [] => True
  | e :: rest =>
      GrowAnswers pf h0 rest /\
      match e with EvGrow a ans => ans = pf (grow_args rest ++ h0) a | _ => True end
  end.

Lemma GrowAnswers_trans pf h0 e1 e2 :
  GrowAnswers pf h0 e1 -> GrowAnswers pf (grow_args e1 ++ h0) e2 -> GrowAnswers pf h0 (e2 ++ e1).
Proof.
  intros H1. induction e2 as [|e l IH]; intros H2; cbn [app]; [exact H1|].
  cbn [GrowAnswers] in *. destruct H2 as [H2 He]. split; [apply IH; exact H2|].
  destruct e; auto. rewrite grow_args_app, <- app_assoc. exact He.
Qed.

Lemma GrowAnswers_no_grow pf h0 l : forallb (fun e => negb (is_grow e)) l = true -> GrowAnswers pf h0 l.
Proof.
  induction l as [|e l IH]; intros H; [exact I|].
  cbn [forallb] in H. apply andb_true_iff in H. destruct H as [He Hl].
  cbn [GrowAnswers]. split; [apply IH; exact Hl|]. destruct e; auto. discriminate.
Qed.

Lemma grow_args_no_grow l : forallb (fun e => negb (is_grow e)) l = true -> grow_args l = [].
Proof.
  induction l as [|e l IH]; intros H; [reflexivity|].
  cbn [forallb] in H. apply andb_true_iff in H. destruct H as [He Hl].
  unfold grow_args in *. cbn [flat_map]. rewrite (IH Hl). destruct e; try reflexivity. discriminate.
Qed.

(* ------------------------------------------------------------------ *)
(** * The part of a reader state the environment interacts with *)

Record core := mkCore { c_cap : nat; c_polf : policy; c_polh : list nat; c_log : list ev }.

Record Step (ex : bool) (a b : core) (added : list ev) : Prop := mkStep {
  s_log : c_log b = added ++ c_log a;
  s_polf : c_polf b = c_polf a;
  s_polh : c_polh b = grow_args added ++ c_polh a;
  s_ans : GrowAnswers (c_polf a) (c_polh a) added;
  s_cap : CapTrace ex (c_cap a) added (c_cap b)
}.

Lemma Step_refl ex a : Step ex a a [].
Proof. constructor; cbn; auto. apply ct_nil. Qed.

Lemma Step_trans ex a b c e1 e2 : Step ex a b e1 -> Step ex b c e2 -> Step ex a c (e2 ++ e1).
Proof.
  intros [L1 F1 H1 A1 C1] [L2 F2 H2 A2 C2]. constructor.
  - rewrite L2, L1, app_assoc. reflexivity.
  - rewrite F2, F1. reflexivity.
  - rewrite H2, H1, grow_args_app, app_assoc. reflexivity.
  - apply GrowAnswers_trans; [exact A1|]. rewrite <- H1, <- F1. exact A2.
  - eapply CapTrace_trans; eassumption.
Qed.

Lemma Step_weaken ex a b e : Step ex a b e -> Step false a b e.
Proof. intros [L F H A C]. constructor; auto. eapply CapTrace_weaken; exact C. Qed.

(** only reads and seeks were added: the policy side is untouched *)
Lemma Step_no_grow ex a b added :
  c_log b = added ++ c_log a -> c_polf b = c_polf a -> c_polh b = c_polh a -> c_cap b = c_cap a ->
  forallb (fun e => negb (is_grow e)) added = true -> Step ex a b added.
Proof.
  intros L F H C Hn. constructor; auto.
  - rewrite (grow_args_no_grow _ Hn). exact H.
  - apply GrowAnswers_no_grow; exact Hn.
  - rewrite C. apply CapTrace_no_grow; exact Hn.
Qed.

(** one consultation of the policy *)
Lemma Step_one_grow ex a b ans :
  c_log b = EvGrow (c_cap a) ans :: c_log a -> c_polf b = c_polf a -> c_polh b = c_cap a :: c_polh a ->
  ans = c_polf a (c_polh a) (c_cap a) -> CapTrace ex (c_cap a) [EvGrow (c_cap a) ans] (c_cap b) ->
  Step ex a b [EvGrow (c_cap a) ans].
Proof.
  intros L F H A C. constructor; auto. cbn [GrowAnswers grow_args flat_map app]. auto.
Qed.

(** [Run ex a b cls]: the call took the core from [a] to [b]; [cls] is the
    adverse-event class of its result *)
Definition Run (ex : bool) (a b : core) (cls : option adverse) : Prop :=
  exists added, Step ex a b added /\ AdverseSpec added cls.

Lemma Run_refl ex a : Run ex a a None.
Proof. exists []. split; [apply Step_refl|apply benign_nil]. Qed.

Lemma Run_seq ex a b c x : Run ex a b None -> Run ex b c x -> Run ex a c x.
Proof.
  intros (e1 & S1 & A1) (e2 & S2 & A2). exists (e2 ++ e1).
  split; [eapply Step_trans; eassumption | apply AdverseSpec_app; assumption].
Qed.

Lemma Run_weaken ex a b x : Run ex a b x -> Run false a b x.
Proof. intros (e & S & A). exists e. split; [eapply Step_weaken; exact S|exact A]. Qed.

Lemma Run_added ex a b x : Run ex a b x ->
  Step ex a b (new_events (c_log b) (c_log a)) /\ AdverseSpec (new_events (c_log b) (c_log a)) x.
Proof.
  intros (e & S & A). rewrite (s_log _ _ _ _ S), new_events_app. split; assumption.
Qed.

(* ------------------------------------------------------------------ *)
(** * [fill_buf] *)

Definition is_read (e : ev) : bool := match e with EvRead _ _ => true | _ => false end.

Definition fill_class (r : fill_res) : option adverse :=
  match r with FillErr k => Some (AIo k) | _ => None end.

Lemma reads_no_grow l : forallb is_read l = true -> forallb (fun e => negb (is_grow e)) l = true.
Proof.
  intros H. rewrite forallb_forall in *. intros e He. specialize (H e He). destruct e; try discriminate. reflexivity.
Qed.

Lemma src_read_length s off : length (snd (fst (src_read s off))) <= off.
Proof.
  unfold src_read. destruct (s_rs s) as [|[m| |k] rs]; cbn [fst snd length]; rewrite ?firstn_length; lia.
Qed.

(** The refill loop for EVERY source script: it adds only read events; it
    returns [FillErr k] exactly when its last read failed with kind [k], and no
    other read of the call failed; the buffer only grows, stays within the
    capacity, and the capacity is not touched. *)
Lemma fill_buf_trace fuel : forall buf cap s lg nr b s' lg' res,
  fill_buf fuel buf cap s lg nr = (b, s', lg', res) ->
  exists added,
    lg' = added ++ lg /\ forallb is_read added = true /\ AdverseSpec added (fill_class res) /\
    (exists app, b = buf ++ app) /\ (length buf <= cap -> length b <= cap).
Proof.
  induction fuel as [|f IH]; intros buf cap s lg nr b s' lg' res H; cbn [fill_buf] in H.
  - inversion H; subst. exists []. splits; auto; try apply benign_nil. exists []. rewrite app_nil_r. reflexivity.
  - destruct (length buf <? cap) eqn:Efull; [apply Nat.ltb_lt in Efull | apply Nat.ltb_ge in Efull].
    2:{ inversion H; subst. exists []. splits; auto; try apply benign_nil. exists []. rewrite app_nil_r. reflexivity. }
    destruct (src_read s (cap - length buf)) as [[s1 data] rr] eqn:Er.
    assert (Hdata : length data <= cap - length buf).
    { pose proof (src_read_length s (cap - length buf)) as Hd. rewrite Er in Hd. exact Hd. }
    destruct rr as [[|n]| |k].
    + inversion H; subst. exists [EvRead (cap - length b) (RData 0)].
      splits; auto; try lia.
      * repeat constructor.
      * exists []. rewrite app_nil_r. reflexivity.
    + destruct (IH _ _ _ _ _ _ _ _ _ H) as (added & -> & Hr & Ha & (ap & ->) & Hc).
      exists (added ++ [EvRead (cap - length buf) (RData (S n))]). splits.
      * rewrite <- app_assoc. reflexivity.
      * rewrite forallb_app, Hr. reflexivity.
      * apply AdverseSpec_app; [repeat constructor|exact Ha].
      * exists (data ++ ap). rewrite app_assoc. reflexivity.
      * intros _. apply Hc. rewrite app_length. lia.
    + destruct (IH _ _ _ _ _ _ _ _ _ H) as (added & -> & Hr & Ha & (ap & ->) & Hc).
      exists (added ++ [EvRead (cap - length buf) RInterrupted]). splits.
      * rewrite <- app_assoc. reflexivity.
      * rewrite forallb_app, Hr. reflexivity.
      * apply AdverseSpec_app; [repeat constructor|exact Ha].
      * exists ap. reflexivity.
      * exact Hc.
    + inversion H; subst. exists [EvRead (cap - length b) (RFailed k)]. splits; auto.
      * cbn [fill_class AdverseSpec]. eexists _, []. splits; [reflexivity|reflexivity|apply benign_nil].
      * exists []. rewrite app_nil_r. reflexivity.
Qed.
