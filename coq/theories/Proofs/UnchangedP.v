(** C11, second half: writing a parsed record unchanged.

    FASTQ: [fq_write_unchanged] of the record returned for an item of [fq_spec_all]
    is the input bytes from the item's '@' up to the end of its fourth line (the
    LF excluded), followed by one LF; concatenated over a well-formed input this
    reproduces the input (blank tail dropped, one LF added when the final
    terminator is missing).
    FASTA: [fa_write_unchanged] of a returned record is the input from '>' to the
    record's last line end, with an LF added when it does not end in one. *)
From SeqIO Require Import Model.Base Model.Fasta Model.Fastq Model.Views Spec.FastaSpec Spec.FastqSpec
  Proofs.Window Proofs.FastaInv Proofs.FqSpecP Proofs.FastqInv Proofs.FastqNextP.

(* ------------------------------------------------------------------ *)
(** * Part 1: FASTQ, one record *)

(** offset of the first LF at or after [x]; the input length when there is none *)
Definition line_end (inp : list byte) (x : nat) : nat :=
  match find_lf (skipn x inp) with Some n => x + n | None => length inp end.

(** offset of the end of the fourth line of the group of lines starting at [a]:
    the offset of its LF, or the input length when the fourth line is not terminated *)
Definition fq_rec_end (inp : list byte) (a : nat) : nat :=
  line_end inp (S (line_end inp (S (line_end inp (S (line_end inp a)))))).

Lemma line_end_some inp x y : abs_line inp x = Some y -> S (line_end inp x) = y.
Proof.
  unfold abs_line, line_end. destruct (find_lf (skipn x inp)) as [n|]; [|discriminate].
  cbn [option_map]. intros H. inversion H. lia.
Qed.

Lemma line_end_none inp x : abs_line inp x = None -> line_end inp x = length inp.
Proof.
  unfold abs_line, line_end. destruct (find_lf (skipn x inp)) as [n|]; [discriminate|reflexivity].
Qed.

Lemma fq_rec_end_chain inp a b c d :
  abs_line inp a = Some b -> abs_line inp b = Some c -> abs_line inp c = Some d ->
  fq_rec_end inp a = line_end inp d.
Proof.
  intros H1 H2 H3. unfold fq_rec_end.
  rewrite (line_end_some _ _ _ H1), (line_end_some _ _ _ H2), (line_end_some _ _ _ H3). reflexivity.
Qed.

(** [fq_matches] and, for a record, the position of the record's end in the buffer *)
Definition fq_matches2 (inp : list byte) (o : fq_out * (nat * nat)) (it : option fq_sitem) : Prop :=
  fq_matches inp o it /\
  match it, o with
  | Some (QRec i), (QORec rc, _) =>
      exists off e, qrbuf rc = window inp off e /\ off <= e /\ e <= length inp /\
                    r0 rc + off = qi_byte i /\ r1 rc + off = fq_rec_end inp (qi_byte i) /\
                    r0 rc <= r1 rc /\ r1 rc + off <= e
  | _, _ => True
  end.

Lemma fq_matches2_1 inp o it : fq_matches2 inp o it -> fq_matches inp o it.
Proof. intros [H _]. exact H. Qed.

(** ** The refinement proof of Proofs/FastqNextP.v, re-run with [fq_matches2]

    [Post2], [validate_post2], [check_end_post2], [resume_spec2], [tail_spec2],
    [Post2_step], [next_step2], [run_spec2], [fq_next_refines_spec2(_gen)] are the
    lemmas of FastqNextP.v with [fq_matches2] in place of [fq_matches]; the only
    new argument is in [validate_post2] (record case): the buffer-relative end
    [p1] of the record is the absolute [fq_rec_end]. *)

Inductive Post2 (inp : list byte) (ffuel a l : nat) : fq -> fq_out -> Prop :=
| Post2_none r' :
    fq_parse (skipn a inp) l a = [] -> qst r' = QFinished -> qline r' = l -> qbyte r' = a ->
    Post2 inp ffuel a l r' QONone
| Post2_err r' e :
    fq_parse (skipn a inp) l a = [QErr e l a] -> qst r' = QFinished -> qline r' = l -> qbyte r' = a ->
    Post2 inp ffuel a l r' (QOErr (fq_err_of e))
| Post2_rec r' i items :
    fq_parse (skipn a inp) l a = QRec i :: items ->
    fq_matches2 inp (QORec (fq_cur r'), (qline r', qbyte r')) (Some (QRec i)) ->
    QInv inp ffuel r' items ->
    Post2 inp ffuel a l r' (QORec (fq_cur r')).
(** [validate] on a group of four lines whose fourth line ends at an LF
    (first alternative) or at the end of the input (second alternative) *)
Lemma validate_post2 inp ffuel r off a l b c d e' :
  QBase inp ffuel r off -> p0 r + off = a -> qbyte r = a -> qline r = l ->
  pseq r + off = b -> psep r + off = c -> pqual r + off = d -> p1 r + off = e' ->
  abs_line inp a = Some b -> abs_line inp b = Some c -> abs_line inp c = Some d ->
  ((exists e, abs_line inp d = Some e /\ e' + 1 = e /\ e <= s_pos (qsrc r) /\
              qst r = QParsing /\ inc r = None)
   \/ (abs_line inp d = None /\ e' = length inp /\ s_pos (qsrc r) = length inp /\ qst r = QFinished)) ->
  exists r' v, fq_validate r = (r', v) /\ inc r' = inc r /\ Post2 inp ffuel a l r' (v_out r' v).
Proof.
  intros B Ha Hby Hln Hb Hc Hd He H1 H2 H3 Hcase.
  pose proof B as (W & Eo & Pol & Cap).
  pose proof (qwin_len _ _ _ _ W) as Hl. pose proof (qw_off _ _ _ _ W) as Ho.
  pose proof (qw_pos _ _ _ _ W) as Hp.
  pose proof (abs_line_cut _ _ _ H1) as (L1 & _ & _).
  pose proof (abs_line_cut _ _ _ H2) as (L2 & _ & _).
  pose proof (abs_line_cut _ _ _ H3) as (L3 & L3' & _).
  assert (Hspec : exists cont,
    fq_parse (skipn a inp) l a =
      sverdict (hd LF (skipn a inp)) (hd LF (skipn c inp))
               (window inp a (b - 1)) (window inp b (c - 1)) (window inp d e') l a cont /\
    QInv inp ffuel r cont /\ d <= e' /\ e' <= s_pos (qsrc r)).
  { destruct Hcase as [(e & H4 & Hee & Hes & Hst & Hinc)|(H4 & Hee & Hes & Hst)].
    - pose proof (abs_line_cut _ _ _ H4) as (L4 & _ & _).
      exists (fq_parse (skipn e inp) (l + 4) e). splits; try lia.
      + rewrite (parse_four_term inp a b c d e l H1 H2 H3 H4). replace (e - 1) with e' by lia. reflexivity.
      + unfold QInv. rewrite Hst. exists off. splits; auto; try lia.
        rewrite Hln. replace (p1 r + 1 + off) with e by lia. reflexivity.
    - exists []. splits; try lia.
      + rewrite (parse_four_last inp a b c d l H1 H2 H3 H4). rewrite Hee.
        rewrite (window_to_end inp d (length inp)) by lia. reflexivity.
      + unfold QInv. rewrite Hst. reflexivity. }
  destruct Hspec as (cont & Hspec & HQ & Hde & Hes).
  rewrite (validate_spec inp ffuel r off a b c d e' W Ha Hb Hc Hd He H1 H2 H3 Hde Hes).
  unfold mverdict. unfold sverdict in Hspec.
  destruct (negb (hd LF (skipn a inp) =? AT)) eqn:E1.
  { eexists _, _. split; [reflexivity|]. split; [reflexivity|]. cbn [v_out].
    rewrite Hln. apply (Post2_err inp ffuel a l _ (EInvalidStart (hd LF (skipn a inp)) l)); auto. }
  destruct (negb (hd LF (skipn c inp) =? PLUS)) eqn:E2.
  { eexists _, _. split; [reflexivity|]. split; [reflexivity|]. cbn [v_out].
    rewrite Hln.
    apply (Post2_err inp ffuel a l _ (EInvalidSep (hd LF (skipn c inp)) (l + 2) (err_id (window inp a (b - 1))))); auto. }
  destruct (length (trim_cr (window inp b (c - 1))) =? length (trim_cr (window inp d e'))) eqn:E3.
  - eexists _, _. split; [reflexivity|]. split; [reflexivity|]. cbn [v_out].
    eapply Post2_rec; [exact Hspec| |exact HQ].
    destruct (views_spec inp ffuel r off a b c d e' W Ha Hb Hc Hd He H1 H2 H3 Hde Hes
                (eqb_AT_not_LF _ E1)) as (V1 & V2 & V3).
    split.
    + cbn [fq_matches qi_head qi_seq qi_qual qi_line qi_byte].
      splits; auto; try congruence.
      exists off, (s_pos (qsrc r)). cbn [fq_cur qrbuf r0]. split; [apply (qw_buf _ _ _ _ W) | exact Ha].
    + cbn [qi_byte]. exists off, (s_pos (qsrc r)). cbn [fq_cur qrbuf r0 r1].
      rewrite (fq_rec_end_chain inp a b c d H1 H2 H3).
      splits; auto; try lia; [apply (qw_buf _ _ _ _ W)|].
      destruct Hcase as [(e & H4 & Hee & _)|(H4 & Hee & _)].
      * pose proof (line_end_some _ _ _ H4). lia.
      * rewrite (line_end_none _ _ H4). lia.
  - eexists _, _. split; [reflexivity|]. split; [reflexivity|]. cbn [v_out].
    rewrite Hln.
    apply (Post2_err inp ffuel a l _
             (EUnequal (length (trim_cr (window inp b (c - 1)))) (length (trim_cr (window inp d e'))) l
                       (err_id (window inp a (b - 1))))); auto.
Qed.
(* ------------------------------------------------------------------ *)
(** * check_end: the end of the input inside a group *)

Lemma check_end_post2 inp ffuel r off a l s :
  QBase inp ffuel r off -> s_pos (qsrc r) = length inp -> SInv inp r off s ->
  find_lf (skipn (sstart s r) (qbuf r)) = None ->
  p0 r + off = a -> qbyte r = a -> qline r = l -> qst r = QFinished ->
  exists r' rr, fq_check_end s r = (r', rr) /\ Post2 inp ffuel a l r' (qr_out r' rr).
Proof.
  intros B Heof HS Hno Ha Hby Hln Hst.
  pose proof B as (W & Eo & Pol & Cap).
  pose proof (qwin_len _ _ _ _ W) as Hl. pose proof (qw_off _ _ _ _ W) as Ho.
  pose proof (SInv_start _ _ _ _ HS) as [Hs1 Hs2].
  pose proof (no_lf_eof inp ffuel r off _ W Hs2 Heof Hno) as Hnone.
  assert (Hrest : skipn (p0 r) (qbuf r) = skipn a inp).
  { rewrite (skipn_qbuf _ _ _ _ _ W) by lia. rewrite Heof, window_to_end by lia. f_equal. exact Ha. }
  assert (Hblank : forall rr0 k id,
    fq_parse (skipn a inp) l a = end_items (skipn a inp) k id l a ->
    fq_error_pos r (stage_num s) (negb (stage_leb s Head)) = Some (l + k, id) ->
    s <> Qual ->
    rr0 = (if length (qbuf r) <? p0 r then (r, QrPanic 41)
           else
             if forallb (fun x => match trim_cr x with [] => true | _ => false end)
                        (pieces (skipn (p0 r) (qbuf r)))
             then (r, QrOk false)
             else match fq_error_pos r (stage_num s) (negb (stage_leb s Head)) with
                  | Some (l0, id0) => (r, QrErr (FqUnexpectedEnd l0 id0))
                  | None => (r, QrPanic 42)
                  end) ->
    exists r' rr, rr0 = (r', rr) /\ Post2 inp ffuel a l r' (qr_out r' rr)).
  { intros rr0 k id Hsp Hep _ ->.
    assert ((length (qbuf r) <? p0 r) = false) as -> by (apply Nat.ltb_ge; lia).
    rewrite Hrest, Hep. unfold end_items in Hsp.
    change (forallb (fun x => match trim_cr x with [] => true | _ => false end) (pieces (skipn a inp)))
      with (forallb blank (pieces (skipn a inp))).
    destruct (forallb blank (pieces (skipn a inp))).
    - eexists _, _. split; [reflexivity|]. cbn [qr_out]. apply Post2_none; auto.
    - eexists _, _. split; [reflexivity|]. cbn [qr_out].
      apply (Post2_err inp ffuel a l r (EUnexpectedEnd (l + k) id)); auto. }
  destruct s; cbn [SInv sstart] in *.
  - (* Head *)
    eapply (Hblank _ 0 None); [| |discriminate|reflexivity].
    + apply parse_eof_head. rewrite <- Ha. exact Hnone.
    + cbn [stage_num stage_leb Nat.leb negb]. rewrite error_pos_noid, Hln. reflexivity.
  - (* Seq *)
    destruct HS as (H1 & Hle).
    eapply (Hblank _ 1 (err_id (window inp a (pseq r + off - 1)))); [| |discriminate|reflexivity].
    + apply parse_eof_seq; [rewrite <- Ha; exact H1 | exact Hnone].
    + cbn [stage_num stage_leb Nat.leb negb].
      rewrite (error_pos_id inp ffuel r off 1 a (pseq r + off) W Ha eq_refl Hle) by (rewrite <- Ha; exact H1).
      rewrite Hln. reflexivity.
  - (* Sep *)
    destruct HS as (H1 & H2 & Hle). pose proof (abs_line_cut _ _ _ H2) as (L2 & _ & _).
    eapply (Hblank _ 2 (err_id (window inp a (pseq r + off - 1)))); [| |discriminate|reflexivity].
    + eapply parse_eof_sep; [rewrite <- Ha; exact H1 | exact H2 | exact Hnone].
    + cbn [stage_num stage_leb Nat.leb negb].
      rewrite (error_pos_id inp ffuel r off 2 a (pseq r + off) W Ha eq_refl) by (try lia; rewrite <- Ha; exact H1).
      rewrite Hln. reflexivity.
  - (* Qual: the fourth line runs to the end of the input *)
    destruct HS as (H1 & H2 & H3 & Hle). cbn [fq_check_end].
    set (rv := qset_p1 r (length (qbuf r))).
    assert (Bv : QBase inp ffuel rv off) by (eapply QBase_ext; [| | | |exact B]; reflexivity).
    destruct (validate_post2 inp ffuel rv off a l (pseq r + off) (psep r + off) (pqual r + off)
                (length (qbuf r) + off) Bv) as (r' & v & Hv & _ & HP);
      try reflexivity; try assumption; try (rewrite <- Ha; assumption).
    { right. unfold rv; cbn [qsrc qst qset_p1]. splits; auto. lia. }
    rewrite Hv. destruct v; eexists _, _; (split; [reflexivity|]); exact HP.
Qed.
(* ------------------------------------------------------------------ *)
(** * resume_incomplete_search *)

Lemma resume_spec2 inp ffuel a l mk : forall fuel r off s,
  QBase inp ffuel r off -> SInv inp r off s ->
  find_lf (skipn (sstart s r) (qbuf r)) = None ->
  p0 r + off = a -> qbyte r = a -> qline r = l -> qst r = QParsing ->
  (length inp - s_pos (qsrc r)) + (if length (qbuf r) <? qcap r then 0 else 1) < fuel ->
  exists r' rr, fq_resume fuel ffuel s mk r = (r', rr) /\ Post2 inp ffuel a l r' (qr_out r' rr).
Proof.
  induction fuel as [|f IH]; intros r off s B HS Hno Ha Hby Hln Hst Hfuel; [lia|].
  cbn [fq_resume].
  pose proof B as (W & Eo & Pol & Cap).
  pose proof (qwin_len _ _ _ _ W) as Hl. pose proof (qw_off _ _ _ _ W) as Ho.
  pose proof (qw_pos _ _ _ _ W) as Hp. pose proof (qw_cap _ _ _ _ W) as Hc.
  pose proof (SInv_start _ _ _ _ HS) as [Hs1 Hs2].
  destruct (length (qbuf r) <? qcap r) eqn:Efull; [apply Nat.ltb_lt in Efull | apply Nat.ltb_ge in Efull].
  { (* the buffer is not full: the input has ended *)
    apply (check_end_post2 inp ffuel (qset_st r QFinished) off a l s); auto.
    eapply QBase_ext; [| | | |exact B]; reflexivity. }
  (* make room or grow *)
  assert (Hstep : exists r1 off1,
    (if negb mk || (p0 r =? 0) then fq_grow r else fq_make_room s r) = (r1, QGOk) /\
    QWin inp ffuel r1 off1 /\ qsrc r1 = qsrc r /\ length (qbuf r1) < qcap r1 /\
    PolOk1 (qpolf r1) /\ SInv inp r1 off1 s /\
    p0 r1 + off1 = a /\ qbyte r1 = a /\ qline r1 = l /\ qst r1 = QParsing).
  { destruct (negb mk || (p0 r =? 0)) eqn:Eb.
    - destruct (fq_grow_ok r Pol ltac:(lia) Cap) as (n & Hn & _ & ->).
      eexists _, off. split; [reflexivity|].
      cbn [qbuf qsrc qcap p0 qbyte qline qst qpolf qset_cap qset_log qset_pol].
      split; [destruct W as [W1 W2 W3 W4 W5 W6 W7]; constructor;
              cbn [qbuf qsrc qcap qset_cap qset_log qset_pol]; auto; lia|].
      splits; auto; try lia.
    - apply orb_false_iff in Eb. destruct Eb as [_ E0]. apply Nat.eqb_neq in E0.
      destruct (fq_make_room_ok inp r off s HS) as
        (r1 & -> & Eb1 & Ep1 & Ec1 & Es1 & El1 & Ey1 & Et1 & Ef1 & _ & _ & _ & HS1).
      exists r1, (off + p0 r). split; [reflexivity|].
      assert (Hlen1 : length (qbuf r1) = length (qbuf r) - p0 r) by (rewrite Eb1, skipn_length; reflexivity).
      split.
      { constructor; rewrite ?Es1, ?Ec1, ?Hlen1; try apply W; try lia.
        rewrite Eb1, (skipn_qbuf _ _ _ _ _ W) by lia. f_equal. lia. }
      splits; auto; try lia; try congruence. rewrite Ef1. exact Pol. }
  destruct Hstep as (r1 & off1 & -> & W1 & Hsrc1 & Hroom & Pol1 & HS1 & Ha1 & Hby1 & Hln1 & Hst1).
  destruct (fq_fill_ok _ _ _ _ W1) as (s' & lg' & Hfill & Hps' & Hds' & Hnf' & Hfu' & _ & _ & Hle').
  cbv zeta in Hfill. rewrite Hfill.
  set (e' := Nat.min (off1 + qcap r1) (length inp)) in *.
  set (r2 := qset_log (qset_src (qset_buf r1 (window inp off1 e')) s') lg').
  pose proof (qwin_len _ _ _ _ W1) as Hl1. pose proof (qw_off _ _ _ _ W1) as Ho1.
  pose proof (qw_pos _ _ _ _ W1) as Hp1.
  assert (Hwl : length (window inp off1 e') = e' - off1) by (apply window_length; unfold e'; lia).
  assert (W2 : QWin inp ffuel r2 off1).
  { constructor; unfold r2; cbn [qbuf qsrc qcap qset_log qset_src qset_buf];
      rewrite ?Hps', ?Hwl; auto; try (unfold e'; lia). }
  assert (B2 : QBase inp ffuel r2 off1).
  { split; [exact W2|]. splits.
    - unfold QEof, r2; cbn [qbuf qsrc qcap qset_log qset_src qset_buf]. rewrite Hwl, Hps'. unfold e'. lia.
    - exact Pol1.
    - unfold r2; cbn [qcap qset_log qset_src qset_buf]. lia. }
  assert (HS2 : SInv inp r2 off1 s).
  { eapply SInv_mono; [| | | | |exact HS1]; try reflexivity.
    unfold r2; cbn [qbuf qset_log qset_src qset_buf]. rewrite Hwl. lia. }
  pose proof (search_spec inp ffuel off1 true s r2 W2 HS2) as Hsearch.
  destruct Hsearch as [(s3 & r3 & HX & Hb3 & HS3 & Hno3 & Hinc3)|(r3 & e & HX & Hb3 & Hinc3 & HS3 & H4 & He & Hle3)].
  - (* still incomplete: go round again *)
    rewrite HX.
    pose proof Hb3 as (E1 & E2 & E3 & E4 & E5 & E6 & E7 & E8 & _).
    apply (IH r3 off1 s3); auto.
    + eapply QBase_same; eassumption.
    + rewrite E4. exact Ha1.
    + rewrite E6. exact Hby1.
    + rewrite E5. exact Hln1.
    + rewrite E7. exact Hst1.
    + rewrite E1, E2, E3. unfold r2; cbn [qbuf qsrc qcap qset_log qset_src qset_buf].
      rewrite Hwl, Hps'. rewrite Hsrc1 in *.
      destruct (e' - off1 <? qcap r1) eqn:E9; [apply Nat.ltb_lt in E9 | apply Nat.ltb_ge in E9];
        unfold e' in *; lia.
  - (* four lines found *)
    pose proof Hb3 as (E1 & E2 & E3 & E4 & E5 & E6 & E7 & E8 & _).
    destruct HS3 as (L1 & L2 & L3 & Hq).
    assert (F4 : p0 r3 + off1 = a) by (rewrite E4; exact Ha1).
    assert (F6 : qbyte r3 = a) by (rewrite E6; exact Hby1).
    assert (F5 : qline r3 = l) by (rewrite E5; exact Hln1).
    assert (F7 : qst r3 = QParsing) by (rewrite E7; exact Hst1).
    set (rv := qset_inc r3 None) in *.
    assert (Bv : QBase inp ffuel rv off1).
    { eapply QBase_ext; [| | | |eapply QBase_same; [exact Hb3|exact B2]]; reflexivity. }
    destruct (validate_post2 inp ffuel rv off1 a l (pseq r3 + off1) (psep r3 + off1) (pqual r3 + off1)
                (p1 r3 + off1) Bv) as (r' & v & Hv & _ & HP);
      try reflexivity; unfold rv; cbn [p0 qbyte qline qset_inc]; try assumption;
      try (rewrite <- F4; assumption).
    { left. exists e. cbn [qsrc qst inc qset_inc]. splits; auto; try lia; try congruence.
      rewrite E3. unfold r2; cbn [qsrc qset_log qset_src qset_buf].
      rewrite E1 in Hle3. unfold r2 in Hle3; cbn [qbuf qset_log qset_src qset_buf] in Hle3.
      rewrite Hwl in Hle3. lia. }
    rewrite HX. fold rv. rewrite Hv.
    destruct v; cbn [of_vres]; eexists _, _; (split; [reflexivity|]); exact HP.
Qed.
(* ------------------------------------------------------------------ *)
(** * next *)

Lemma tail_spec2 inp ffuel fuel r off a l :
  QBase inp ffuel r off -> p0 r + off = a -> qbyte r = a -> qline r = l ->
  p0 r <= length (qbuf r) -> inc r = None -> qst r = QParsing -> length inp + 2 <= fuel ->
  exists r' o, fq_next_tail fuel ffuel r = (r', o) /\ Post2 inp ffuel a l r' o.
Proof.
  intros B Ha Hby Hln Hle Hinc Hst Hfuel. pose proof B as (W & Eo & Pol & Cap).
  unfold fq_next_tail. rewrite Hinc.
  destruct (search_spec inp ffuel off false Head r W Hle)
    as [(s3 & r3 & HX & Hb3 & HS3 & Hno3 & Hinc3)|(r3 & e & HX & Hb3 & Hinc3 & HS3 & H4 & He & Hle3)].
  - (* incomplete: refill and resume *)
    rewrite HX, Hinc3.
    pose proof Hb3 as (E1 & E2 & E3 & E4 & E5 & E6 & E7 & E8 & _).
    destruct (resume_spec2 inp ffuel a l true fuel r3 off s3) as (r' & rr & Hr & HP); auto.
    + eapply QBase_same; eassumption.
    + rewrite E4. exact Ha.
    + rewrite E6. exact Hby.
    + rewrite E5. exact Hln.
    + rewrite E7. exact Hst.
    + destruct (length (qbuf r3) <? qcap r3); lia.
    + rewrite Hr. exists r', (qr_out r' rr). split; [|exact HP].
      destruct rr as [[|]|e|x|]; reflexivity.
  - (* the four lines are in the buffer *)
    pose proof Hb3 as (E1 & E2 & E3 & E4 & E5 & E6 & E7 & E8 & _).
    destruct HS3 as (L1 & L2 & L3 & Hq).
    assert (F4 : p0 r3 + off = a) by (rewrite E4; exact Ha).
    assert (F6 : qbyte r3 = a) by (rewrite E6; exact Hby).
    assert (F5 : qline r3 = l) by (rewrite E5; exact Hln).
    assert (F7 : qst r3 = QParsing) by (rewrite E7; exact Hst).
    assert (B3 : QBase inp ffuel r3 off) by (eapply QBase_same; eassumption).
    destruct (validate_post2 inp ffuel r3 off a l (pseq r3 + off) (psep r3 + off) (pqual r3 + off)
                (p1 r3 + off) B3) as (r' & v & Hv & Hiv & HP);
      try reflexivity; try assumption; try (rewrite <- F4; assumption).
    { left. exists e. splits; auto; try lia; try congruence.
      pose proof (qwin_len _ _ _ _ (proj1 B3)). pose proof (qw_off _ _ _ _ (proj1 B3)). lia. }
    rewrite HX. cbv iota. rewrite Hv.
    destruct v; cbn [of_vres].
    + rewrite Hiv, Hinc3, Hinc. eexists _, _. split; [reflexivity|]. exact HP.
    + eexists _, _. split; [reflexivity|]. exact HP.
    + eexists _, _. split; [reflexivity|]. exact HP.
Qed.

(** what a [Post2] means for the list of items still to come *)
Lemma Post2_step inp ffuel a l r' o : Post2 inp ffuel a l r' o ->
  fq_matches2 inp (o, fq_position r') (hd_error (fq_parse (skipn a inp) l a)) /\
  QInv inp ffuel r' (tl (fq_parse (skipn a inp) l a)).
Proof.
  intros [r1 Hs Hst Hl Hb | r1 e Hs Hst Hl Hb | r1 i items Hs Hm HQ]; rewrite Hs; cbn [hd_error tl].
  - split; [split; exact I|]. unfold QInv. rewrite Hst. reflexivity.
  - split; [|unfold QInv; rewrite Hst; reflexivity].
    split; [|exact I].
    cbn [fq_matches]. unfold fq_position. rewrite Hl, Hb. split; reflexivity.
  - split; [exact Hm | exact HQ].
Qed.
Lemma next_step2 inp ffuel fuel r items :
  QInv inp ffuel r items -> length inp + 2 <= fuel ->
  exists r' o, fq_next fuel ffuel r = (r', o) /\
    fq_matches2 inp (o, fq_position r') (hd_error items) /\ QInv inp ffuel r' (tl items).
Proof.
  intros HQ Hfuel. unfold QInv in HQ. unfold fq_next.
  destruct (qst r) eqn:Hst.
  - (* New: the first refill *)
    destruct HQ as (W & Hp0 & H0 & Hinc & Hln & Hby & Pol & Cap & ->).
    destruct (fq_fill_ok _ _ _ _ W) as (s' & lg' & Hfill & Hps' & Hds' & Hnf' & Hfu' & _ & _ & Hle').
    cbv zeta in Hfill. rewrite Hp0, Nat.sub_0_r, Nat.add_0_l in Hfill.
    rewrite Nat.add_0_l in Hps'.
    set (e' := Nat.min (qcap r) (length inp)) in *.
    set (r2 := qset_log (qset_src (qset_buf r (window inp 0 e')) s') lg') in *.
    rewrite (fq_init_fill _ _ _ _ Hfill).
    assert (Hwl : length (window inp 0 e') = e') by (rewrite window_length; unfold e'; lia).
    destruct (e' =? 0) eqn:Ee; [apply Nat.eqb_eq in Ee | apply Nat.eqb_neq in Ee].
    + (* empty input *)
      assert (Hi : inp = []) by (apply length_zero_iff_nil; unfold e' in Ee; lia).
      eexists _, _. split; [reflexivity|].
      replace (fq_parse inp 1 0) with (@nil fq_sitem) by (rewrite Hi; reflexivity). cbn [hd_error tl].
      split; [split; exact I|]. unfold QInv. reflexivity.
    + 
      assert (W2 : QWin inp ffuel r2 0).
      { constructor; unfold r2; cbn [qbuf qsrc qcap qset_log qset_src qset_buf];
          rewrite ?Hps', ?Hwl; auto; try lia. }
      assert (B2 : QBase inp ffuel (qset_st r2 QParsing) 0).
      { eapply (QBase_ext inp ffuel r2); try reflexivity. split; [exact W2|]. splits.
        - unfold QEof, r2; cbn [qbuf qsrc qcap qset_log qset_src qset_buf]. rewrite Hwl, Hps'. lia.
        - exact Pol.
        - exact Cap. }
      destruct (tail_spec2 inp ffuel fuel (qset_st r2 QParsing) 0 0 1 B2) as (r' & o & Ht & HP);
        unfold r2; cbn [p0 qbyte qline qbuf inc qst qset_st qset_log qset_src qset_buf]; auto; try lia.
      cbv beta iota. exists r', o. split; [exact Ht|].
      apply Post2_step in HP. cbn [skipn] in HP. exact HP.
  - (* Parsing: step over the record returned last *)
    destruct HQ as (off & B & Hinc & Hby & Hle1 & Hle2 & ->).
    rewrite Hinc. unfold fq_increment.
    assert ((p1 r + 1 <? p0 r) = false) as -> by (apply Nat.ltb_ge; lia).
    set (r1 := qset_p0 _ _).
    assert (B1 : QBase inp ffuel r1 off) by (eapply QBase_ext; [| | | |exact B]; reflexivity).
    destruct (tail_spec2 inp ffuel fuel r1 off (p1 r + 1 + off) (qline r + 4) B1) as (r' & o & Ht & HP);
      unfold r1; cbn [p0 qbyte qline qbuf inc qst qset_p0 qset_line qset_byte]; auto; try lia.
    exists r', o. split; [exact Ht|].
    apply Post2_step in HP. exact HP.
  - contradiction.
  - subst items. exists r, QONone. split; [reflexivity|]. cbn [hd_error tl].
    split; [split; exact I|]. unfold QInv. rewrite Hst. reflexivity.
Qed.
Lemma run_spec2 inp ffuel fuel : length inp + 2 <= fuel -> forall n m r items,
  n <= m -> QInv inp ffuel r items ->
  Forall2 (fq_matches2 inp) (fq_run fuel ffuel n r) (firstn n (map Some items ++ repeat None m)).
Proof.
  intros Hfuel. induction n as [|n IH]; intros m r items Hm HQ; [constructor|].
  cbn [fq_run].
  destruct (next_step2 inp ffuel fuel r items HQ Hfuel) as (r' & o & -> & Hmatch & HQ').
  destruct items as [|it items]; cbn [hd_error tl map app] in *.
  - destruct m as [|m]; [lia|]. cbn [repeat firstn]. constructor; [exact Hmatch|].
    apply (IH m r' []); [lia | exact HQ'].
  - cbn [firstn]. constructor; [exact Hmatch|]. apply IH; [lia | exact HQ'].
Qed.
(** the records with their header / sequence / quality and coordinates, then the
    single error with all its fields, then end of input for ever — whatever the
    capacity (>= 1), the chunking and the policy (granting more at capacities >= 1) *)
Theorem fq_next_refines_spec2_gen : forall inp cap0 rs ss pol fuel ffuel n,
  1 <= cap0 -> forallb item_ok rs = true -> PolOk1 pol ->
  length rs + 2 <= ffuel -> length inp + 2 <= fuel ->
  Forall2 (fq_matches2 inp)
          (fq_run fuel ffuel n (fq_new cap0 (mkSource inp 0 rs ss) pol))
          (firstn n (map Some (fq_spec_all inp) ++ repeat None n)).
Proof.
  intros inp cap0 rs ss pol fuel ffuel n Hc Hrs Hp Hf Hfu.
  apply (run_spec2 inp ffuel fuel Hfu n n); [lia|].
  apply QInv_new; auto.
Qed.

(** the same for the capacities the library allows and [PolOk] policies *)
Theorem fq_next_refines_spec2 : forall inp cap0 rs ss pol fuel ffuel n,
  3 <= cap0 -> forallb item_ok rs = true -> PolOk pol ->
  length rs + 2 <= ffuel -> length inp + 2 <= fuel ->
  Forall2 (fq_matches2 inp)
          (fq_run fuel ffuel n (fq_new cap0 (mkSource inp 0 rs ss) pol))
          (firstn n (map Some (fq_spec_all inp) ++ repeat None n)).
Proof.
  intros inp cap0 rs ss pol fuel ffuel n Hc Hrs Hp Hf Hfu.
  apply fq_next_refines_spec2_gen; auto using PolOk_PolOk1. lia.
Qed.

(* ------------------------------------------------------------------ *)
(** * The bytes written for a returned FASTQ record *)

(** the raw bytes of the record of item [i]: from its '@' to the end of its fourth
    line, the LF that ends the fourth line (if there is one) excluded *)
Definition fq_raw (inp : list byte) (i : fq_item) : list byte :=
  window inp (qi_byte i) (fq_rec_end inp (qi_byte i)).

Lemma slice_of_window inp off e i j : off <= e -> e <= length inp -> i <= j -> j + off <= e ->
  slice (window inp off e) i j = Some (window inp (i + off) (j + off)).
Proof.
  intros H1 H2 H3 H4. unfold slice.
  rewrite window_length by lia.
  assert ((i <=? j) = true) as -> by (apply Nat.leb_le; lia).
  assert ((j <=? e - off) = true) as -> by (apply Nat.leb_le; lia).
  cbn [andb]. f_equal.
  change (firstn (j - i) (skipn i (window inp off e))) with (window (window inp off e) i j).
  rewrite window_window by lia. f_equal; lia.
Qed.

Lemma fq_unchanged_of_matches2 inp rc pos i :
  fq_matches2 inp (QORec rc, pos) (Some (QRec i)) ->
  fq_write_unchanged rc = Some (fq_raw inp i ++ [LF]).
Proof.
  intros [_ (off & e & Hb & Hoe & Hel & H0 & H1 & Hle & He)].
  unfold fq_write_unchanged, fq_raw. rewrite Hb.
  rewrite (slice_of_window inp off e (r0 rc) (r1 rc)) by lia.
  cbn [option_map]. rewrite H0, H1. reflexivity.
Qed.

(** outcome of a call against the expected item: everything [fq_matches] says, and
    the bytes written by [write_unchanged] *)
Definition fq_unchanged_ok (inp : list byte) (o : fq_out * (nat * nat)) (it : option fq_sitem) : Prop :=
  fq_matches inp o it /\
  match it with
  | Some (QRec i) => exists rc, fst o = QORec rc /\ fq_write_unchanged rc = Some (fq_raw inp i ++ [LF])
  | _ => True
  end.

Lemma matches2_unchanged_ok inp o it : fq_matches2 inp o it -> fq_unchanged_ok inp o it.
Proof.
  intros H. split; [exact (fq_matches2_1 _ _ _ H)|].
  destruct it as [[i|e l b]|]; try exact I.
  destruct o as [o pos]. destruct o; try (destruct H as [H _]; cbn [fq_matches] in H; contradiction).
  exists r. split; [reflexivity|]. eapply fq_unchanged_of_matches2; exact H.
Qed.

Lemma Forall2_impl {A B} (R1 R2 : A -> B -> Prop) l1 l2 :
  (forall a b, R1 a b -> R2 a b) -> Forall2 R1 l1 l2 -> Forall2 R2 l1 l2.
Proof. intros H. induction 1; constructor; auto. Qed.

(** Part 1: every record returned by successive [next] calls is written unchanged as
    its raw input bytes followed by LF — for every input, capacity, chunking, policy *)
Theorem fq_unchanged_bytes_gen : forall inp cap0 rs ss pol fuel ffuel n,
  1 <= cap0 -> forallb item_ok rs = true -> PolOk1 pol ->
  length rs + 2 <= ffuel -> length inp + 2 <= fuel ->
  Forall2 (fq_unchanged_ok inp)
          (fq_run fuel ffuel n (fq_new cap0 (mkSource inp 0 rs ss) pol))
          (firstn n (map Some (fq_spec_all inp) ++ repeat None n)).
Proof.
  intros inp cap0 rs ss pol fuel ffuel n Hc Hrs Hp Hf Hfu.
  eapply Forall2_impl; [apply matches2_unchanged_ok|].
  apply fq_next_refines_spec2_gen; assumption.
Qed.

Theorem fq_unchanged_bytes : forall inp cap0 rs ss pol fuel ffuel n,
  3 <= cap0 -> forallb item_ok rs = true -> PolOk pol ->
  length rs + 2 <= ffuel -> length inp + 2 <= fuel ->
  Forall2 (fq_unchanged_ok inp)
          (fq_run fuel ffuel n (fq_new cap0 (mkSource inp 0 rs ss) pol))
          (firstn n (map Some (fq_spec_all inp) ++ repeat None n)).
Proof.
  intros inp cap0 rs ss pol fuel ffuel n Hc Hrs Hp Hf Hfu.
  apply fq_unchanged_bytes_gen; auto using PolOk_PolOk1. lia.
Qed.

(** ** what the raw bytes are *)

Lemma find_lf_at l r : ~ In LF l -> find_lf (l ++ LF :: r) = Some (length l).
Proof.
  induction l as [|c l IH]; intros H; [reflexivity|].
  cbn [app find_lf length]. destruct (c =? LF) eqn:E.
  - apply Nat.eqb_eq in E. exfalso. apply H. left. exact E.
  - rewrite IH; [reflexivity|]. intros H1. apply H. right. exact H1.
Qed.

Lemma find_lf_nolf l : ~ In LF l -> find_lf l = None.
Proof.
  induction l as [|c l IH]; intros H; [reflexivity|].
  cbn [find_lf]. destruct (c =? LF) eqn:E.
  - apply Nat.eqb_eq in E. exfalso. apply H. left. exact E.
  - rewrite IH; [reflexivity|]. intros H1. apply H. right. exact H1.
Qed.

Lemma skipn_app_len {A} (a b : list A) : skipn (length a) (a ++ b) = b.
Proof. induction a as [|x a IH]; [reflexivity|]. cbn [length app skipn]. exact IH. Qed.

Lemma firstn_app_len {A} (a b : list A) : firstn (length a) (a ++ b) = a.
Proof. induction a as [|x a IH]; [reflexivity|]. cbn [length app firstn]. rewrite IH. reflexivity. Qed.

(** a line [l] terminated by LF at offset [x] *)
Lemma line_end_at inp x l rest : skipn x inp = l ++ LF :: rest -> ~ In LF l ->
  line_end inp x = x + length l /\ skipn (S (x + length l)) inp = rest.
Proof.
  intros H Hl. unfold line_end. rewrite H, (find_lf_at l rest Hl). split; [reflexivity|].
  replace (S (x + length l)) with (x + (length l + 1)) by lia.
  rewrite <- skipn_skipn, H.
  replace (length l + 1) with (length (l ++ [LF])) by (rewrite app_length; reflexivity).
  change (l ++ LF :: rest) with (l ++ [LF] ++ rest). rewrite app_assoc. apply skipn_app_len.
Qed.

Lemma line_end_last inp x l : skipn x inp = l -> ~ In LF l -> line_end inp x = length inp.
Proof. intros H Hl. unfold line_end. rewrite H, (find_lf_nolf l Hl). reflexivity. Qed.

Lemma window_prefix inp a pre rest : skipn a inp = pre ++ rest ->
  window inp a (a + length pre) = pre.
Proof.
  intros H. unfold window. rewrite H. replace (a + length pre - a) with (length pre) by lia.
  apply firstn_app_len.
Qed.

(** the group of four lines at [a], the fourth one terminated *)
Lemma fq_raw_four inp a h s p q rest :
  skipn a inp = h ++ LF :: s ++ LF :: p ++ LF :: q ++ LF :: rest ->
  ~ In LF h -> ~ In LF s -> ~ In LF p -> ~ In LF q ->
  window inp a (fq_rec_end inp a) = h ++ LF :: s ++ LF :: p ++ LF :: q /\
  fq_rec_end inp a < length inp.
Proof.
  intros H Hh Hs Hp Hq. unfold fq_rec_end.
  destruct (line_end_at inp a h _ H Hh) as [E1 K1]. rewrite E1.
  destruct (line_end_at inp _ s _ K1 Hs) as [E2 K2]. rewrite E2.
  destruct (line_end_at inp _ p _ K2 Hp) as [E3 K3]. rewrite E3.
  destruct (line_end_at inp _ q _ K3 Hq) as [E4 K4]. rewrite E4.
  split.
  - replace (S (S (S (a + length h) + length s) + length p) + length q)
      with (a + length (h ++ LF :: s ++ LF :: p ++ LF :: q)) by len.
    apply (window_prefix inp a _ (LF :: rest)).
    rewrite H. repeat (rewrite <- app_assoc; cbn [app]). reflexivity.
  - assert (Hl : length (skipn a inp) = length inp - a) by apply skipn_length.
    rewrite H in Hl. repeat (rewrite app_length in Hl; cbn [length] in Hl). lia.
Qed.

(** ... the fourth one ended by the end of the input *)
Lemma fq_raw_four_last inp a h s p q :
  skipn a inp = h ++ LF :: s ++ LF :: p ++ LF :: q ->
  ~ In LF h -> ~ In LF s -> ~ In LF p -> ~ In LF q ->
  window inp a (fq_rec_end inp a) = h ++ LF :: s ++ LF :: p ++ LF :: q /\
  fq_rec_end inp a = length inp.
Proof.
  intros H Hh Hs Hp Hq. unfold fq_rec_end.
  destruct (line_end_at inp a h _ H Hh) as [E1 K1]. rewrite E1.
  destruct (line_end_at inp _ s _ K1 Hs) as [E2 K2]. rewrite E2.
  destruct (line_end_at inp _ p _ K2 Hp) as [E3 K3]. rewrite E3.
  rewrite (line_end_last inp _ q K3 Hq).
  split; [|reflexivity].
  rewrite window_to_end by lia. exact H.
Qed.

(** ** "line endings included" *)

Lemma line_end_le inp x : line_end inp x <= length inp.
Proof.
  unfold line_end. destruct (find_lf (skipn x inp)) as [n|] eqn:E; [|lia].
  apply find_lf_lt in E. rewrite skipn_length in E. lia.
Qed.

Lemma line_end_beyond inp x : length inp <= x -> line_end inp x = length inp.
Proof. intros H. unfold line_end. rewrite skipn_all2 by exact H. reflexivity. Qed.

Lemma find_lf_nth l n : find_lf l = Some n -> nth_error l n = Some LF.
Proof.
  revert n. induction l as [|c l IH]; intros n H; [discriminate|].
  cbn [find_lf] in H. destruct (c =? LF) eqn:E.
  - inversion H. apply Nat.eqb_eq in E. subst c. reflexivity.
  - destruct (find_lf l) as [k|]; [|discriminate]. cbn [option_map] in H. inversion H.
    cbn [nth_error]. apply IH. reflexivity.
Qed.

Lemma line_end_lt inp x : line_end inp x < length inp ->
  x <= line_end inp x /\ nth_error inp (line_end inp x) = Some LF.
Proof.
  unfold line_end. destruct (find_lf (skipn x inp)) as [n|] eqn:E; [|lia].
  intros _. split; [lia|]. apply find_lf_nth in E. rewrite nth_error_skipn_add in E. exact E.
Qed.

Lemma fq_rec_end_le inp a : fq_rec_end inp a <= length inp.
Proof. apply line_end_le. Qed.

Lemma fq_rec_end_lt inp a : fq_rec_end inp a < length inp ->
  a <= fq_rec_end inp a /\ nth_error inp (fq_rec_end inp a) = Some LF.
Proof.
  unfold fq_rec_end. intros H.
  set (e1 := line_end inp a) in *. set (e2 := line_end inp (S e1)) in *.
  set (e3 := line_end inp (S e2)) in *.
  destruct (line_end_lt _ _ H) as [L4 N4]. split; [|exact N4].
  assert (H3 : e3 < length inp).
  { destruct (Nat.lt_ge_cases e3 (length inp)) as [K|K]; [exact K|].
    rewrite (line_end_beyond inp (S e3)) in H by lia. lia. }
  destruct (line_end_lt _ _ H3) as [L3 _].
  assert (H2 : e2 < length inp).
  { destruct (Nat.lt_ge_cases e2 (length inp)) as [K|K]; [exact K|].
    unfold e3 in H3. rewrite (line_end_beyond inp (S e2)) in H3 by lia. lia. }
  destruct (line_end_lt _ _ H2) as [L2 _].
  assert (H1 : e1 < length inp).
  { destruct (Nat.lt_ge_cases e1 (length inp)) as [K|K]; [exact K|].
    unfold e2 in H2. rewrite (line_end_beyond inp (S e1)) in H2 by lia. lia. }
  destruct (line_end_lt _ _ H1) as [L1 _]. lia.
Qed.

Lemma window_snoc inp a e c : a <= e -> nth_error inp e = Some c ->
  window inp a e ++ [c] = window inp a (S e).
Proof.
  intros H Hn. rewrite <- (window_app inp a e (S e)) by lia. f_equal.
  assert (He : e < length inp) by (apply nth_error_Some; rewrite Hn; discriminate).
  rewrite (window_cons inp e (S e)) by lia.
  replace (e + 1) with (S e) by lia. rewrite window_nil.
  rewrite (nth_error_hd inp e He) in Hn. inversion Hn. reflexivity.
Qed.

(** the bytes written are the record's input bytes with every line terminator,
    when the fourth line is terminated in the input; otherwise (last record without
    final terminator) they are the rest of the input followed by LF *)
Theorem fq_raw_terminated inp i :
  (fq_rec_end inp (qi_byte i) < length inp ->
   fq_raw inp i ++ [LF] = window inp (qi_byte i) (S (fq_rec_end inp (qi_byte i)))) /\
  (~ fq_rec_end inp (qi_byte i) < length inp ->
   fq_raw inp i ++ [LF] = skipn (qi_byte i) inp ++ [LF]).
Proof.
  unfold fq_raw. split; intros H.
  - destruct (fq_rec_end_lt _ _ H) as [H1 H2]. apply window_snoc; assumption.
  - pose proof (fq_rec_end_le inp (qi_byte i)). rewrite window_to_end by lia. reflexivity.
Qed.

(* ------------------------------------------------------------------ *)
(** * Part 2: FASTQ, a whole well-formed input *)

(** what is written for each record of [render crlf final rs]: the record's four
    lines with their terminators; the last line of all ends in LF in any case *)
Fixpoint fq_wu_outs (crlf final : bool) (rs : list rec3) : list (list byte) :=
  match rs with
  | [] => []
  | r :: rest =>
      (body crlf r ++ match rest with
                      | [] => if final then eolcr crlf else []
                      | _ :: _ => eolcr crlf
                      end ++ [LF]) :: fq_wu_outs crlf final rest
  end.

(** the input with the final terminator (LF) added if missing *)
Definition fq_unchanged_text (crlf final : bool) (rs : list rec3) : list byte :=
  match rs with
  | [] => []
  | _ :: _ => render crlf final rs ++ (if final then [] else [LF])
  end.

Lemma eol_eolcr crlf : eol crlf = eolcr crlf ++ [LF].
Proof. destruct crlf; reflexivity. Qed.

Lemma fq_wu_outs_concat crlf final rs :
  concat (fq_wu_outs crlf final rs) = fq_unchanged_text crlf final rs.
Proof.
  induction rs as [|r rest IH]; [reflexivity|].
  cbn [fq_wu_outs concat]. rewrite IH. unfold fq_unchanged_text. cbn [render].
  destruct rest as [|r2 rest].
  - rewrite !app_nil_r. destruct final.
    + rewrite eol_eolcr, app_nil_r. reflexivity.
    + rewrite !app_nil_r. reflexivity.
  - rewrite eol_eolcr. repeat rewrite <- app_assoc. reflexivity.
Qed.

Lemma fq_unchanged_text_final crlf rs : fq_unchanged_text crlf true rs = render crlf true rs.
Proof. destruct rs; [reflexivity|]. unfold fq_unchanged_text. apply app_nil_r. Qed.

Lemma render_false_true rs : forall r, render false false (r :: rs) ++ [LF] = render false true (r :: rs).
Proof.
  induction rs as [|r2 rs IH]; intros r.
  - cbn [render eol]. rewrite app_nil_r. reflexivity.
  - change (render false false (r :: r2 :: rs)) with (body false r ++ eol false ++ render false false (r2 :: rs)).
    change (render false true (r :: r2 :: rs)) with (body false r ++ eol false ++ render false true (r2 :: rs)).
    rewrite <- IH. repeat rewrite <- app_assoc. reflexivity.
Qed.

(** for LF input the result is the input with its final terminator *)
Lemma fq_unchanged_text_lf final rs : fq_unchanged_text false final rs = render false true rs.
Proof.
  destruct final; [apply fq_unchanged_text_final|].
  destruct rs as [|r rs]; [reflexivity|]. unfold fq_unchanged_text. apply render_false_true.
Qed.

Definition item_out (inp : list byte) (it : fq_sitem) : list byte :=
  match it with QRec i => fq_raw inp i ++ [LF] | QErr _ _ _ => [] end.

Lemma skipn_pre {A} (pre x : list A) : skipn (length pre) (pre ++ x) = x.
Proof. apply skipn_app_len. Qed.

Lemma raw_items crlf final : forall rs pre tail l,
  Forall rec_ok rs -> (final = false -> tail = []) ->
  map (item_out (pre ++ render crlf final rs ++ tail)) (fq_items (rec_len crlf) rs l (length pre)) =
  fq_wu_outs crlf final rs.
Proof.
  induction rs as [|[[h s] q] rest IH]; intros pre tail l Hok Ht; [reflexivity|].
  inversion Hok as [|r0 rs0 Hr Hrest]; subst.
  destruct Hr as (Hh & Hs & Hq & Eh & Es & Eq & Hlen).
  assert (N1 : ~ In LF (AT :: h ++ eolcr crlf))
    by (apply nolf_cons; [exact at_neq_lf | apply nolf_eolcr, Hh]).
  assert (N2 : ~ In LF (s ++ eolcr crlf)) by (apply nolf_eolcr, Hs).
  assert (N3 : ~ In LF (PLUS :: eolcr crlf)) by apply nolf_sep.
  assert (N4 : ~ In LF (q ++ eolcr crlf)) by (apply nolf_eolcr, Hq).
  cbn [fq_items map fq_wu_outs fst snd]. f_equal.
  - (* this record *)
    cbn [item_out]. unfold fq_raw. cbn [qi_byte]. rewrite (app_assoc (body crlf (h, s, q))). f_equal.
    match goal with |- window ?x _ _ = _ => remember x as inp eqn:Einp end.
    assert (Hsk : skipn (length pre) inp = render crlf final ((h, s, q) :: rest) ++ tail)
      by (rewrite Einp; apply skipn_pre).
    clear Einp.
    cbn [render] in Hsk.
    destruct rest as [|r2 rest'].
    + destruct final.
      * (* terminated, then the blank tail *)
        rewrite <- app_assoc in Hsk. fold (rec_text crlf (h, s, q)) in Hsk.
        change (body crlf (h, s, q) ++ eol crlf ++ tail) with (body crlf (h, s, q) ++ eol crlf ++ tail) in Hsk.
        rewrite app_assoc in Hsk. fold (rec_text crlf (h, s, q)) in Hsk.
        rewrite rec_text_shape in Hsk.
        destruct (fq_raw_four inp (length pre) _ _ _ _ _ Hsk N1 N2 N3 N4) as [-> _].
        rewrite body_shape. repeat (rewrite <- app_assoc; cbn [app]). reflexivity.
      * rewrite (Ht eq_refl), !app_nil_r in Hsk. rewrite body_shape in Hsk.
        destruct (fq_raw_four_last inp (length pre) _ _ _ _ Hsk N1 N2 N3 Hq) as [-> _].
        rewrite body_shape, app_nil_r. reflexivity.
    + rewrite <- app_assoc in Hsk. rewrite app_assoc in Hsk.
      rewrite (app_assoc (body crlf (h, s, q))) in Hsk. fold (rec_text crlf (h, s, q)) in Hsk.
      rewrite <- app_assoc in Hsk.
      rewrite rec_text_shape in Hsk.
      destruct (fq_raw_four inp (length pre) _ _ _ _ _ Hsk N1 N2 N3 N4) as [-> _].
      rewrite body_shape. repeat (rewrite <- app_assoc; cbn [app]). reflexivity.
  - (* the following records *)
    destruct rest as [|r2 rest']; [reflexivity|].
    specialize (IH (pre ++ rec_text crlf (h, s, q)) tail (l + 4) Hrest Ht).
    rewrite app_length in IH. fold (rec_len crlf (h, s, q)) in IH.
    rewrite <- IH. f_equal. f_equal.
    change (render crlf final ((h, s, q) :: r2 :: rest'))
      with (body crlf (h, s, q) ++ eol crlf ++ render crlf final (r2 :: rest')).
    unfold rec_text. repeat rewrite <- app_assoc. reflexivity.
Qed.

(** what a caller writing every returned record unchanged gets from one call:
    the record's bytes, nothing at the end of the input; [None] for an error or a panic *)
Definition fq_wu_out (o : fq_out * (nat * nat)) : option (list byte) :=
  match fst o with
  | QORec rc => fq_write_unchanged rc
  | QONone => Some []
  | _ => None
  end.

Definition expected_out (inp : list byte) (it : option fq_sitem) : option (list byte) :=
  match it with
  | Some (QRec i) => Some (fq_raw inp i ++ [LF])
  | Some (QErr _ _ _) => None
  | None => Some []
  end.

Lemma unchanged_ok_out inp o it : fq_unchanged_ok inp o it -> fq_wu_out o = expected_out inp it.
Proof.
  intros [Hm Hw]. destruct o as [o pos]. unfold fq_wu_out. cbn [fst] in *.
  destruct it as [[i|e l b]|]; cbn [expected_out].
  - destruct Hw as (rc & -> & Hw). exact Hw.
  - destruct o; cbn [fq_matches] in Hm; try contradiction. reflexivity.
  - destruct o; cbn [fq_matches] in Hm; try contradiction. reflexivity.
Qed.

Lemma Forall2_map_eq {A B C} (f : A -> C) (g : B -> C) (R : A -> B -> Prop) l1 l2 :
  (forall a b, R a b -> f a = g b) -> Forall2 R l1 l2 -> map f l1 = map g l2.
Proof. intros H. induction 1 as [|a b l1 l2 Hab _ IH]; [reflexivity|]. cbn [map]. rewrite (H _ _ Hab), IH. reflexivity. Qed.

Lemma expected_items inp w rs : forall l b,
  map (expected_out inp) (map Some (fq_items w rs l b)) = map Some (map (item_out inp) (fq_items w rs l b)).
Proof.
  induction rs as [|r rs IH]; intros l b; [reflexivity|].
  cbn [fq_items map expected_out item_out]. rewrite IH. reflexivity.
Qed.

Lemma firstn_repeat {A} n m (x : A) : firstn n (repeat x m) = repeat x (Nat.min n m).
Proof.
  revert m; induction n as [|n IH]; intros m; [reflexivity|].
  destruct m as [|m]; [reflexivity|]. cbn [repeat firstn Nat.min]. f_equal. apply IH.
Qed.

Lemma map_repeat {A B} (f : A -> B) x n : map f (repeat x n) = repeat (f x) n.
Proof. induction n as [|n IH]; [reflexivity|]. cbn [repeat map]. rewrite IH. reflexivity. Qed.

(** the specification items of a well-formed input with an optional blank tail *)
Lemma spec_render_tail crlf final rs tail :
  Forall rec_ok rs -> (final = false -> tail = []) ->
  count_lf tail <= 2 -> forallb blank (pieces tail) = true ->
  fq_spec_all (render crlf final rs ++ tail) = fq_items (rec_len crlf) rs 1 0.
Proof.
  intros Hok Ht Hc Hb. rewrite fq_spec_all_parse. destruct final.
  - rewrite render_true, parse_full_app by assumption.
    unfold fq_parse. rewrite fq_spec_blank by assumption. apply app_nil_r.
  - rewrite (Ht eq_refl), app_nil_r. apply parse_render, Hok.
Qed.

(** Part 2: successive [next] calls on a well-formed input (LF or CRLF, with or
    without final terminator, optionally a blank tail of at most 2 LFs after the
    final terminator), each returned record written unchanged: call k writes the
    k-th record's lines with their terminators, the last one always ending in LF;
    the calls after the last record write nothing *)
Theorem fq_unchanged_run_gen : forall crlf final rs tail cap0 rds ss pol fuel ffuel n,
  Forall rec_ok rs -> (final = false -> tail = []) ->
  count_lf tail <= 2 -> forallb blank (pieces tail) = true ->
  1 <= cap0 -> forallb item_ok rds = true -> PolOk1 pol ->
  length rds + 2 <= ffuel -> length (render crlf final rs ++ tail) + 2 <= fuel ->
  map fq_wu_out (fq_run fuel ffuel n (fq_new cap0 (mkSource (render crlf final rs ++ tail) 0 rds ss) pol)) =
  firstn n (map Some (fq_wu_outs crlf final rs) ++ repeat (Some []) n).
Proof.
  intros crlf final rs tail cap0 rds ss pol fuel ffuel n Hok Ht Hc Hb Hcap Hrds Hpol Hff Hfu.
  set (inp := render crlf final rs ++ tail) in *.
  pose proof (fq_unchanged_bytes_gen inp cap0 rds ss pol fuel ffuel n Hcap Hrds Hpol Hff Hfu) as H.
  rewrite (Forall2_map_eq fq_wu_out (expected_out inp) _ _ _ (unchanged_ok_out inp) H).
  rewrite <- firstn_map, map_app. f_equal.
  unfold inp at 2. rewrite (spec_render_tail crlf final rs tail Hok Ht Hc Hb).
  rewrite expected_items, map_repeat. cbn [expected_out]. f_equal. f_equal.
  exact (raw_items crlf final rs [] tail 1 Hok Ht).
Qed.

Definition opt_concat (l : list (option (list byte))) : option (list byte) :=
  fold_right (fun o acc => match o, acc with Some d, Some a => Some (d ++ a) | _, _ => None end)
             (Some []) l.

Lemma opt_concat_some l : opt_concat (map Some l) = Some (concat l).
Proof. induction l as [|d l IH]; [reflexivity|]. unfold opt_concat in *. cbn [map fold_right concat]. rewrite IH. reflexivity. Qed.

Lemma opt_concat_app a b : opt_concat (map Some a ++ b) = option_map (app (concat a)) (opt_concat b).
Proof.
  induction a as [|d a IH]; cbn [map app concat].
  - destruct (opt_concat b); reflexivity.
  - unfold opt_concat in *. cbn [fold_right]. rewrite IH.
    destruct (fold_right _ (Some []) b); cbn [option_map]; [rewrite app_assoc|]; reflexivity.
Qed.

Lemma opt_concat_empties n : opt_concat (repeat (Some []) n) = Some [].
Proof. induction n as [|n IH]; [reflexivity|]. cbn [repeat]. unfold opt_concat in *. cbn [fold_right]. rewrite IH. reflexivity. Qed.

(** ... so the concatenation of everything written by at least [length rs] calls
    is the input without its blank tail, with an LF added when the final
    terminator is missing; no call fails *)
Theorem fq_unchanged_concat_gen : forall crlf final rs tail cap0 rds ss pol fuel ffuel n,
  Forall rec_ok rs -> (final = false -> tail = []) ->
  count_lf tail <= 2 -> forallb blank (pieces tail) = true ->
  1 <= cap0 -> forallb item_ok rds = true -> PolOk1 pol ->
  length rds + 2 <= ffuel -> length (render crlf final rs ++ tail) + 2 <= fuel ->
  length rs <= n ->
  opt_concat (map fq_wu_out
    (fq_run fuel ffuel n (fq_new cap0 (mkSource (render crlf final rs ++ tail) 0 rds ss) pol))) =
  Some (fq_unchanged_text crlf final rs).
Proof.
  intros crlf final rs tail cap0 rds ss pol fuel ffuel n Hok Ht Hc Hb Hcap Hrds Hpol Hff Hfu Hn.
  rewrite (fq_unchanged_run_gen crlf final rs tail cap0 rds ss pol fuel ffuel n) by assumption.
  assert (Hl : length (fq_wu_outs crlf final rs) = length rs).
  { clear. induction rs as [|r rs IH]; [reflexivity|]. cbn [fq_wu_outs length]. rewrite IH. reflexivity. }
  rewrite firstn_app, map_length, Hl.
  rewrite firstn_all2 by (rewrite map_length; lia).
  rewrite firstn_repeat.
  rewrite opt_concat_app, opt_concat_empties. cbn [option_map].
  rewrite app_nil_r, fq_wu_outs_concat. reflexivity.
Qed.

Theorem fq_unchanged_concat : forall crlf final rs tail cap0 rds ss pol fuel ffuel n,
  Forall rec_ok rs -> (final = false -> tail = []) ->
  count_lf tail <= 2 -> forallb blank (pieces tail) = true ->
  3 <= cap0 -> forallb item_ok rds = true -> PolOk pol ->
  length rds + 2 <= ffuel -> length (render crlf final rs ++ tail) + 2 <= fuel ->
  length rs <= n ->
  opt_concat (map fq_wu_out
    (fq_run fuel ffuel n (fq_new cap0 (mkSource (render crlf final rs ++ tail) 0 rds ss) pol))) =
  Some (fq_unchanged_text crlf final rs).
Proof.
  intros. apply fq_unchanged_concat_gen; auto using PolOk_PolOk1. lia.
Qed.

(** the final terminator added is LF even for a CRLF input: the result is not
    the CRLF rendering with final terminator *)
Lemma fq_unchanged_crlf_nofinal_refuted : exists rs,
  Forall rec_ok rs /\ fq_unchanged_text true false rs <> render true true rs.
Proof.
  exists [([97], [65], [73])]. split.
  - constructor; [|constructor]. cbn [rec_ok]. unfold ends_cr.
    repeat split; try (intros [H|[]]; discriminate H);
      intros [l' H]; destruct l' as [|x [|y l']]; discriminate H.
  - vm_compute. discriminate.
Qed.

(* ------------------------------------------------------------------ *)
(** * Part 3: FASTA *)
From SeqIO Require Import Proofs.FastaScanP Proofs.FastaStream Proofs.SeqLinesP Proofs.ViewsP
  Proofs.ViewShiftP Proofs.LinesP Proofs.FastaNextP Proofs.FastaPosP.

(** [write_unchanged] writes the raw extent [d] of the record and an LF unless
    [d] already ends in one *)
Definition fa_norm_out (d : list byte) : list byte := if last d 0 =? LF then d else d ++ [LF].

(** the raw extent of the record at [s] with line ends [ends]: from '>' to the
    last line end (the LF there, if any, excluded) *)
Definition fa_data (inp : list byte) (s : nat) (ends : list nat) : list byte :=
  window inp s (last ends 0).

(** ** the write on the whole-input view *)
Lemma wu_abs inp s ends : FaRecWf (mkFaRec inp s ends) ->
  fa_write_unchanged (mkFaRec inp s ends) = Some (fa_norm_out (fa_data inp s ends)).
Proof.
  intros (p0 & ps & Hp & Hlt & Hinc & Hlast). cbn [rbuf rstart rseqpos] in *.
  unfold fa_write_unchanged, fa_data. cbn [rbuf rstart rseqpos]. subst ends.
  rewrite (last_opt_last (p0 :: ps) 0) by discriminate.
  pose proof (Incr_le_last _ Hinc p0 (or_introl eq_refl)) as Hle.
  rewrite slice_some by lia.
  change (sub inp s (last (p0 :: ps) 0)) with (window inp s (last (p0 :: ps) 0)).
  set (d := window inp s (last (p0 :: ps) 0)).
  assert (Hd : d <> []).
  { intros E. apply (f_equal (@length byte)) in E. unfold d in E.
    rewrite window_length in E by lia. cbn [length] in E. lia. }
  rewrite (last_opt_last d 0 Hd). reflexivity.
Qed.

(** ** lines joined by LF *)
Lemma join_app A more : A <> [] ->
  join (A ++ more) = join A ++ match more with [] => [] | _ :: _ => LF :: join more end.
Proof.
  induction A as [|a A IH]; intros HA; [contradiction|].
  destruct A as [|b A].
  - cbn [app]. destruct more as [|m more]; [rewrite join_single, app_nil_r; reflexivity|].
    rewrite join_cons2, join_single. reflexivity.
  - change ((a :: b :: A) ++ more) with (a :: b :: (A ++ more)).
    rewrite !join_cons2. change (b :: A ++ more) with ((b :: A) ++ more).
    rewrite IH by discriminate. rewrite <- app_assoc. reflexivity.
Qed.

Lemma unlines_join ls : ls <> [] -> unlines ls = join ls ++ [LF].
Proof.
  induction ls as [|l ls IH]; intros H; [contradiction|].
  destruct ls as [|m ls].
  - rewrite unlines_cons, unlines_nil, join_single. reflexivity.
  - rewrite unlines_cons, join_cons2, IH by discriminate. rewrite <- app_assoc. reflexivity.
Qed.

Lemma last_ends_of : forall Ls p0 o,
  last (FastaPosP.ends_of (p0 :: Ls) o) 0 = o + length (join (p0 :: Ls)).
Proof.
  induction Ls as [|l Ls IH]; intros p0 o.
  - reflexivity.
  - change (FastaPosP.ends_of (p0 :: l :: Ls) o)
      with ((o + length p0) :: FastaPosP.ends_of (l :: Ls) (o + length p0 + 1)).
    assert (E : forall x y, last (x :: FastaPosP.ends_of (l :: Ls) y) 0 = last (FastaPosP.ends_of (l :: Ls) y) 0)
      by (intros x y; reflexivity).
    rewrite E, IH, join_cons2, app_length. cbn [length]. lia.
Qed.

(** the raw extent of a record given by its lines *)
Lemma rec_data inp s t Ls more : skipn s inp = join ((GT :: t) :: Ls ++ more) ->
  fa_data inp s (FastaPosP.ends_of (t :: Ls) (S s)) = join ((GT :: t) :: Ls).
Proof.
  intros H. unfold fa_data. rewrite last_ends_of.
  replace (S s + length (join (t :: Ls))) with (s + length (join ((GT :: t) :: Ls)))
    by (rewrite join_cons_cons; cbn [length]; lia).
  eapply window_prefix. rewrite H.
  change ((GT :: t) :: Ls ++ more) with (((GT :: t) :: Ls) ++ more).
  apply join_app. discriminate.
Qed.

Lemma last_app_cons {A} (a : list A) c b d : last (a ++ c :: b) d = last (c :: b) d.
Proof.
  induction a as [|x a IH]; [reflexivity|].
  change ((x :: a) ++ c :: b) with (x :: (a ++ c :: b)).
  destruct (a ++ c :: b) eqn:E; [destruct a; discriminate|]. exact IH.
Qed.

Lemma no_lf_last a : no_lf a -> a <> [] -> (last a 0 =? LF) = false.
Proof.
  induction a as [|c a IH]; intros H Hne; [contradiction|].
  apply lacks_cons in H. destruct H as [Hc Ha].
  destruct a as [|d a]; [cbn [last]; apply Nat.eqb_neq, Hc|].
  change (last (c :: d :: a) 0) with (last (d :: a) 0). apply IH; [exact Ha | discriminate].
Qed.

(** a text ends in LF exactly when its last line is empty *)
Lemma join_ends_lf : forall A, Forall no_lf A -> join A <> [] ->
  if last (join A) 0 =? LF then exists A', A = A' ++ [[]] /\ A' <> [] else lns A = A.
Proof.
  induction A as [|a A IH]; intros Hn Hj; [contradiction|].
  inversion Hn as [|? ? Ha HA]; subst.
  destruct A as [|b A].
  - rewrite join_single in *. rewrite (no_lf_last a Ha Hj). destruct a; [contradiction | reflexivity].
  - rewrite join_cons2, last_app_cons.
    destruct (join (b :: A)) as [|c j] eqn:J.
    + apply join_nil_inv in J. destruct J as [-> ->]. cbn [last]. rewrite Nat.eqb_refl.
      exists [a]. split; [reflexivity | discriminate].
    + change (last (LF :: c :: j) 0) with (last (c :: j) 0).
      specialize (IH HA ltac:(discriminate)).
      destruct (last (c :: j) 0 =? LF).
      * destruct IH as (A' & E & HA'). exists (a :: A'). rewrite E. split; [reflexivity | discriminate].
      * rewrite lns_cons2, IH. reflexivity.
Qed.

Lemma lns_snoc_empty A : lns (A ++ [[]]) = A.
Proof. rewrite lns_app by discriminate. cbn [lns]. apply app_nil_r. Qed.

(** what is written for a record given by its lines: its lines, each followed by
    LF, an empty last line dropped *)
Lemma out_join A : Forall no_lf A -> join A <> [] -> fa_norm_out (join A) = unlines (lns A).
Proof.
  intros Hn Hj. pose proof (join_ends_lf A Hn Hj) as H. unfold fa_norm_out.
  destruct (last (join A) 0 =? LF).
  - destruct H as (A' & -> & HA'). rewrite lns_snoc_empty, join_app by exact HA'.
    rewrite join_single. symmetry. apply unlines_join, HA'.
  - rewrite H. symmetry. apply unlines_join. intros ->. apply Hj. reflexivity.
Qed.

(** ** the normalisation of a FASTA text, on its lines: an empty line (not even
    a CR) directly before a header line or at the end is dropped *)
Fixpoint fa_norm_lines (ls : list (list byte)) : list (list byte) :=
  match ls with
  | [] => []
  | l :: r =>
      match l with
      | [] => match r with
              | [] => []
              | h :: _ => if is_header h then fa_norm_lines r else l :: fa_norm_lines r
              end
      | _ :: _ => l :: fa_norm_lines r
      end
  end.

Lemma norm_nonheader Ls : Forall nonheader Ls -> fa_norm_lines Ls = lns Ls.
Proof.
  induction 1 as [|l r Hl Hr IH]; [reflexivity|].
  destruct l as [|c l].
  - destruct r as [|h r]; [reflexivity|].
    inversion Hr as [|? ? Hh _]; subst. unfold nonheader in Hh.
    cbn [fa_norm_lines] in *. rewrite Hh, IH. rewrite lns_cons2. reflexivity.
  - cbn [fa_norm_lines]. rewrite IH, lns_cons_ne. reflexivity.
Qed.

Lemma norm_before_header Ls h X : Forall nonheader Ls -> is_header h = true ->
  fa_norm_lines (Ls ++ h :: X) = lns Ls ++ fa_norm_lines (h :: X).
Proof.
  intros HLs Hh. induction HLs as [|l r Hl Hr IH]; [reflexivity|].
  destruct l as [|c l].
  - destruct r as [|l2 r].
    + cbn [app]. change (fa_norm_lines ([] :: h :: X))
        with (if is_header h then fa_norm_lines (h :: X) else [] :: fa_norm_lines (h :: X)).
      rewrite Hh. reflexivity.
    + inversion Hr as [|? ? Hl2 _]; subst. unfold nonheader in Hl2.
      change (([] :: l2 :: r) ++ h :: X) with ([] :: l2 :: (r ++ h :: X)).
      change (fa_norm_lines ([] :: l2 :: r ++ h :: X))
        with (if is_header l2 then fa_norm_lines (l2 :: r ++ h :: X)
              else [] :: fa_norm_lines (l2 :: r ++ h :: X)).
      rewrite Hl2. change (l2 :: r ++ h :: X) with ((l2 :: r) ++ h :: X). rewrite IH.
      rewrite lns_cons2. reflexivity.
  - change (((c :: l) :: r) ++ h :: X) with ((c :: l) :: (r ++ h :: X)).
    change (fa_norm_lines ((c :: l) :: r ++ h :: X)) with ((c :: l) :: fa_norm_lines (r ++ h :: X)).
    rewrite IH, lns_cons_ne. reflexivity.
Qed.

Lemma norm_header_cons t Ls : fa_norm_lines ((GT :: t) :: Ls) = (GT :: t) :: fa_norm_lines Ls.
Proof. reflexivity. Qed.

(** ** what the stream items are, in terms of lines *)

(** the record at [s] consists of the header line [GT :: t] and the non-header
    lines [Ls]; [more] are the lines after it *)
Definition RecShape (inp : list byte) (it : nat * nat * list nat) : Prop :=
  let '(s, line, ends) := it in
  exists t Ls more, skipn s inp = join ((GT :: t) :: Ls ++ more) /\
    Forall no_lf ((GT :: t) :: Ls) /\ Forall nonheader Ls /\
    ends = FastaPosP.ends_of (t :: Ls) (S s) /\ s < length inp.

Definition item_out_fa (inp : list byte) (it : nat * nat * list nat) : list byte :=
  let '(s, line, ends) := it in fa_norm_out (fa_data inp s ends).

Lemma join_header_nonnil t Ls : join ((GT :: t) :: Ls) <> [].
Proof. rewrite join_cons_cons. discriminate. Qed.

Lemma lns_prefix_forall (P : list byte -> Prop) r : Forall P r -> Forall P (lns r).
Proof.
  intros H. destruct (lns_more r) as [m Hm]. rewrite Hm in H. apply Forall_app in H. tauto.
Qed.

Lemma stream_shape inp s line items : FaStream inp s line items ->
  forall t r, skipn s inp = join ((GT :: t) :: r) -> Forall no_lf ((GT :: t) :: r) ->
  Forall (RecShape inp) items /\
  concat (map (item_out_fa inp) items) = unlines (fa_norm_lines (lns ((GT :: t) :: r))).
Proof.
  induction 1 as [s line p a Hscan | s line p a rest Hscan Hrest IH]; intros t r Hsk0 Hnl.
  - (* last record *)
    pose proof Hsk0 as Hsk. rewrite join_cons_cons in Hsk.
    pose proof (skipn_cons_lt _ _ _ _ Hsk) as Hlt.
    apply skipn_S_of_cons in Hsk.
    inversion Hnl as [|? ? Ht0 Hr]; subst. pose proof Ht0 as Ht.
    apply lacks_cons in Ht. destruct Ht as [_ Ht].
    unfold scan_abs in Hscan. rewrite Hsk in Hscan.
    apply scan_join_spec in Hscan; [|exact Ht|exact Hr].
    destruct Hscan as [HLs HE]. cbn [app] in HE.
    destruct (lns_more r) as [more Hmore].
    assert (Hsk1 : skipn s inp = join ((GT :: t) :: lns r ++ more)) by (rewrite <- Hmore; exact Hsk0).
    assert (Hn1 : Forall no_lf ((GT :: t) :: lns r))
      by (constructor; [exact Ht0 | apply lns_prefix_forall, Hr]).
    split.
    + constructor; [|constructor]. cbn [RecShape].
      exists t, (lns r), more. splits; auto.
    + cbn [map concat item_out_fa]. rewrite app_nil_r, HE.
      rewrite (rec_data inp s t (lns r) more Hsk1).
      rewrite out_join by (auto using join_header_nonnil).
      rewrite (lns_cons_ne GT t r), norm_header_cons, (norm_nonheader _ HLs).
      rewrite (lns_cons_ne GT t (lns r)). reflexivity.
  - (* a record followed by another one *)
    pose proof Hsk0 as Hsk. rewrite join_cons_cons in Hsk.
    pose proof (skipn_cons_lt _ _ _ _ Hsk) as Hlt.
    apply skipn_S_of_cons in Hsk.
    inversion Hnl as [|? ? Ht0 Hr]; subst. pose proof Ht0 as Ht.
    apply lacks_cons in Ht. destruct Ht as [_ Ht].
    unfold scan_abs in Hscan. rewrite Hsk in Hscan.
    apply scan_join_spec in Hscan; [|exact Ht|exact Hr].
    destruct Hscan as (Ls & h & rest' & -> & HLs & Ha & Hp). cbn [app] in Ha.
    destruct (sub_lines inp Ls t (S s) ((GT :: h) :: rest') Hsk Hlt) as (_ & _ & _ & Hnext).
    destruct (Hnext ltac:(discriminate)) as [Hsk' _].
    apply Forall_app in Hr. destruct Hr as [HrL Hr'].
    specialize (IH h rest'). rewrite Hp in IH. specialize (IH Hsk' Hr').
    destruct IH as [IH1 IH2].
    assert (Hn1 : Forall no_lf ((GT :: t) :: Ls)) by (constructor; assumption).
    split.
    + constructor; [|exact IH1]. cbn [RecShape].
      exists t, Ls, ((GT :: h) :: rest'). splits; auto.
    + cbn [map concat item_out_fa]. rewrite IH2, Ha.
      rewrite (rec_data inp s t Ls ((GT :: h) :: rest') Hsk0).
      rewrite out_join by (auto using join_header_nonnil).
      rewrite (lns_cons_ne GT t (Ls ++ (GT :: h) :: rest')), lns_app by discriminate.
      rewrite norm_header_cons.
      rewrite (lns_cons_ne GT h rest').
      rewrite (norm_before_header Ls (GT :: h) (lns rest') HLs) by (cbn [is_header]; apply Nat.eqb_refl).
      rewrite (lns_cons_ne GT t Ls).
      change ((GT :: t) :: lns Ls ++ fa_norm_lines ((GT :: h) :: lns rest'))
        with (((GT :: t) :: lns Ls) ++ fa_norm_lines ((GT :: h) :: lns rest')).
      rewrite unlines_app. reflexivity.
Qed.

(** ** re-parse of what is written for one record *)
Lemma reparse_record t Ls : Forall no_lf ((GT :: t) :: Ls) -> Forall nonheader Ls ->
  fa_spec (unlines ((GT :: t) :: lns Ls)) =
  [SRec (mkFaItem (trim_cr t) (map trim_cr (lns Ls)) 1 0)].
Proof.
  intros Hn HLs. inversion Hn as [|? ? Ht HnL]; subst.
  rewrite fa_spec_by_lines, lines_of_unlines
    by (constructor; [exact Ht | apply lns_prefix_forall, HnL]).
  unfold fa_spec_lines. cbn [numbered].
  rewrite fa_body_header by first [apply blank_header | cbn [is_header]; apply Nat.eqb_refl].
  cbn [fa_group is_header]. rewrite Nat.eqb_refl. cbn [app tl].
  rewrite <- (app_nil_r (lns Ls)) at 1. rewrite group_lines by (apply lns_prefix_forall, HLs).
  cbn [numbered app]. rewrite group_end. reflexivity.
Qed.

(** what holds of the record of a stream item: its header [h] and lines [ls];
    what is written for it re-parses to one record with the same header and the
    same lines, except that an empty last line is dropped — exactly when the
    raw extent already ends in LF *)
Definition RecFacts (inp : list byte) (s : nat) (ends : list nat) : Prop :=
  FaRecWf (mkFaRec inp s ends) /\
  exists h ls, fa_head (mkFaRec inp s ends) = Some h /\ fa_lines (mkFaRec inp s ends) = Some ls /\
    fa_spec (fa_norm_out (fa_data inp s ends)) =
      [SRec (mkFaItem h (if last (fa_data inp s ends) 0 =? LF then removelast ls else ls) 1 0)] /\
    ((last (fa_data inp s ends) 0 =? LF) = true -> exists ls', ls = ls' ++ [[]]).

Lemma shape_facts inp s line ends : RecShape inp (s, line, ends) -> RecFacts inp s ends.
Proof.
  intros (t & Ls & more & Hsk & Hn & HLs & -> & Hlt).
  assert (Hsk' : skipn (S s) inp = join (t :: Ls ++ more)).
  { rewrite join_cons_cons in Hsk. exact (skipn_S_of_cons _ _ _ _ Hsk). }
  destruct (rec_views inp s t Ls more Hsk' Hlt) as (Hwf & Hh & Hl).
  split; [exact Hwf|]. exists (trim_cr t), (map trim_cr Ls).
  split; [exact Hh|]. split; [exact Hl|].
  rewrite (rec_data inp s t Ls more Hsk).
  rewrite out_join by (auto using join_header_nonnil). rewrite (lns_cons_ne GT t Ls).
  rewrite (reparse_record t Ls Hn HLs).
  pose proof (join_ends_lf _ Hn (join_header_nonnil t Ls)) as HE.
  destruct (last (join ((GT :: t) :: Ls)) 0 =? LF).
  - destruct HE as (A' & E & HA'). destruct A' as [|a A']; [contradiction|].
    cbn [app] in E. inversion E as [[E1 E2]]. clear E.
    rewrite lns_snoc_empty, map_app. cbn [map trim_cr]. rewrite removelast_last.
    split; [reflexivity|]. intros _. exists (map trim_cr A'). reflexivity.
  - rewrite (lns_cons_ne GT t Ls) in HE. inversion HE as [HE']. rewrite HE'.
    split; [rewrite HE'; reflexivity | discriminate].
Qed.

Definition ItemFacts (inp : list byte) (it : fa_oitem) : Prop :=
  match it with OiRec s line ends => RecFacts inp s ends | OiInvalidStart _ _ => True end.

Definition oi_of (it : nat * nat * list nat) : fa_oitem := let '(s, line, ends) := it in OiRec s line ends.

Lemma ospec_facts inp items : FaOSpec inp items -> Forall (ItemFacts inp) items.
Proof.
  intros H. inversion H as [Ho | ln b Ho | pos ln its Ho Hst]; subst.
  - constructor.
  - constructor; [exact I | constructor].
  - destruct (fa_ostart_recs_at inp pos ln Ho) as (t & r & Hsk & Hnl & _).
    destruct (stream_shape inp pos ln its Hst t r Hsk Hnl) as [Hsh _].
    apply Forall_map. eapply Forall_impl; [|exact Hsh].
    intros [[s line] ends] Hs. cbn [ItemFacts]. eapply shape_facts; exact Hs.
Qed.

(** outcome of a call against the expected item: everything [fa_omatches] says
    (the record is the window at [s] with line ends [ends], position), and:
    what [write_unchanged] writes, and how that re-parses *)
Definition fa_unch_ok (inp : list byte) (o : fa_out * option (nat * nat)) (it : option fa_oitem) : Prop :=
  fa_omatches inp o it /\
  match it with
  | Some (OiRec s line ends) =>
      exists rc h ls, fst o = ORec rc /\ fa_head rc = Some h /\ fa_lines rc = Some ls /\
        fa_write_unchanged rc = Some (fa_norm_out (fa_data inp s ends)) /\
        fa_spec (fa_norm_out (fa_data inp s ends)) =
          [SRec (mkFaItem h (if last (fa_data inp s ends) 0 =? LF then removelast ls else ls) 1 0)] /\
        ((last (fa_data inp s ends) 0 =? LF) = true -> exists ls', ls = ls' ++ [[]])
  | _ => True
  end.

Lemma Forall2_and_r {A B} (R : A -> B -> Prop) (Q : B -> Prop) l1 l2 :
  Forall2 R l1 l2 -> Forall Q l2 -> Forall2 (fun a b => R a b /\ Q b) l1 l2.
Proof.
  induction 1 as [|a b l1 l2 Hab _ IH]; intros HQ; [constructor|].
  inversion HQ; subst. constructor; auto.
Qed.

Lemma Forall_firstn' {A} (P : A -> Prop) n l : Forall P l -> Forall P (firstn n l).
Proof.
  intros H. rewrite <- (firstn_skipn n l) in H. apply Forall_app in H. tauto.
Qed.

Definition opt_facts (inp : list byte) (it : option fa_oitem) : Prop :=
  match it with Some x => ItemFacts inp x | None => True end.

Lemma opt_facts_stream inp items n m : Forall (ItemFacts inp) items ->
  Forall (opt_facts inp) (firstn n (map Some items ++ repeat None m)).
Proof.
  intros H. apply Forall_firstn', Forall_app. split.
  - apply Forall_map. exact H.
  - clear. induction m as [|m IH]; cbn [repeat]; constructor; [exact I | exact IH].
Qed.

Lemma unch_ok_of inp o it : fa_omatches inp o it /\ opt_facts inp it -> fa_unch_ok inp o it.
Proof.
  intros [Hm Hf]. split; [exact Hm|].
  destruct it as [[s line ends|l f]|]; try exact I.
  destruct o as [o pos]. destruct o as [|rc| | | | |]; cbn [fa_omatches] in Hm; try contradiction.
  destruct Hm as [Hat _]. cbn [opt_facts ItemFacts] in Hf.
  destruct Hf as (Hwf & h & ls & Hh & Hl & Hre & Hdrop).
  destruct (fa_view_shift_same inp rc s ends Hat Hwf) as (_ & E1 & _ & E3 & _ & _ & _ & _ & E8 & _).
  exists rc, h, ls. cbn [fst]. split; [reflexivity|].
  split; [rewrite E1; exact Hh|]. split; [rewrite E3; exact Hl|].
  split; [rewrite E8; apply wu_abs, Hwf|]. split; [exact Hre | exact Hdrop].
Qed.

(** Part 3, one record: every record returned by successive [next] calls is
    written unchanged as its raw extent, plus an LF unless it ends in one; the
    bytes written re-parse to a single record with the same header and lines
    (an empty last line dropped) *)
Theorem fa_unchanged_bytes inp cap0 rs ss pol fuel ffuel n items :
  3 <= cap0 -> forallb item_ok rs = true -> PolOk pol ->
  length rs + 2 <= ffuel -> length inp + 2 <= fuel ->
  FaOSpec inp items ->
  Forall2 (fa_unch_ok inp)
          (fa_run fuel ffuel n (fa_new cap0 (mkSource inp 0 rs ss) pol))
          (firstn n (map Some items ++ repeat None n)).
Proof.
  intros Hcap Hrs Hpol Hff Hfuel Hspec.
  pose proof (fa_next_refines_ospec inp cap0 rs ss pol fuel ffuel n items Hcap Hrs Hpol Hff Hfuel Hspec) as H.
  eapply Forall2_impl; [apply unch_ok_of|].
  apply Forall2_and_r; [exact H|]. apply opt_facts_stream, ospec_facts, Hspec.
Qed.

(* ------------------------------------------------------------------ *)
(** ** a whole FASTA input *)

Definition fa_wu_out (o : fa_out * option (nat * nat)) : option (list byte) :=
  match fst o with
  | ORec rc => fa_write_unchanged rc
  | ONone => Some []
  | _ => None
  end.

Definition expected_fa (inp : list byte) (it : option fa_oitem) : option (list byte) :=
  match it with
  | Some (OiRec s line ends) => Some (fa_norm_out (fa_data inp s ends))
  | Some (OiInvalidStart _ _) => None
  | None => Some []
  end.

Lemma unch_ok_out inp o it : fa_unch_ok inp o it -> fa_wu_out o = expected_fa inp it.
Proof.
  intros [Hm Hw]. destruct o as [o pos]. unfold fa_wu_out. cbn [fst] in *.
  destruct it as [[s line ends|l f]|]; cbn [expected_fa].
  - destruct Hw as (rc & h & ls & -> & _ & _ & Hw & _). exact Hw.
  - destruct o as [| | | |e| |]; cbn [fa_omatches] in Hm; try contradiction. reflexivity.
  - destruct o; cbn [fa_omatches] in Hm; try contradiction. reflexivity.
Qed.

Lemma expected_fa_items inp its :
  map (expected_fa inp) (map Some (map oi_of its)) = map Some (map (item_out_fa inp) its).
Proof.
  induction its as [|[[s line] ends] its IH]; [reflexivity|].
  cbn [map oi_of expected_fa item_out_fa]. rewrite IH. reflexivity.
Qed.

Lemma pieces_join ps : ps <> [] -> Forall no_lf ps -> pieces (join ps) = ps.
Proof.
  induction ps as [|p r IH]; intros Hne Hn; [contradiction|].
  inversion Hn as [|? ? Hp Hr]; subst.
  destruct r as [|q r].
  - rewrite join_single. apply pieces_no_lf, Hp.
  - rewrite join_cons2, pieces_app_lf by exact Hp. rewrite IH by (discriminate || exact Hr). reflexivity.
Qed.

Lemma Forall2_len {A B} (R : A -> B -> Prop) l1 l2 : Forall2 R l1 l2 -> length l1 = length l2.
Proof. induction 1; cbn [length]; congruence. Qed.

Lemma stream_length inp pos ln its : fa_ostart_of inp = OsRecs pos ln -> FaStream inp pos ln its ->
  length its = length (fa_spec inp).
Proof.
  intros Ho Hs. destruct (fa_ostart_recs_rel inp pos ln its Ho Hs) as (xs & -> & HF).
  rewrite map_length. eapply Forall2_len; exact HF.
Qed.

(** Part 3, whole input: for an input whose first non-blank line starts with '>'
    at offset [pos], the concatenation of everything written by at least as many
    calls as there are records is the text from [pos] on, cut into lines, an empty
    line directly before a header line or at the end dropped, every line
    terminated by LF (the lines keep their CR); no call fails *)
Theorem fa_unchanged_concat inp pos ln cap0 rs ss pol fuel ffuel n :
  fa_ostart_of inp = OsRecs pos ln ->
  3 <= cap0 -> forallb item_ok rs = true -> PolOk pol ->
  length rs + 2 <= ffuel -> length inp + 2 <= fuel ->
  length (fa_spec inp) <= n ->
  opt_concat (map fa_wu_out (fa_run fuel ffuel n (fa_new cap0 (mkSource inp 0 rs ss) pol))) =
  Some (unlines (fa_norm_lines (FastaSpec.lines_of (skipn pos inp)))).
Proof.
  intros Ho Hcap Hrs Hpol Hff Hfuel Hn.
  destruct (fa_stream_total inp pos ln) as [its Hst].
  pose proof (FO_recs inp pos ln its Ho Hst) as Hspec.
  pose proof (fa_unchanged_bytes inp cap0 rs ss pol fuel ffuel n _ Hcap Hrs Hpol Hff Hfuel Hspec) as H.
  rewrite (Forall2_map_eq fa_wu_out (expected_fa inp) _ _ _ (unch_ok_out inp) H).
  rewrite <- firstn_map, map_app.
  change (map (fun it => let '(s, line, ends) := it in OiRec s line ends) its) with (map oi_of its).
  rewrite expected_fa_items, map_repeat. cbn [expected_fa].
  rewrite <- (stream_length inp pos ln its Ho Hst) in Hn.
  rewrite firstn_app, !map_length.
  rewrite firstn_all2 by (rewrite !map_length; lia).
  rewrite firstn_repeat, opt_concat_app, opt_concat_empties. cbn [option_map].
  rewrite app_nil_r. f_equal.
  destruct (fa_ostart_recs_at inp pos ln Ho) as (t & r & Hsk & Hnl & _).
  destruct (stream_shape inp pos ln its Hst t r Hsk Hnl) as [_ ->].
  rewrite slines_lns, Hsk, pieces_join by (discriminate || exact Hnl). reflexivity.
Qed.

(** ** inputs that start with '>' *)
Lemma ostart_gt x : fa_ostart_of (GT :: x) = OsRecs 0 1.
Proof.
  unfold fa_ostart_of. cbn [pieces]. change (GT =? LF) with false. cbv iota.
  destruct (pieces x) as [|p ps]; cbn [fb_scan]; change (GT =? CR) with false;
    cbn [andb]; change (GT =? GT) with true; reflexivity.
Qed.

Theorem fa_unchanged_concat_gt x cap0 rs ss pol fuel ffuel n :
  3 <= cap0 -> forallb item_ok rs = true -> PolOk pol ->
  length rs + 2 <= ffuel -> length (GT :: x) + 2 <= fuel ->
  length (fa_spec (GT :: x)) <= n ->
  opt_concat (map fa_wu_out (fa_run fuel ffuel n (fa_new cap0 (mkSource (GT :: x) 0 rs ss) pol))) =
  Some (unlines (fa_norm_lines (FastaSpec.lines_of (GT :: x)))).
Proof.
  intros Hcap Hrs Hpol Hff Hfuel Hn.
  exact (fa_unchanged_concat (GT :: x) 0 1 cap0 rs ss pol fuel ffuel n (ostart_gt x)
           Hcap Hrs Hpol Hff Hfuel Hn).
Qed.

(** ** well-formed files: no empty line *)
Lemma norm_nonempty L : Forall (fun l : list byte => l <> []) L -> fa_norm_lines L = L.
Proof.
  induction 1 as [|l r Hl Hr IH]; [reflexivity|].
  destruct l as [|c l]; [contradiction|]. cbn [fa_norm_lines]. rewrite IH. reflexivity.
Qed.

Lemma addcr_nonempty b l : l <> [] -> addcr b l <> [].
Proof. destruct b; cbn [addcr]; [|trivial]. destruct l; [contradiction | discriminate]. Qed.

Lemma decorate_nonempty ls : Forall (fun l : list byte => l <> []) ls ->
  forall ch, Forall (fun l : list byte => l <> []) (decorate ls ch).
Proof.
  induction 1 as [|l r Hl Hr IH]; intros ch; cbn [decorate]; constructor.
  - apply addcr_nonempty, Hl.
  - apply IH.
Qed.

(** the lines of a rendering without empty lines, and the rendering itself *)
Lemma render_lines ls ch final :
  Forall (lacks LF) ls -> Forall (fun l : list byte => l <> []) ls ->
  exists L, FastaSpec.lines_of (LinesP.render ls ch final) = L /\
            Forall (fun l : list byte => l <> []) L /\
            unlines L = LinesP.render ls ch final ++ (if final then [] else match ls with [] => [] | _ => [LF] end).
Proof.
  intros Hlf Hne. destruct final.
  - exists (decorate ls ch). rewrite LinesP.render_true.
    rewrite lines_of_unlines by (apply decorate_no_lf, Hlf).
    split; [reflexivity|]. split; [apply decorate_nonempty, Hne | symmetry; apply app_nil_r].
  - destruct ls as [|l0 r0] eqn:E.
    { exists []. cbn [LinesP.render]. rewrite lines_of_nil. repeat split; constructor. }
    rewrite <- E in *. assert (Hnn : ls <> []) by (rewrite E; discriminate).
    rewrite (app_removelast_last [] Hnn) in Hlf, Hne |- *.
    set (init := removelast ls) in *. set (x := last ls []) in *.
    apply Forall_app in Hlf. destruct Hlf as [Hlf Hx]. inversion Hx as [|? ? Hx1 _]; subst.
    apply Forall_app in Hne. destruct Hne as [Hne Hx']. inversion Hx' as [|? ? Hx2 _]; subst.
    exists (decorate init ch ++ [x]).
    rewrite render_snoc_false, LinesP.render_true.
    rewrite lines_of_unlines_app; [|apply decorate_no_lf, Hlf|exact Hx1|exact Hx2].
    split; [reflexivity|]. split.
    + apply Forall_app. split; [apply decorate_nonempty, Hne | constructor; [exact Hx2 | constructor]].
    + rewrite unlines_app, unlines_cons, unlines_nil.
      destruct (init ++ [x]) eqn:E2; [destruct init; discriminate|].
      rewrite <- app_assoc. reflexivity.
Qed.

(** Part 3, well-formed file: a header line first, no LF inside a line, no empty
    line; any per-line mixture of LF and CRLF terminators, final terminator present
    or absent: the concatenation of everything written is the input itself, with
    an LF added when the final terminator is missing *)
Theorem fa_unchanged_wellformed h rest ch final cap0 rs ss pol fuel ffuel n :
  let ls := (GT :: h) :: rest in
  let inp := LinesP.render ls ch final in
  Forall (lacks LF) ls -> Forall (fun l : list byte => l <> []) ls ->
  3 <= cap0 -> forallb item_ok rs = true -> PolOk pol ->
  length rs + 2 <= ffuel -> length inp + 2 <= fuel ->
  length (fa_spec inp) <= n ->
  opt_concat (map fa_wu_out (fa_run fuel ffuel n (fa_new cap0 (mkSource inp 0 rs ss) pol))) =
  Some (inp ++ (if final then [] else [LF])).
Proof.
  intros ls inp Hlf Hne Hcap Hrs Hpol Hff Hfuel Hn.
  assert (Hgt : exists x, inp = GT :: x).
  { unfold inp, ls. cbn [LinesP.render app]. eexists. reflexivity. }
  destruct Hgt as [x Hx].
  destruct (render_lines ls ch final Hlf Hne) as (L & HL & HLne & HU). fold inp in HL, HU.
  revert Hfuel Hn. rewrite Hx. intros Hfuel Hn.
  rewrite (fa_unchanged_concat_gt x cap0 rs ss pol fuel ffuel n Hcap Hrs Hpol Hff Hfuel Hn).
  rewrite <- Hx, HL, (norm_nonempty L HLne), HU. unfold ls. reflexivity.
Qed.

(* ------------------------------------------------------------------ *)
(** * Statements packaged for Props/C11u.v *)

Lemma fq_extent inp a h s p q :
  ~ In LF h -> ~ In LF s -> ~ In LF p -> ~ In LF q ->
  (forall rest, skipn a inp = h ++ LF :: s ++ LF :: p ++ LF :: q ++ LF :: rest ->
     window inp a (fq_rec_end inp a) = h ++ LF :: s ++ LF :: p ++ LF :: q /\
     fq_rec_end inp a < length inp) /\
  (skipn a inp = h ++ LF :: s ++ LF :: p ++ LF :: q ->
     window inp a (fq_rec_end inp a) = h ++ LF :: s ++ LF :: p ++ LF :: q /\
     fq_rec_end inp a = length inp).
Proof.
  intros Hh Hs Hp Hq. split.
  - intros rest H. exact (fq_raw_four inp a h s p q rest H Hh Hs Hp Hq).
  - intros H. exact (fq_raw_four_last inp a h s p q H Hh Hs Hp Hq).
Qed.

Lemma fq_unchanged_text_facts crlf final rs :
  fq_unchanged_text crlf true rs = FqSpecP.render crlf true rs /\
  fq_unchanged_text false final rs = FqSpecP.render false true rs /\
  (rs <> [] -> fq_unchanged_text crlf false rs = FqSpecP.render crlf false rs ++ [LF]) /\
  concat (fq_wu_outs crlf final rs) = fq_unchanged_text crlf final rs.
Proof.
  split; [apply fq_unchanged_text_final|].
  split; [apply fq_unchanged_text_lf|]. split; [|apply fq_wu_outs_concat].
  destruct rs; [congruence | reflexivity].
Qed.

Definition nonempty_line (l : list byte) : bool := match l with [] => false | _ :: _ => true end.

Lemma same_record_lines (ls ls' : list (list byte)) :
  (ls' = ls \/ ls = ls' ++ [[]]) ->
  concat ls' = concat ls /\ filter nonempty_line ls' = filter nonempty_line ls.
Proof.
  intros [->| ->]; [split; reflexivity|].
  rewrite concat_app, filter_app. cbn [concat filter nonempty_line app]. rewrite !app_nil_r.
  split; reflexivity.
Qed.

Lemma fa_norm_lines_cases (c : byte) (r : list (list byte)) (t x : list byte) :
  fa_norm_lines [] = [] /\
  fa_norm_lines [[]] = [] /\
  fa_norm_lines ((c :: t) :: r) = (c :: t) :: fa_norm_lines r /\
  fa_norm_lines ([] :: (GT :: x) :: r) = fa_norm_lines ((GT :: x) :: r) /\
  (is_header x = false -> fa_norm_lines ([] :: x :: r) = [] :: fa_norm_lines (x :: r)).
Proof.
  repeat split.
  intros H. change (fa_norm_lines ([] :: x :: r))
    with (if is_header x then fa_norm_lines (x :: r) else [] :: fa_norm_lines (x :: r)).
  rewrite H. reflexivity.
Qed.
