(** UTF-8 validity splits at an ASCII separator; consequences for the text
    accessors id() / desc() / id_desc() (property C13). *)
From SeqIO Require Import Model.Base Model.Fasta Model.Fastq Model.Views Proofs.ViewsP.

(** one unfolding step of the validator *)
Lemma utf8_valid_cons (b0 : byte) (r : list byte) : utf8_valid (b0 :: r) =
  if b0 <=? 127 then utf8_valid r
  else if in_range b0 194 223 then
    match r with b1 :: r' => cont b1 && utf8_valid r' | _ => false end
  else if b0 =? 224 then
    match r with b1 :: b2 :: r' => in_range b1 160 191 && cont b2 && utf8_valid r' | _ => false end
  else if in_range b0 225 236 || in_range b0 238 239 then
    match r with b1 :: b2 :: r' => cont b1 && cont b2 && utf8_valid r' | _ => false end
  else if b0 =? 237 then
    match r with b1 :: b2 :: r' => in_range b1 128 159 && cont b2 && utf8_valid r' | _ => false end
  else if b0 =? 240 then
    match r with b1 :: b2 :: b3 :: r' => in_range b1 144 191 && cont b2 && cont b3 && utf8_valid r' | _ => false end
  else if in_range b0 241 243 then
    match r with b1 :: b2 :: b3 :: r' => cont b1 && cont b2 && cont b3 && utf8_valid r' | _ => false end
  else if b0 =? 244 then
    match r with b1 :: b2 :: b3 :: r' => in_range b1 128 143 && cont b2 && cont b3 && utf8_valid r' | _ => false end
  else false.
Proof. reflexivity. Qed.

(** an ASCII byte is in no continuation range *)
Lemma low_not_in_range s lo hi : s <= 127 -> 128 <= lo -> in_range s lo hi = false.
Proof.
  intros Hs Hlo. unfold in_range. apply andb_false_intro1. apply Nat.leb_gt. lia.
Qed.

Lemma low_not_cont s : s <= 127 -> cont s = false.
Proof. intros Hs. unfold cont. apply low_not_in_range; [exact Hs | lia]. Qed.

(** the three shapes of multi-byte sequences: if the separator cuts into the
    sequence both sides are invalid, otherwise the induction hypothesis applies *)
Lemma shape1 (s : byte) (b : list byte) n (P1 : nat -> bool) (r : list byte) :
  (forall a : list byte, length a <= n -> utf8_valid (a ++ s :: b) = utf8_valid a && utf8_valid b) ->
  P1 s = false -> length r <= S n ->
  match r ++ s :: b with b1 :: r' => P1 b1 && utf8_valid r' | _ => false end =
  (match r with b1 :: r' => P1 b1 && utf8_valid r' | _ => false end) && utf8_valid b.
Proof.
  intros IH H1 Hl. destruct r as [|b1 r']; cbn [app].
  - rewrite H1. reflexivity.
  - cbn [length] in Hl. rewrite (IH r') by lia. apply andb_assoc.
Qed.

Lemma shape2 (s : byte) (b : list byte) n (P1 P2 : nat -> bool) (r : list byte) :
  (forall a : list byte, length a <= n -> utf8_valid (a ++ s :: b) = utf8_valid a && utf8_valid b) ->
  P1 s = false -> P2 s = false -> length r <= S n ->
  match r ++ s :: b with b1 :: b2 :: r' => P1 b1 && P2 b2 && utf8_valid r' | _ => false end =
  (match r with b1 :: b2 :: r' => P1 b1 && P2 b2 && utf8_valid r' | _ => false end) && utf8_valid b.
Proof.
  intros IH H1 H2 Hl. destruct r as [|b1 [|b2 r']]; cbn [app].
  - clear IH. rewrite H1. destruct b; reflexivity.
  - rewrite H2, andb_false_r. reflexivity.
  - cbn [length] in Hl. rewrite (IH r') by lia. apply andb_assoc.
Qed.

Lemma shape3 (s : byte) (b : list byte) n (P1 P2 P3 : nat -> bool) (r : list byte) :
  (forall a : list byte, length a <= n -> utf8_valid (a ++ s :: b) = utf8_valid a && utf8_valid b) ->
  P1 s = false -> P2 s = false -> P3 s = false -> length r <= S n ->
  match r ++ s :: b with
  | b1 :: b2 :: b3 :: r' => P1 b1 && P2 b2 && P3 b3 && utf8_valid r' | _ => false end =
  (match r with
   | b1 :: b2 :: b3 :: r' => P1 b1 && P2 b2 && P3 b3 && utf8_valid r' | _ => false end)
  && utf8_valid b.
Proof.
  intros IH H1 H2 H3 Hl. destruct r as [|b1 [|b2 [|b3 r']]]; cbn [app].
  - clear IH. rewrite H1. destruct b as [|x [|y b]]; reflexivity.
  - clear IH. rewrite H2, andb_false_r. destruct b; reflexivity.
  - rewrite H3, andb_false_r. reflexivity.
  - cbn [length] in Hl. rewrite (IH r') by lia. apply andb_assoc.
Qed.

Lemma utf8_split_len (s : byte) (b : list byte) : s <= 127 ->
  forall n (a : list byte), length a <= n -> utf8_valid (a ++ s :: b) = utf8_valid a && utf8_valid b.
Proof.
  intros Hs.
  assert (Hnil : utf8_valid ([] ++ s :: b) = utf8_valid [] && utf8_valid b).
  { cbn [app]. rewrite utf8_valid_cons.
    assert (E : (s <=? 127) = true) by (apply Nat.leb_le; exact Hs).
    rewrite E. reflexivity. }
  pose proof (low_not_cont s Hs) as Hc.
  pose proof (fun lo hi => low_not_in_range s lo hi Hs) as Hr.
  induction n as [|n IH]; intros a Hl.
  - destruct a as [|b0 r]; [exact Hnil | cbn [length] in Hl; lia].
  - destruct a as [|b0 r]; [exact Hnil|].
    cbn [length] in Hl. assert (Hl' : length r <= S n) by lia.
    change ((b0 :: r) ++ s :: b) with (b0 :: (r ++ s :: b)).
    rewrite (utf8_valid_cons b0 (r ++ s :: b)), (utf8_valid_cons b0 r).
    destruct (b0 <=? 127); [apply IH; lia|].
    destruct (in_range b0 194 223).
    { apply (shape1 s b n cont r IH Hc Hl'). }
    destruct (b0 =? 224).
    { apply (shape2 s b n (fun x => in_range x 160 191) cont r IH); auto; apply Hr; lia. }
    destruct (in_range b0 225 236 || in_range b0 238 239).
    { apply (shape2 s b n cont cont r IH); auto. }
    destruct (b0 =? 237).
    { apply (shape2 s b n (fun x => in_range x 128 159) cont r IH); auto; apply Hr; lia. }
    destruct (b0 =? 240).
    { apply (shape3 s b n (fun x => in_range x 144 191) cont cont r IH); auto; apply Hr; lia. }
    destruct (in_range b0 241 243).
    { apply (shape3 s b n cont cont cont r IH); auto. }
    destruct (b0 =? 244).
    { apply (shape3 s b n (fun x => in_range x 128 143) cont cont r IH); auto; apply Hr; lia. }
    reflexivity.
Qed.

(** C13_utf8_split, for every ASCII separator *)
Theorem utf8_split_sep (s : byte) (a b : list byte) : s <= 127 ->
  utf8_valid (a ++ [s] ++ b) = utf8_valid a && utf8_valid b.
Proof. intros Hs. exact (utf8_split_len s b Hs (length a) a (le_n _)). Qed.

Theorem utf8_split (a b : list byte) : utf8_valid (a ++ [32] ++ b) = utf8_valid a && utf8_valid b.
Proof. apply utf8_split_sep. lia. Qed.

(** validity of the header in terms of its two parts *)
Lemma utf8_head head :
  utf8_valid head = utf8_valid (id_bytes head) &&
                    match desc_bytes head with Some d => utf8_valid d | None => true end.
Proof.
  destruct (id_desc_split head) as (Hj & _).
  rewrite Hj at 1. destruct (desc_bytes head) as [d|].
  - apply (utf8_split (id_bytes head) d).
  - rewrite app_nil_r, andb_true_r. reflexivity.
Qed.

(** C13_text_accessors *)
Theorem text_accessors head :
  ((exists p, id_desc_str head = Some p) <->
   ((exists i, id_str head = Some i) /\ desc_str head <> Some None)) /\
  (forall p, id_desc_str head = Some p ->
     p = id_desc_bytes head /\ id_str head = Some (id_bytes head) /\
     desc_str head = option_map Some (desc_bytes head)) /\
  (forall i, id_str head = Some i -> i = id_bytes head /\ utf8_valid i = true) /\
  (forall d, desc_str head = Some (Some d) -> desc_bytes head = Some d /\ utf8_valid d = true) /\
  (desc_str head = None <-> desc_bytes head = None).
Proof.
  unfold id_desc_str, id_str, desc_str, id_desc_bytes.
  rewrite (utf8_head head).
  destruct (utf8_valid (id_bytes head)) eqn:Ei; cbn [andb].
  - destruct (desc_bytes head) as [d|] eqn:Ed.
    + destruct (utf8_valid d) eqn:Evd.
      * split; [split; [intros _; split; [eauto | discriminate] | intros _; eauto]|].
        split; [intros p Hp; inversion Hp; auto|].
        split; [intros i Hi; inversion Hi; subst; auto|].
        split; [intros d' Hd; inversion Hd; subst; auto|].
        split; discriminate.
      * split; [split; [intros (p & Hp); discriminate | intros (_ & Hn); exfalso; apply Hn; reflexivity]|].
        split; [intros p Hp; discriminate|].
        split; [intros i Hi; inversion Hi; subst; auto|].
        split; [intros d' Hd; discriminate|].
        split; discriminate.
    + split; [split; [intros _; split; [eauto | discriminate] | intros _; eauto]|].
      split; [intros p Hp; inversion Hp; auto|].
      split; [intros i Hi; inversion Hi; subst; auto|].
      split; [intros d' Hd; discriminate|].
      split; reflexivity.
  - split; [split; [intros (p & Hp); discriminate | intros ((i & Hi) & _); discriminate]|].
    split; [intros p Hp; discriminate|].
    split; [intros i Hi; discriminate|].
    split.
    + intros d Hd. destruct (desc_bytes head) as [d'|]; [|discriminate].
      destruct (utf8_valid d') eqn:Evd; inversion Hd; subst; auto.
    + destruct (desc_bytes head); split; try discriminate; reflexivity.
Qed.
