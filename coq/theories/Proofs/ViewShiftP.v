(** "View shift": a record view taken from the reader's buffer (a window of
    the input, with buffer-relative offsets) shows exactly the same values as
    the view taken from the whole input at the absolute offsets.  Every
    accessor of Model/Views.v depends on the record only through slices
    [slice (rbuf rc) i j] at the record's own offsets, and those slices agree
    ([slice_window]).  Also: the records of a record set are, by definition,
    views of the set's buffer at the stored offsets. *)
From SeqIO Require Import Model.Base Model.Fasta Model.Fastq Model.Views
  Proofs.SeqLinesP Proofs.Window Proofs.FastaScanP Proofs.FastaInv Proofs.ViewsP
  Proofs.FastaStream.

(* ------------------------------------------------------------------ *)
(** * Slices of a window *)

Lemma sub_is_window inp a b : sub inp a b = window inp a b.
Proof. reflexivity. Qed.

(** bytes [i, j) of the window [off, e) are bytes [off+i, off+j) of the input *)
Lemma sub_window inp off e i j : off + j <= e ->
  sub (window inp off e) i j = sub inp (off + i) (off + j).
Proof.
  intros H. destruct (Nat.le_gt_cases i j) as [Hij | Hij].
  - unfold sub at 1. rewrite window_skipn by lia. rewrite window_firstn by lia.
    unfold sub, window. f_equal. lia.
  - unfold sub. replace (j - i) with 0 by lia. replace (off + j - (off + i)) with 0 by lia.
    reflexivity.
Qed.

(** 1. slice_window: neither slice panics, and they are the same bytes *)
Lemma slice_window inp off e i j : off + j <= e -> e <= length inp -> i <= j ->
  slice (window inp off e) i j = slice inp (off + i) (off + j) /\
  slice inp (off + i) (off + j) = Some (sub inp (off + i) (off + j)).
Proof.
  intros H1 H2 H3.
  rewrite (slice_some inp (off + i) (off + j)) by lia.
  rewrite slice_some; [| lia | rewrite window_length by lia; lia].
  rewrite (sub_window inp off e i j H1). split; reflexivity.
Qed.

Lemma slice_window_eq inp off e i j : off + j <= e -> e <= length inp -> i <= j ->
  slice (window inp off e) i j = slice inp (off + i) (off + j).
Proof. intros H1 H2 H3. exact (proj1 (slice_window inp off e i j H1 H2 H3)). Qed.

Lemma slice_window_some inp off e i j : off + j <= e -> e <= length inp -> i <= j ->
  slice (window inp off e) i j = Some (sub inp (off + i) (off + j)).
Proof.
  intros H1 H2 H3. destruct (slice_window inp off e i j H1 H2 H3) as [Ha Hb].
  rewrite Ha. exact Hb.
Qed.

(* ------------------------------------------------------------------ *)
(** * Shifting a list of offsets *)

Lemma shift_cons k a l : shift k (a :: l) = (a + k) :: shift k l.
Proof. reflexivity. Qed.

Lemma Incr_shift k l : Incr (shift k l) <-> Incr l.
Proof.
  induction l as [|a t IH]; [split; intros; exact I|].
  destruct t as [|b t]; [split; intros; exact I|].
  rewrite !shift_cons in *.
  change (Incr (a + k :: b + k :: shift k t)) with (a + k < b + k /\ Incr (b + k :: shift k t)).
  change (Incr (a :: b :: t)) with (a < b /\ Incr (b :: t)).
  rewrite IH. split; intros [H1 H2]; (split; [lia | exact H2]).
Qed.

Lemma last_shift k l : l <> [] -> last (shift k l) 0 = last l 0 + k.
Proof.
  induction l as [|a t IH]; intros Hne; [contradiction|].
  destruct t as [|b t]; [reflexivity|].
  rewrite shift_cons. rewrite shift_cons in IH.
  change (last (a + k :: b + k :: shift k t) 0) with (last (b + k :: shift k t) 0).
  change (last (a :: b :: t) 0) with (last (b :: t) 0).
  apply IH. discriminate.
Qed.

Lemma Forall_last_nat (P : nat -> Prop) l : Forall P l -> l <> [] -> P (last l 0).
Proof.
  induction l as [|a t IH]; intros H Hne; [contradiction|].
  inversion H as [|? ? Ha Ht]; subst.
  destruct t as [|b t]; [exact Ha|].
  change (last (a :: b :: t) 0) with (last (b :: t) 0). apply IH; [exact Ht | discriminate].
Qed.

(** the lines of a buffer-relative view are the lines of the absolute view *)
Lemma lines_of_window inp off e l : Forall (fun x => off + x <= e) l ->
  lines_of (window inp off e) l = lines_of inp (shift off l).
Proof.
  induction l as [|a t IH]; intros H; [reflexivity|].
  destruct t as [|b t]; [reflexivity|].
  inversion H as [|? ? Ha Ht]; subst.
  rewrite !shift_cons. rewrite shift_cons in IH.
  change (lines_of (window inp off e) (a :: b :: t))
    with (trim_cr (sub (window inp off e) (a + 1) b) :: lines_of (window inp off e) (b :: t)).
  change (lines_of inp (a + off :: b + off :: shift off t))
    with (trim_cr (sub inp (a + off + 1) (b + off)) :: lines_of inp (b + off :: shift off t)).
  rewrite (IH Ht). f_equal.
  inversion Ht as [|? ? Hb _]; subst.
  rewrite (sub_window inp off e (a + 1) b Hb).
  replace (off + (a + 1)) with (a + off + 1) by lia.
  replace (off + b) with (b + off) by lia. reflexivity.
Qed.

(* ------------------------------------------------------------------ *)
(** * 2. FASTA: the buffer view and the whole-input view agree *)

(** the conclusion of the view-shift theorem, as a relation between two views *)
Definition fa_same_views (rc rc' : fa_rec) : Prop :=
  fa_head rc = fa_head rc' /\
  fa_seq_raw rc = fa_seq_raw rc' /\
  fa_lines rc = fa_lines rc' /\
  fa_num_seq_lines rc = fa_num_seq_lines rc' /\
  fa_owned_seq rc = fa_owned_seq rc' /\
  fa_full_seq rc = fa_full_seq rc' /\
  fa_to_owned rc = fa_to_owned rc' /\
  fa_write_unchanged rc = fa_write_unchanged rc' /\
  fa_write rc = fa_write rc'.

(** well-formedness transfers from the absolute view to the buffer view *)
Lemma fa_wf_shift inp rc s ends :
  RecAt inp rc s ends -> FaRecWf (mkFaRec inp s ends) -> FaRecWf rc.
Proof.
  intros (off & e & Hb & Hoe & Hel & Hs & Hsh & Hall) (p0 & ps & Hp & Hlt & Hinc & Hlast).
  cbn [rbuf rstart rseqpos] in Hp, Hlt, Hlast.
  destruct (rseqpos rc) as [|q0 qs] eqn:Eq.
  - rewrite <- Hsh in Hp. discriminate.
  - exists q0, qs. split; [exact Eq|].
    assert (Hinc' : Incr (q0 :: qs)).
    { apply (Incr_shift off). rewrite Hsh, Hp. exact Hinc. }
    rewrite <- Hsh, shift_cons in Hp. inversion Hp as [[Hp0 Hps]].
    split; [lia|]. split; [exact Hinc'|].
    apply (Forall_last_nat (fun x => x <= length (rbuf rc))); [exact Hall | discriminate].
Qed.

Theorem fa_view_shift inp rc s ends :
  RecAt inp rc s ends -> ends <> [] -> FaRecWf (mkFaRec inp s ends) ->
  FaRecWf rc /\
  fa_head rc = fa_head (mkFaRec inp s ends) /\
  fa_seq_raw rc = fa_seq_raw (mkFaRec inp s ends) /\
  fa_lines rc = fa_lines (mkFaRec inp s ends) /\
  fa_num_seq_lines rc = fa_num_seq_lines (mkFaRec inp s ends) /\
  fa_owned_seq rc = fa_owned_seq (mkFaRec inp s ends) /\
  fa_full_seq rc = fa_full_seq (mkFaRec inp s ends) /\
  fa_to_owned rc = fa_to_owned (mkFaRec inp s ends) /\
  fa_write_unchanged rc = fa_write_unchanged (mkFaRec inp s ends) /\
  fa_write rc = fa_write (mkFaRec inp s ends).
Proof.
  intros Hat _ Hwf'.
  pose proof (fa_wf_shift inp rc s ends Hat Hwf') as Hwf.
  split; [exact Hwf|].
  destruct Hat as (off & e & Hb & Hoe & Hel & Hs & Hsh & Hall).
  destruct rc as [b st sq]. cbn [rbuf rstart rseqpos] in Hb, Hs, Hsh, Hall.
  subst b s ends.
  assert (Hlen : length (window inp off e) = e - off) by (apply window_length; lia).
  assert (Hall' : Forall (fun x => off + x <= e) sq).
  { eapply Forall_impl; [|exact Hall]. cbn beta. intros x Hx. rewrite Hlen in Hx. lia. }
  destruct sq as [|q0 qs].
  { destruct Hwf as (p0 & ps & Hp & _). discriminate. }
  set (r := mkFaRec (window inp off e) st (q0 :: qs)) in *.
  set (r' := mkFaRec inp (st + off) (shift off (q0 :: qs))) in *.
  pose proof (fa_views_agree_lines r Hwf) as A.
  pose proof (fa_views_agree_lines r' Hwf') as A'.
  assert (Hls : lines_of (rbuf r) (rseqpos r) = lines_of (rbuf r') (rseqpos r')).
  { subst r r'. cbn [rbuf rseqpos]. apply lines_of_window. exact Hall'. }
  rewrite Hls in A.
  set (ls := lines_of (rbuf r') (rseqpos r')) in *.
  assert (Hq0 : st < q0 /\ off + q0 <= e /\ q0 <= last (q0 :: qs) 0 /\ off + last (q0 :: qs) 0 <= e).
  { destruct Hwf as (p0 & ps & Hp & Hlt & Hinc & Hlast).
    subst r. cbn [rbuf rstart rseqpos] in Hp, Hlt, Hlast. inversion Hp; subst p0 ps.
    pose proof (Incr_le_last _ Hinc q0 (or_introl eq_refl)).
    inversion Hall'; subst. rewrite Hlen in Hlast. lia. }
  destruct Hq0 as (Hst & Hq0e & Hq0l & Hle).
  (* head *)
  assert (Ehead : fa_head r = fa_head r').
  { rewrite (fa_head_wf r Hwf), (fa_head_wf r' Hwf').
    subst r r'. cbn [rbuf rstart rseqpos]. rewrite shift_cons. cbn [hd].
    rewrite (sub_window inp off e (st + 1) q0 Hq0e).
    replace (off + (st + 1)) with (st + off + 1) by lia.
    replace (off + q0) with (q0 + off) by lia. reflexivity. }
  (* seq() *)
  assert (Eraw : fa_seq_raw r = fa_seq_raw r').
  { rewrite (fa_seq_raw_wf r Hwf), (fa_seq_raw_wf r' Hwf').
    subst r r'. cbn [rbuf rstart rseqpos].
    rewrite (last_shift off (q0 :: qs)) by discriminate.
    destruct qs as [|q1 qt]; [reflexivity|].
    rewrite !shift_cons. cbv iota.
    rewrite (sub_window inp off e (q0 + 1) (last (q0 :: q1 :: qt) 0) Hle).
    replace (off + (q0 + 1)) with (q0 + off + 1) by lia.
    replace (off + last (q0 :: q1 :: qt) 0) with (last (q0 :: q1 :: qt) 0 + off) by lia.
    reflexivity. }
  assert (Elines : fa_lines r = fa_lines r').
  { rewrite (fag_lines _ _ A), (fag_lines _ _ A'). reflexivity. }
  assert (Enum : fa_num_seq_lines r = fa_num_seq_lines r').
  { rewrite (fag_num _ _ A), (fag_num _ _ A'). reflexivity. }
  assert (Eown : fa_owned_seq r = fa_owned_seq r').
  { unfold fa_owned_seq. rewrite Elines. reflexivity. }
  assert (Efull : fa_full_seq r = fa_full_seq r').
  { unfold fa_full_seq. rewrite Enum, Eraw, Eown. reflexivity. }
  assert (Eto : fa_to_owned r = fa_to_owned r').
  { unfold fa_to_owned. rewrite Ehead, Eown. reflexivity. }
  assert (Ewu : fa_write_unchanged r = fa_write_unchanged r').
  { unfold fa_write_unchanged. subst r r'. cbn [rbuf rstart rseqpos].
    rewrite (last_opt_last (q0 :: qs) 0) by discriminate.
    rewrite (last_opt_last (shift off (q0 :: qs)) 0) by (rewrite shift_cons; discriminate).
    rewrite (last_shift off (q0 :: qs)) by discriminate.
    rewrite (slice_window_eq inp off e st (last (q0 :: qs) 0)) by lia.
    replace (off + st) with (st + off) by lia.
    replace (off + last (q0 :: qs) 0) with (last (q0 :: qs) 0 + off) by lia.
    reflexivity. }
  assert (Ewr : fa_write r = fa_write r').
  { unfold fa_write. rewrite Ehead, Elines. reflexivity. }
  repeat (split; [assumption|]). assumption.
Qed.

(** the same statement through [fa_same_views], without the redundant
    hypothesis [ends <> []] (it follows from [FaRecWf]) *)
Corollary fa_view_shift_same inp rc s ends :
  RecAt inp rc s ends -> FaRecWf (mkFaRec inp s ends) ->
  FaRecWf rc /\ fa_same_views rc (mkFaRec inp s ends).
Proof.
  intros Hat Hwf'. apply fa_view_shift; [exact Hat | | exact Hwf'].
  destruct Hwf' as (p0 & ps & Hp & _). cbn [rseqpos] in Hp. rewrite Hp. discriminate.
Qed.

(** everything else a caller can observe of a FASTA record is a function of
    the values above: the wrapped writer, and the header accessors *)
Corollary fa_view_shift_derived inp rc s ends :
  RecAt inp rc s ends -> FaRecWf (mkFaRec inp s ends) ->
  (forall w, fa_write_wrap rc w = fa_write_wrap (mkFaRec inp s ends) w) /\
  option_map id_bytes (fa_head rc) = option_map id_bytes (fa_head (mkFaRec inp s ends)) /\
  option_map desc_bytes (fa_head rc) = option_map desc_bytes (fa_head (mkFaRec inp s ends)) /\
  option_map id_str (fa_head rc) = option_map id_str (fa_head (mkFaRec inp s ends)) /\
  option_map desc_str (fa_head rc) = option_map desc_str (fa_head (mkFaRec inp s ends)) /\
  option_map id_desc_str (fa_head rc) = option_map id_desc_str (fa_head (mkFaRec inp s ends)) /\
  fa_num_seq_lines rc = Some (length ends - 1).
Proof.
  intros Hat Hwf'.
  destruct (fa_view_shift_same inp rc s ends Hat Hwf')
    as (Hwf & Eh & _ & El & En & _).
  split; [intros w; unfold fa_write_wrap; rewrite Eh, El; reflexivity|].
  rewrite Eh. repeat (split; [reflexivity|]).
  rewrite En. destruct (fa_views_agree_lines _ Hwf') as [_ H2 H3 _ _ _ _].
  rewrite H3, H2. reflexivity.
Qed.

(* ------------------------------------------------------------------ *)
(** * 3. FASTQ *)

Theorem fq_view_shift inp rc off e :
  qrbuf rc = window inp off e -> e <= length inp -> off <= e -> r1 rc <= length (qrbuf rc) ->
  forall rc', rc' = mkFqRec inp (r0 rc + off) (r1 rc + off) (rseq rc + off) (rsep rc + off)
                             (rqual rc + off) ->
  FqRecWf rc' ->
  FqRecWf rc /\
  fq_head rc = fq_head rc' /\
  fq_seq rc = fq_seq rc' /\
  fq_qual rc = fq_qual rc' /\
  fq_to_owned rc = fq_to_owned rc' /\
  fq_write_unchanged rc = fq_write_unchanged rc' /\
  fq_write rc = fq_write rc'.
Proof.
  intros Hb Hel Hoe Hr1 rc' -> Hwf'.
  destruct rc as [b a0 a1 sq sp ql]. cbn [qrbuf r0 r1 rseq rsep rqual] in *. subst b.
  assert (Hlen : length (window inp off e) = e - off) by (apply window_length; lia).
  rewrite Hlen in Hr1.
  set (r := mkFqRec (window inp off e) a0 a1 sq sp ql).
  set (r' := mkFqRec inp (a0 + off) (a1 + off) (sq + off) (sp + off) (ql + off)) in *.
  pose proof Hwf' as (H1 & H2 & H3 & H4 & H5).
  subst r'. cbn [qrbuf r0 r1 rseq rsep rqual] in H1, H2, H3, H4, H5.
  set (r' := mkFqRec inp (a0 + off) (a1 + off) (sq + off) (sp + off) (ql + off)) in *.
  assert (Hwf : FqRecWf r).
  { unfold FqRecWf. subst r. cbn [qrbuf r0 r1 rseq rsep rqual]. rewrite Hlen. lia. }
  split; [exact Hwf|].
  destruct (fq_views r Hwf) as (Hh & Hs & Hq & _).
  destruct (fq_views r' Hwf') as (Hh' & Hs' & Hq' & _).
  assert (Ehead : fq_head r = fq_head r').
  { rewrite Hh, Hh'. subst r r'. cbn [qrbuf r0 r1 rseq rsep rqual].
    rewrite (sub_window inp off e (a0 + 1) (sq - 1)) by lia.
    replace (off + (a0 + 1)) with (a0 + off + 1) by lia.
    replace (off + (sq - 1)) with (sq + off - 1) by lia. reflexivity. }
  assert (Eseq : fq_seq r = fq_seq r').
  { rewrite Hs, Hs'. subst r r'. cbn [qrbuf r0 r1 rseq rsep rqual].
    rewrite (sub_window inp off e sq (sp - 1)) by lia.
    replace (off + sq) with (sq + off) by lia.
    replace (off + (sp - 1)) with (sp + off - 1) by lia. reflexivity. }
  assert (Equal : fq_qual r = fq_qual r').
  { rewrite Hq, Hq'. subst r r'. cbn [qrbuf r0 r1 rseq rsep rqual].
    rewrite (sub_window inp off e ql a1) by lia.
    replace (off + ql) with (ql + off) by lia.
    replace (off + a1) with (a1 + off) by lia. reflexivity. }
  assert (Eto : fq_to_owned r = fq_to_owned r').
  { unfold fq_to_owned. rewrite Ehead, Eseq, Equal. reflexivity. }
  assert (Ewu : fq_write_unchanged r = fq_write_unchanged r').
  { unfold fq_write_unchanged. subst r r'. cbn [qrbuf r0 r1 rseq rsep rqual].
    rewrite (slice_window_eq inp off e a0 a1) by lia.
    replace (off + a0) with (a0 + off) by lia.
    replace (off + a1) with (a1 + off) by lia. reflexivity. }
  assert (Ewr : fq_write r = fq_write r').
  { unfold fq_write. rewrite Eto. reflexivity. }
  repeat (split; [assumption|]). assumption.
Qed.

(** the header accessors of a FASTQ record, likewise *)
Corollary fq_view_shift_derived inp rc off e :
  qrbuf rc = window inp off e -> e <= length inp -> off <= e -> r1 rc <= length (qrbuf rc) ->
  forall rc', rc' = mkFqRec inp (r0 rc + off) (r1 rc + off) (rseq rc + off) (rsep rc + off)
                             (rqual rc + off) ->
  FqRecWf rc' ->
  option_map id_bytes (fq_head rc) = option_map id_bytes (fq_head rc') /\
  option_map desc_bytes (fq_head rc) = option_map desc_bytes (fq_head rc') /\
  option_map id_str (fq_head rc) = option_map id_str (fq_head rc') /\
  option_map desc_str (fq_head rc) = option_map desc_str (fq_head rc') /\
  option_map id_desc_str (fq_head rc) = option_map id_desc_str (fq_head rc').
Proof.
  intros Hb Hel Hoe Hr1 rc' Hrc' Hwf'.
  destruct (fq_view_shift inp rc off e Hb Hel Hoe Hr1 rc' Hrc' Hwf') as (_ & Eh & _).
  rewrite Eh. repeat (split; [reflexivity|]). reflexivity.
Qed.

(* ------------------------------------------------------------------ *)
(** * 4. Record sets: the records of a set are views of the set's buffer *)

Lemma fa_set_records_length rs :
  length (fa_set_records rs) = Nat.min (snpos rs) (length (spositions rs)).
Proof. unfold fa_set_records. rewrite map_length, firstn_length. reflexivity. Qed.

Lemma fa_set_records_nth rs i p :
  nth_error (firstn (snpos rs) (spositions rs)) i = Some p ->
  nth_error (fa_set_records rs) i = Some (mkFaRec (sbuf rs) (fst p) (snd p)).
Proof.
  intros H. unfold fa_set_records.
  exact (map_nth_error (fun p => mkFaRec (sbuf rs) (fst p) (snd p)) i _ H).
Qed.

(** the live entries are the first [snpos] stored positions *)
Lemma fa_set_records_nth_pos rs i p :
  i < snpos rs -> nth_error (spositions rs) i = Some p ->
  nth_error (fa_set_records rs) i = Some (mkFaRec (sbuf rs) (fst p) (snd p)).
Proof.
  intros Hi H. apply fa_set_records_nth. rewrite nth_error_firstn_lt by exact Hi. exact H.
Qed.

Lemma fa_set_records_In rs rc :
  In rc (fa_set_records rs) <->
  exists p, In p (firstn (snpos rs) (spositions rs)) /\ rc = mkFaRec (sbuf rs) (fst p) (snd p).
Proof.
  unfold fa_set_records. rewrite in_map_iff. split.
  - intros (p & Hp & Hin). exists p. split; [exact Hin | symmetry; exact Hp].
  - intros (p & Hin & Hp). exists p. split; [symmetry; exact Hp | exact Hin].
Qed.

(** every record of a set views the set's buffer *)
Lemma fa_set_records_buf rs rc : In rc (fa_set_records rs) -> rbuf rc = sbuf rs.
Proof. intros H. apply fa_set_records_In in H. destruct H as (p & _ & ->). reflexivity. Qed.

Lemma fq_set_records_length rs : length (fq_set_records rs) = length (qspos rs).
Proof. unfold fq_set_records. apply map_length. Qed.

Lemma fq_set_records_nth rs i a b c d e :
  nth_error (qspos rs) i = Some (a, b, c, d, e) ->
  nth_error (fq_set_records rs) i = Some (mkFqRec (qsbuf rs) a b c d e).
Proof.
  intros H. unfold fq_set_records.
  exact (map_nth_error
           (fun p => match p with (a, b, c, d, e) => mkFqRec (qsbuf rs) a b c d e end) i _ H).
Qed.

Lemma fq_set_records_In rs rc :
  In rc (fq_set_records rs) <->
  exists a b c d e, In (a, b, c, d, e) (qspos rs) /\ rc = mkFqRec (qsbuf rs) a b c d e.
Proof.
  unfold fq_set_records. rewrite in_map_iff. split.
  - intros ([[[[a b] c] d] e] & Hp & Hin). exists a, b, c, d, e.
    split; [exact Hin | symmetry; exact Hp].
  - intros (a & b & c & d & e & Hin & Hp). exists (a, b, c, d, e).
    split; [symmetry; exact Hp | exact Hin].
Qed.

Lemma fq_set_records_buf rs rc : In rc (fq_set_records rs) -> qrbuf rc = qsbuf rs.
Proof.
  intros H. apply fq_set_records_In in H. destruct H as (a & b & c & d & e & _ & ->). reflexivity.
Qed.

(* ------------------------------------------------------------------ *)
(** * Non-vacuity: concrete instances of the hypotheses *)

(** input ">a\nAC\nG\n>b\nT\n"; the buffer holds bytes [2, 13); the second
    record has its '>' at absolute offset 8 (buffer offset 6) and line ends at
    10, 12 (buffer offsets 8, 10). *)
Example fa_view_shift_nonvacuous :
  let inp := [62;97;10;65;67;10;71;10;62;98;10;84;10] in
  let rc := mkFaRec (window inp 2 13) 6 [8; 10] in
  RecAt inp rc 8 [10; 12] /\ [10; 12] <> [] /\ FaRecWf (mkFaRec inp 8 [10; 12]) /\
  fa_head rc = Some [98] /\ fa_lines rc = Some [[84]].
Proof.
  cbv zeta. split; [|split; [discriminate|split]].
  - exists 2, 13. cbn [rbuf rstart rseqpos].
    split; [reflexivity|]. split; [lia|]. split; [cbn; lia|]. split; [reflexivity|].
    split; [reflexivity|]. repeat constructor; vm_compute; lia.
  - apply fa_rec_wf_b_sound. vm_compute. reflexivity.
  - split; vm_compute; reflexivity.
Qed.

(** input "\n\n@a\nAC\n+\n!!\n"; the buffer holds bytes [2, 13) *)
Example fq_view_shift_nonvacuous :
  let inp := [10;10;64;97;10;65;67;10;43;10;33;33;10] in
  let rc := mkFqRec (window inp 2 13) 0 10 3 6 8 in
  qrbuf rc = window inp 2 13 /\ 13 <= length inp /\ 2 <= 13 /\ r1 rc <= length (qrbuf rc) /\
  FqRecWf (mkFqRec inp (r0 rc + 2) (r1 rc + 2) (rseq rc + 2) (rsep rc + 2) (rqual rc + 2)) /\
  fq_head rc = Some [97] /\ fq_seq rc = Some [65;67] /\ fq_qual rc = Some [33;33].
Proof.
  cbv zeta. split; [reflexivity|]. split; [cbn; lia|]. split; [lia|].
  split; [vm_compute; lia|]. split; [unfold FqRecWf; vm_compute; lia|].
  repeat split; vm_compute; reflexivity.
Qed.

Print Assumptions slice_window.
Print Assumptions fa_view_shift.
Print Assumptions fa_view_shift_derived.
Print Assumptions fq_view_shift.
Print Assumptions fq_view_shift_derived.
Print Assumptions fa_set_records_nth.
Print Assumptions fq_set_records_nth.
