(** Proofs about the record views (Model/Views.v): all views of a record are
    computed from the same offsets and therefore agree (property C13). *)
From SeqIO Require Import Model.Base Model.Fasta Model.Fastq Model.Views Proofs.SeqLinesP.

(* ------------------------------------------------------------------ *)
(** * List and slice helpers *)

(** the bytes [i, j) of a buffer: what [slice] returns when it does not panic *)
Definition sub (b : list byte) (i j : nat) : list byte := firstn (j - i) (skipn i b).

Lemma slice_some b i j : i <= j -> j <= length b -> slice b i j = Some (sub b i j).
Proof.
  intros H1 H2. unfold slice, sub.
  apply Nat.leb_le in H1. apply Nat.leb_le in H2. rewrite H1, H2. reflexivity.
Qed.

Lemma firstn_add {A} a c (l : list A) :
  firstn (a + c) l = firstn a l ++ firstn c (skipn a l).
Proof.
  revert l; induction a as [|a IH]; intros l; [reflexivity|].
  destruct l as [|x l]; cbn [Nat.add firstn skipn app].
  - rewrite firstn_nil. reflexivity.
  - f_equal. apply IH.
Qed.

Lemma skipn_add {A} a c (l : list A) : skipn (a + c) l = skipn c (skipn a l).
Proof.
  revert l; induction a as [|a IH]; intros l; [reflexivity|].
  destruct l as [|x l]; cbn [Nat.add skipn].
  - rewrite skipn_nil. reflexivity.
  - apply IH.
Qed.

Lemma sub_split b i m j : i <= m -> m <= j -> sub b i j = sub b i m ++ sub b m j.
Proof.
  intros H1 H2. unfold sub.
  replace (j - i) with ((m - i) + (j - m)) by lia.
  rewrite firstn_add. f_equal. f_equal.
  replace m with (i + (m - i)) at 2 by lia. apply eq_sym, skipn_add.
Qed.

Lemma skipn_nth_cons {A} m (l : list A) x :
  nth_error l m = Some x -> skipn m l = x :: skipn (S m) l.
Proof.
  revert l; induction m as [|m IH]; intros l H; destruct l as [|y l]; try discriminate.
  - cbn in H. inversion H. reflexivity.
  - cbn [nth_error] in H. cbn [skipn]. rewrite (IH l H). reflexivity.
Qed.

Lemma sub_single b m x : nth_error b m = Some x -> sub b m (S m) = [x].
Proof.
  intros H. unfold sub. replace (S m - m) with 1 by lia.
  rewrite (skipn_nth_cons m b x H). reflexivity.
Qed.

Lemma nth_error_skipn' {A} i k (l : list A) : nth_error (skipn i l) k = nth_error l (i + k).
Proof.
  revert l; induction i as [|i IH]; intros l; [reflexivity|].
  destruct l as [|y l]; cbn [skipn Nat.add nth_error].
  - destruct k; reflexivity.
  - apply IH.
Qed.

Lemma In_firstn_nth {A} n (l : list A) x :
  In x (firstn n l) -> exists k, k < n /\ nth_error l k = Some x.
Proof.
  revert l; induction n as [|n IH]; intros l H; [destruct H|].
  destruct l as [|y l]; [destruct H|]. cbn [firstn] in H. destruct H as [H | H].
  - exists 0. subst. split; [lia | reflexivity].
  - destruct (IH l H) as (k & Hk & Hn). exists (S k). split; [lia | exact Hn].
Qed.

Lemma In_sub b i j x : In x (sub b i j) -> exists q, i <= q /\ q < j /\ nth_error b q = Some x.
Proof.
  unfold sub. intros H. destruct (In_firstn_nth _ _ _ H) as (k & Hk & Hn).
  rewrite nth_error_skipn' in Hn. exists (i + k). split; [lia|]. split; [lia | exact Hn].
Qed.

Lemma last_opt_last {A} (l : list A) d : l <> [] -> last_opt l = Some (last l d).
Proof.
  intros H. unfold last_opt.
  rewrite (app_removelast_last d H) at 1. rewrite rev_app_distr. reflexivity.
Qed.

(* ------------------------------------------------------------------ *)
(** * trim_cr *)

Lemma trim_cr_cons2 c d r : trim_cr (c :: d :: r) = c :: trim_cr (d :: r).
Proof. reflexivity. Qed.

Lemma trim_cr_app_lf a x : trim_cr (a ++ LF :: x) = a ++ LF :: trim_cr x.
Proof.
  induction a as [|c a IH]; cbn [app].
  - destruct x as [|d x]; reflexivity.
  - destruct a as [|d a]; cbn [app] in *.
    + rewrite trim_cr_cons2, IH. reflexivity.
    + rewrite trim_cr_cons2, IH. reflexivity.
Qed.

Lemma trim_cr_Forall (P : byte -> Prop) l : Forall P l -> Forall P (trim_cr l).
Proof.
  induction l as [|c l IH]; intros H; [constructor|].
  inversion H as [|? ? Hc Hl]; subst.
  destruct l as [|d l].
  - cbn [trim_cr]. destruct (c =? CR); [constructor | exact H].
  - rewrite trim_cr_cons2. constructor; [exact Hc | exact (IH Hl)].
Qed.

(* ------------------------------------------------------------------ *)
(** * Well-formed FASTA record views *)

(** strictly increasing *)
Fixpoint Incr (l : list nat) : Prop :=
  match l with
  | a :: (e :: _) as t => a < e /\ Incr t
  | _ => True
  end.

(** What the reader guarantees of a record view: at least one stored line
    end, the record starts before it, the line ends strictly increase and lie
    inside the buffer. *)
Definition FaRecWf (r : fa_rec) : Prop :=
  exists p0 ps, rseqpos r = p0 :: ps /\ rstart r < p0 /\ Incr (p0 :: ps) /\
                last (p0 :: ps) 0 <= length (rbuf r).

Lemma Incr_tail a t : Incr (a :: t) -> Incr t.
Proof. destruct t as [|e t]; [intros; exact I | intros [_ H]; exact H]. Qed.

Lemma Incr_gt a t : Incr (a :: t) -> forall q, In q t -> a < q.
Proof.
  revert a; induction t as [|e t IH]; intros a H q Hq; [destruct Hq|].
  destruct H as [H1 H2]. destruct Hq as [-> | Hq]; [exact H1|].
  specialize (IH e H2 q Hq). lia.
Qed.

Lemma Incr_le_last l : Incr l -> forall q, In q l -> q <= last l 0.
Proof.
  induction l as [|a t IH]; intros H q Hq; [destruct Hq|].
  destruct t as [|e t].
  - destruct Hq as [-> | []]. cbn. lia.
  - change (last (a :: e :: t) 0) with (last (e :: t) 0).
    destruct H as [H1 H2]. destruct Hq as [-> | Hq].
    + specialize (IH H2 e (or_introl eq_refl)). lia.
    + exact (IH H2 q Hq).
Qed.

(** the lines of a record as a plain list: one per pair of consecutive line ends *)
Fixpoint lines_of (b : list byte) (l : list nat) : list (list byte) :=
  match l with
  | a :: (e :: _) as t => trim_cr (sub b (a + 1) e) :: lines_of b t
  | _ => []
  end.

Lemma lines_of_length b l : length (lines_of b l) = length l - 1.
Proof.
  induction l as [|a t IH]; [reflexivity|].
  destruct t as [|e t]; [reflexivity|].
  change (lines_of b (a :: e :: t)) with (trim_cr (sub b (a + 1) e) :: lines_of b (e :: t)).
  cbn [length] in *. rewrite IH. lia.
Qed.

Lemma fa_line_lines b l : Incr l -> (forall q, In q l -> q <= length b) ->
  forall i a e, nth_error l i = Some a -> nth_error l (S i) = Some e ->
  fa_line b a e = Some (nth i (lines_of b l) []).
Proof.
  induction l as [|x t IH]; intros Hinc Hle i a e Ha He; [destruct i; discriminate|].
  destruct t as [|y t]; [destruct i; discriminate|].
  change (lines_of b (x :: y :: t)) with (trim_cr (sub b (x + 1) y) :: lines_of b (y :: t)).
  destruct Hinc as [Hxy Hinc].
  destruct i as [|i].
  - cbn in Ha, He. inversion Ha; inversion He; subst.
    unfold fa_line. rewrite slice_some; [reflexivity | lia |].
    apply Hle. right; left; reflexivity.
  - cbn [nth_error] in Ha. change (nth_error (y :: t) (S i) = Some e) in He.
    cbn [nth]. apply IH; auto. intros q Hq. apply Hle. right; exact Hq.
Qed.

Lemma sl_line_wf r : FaRecWf r -> forall i, S i < length (rseqpos r) ->
  sl_line r i = SlItem (nth i (lines_of (rbuf r) (rseqpos r)) []).
Proof.
  intros (p0 & ps & Hp & Hs & Hinc & Hlast) i Hi.
  unfold sl_line.
  destruct (nth_error (rseqpos r) i) as [a|] eqn:Ea;
    [| apply nth_error_None in Ea; lia].
  destruct (nth_error (rseqpos r) (S i)) as [e|] eqn:Ee;
    [| apply nth_error_None in Ee; lia].
  rewrite (fa_line_lines (rbuf r) (rseqpos r)) with (i := i); auto.
  - rewrite Hp; exact Hinc.
  - intros q Hq. rewrite Hp in Hq. pose proof (Incr_le_last _ Hinc q Hq). lia.
Qed.

(* ------------------------------------------------------------------ *)
(** * Draining the iterator: from the front, from the back, from both ends *)

(** draining from the back: what [rec.seq_lines().rev()] sees *)
Fixpoint sl_drain_back (fuel : nat) (s : seqlines) : option (list (list byte)) :=
  match fuel with
  | 0 => Some []
  | S f =>
      match sl_next_back s with
      | (_, SlNone) => Some []
      | (_, SlPanic) => None
      | (s', SlItem l) => option_map (cons l) (sl_drain_back f s')
      end
  end.

(** an arbitrary schedule of front/back steps: the lines handed out at the
    front (in order) and at the back (in order); [None] = panic *)
Fixpoint sl_collect (s : seqlines) (ds : list dq_step)
  : option (list (list byte) * list (list byte)) :=
  match ds with
  | [] => Some ([], [])
  | d :: t =>
      let '(s', o) := sl_step s d in
      match o with
      | SlPanic => None
      | SlNone => sl_collect s' t
      | SlItem l =>
          match sl_collect s' t with
          | None => None
          | Some (fr, bk) =>
              Some (match d with DFront => (l :: fr, bk) | DBack => (fr, l :: bk) end)
          end
      end
  end.

(** strictly alternating schedule front, back, front, ... *)
Fixpoint alternate (n : nat) (d : dq_step) : list dq_step :=
  match n with
  | 0 => []
  | S k => d :: alternate k (match d with DFront => DBack | DBack => DFront end)
  end.

Lemma alternate_length n d : length (alternate n d) = n.
Proof. revert d; induction n as [|n IH]; intros d; [reflexivity|]. cbn. rewrite IH. reflexivity. Qed.

Section Drain.
  Variable f : nat -> list byte.

  Lemma sl_drain_ok : forall fuel s, SLInv s ->
    (forall i, In i (sl_todo s) -> sl_line (sl_rec s) i = SlItem (f i)) ->
    length (sl_todo s) <= fuel -> sl_drain fuel s = Some (map f (sl_todo s)).
  Proof.
    induction fuel as [|fuel IH]; intros s Hi Hl Hf.
    - destruct (sl_todo s) as [|i t]; [reflexivity | cbn in Hf; lia].
    - cbn [sl_drain]. pose proof (sl_next_spec s Hi) as H.
      destruct (sl_next s) as [s' o]. destruct H as (Hi' & Hr & H).
      destruct (sl_todo s) as [|i t] eqn:Et.
      + destruct H as [-> _]. reflexivity.
      + destruct H as [-> Ht]. rewrite (Hl i (or_introl eq_refl)).
        rewrite (IH s' Hi').
        * rewrite Ht. reflexivity.
        * intros j Hj. rewrite Hr. apply Hl. right. rewrite <- Ht. exact Hj.
        * rewrite Ht. cbn [length] in Hf. lia.
  Qed.

  Lemma sl_drain_back_ok : forall fuel s, SLInv s ->
    (forall i, In i (sl_todo s) -> sl_line (sl_rec s) i = SlItem (f i)) ->
    length (sl_todo s) <= fuel -> sl_drain_back fuel s = Some (map f (rev (sl_todo s))).
  Proof.
    induction fuel as [|fuel IH]; intros s Hi Hl Hf.
    - destruct (sl_todo s) as [|i t]; [reflexivity | cbn in Hf; lia].
    - cbn [sl_drain_back]. pose proof (sl_next_back_spec s Hi) as H.
      destruct (sl_next_back s) as [s' o]. destruct H as (Hi' & Hr & H).
      assert (Hlen : length (rev (sl_todo s)) <= S fuel) by (rewrite rev_length; exact Hf).
      assert (Hl' : forall i, In i (rev (sl_todo s)) -> sl_line (sl_rec s) i = SlItem (f i))
        by (intros i Hin; apply Hl; apply in_rev; exact Hin).
      destruct (rev (sl_todo s)) as [|i t] eqn:Et.
      + destruct H as [-> _]. reflexivity.
      + destruct H as [-> Ht]. rewrite (Hl' i (or_introl eq_refl)).
        rewrite (IH s' Hi').
        * rewrite Ht, rev_involutive. reflexivity.
        * intros j Hj. rewrite Hr. apply Hl'. right. rewrite Ht in Hj.
          apply in_rev. exact Hj.
        * rewrite Ht, rev_length. cbn [length] in Hlen. lia.
  Qed.

  Lemma sl_collect_ok : forall ds s, SLInv s ->
    (forall i, In i (sl_todo s) -> sl_line (sl_rec s) i = SlItem (f i)) ->
    exists fr bk rest, sl_collect s ds = Some (fr, bk) /\
      fr ++ rest ++ rev bk = map f (sl_todo s) /\
      (length (sl_todo s) <= length ds -> rest = []).
  Proof.
    induction ds as [|d ds IH]; intros s Hi Hl.
    - exists [], [], (map f (sl_todo s)). cbn [sl_collect rev app]. rewrite app_nil_r.
      split; [reflexivity|]. split; [reflexivity|].
      intros H. destruct (sl_todo s); [reflexivity | cbn in H; lia].
    - cbn [sl_collect]. destruct d; cbn [sl_step].
      + pose proof (sl_next_spec s Hi) as H.
        destruct (sl_next s) as [s' o]. destruct H as (Hi' & Hr & H).
        destruct (sl_todo s) as [|i t] eqn:Et.
        * destruct H as [-> Ht].
          destruct (IH s' Hi') as (fr & bk & rest & Hc & Hp & Hn).
          { rewrite Ht. intros j []. }
          exists fr, bk, rest. split; [exact Hc|]. rewrite Ht in Hp, Hn.
          split; [exact Hp|]. intros _. apply Hn. cbn; lia.
        * destruct H as [-> Ht]. rewrite (Hl i (or_introl eq_refl)).
          destruct (IH s' Hi') as (fr & bk & rest & Hc & Hp & Hn).
          { intros j Hj. rewrite Hr. apply Hl. right. rewrite <- Ht. exact Hj. }
          rewrite Hc. exists (f i :: fr), bk, rest. split; [reflexivity|].
          rewrite Ht in Hp, Hn. split; [cbn [app map]; rewrite Hp; reflexivity|].
          intros H. apply Hn. cbn [length] in H. lia.
      + pose proof (sl_next_back_spec s Hi) as H.
        destruct (sl_next_back s) as [s' o]. destruct H as (Hi' & Hr & H).
        destruct (rev (sl_todo s)) as [|i t] eqn:Et.
        * destruct H as [-> Ht].
          assert (Hnil : sl_todo s = []).
          { apply (f_equal (@rev nat)) in Et. rewrite rev_involutive in Et. exact Et. }
          destruct (IH s' Hi') as (fr & bk & rest & Hc & Hp & Hn).
          { rewrite Ht. intros j []. }
          exists fr, bk, rest. split; [exact Hc|]. rewrite Ht in Hp, Hn. rewrite Hnil.
          split; [exact Hp|]. intros _. apply Hn. cbn; lia.
        * destruct H as [-> Ht].
          assert (Hcons : sl_todo s = rev t ++ [i]).
          { apply (f_equal (@rev nat)) in Et. rewrite rev_involutive in Et. exact Et. }
          rewrite (Hl i) by (rewrite Hcons; apply in_or_app; right; left; reflexivity).
          destruct (IH s' Hi') as (fr & bk & rest & Hc & Hp & Hn).
          { intros j Hj. rewrite Hr. apply Hl. rewrite Hcons. apply in_or_app. left.
            rewrite <- Ht. exact Hj. }
          rewrite Hc. exists fr, (f i :: bk), rest. split; [reflexivity|].
          rewrite Ht in Hp, Hn. rewrite Hcons. split.
          -- cbn [rev]. rewrite map_app, <- Hp, !app_assoc. reflexivity.
          -- intros H. apply Hn. rewrite app_length in H. cbn [length] in H. lia.
  Qed.
End Drain.

Lemma map_nth_seq {A} (l : list A) d : map (fun i => nth i l d) (seq 0 (length l)) = l.
Proof.
  induction l as [|x l IH]; [reflexivity|].
  cbn [length seq map nth]. f_equal. rewrite <- seq_shift, map_map. exact IH.
Qed.

(* ------------------------------------------------------------------ *)
(** * C13: totality and agreement of the FASTA views *)

Lemma fa_head_wf r : FaRecWf r ->
  fa_head r = Some (trim_cr (sub (rbuf r) (rstart r + 1) (hd 0 (rseqpos r)))).
Proof.
  intros (p0 & ps & Hp & Hs & Hinc & Hlast). unfold fa_head. rewrite Hp. cbn [hd].
  pose proof (Incr_le_last _ Hinc p0 (or_introl eq_refl)) as Hle.
  rewrite slice_some by lia. reflexivity.
Qed.

Lemma fa_seq_raw_wf r : FaRecWf r ->
  fa_seq_raw r = Some (match rseqpos r with
                       | f :: _ :: _ => trim_cr (sub (rbuf r) (f + 1) (last (rseqpos r) 0))
                       | _ => []
                       end).
Proof.
  intros (p0 & ps & Hp & Hs & Hinc & Hlast). unfold fa_seq_raw. rewrite Hp.
  destruct ps as [|e t]; [reflexivity|].
  rewrite (last_opt_last (p0 :: e :: t) 0) by discriminate.
  assert (p0 < last (p0 :: e :: t) 0).
  { destruct Hinc as [H1 H2].
    pose proof (Incr_le_last (e :: t) H2 e (or_introl eq_refl)) as H3.
    change (last (p0 :: e :: t) 0) with (last (e :: t) 0). lia. }
  rewrite slice_some by lia. reflexivity.
Qed.

Record fa_agree (r : fa_rec) (ls : list (list byte)) : Prop := mkFaAgree {
  fag_lines : fa_lines r = Some ls;
  fag_len : length ls = length (rseqpos r) - 1;
  fag_num : fa_num_seq_lines r = Some (length ls);
  fag_owned : fa_owned_seq r = Some (concat ls);
  fag_full : exists b, fa_full_seq r = Some (b, concat ls) /\ (b = true <-> length ls = 1);
  fag_to_owned : exists h, fa_head r = Some h /\ fa_to_owned r = Some (h, concat ls);
  fag_iter : exists s, fa_seq_lines r = Some s /\ sl_len s = length ls /\
      (forall fuel, length ls <= fuel -> sl_drain fuel s = Some ls) /\
      (forall fuel, length ls <= fuel -> sl_drain_back fuel s = Some (rev ls)) /\
      (forall ds, exists fr bk rest, sl_collect s ds = Some (fr, bk) /\
          fr ++ rest ++ rev bk = ls /\ (length ls <= length ds -> rest = []))
}.

Lemma fa_views_agree_lines r : FaRecWf r -> fa_agree r (lines_of (rbuf r) (rseqpos r)).
Proof.
  intros Hwf. pose proof Hwf as (p0 & ps & Hp & Hs & Hinc & Hlast).
  set (ls := lines_of (rbuf r) (rseqpos r)).
  assert (Hlen : length ls = length (rseqpos r) - 1) by apply lines_of_length.
  (* seq_lines() never panics (Model/Views.v) *)
  destruct (fa_seq_lines r) as [s|] eqn:Es; [| unfold fa_seq_lines in Es; discriminate].
  destruct (sl_init_inv r s Es) as (Hi & Hr & Ht).
  set (f := fun i => nth i ls []).
  assert (Hl : forall i, In i (sl_todo s) -> sl_line (sl_rec s) i = SlItem (f i)).
  { intros i Hin. rewrite Ht in Hin. apply in_seq in Hin. rewrite Hr.
    apply sl_line_wf; [exact Hwf | lia]. }
  assert (Hmap : map f (sl_todo s) = ls).
  { rewrite Ht, <- Hlen. apply map_nth_seq. }
  assert (Htl : length (sl_todo s) = length ls).
  { rewrite Ht, seq_length. lia. }
  assert (Hlines : fa_lines r = Some ls).
  { unfold fa_lines. rewrite Es. rewrite (sl_drain_ok f _ s Hi Hl); [rewrite Hmap; reflexivity|].
    rewrite Htl, Hlen. lia. }
  assert (Hnum : fa_num_seq_lines r = Some (length ls)).
  { unfold fa_num_seq_lines. rewrite Es. cbn [option_map]. rewrite sl_len_todo, Htl. reflexivity. }
  assert (Hown : fa_owned_seq r = Some (concat ls)).
  { unfold fa_owned_seq. rewrite Hlines. reflexivity. }
  constructor; auto.
  - (* full_seq *)
    unfold fa_full_seq. rewrite Hnum.
    destruct (length ls =? 1) eqn:E1; [apply Nat.eqb_eq in E1 | apply Nat.eqb_neq in E1].
    + exists true. split; [|tauto].
      rewrite (fa_seq_raw_wf r Hwf). cbn [option_map].
      subst ls. revert E1. rewrite lines_of_length, Hp.
      destruct ps as [|e [|e' t]]; cbn [length]; try lia. intros _.
      cbn [lines_of concat last]. rewrite app_nil_r. reflexivity.
    + exists false. split; [| split; [discriminate | intros; contradiction]].
      rewrite Hown. reflexivity.
  - (* to_owned *)
    eexists. split; [apply (fa_head_wf r Hwf)|].
    unfold fa_to_owned. rewrite (fa_head_wf r Hwf), Hown. reflexivity.
  - (* the iterator *)
    exists s. split; [exact Es|]. split; [rewrite sl_len_todo; exact Htl|].
    split; [|split].
    + intros fuel Hf. rewrite (sl_drain_ok f fuel s Hi Hl); [rewrite Hmap; reflexivity | lia].
    + intros fuel Hf. rewrite (sl_drain_back_ok f fuel s Hi Hl); [| lia].
      rewrite map_rev, Hmap. reflexivity.
    + intros ds. destruct (sl_collect_ok f ds s Hi Hl) as (fr & bk & rest & Hc & Hp' & Hn).
      exists fr, bk, rest. rewrite Hmap in Hp'. rewrite Htl in Hn. auto.
Qed.

(** C13_fa_views_agree *)
Theorem fa_views_agree r : FaRecWf r ->
  exists ls,
    fa_lines r = Some ls /\
    length ls = length (rseqpos r) - 1 /\
    fa_num_seq_lines r = Some (length ls) /\
    fa_owned_seq r = Some (concat ls) /\
    (exists b, fa_full_seq r = Some (b, concat ls) /\ (b = true <-> length ls = 1)) /\
    (exists h, fa_head r = Some h /\ fa_to_owned r = Some (h, concat ls)) /\
    (exists s, fa_seq_lines r = Some s /\ sl_len s = length ls /\
       (forall fuel, length ls <= fuel -> sl_drain fuel s = Some ls) /\
       (forall fuel, length ls <= fuel -> sl_drain_back fuel s = Some (rev ls)) /\
       (forall ds, exists fr bk rest, sl_collect s ds = Some (fr, bk) /\
           fr ++ rest ++ rev bk = ls /\ (length ls <= length ds -> rest = []))).
Proof.
  intros Hwf. destruct (fa_views_agree_lines r Hwf).
  exists (lines_of (rbuf r) (rseqpos r)). repeat (split; [assumption|]). assumption.
Qed.

(** C13_fa_views_total *)
Theorem fa_views_total r : FaRecWf r ->
  (exists h, fa_head r = Some h) /\ (exists x, fa_seq_raw r = Some x) /\
  (exists ls, fa_lines r = Some ls) /\ (exists n, fa_num_seq_lines r = Some n) /\
  (exists x, fa_owned_seq r = Some x) /\ (exists p, fa_full_seq r = Some p) /\
  (exists p, fa_to_owned r = Some p).
Proof.
  intros Hwf. destruct (fa_views_agree_lines r Hwf) as [H1 H2 H3 H4 H5 H6 H7].
  destruct H5 as (b & H5 & _). destruct H6 as (h & H6 & H6').
  split; [eauto|]. split; [rewrite (fa_seq_raw_wf r Hwf); eauto|].
  repeat (split; [eauto|]). eauto.
Qed.

(** both ends, alternately: every line exactly once *)
Corollary fa_alternate r : FaRecWf r ->
  exists ls s fr bk, fa_lines r = Some ls /\ fa_seq_lines r = Some s /\
    sl_collect s (alternate (length ls) DFront) = Some (fr, bk) /\ fr ++ rev bk = ls.
Proof.
  intros Hwf. destruct (fa_views_agree_lines r Hwf) as [H1 _ _ _ _ _ (s & Hs & _ & _ & _ & Hc)].
  destruct (Hc (alternate (length (lines_of (rbuf r) (rseqpos r))) DFront))
    as (fr & bk & rest & Hc1 & Hc2 & Hc3).
  rewrite alternate_length in Hc3. rewrite (Hc3 (le_n _)) in Hc2. cbn [app] in Hc2.
  eauto 10.
Qed.

(* ------------------------------------------------------------------ *)
(** * C13: the raw sequence differs from the lines only by terminators *)

(** remove every LF and one CR directly before each LF; nothing at the very end *)
Fixpoint strip_terminators (l : list byte) : list byte :=
  match l with
  | [] => []
  | c :: r =>
      if c =? LF then strip_terminators r
      else if (c =? CR) && (match r with d :: _ => d =? LF | [] => false end)
           then strip_terminators r
           else c :: strip_terminators r
  end.

Definition NoLf (l : list byte) : Prop := Forall (fun c => c <> LF) l.

Lemma strip_nolf l : NoLf l -> strip_terminators l = l.
Proof.
  induction l as [|c l IH]; intros H; [reflexivity|].
  inversion H as [|? ? Hc Hl]; subst. cbn [strip_terminators].
  apply Nat.eqb_neq in Hc. rewrite Hc.
  destruct l as [|d l].
  - rewrite andb_false_r. reflexivity.
  - inversion Hl as [|? ? Hd _]; subst. apply Nat.eqb_neq in Hd. rewrite Hd, andb_false_r.
    rewrite (IH Hl). reflexivity.
Qed.

Lemma strip_app_lf seg rest : NoLf seg ->
  strip_terminators (seg ++ LF :: rest) = trim_cr seg ++ strip_terminators rest.
Proof.
  induction seg as [|c seg IH]; intros H.
  - reflexivity.
  - inversion H as [|? ? Hc Hl]; subst. apply Nat.eqb_neq in Hc.
    destruct seg as [|d seg].
    + cbn [app strip_terminators trim_cr]. rewrite Hc, Nat.eqb_refl, andb_true_r.
      destruct (c =? CR); reflexivity.
    + inversion Hl as [|? ? Hd _]; subst. apply Nat.eqb_neq in Hd.
      rewrite trim_cr_cons2.
      change ((c :: d :: seg) ++ LF :: rest) with (c :: ((d :: seg) ++ LF :: rest)).
      change (strip_terminators (c :: (d :: seg) ++ LF :: rest))
        with (if c =? LF then strip_terminators ((d :: seg) ++ LF :: rest)
              else if (c =? CR) && (d =? LF) then strip_terminators ((d :: seg) ++ LF :: rest)
                   else c :: strip_terminators ((d :: seg) ++ LF :: rest)).
      rewrite Hc, Hd, andb_false_r, (IH Hl). reflexivity.
Qed.

(** every stored line end except the last is an LF *)
Definition LfAt (b : list byte) (l : list nat) : Prop :=
  Forall (fun p => nth_error b p = Some LF) (removelast l).
(** and there is no other LF between the first and the last stored position *)
Definition NoOtherLf (b : list byte) (l : list nat) : Prop :=
  forall q, hd 0 l <= q -> q < last l 0 -> nth_error b q = Some LF -> In q l.

Definition FaRecLf (r : fa_rec) : Prop :=
  FaRecWf r /\ LfAt (rbuf r) (rseqpos r) /\ NoOtherLf (rbuf r) (rseqpos r).

Lemma seg_nolf b a e t : Incr (a :: e :: t) -> NoOtherLf b (a :: e :: t) ->
  NoLf (sub b (a + 1) e).
Proof.
  intros Hinc Hno. apply Forall_forall. intros x Hx ->.
  destruct (In_sub _ _ _ _ Hx) as (q & Hq1 & Hq2 & Hq).
  destruct Hinc as [Hae Hinc].
  pose proof (Incr_le_last (e :: t) Hinc e (or_introl eq_refl)) as Hel.
  assert (Hin : In q (a :: e :: t)).
  { apply Hno; [cbn [hd]; lia | change (last (a :: e :: t) 0) with (last (e :: t) 0); lia | exact Hq]. }
  destruct Hin as [<- | [<- | Hin]]; [lia | lia |].
  pose proof (Incr_gt e t Hinc q Hin). lia.
Qed.

Lemma raw_strip b : forall t a, t <> [] -> Incr (a :: t) ->
  LfAt b (a :: t) -> NoOtherLf b (a :: t) ->
  strip_terminators (trim_cr (sub b (a + 1) (last (a :: t) 0))) = concat (lines_of b (a :: t)).
Proof.
  induction t as [|e t IH]; intros a Hne Hinc Hlf Hno; [contradiction|].
  pose proof (seg_nolf b a e t Hinc Hno) as Hseg.
  destruct t as [|e' t].
  - cbn [last lines_of concat]. rewrite app_nil_r.
    apply strip_nolf. apply trim_cr_Forall. exact Hseg.
  - change (last (a :: e :: e' :: t) 0) with (last (e :: e' :: t) 0).
    change (lines_of b (a :: e :: e' :: t))
      with (trim_cr (sub b (a + 1) e) :: lines_of b (e :: e' :: t)).
    cbn [concat].
    pose proof Hinc as [Hae Hinc'].
    assert (Hel : e < last (e :: e' :: t) 0).
    { destruct Hinc' as [H1 H2].
      pose proof (Incr_le_last (e' :: t) H2 e' (or_introl eq_refl)).
      change (last (e :: e' :: t) 0) with (last (e' :: t) 0). lia. }
    assert (Hlf' : LfAt b (e :: e' :: t)).
    { unfold LfAt in *. change (removelast (a :: e :: e' :: t)) with (a :: removelast (e :: e' :: t)) in Hlf.
      inversion Hlf; assumption. }
    assert (He : nth_error b e = Some LF).
    { unfold LfAt in Hlf'. change (removelast (e :: e' :: t)) with (e :: removelast (e' :: t)) in Hlf'.
      inversion Hlf'; assumption. }
    rewrite (sub_split b (a + 1) e (last (e :: e' :: t) 0)) by lia.
    rewrite (sub_split b e (S e) (last (e :: e' :: t) 0)) by lia.
    rewrite (sub_single b e LF He). cbn [app].
    rewrite trim_cr_app_lf, (strip_app_lf _ _ Hseg). f_equal.
    replace (S e) with (e + 1) by lia.
    apply IH; [discriminate | exact Hinc' | exact Hlf' |].
    intros q Hq1 Hq2 Hq. cbn [hd] in Hq1.
    assert (Hin : In q (a :: e :: e' :: t)).
    { apply Hno; [cbn [hd]; lia | exact Hq2 | exact Hq]. }
    destruct Hin as [<- | Hin]; [lia | exact Hin].
Qed.

(** C13_fa_raw_seq *)
Theorem fa_raw_seq r : FaRecLf r ->
  exists raw ls, fa_seq_raw r = Some raw /\ fa_lines r = Some ls /\
    strip_terminators raw = concat ls.
Proof.
  intros (Hwf & Hlf & Hno).
  destruct (fa_views_agree_lines r Hwf) as [H1 _ _ _ _ _ _].
  eexists; eexists. split; [apply (fa_seq_raw_wf r Hwf)|]. split; [exact H1|].
  destruct Hwf as (p0 & ps & Hp & Hs & Hinc & Hlast). rewrite Hp in *.
  destruct ps as [|e t]; [reflexivity|].
  apply raw_strip; auto. discriminate.
Qed.

(** does the list end in CR? *)
Fixpoint ends_cr (l : list byte) : bool :=
  match l with
  | [] => false
  | [c] => c =? CR
  | _ :: r => ends_cr r
  end.

Lemma trim_cr_spec l : l = trim_cr l ++ (if ends_cr l then [CR] else []).
Proof.
  induction l as [|c l IH]; [reflexivity|].
  destruct l as [|d l].
  - cbn [trim_cr ends_cr]. destruct (c =? CR) eqn:E; [|reflexivity].
    apply Nat.eqb_eq in E. subst. reflexivity.
  - rewrite trim_cr_cons2. change (ends_cr (c :: d :: l)) with (ends_cr (d :: l)).
    cbn [app]. f_equal. exact IH.
Qed.

Lemma strip_snoc y c : c <> LF -> strip_terminators (y ++ [c]) = strip_terminators y ++ [c].
Proof.
  intros Hc. apply Nat.eqb_neq in Hc.
  induction y as [|d y IH].
  - cbn [app strip_terminators]. rewrite Hc, andb_false_r. reflexivity.
  - destruct y as [|e y].
    + cbn [app strip_terminators]. rewrite Hc, !andb_false_r.
      destruct (d =? LF); reflexivity.
    + change ((d :: e :: y) ++ [c]) with (d :: e :: (y ++ [c])) in *.
      change ((e :: y) ++ [c]) with (e :: (y ++ [c])) in IH.
      change (strip_terminators (d :: e :: y ++ [c]))
        with (if d =? LF then strip_terminators (e :: y ++ [c])
              else if (d =? CR) && (e =? LF) then strip_terminators (e :: y ++ [c])
                   else d :: strip_terminators (e :: y ++ [c])).
      change (strip_terminators (d :: e :: y))
        with (if d =? LF then strip_terminators (e :: y)
              else if (d =? CR) && (e =? LF) then strip_terminators (e :: y)
                   else d :: strip_terminators (e :: y)).
      rewrite IH. destruct (d =? LF); [reflexivity|].
      destruct ((d =? CR) && (e =? LF)); reflexivity.
Qed.

(** The untrimmed extent (the bytes between the first and the last stored line
    end) keeps exactly the final CR of the last line, which [seq()] removes
    with its own [trim_cr] before anything else: stripping the extent gives the
    lines' bytes plus that one trailing CR, if there is one. *)
Theorem fa_raw_extent r : FaRecLf r -> forall f e t, rseqpos r = f :: e :: t ->
  exists ls, fa_lines r = Some ls /\
    fa_seq_raw r = Some (trim_cr (sub (rbuf r) (f + 1) (last (rseqpos r) 0))) /\
    strip_terminators (sub (rbuf r) (f + 1) (last (rseqpos r) 0)) =
      concat ls ++ (if ends_cr (sub (rbuf r) (f + 1) (last (rseqpos r) 0)) then [CR] else []).
Proof.
  intros Hlf f e t Hp. pose proof Hlf as (Hwf & _ & _).
  destruct (fa_raw_seq r Hlf) as (raw & ls & Hraw & Hls & Heq).
  exists ls. split; [exact Hls|].
  rewrite (fa_seq_raw_wf r Hwf), Hp in Hraw. rewrite <- Hp in Hraw.
  split; [rewrite (fa_seq_raw_wf r Hwf), Hp; rewrite <- Hp; reflexivity|].
  inversion Hraw as [Hr]. rewrite <- Heq, <- Hr.
  set (ext := sub (rbuf r) (f + 1) (last (rseqpos r) 0)).
  rewrite (trim_cr_spec ext) at 1.
  destruct (ends_cr ext).
  - apply strip_snoc. discriminate.
  - rewrite !app_nil_r. reflexivity.
Qed.

(* ------------------------------------------------------------------ *)
(** * Boolean checkers for the well-formedness predicates (used by the
      non-vacuity examples and the refutation witnesses) *)

Fixpoint incr_b (l : list nat) : bool :=
  match l with
  | a :: (e :: _) as t => (a <? e) && incr_b t
  | _ => true
  end.

Lemma incr_b_sound l : incr_b l = true -> Incr l.
Proof.
  induction l as [|a t IH]; [intros; exact I|].
  destruct t as [|e t]; [intros; exact I|].
  change (incr_b (a :: e :: t)) with ((a <? e) && incr_b (e :: t)).
  intros H. apply andb_prop in H. destruct H as [H1 H2]. apply Nat.ltb_lt in H1.
  split; [exact H1 | exact (IH H2)].
Qed.

Definition fa_rec_wf_b (r : fa_rec) : bool :=
  match rseqpos r with
  | [] => false
  | p0 :: ps => (rstart r <? p0) && incr_b (p0 :: ps) && (last (p0 :: ps) 0 <=? length (rbuf r))
  end.

Lemma fa_rec_wf_b_sound r : fa_rec_wf_b r = true -> FaRecWf r.
Proof.
  unfold fa_rec_wf_b, FaRecWf. destruct (rseqpos r) as [|p0 ps]; [discriminate|].
  intros H. apply andb_prop in H. destruct H as [H H3]. apply andb_prop in H. destruct H as [H1 H2].
  apply Nat.ltb_lt in H1. apply Nat.leb_le in H3. apply incr_b_sound in H2.
  exists p0, ps. auto.
Qed.

Definition is_lf (b : list byte) (p : nat) : bool :=
  match nth_error b p with Some c => c =? LF | None => false end.

Lemma is_lf_true b p : is_lf b p = true <-> nth_error b p = Some LF.
Proof.
  unfold is_lf. destruct (nth_error b p) as [c|]; [|split; discriminate].
  split; [intros H; apply Nat.eqb_eq in H; subst; reflexivity|].
  intros H; inversion H. reflexivity.
Qed.

Definition fa_rec_lf_b (r : fa_rec) : bool :=
  fa_rec_wf_b r &&
  forallb (is_lf (rbuf r)) (removelast (rseqpos r)) &&
  forallb (fun q => implb (is_lf (rbuf r) q) (existsb (Nat.eqb q) (rseqpos r)))
          (seq (hd 0 (rseqpos r)) (last (rseqpos r) 0 - hd 0 (rseqpos r))).

Lemma fa_rec_lf_b_sound r : fa_rec_lf_b r = true -> FaRecLf r.
Proof.
  unfold fa_rec_lf_b, FaRecLf. intros H.
  apply andb_prop in H. destruct H as [H H3]. apply andb_prop in H. destruct H as [H1 H2].
  split; [apply fa_rec_wf_b_sound; exact H1|]. split.
  - unfold LfAt. apply Forall_forall. intros p Hp.
    rewrite forallb_forall in H2. apply is_lf_true. apply H2. exact Hp.
  - intros q Hq1 Hq2 Hq. rewrite forallb_forall in H3.
    assert (Hin : In q (seq (hd 0 (rseqpos r)) (last (rseqpos r) 0 - hd 0 (rseqpos r))))
      by (apply in_seq; lia).
    specialize (H3 q Hin). apply is_lf_true in Hq. rewrite Hq in H3. cbn [implb] in H3.
    apply existsb_exists in H3. destruct H3 as (x & Hx & Hqx).
    apply Nat.eqb_eq in Hqx. subst. exact Hx.
Qed.

(** ** Witnesses: which hypotheses and which order of operations matter *)

(** With well-formed offsets only (an LF inside a line that the offsets do not
    record) the terminator claim fails: [FaRecLf] is needed. *)
Lemma fa_raw_seq_needs_lf_refuted :
  exists r raw ls, FaRecWf r /\ fa_seq_raw r = Some raw /\ fa_lines r = Some ls /\
    strip_terminators raw <> concat ls.
Proof.
  exists (mkFaRec [62;97;10;65;13;10;67;10] 0 [2;7]).
  eexists; eexists. split; [apply fa_rec_wf_b_sound; vm_compute; reflexivity|].
  split; [vm_compute; reflexivity|]. split; [vm_compute; reflexivity|].
  vm_compute. discriminate.
Qed.

(** The extent without [seq()]'s own trim_cr: a final CR of the last line
    survives [strip_terminators] but is not part of the line. *)
Lemma fa_raw_extent_refuted :
  exists r f e t ls, FaRecLf r /\ rseqpos r = f :: e :: t /\ fa_lines r = Some ls /\
    strip_terminators (sub (rbuf r) (f + 1) (last (rseqpos r) 0)) <> concat ls.
Proof.
  exists (mkFaRec [62;97;10;65;67;13] 0 [2;6]), 2, 6, [].
  eexists. split; [apply fa_rec_lf_b_sound; vm_compute; reflexivity|].
  split; [reflexivity|]. split; [vm_compute; reflexivity|].
  vm_compute. discriminate.
Qed.

(** Order matters: trimming one CR *after* stripping is wrong when the
    next-to-last line ends in two CRs and the last line is empty. *)
Lemma fa_raw_trim_after_refuted :
  exists r f e t ls, FaRecLf r /\ rseqpos r = f :: e :: t /\ fa_lines r = Some ls /\
    trim_cr (strip_terminators (sub (rbuf r) (f + 1) (last (rseqpos r) 0))) <> concat ls.
Proof.
  exists (mkFaRec [62;97;10;65;13;13;10;10] 0 [2;6;7]), 2, 6, [7].
  eexists. split; [apply fa_rec_lf_b_sound; vm_compute; reflexivity|].
  split; [reflexivity|]. split; [vm_compute; reflexivity|].
  vm_compute. discriminate.
Qed.

(* ------------------------------------------------------------------ *)
(** * C13: id / description split *)

Lemma split_sp_join head :
  head = fst (split_sp head) ++ match snd (split_sp head) with Some d => SP :: d | None => [] end.
Proof.
  induction head as [|c r IH]; [reflexivity|].
  cbn [split_sp]. destruct (c =? SP) eqn:E.
  - apply Nat.eqb_eq in E. subst. reflexivity.
  - destruct (split_sp r) as [a d]. cbn [fst snd] in *. cbn [app]. f_equal. exact IH.
Qed.

Lemma split_sp_id_nosp head : ~ In SP (fst (split_sp head)).
Proof.
  induction head as [|c r IH]; [intros []|].
  cbn [split_sp]. destruct (c =? SP) eqn:E.
  - intros [].
  - apply Nat.eqb_neq in E. destruct (split_sp r) as [a d]. cbn [fst] in *.
    intros [H | H]; [congruence | exact (IH H)].
Qed.

Lemma split_sp_none head : snd (split_sp head) = None <-> ~ In SP head.
Proof.
  induction head as [|c r IH]; [split; [intros _ [] | reflexivity]|].
  cbn [split_sp]. destruct (c =? SP) eqn:E.
  - apply Nat.eqb_eq in E. subst. cbn [snd]. split; [discriminate|].
    intros H. exfalso. apply H. left; reflexivity.
  - apply Nat.eqb_neq in E. destruct (split_sp r) as [a d]. cbn [snd] in *.
    rewrite IH. split.
    + intros H [H' | H']; [congruence | exact (H H')].
    + intros H H'. apply H. right; exact H'.
Qed.

(** C13_id_desc *)
Theorem id_desc_split head :
  head = id_bytes head ++ (match desc_bytes head with Some d => SP :: d | None => [] end) /\
  ~ In SP (id_bytes head) /\
  (desc_bytes head = None <-> ~ In SP head) /\
  id_desc_bytes head = (id_bytes head, desc_bytes head).
Proof.
  unfold id_bytes, desc_bytes, id_desc_bytes.
  split; [apply split_sp_join|]. split; [apply split_sp_id_nosp|].
  split; [apply split_sp_none|]. destruct (split_sp head); reflexivity.
Qed.

(* ------------------------------------------------------------------ *)
(** * C13: FASTQ views *)

(** the four offsets lie in order inside the buffer, with room for the
    leading '@' and the LF before the sequence / before the separator line *)
Definition FqRecWf (r : fq_rec) : Prop :=
  r0 r + 2 <= rseq r /\ rseq r + 1 <= rsep r /\ rsep r <= rqual r /\
  rqual r <= r1 r /\ r1 r <= length (qrbuf r).

(** C13_fq_views *)
Theorem fq_views r : FqRecWf r ->
  fq_head r = Some (trim_cr (sub (qrbuf r) (r0 r + 1) (rseq r - 1))) /\
  fq_seq r = Some (trim_cr (sub (qrbuf r) (rseq r) (rsep r - 1))) /\
  fq_qual r = Some (trim_cr (sub (qrbuf r) (rqual r) (r1 r))) /\
  exists h s q, fq_head r = Some h /\ fq_seq r = Some s /\ fq_qual r = Some q /\
                fq_to_owned r = Some (h, s, q).
Proof.
  intros (H1 & H2 & H3 & H4 & H5).
  assert (Hh : fq_head r = Some (trim_cr (sub (qrbuf r) (r0 r + 1) (rseq r - 1)))).
  { unfold fq_head, bp_head.
    destruct (rseq r =? 0) eqn:E; [apply Nat.eqb_eq in E; lia|].
    rewrite slice_some by lia. reflexivity. }
  assert (Hs : fq_seq r = Some (trim_cr (sub (qrbuf r) (rseq r) (rsep r - 1)))).
  { unfold fq_seq, bp_seq.
    destruct (rsep r =? 0) eqn:E; [apply Nat.eqb_eq in E; lia|].
    rewrite slice_some by lia. reflexivity. }
  assert (Hq : fq_qual r = Some (trim_cr (sub (qrbuf r) (rqual r) (r1 r)))).
  { unfold fq_qual, bp_qual. rewrite slice_some by lia. reflexivity. }
  split; [exact Hh|]. split; [exact Hs|]. split; [exact Hq|].
  eexists; eexists; eexists. split; [exact Hh|]. split; [exact Hs|]. split; [exact Hq|].
  unfold fq_to_owned. rewrite Hh, Hs, Hq. reflexivity.
Qed.
