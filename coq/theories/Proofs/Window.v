(** The refill loop [fill_buf] and the window it maintains over the input.
    Fault-free sources (no [RFailI] item); interrupted reads are allowed. *)
From SeqIO Require Import Model.Base.

(** bytes [a, e) of the input *)
Definition window (inp : list byte) (a e : nat) : list byte := firstn (e - a) (skipn a inp).

Lemma window_length inp a e : a <= e -> e <= length inp -> length (window inp a e) = e - a.
Proof. intros. unfold window. rewrite firstn_length, skipn_length. lia. Qed.

Lemma window_nil inp a : window inp a a = [].
Proof. unfold window. rewrite Nat.sub_diag. reflexivity. Qed.

Lemma skipn_skipn {A} (l : list A) a b : skipn a (skipn b l) = skipn (b + a) l.
Proof.
  revert l; induction b as [|b IH]; intros l; [reflexivity|].
  destruct l as [|x l]; [rewrite !skipn_nil; reflexivity|]. cbn [skipn Nat.add]. apply IH.
Qed.

Lemma firstn_app_split {A} (l : list A) a b : firstn (a + b) l = firstn a l ++ firstn b (skipn a l).
Proof.
  revert l; induction a as [|a IH]; intros l; [reflexivity|].
  destruct l as [|x l]; [rewrite !firstn_nil; reflexivity|]. cbn [firstn skipn Nat.add app]. f_equal. apply IH.
Qed.

Lemma window_app inp a m e : a <= m -> m <= e -> window inp a m ++ window inp m e = window inp a e.
Proof.
  intros H1 H2. unfold window.
  replace (e - a) with ((m - a) + (e - m)) by lia.
  rewrite firstn_app_split, skipn_skipn. replace (a + (m - a)) with m by lia. reflexivity.
Qed.

Lemma window_skipn inp a e c : a + c <= e -> skipn c (window inp a e) = window inp (a + c) e.
Proof.
  intros H. unfold window. rewrite skipn_firstn_comm, skipn_skipn.
  replace (e - a - c) with (e - (a + c)) by lia. reflexivity.
Qed.

Lemma window_firstn inp a e c : a + c <= e -> firstn c (window inp a e) = window inp a (a + c).
Proof.
  intros H. unfold window. rewrite firstn_firstn. f_equal. lia.
Qed.

Lemma window_to_end inp a e : length inp <= e -> window inp a e = skipn a inp.
Proof.
  intros H. unfold window. apply firstn_all2. rewrite skipn_length. lia.
Qed.

Lemma window_clip inp a e : window inp a e = window inp a (Nat.min e (length inp)).
Proof.
  unfold window. destruct (Nat.le_ge_cases e (length inp)) as [H|H].
  - rewrite Nat.min_l by lia. reflexivity.
  - rewrite Nat.min_r by lia. rewrite !firstn_all2; try reflexivity; rewrite skipn_length; lia.
Qed.

Lemma nth_error_firstn_lt {A} (l : list A) n i : i < n -> nth_error (firstn n l) i = nth_error l i.
Proof.
  revert l i; induction n as [|n IH]; intros l i H; [lia|].
  destruct l as [|x l]; [reflexivity|]. destruct i as [|i]; [reflexivity|]. cbn. apply IH. lia.
Qed.

Lemma nth_error_skipn_add {A} (l : list A) n i : nth_error (skipn n l) i = nth_error l (n + i).
Proof.
  revert l; induction n as [|n IH]; intros l; [reflexivity|].
  destruct l as [|x l]; [destruct i; reflexivity|]. cbn. apply IH.
Qed.

Lemma window_nth inp a e i : a + i < e -> e <= length inp ->
  nth_error (window inp a e) i = nth_error inp (a + i).
Proof.
  intros H1 H2. unfold window.
  rewrite nth_error_firstn_lt by lia. rewrite nth_error_skipn_add. reflexivity.
Qed.

(* ------------------------------------------------------------------ *)

Definition item_ok (i : ritem) : bool := match i with RFailI _ => false | _ => true end.
Definition no_fail (s : source) : Prop := forallb item_ok (s_rs s) = true.

Definition only_reads (old new : list ev) : Prop :=
  exists added, new = added ++ old /\ Forall (fun e => match e with EvRead _ _ => True | _ => False end) added.

Lemma only_reads_refl l : only_reads l l.
Proof. exists []. split; [reflexivity|constructor]. Qed.

Lemma only_reads_cons l l' o r : only_reads (EvRead o r :: l) l' -> only_reads l l'.
Proof.
  intros (ad & -> & Hf). exists (ad ++ [EvRead o r]). split.
  - rewrite <- app_assoc. reflexivity.
  - apply Forall_app. split; [assumption|]. constructor; [exact I|constructor].
Qed.

Lemma only_reads_trans a b c : only_reads a b -> only_reads b c -> only_reads a c.
Proof.
  intros (x & -> & Hx) (y & -> & Hy). exists (y ++ x). split; [rewrite app_assoc; reflexivity|].
  apply Forall_app; split; assumption.
Qed.

(** Result of a fault-free [fill_buf]: the buffer is extended by the next
    [min (cap - |buf|) remaining] bytes of the source, whatever the chunking
    and however many reads were interrupted. *)
Lemma fill_buf_ok fuel : forall buf cap s lg nr,
  no_fail s -> length (s_rs s) + 2 <= fuel -> length buf <= cap -> s_pos s <= length (s_data s) ->
  exists s' lg',
    fill_buf fuel buf cap s lg nr =
      (buf ++ firstn (cap - length buf) (skipn (s_pos s) (s_data s)), s', lg',
       FillOk (nr + Nat.min (cap - length buf) (length (s_data s) - s_pos s))) /\
    s_data s' = s_data s /\
    s_pos s' = s_pos s + Nat.min (cap - length buf) (length (s_data s) - s_pos s) /\
    s_ss s' = s_ss s /\ no_fail s' /\ length (s_rs s') <= length (s_rs s) /\ only_reads lg lg'.
Proof.
  induction fuel as [|f IH]; intros buf cap s lg nr Hnf Hfuel Hlen Hpos; [lia|].
  cbn [fill_buf].
  destruct (length buf <? cap) eqn:Efull; [apply Nat.ltb_lt in Efull | apply Nat.ltb_ge in Efull].
  2:{ exists s, lg. replace (cap - length buf) with 0 by lia. cbn [firstn Nat.min].
      rewrite app_nil_r, !Nat.add_0_r. repeat split; auto using only_reads_refl. }
  set (offered := cap - length buf) in *.
  assert (Hoff : 0 < offered) by (unfold offered; lia).
  destruct s as [data pos rs ss]. unfold no_fail in *. cbn [s_rs s_data s_pos s_ss] in *.
  unfold src_read, src_remaining; cbn [s_rs s_data s_pos s_ss].
  destruct rs as [|it rs].
  - (* script exhausted: deliver everything that fits *)
    set (n := Nat.min offered (length data - pos)).
    destruct n as [|n'] eqn:En.
    + (* nothing left *)
      assert (Hrem0 : length data - pos = 0) by lia.
      assert (skipn pos data = []) as -> by (apply length_zero_iff_nil; rewrite skipn_length; lia).
      rewrite firstn_nil, app_nil_r, ?Hrem0, ?Nat.min_0_r, ?Nat.add_0_r.
      eexists _, _. split; [reflexivity|]. cbn [s_rs s_data s_pos s_ss].
      repeat split; cbn [length]; auto; try lia. eexists [_]; split; [reflexivity|]. constructor; [exact I|constructor].
    + rewrite <- En.
      assert (Hn : n = Nat.min offered (length data - pos)) by reflexivity.
      assert (Hdl : length (firstn n (skipn pos data)) = n)
        by (rewrite firstn_length, skipn_length; lia).
      (* one more iteration: either full or exhausted *)
      destruct f as [|f']; [cbn in Hfuel; lia|].
      cbn [fill_buf]. rewrite app_length, Hdl.
      destruct (length buf + n <? cap) eqn:E2; [apply Nat.ltb_lt in E2 | apply Nat.ltb_ge in E2].
      * (* not full: the source is exhausted, the next read returns 0 *)
        unfold src_read, src_remaining; cbn [s_rs s_data s_pos s_ss].
        assert (Hrem : length data - (pos + n) = 0) by lia.
        rewrite Hrem, Nat.min_0_r.
        eexists _, _. split.
        { f_equal. f_equal. f_equal. f_equal. rewrite Hn.
          rewrite firstn_all2 by (rewrite skipn_length; lia).
          rewrite firstn_all2 by (rewrite skipn_length; lia). reflexivity. }
        cbn [s_rs s_data s_pos s_ss]. repeat split; cbn [length]; auto; try lia.
        eexists [_; _]; split; [reflexivity|]. repeat constructor.
      * eexists _, _. split.
        { f_equal. f_equal. f_equal. f_equal. rewrite Hn.
          replace (Nat.min offered (length data - pos)) with offered by lia. reflexivity. }
        cbn [s_rs s_data s_pos s_ss]. repeat split; cbn [length]; auto; try lia.
        eexists [_]; split; [reflexivity|]. repeat constructor.
  - cbn [forallb] in Hnf. apply andb_true_iff in Hnf. destruct Hnf as [Hit Hnf].
    destruct it as [m| |k]; [| |discriminate].
    + (* Deliver m *)
      set (n := Nat.min (S m) (Nat.min offered (length data - pos))).
      destruct n as [|n'] eqn:En.
      * assert (Hrem0 : length data - pos = 0) by lia.
        assert (skipn pos data = []) as -> by (apply length_zero_iff_nil; rewrite skipn_length; lia).
        rewrite firstn_nil, app_nil_r, ?Hrem0, ?Nat.min_0_r, ?Nat.add_0_r.
        eexists _, _. split; [reflexivity|]. cbn [s_rs s_data s_pos s_ss].
        repeat split; cbn [length]; auto; try lia.
        eexists [_]; split; [reflexivity|]. repeat constructor.
      * rewrite <- En.
        assert (Hn : n = Nat.min (S m) (Nat.min offered (length data - pos))) by reflexivity.
        assert (Hdl : length (firstn n (skipn pos data)) = n)
          by (rewrite firstn_length, skipn_length; lia).
        edestruct (IH (buf ++ firstn n (skipn pos data)) cap (mkSource data (pos + n) rs ss)
                      (EvRead offered (RData n) :: lg) (nr + n)) as (s' & lg' & Heq & Hd & Hp & Hs & Hnf' & Hl & Hor);
          cbn [s_rs s_data s_pos s_ss]; auto; try (cbn [length] in Hfuel; lia).
        { rewrite app_length, Hdl. lia. }
        exists s', lg'. cbn [s_rs s_data s_pos s_ss] in *. rewrite Heq. split.
        { rewrite app_length, Hdl. f_equal; [f_equal; f_equal|].
          - rewrite <- app_assoc. f_equal.
            replace offered with (n + (cap - (length buf + n))) by (unfold offered; lia).
            rewrite firstn_app_split, skipn_skipn. reflexivity.
          - f_equal. unfold offered in *. lia. }
        rewrite app_length, Hdl in Hp.
        repeat split; cbn [length]; auto; try lia. eapply only_reads_cons; eassumption.
    + (* Interrupt *)
      edestruct (IH buf cap (mkSource data pos rs ss) (EvRead offered RInterrupted :: lg) nr)
        as (s' & lg' & Heq & Hd & Hp & Hs & Hnf' & Hl & Hor);
        cbn [s_rs s_data s_pos s_ss]; auto; try (cbn [length] in Hfuel; lia).
      exists s', lg'. cbn [s_rs s_data s_pos s_ss] in *. rewrite Heq.
      repeat split; cbn [length]; auto; try lia. eapply only_reads_cons; eassumption.
Qed.
