(** Proofs about the FASTA writers (Gen/WriteGen.v, Model/WrapLoops.v, the
    aliases in Model/Views.v): what they write, that it parses back
    ([fa_spec]) to the header and sequence written, the shape of wrapped
    output, and the independence of [write_wrap_seq_iter] from the chunking. *)
From SeqIO Require Import Model.Base Model.Fasta Model.WrapLoops Gen.WriteGen Model.Views
  Spec.FastaSpec Proofs.LinesP.

(* ------------------------------------------------------------------ *)
(** * The straight-line writers as texts of lines *)

(** the header line assembled by [write_id_desc] *)
Definition head_of (id : list byte) (desc : option (list byte)) : list byte :=
  match desc with Some d => id ++ SP :: d | None => id end.

Lemma w_head_lines h ls : w_head h ++ unlines ls = rec_text (h, ls).
Proof.
  unfold rec_text, rec_lines. cbn [fst snd]. rewrite unlines_cons.
  unfold w_head, gen_fa_write_head. cbn [app]. rewrite <- app_assoc. reflexivity.
Qed.

Lemma w_id_desc_head id desc : w_id_desc id desc = w_head (head_of id desc).
Proof.
  unfold w_id_desc, gen_fa_write_id_desc, w_head, gen_fa_write_head, head_of.
  destruct desc as [d|]; cbn [app]; [|reflexivity].
  rewrite <- app_assoc. reflexivity.
Qed.

Lemma w_seq_lines s : w_seq s = unlines [s].
Proof. rewrite unlines_cons, unlines_nil. reflexivity. Qed.

Lemma w_seq_iter_lines ls : w_seq_iter ls = unlines [concat ls].
Proof. rewrite unlines_cons, unlines_nil. reflexivity. Qed.

Lemma w_wrap_seq_lines s w : w_wrap_seq s w = unlines (chunks (length s) w s).
Proof. reflexivity. Qed.

Lemma w_to_text h s : w_to h s = rec_text (h, [s]).
Proof. rewrite <- w_head_lines, <- w_seq_lines. reflexivity. Qed.

Lemma w_parts_text id desc s : w_parts id desc s = rec_text (head_of id desc, [s]).
Proof.
  rewrite <- w_head_lines, <- w_seq_lines, <- w_id_desc_head. reflexivity.
Qed.

Lemma w_wrap_text id desc s w :
  w_wrap id desc s w = rec_text (head_of id desc, chunks (length s) w s).
Proof.
  rewrite <- w_head_lines, <- w_wrap_seq_lines, <- w_id_desc_head. reflexivity.
Qed.

(* ------------------------------------------------------------------ *)
(** * chunks *)

Lemma chunks_nil fuel w : chunks fuel w [] = [].
Proof. destruct fuel; reflexivity. Qed.

Lemma chunks_fuel w : 1 <= w -> forall f1 f2 s, length s <= f1 -> length s <= f2 ->
  chunks f1 w s = chunks f2 w s.
Proof.
  intros Hw. induction f1 as [|f1 IH]; intros f2 s H1 H2.
  - destruct s; [|cbn [length] in H1; lia]. rewrite !chunks_nil. reflexivity.
  - destruct s as [|c r]; [rewrite !chunks_nil; reflexivity|].
    destruct f2 as [|f2]; [cbn [length] in H2; lia|].
    cbn [chunks]. f_equal.
    apply IH; rewrite skipn_length; cbn [length] in *; lia.
Qed.

Lemma chunks_step w s : 1 <= w -> s <> [] ->
  chunks (length s) w s = firstn w s :: chunks (length (skipn w s)) w (skipn w s).
Proof.
  intros Hw Hs. destruct s as [|c r]; [congruence|].
  cbn [length chunks]. f_equal.
  apply chunks_fuel; [exact Hw | | lia].
  rewrite skipn_length. cbn [length]. lia.
Qed.

(** the shape of wrapped lines *)
Lemma chunks_shape w : 1 <= w -> forall fuel s, length s <= fuel ->
  concat (chunks fuel w s) = s /\
  Forall (fun c => c <> [] /\ length c <= w) (chunks fuel w s) /\
  Forall (fun c => length c = w) (removelast (chunks fuel w s)).
Proof.
  intros Hw. induction fuel as [|fuel IH]; intros s Hlen.
  - destruct s; [|cbn [length] in Hlen; lia]. cbn [chunks concat removelast].
    repeat split; constructor.
  - destruct s as [|c r]; [cbn [chunks concat removelast]; repeat split; constructor|].
    set (s := c :: r) in *.
    assert (Hsk : length (skipn w s) <= fuel).
    { rewrite skipn_length. unfold s in *. cbn [length] in *. lia. }
    destruct (IH (skipn w s) Hsk) as (IH1 & IH2 & IH3).
    change (chunks (S fuel) w s) with (firstn w s :: chunks fuel w (skipn w s)).
    split; [|split].
    + cbn [concat]. rewrite IH1. apply firstn_skipn.
    + constructor; [|exact IH2]. split.
      * intros E. apply (f_equal (@length byte)) in E. rewrite firstn_length in E.
        unfold s in E. cbn [length] in E. lia.
      * apply firstn_le_length.
    + destruct (chunks fuel w (skipn w s)) as [|a t] eqn:E.
      * cbn [removelast]. constructor.
      * change (removelast (firstn w s :: a :: t)) with (firstn w s :: removelast (a :: t)).
        constructor; [|exact IH3].
        destruct (skipn w s) as [|c' r'] eqn:Es; [rewrite chunks_nil in E; discriminate E|].
        apply (f_equal (@length byte)) in Es. rewrite skipn_length in Es.
        cbn [length] in Es. rewrite firstn_length. lia.
Qed.

Lemma chunks_lacks b w : forall fuel s, lacks b s -> Forall (lacks b) (chunks fuel w s).
Proof.
  induction fuel as [|fuel IH]; intros s H; [constructor|].
  destruct s as [|c r]; [constructor|]. cbn [chunks]. constructor.
  - apply lacks_firstn, H.
  - apply IH, lacks_skipn, H.
Qed.

(* ------------------------------------------------------------------ *)
(** * The wrapping loops, byte by byte *)

(** wrapping one byte at a time: [n] bytes are on the current line; a byte that
    does not fit is preceded by LF *)
Fixpoint wrap_bytes (w : nat) (s : list byte) (n : nat) : list byte * nat :=
  match s with
  | [] => ([], n)
  | c :: r =>
      if n <? w then let '(o, n') := wrap_bytes w r (S n) in (c :: o, n')
      else let '(o, n') := wrap_bytes w r 1 in (LF :: c :: o, n')
  end.

Lemma wrap_bytes_app w a : forall b n,
  wrap_bytes w (a ++ b) n =
  let '(o1, n1) := wrap_bytes w a n in
  let '(o2, n2) := wrap_bytes w b n1 in (o1 ++ o2, n2).
Proof.
  induction a as [|c a IH]; intros b n.
  - cbn [app wrap_bytes]. destruct (wrap_bytes w b n); reflexivity.
  - cbn [app wrap_bytes]. destruct (n <? w); rewrite IH.
    + destruct (wrap_bytes w a (S n)) as [o1 n1].
      destruct (wrap_bytes w b n1) as [o2 n2]. reflexivity.
    + destruct (wrap_bytes w a 1) as [o1 n1].
      destruct (wrap_bytes w b n1) as [o2 n2]. reflexivity.
Qed.

Lemma wrap_bytes_fit w s : forall n, n + length s <= w ->
  wrap_bytes w s n = (s, n + length s).
Proof.
  induction s as [|c r IH]; intros n H.
  - cbn [wrap_bytes length]. rewrite Nat.add_0_r. reflexivity.
  - cbn [length] in H. cbn [wrap_bytes].
    assert (E : (n <? w) = true) by (apply Nat.ltb_lt; lia). rewrite E.
    rewrite IH by lia. cbn [length]. f_equal. lia.
Qed.

Lemma wrap_bytes_le w s : 1 <= w -> forall n, n <= w -> snd (wrap_bytes w s n) <= w.
Proof.
  intros Hw. induction s as [|c r IH]; intros n H; [exact H|].
  cbn [wrap_bytes]. destruct (n <? w) eqn:E.
  - apply Nat.ltb_lt in E. specialize (IH (S n) E).
    destruct (wrap_bytes w r (S n)). exact IH.
  - specialize (IH 1 Hw). destruct (wrap_bytes w r 1). exact IH.
Qed.

(** the first line break *)
Lemma wrap_bytes_split w s n k : 1 <= w -> n + k = w -> k < length s ->
  wrap_bytes w s n =
  let '(o, n') := wrap_bytes w (skipn k s) 0 in (firstn k s ++ LF :: o, n').
Proof.
  intros Hw Hk Hlen.
  transitivity (wrap_bytes w (firstn k s ++ skipn k s) n);
    [rewrite firstn_skipn; reflexivity|].
  rewrite wrap_bytes_app.
  assert (Hf : length (firstn k s) = k) by (apply firstn_length_le; lia).
  rewrite wrap_bytes_fit by lia. rewrite Hf, Hk.
  destruct (skipn k s) as [|c r] eqn:Es.
  - apply (f_equal (@length byte)) in Es. rewrite skipn_length in Es.
    cbn [length] in Es. lia.
  - cbn [wrap_bytes].
    assert (E1 : (w <? w) = false) by (apply Nat.ltb_ge; lia).
    assert (E2 : (0 <? w) = true) by (apply Nat.ltb_lt; lia).
    rewrite E1, E2. destruct (wrap_bytes w r 1) as [o n']. reflexivity.
Qed.

(** the inner loop of [write_wrap_seq_iter] with the fuel the model gives it *)
Lemma wrap_chunk_bytes w : 1 <= w -> forall fuel s n, n <= w ->
  length s + (if n <? w then 0 else 1) <= fuel ->
  wrap_chunk fuel w s n = wrap_bytes w s n.
Proof.
  intros Hw. induction fuel as [|fuel IH]; intros s n Hn Hf.
  - destruct s; [reflexivity | cbn [length] in Hf; lia].
  - cbn [wrap_chunk]. destruct (length s <=? w - n) eqn:E.
    + apply Nat.leb_le in E. rewrite wrap_bytes_fit by lia. reflexivity.
    + apply Nat.leb_gt in E.
      rewrite (wrap_bytes_split w s n (w - n)) by lia.
      rewrite IH; [| lia |].
      * destruct (wrap_bytes w (skipn (w - n) s) 0) as [o n']. reflexivity.
      * assert (E2 : (0 <? w) = true) by (apply Nat.ltb_lt; lia). rewrite E2.
        rewrite skipn_length.
        destruct (n <? w) eqn:E3; [apply Nat.ltb_lt in E3 | apply Nat.ltb_ge in E3]; lia.
Qed.

Lemma wrap_iter_bytes w : 1 <= w -> forall ls n, n <= w ->
  wrap_iter w ls n = fst (wrap_bytes w (concat ls) n) ++ [LF].
Proof.
  intros Hw. induction ls as [|c rest IH]; intros n Hn; [reflexivity|].
  cbn [wrap_iter concat].
  rewrite wrap_chunk_bytes; [| exact Hw | exact Hn | destruct (n <? w); lia].
  rewrite wrap_bytes_app.
  pose proof (wrap_bytes_le w c Hw n Hn) as Hle.
  destruct (wrap_bytes w c n) as [o1 n1]. cbn [snd] in Hle.
  rewrite IH by exact Hle.
  destruct (wrap_bytes w (concat rest) n1) as [o2 n2]. cbn [fst].
  rewrite app_assoc. reflexivity.
Qed.

Lemma wrap_seq_bytes w : 1 <= w -> forall fuel s, length s <= fuel -> s <> [] ->
  unlines (chunks (length s) w s) = fst (wrap_bytes w s 0) ++ [LF].
Proof.
  intros Hw. induction fuel as [|fuel IH]; intros s Hlen Hs.
  - destruct s; [congruence | cbn [length] in Hlen; lia].
  - rewrite chunks_step by assumption. rewrite unlines_cons.
    destruct (Nat.le_gt_cases (length s) w) as [Hle|Hgt].
    + rewrite skipn_all2, firstn_all2 by exact Hle.
      cbn [length chunks]. rewrite unlines_nil.
      rewrite wrap_bytes_fit by lia. reflexivity.
    + rewrite (wrap_bytes_split w s 0 w) by lia.
      assert (Hsk : length (skipn w s) = length s - w) by apply skipn_length.
      rewrite IH; [| lia |].
      * destruct (wrap_bytes w (skipn w s) 0) as [o n']. cbn [fst].
        rewrite <- app_assoc. reflexivity.
      * intros E. rewrite E in Hsk. cbn [length] in Hsk. lia.
Qed.

(** [write_wrap_seq_iter] on chunks = [write_wrap_seq] on their concatenation *)
Theorem wrap_iter_chunking_irrelevant chunks_ w : 1 <= w -> concat chunks_ <> [] ->
  w_wrap_seq_iter chunks_ w = w_wrap_seq (concat chunks_) w.
Proof.
  intros Hw Hne. unfold w_wrap_seq_iter. rewrite wrap_iter_bytes by lia.
  rewrite w_wrap_seq_lines.
  rewrite (wrap_seq_bytes w Hw (length (concat chunks_))) by (auto with arith).
  reflexivity.
Qed.

(** the empty-sequence difference: nothing vs. one LF *)
Lemma wrap_iter_empty w : forall ls n, concat ls = [] -> wrap_iter w ls n = [LF].
Proof.
  induction ls as [|c rest IH]; intros n H; [reflexivity|].
  cbn [concat] in H. apply app_eq_nil in H. destruct H as [Hc Hr]. subst c.
  cbn [wrap_iter length wrap_chunk Nat.leb app]. apply IH, Hr.
Qed.

Theorem wrap_empty_difference chunks_ w : concat chunks_ = [] ->
  w_wrap_seq (concat chunks_) w = [] /\ w_wrap_seq_iter chunks_ w = [LF].
Proof.
  intros H. split.
  - rewrite H. reflexivity.
  - apply wrap_iter_empty, H.
Qed.

(** the sequence lines written by [write_wrap_seq_iter] *)
Definition wrap_iter_lines (chunks_ : list (list byte)) (w : nat) : list (list byte) :=
  match concat chunks_ with
  | [] => [[]]
  | s => chunks (length s) w s
  end.

Lemma w_wrap_seq_iter_lines chunks_ w : 1 <= w ->
  w_wrap_seq_iter chunks_ w = unlines (wrap_iter_lines chunks_ w).
Proof.
  intros Hw. unfold wrap_iter_lines. destruct (concat chunks_) as [|c r] eqn:E.
  - rewrite unlines_cons, unlines_nil. apply wrap_iter_empty, E.
  - rewrite wrap_iter_chunking_irrelevant, E by (rewrite ?E; congruence || exact Hw).
    reflexivity.
Qed.

Lemma wrap_iter_lines_concat chunks_ w : 1 <= w ->
  concat (wrap_iter_lines chunks_ w) = concat chunks_.
Proof.
  intros Hw. unfold wrap_iter_lines. destruct (concat chunks_) as [|c r] eqn:E; [reflexivity|].
  apply (chunks_shape w Hw). apply le_n.
Qed.

(* ------------------------------------------------------------------ *)
(** * Round trip *)

Definition seq_ok (s : list byte) : Prop := no_lf s /\ no_cr s /\ no_gt s.

Lemma seq_ok_line s : seq_ok s -> Forall seqline_ok [s].
Proof. intros H; constructor; [exact H | constructor]. Qed.

Lemma seq_ok_chunks s fuel w : seq_ok s -> Forall seqline_ok (chunks fuel w s).
Proof.
  intros (H1 & H2 & H3).
  pose proof (chunks_lacks LF w fuel s H1) as F1.
  pose proof (chunks_lacks CR w fuel s H2) as F2.
  pose proof (chunks_lacks GT w fuel s H3) as F3.
  induction (chunks fuel w s) as [|a t IH]; [constructor|].
  inversion F1; inversion F2; inversion F3; subst.
  constructor; [repeat split; assumption | apply IH; assumption].
Qed.

Lemma seq_ok_wrap_iter_lines chunks_ w : seq_ok (concat chunks_) ->
  Forall seqline_ok (wrap_iter_lines chunks_ w).
Proof.
  intros H. unfold wrap_iter_lines. destruct (concat chunks_) as [|c r] eqn:E.
  - constructor; [repeat split; apply lacks_nil | constructor].
  - apply seq_ok_chunks, H.
Qed.

(** every writer entry point as one call *)
Inductive wcall :=
| WTo (head seq : list byte)                                   (* write_to, write *)
| WHeadSeq (head seq : list byte)                              (* write_head; write_seq *)
| WParts (id : list byte) (desc : option (list byte)) (seq : list byte) (* write_parts *)
| WHeadSeqIter (head : list byte) (chunks_ : list (list byte)) (* write_head; write_seq_iter = RefRecord::write *)
| WOwned (head seq : list byte)                                (* OwnedRecord::write *)
| WWrap (id : list byte) (desc : option (list byte)) (seq : list byte) (w : nat) (* write_wrap *)
| WHeadWrapSeq (head seq : list byte) (w : nat)                (* write_head; write_wrap_seq *)
| WHeadWrapSeqIter (head : list byte) (chunks_ : list (list byte)) (w : nat) (* write_head; write_wrap_seq_iter = RefRecord::write_wrap *)
| WOwnedWrap (head seq : list byte) (w : nat).                 (* OwnedRecord::write_wrap *)

(** the bytes written *)
Definition wcall_out (c : wcall) : list byte :=
  match c with
  | WTo h s => w_to h s
  | WHeadSeq h s => w_head h ++ w_seq s
  | WParts id desc s => w_parts id desc s
  | WHeadSeqIter h cs => w_head h ++ w_seq_iter cs
  | WOwned h s => fa_owned_write h s
  | WWrap id desc s w => w_wrap id desc s w
  | WHeadWrapSeq h s w => w_head h ++ w_wrap_seq s w
  | WHeadWrapSeqIter h cs w => w_head h ++ w_wrap_seq_iter cs w
  | WOwnedWrap h s w => fa_owned_write_wrap h s w
  end.

(** the header and the sequence handed to the writer *)
Definition wcall_head (c : wcall) : list byte :=
  match c with
  | WTo h _ | WHeadSeq h _ | WHeadSeqIter h _ | WOwned h _
  | WHeadWrapSeq h _ _ | WHeadWrapSeqIter h _ _ | WOwnedWrap h _ _ => h
  | WParts id desc _ | WWrap id desc _ _ => head_of id desc
  end.
Definition wcall_seq (c : wcall) : list byte :=
  match c with
  | WTo _ s | WHeadSeq _ s | WParts _ _ s | WOwned _ s
  | WWrap _ _ s _ | WHeadWrapSeq _ s _ | WOwnedWrap _ s _ => s
  | WHeadSeqIter _ cs | WHeadWrapSeqIter _ cs _ => concat cs
  end.
(** the wrap width, if any *)
Definition wcall_width (c : wcall) : option nat :=
  match c with
  | WWrap _ _ _ w | WHeadWrapSeq _ _ w | WHeadWrapSeqIter _ _ w | WOwnedWrap _ _ w => Some w
  | _ => None
  end.
(** the sequence lines that appear in the output *)
Definition wcall_lines (c : wcall) : list (list byte) :=
  match c with
  | WHeadWrapSeqIter _ cs w => wrap_iter_lines cs w
  | _ => match wcall_width c with
         | Some w => chunks (length (wcall_seq c)) w (wcall_seq c)
         | None => [wcall_seq c]
         end
  end.

(** the hypotheses of C10 *)
Definition wcall_ok (c : wcall) : Prop :=
  no_lf (wcall_head c) /\ no_trailing_cr (wcall_head c) /\
  no_lf (wcall_seq c) /\ no_cr (wcall_seq c) /\ no_gt (wcall_seq c) /\
  match wcall_width c with Some w => 1 <= w | None => True end.

Lemma wcall_text c : wcall_ok c -> wcall_out c = rec_text (wcall_head c, wcall_lines c).
Proof.
  intros (_ & _ & _ & _ & _ & Hw).
  destruct c; cbn [wcall_out wcall_head wcall_lines wcall_width wcall_seq] in *.
  - apply w_to_text.
  - rewrite w_seq_lines. apply w_head_lines.
  - apply w_parts_text.
  - rewrite w_seq_iter_lines. apply w_head_lines.
  - apply w_to_text.
  - apply w_wrap_text.
  - rewrite w_wrap_seq_lines. apply w_head_lines.
  - rewrite w_wrap_seq_iter_lines by exact Hw. apply w_head_lines.
  - unfold fa_owned_write_wrap. rewrite w_wrap_seq_lines. apply w_head_lines.
Qed.

Lemma wcall_rec_ok c : wcall_ok c -> rec_ok (wcall_head c, wcall_lines c).
Proof.
  intros (H1 & H2 & H3 & H4 & H5 & Hw).
  assert (Hs : seq_ok (wcall_seq c)) by (repeat split; assumption).
  split; cbn [fst snd]; [split; assumption|].
  destruct c; cbn [wcall_lines wcall_width wcall_seq] in *;
    first [apply seq_ok_line, Hs | apply seq_ok_chunks, Hs | apply seq_ok_wrap_iter_lines, Hs].
Qed.

Lemma wcall_lines_concat c : wcall_ok c -> concat (wcall_lines c) = wcall_seq c.
Proof.
  intros (_ & _ & _ & _ & _ & Hw).
  destruct c; cbn [wcall_lines wcall_width wcall_seq] in *;
    first [ apply app_nil_r
          | apply (chunks_shape _ Hw); apply le_n
          | apply wrap_iter_lines_concat, Hw ].
Qed.

(** the lines of wrapped output: none empty, none longer than the width, all
    but the last of exactly the width -- except that [write_wrap_seq_iter]
    writes one empty line for an empty sequence *)
Definition wrapped_shape (w : nat) (ls : list (list byte)) : Prop :=
  Forall (fun l => l <> [] /\ length l <= w) ls /\
  Forall (fun l => length l = w) (removelast ls).

Lemma wcall_lines_shape c w : wcall_ok c -> wcall_width c = Some w ->
  wcall_seq c <> [] \/ (forall h cs w', c <> WHeadWrapSeqIter h cs w') ->
  wrapped_shape w (wcall_lines c).
Proof.
  intros (_ & _ & _ & _ & _ & Hw) Hc Hne.
  destruct c; cbn [wcall_lines wcall_width wcall_seq] in *; try discriminate Hc;
    injection Hc as Hc; subst w0.
  - apply (chunks_shape w Hw). apply le_n.
  - apply (chunks_shape w Hw). apply le_n.
  - unfold wrap_iter_lines. destruct (concat chunks_) as [|b r] eqn:E.
    + destruct Hne as [Hne|Hne]; [congruence | exfalso; eapply Hne; reflexivity].
    + apply (chunks_shape w Hw). apply le_n.
  - apply (chunks_shape w Hw). apply le_n.
Qed.

(** one call: the text parses back to one record with the header written,
    the lines written, at line 1, byte 0 *)
Theorem wcall_roundtrip c : wcall_ok c ->
  fa_spec (wcall_out c) = [SRec (mkFaItem (wcall_head c) (wcall_lines c) 1 0)] /\
  concat (wcall_lines c) = wcall_seq c.
Proof.
  intros H. split; [|apply wcall_lines_concat, H].
  rewrite wcall_text by exact H.
  pose proof (wcall_rec_ok c H) as [Hh Hl]. cbn [fst snd] in Hh, Hl.
  apply fa_spec_record; assumption.
Qed.

(** many calls back to back: the items expected, with their coordinates *)
Fixpoint expected (cs : list wcall) (ln off : nat) : list fa_item :=
  match cs with
  | [] => []
  | c :: t => mkFaItem (wcall_head c) (wcall_lines c) ln off
              :: expected t (ln + 1 + length (wcall_lines c)) (off + length (wcall_out c))
  end.

Lemma expected_layout cs : Forall wcall_ok cs -> forall ln off,
  layout (map (fun c => (wcall_head c, wcall_lines c)) cs) ln off = expected cs ln off.
Proof.
  induction 1 as [|c t Hc Ht IH]; intros ln off; [reflexivity|].
  cbn [map layout expected fst snd]. rewrite IH, <- wcall_text by exact Hc.
  f_equal. f_equal. lia.
Qed.

Theorem wcall_many cs : Forall wcall_ok cs ->
  fa_spec (concat (map wcall_out cs)) = map SRec (expected cs 1 0).
Proof.
  intros H.
  assert (E : map wcall_out cs = map rec_text (map (fun c => (wcall_head c, wcall_lines c)) cs)).
  { rewrite map_map. apply map_ext_in. intros c Hc. apply wcall_text.
    rewrite Forall_forall in H. apply H, Hc. }
  rewrite E, fa_spec_records.
  - rewrite expected_layout by exact H. reflexivity.
  - apply Forall_map. eapply Forall_impl; [|exact H]. apply wcall_rec_ok.
Qed.

Lemma expected_heads_seqs cs : Forall wcall_ok cs -> forall ln off,
  map (fun i => (fi_head i, concat (fi_lines i))) (expected cs ln off) =
  map (fun c => (wcall_head c, wcall_seq c)) cs.
Proof.
  induction 1 as [|c t Hc Ht IH]; intros ln off; [reflexivity|].
  cbn [expected map fi_head fi_lines]. rewrite IH, wcall_lines_concat by exact Hc.
  reflexivity.
Qed.

Lemma fa_records_of_recs inp l : fa_spec inp = map SRec l -> fa_records inp = l.
Proof.
  intros H. unfold fa_records. rewrite H. clear H.
  induction l as [|x l IH]; [reflexivity|]. cbn [map flat_map app]. rewrite IH. reflexivity.
Qed.

(** ... in particular: one record per call, in order, with the headers and
    (concatenated) sequences handed to the writers *)
Theorem wcall_many_heads_seqs cs : Forall wcall_ok cs ->
  length (fa_spec (concat (map wcall_out cs))) = length cs /\
  map (fun i => (fi_head i, concat (fi_lines i))) (fa_records (concat (map wcall_out cs))) =
  map (fun c => (wcall_head c, wcall_seq c)) cs.
Proof.
  intros H. pose proof (wcall_many cs H) as E. split.
  - rewrite E, map_length.
    rewrite <- (map_length (fun i => (fi_head i, concat (fi_lines i)))).
    rewrite expected_heads_seqs by exact H. apply map_length.
  - rewrite (fa_records_of_recs _ _ E). apply expected_heads_seqs, H.
Qed.

(** wrapped output, as parsed: the sequence lines have the wrapped shape *)
Theorem wcall_wrap_parsed c w : wcall_ok c -> wcall_width c = Some w ->
  wcall_seq c <> [] \/ (forall h cs w', c <> WHeadWrapSeqIter h cs w') ->
  exists i, fa_spec (wcall_out c) = [SRec i] /\ wrapped_shape w (fi_lines i) /\
            concat (fi_lines i) = wcall_seq c.
Proof.
  intros H Hc Hne. destruct (wcall_roundtrip c H) as [E1 E2].
  eexists. split; [exact E1|]. cbn [fi_lines]. split; [|exact E2].
  apply wcall_lines_shape; assumption.
Qed.

(** RefRecord::write / write_wrap of a record view with the given header and lines *)
Lemma fa_write_call r h ls : fa_head r = Some h -> fa_lines r = Some ls ->
  fa_write r = Some (wcall_out (WHeadSeqIter h ls)).
Proof. intros H1 H2. unfold fa_write. rewrite H1, H2. reflexivity. Qed.

Lemma fa_write_wrap_call r h ls w : fa_head r = Some h -> fa_lines r = Some ls ->
  fa_write_wrap r w = Some (wcall_out (WHeadWrapSeqIter h ls w)).
Proof. intros H1 H2. unfold fa_write_wrap. rewrite H1, H2. reflexivity. Qed.

(* ------------------------------------------------------------------ *)
(** * The entry points one by one (statements used by Props/C10.v) *)

(** [out] parses to exactly one record with this header and sequence, at line 1, byte 0 *)
Definition parses_to (out head seq : list byte) : Prop :=
  exists i, fa_spec out = [SRec i] /\ fi_head i = head /\ concat (fi_lines i) = seq /\
            fi_line i = 1 /\ fi_byte i = 0.

Lemma wcall_ok_intro c :
  no_lf (wcall_head c) -> no_trailing_cr (wcall_head c) ->
  no_lf (wcall_seq c) -> no_cr (wcall_seq c) -> no_gt (wcall_seq c) ->
  match wcall_width c with Some w => 1 <= w | None => True end -> wcall_ok c.
Proof. intros; repeat split; assumption. Qed.

Theorem roundtrip_any c : wcall_ok c -> parses_to (wcall_out c) (wcall_head c) (wcall_seq c).
Proof.
  intros H. destruct (wcall_roundtrip c H) as [E1 E2].
  eexists. split; [exact E1|]. cbn [fi_head fi_lines fi_line fi_byte]. repeat split. exact E2.
Qed.

Section EntryPoints.
  Variables (head seq : list byte).
  Hypotheses (Hh1 : no_lf head) (Hh2 : no_trailing_cr head)
             (Hs1 : no_lf seq) (Hs2 : no_cr seq) (Hs3 : no_gt seq).

  Lemma rt_to : fa_spec (w_to head seq) = [SRec (mkFaItem head [seq] 1 0)].
  Proof. apply (wcall_roundtrip (WTo head seq)). apply wcall_ok_intro; cbn [wcall_head wcall_seq wcall_width]; trivial. Qed.

  Lemma rt_head_seq : fa_spec (w_head head ++ w_seq seq) = [SRec (mkFaItem head [seq] 1 0)].
  Proof. apply (wcall_roundtrip (WHeadSeq head seq)). apply wcall_ok_intro; cbn [wcall_head wcall_seq wcall_width]; trivial. Qed.

  Lemma rt_owned : fa_spec (fa_owned_write head seq) = [SRec (mkFaItem head [seq] 1 0)].
  Proof. apply (wcall_roundtrip (WOwned head seq)). apply wcall_ok_intro; cbn [wcall_head wcall_seq wcall_width]; trivial. Qed.

  Lemma rt_wrap_seq w : 1 <= w ->
    fa_spec (w_head head ++ w_wrap_seq seq w) =
    [SRec (mkFaItem head (chunks (length seq) w seq) 1 0)].
  Proof.
    intros Hw. apply (wcall_roundtrip (WHeadWrapSeq head seq w)).
    apply wcall_ok_intro; cbn [wcall_head wcall_seq wcall_width]; trivial.
  Qed.

  Lemma rt_owned_wrap w : 1 <= w ->
    fa_spec (fa_owned_write_wrap head seq w) =
    [SRec (mkFaItem head (chunks (length seq) w seq) 1 0)].
  Proof.
    intros Hw. apply (wcall_roundtrip (WOwnedWrap head seq w)).
    apply wcall_ok_intro; cbn [wcall_head wcall_seq wcall_width]; trivial.
  Qed.
End EntryPoints.

Section EntryPointsParts.
  Variables (id : list byte) (desc : option (list byte)) (seq : list byte).
  Hypotheses (Hh1 : no_lf (head_of id desc)) (Hh2 : no_trailing_cr (head_of id desc))
             (Hs1 : no_lf seq) (Hs2 : no_cr seq) (Hs3 : no_gt seq).

  Lemma rt_parts :
    fa_spec (w_parts id desc seq) = [SRec (mkFaItem (head_of id desc) [seq] 1 0)].
  Proof. apply (wcall_roundtrip (WParts id desc seq)). apply wcall_ok_intro; cbn [wcall_head wcall_seq wcall_width]; trivial. Qed.

  Lemma rt_wrap w : 1 <= w ->
    fa_spec (w_wrap id desc seq w) =
    [SRec (mkFaItem (head_of id desc) (chunks (length seq) w seq) 1 0)].
  Proof.
    intros Hw. apply (wcall_roundtrip (WWrap id desc seq w)).
    apply wcall_ok_intro; cbn [wcall_head wcall_seq wcall_width]; trivial.
  Qed.
End EntryPointsParts.

Section EntryPointsIter.
  Variables (head : list byte) (chunks_ : list (list byte)).
  Hypotheses (Hh1 : no_lf head) (Hh2 : no_trailing_cr head)
             (Hs1 : no_lf (concat chunks_)) (Hs2 : no_cr (concat chunks_))
             (Hs3 : no_gt (concat chunks_)).

  Lemma rt_seq_iter :
    fa_spec (w_head head ++ w_seq_iter chunks_) = [SRec (mkFaItem head [concat chunks_] 1 0)].
  Proof.
    apply (wcall_roundtrip (WHeadSeqIter head chunks_)). apply wcall_ok_intro; cbn [wcall_head wcall_seq wcall_width]; trivial.
  Qed.

  Lemma rt_wrap_seq_iter w : 1 <= w ->
    fa_spec (w_head head ++ w_wrap_seq_iter chunks_ w) =
    [SRec (mkFaItem head (wrap_iter_lines chunks_ w) 1 0)] /\
    concat (wrap_iter_lines chunks_ w) = concat chunks_.
  Proof.
    intros Hw. apply (wcall_roundtrip (WHeadWrapSeqIter head chunks_ w)).
    apply wcall_ok_intro; cbn [wcall_head wcall_seq wcall_width]; trivial.
  Qed.

  (** RefRecord::write / write_wrap *)
  Lemma rt_ref_write r : fa_head r = Some head -> fa_lines r = Some chunks_ ->
    exists out, fa_write r = Some out /\ parses_to out head (concat chunks_).
  Proof.
    intros H1 H2. eexists. split; [apply fa_write_call; eassumption|].
    apply (roundtrip_any (WHeadSeqIter head chunks_)). apply wcall_ok_intro; cbn [wcall_head wcall_seq wcall_width]; trivial.
  Qed.

  Lemma rt_ref_write_wrap r w : 1 <= w -> fa_head r = Some head -> fa_lines r = Some chunks_ ->
    exists out, fa_write_wrap r w = Some out /\ parses_to out head (concat chunks_).
  Proof.
    intros Hw H1 H2. eexists. split; [apply fa_write_wrap_call; eassumption|].
    apply (roundtrip_any (WHeadWrapSeqIter head chunks_ w)). apply wcall_ok_intro; cbn [wcall_head wcall_seq wcall_width]; trivial.
  Qed.
End EntryPointsIter.

(** the lines [write_wrap_seq_iter] produces, spelled out *)
Lemma wrap_iter_lines_cases chunks_ w :
  (concat chunks_ = [] /\ wrap_iter_lines chunks_ w = [[]]) \/
  (concat chunks_ <> [] /\
   wrap_iter_lines chunks_ w = chunks (length (concat chunks_)) w (concat chunks_)).
Proof.
  unfold wrap_iter_lines. destruct (concat chunks_) as [|c r]; [left | right]; split;
    congruence || reflexivity.
Qed.

(** wrapped lines, pure *)
Theorem wrap_widths seq w : 1 <= w ->
  let ls := chunks (length seq) w seq in
  concat ls = seq /\
  Forall (fun l => l <> [] /\ length l <= w) ls /\
  Forall (fun l => length l = w) (removelast ls).
Proof. intros Hw. apply (chunks_shape w Hw). apply le_n. Qed.
