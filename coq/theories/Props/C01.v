(** C01 — FASTA reading returns exactly the records the format rules define.
    Statements only; proofs are in Proofs/FastaTopP.v (and the files it builds on:
    Window, FastaScanP, FastaInv, FastaInitP, FastaNextP, FastaPosP, ViewShiftP). *)
From SeqIO Require Import Model.Base Model.Fasta Model.Views Spec.FastaSpec
     Proofs.Window Proofs.FastaInv Proofs.FastaNextP Proofs.ViewsP Proofs.FastaTopP Proofs.SeqLinesP.

(** For EVERY byte string [inp], every initial capacity >= 3, every fault-free
    read script [rs] (any chunking, interrupted reads included) and every
    policy that always permits a larger size: the outcomes of the first [n]
    calls of [next] are, one by one, the items of the whole-input
    specification [fa_spec inp] — each record with its header and sequence
    lines (and file coordinates), or the single invalid-start error — and
    after them end of input for ever.  [fuel]/[ffuel] bound the model's
    loops; the theorem states how much suffices. *)
Theorem C01_fasta_next_refines_spec : forall inp cap0 rs ss pol fuel ffuel n,
  3 <= cap0 -> forallb item_ok rs = true -> PolOk pol ->
  length rs + 2 <= ffuel -> length inp + 2 <= fuel ->
  Forall2 fa_smatches
          (fa_run fuel ffuel n (fa_new cap0 (mkSource inp 0 rs ss) pol))
          (firstn n (map Some (fa_spec inp) ++ repeat None n)).
Proof. exact fa_next_refines_spec. Qed.
Print Assumptions C01_fasta_next_refines_spec.

(** the policy hypothesis is met by the library's default policy and by DoubleUntil(a >= 1) *)
Theorem C01_policy_hypothesis_satisfiable : PolOk pol_std /\ (forall a, 1 <= a -> PolOk (pol_double_until a)).
Proof. split; [exact PolOk_std | exact PolOk_double_until]. Qed.
Print Assumptions C01_policy_hypothesis_satisfiable.

(** what "matches" means, pinned: a record outcome carries exactly the
    specification item's header, lines and coordinates *)
Theorem C01_match_is_exact : forall rc pos i,
  fa_smatches (ORec rc, pos) (Some (SRec i)) ->
  fa_head rc = Some (fi_head i) /\ fa_lines rc = Some (fi_lines i) /\ pos = Some (fi_line i, fi_byte i).
Proof. intros rc pos i (_ & H1 & H2 & H3). auto. Qed.
Print Assumptions C01_match_is_exact.

(** nothing else matches: a record never stands for an error or the end, and vice versa *)
Theorem C01_match_kinds : forall o pos,
  (fa_smatches (o, pos) None -> o = ONone) /\
  (forall l f, fa_smatches (o, pos) (Some (SInvalidStart l f)) -> o = OErr (FaInvalidStart l f)) /\
  (forall i, fa_smatches (o, pos) (Some (SRec i)) -> exists rc, o = ORec rc).
Proof.
  intros o pos. repeat split.
  - destruct o; cbn; intros H; try contradiction; reflexivity.
  - intros l f. destruct o; cbn; intros H; try contradiction. destruct e; try contradiction.
    destruct H as [-> ->]. reflexivity.
  - intros i. destruct o; cbn; intros H; try contradiction. eexists; reflexivity.
Qed.
Print Assumptions C01_match_kinds.

(** after the last record, or after the error, every further read reports end of input *)
Theorem C01_end_is_sticky : forall fuel ffuel r, st r = FFinished -> fa_next fuel ffuel r = (r, ONone).
Proof. exact fa_finished_sticky. Qed.
Print Assumptions C01_end_is_sticky.

(** non-vacuity: blank lines, CRLF, a header without sequence, no final terminator;
    capacity 3, one byte per read *)
Example C01_example :
  let inp := [10; 13; 10; 62; 97; 32; 120; 13; 10; 65; 67; 10; 71; 10; 62; 98; 10; 62; 99; 10; 84] in
  fa_spec inp = [SRec (mkFaItem [97; 32; 120] [[65; 67]; [71]] 3 3);
                 SRec (mkFaItem [98] [] 6 14); SRec (mkFaItem [99] [[84]] 7 17)] /\
  map (fun o => match fst o with ORec rc => (fa_head rc, fa_lines rc, snd o) | _ => (None, None, None) end)
      (fa_run 50 50 5 (fa_new 3 (mkSource inp 0 (repeat (RDeliver 0) 30) []) pol_std))
  = [(Some [97; 32; 120], Some [[65; 67]; [71]], Some (3, 3)); (Some [98], Some [], Some (6, 14));
     (Some [99], Some [[84]], Some (7, 17)); (None, None, None); (None, None, None)].
Proof. split; vm_compute; reflexivity. Qed.
