(** C02 (refinement) — reading a FASTQ input record by record with the reader model
    ([fq_next] of Model/Fastq.v, started by [fq_new]) delivers exactly the items of the
    whole-input specification [fq_spec_all] (Spec/FastqSpec.v): the records with header,
    sequence, quality and coordinates, then the single error (if any) with all its fields,
    then end of input for ever — for ALL inputs, ALL initial capacities, ALL fault-free
    read scripts (any chunking, interrupted reads allowed), ALL policies that grant a
    strictly larger size, by induction, no bounds.

    [fq_run fuel ffuel n r]   the outcomes of [n] successive [fq_next] calls, each with
                              the reader's [fq_position] after the call;
    [fq_matches inp o it]     outcome [o] is the expected item [it] (None = end of input):
                              a record's three views equal the item's fields, the position
                              is the item's (line, byte), the record's buffer is a window
                              of the input placed so that its start is the item's offset;
                              an error equals [fq_err_of] of the item's error (field by
                              field; InvalidStart carries no id) and the reader's position
                              is the (line, byte) of the offending group's first line;
    [PolOk1 p]                [p] answers every capacity >= 1 with a larger one (weaker
                              than [PolOk], which demands it of capacity 0 as well and is
                              satisfied by no policy of the library);
    [item_ok]                 a script item that is not a failure.
    Statements only; proofs are in Proofs/FastqInv.v, Proofs/FastqNextP.v. *)
From SeqIO Require Import Model.Base Model.Fastq Model.Views Spec.FastaSpec Spec.FastqSpec
  Proofs.Window Proofs.FastaInv Proofs.FastqInv Proofs.FastqNextP.

Theorem C02_fastq_next_refines_spec : forall inp cap0 rs ss pol fuel ffuel n,
  3 <= cap0 -> forallb item_ok rs = true -> PolOk pol ->
  length rs + 2 <= ffuel -> length inp + 2 <= fuel ->
  Forall2 (fq_matches inp)
          (fq_run fuel ffuel n (fq_new cap0 (mkSource inp 0 rs ss) pol))
          (firstn n (map Some (fq_spec_all inp) ++ repeat None n)).
Proof. exact fq_next_refines_spec. Qed.
Print Assumptions C02_fastq_next_refines_spec.

(** non-vacuity: "@a\nAC\n+\nII\n@b\nG\n+\nI", capacity 3, reads of 1 byte, an interrupt,
    2 bytes, then everything offered; the policy "one more byte" *)
Example C02_fastq_next_refines_spec_nonvacuous :
  let inp := [64;97;10;65;67;10;43;10;73;73;10;64;98;10;71;10;43;10;73] in
  let rs := [RDeliver 0; RInterrupt; RDeliver 1] in
  let pol : policy := fun _ c => Some (S c) in
  3 <= 3 /\ forallb item_ok rs = true /\ PolOk pol /\ length rs + 2 <= 50 /\ length inp + 2 <= 100 /\
  fq_spec_all inp = [QRec (mkFqItem [97] [65;67] [73;73] 1 0); QRec (mkFqItem [98] [71] [73] 5 11)] /\
  map (fun o => (match fst o with
                 | QORec rc => Some (fq_head rc, fq_seq rc, fq_qual rc)
                 | _ => None
                 end, snd o))
      (fq_run 100 50 3 (fq_new 3 (mkSource inp 0 rs []) pol)) =
  [(Some (Some [97], Some [65; 67], Some [73; 73]), (1, 0));
   (Some (Some [98], Some [71], Some [73]), (5, 11));
   (None, (5, 11))].
Proof.
  cbv zeta. split; [lia|]. split; [reflexivity|].
  split; [intros h c; exists (S c); split; [reflexivity | lia]|].
  split; [cbn [length]; lia|]. split; [cbn [length]; lia|].
  split; vm_compute; reflexivity.
Qed.

(** the same for every capacity >= 1 and every policy that grows at capacities >= 1;
    this covers the library's standard policy *)
Theorem C02_fastq_next_refines_spec_gen : forall inp cap0 rs ss pol fuel ffuel n,
  1 <= cap0 -> forallb item_ok rs = true -> PolOk1 pol ->
  length rs + 2 <= ffuel -> length inp + 2 <= fuel ->
  Forall2 (fq_matches inp)
          (fq_run fuel ffuel n (fq_new cap0 (mkSource inp 0 rs ss) pol))
          (firstn n (map Some (fq_spec_all inp) ++ repeat None n)).
Proof. exact fq_next_refines_spec_gen. Qed.
Print Assumptions C02_fastq_next_refines_spec_gen.

Theorem C02_std_policy_grows : PolOk1 pol_std.
Proof. exact PolOk1_std. Qed.
Print Assumptions C02_std_policy_grows.

(** non-vacuity: CRLF lines, a wrong separator in the second group, capacity 1, the
    standard policy: one record, then the InvalidSep error at line 7 with id "b"; the
    reader then stands at the offending group (line 5, byte 15) and reports the end *)
Example C02_fastq_next_refines_spec_gen_nonvacuous :
  let inp := [64;97;13;10;65;67;13;10;43;13;10;73;73;13;10;64;98;10;71;10;45;10;73;10] in
  let rs := [RDeliver 0; RInterrupt; RDeliver 1] in
  1 <= 1 /\ forallb item_ok rs = true /\ PolOk1 pol_std /\ length rs + 2 <= 50 /\ length inp + 2 <= 100 /\
  fq_spec_all inp = [QRec (mkFqItem [97] [65;67] [73;73] 1 0); QErr (EInvalidSep 45 7 (Some [98])) 5 15] /\
  map (fun o => (match fst o with
                 | QORec rc => Some (fq_head rc, fq_seq rc, fq_qual rc)
                 | _ => None
                 end,
                 match fst o with QOErr e => Some e | _ => None end, snd o))
      (fq_run 100 50 3 (fq_new 1 (mkSource inp 0 rs []) pol_std)) =
  [(Some (Some [97], Some [65; 67], Some [73; 73]), None, (1, 0));
   (None, Some (FqInvalidSep 45 7 (Some [98])), (5, 15));
   (None, None, (5, 15))].
Proof.
  cbv zeta. split; [lia|]. split; [reflexivity|]. split; [exact PolOk1_std|].
  split; [cbn [length]; lia|]. split; [cbn [length]; lia|].
  split; vm_compute; reflexivity.
Qed.

(** no call panics or runs out of fuel (C06 for fault-free FASTQ reading) *)
Theorem C02_fastq_next_never_panics : forall inp cap0 rs ss pol fuel ffuel n,
  1 <= cap0 -> forallb item_ok rs = true -> PolOk1 pol ->
  length rs + 2 <= ffuel -> length inp + 2 <= fuel ->
  Forall (fun o => (forall x, fst o <> QOPanic x) /\ fst o <> QOFuel)
         (fq_run fuel ffuel n (fq_new cap0 (mkSource inp 0 rs ss) pol)).
Proof. exact fq_next_never_panics. Qed.
Print Assumptions C02_fastq_next_never_panics.

Example C02_fastq_next_never_panics_nonvacuous :
  let inp := [64;97;10;65;67;10;43;10;73;73;10;64;98;10;71;10;43;10;73] in
  let rs := [RDeliver 0; RInterrupt; RDeliver 1] in
  1 <= 3 /\ forallb item_ok rs = true /\ PolOk1 pol_std /\ length rs + 2 <= 50 /\ length inp + 2 <= 100 /\
  length (fq_run 100 50 3 (fq_new 3 (mkSource inp 0 rs []) pol_std)) = 3.
Proof.
  cbv zeta. split; [lia|]. split; [reflexivity|]. split; [exact PolOk1_std|].
  split; [cbn [length]; lia|]. split; [cbn [length]; lia|].
  vm_compute; reflexivity.
Qed.
