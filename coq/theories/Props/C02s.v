(** C02 (Spec-level facts) — properties of the whole-input FASTQ specification
    [fq_spec] / [fq_spec_all] (Spec/FastqSpec.v) that the reader is shown to refine:
    fuel independence, the blank tail, the length verdict, errors are terminal, which
    breach gives which error.  [count_lf], [cut_line], [err_id], [blank], [pieces] are
    the Spec's own functions.
    Statements only; proofs are in Proofs/FqSpecP.v. *)
From SeqIO Require Import Model.Base Gen.WriteGen Model.Views Spec.FastaSpec Spec.FastqSpec
  Proofs.FqSpecP.

(** the fuel argument is immaterial once it exceeds the length of the text *)
Theorem C02_spec_fuel_independent : forall f rest l b,
  S (length rest) <= f -> fq_spec f rest l b = fq_spec (S (length rest)) rest l b.
Proof. exact fq_spec_fuel. Qed.
Print Assumptions C02_spec_fuel_independent.

(** ** blank tail: after well-formed records with their final terminator (LF or CRLF
    rendering, see Props/C12q.v for [render]) a tail of at most two further LFs whose
    pieces are all empty or a lone CR changes nothing ("up to 3 newlines") *)
Theorem C02_spec_blank_tail :
  forall (crlf : bool) (rs : list (list byte * list byte * list byte)) (tail : list byte),
  Forall (fun r => let '(h, s, q) := r in
            ~ In LF h /\ ~ In CR h /\ ~ In LF s /\ ~ In CR s /\ ~ In LF q /\ ~ In CR q /\
            length s = length q) rs ->
  count_lf tail <= 2 -> forallb blank (pieces tail) = true ->
  fq_spec_all (render crlf true rs ++ tail) = fq_spec_all (render crlf true rs).
Proof. exact blank_tail. Qed.
Print Assumptions C02_spec_blank_tail.

(** more generally: such a tail yields no item wherever it stands *)
Theorem C02_spec_blank_tail_is_end : forall f tail l b,
  count_lf tail <= 2 -> forallb blank (pieces tail) = true -> fq_spec f tail l b = [].
Proof. exact fq_spec_blank. Qed.
Print Assumptions C02_spec_blank_tail_is_end.

(** three further LFs are one too many: the tail is then read as a group whose first
    byte is LF *)
Theorem C02_spec_blank_tail_3lf_refuted :
  exists (rs : list (list byte * list byte * list byte)) (tail : list byte),
  Forall (fun r => let '(h, s, q) := r in
            ~ In LF h /\ ~ In CR h /\ ~ In LF s /\ ~ In CR s /\ ~ In LF q /\ ~ In CR q /\
            length s = length q) rs /\
  count_lf tail = 3 /\ forallb blank (pieces tail) = true /\
  fq_spec_all (render false true rs) = [QRec (mkFqItem [97] [65] [73] 1 0)] /\
  fq_spec_all (render false true rs ++ tail) =
  [QRec (mkFqItem [97] [65] [73] 1 0); QErr (EInvalidStart LF 5) 5 9].
Proof. exact blank_tail_3lf_refuted. Qed.
Print Assumptions C02_spec_blank_tail_3lf_refuted.

(** ** length verdict.  A group of four lines h / s / p / q (contents without LF) whose
    first byte is '@' and whose third line starts with '+'; the fourth line is ended by
    LF ([t = Some r4], r4 the rest of the text) or by the end of input ([t = None]).
    Whatever terminators the lines carry (LF, CRLF, any mixture, end of input): the
    group is a record iff the trimmed lengths of s and q are equal, and otherwise it is
    the UnequalLengths error carrying the trimmed lengths. *)
Theorem C02_spec_length_verdict : forall f h s p q (t : option (list byte)) l b,
  ~ In LF h -> ~ In LF s -> ~ In LF p -> ~ In LF q ->
  hd LF (h ++ [LF]) = AT -> hd LF (p ++ [LF]) = PLUS ->
  let text := h ++ LF :: s ++ LF :: p ++ LF :: q
              ++ match t with Some r4 => LF :: r4 | None => [] end in
  (length (trim_cr s) = length (trim_cr q) ->
   fq_spec (S f) text l b =
   QRec (mkFqItem (trim_cr (tl h)) (trim_cr s) (trim_cr q) l b)
   :: match t with
      | Some r4 => fq_spec f r4 (l + 4) (b + length h + length s + length p + length q + 4)
      | None => []
      end) /\
  (length (trim_cr s) <> length (trim_cr q) ->
   fq_spec (S f) text l b =
   [QErr (EUnequal (length (trim_cr s)) (length (trim_cr q)) l (err_id h)) l b]).
Proof. exact length_verdict. Qed.
Print Assumptions C02_spec_length_verdict.

(** the same as one equation: the outcome is decided by the comparison of the trimmed
    lengths alone *)
Theorem C02_spec_length_verdict_exact : forall f h s p q (t : option (list byte)) l b,
  ~ In LF h -> ~ In LF s -> ~ In LF p -> ~ In LF q ->
  hd LF (h ++ [LF]) = AT -> hd LF (p ++ [LF]) = PLUS ->
  fq_spec (S f) (h ++ LF :: s ++ LF :: p ++ LF :: q
                 ++ match t with Some r4 => LF :: r4 | None => [] end) l b =
  if length (trim_cr s) =? length (trim_cr q) then
    QRec (mkFqItem (trim_cr (tl h)) (trim_cr s) (trim_cr q) l b)
    :: match t with
       | Some r4 => fq_spec f r4 (l + 4) (b + length h + length s + length p + length q + 4)
       | None => []
       end
  else [QErr (EUnequal (length (trim_cr s)) (length (trim_cr q)) l (err_id h)) l b].
Proof. exact verdict_lengths. Qed.
Print Assumptions C02_spec_length_verdict_exact.

(** ** an error item is the last item: nothing follows the first error *)
Theorem C02_spec_error_terminal : forall f rest l b pre e el eb post,
  fq_spec f rest l b = pre ++ QErr e el eb :: post -> post = [].
Proof. intros f rest l b. exact (fq_spec_err_last f rest l b). Qed.
Print Assumptions C02_spec_error_terminal.

(** equivalently: the stream is a list of records followed by nothing or one error *)
Theorem C02_spec_stream_shape : forall f rest l b,
  exists recs tl, fq_spec f rest l b = map QRec recs ++ tl /\
                  (tl = [] \/ exists e el eb, tl = [QErr e el eb]).
Proof. exact fq_spec_shape. Qed.
Print Assumptions C02_spec_stream_shape.

(** ** which breach gives which error (text [rest] at line [l], offset [b], any
    positive fuel).
    1. fewer than three LFs left and not all pieces blank: UnexpectedEnd at line
       l + (number of LFs), whatever the first byte is; the id is that of the first
       line when that line is terminated.
    2.-4. at least three LFs, i.e. text = h LF s LF p LF t (see [C02_spec_three_lfs]):
    2. first byte not '@' (LF counts as first byte of an empty line): InvalidStart with
       that byte at line l -- whatever the separator and the lengths are;
    3. first byte '@', first byte of the third line not '+': InvalidSep at line l + 2;
    4. both right, fourth line q ended by LF or by the end of input, trimmed lengths
       differ: UnequalLengths with the trimmed lengths at line l (and by
       [C02_spec_length_verdict] a record otherwise: error iff they differ). *)
Theorem C02_spec_error_kinds :
  (forall f rest l b,
     count_lf rest < 3 -> forallb blank (pieces rest) = false ->
     fq_spec (S f) rest l b =
     [QErr (EUnexpectedEnd (l + count_lf rest)
              (match cut_line rest with Some (h, _) => err_id h | None => None end)) l b]) /\
  (forall f h s p t l b text,
     text = h ++ LF :: s ++ LF :: p ++ LF :: t ->
     ~ In LF h -> ~ In LF s -> ~ In LF p ->
     hd LF text <> AT ->
     fq_spec (S f) text l b = [QErr (EInvalidStart (hd LF text) l) l b]) /\
  (forall f h s p t l b text,
     text = h ++ LF :: s ++ LF :: p ++ LF :: t ->
     ~ In LF h -> ~ In LF s -> ~ In LF p ->
     hd LF text = AT -> hd LF (p ++ [LF]) <> PLUS ->
     fq_spec (S f) text l b =
     [QErr (EInvalidSep (hd LF (p ++ [LF])) (l + 2) (err_id h)) l b]) /\
  (forall f h s p q (t : option (list byte)) l b text,
     text = h ++ LF :: s ++ LF :: p ++ LF :: q
            ++ match t with Some r4 => LF :: r4 | None => [] end ->
     ~ In LF h -> ~ In LF s -> ~ In LF p -> ~ In LF q ->
     hd LF text = AT -> hd LF (p ++ [LF]) = PLUS ->
     length (trim_cr s) <> length (trim_cr q) ->
     fq_spec (S f) text l b =
     [QErr (EUnequal (length (trim_cr s)) (length (trim_cr q)) l (err_id h)) l b]).
Proof.
  split; [exact kinds_end | split; [exact kinds_start | split; [exact kinds_sep | exact kinds_unequal]]].
Qed.
Print Assumptions C02_spec_error_kinds.

(** every text with at least three LFs has the shape used in clauses 2-4 *)
Theorem C02_spec_three_lfs : forall rest, 3 <= count_lf rest ->
  exists h s p t, rest = h ++ LF :: s ++ LF :: p ++ LF :: t /\
                  ~ In LF h /\ ~ In LF s /\ ~ In LF p.
Proof. exact three_lf_decompose. Qed.
Print Assumptions C02_spec_three_lfs.

(* ------------------------------------------------------------------ *)
(** non-vacuity *)

Example C02_spec_fuel_independent_example :
  fq_spec 100 [64;97;10;65;10;43;10;73;10] 1 0 = fq_spec 10 [64;97;10;65;10;43;10;73;10] 1 0 /\
  fq_spec 10 [64;97;10;65;10;43;10;73;10] 1 0 = [QRec (mkFqItem [97] [65] [73] 1 0)].
Proof. split; vm_compute; reflexivity. Qed.

(** "@a\r\nA\r\n+\r\nI\r\n" followed by "\r\n\r\n\r" *)
Example C02_spec_blank_tail_example :
  let rs := [([97], [65], [73])] in
  let tail := [13; 10; 13; 10; 13] in
  Forall (fun r => let '(h, s, q) := r in
            ~ In LF h /\ ~ In CR h /\ ~ In LF s /\ ~ In CR s /\ ~ In LF q /\ ~ In CR q /\
            length s = length q) rs /\
  count_lf tail <= 2 /\ forallb blank (pieces tail) = true /\
  render true true rs ++ tail = [64;97;13;10; 65;13;10; 43;13;10; 73;13;10; 13;10;13;10;13] /\
  fq_spec_all (render true true rs ++ tail) = [QRec (mkFqItem [97] [65] [73] 1 0)].
Proof.
  split; [repeat constructor; nomem|].
  split; [vm_compute; lia|]. repeat split; vm_compute; reflexivity.
Qed.

(** "@a\r\nAC\r\n+\r\nIJ\r\n" accepted, with quality "I" rejected; "@a\nAC\n+\nIJ" (LF, end of
    input) accepted; "@a\r\nAC\r\n+\r\nIJ" (CRLF, end of input) accepted *)
Example C02_spec_length_verdict_example :
  fq_spec_all ([64;97;13] ++ LF :: [65;67;13] ++ LF :: [43;13] ++ LF :: [73;74;13] ++ [LF]) =
    [QRec (mkFqItem [97] [65; 67] [73; 74] 1 0)] /\
  fq_spec_all ([64;97;13] ++ LF :: [65;67;13] ++ LF :: [43;13] ++ LF :: [73;13] ++ [LF]) =
    [QErr (EUnequal 2 1 1 (Some [97])) 1 0] /\
  fq_spec_all ([64;97] ++ LF :: [65;67] ++ LF :: [43] ++ LF :: [73;74]) =
    [QRec (mkFqItem [97] [65; 67] [73; 74] 1 0)] /\
  fq_spec_all ([64;97;13] ++ LF :: [65;67;13] ++ LF :: [43;13] ++ LF :: [73;74]) =
    [QRec (mkFqItem [97] [65; 67] [73; 74] 1 0)].
Proof. repeat split; vm_compute; reflexivity. Qed.

(** regression (the former counter-example C02_spec_length_verdict_crlf_eof_refuted):
    "@a\r\nAB\r\n+\r\nABC", CRLF lines and the quality line ended by the end of input,
    was accepted because the raw extents "AB\r" and "ABC" are equally long; it is now
    the UnequalLengths error with the trimmed lengths 2 and 3 *)
Example C02_spec_length_verdict_crlf_eof_regression :
  fq_spec_all ([64; 97; 13] ++ LF :: [65; 66; 13] ++ LF :: [43; 13] ++ LF :: [65; 66; 67]) =
  [QErr (EUnequal 2 3 1 (Some [97])) 1 0].
Proof. exact length_verdict_crlf_eof_regression. Qed.

(** "@a\nA\n+" / "Xa\nA\n+\nI\n" / "@a\nA\n-\nI\n" / "@a\nAB\n+\nI\n" / two records then a bad one *)
Example C02_spec_error_kinds_example :
  count_lf [64;97;10;65;10;43] < 3 /\ forallb blank (pieces [64;97;10;65;10;43]) = false /\
  fq_spec_all [64;97;10;65;10;43] = [QErr (EUnexpectedEnd 3 (Some [97])) 1 0] /\
  fq_spec_all [88;97;10;65;10;43;10;73;10] = [QErr (EInvalidStart 88 1) 1 0] /\
  fq_spec_all [64;97;10;65;10;45;10;73;10] = [QErr (EInvalidSep 45 3 (Some [97])) 1 0] /\
  fq_spec_all [64;97;10;65;66;10;43;10;73;10] = [QErr (EUnequal 2 1 1 (Some [97])) 1 0] /\
  fq_spec_all ([64;97;10;65;10;43;10;73;10] ++ [88;10;10;10;10] ++ [64;97;10;65;10;43;10;73;10]) =
    [QRec (mkFqItem [97] [65] [73] 1 0); QErr (EInvalidStart 88 5) 5 9].
Proof. split; [vm_compute; lia|]. repeat split; vm_compute; reflexivity. Qed.
