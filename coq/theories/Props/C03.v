(** C03 — Results do not depend on buffer capacity, growth policy or read chunking.
    FASTA part (record-by-record reading); the FASTQ part is in C03q.v.
    Statements only; proofs in Proofs/FastaTopP.v and Proofs/Window.v. *)
From SeqIO Require Import Model.Base Model.Fasta Model.Views Spec.FastaSpec
     Proofs.Window Proofs.FastaInv Proofs.FastaNextP Proofs.ViewsP Proofs.FastaTopP.

(** Two arbitrary configurations (capacity x read script x policy) of the same
    input, compared WITH EACH OTHER, call by call: same record contents (header
    and every sequence line), same reported position, same error fields, end of
    input signalled at the same call.  No reference run appears in the statement. *)
Theorem C03_fasta_config_independence : forall inp n
        cap1 rs1 ss1 pol1 fuel1 ffuel1 cap2 rs2 ss2 pol2 fuel2 ffuel2,
  3 <= cap1 -> forallb item_ok rs1 = true -> PolOk pol1 -> length rs1 + 2 <= ffuel1 -> length inp + 2 <= fuel1 ->
  3 <= cap2 -> forallb item_ok rs2 = true -> PolOk pol2 -> length rs2 + 2 <= ffuel2 -> length inp + 2 <= fuel2 ->
  Forall2 fa_same_outcome
          (fa_run fuel1 ffuel1 n (fa_new cap1 (mkSource inp 0 rs1 ss1) pol1))
          (fa_run fuel2 ffuel2 n (fa_new cap2 (mkSource inp 0 rs2 ss2) pol2)).
Proof. exact fa_config_independence. Qed.
Print Assumptions C03_fasta_config_independence.

(** the refill: whatever the chunking and however many reads are interrupted, a
    fault-free [fill_buf] appends exactly the next min(free space, remaining) bytes *)
Theorem C03_fill_buf_chunking_invisible : forall fuel buf cap s lg nr,
  no_fail s -> length (s_rs s) + 2 <= fuel -> length buf <= cap -> s_pos s <= length (s_data s) ->
  exists s' lg',
    fill_buf fuel buf cap s lg nr =
      (buf ++ firstn (cap - length buf) (skipn (s_pos s) (s_data s)), s', lg',
       FillOk (nr + Nat.min (cap - length buf) (length (s_data s) - s_pos s))) /\
    s_data s' = s_data s /\
    s_pos s' = s_pos s + Nat.min (cap - length buf) (length (s_data s) - s_pos s) /\
    s_ss s' = s_ss s /\ no_fail s' /\ length (s_rs s') <= length (s_rs s) /\ only_reads lg lg'.
Proof. exact fill_buf_ok. Qed.
Print Assumptions C03_fill_buf_chunking_invisible.

(** non-vacuity: capacity 3 / one byte per read with interrupts / doubling policy
    against capacity 64 / whole reads / additive policy *)
Example C03_example :
  let inp := [10; 62; 97; 10; 65; 67; 71; 84; 65; 10; 62; 98; 10; 71] in
  let view o := match fst o with ORec rc => (fa_head rc, fa_lines rc, snd o) | _ => (None, None, None) end in
  map view (fa_run 40 40 4 (fa_new 3 (mkSource inp 0 [RInterrupt; RDeliver 0; RInterrupt; RDeliver 0; RDeliver 1] []) pol_std))
  = map view (fa_run 40 40 4 (fa_new 64 (mkSource inp 0 [] []) (pol_plus 7 1000))).
Proof. vm_compute; reflexivity. Qed.
