(** C03 (continued) — "... identical for every growth policy THAT PERMITS THE NEEDED SIZE ...":
    when every record of the input fits the initial capacity, NOTHING needs to grow, so EVERY policy
    permits the needed size -- also one that refuses every request ([pol_refuse = fun _ _ => None]) or
    answers nonsense -- and the outcome is the same as with any other policy.   FASTA and FASTQ.
    Statements only; proofs in Proofs/FitPolicyP.v.

    C03.v / C03q.v / C03s.v prove configuration independence for policies that never refuse ([PolOk]);
    C09s.v proves that a [PolOk] policy is never consulted on an input whose records all fit
    ([FaAllRecordsFit] / [FqAllRecordsFit], defined and explained there); C09l.v relates an arbitrary
    policy to its never-refusing completion up to the first refusal.  Here, for histories of plain
    reads ([next], owned reads, plain record-set reads into two slots, re-iteration, position queries),
    for an ARBITRARY policy [pol] (no hypothesis on it at all):

    (1) [C03_*_fitting_input_never_refused]: no observation is the buffer-limit error, the log of the
        reader holds no [EvGrow] event (the policy was never asked) and the capacity is the initial one.
    (2) [C03_*_fitting_input_policy_irrelevant]: two arbitrary policies give the same observations, call
        by call; [C03_*_fitting_input_policy_irrelevant_state]: and the same final reader, record sets
        and log -- the final states differ in the policy function only.
    (3) [C03_*_fitting_input_any_policy_spec]: these observations are a run of the abstract cursor
        machine over the specification stream (the conclusion of C04fa / C04q, whose [PolOk] hypothesis
        is replaced by "the records fit").

    How (Proofs/FitPolicyP.v): the policy function is used in [grow] only, and [grow] logs the
    consultation before anything else.  Two readers that differ ONLY in the policy function run in
    lockstep through every entry point unless the first one logs an [EvGrow] event during the call.
    This gives, for EVERY reader state, source script and fuel,
    (4) [C03_*_next_policy_unconsulted] / [C03_*_read_set_policy_unconsulted]: a call that logs no
        consultation returns the same outcome (and record set) and the same state under any other
        policy [q];
    (5) [C03_*_unconsulted_policy_irrelevant]: for histories of ALL operations (also exact-count reads
        and seeks) from a fresh reader: if the history under [pol1] logs no consultation, the history
        under any [pol2] shows the same observations, none of them a buffer-limit error, and ends in
        the same state up to the policy function.
    (1)-(3) follow from (5) with [pol1 := pol_complete pol] (C09l.v), which is never consulted by C09s.v.

    Deviations from the statements as first written down: (3) needs neither [hop_ok ops] (plain
    operations satisfy it) nor [tgt = tgt_spec inp] (plain histories perform no seek: every table
    [tgt]); FASTQ is proved for capacity >= 1 as in C09s/C04q (so also for the capacities >= 3 the
    library allows).  No extra hypotheses.  (2)-state, (4) and (5) are additions. *)
From SeqIO Require Import Model.Base Model.Fasta Model.Alloc Model.Views Spec.FastaSpec Spec.Cursor
     Proofs.Window Proofs.FastaInv Proofs.FastaStream Proofs.FastaNextP Proofs.FastaTopP
     Proofs.FastaSetP Proofs.FastaSeekP Proofs.FastaHistP Proofs.FaPrefixP
     Proofs.AllocFitP Proofs.FitSetsP Proofs.LimitPrefixP Proofs.FitPolicyP.

(* ================================================================== *)
(** * FASTA *)

(** (1) an arbitrary policy is never consulted, hence never refuses, on a fitting input *)
Theorem C03_fa_fitting_input_never_refused : forall inp cap0 rs sks pol fuel ffuel tgt ops,
  3 <= cap0 -> forallb item_ok rs = true -> length rs + 2 <= ffuel -> length inp + 2 <= fuel ->
  Forall (fun op => op = HNext \/ op = HOwned \/ (exists s, op = HSet s) \/ (exists s, op = HIter s) \/
                    op = HPos) ops ->                     (* no exact-count reads, no seeks *)
  FaAllRecordsFit inp cap0 ->
  let run := fa_hist fuel ffuel tgt ops (h_init inp cap0 rs sks pol) in
  (forall p, ~ In (HoErr FaBufferLimit, p) (fst run)) /\
  filter ev_is_grow (log (h_r (snd run))) = [] /\ cap (h_r (snd run)) = cap0.
Proof.
  intros inp cap0 rs sks pol fuel ffuel tgt ops H1 H2 H3 H4 H5 H6.
  exact (fa_fitting_input_never_refused inp cap0 rs sks fuel ffuel tgt ops H1 H2 H3 H4 H5 H6 pol).
Qed.
Print Assumptions C03_fa_fitting_input_never_refused.

(** (2) two ARBITRARY policies (each may refuse everything) give the same observations, call by call *)
Theorem C03_fa_fitting_input_policy_irrelevant : forall inp cap0 rs sks pol1 pol2 fuel ffuel tgt ops,
  3 <= cap0 -> forallb item_ok rs = true -> length rs + 2 <= ffuel -> length inp + 2 <= fuel ->
  Forall (fun op => op = HNext \/ op = HOwned \/ (exists s, op = HSet s) \/ (exists s, op = HIter s) \/
                    op = HPos) ops ->
  FaAllRecordsFit inp cap0 ->
  fst (fa_hist fuel ffuel tgt ops (h_init inp cap0 rs sks pol1)) =
  fst (fa_hist fuel ffuel tgt ops (h_init inp cap0 rs sks pol2)).
Proof.
  intros inp cap0 rs sks pol1 pol2 fuel ffuel tgt ops H1 H2 H3 H4 H5 H6.
  exact (fa_fitting_input_policy_irrelevant inp cap0 rs sks fuel ffuel tgt ops H1 H2 H3 H4 H5 H6 pol1 pol2).
Qed.
Print Assumptions C03_fa_fitting_input_policy_irrelevant.

(** ... and end in the same state: reader (buffer, capacity, source, offsets, position, state flag,
    consultation history, event log) and both record sets; only the policy function differs *)
Theorem C03_fa_fitting_input_policy_irrelevant_state : forall inp cap0 rs sks pol1 pol2 fuel ffuel tgt ops,
  3 <= cap0 -> forallb item_ok rs = true -> length rs + 2 <= ffuel -> length inp + 2 <= fuel ->
  Forall (fun op => op = HNext \/ op = HOwned \/ (exists s, op = HSet s) \/ (exists s, op = HIter s) \/
                    op = HPos) ops ->
  FaAllRecordsFit inp cap0 ->
  let h1 := snd (fa_hist fuel ffuel tgt ops (h_init inp cap0 rs sks pol1)) in
  let h2 := snd (fa_hist fuel ffuel tgt ops (h_init inp cap0 rs sks pol2)) in
  h_r h2 = set_pol (h_r h1) pol2 (polh (h_r h1)) /\ h_s0 h2 = h_s0 h1 /\ h_s1 h2 = h_s1 h1.
Proof.
  intros inp cap0 rs sks pol1 pol2 fuel ffuel tgt ops H1 H2 H3 H4 H5 H6.
  exact (fa_fitting_input_policy_irrelevant_state inp cap0 rs sks fuel ffuel tgt ops H1 H2 H3 H4 H5 H6 pol1 pol2).
Qed.
Print Assumptions C03_fa_fitting_input_policy_irrelevant_state.

(** (3) and these observations are the Spec stream (a run of the cursor machine over [fa_spec inp]),
    whatever the policy: the conclusion of [C04_history_refines_cursor] (Props/C04fa.v) *)
Theorem C03_fa_fitting_input_any_policy_spec : forall inp cap0 rs sks pol fuel ffuel tgt ops,
  3 <= cap0 -> forallb item_ok rs = true -> forallb sitem_ok sks = true ->
  length rs + 2 <= ffuel -> length inp + 2 <= fuel ->
  Forall (fun op => op = HNext \/ op = HOwned \/ (exists s, op = HSet s) \/ (exists s, op = HIter s) \/
                    op = HPos) ops ->
  FaAllRecordsFit inp cap0 ->
  let obs := fst (fa_hist fuel ffuel tgt ops (h_init inp cap0 rs sks pol)) in
  exists items c' g',
    FaOSpec inp items /\ Forall2 (item_rel inp) items (fa_spec inp) /\
    hrun_ok inp (map to_citem items) (CAt 0) ([], []) ops obs c' g'.
Proof.
  intros inp cap0 rs sks pol fuel ffuel tgt ops H1 H2 Hs H3 H4 H5 H6.
  exact (fa_fitting_input_any_policy_spec inp cap0 rs sks fuel ffuel tgt ops H1 H2 H3 H4 H5 H6 pol Hs).
Qed.
Print Assumptions C03_fa_fitting_input_any_policy_spec.

(** (4) one call, EVERY reader state [a], fuel and source script: if the call logs no consultation, it
    returns the same outcome and the same state under any other policy function [q] *)
Theorem C03_fa_next_policy_unconsulted : forall fuel ffuel a q a' o,
  fa_next fuel ffuel a = (a', o) -> filter ev_is_grow (log a') = filter ev_is_grow (log a) ->
  fa_next fuel ffuel (set_pol a q (polh a)) = (set_pol a' q (polh a'), o).
Proof. exact fa_next_policy_unconsulted. Qed.
Print Assumptions C03_fa_next_policy_unconsulted.

Theorem C03_fa_read_set_policy_unconsulted : forall fuel ffuel n a rs q a' rs' o,
  fa_read_set fuel ffuel n a rs = (a', rs', o) -> filter ev_is_grow (log a') = filter ev_is_grow (log a) ->
  fa_read_set fuel ffuel n (set_pol a q (polh a)) rs = (set_pol a' q (polh a'), rs', o).
Proof. exact fa_read_set_policy_unconsulted. Qed.
Print Assumptions C03_fa_read_set_policy_unconsulted.

(** (5) histories of ALL operations (also exact-count reads and seeks), any input, capacity, source
    script and fuel: a policy that is never consulted is irrelevant *)
Theorem C03_fa_unconsulted_policy_irrelevant : forall inp cap0 rs sks pol1 pol2 fuel ffuel tgt ops,
  let run1 := fa_hist fuel ffuel tgt ops (h_init inp cap0 rs sks pol1) in
  let run2 := fa_hist fuel ffuel tgt ops (h_init inp cap0 rs sks pol2) in
  filter ev_is_grow (log (h_r (snd run1))) = [] ->
  fst run2 = fst run1 /\
  (forall p, ~ In (HoErr FaBufferLimit, p) (fst run2)) /\
  log (h_r (snd run2)) = log (h_r (snd run1)) /\ cap (h_r (snd run2)) = cap (h_r (snd run1)) /\
  h_r (snd run2) = set_pol (h_r (snd run1)) pol2 (polh (h_r (snd run1))) /\
  h_s0 (snd run2) = h_s0 (snd run1) /\ h_s1 (snd run2) = h_s1 (snd run1).
Proof. exact fa_unconsulted_policy_irrelevant. Qed.
Print Assumptions C03_fa_unconsulted_policy_irrelevant.

(* ------------------------------------------------------------------ *)
(** ** non-vacuity (FASTA) *)

(** the input of C09s.v (four records ">a\nC\n", needed window 6), capacity 8, the policy that refuses
    EVERYTHING and the standard policy, a mixed plain history: all hypotheses hold, the observations
    are equal (record, set of 1, position, owned record, set of 1, iteration of 1, end of input),
    no consultation, capacity unchanged *)
Example C03p_fa_nonvacuous :
  let ops := [HNext; HSet 0; HPos; HOwned; HSet 1; HIter 0; HNext] in
  let run pol := fa_hist 100 100 (fun _ => None) ops (h_init c09s_inp 8 [] [] pol) in
  pol_refuse = (fun _ _ => None) /\
  3 <= 8 /\ forallb item_ok [] = true /\ forallb sitem_ok [] = true /\
  length (@nil ritem) + 2 <= 100 /\ length c09s_inp + 2 <= 100 /\
  Forall (fun op => op = HNext \/ op = HOwned \/ (exists s, op = HSet s) \/ (exists s, op = HIter s) \/
                    op = HPos) ops /\
  FaAllRecordsFit c09s_inp 8 /\
  fst (run pol_refuse) = fst (run pol_std) /\
  map c03p_show (fst (run pol_refuse)) = [10; 1; 12; 11; 1; 1; 13] /\
  filter ev_is_grow (log (h_r (snd (run pol_refuse)))) = [] /\ cap (h_r (snd (run pol_refuse))) = 8.
Proof.
  cbv zeta.
  split; [reflexivity|]. split; [lia|]. split; [reflexivity|]. split; [reflexivity|].
  split; [cbn; lia|]. split; [vm_compute; lia|].
  split.
  { repeat (apply Forall_cons; [first [left; reflexivity | right; left; reflexivity
      | right; right; left; eexists; reflexivity | right; right; right; left; eexists; reflexivity
      | right; right; right; right; reflexivity]|]). apply Forall_nil. }
  split; [apply c09s_fits; lia|].
  split; [vm_compute; reflexivity|]. split; [vm_compute; reflexivity|].
  split; vm_compute; reflexivity.
Qed.

(** the same by the theorems, at the sharp capacity 6 = the needed window, against a policy that
    answers nonsense (a size that is not larger) *)
Example C03p_fa_by_theorem :
  let ops := [HNext; HSet 0; HPos; HOwned; HSet 1; HIter 0; HNext] in
  let run pol := fa_hist 100 100 (fun _ => None) ops (h_init c09s_inp 6 [] [] pol) in
  fst (run (fun _ c => Some (c - 1))) = fst (run pol_std) /\
  (forall p, ~ In (HoErr FaBufferLimit, p) (fst (run pol_refuse))) /\
  filter ev_is_grow (log (h_r (snd (run pol_refuse)))) = [] /\ cap (h_r (snd (run pol_refuse))) = 6.
Proof.
  cbv zeta.
  assert (Hops : Forall (fun op => op = HNext \/ op = HOwned \/ (exists s, op = HSet s) \/
                                   (exists s, op = HIter s) \/ op = HPos)
                        [HNext; HSet 0; HPos; HOwned; HSet 1; HIter 0; HNext]).
  { repeat (apply Forall_cons; [first [left; reflexivity | right; left; reflexivity
      | right; right; left; eexists; reflexivity | right; right; right; left; eexists; reflexivity
      | right; right; right; right; reflexivity]|]). apply Forall_nil. }
  split.
  - apply C03_fa_fitting_input_policy_irrelevant;
      [lia | reflexivity | cbn; lia | vm_compute; lia | exact Hops | apply c09s_fits; lia].
  - apply (C03_fa_fitting_input_never_refused c09s_inp 6 [] [] pol_refuse 100 100 (fun _ => None));
      [lia | reflexivity | cbn; lia | vm_compute; lia | exact Hops | apply c09s_fits; lia].
Qed.

(** the hypothesis matters.  One record ">a\nCCCCCC\n" (10 bytes, needed window 11), capacity 4: it does
    NOT fit; under the refusing policy both reads return the buffer-limit error, while the standard
    policy delivers the record and then the end of input.  The same for the input above at capacity 5. *)
Example C03p_fa_counterexample :
  let ops := [HNext; HNext] in
  let run pol := fa_hist 100 100 (fun _ => None) ops (h_init c03p_one 4 [] [] pol) in
  ~ FaAllRecordsFit c03p_one 4 /\
  map fst (fst (run pol_refuse)) = [HoErr FaBufferLimit; HoErr FaBufferLimit] /\
  map c03p_show (fst (run pol_std)) = [10; 13] /\
  (exists rc, nth_error (map fst (fst (run pol_std))) 0 = Some (HoRec rc) /\
              fa_head rc = Some [97] /\ fa_lines rc = Some [[67; 67; 67; 67; 67; 67]]) /\
  filter ev_is_grow (log (h_r (snd (run pol_refuse)))) = [EvGrow 4 None; EvGrow 4 None] /\
  ~ FaAllRecordsFit c09s_inp 5 /\
  map c03p_show (fst (fa_hist 100 100 (fun _ => None) [HNext; HSet 0] (h_init c09s_inp 5 [] [] pol_refuse))) = [77; 77] /\
  map c03p_show (fst (fa_hist 100 100 (fun _ => None) [HNext; HSet 0] (h_init c09s_inp 5 [] [] pol_std))) = [10; 1].
Proof.
  cbv zeta.
  split; [apply c03p_one_not_fits; lia|].
  split; [vm_compute; reflexivity|]. split; [vm_compute; reflexivity|].
  split; [vm_compute; eexists; repeat split; reflexivity|].
  split; [vm_compute; reflexivity|].
  split; [apply c09s_not_fits; lia|].
  split; vm_compute; reflexivity.
Qed.

(** (5) with exact-count reads and a seek: capacity 32, the history under [pol_std] logs no
    consultation (hypothesis of the theorem, by computation), so the refusing policy shows the same:
    set of 2, seek, record, set of 2, end of input *)
Example C03p_fa_unconsulted_nonvacuous :
  let ops := [HSetExact 0 2; HSeek 1; HNext; HSetExact 1 2; HNext] in
  let run pol := fa_hist 100 100 (tgt_spec c09s_inp) ops (h_init c09s_inp 32 [] [] pol) in
  filter ev_is_grow (log (h_r (snd (run pol_std)))) = [] /\
  fst (run pol_refuse) = fst (run pol_std) /\
  map c03p_show (fst (run pol_refuse)) = [2; 14; 10; 2; 13].
Proof.
  cbv zeta.
  assert (Hg : filter ev_is_grow (log (h_r (snd (fa_hist 100 100 (tgt_spec c09s_inp)
                 [HSetExact 0 2; HSeek 1; HNext; HSetExact 1 2; HNext] (h_init c09s_inp 32 [] [] pol_std))))) = [])
    by (vm_compute; reflexivity).
  split; [exact Hg|]. split.
  - exact (proj1 (C03_fa_unconsulted_policy_irrelevant c09s_inp 32 [] [] pol_std pol_refuse 100 100
                    (tgt_spec c09s_inp) _ Hg)).
  - vm_compute. reflexivity.
Qed.

(** (4) in a non-trivial state: after the first record of the input above (capacity 8, buffer full, the
    second record incomplete in the buffer) the next call makes room and refills without consulting the
    standard policy; so it returns the same record under the refusing policy *)
Example C03p_fa_call_nonvacuous :
  let a := fst (fa_next 100 100 (fa_new 8 (mkSource c09s_inp 0 [] []) pol_std)) in
  let x := fa_next 100 100 a in
  st a = FParsing /\ length (buf a) = 8 /\
  filter ev_is_grow (log (fst x)) = filter ev_is_grow (log a) /\
  (exists rc, snd x = ORec rc /\ rstart rc = 0 /\ fa_head rc = Some [97]) /\
  fa_next 100 100 (set_pol a pol_refuse (polh a)) = (set_pol (fst x) pol_refuse (polh (fst x)), snd x).
Proof.
  cbv zeta.
  split; [vm_compute; reflexivity|]. split; [vm_compute; reflexivity|].
  assert (Hg : filter ev_is_grow (log (fst (fa_next 100 100 (fst (fa_next 100 100 (fa_new 8 (mkSource c09s_inp 0 [] []) pol_std)))))) =
               filter ev_is_grow (log (fst (fa_next 100 100 (fa_new 8 (mkSource c09s_inp 0 [] []) pol_std)))))
    by (vm_compute; reflexivity).
  split; [exact Hg|]. split; [vm_compute; eexists; repeat split; reflexivity|].
  apply C03_fa_next_policy_unconsulted; [apply surjective_pairing|exact Hg].
Qed.

(* ================================================================== *)
(** * FASTQ *)
From SeqIO Require Import Model.Fastq Spec.FastqSpec Spec.CursorQ
     Proofs.FqSpecP Proofs.FastqInv Proofs.FastqNextP Proofs.FastqSetP Proofs.FastqHistP
     Proofs.AllocFqFitP.

Theorem C03_fq_fitting_input_never_refused : forall inp cap0 rs ss pol fuel ffuel ops,
  1 <= cap0 -> forallb item_ok rs = true -> forallb sitem_ok ss = true ->
  length rs + 2 <= ffuel -> 2 * length inp + 4 <= fuel ->
  Forall (fun op => op = CursorQ.HNext \/ op = CursorQ.HOwned \/
                    (exists s, op = CursorQ.HSet s) \/ (exists s, op = CursorQ.HIter s) \/
                    op = CursorQ.HPos) ops ->             (* no exact-count reads, no seeks *)
  FqAllRecordsFit inp cap0 ->
  let run := fq_hrun inp fuel ffuel ops (fq_hconf0 cap0 inp rs ss pol) in
  ~ In (OErr FqBufferLimit) (fst run) /\
  filter ev_is_grow (qlog (c_rd (snd run))) = [] /\ qcap (c_rd (snd run)) = cap0.
Proof.
  intros inp cap0 rs ss pol fuel ffuel ops H1 H2 Hs H3 H4 H5 H6.
  exact (fq_fitting_input_never_refused inp cap0 rs ss fuel ffuel ops H1 H2 Hs H3 H4 H5 H6 pol).
Qed.
Print Assumptions C03_fq_fitting_input_never_refused.

Theorem C03_fq_fitting_input_policy_irrelevant : forall inp cap0 rs ss pol1 pol2 fuel ffuel ops,
  1 <= cap0 -> forallb item_ok rs = true -> forallb sitem_ok ss = true ->
  length rs + 2 <= ffuel -> 2 * length inp + 4 <= fuel ->
  Forall (fun op => op = CursorQ.HNext \/ op = CursorQ.HOwned \/
                    (exists s, op = CursorQ.HSet s) \/ (exists s, op = CursorQ.HIter s) \/
                    op = CursorQ.HPos) ops ->
  FqAllRecordsFit inp cap0 ->
  fst (fq_hrun inp fuel ffuel ops (fq_hconf0 cap0 inp rs ss pol1)) =
  fst (fq_hrun inp fuel ffuel ops (fq_hconf0 cap0 inp rs ss pol2)).
Proof.
  intros inp cap0 rs ss pol1 pol2 fuel ffuel ops H1 H2 Hs H3 H4 H5 H6.
  exact (fq_fitting_input_policy_irrelevant inp cap0 rs ss fuel ffuel ops H1 H2 Hs H3 H4 H5 H6 pol1 pol2).
Qed.
Print Assumptions C03_fq_fitting_input_policy_irrelevant.

Theorem C03_fq_fitting_input_policy_irrelevant_state : forall inp cap0 rs ss pol1 pol2 fuel ffuel ops,
  1 <= cap0 -> forallb item_ok rs = true -> forallb sitem_ok ss = true ->
  length rs + 2 <= ffuel -> 2 * length inp + 4 <= fuel ->
  Forall (fun op => op = CursorQ.HNext \/ op = CursorQ.HOwned \/
                    (exists s, op = CursorQ.HSet s) \/ (exists s, op = CursorQ.HIter s) \/
                    op = CursorQ.HPos) ops ->
  FqAllRecordsFit inp cap0 ->
  let c1 := snd (fq_hrun inp fuel ffuel ops (fq_hconf0 cap0 inp rs ss pol1)) in
  let c2 := snd (fq_hrun inp fuel ffuel ops (fq_hconf0 cap0 inp rs ss pol2)) in
  c_rd c2 = qset_pol (c_rd c1) pol2 (qpolh (c_rd c1)) /\
  c_slot c2 false = c_slot c1 false /\ c_slot c2 true = c_slot c1 true.
Proof.
  intros inp cap0 rs ss pol1 pol2 fuel ffuel ops H1 H2 Hs H3 H4 H5 H6.
  exact (fq_fitting_input_policy_irrelevant_state inp cap0 rs ss fuel ffuel ops H1 H2 Hs H3 H4 H5 H6 pol1 pol2).
Qed.
Print Assumptions C03_fq_fitting_input_policy_irrelevant_state.

(** the conclusion of [C04_fq_history_refines_cursor] (Props/C04q.v) for an arbitrary policy *)
Theorem C03_fq_fitting_input_any_policy_spec : forall inp cap0 rs ss pol fuel ffuel ops,
  1 <= cap0 -> forallb item_ok rs = true -> forallb sitem_ok ss = true ->
  length rs + 2 <= ffuel -> 2 * length inp + 4 <= fuel ->
  Forall (fun op => op = CursorQ.HNext \/ op = CursorQ.HOwned \/
                    (exists s, op = CursorQ.HSet s) \/ (exists s, op = CursorQ.HIter s) \/
                    op = CursorQ.HPos) ops ->
  FqAllRecordsFit inp cap0 ->
  let obs := fst (fq_hrun inp fuel ffuel ops (fq_hconf0 cap0 inp rs ss pol)) in
  exists os h', hrun fq_sitem fq_is_rec (fq_spec_all inp) h_init ops os h' /\
                Forall2 (obs_match inp) obs os.
Proof.
  intros inp cap0 rs ss pol fuel ffuel ops H1 H2 Hs H3 H4 H5 H6.
  exact (fq_fitting_input_any_policy_spec inp cap0 rs ss fuel ffuel ops H1 H2 Hs H3 H4 H5 H6 pol).
Qed.
Print Assumptions C03_fq_fitting_input_any_policy_spec.

(** the same for the capacities the library allows *)
Theorem C03_fq_fitting_input_never_refused_lib : forall inp cap0 rs ss pol fuel ffuel ops,
  3 <= cap0 -> forallb item_ok rs = true -> forallb sitem_ok ss = true ->
  length rs + 2 <= ffuel -> 2 * length inp + 4 <= fuel ->
  Forall (fun op => op = CursorQ.HNext \/ op = CursorQ.HOwned \/
                    (exists s, op = CursorQ.HSet s) \/ (exists s, op = CursorQ.HIter s) \/
                    op = CursorQ.HPos) ops ->
  FqAllRecordsFit inp cap0 ->
  let run := fq_hrun inp fuel ffuel ops (fq_hconf0 cap0 inp rs ss pol) in
  ~ In (OErr FqBufferLimit) (fst run) /\
  filter ev_is_grow (qlog (c_rd (snd run))) = [] /\ qcap (c_rd (snd run)) = cap0.
Proof.
  intros inp cap0 rs ss pol fuel ffuel ops H1 H2 Hs H3 H4 H5 H6.
  exact (fq_fitting_input_never_refused inp cap0 rs ss fuel ffuel ops
           (Nat.le_trans 1 3 cap0 (le_S 1 2 (le_S 1 1 (le_n 1))) H1) H2 Hs H3 H4 H5 H6 pol).
Qed.
Print Assumptions C03_fq_fitting_input_never_refused_lib.

Theorem C03_fq_next_policy_unconsulted : forall fuel ffuel a q a' o,
  fq_next fuel ffuel a = (a', o) -> filter ev_is_grow (qlog a') = filter ev_is_grow (qlog a) ->
  fq_next fuel ffuel (qset_pol a q (qpolh a)) = (qset_pol a' q (qpolh a'), o).
Proof. exact fq_next_policy_unconsulted. Qed.
Print Assumptions C03_fq_next_policy_unconsulted.

Theorem C03_fq_read_set_policy_unconsulted : forall fuel ffuel n a rs q a' rs' o,
  fq_read_set fuel ffuel n a rs = (a', rs', o) -> filter ev_is_grow (qlog a') = filter ev_is_grow (qlog a) ->
  fq_read_set fuel ffuel n (qset_pol a q (qpolh a)) rs = (qset_pol a' q (qpolh a'), rs', o).
Proof. exact fq_read_set_policy_unconsulted. Qed.
Print Assumptions C03_fq_read_set_policy_unconsulted.

Theorem C03_fq_unconsulted_policy_irrelevant : forall inp cap0 rs ss pol1 pol2 fuel ffuel ops,
  let run1 := fq_hrun inp fuel ffuel ops (fq_hconf0 cap0 inp rs ss pol1) in
  let run2 := fq_hrun inp fuel ffuel ops (fq_hconf0 cap0 inp rs ss pol2) in
  filter ev_is_grow (qlog (c_rd (snd run1))) = [] ->
  fst run2 = fst run1 /\
  ~ In (OErr FqBufferLimit) (fst run2) /\
  qlog (c_rd (snd run2)) = qlog (c_rd (snd run1)) /\ qcap (c_rd (snd run2)) = qcap (c_rd (snd run1)) /\
  c_rd (snd run2) = qset_pol (c_rd (snd run1)) pol2 (qpolh (c_rd (snd run1))) /\
  c_slot (snd run2) false = c_slot (snd run1) false /\ c_slot (snd run2) true = c_slot (snd run1) true.
Proof. exact fq_unconsulted_policy_irrelevant. Qed.
Print Assumptions C03_fq_unconsulted_policy_irrelevant.

(* ------------------------------------------------------------------ *)
(** ** non-vacuity (FASTQ) *)

(** the input of C09s.v (four records "@a\nC\n+\nI\n" of 9 bytes), capacity 9 = the length of a
    record (the sharp bound), the policy that refuses everything: all hypotheses hold; same
    observations as under the standard policy; no consultation *)
Example C03p_fq_nonvacuous :
  let ops := [CursorQ.HNext; CursorQ.HSet false; CursorQ.HPos; CursorQ.HOwned;
              CursorQ.HSet true; CursorQ.HIter false; CursorQ.HNext] in
  let run pol := fq_hrun c09s_qinp 100 100 ops (fq_hconf0 9 c09s_qinp [] [] pol) in
  1 <= 9 /\ forallb item_ok [] = true /\ forallb sitem_ok [] = true /\
  length (@nil ritem) + 2 <= 100 /\ 2 * length c09s_qinp + 4 <= 100 /\
  Forall (fun op => op = CursorQ.HNext \/ op = CursorQ.HOwned \/
                    (exists s, op = CursorQ.HSet s) \/ (exists s, op = CursorQ.HIter s) \/
                    op = CursorQ.HPos) ops /\
  FqAllRecordsFit c09s_qinp 9 /\
  fst (run pol_refuse) = fst (run pol_std) /\
  map c03p_qshow (fst (run pol_refuse)) = [10; 1; 12; 11; 1; 21; 13] /\
  filter ev_is_grow (qlog (c_rd (snd (run pol_refuse)))) = [] /\ qcap (c_rd (snd (run pol_refuse))) = 9.
Proof.
  cbv zeta.
  split; [lia|]. split; [reflexivity|]. split; [reflexivity|].
  split; [cbn; lia|]. split; [vm_compute; lia|].
  split.
  { repeat (apply Forall_cons; [first [left; reflexivity | right; left; reflexivity
      | right; right; left; eexists; reflexivity | right; right; right; left; eexists; reflexivity
      | right; right; right; right; reflexivity]|]). apply Forall_nil. }
  split; [apply c09s_qfits; lia|].
  split; [vm_compute; reflexivity|]. split; [vm_compute; reflexivity|].
  split; vm_compute; reflexivity.
Qed.

Example C03p_fq_by_theorem :
  let ops := [CursorQ.HNext; CursorQ.HSet false; CursorQ.HPos; CursorQ.HOwned;
              CursorQ.HSet true; CursorQ.HIter false; CursorQ.HNext] in
  let run pol := fq_hrun c09s_qinp 100 100 ops (fq_hconf0 9 c09s_qinp [] [] pol) in
  fst (run (fun _ c => Some (c - 1))) = fst (run pol_std) /\
  ~ In (OErr FqBufferLimit) (fst (run pol_refuse)) /\
  filter ev_is_grow (qlog (c_rd (snd (run pol_refuse)))) = [] /\ qcap (c_rd (snd (run pol_refuse))) = 9.
Proof.
  cbv zeta.
  assert (Hops : Forall (fun op => op = CursorQ.HNext \/ op = CursorQ.HOwned \/
                    (exists s, op = CursorQ.HSet s) \/ (exists s, op = CursorQ.HIter s) \/
                    op = CursorQ.HPos)
                   [CursorQ.HNext; CursorQ.HSet false; CursorQ.HPos; CursorQ.HOwned;
                    CursorQ.HSet true; CursorQ.HIter false; CursorQ.HNext]).
  { repeat (apply Forall_cons; [first [left; reflexivity | right; left; reflexivity
      | right; right; left; eexists; reflexivity | right; right; right; left; eexists; reflexivity
      | right; right; right; right; reflexivity]|]). apply Forall_nil. }
  split.
  - apply C03_fq_fitting_input_policy_irrelevant;
      [lia | reflexivity | reflexivity | cbn; lia | vm_compute; lia | exact Hops | apply c09s_qfits; lia].
  - apply (C03_fq_fitting_input_never_refused c09s_qinp 9 [] [] pol_refuse 100 100);
      [lia | reflexivity | reflexivity | cbn; lia | vm_compute; lia | exact Hops | apply c09s_qfits; lia].
Qed.

(** the hypothesis matters: one record "@a\nCCCC\n+\nIIII\n" (15 bytes), capacity 4; and the input
    above at capacity 8 *)
Example C03p_fq_counterexample :
  let ops := [CursorQ.HNext; CursorQ.HNext] in
  let run pol := fq_hrun c03p_qone 100 100 ops (fq_hconf0 4 c03p_qone [] [] pol) in
  ~ FqAllRecordsFit c03p_qone 4 /\
  fst (run pol_refuse) = [OErr FqBufferLimit; OErr FqBufferLimit] /\
  map c03p_qshow (fst (run pol_std)) = [10; 13] /\
  (exists rc, nth_error (fst (run pol_std)) 0 = Some (ORec rc) /\
              fq_head rc = Some [97] /\ fq_seq rc = Some [67; 67; 67; 67] /\ fq_qual rc = Some [73; 73; 73; 73]) /\
  ~ FqAllRecordsFit c09s_qinp 8 /\
  map c03p_qshow (fst (fq_hrun c09s_qinp 100 100 [CursorQ.HNext; CursorQ.HSet false]
                         (fq_hconf0 8 c09s_qinp [] [] pol_refuse))) = [77; 77] /\
  map c03p_qshow (fst (fq_hrun c09s_qinp 100 100 [CursorQ.HNext; CursorQ.HSet false]
                         (fq_hconf0 8 c09s_qinp [] [] pol_std))) = [10; 1].
Proof.
  cbv zeta.
  split; [apply c03p_qone_not_fits; lia|].
  split; [vm_compute; reflexivity|]. split; [vm_compute; reflexivity|].
  split; [vm_compute; eexists; repeat split; reflexivity|].
  split; [apply c09s_qnot_fits; lia|].
  split; vm_compute; reflexivity.
Qed.

(** (5) with exact-count reads and a seek, capacity 40: no consultation under [pol_std], hence the
    same observations under the refusing policy *)
Example C03p_fq_unconsulted_nonvacuous :
  let ops := [CursorQ.HSetExact false 2; CursorQ.HSeek 1; CursorQ.HNext; CursorQ.HSetExact true 2; CursorQ.HNext] in
  let run pol := fq_hrun c09s_qinp 100 100 ops (fq_hconf0 40 c09s_qinp [] [] pol) in
  filter ev_is_grow (qlog (c_rd (snd (run pol_std)))) = [] /\
  fst (run pol_refuse) = fst (run pol_std) /\
  map (fun o => match o with OOk => 14 | x => c03p_qshow x end) (fst (run pol_refuse)) = [2; 14; 10; 2; 13].
Proof.
  cbv zeta.
  assert (Hg : filter ev_is_grow (qlog (c_rd (snd (fq_hrun c09s_qinp 100 100
                 [CursorQ.HSetExact false 2; CursorQ.HSeek 1; CursorQ.HNext; CursorQ.HSetExact true 2; CursorQ.HNext]
                 (fq_hconf0 40 c09s_qinp [] [] pol_std))))) = [])
    by (vm_compute; reflexivity).
  split; [exact Hg|]. split.
  - exact (proj1 (C03_fq_unconsulted_policy_irrelevant c09s_qinp 40 [] [] pol_std pol_refuse 100 100 _ Hg)).
  - vm_compute. reflexivity.
Qed.
