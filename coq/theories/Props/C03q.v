(** C03 — FASTQ part: results do not depend on capacity, policy or chunking.
    Statements only; proofs in Proofs/FastqTopP.v (from the refinement theorem). *)
From SeqIO Require Import Model.Base Model.Fastq Model.Views Spec.FastqSpec
     Proofs.Window Proofs.FastaInv Proofs.FastqNextP Proofs.FastqTopP Proofs.FastaTopP.

(** Two arbitrary configurations of the same input compared with each other, call by
    call: same header / sequence / quality, same position after the call, the same
    error with all its fields (and the position reported after it), end of input at
    the same call. *)
Theorem C03_fastq_config_independence : forall inp n
        cap1 rs1 ss1 pol1 fuel1 ffuel1 cap2 rs2 ss2 pol2 fuel2 ffuel2,
  1 <= cap1 -> forallb item_ok rs1 = true -> PolOk pol1 -> length rs1 + 2 <= ffuel1 -> length inp + 2 <= fuel1 ->
  1 <= cap2 -> forallb item_ok rs2 = true -> PolOk pol2 -> length rs2 + 2 <= ffuel2 -> length inp + 2 <= fuel2 ->
  Forall2 fq_same_outcome
          (fq_run fuel1 ffuel1 n (fq_new cap1 (mkSource inp 0 rs1 ss1) pol1))
          (fq_run fuel2 ffuel2 n (fq_new cap2 (mkSource inp 0 rs2 ss2) pol2)).
Proof. exact fq_config_independence. Qed.
Print Assumptions C03_fastq_config_independence.

(** non-vacuity: an input with a truncated last record, capacity 3 with interrupted
    one-byte reads against capacity 64 *)
Example C03_fastq_example :
  let inp := [64; 97; 10; 65; 67; 10; 43; 10; 73; 73; 10; 64; 98; 10; 71] in
  let view o := match fst o with
                | QORec rc => (fq_head rc, fq_seq rc, fq_qual rc, None, snd o)
                | QOErr e => (None, None, None, Some e, snd o)
                | _ => (None, None, None, None, (0, 0)) end in
  map view (fq_run 40 40 4 (fq_new 3 (mkSource inp 0 [RInterrupt; RDeliver 0; RInterrupt; RDeliver 0] []) pol_std))
  = map view (fq_run 40 40 4 (fq_new 64 (mkSource inp 0 [] []) (pol_double_until 4)))
  /\ PolOk pol_std /\ PolOk (pol_double_until 4).
Proof. split; [vm_compute; reflexivity|]. split; [exact PolOk_std | apply PolOk_double_until; lia]. Qed.
