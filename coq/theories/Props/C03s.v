(** C03 (histories with record-set reads) — what is delivered depends neither on the
    configuration (capacity, growth policy, read chunking / interrupted reads) nor on how
    the reading is divided into single reads, owned reads, plain and exact-count batches.
    Batch BOUNDARIES depend on the capacity by design; identical are the concatenated
    contents, and the point where the end of input is signalled (after all records).
    Both theorems compare two arbitrary configurations WITH EACH OTHER (no reference run
    in the statement); they are corollaries of the exactly-once theorems of C04.
    Statements only; proofs in Proofs/C03SetsP.v. *)
From SeqIO Require Import Model.Base Model.Fasta Model.Fastq Model.Views Spec.FastaSpec Spec.FastqSpec Spec.CursorQ
     Proofs.Window Proofs.FastaInv Proofs.FastaNextP Proofs.FastaTopP Proofs.FastaSetP Proofs.FastaSeekP
     Proofs.FastaHistP Proofs.FastqInv Proofs.FastqNextP Proofs.CursorP Proofs.FastqHistP Proofs.FastqHistEx
     Proofs.C03SetsP.

(** FASTQ: two seek-free histories (possibly DIFFERENT ones) on two configurations of the
    same input.  The lists of delivered contents (single, owned and set reads together, in
    order) are prefixes of one another — so record k has the same content in both runs,
    whatever the batches were — and when both runs have reported the end of an input
    without invalid record, they are equal. *)
Theorem C03_fastq_sets_config_independence : forall inp
    cap1 rs1 ss1 pol1 fuel1 ffuel1 ops1 cap2 rs2 ss2 pol2 fuel2 ffuel2 ops2,
  std_cfg inp cap1 rs1 ss1 pol1 fuel1 ffuel1 -> hist_ok inp ops1 -> Forall no_seek ops1 ->
  std_cfg inp cap2 rs2 ss2 pol2 fuel2 ffuel2 -> hist_ok inp ops2 -> Forall no_seek ops2 ->
  let obs1 := fst (fq_hrun inp fuel1 ffuel1 ops1 (fq_hconf0 cap1 inp rs1 ss1 pol1)) in
  let obs2 := fst (fq_hrun inp fuel2 ffuel2 ops2 (fq_hconf0 cap2 inp rs2 ss2 pol2)) in
  let d1 := concat (map delivered_c obs1) in
  let d2 := concat (map delivered_c obs2) in
  (exists t, d1 = d2 ++ t \/ d2 = d1 ++ t) /\
  (In OEnd obs1 -> In OEnd obs2 -> (forall it, In it (fq_spec_all inp) -> fq_is_rec it = true) -> d1 = d2).
Proof. exact fq_sets_config_independence. Qed.
Print Assumptions C03_fastq_sets_config_independence.

(** FASTA: two seek-free histories, each ending with a read that reports the end of input,
    on two configurations of the same input (without invalid first line): the same list of
    records has been delivered (contents as owned copies: header, concatenated lines). *)
Theorem C03_fasta_sets_config_independence : forall inp
    cap1 rs1 sks1 pol1 fuel1 ffuel1 tgt1 pre1 op1 p1 cap2 rs2 sks2 pol2 fuel2 ffuel2 tgt2 pre2 op2 p2,
  fa_spec inp = map SRec (fa_records inp) ->
  3 <= cap1 -> forallb item_ok rs1 = true -> forallb sitem_ok sks1 = true -> PolOk pol1 ->
  length rs1 + 2 <= ffuel1 -> length inp + 2 <= fuel1 ->
  Forall FastaHistP.hop_ok (pre1 ++ [op1]) -> Forall (fun o => FastaHistP.is_seek o = false) (pre1 ++ [op1]) ->
  FastaHistP.is_read op1 = true ->
  3 <= cap2 -> forallb item_ok rs2 = true -> forallb sitem_ok sks2 = true -> PolOk pol2 ->
  length rs2 + 2 <= ffuel2 -> length inp + 2 <= fuel2 ->
  Forall FastaHistP.hop_ok (pre2 ++ [op2]) -> Forall (fun o => FastaHistP.is_seek o = false) (pre2 ++ [op2]) ->
  FastaHistP.is_read op2 = true ->
  let obs1 := fst (fa_hist fuel1 ffuel1 tgt1 (pre1 ++ [op1]) (FastaHistP.h_init inp cap1 rs1 sks1 pol1)) in
  let obs2 := fst (fa_hist fuel2 ffuel2 tgt2 (pre2 ++ [op2]) (FastaHistP.h_init inp cap2 rs2 sks2 pol2)) in
  nth_error obs1 (length pre1) = Some (FastaHistP.HoEnd, p1) -> nth_error obs2 (length pre2) = Some (FastaHistP.HoEnd, p2) ->
  FastaHistP.delivered (pre1 ++ [op1]) obs1 = FastaHistP.delivered (pre2 ++ [op2]) obs2.
Proof. exact fa_sets_config_independence. Qed.
Print Assumptions C03_fasta_sets_config_independence.

(** non-vacuity (FASTQ): capacity 4, one or two bytes per read with an interrupt, batches
    and single reads mixed — against capacity 64, whole reads, one exact-count batch of 4:
    both reach the end and deliver the three records *)
Example C03_fastq_sets_example :
  let ops1 := [CursorQ.HNext; CursorQ.HSet false; CursorQ.HOwned; CursorQ.HSetExact true 4; CursorQ.HNext] in
  let ops2 := [CursorQ.HSetExact false 4; CursorQ.HSet true] in
  std_cfg c04_inp 4 c04_rs [SOk] pol_std (2 * length c04_inp + 4) 50 /\ hist_ok c04_inp ops1 /\ Forall no_seek ops1 /\
  std_cfg c04_inp 64 c04_rs [] pol_std (2 * length c04_inp + 4) 50 /\ hist_ok c04_inp ops2 /\ Forall no_seek ops2 /\
  In OEnd (fst (fq_hrun c04_inp (2 * length c04_inp + 4) 50 ops1 (fq_hconf0 4 c04_inp c04_rs [SOk] pol_std))) /\
  In OEnd (fst (fq_hrun c04_inp (2 * length c04_inp + 4) 50 ops2 (fq_hconf0 64 c04_inp c04_rs [] pol_std))) /\
  length (concat (map delivered_c (fst (fq_hrun c04_inp (2 * length c04_inp + 4) 50 ops2 (fq_hconf0 64 c04_inp c04_rs [] pol_std))))) = 3.
Proof.
  cbv zeta. split; [apply c04_cfg; [lia | reflexivity]|]. split; [repeat constructor|]. split; [repeat constructor|].
  split; [apply c04_cfg; [lia | reflexivity]|]. split; [repeat constructor|]. split; [repeat constructor|].
  split; [vm_compute; tauto|]. split; [vm_compute; tauto|]. vm_compute. reflexivity.
Qed.

(** non-vacuity (FASTA): capacity 3 with mixed reads against capacity 64 with one batch *)
Example C03_fasta_sets_example :
  let inp := [62; 97; 10; 65; 67; 10; 62; 98; 10; 71; 10; 62; 99; 10; 84; 84; 10; 65; 10] in
  let ops1 := [FastaHistP.HSetExact 0 1; FastaHistP.HOwned; FastaHistP.HSet 1; FastaHistP.HNext] in
  let ops2 := [FastaHistP.HSet 0; FastaHistP.HSet 0] in
  fa_spec inp = map SRec (fa_records inp) /\
  nth_error (fst (fa_hist 21 2 (fun _ => None) ops1 (FastaHistP.h_init inp 3 [] [] pol_std))) 3 = Some (FastaHistP.HoEnd, None) /\
  nth_error (fst (fa_hist 21 9 (fun _ => None) ops2
              (FastaHistP.h_init inp 64 [RDeliver 0; RInterrupt; RDeliver 0; RDeliver 0; RDeliver 0; RDeliver 0; RDeliver 0] [] pol_std))) 1
    = Some (FastaHistP.HoEnd, None) /\
  FastaHistP.delivered ops2 (fst (fa_hist 21 9 (fun _ => None) ops2
              (FastaHistP.h_init inp 64 [RDeliver 0; RInterrupt; RDeliver 0; RDeliver 0; RDeliver 0; RDeliver 0; RDeliver 0] [] pol_std)))
    = [Some ([97], [65; 67]); Some ([98], [71]); Some ([99], [84; 84; 65])].
Proof. cbv zeta. split; [vm_compute; reflexivity|]. split; [vm_compute; reflexivity|]. split; vm_compute; reflexivity. Qed.
