(** C04 — All ways of reading one reader deliver the same records exactly once.
    FASTA part.  Statements only; proofs in Proofs/FastaHistP.v (built on
    Proofs/FastaSetP.v: the loop of read_record_set_exact, and Proofs/FastaSeekP.v).

    A history is any finite list of operations [hop]: single reads, owned
    reads, record-set reads (plain and exact-count, n >= 1) into either of two
    set slots, re-iteration of a set, position queries and seeks to the
    positions of records.  [fa_hist] runs it on the model and yields one
    observation per operation (with [position()] after it).  [hrun_ok] relates
    the observations to a run of the abstract cursor machine Spec/Cursor.v
    over the specification stream of the input. *)
From SeqIO Require Import Model.Base Model.Fasta Model.Views Spec.FastaSpec Spec.Cursor
     Proofs.Window Proofs.FastaInv Proofs.FastaStream Proofs.FastaNextP Proofs.FastaTopP
     Proofs.FastaSetP Proofs.FastaSeekP Proofs.FastaHistP.

(** For EVERY input, every capacity >= 3, every fault-free read script (any
    chunking, interrupts), every seek script without failures, every policy
    that always permits a larger size and EVERY history [ops] (exact counts
    >= 1): the observations of the history are, one by one, observations the
    cursor machine allows over an item stream that is item-wise [fa_spec inp]
    ([item_rel]: same header, same lines, same line number and byte offset).
    [hstep_ok] says per operation: a single read returns the next item's record
    (related by [RecAt]: a view of a window of the input at the item's
    offsets) and [position()] then is that record's (line, byte); an owned
    read returns the owned copy of that item; a set read fills the slot with a
    non-empty run of the records ahead — exactly min n (records ahead) for an
    exact-count read — and a position reported after it denotes the next unread
    record; re-iterating a slot shows what was last read into it; only a read
    with nothing left reports the end; the invalid first line is reported by
    whatever read comes first; a seek moves the cursor to its target. *)
Theorem C04_history_refines_cursor : forall inp cap0 rs sks pol fuel ffuel ops,
  3 <= cap0 -> forallb item_ok rs = true -> forallb sitem_ok sks = true -> PolOk pol ->
  length rs + 2 <= ffuel -> length inp + 2 <= fuel -> Forall hop_ok ops ->
  exists items c' g',
    FaOSpec inp items /\ Forall2 (item_rel inp) items (fa_spec inp) /\
    hrun_ok inp (map to_citem items) (CAt 0) ([], []) ops
            (fst (fa_hist fuel ffuel (tgt_spec inp) ops (h_init inp cap0 rs sks pol))) c' g'.
Proof. exact fa_hist_refines_spec. Qed.
Print Assumptions C04_history_refines_cursor.

(** the same against the offset-based stream [FaOSpec] (which is unique) *)
Theorem C04_history_refines_ospec : forall inp cap0 rs sks pol fuel ffuel items ops,
  3 <= cap0 -> forallb item_ok rs = true -> forallb sitem_ok sks = true -> PolOk pol ->
  length rs + 2 <= ffuel -> length inp + 2 <= fuel ->
  FaOSpec inp items -> Forall hop_ok ops ->
  exists c' g',
    hrun_ok inp (map to_citem items) (CAt 0) ([], []) ops
            (fst (fa_hist fuel ffuel (tgt_of items) ops (h_init inp cap0 rs sks pol))) c' g'.
Proof. exact fa_hist_refines_cursor. Qed.
Print Assumptions C04_history_refines_ospec.

(** what the relation pins down for a single read ... *)
Theorem C04_next_pinned : forall inp (items : list (citem (nat * nat * list nat) (nat * byte))) c g rc pos c' g',
  hstep_ok inp items c g HNext (HoRec rc, pos) c' g' ->
  exists k it, c = CAt k /\ nth_error items k = Some (CRec it) /\ c' = CAt (S k) /\
               rec_ok inp rc it /\ pos = Some (i_line it, i_s it).
Proof. exact hstep_next_pinned. Qed.
Print Assumptions C04_next_pinned.

(** ... and for a set read: a non-empty run of the records ahead, starting at
    the cursor; the slot shows exactly this batch (stale entries of an older,
    longer batch are not shown); the cursor moves past the batch *)
Theorem C04_set_pinned : forall inp (items : list (citem (nat * nat * list nat) (nat * byte))) c g op slot rcs pos c' g',
  (op = HSet slot \/ exists n, op = HSetExact slot n) ->
  hstep_ok inp items c g op (HoSet rcs, pos) c' g' ->
  exists k, c = CAt k /\ c' = CAt (k + length rcs) /\ 1 <= length rcs /\
    length rcs <= length (recs_ahead items k) /\
    Forall2 (rec_ok inp) rcs (firstn (length rcs) (recs_ahead items k)) /\
    gget g' slot = firstn (length rcs) (recs_ahead items k) /\
    (forall p, pos = Some p ->
       exists it, nth_error items (k + length rcs) = Some (CRec it) /\ p = (i_line it, i_s it)).
Proof. exact hstep_set_pinned. Qed.
Print Assumptions C04_set_pinned.

(** Exactly once: a history without seeks over an input without invalid first
    line, whose last operation is a read reporting the end of input, has
    delivered — through all its single, owned, set and exact-count reads
    together, in whatever interleaving and with whatever batch boundaries —
    exactly the records of [fa_records inp], each once, in order (contents as
    owned copies: header and concatenated sequence lines). *)
Theorem C04_exactly_once : forall inp cap0 rs sks pol fuel ffuel tgt pre op p,
  3 <= cap0 -> forallb item_ok rs = true -> forallb sitem_ok sks = true -> PolOk pol ->
  length rs + 2 <= ffuel -> length inp + 2 <= fuel ->
  fa_spec inp = map SRec (fa_records inp) ->
  Forall hop_ok (pre ++ [op]) -> Forall (fun o => is_seek o = false) (pre ++ [op]) -> is_read op = true ->
  let obs := fst (fa_hist fuel ffuel tgt (pre ++ [op]) (h_init inp cap0 rs sks pol)) in
  nth_error obs (length pre) = Some (HoEnd, p) ->
  delivered (pre ++ [op]) obs = map item_owned (fa_records inp).
Proof. exact fa_hist_exactly_once_spec. Qed.
Print Assumptions C04_exactly_once.

(** every successful record-set read yields at least one record *)
Theorem C04_set_nonempty : forall inp cap0 rs sks pol fuel ffuel items ops,
  3 <= cap0 -> forallb item_ok rs = true -> forallb sitem_ok sks = true -> PolOk pol ->
  length rs + 2 <= ffuel -> length inp + 2 <= fuel ->
  FaOSpec inp items -> Forall hop_ok ops ->
  Forall2 set_nonempty_at ops (fst (fa_hist fuel ffuel (tgt_of items) ops (h_init inp cap0 rs sks pol))).
Proof. exact fa_set_nonempty. Qed.
Print Assumptions C04_set_nonempty.

(** an exact-count read after ANY history [pre]: with the cursor machine in
    state [c] after [pre], it yields exactly min n (records ahead of c)
    records (at least one), and it reports the end of input if and only if
    nothing is left *)
Theorem C04_exact_count : forall inp cap0 rs sks pol fuel ffuel items pre slot n,
  3 <= cap0 -> forallb item_ok rs = true -> forallb sitem_ok sks = true -> PolOk pol ->
  length rs + 2 <= ffuel -> length inp + 2 <= fuel ->
  FaOSpec inp items -> Forall hop_ok pre -> 1 <= n ->
  let obs := fst (fa_hist fuel ffuel (tgt_of items) (pre ++ [HSetExact slot n]) (h_init inp cap0 rs sks pol)) in
  exists c g c' g' o,
    hrun_ok inp (map to_citem items) (CAt 0) ([], []) pre (firstn (length pre) obs) c g /\
    skipn (length pre) obs = [o] /\
    hstep_ok inp (map to_citem items) c g (HSetExact slot n) o c' g' /\
    match fst o with
    | HoSet rcs => exists k, c = CAt k /\
                             length rcs = Nat.min n (length (recs_ahead (map to_citem items) k)) /\
                             1 <= length rcs /\ c' = CAt (k + length rcs)
    | HoEnd => nothing_left (map to_citem items) c
    | HoErr _ => exists k e, c = CAt k /\ length (recs_ahead (map to_citem items) k) < n /\
                             err_ahead (map to_citem items) k = Some e
    | _ => False
    end /\
    (nothing_left (map to_citem items) c -> fst o = HoEnd).
Proof. exact fa_exact_count. Qed.
Print Assumptions C04_exact_count.

(** a filled set is not changed by later operations on the reader or on the other slot *)
Theorem C04_set_unchanged : forall fuel ffuel tgt j ops h,
  Forall (fun op => writes_slot op j = false) ops ->
  h_get (snd (fa_hist fuel ffuel tgt ops h)) j = h_get h j /\
  fa_set_records (h_get (snd (fa_hist fuel ffuel tgt ops h)) j) = fa_set_records (h_get h j).
Proof. exact fa_set_unchanged. Qed.
Print Assumptions C04_set_unchanged.

(* ------------------------------------------------------------------ *)
(** non-vacuity *)

(** the policy hypothesis is met by the library's default policy *)
Example C04_pol_ok : PolOk pol_std.
Proof. exact PolOk_std. Qed.

(** three records (">a\nAC\n>b\nG\n>c\nTT\nA\n"), capacity 5, one byte per read
    with an interrupt; a history mixing every kind of operation.  What each
    operation shows ([hist_show]): (contents as (head, lines), kind, position after) *)
Example C04_example :
  let C04_inp := [62; 97; 10; 65; 67; 10; 62; 98; 10; 71; 10; 62; 99; 10; 84; 84; 10; 65; 10] in
  let ops := [HSet 0; HPos; HNext; HSeek 0; HSetExact 1 2; HIter 0; HOwned; HSet 0; HNext] in
  fa_spec C04_inp = [SRec (mkFaItem [97] [[65; 67]] 1 0); SRec (mkFaItem [98] [[71]] 3 6);
                     SRec (mkFaItem [99] [[84; 84]; [65]] 5 11)] /\
  Forall hop_ok ops /\
  map hist_show (fst (fa_hist 21 9 (tgt_spec C04_inp) ops
                      (h_init C04_inp 5 [RDeliver 0; RInterrupt; RDeliver 0; RDeliver 0; RDeliver 0; RDeliver 0; RDeliver 0] [] pol_std)))
  = [ ([(Some [97], Some [[65; 67]])], 4, Some (3, 6));                            (* S0: batch of one (capacity 5); next unread: b *)
      ([], 5, Some (3, 6));                                                        (* P *)
      ([(Some [98], Some [[71]])], 2, Some (3, 6));                                (* N: record b at line 3, byte 6 *)
      ([], 1, None);                                                               (* seek to record 0 *)
      ([(Some [97], Some [[65; 67]]); (Some [98], Some [[71]])], 4, None);         (* E1.2: exactly two *)
      ([(Some [97], Some [[65; 67]])], 4, None);                                   (* I0: slot 0 unchanged *)
      ([(Some [99], Some [[84; 84; 65]])], 3, Some (5, 11));                       (* O: record c, owned *)
      ([], 0, Some (5, 11));                                                       (* S0: end of input *)
      ([], 0, Some (5, 11)) ].                                                     (* N: end of input *)
Proof. split; [vm_compute; reflexivity|]. split; [repeat constructor|]. vm_compute. reflexivity. Qed.

(** exactly once, on the same input: sets, singles and owned reads mixed, capacity 3 *)
Example C04_exactly_once_example :
  let C04_inp := [62; 97; 10; 65; 67; 10; 62; 98; 10; 71; 10; 62; 99; 10; 84; 84; 10; 65; 10] in
  let ops := [HSetExact 0 1; HOwned; HSet 1; HNext] in
  fa_spec C04_inp = map SRec (fa_records C04_inp) /\
  Forall (fun o => is_seek o = false) ops /\
  let obs := fst (fa_hist 21 2 (fun _ => None) ops (h_init C04_inp 3 [] [] pol_std)) in
  nth_error obs 3 = Some (HoEnd, None) /\
  delivered ops obs = [Some ([97], [65; 67]); Some ([98], [71]); Some ([99], [84; 84; 65])] /\
  map item_owned (fa_records C04_inp) = [Some ([97], [65; 67]); Some ([98], [71]); Some ([99], [84; 84; 65])].
Proof. split; [vm_compute; reflexivity|]. split; [repeat constructor|]. vm_compute. auto. Qed.

(** a refilled set shows only the new batch (stale offsets of the older, longer
    batch stay hidden), the other slot is unaffected; capacity 64 *)
Example C04_only_new_batch_example :
  let C04_inp := [62; 97; 10; 65; 67; 10; 62; 98; 10; 71; 10; 62; 99; 10; 84; 84; 10; 65; 10] in
  let heads o := match fst o with HoSet rcs => map fa_head rcs | _ => [] end in
  map heads (fst (fa_hist 21 2 (tgt_spec C04_inp)
                   [HSet 0; HIter 0; HSeek 2; HSet 0; HIter 0; HSeek 1; HSetExact 1 5; HIter 0; HIter 1]
                   (h_init C04_inp 64 [] [] pol_std)))
  = [ [Some [97]; Some [98]; Some [99]]; [Some [97]; Some [98]; Some [99]];   (* S0 takes all three; I0 *)
      []; [Some [99]]; [Some [99]];                                            (* seek to c; S0 takes one; I0 shows one *)
      []; [Some [98]; Some [99]];                                              (* seek to b; E1.5 yields min 5 2 = 2 *)
      [Some [99]]; [Some [98]; Some [99]] ].                                   (* I0 unchanged; I1 *)
Proof. vm_compute. reflexivity. Qed.

(** an invalid first line: reported by whatever read comes first (here an
    exact-count set read), then end of input for ever; no record to seek to *)
Example C04_invalid_start_example :
  let inp := [10; 65; 10; 62; 97; 10] in                                      (* \nA\n>a\n *)
  fa_spec inp = [SInvalidStart 2 65] /\
  map fst (fst (fa_hist 21 2 (tgt_spec inp) [HPos; HSeek 0; HSetExact 0 2; HNext; HSet 1; HIter 0]
                 (h_init inp 3 [] [] pol_std)))
  = [HoPos; HoNoTarget; HoErr (FaInvalidStart 2 65); HoEnd; HoEnd; HoSet []].
Proof. split; vm_compute; reflexivity. Qed.

(** all hypotheses of the main theorem hold for a concrete configuration
    (capacity 3, one byte per read, default policy), so its conclusion — and
    with it the premises of [C04_next_pinned] / [C04_set_pinned] for the steps
    of this history — is inhabited *)
Example C04_hypotheses_satisfiable :
  let inp := [62; 97; 10; 65; 67; 10; 62; 98; 10; 71; 10] in
  let ops := [HSet 0; HNext; HSeek 0; HSetExact 1 2; HOwned] in
  exists items c' g',
    FaOSpec inp items /\ Forall2 (item_rel inp) items (fa_spec inp) /\
    hrun_ok inp (map to_citem items) (CAt 0) ([], []) ops
            (fst (fa_hist 13 13 (tgt_spec inp) ops (h_init inp 3 (repeat (RDeliver 0) 11) [SOk] pol_std))) c' g'.
Proof.
  apply C04_history_refines_cursor;
    [lia | reflexivity | reflexivity | exact PolOk_std | cbn; lia | cbn; lia | repeat constructor].
Qed.
