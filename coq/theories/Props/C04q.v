(** C04 (FASTQ) — all ways of reading one reader deliver the same records exactly once.

    A history is a list of operations [hop] (Spec/CursorQ.v) on ONE reader and two
    record-set slots: [HNext] (Reader::next), [HOwned] (records()/into_records():
    next + to_owned_record), [HSet slot] (read_record_set), [HSetExact slot n]
    (read_record_set_exact, n >= 1), [HIter slot] (iteration over the slot's set),
    [HPos] (position()), [HSeek k] (seek to the position of item k of the stream).

    [fq_hrun inp fuel ffuel ops c]   runs a history on the model (Model/Fastq.v) and
                                     returns what the caller observes ([hobs]) and the
                                     final configuration (reader, slot false, slot true);
    [fq_hconf0 cap0 inp rs ss pol]   a fresh reader on the source [inp] with read script
                                     [rs], seek script [ss], and two empty record sets;
    [std_cfg]                        capacity >= 1, scripts without failures, a policy
                                     that grants more at capacities >= 1, enough fuel
                                     (ffuel >= |rs| + 2, fuel >= 2|inp| + 4);
    [hist_ok inp ops]                exact counts are >= 1, seeks go to items of the stream;
    [hrun ... h_init ops os h']      a run of the abstract cursor machine (Spec/CursorQ.v)
                                     over the specification stream [fq_spec_all inp];
    [obs_match inp o a]              observation [o] is the abstract output [a]: a record
                                     view shows the item's header/sequence/quality and is
                                     a well-formed view of a window of the input starting
                                     at the item's byte offset; an owned record has the
                                     item's three fields; a set / an iteration shows the
                                     batch item by item; an error equals the error item's
                                     error field by field; a reported position is the
                                     coordinates of the item the machine designates.
    Batch boundaries are not fixed by the machine (they depend on the capacity by design);
    every concrete batch is one of the allowed runs.
    Statements only; proofs are in Proofs/FastqSetP.v, FastqSeekP.v, CursorP.v, FastqHistP.v. *)
From SeqIO Require Import Model.Base Model.Fastq Model.Views Spec.FastaSpec Spec.FastqSpec Spec.CursorQ
  Proofs.Window Proofs.FastaInv Proofs.FastqInv Proofs.FastqNextP Proofs.FastqSetP Proofs.FastqSeekP
  Proofs.CursorP Proofs.CursorBridgeP Proofs.FastqHistP Proofs.FastqHistEx.

Theorem C04q_history_refines_cursor : forall inp cap0 rs ss pol fuel ffuel ops,
  1 <= cap0 -> forallb item_ok rs = true -> forallb sitem_ok ss = true -> PolOk1 pol ->
  length rs + 2 <= ffuel -> 2 * length inp + 4 <= fuel -> hist_ok inp ops ->
  exists os h', hrun fq_sitem fq_is_rec (fq_spec_all inp) h_init ops os h' /\
    Forall2 (obs_match inp) (fst (fq_hrun inp fuel ffuel ops (fq_hconf0 cap0 inp rs ss pol))) os.
Proof. exact fq_hist_refines_cursor. Qed.
Print Assumptions C04q_history_refines_cursor.

(** the examples use [c04_inp] = "@a\nAC\n+\nII\n@b\nG\n+\nI\n@c\nTT\n+\nJJ\n", [c04_bad] = the same
    with an invalid third record, the read script [c04_rs] and the projection [c04_show]
    (tag, contents, position) of Proofs/FastqHistEx.v; tags: 1 record, 2 owned, 3 set,
    4 iteration, 5 error, 6 end, 7 position, 8 seek ok *)

(** non-vacuity: capacity 3 (every record needs growth), a history that mixes all
    operations; the records a, b, c are delivered once each, the slots keep their batches,
    the seek to item 0 replays the stream *)
Example C04q_history_refines_cursor_nonvacuous :
  let ops := [HSet false; HPos; HNext; HPos; HSetExact true 2; HIter false; HIter true; HNext;
              HSeek 0; HOwned; HSetExact false 5; HIter false; HSet true; HIter true] in
  1 <= 3 /\ forallb item_ok c04_rs = true /\ forallb sitem_ok [SOk] = true /\ PolOk1 pol_std /\
  length c04_rs + 2 <= 50 /\ 2 * length c04_inp + 4 <= 66 /\ hist_ok c04_inp ops /\
  map c04_show (fst (fq_hrun c04_inp 66 50 ops (fq_hconf0 3 c04_inp c04_rs [SOk] pol_std))) =
  [(3, [Some ([97], [65;67], [73;73])], (0,0)); (7, [], (5, 11));
   (1, [Some ([98], [71], [73])], (0,0)); (7, [], (5, 11));
   (3, [Some ([99], [84;84], [74;74])], (0,0));
   (4, [Some ([97], [65;67], [73;73])], (0,0)); (4, [Some ([99], [84;84], [74;74])], (0,0));
   (6, [], (0,0)); (8, [], (0,0));
   (2, [Some ([97], [65;67], [73;73])], (0,0));
   (3, [Some ([98], [71], [73]); Some ([99], [84;84], [74;74])], (0,0));
   (4, [Some ([98], [71], [73]); Some ([99], [84;84], [74;74])], (0,0));
   (6, [], (0,0)); (4, [Some ([99], [84;84], [74;74])], (0,0))].
Proof.
  cbv zeta. split; [lia|]. split; [reflexivity|]. split; [reflexivity|]. split; [exact PolOk1_std|].
  split; [cbn [c04_rs length]; lia|]. split; [cbn [c04_inp length]; lia|].
  split; [repeat constructor; vm_compute; lia|].
  vm_compute. reflexivity.
Qed.

(** the same against the cursor machine of Spec/Cursor.v that the FASTA histories refine:
    the reading operations and seeks of the abstract run, in order ([t_hist] drops
    iterations and position queries, which do not move the cursor), form a run [crun] of
    that machine over the FASTQ stream, items [CRec record | CErr (error, line, byte)] *)
Theorem C04q_history_refines_shared_cursor : forall inp cap0 rs ss pol fuel ffuel ops,
  std_cfg inp cap0 rs ss pol fuel ffuel -> hist_ok inp ops ->
  exists os h',
    hrun fq_sitem fq_is_rec (fq_spec_all inp) h_init ops os h' /\
    Forall2 (obs_match inp) (fst (fq_hrun inp fuel ffuel ops (fq_hconf0 cap0 inp rs ss pol))) os /\
    SeqIO.Spec.Cursor.crun (map fq_cl (fq_spec_all inp)) (SeqIO.Spec.Cursor.CAt 0)
                           (t_hist fq_sitem fq_item (fq_serr * nat * nat) fq_cl ops os)
                           (t_cur (h_cur h')).
Proof. exact fq_hist_refines_cursor_shared. Qed.
Print Assumptions C04q_history_refines_shared_cursor.

Example C04q_history_refines_shared_cursor_nonvacuous :
  let ops := [HSet false; HNext; HSeek 0; HSetExact true 2; HIter true; HPos] in
  std_cfg c04_inp 7 c04_rs [SOk] pol_std (2 * length c04_inp + 4) 50 /\ hist_ok c04_inp ops /\
  map fq_cl (fq_spec_all c04_bad) =
  [SeqIO.Spec.Cursor.CRec (mkFqItem [97] [65;67] [73;73] 1 0);
   SeqIO.Spec.Cursor.CRec (mkFqItem [98] [71] [73] 5 11);
   SeqIO.Spec.Cursor.CErr (EUnequal 2 1 9 (Some [99]), 9, 20)].
Proof.
  cbv zeta. split; [apply c04_cfg; [lia | reflexivity]|]. split; [repeat constructor; vm_compute; lia|].
  vm_compute. reflexivity.
Qed.

(** exactly once, in order: without seeks, the contents of everything delivered (single,
    owned and set reads together) are the contents of the first [m] items of the stream,
    all records (so nothing behind an invalid group is ever delivered); after the end has
    been reported on a stream without invalid group, everything has been delivered *)
Theorem C04q_exactly_once : forall inp cap0 rs ss pol fuel ffuel ops,
  std_cfg inp cap0 rs ss pol fuel ffuel -> hist_ok inp ops -> Forall no_seek ops ->
  let obs := fst (fq_hrun inp fuel ffuel ops (fq_hconf0 cap0 inp rs ss pol)) in
  exists m,
    concat (map delivered_c obs) = map own_of (firstn m (fq_spec_all inp)) /\
    Forall (fun it => fq_is_rec it = true) (firstn m (fq_spec_all inp)) /\
    (In OEnd obs -> (forall it, In it (fq_spec_all inp) -> fq_is_rec it = true) ->
     concat (map delivered_c obs) = map own_of (fq_spec_all inp)).
Proof. exact fq_hist_exactly_once. Qed.
Print Assumptions C04q_exactly_once.

Example C04q_exactly_once_nonvacuous :
  let ops := [HNext; HSet false; HOwned; HSetExact true 4; HNext] in
  std_cfg c04_inp 4 c04_rs [SOk] pol_std (2 * length c04_inp + 4) 50 /\ hist_ok c04_inp ops /\
  Forall no_seek ops /\
  In OEnd (fst (fq_hrun c04_inp (2 * length c04_inp + 4) 50 ops (fq_hconf0 4 c04_inp c04_rs [SOk] pol_std))) /\
  (forall it, In it (fq_spec_all c04_inp) -> fq_is_rec it = true) /\
  length (fq_spec_all c04_inp) = 3.
Proof.
  cbv zeta. split; [apply c04_cfg; [lia | reflexivity]|]. split; [repeat constructor|].
  split; [repeat constructor|]. split; [vm_compute; tauto|].
  split; [|vm_compute; reflexivity].
  intros it Hin. vm_compute in Hin. repeat (destruct Hin as [<-|Hin]; [reflexivity|]). contradiction.
Qed.

(** with an invalid record ahead: only records before it are delivered, then its error *)
Example C04q_error_ahead_nonvacuous :
  let ops := [HSet false; HSetExact true 3; HIter true; HNext] in
  std_cfg c04_bad 12 c04_rs [SOk] pol_std (2 * length c04_bad + 4) 50 /\ hist_ok c04_bad ops /\
  Forall no_seek ops /\
  map c04_show (fst (fq_hrun c04_bad (2 * length c04_bad + 4) 50 ops (fq_hconf0 12 c04_bad c04_rs [SOk] pol_std))) =
  [(3, [Some ([97], [65;67], [73;73])], (0,0)); (5, [], (0,0)); (4, [], (0,0)); (6, [], (0,0))].
Proof.
  cbv zeta. split; [apply c04_cfg; [lia | reflexivity]|]. split; [repeat constructor|].
  split; [repeat constructor|]. vm_compute. reflexivity.
Qed.

(** every successful record-set read yields at least one record *)
Theorem C04q_set_nonempty : forall inp cap0 rs ss pol fuel ffuel ops,
  std_cfg inp cap0 rs ss pol fuel ffuel -> hist_ok inp ops ->
  Forall (fun o => match o with OSetOk recs => recs <> [] | _ => True end)
         (fst (fq_hrun inp fuel ffuel ops (fq_hconf0 cap0 inp rs ss pol))).
Proof. exact fq_set_nonempty. Qed.
Print Assumptions C04q_set_nonempty.

Example C04q_set_nonempty_nonvacuous :
  let ops := [HSet false; HSet true; HSeek 2; HSetExact false 1] in
  std_cfg c04_inp 3 c04_rs [SOk] pol_std (2 * length c04_inp + 4) 50 /\ hist_ok c04_inp ops /\
  map (fun o => match o with OSetOk recs => length recs | _ => 0 end)
      (fst (fq_hrun c04_inp (2 * length c04_inp + 4) 50 ops (fq_hconf0 3 c04_inp c04_rs [SOk] pol_std))) =
  [1; 1; 0; 1].
Proof.
  cbv zeta. split; [apply c04_cfg; [lia | reflexivity]|]. split; [repeat constructor; vm_compute; lia|].
  vm_compute. reflexivity.
Qed.

(** an exact-count read yields exactly [min n (records ahead)] records — the requested
    number unless fewer remain, in which case all of those —, reports the end iff nothing
    is left, and fails only when the invalid group comes before the n-th record.  [k] is
    the cursor the preceding history has reached in the abstract machine *)
Theorem C04q_exact_count : forall inp cap0 rs ss pol fuel ffuel ops s n,
  std_cfg inp cap0 rs ss pol fuel ffuel -> hist_ok inp (ops ++ [HSetExact s n]) ->
  exists os h,
    hrun fq_sitem fq_is_rec (fq_spec_all inp) h_init ops os h /\
    Forall2 (obs_match inp) (fst (fq_hrun inp fuel ffuel ops (fq_hconf0 cap0 inp rs ss pol))) os /\
    let o := snd (fq_hstep inp fuel ffuel (HSetExact s n)
                           (snd (fq_hrun inp fuel ffuel ops (fq_hconf0 cap0 inp rs ss pol)))) in
    match h_cur h with
    | At k =>
        let r := recs_ahead fq_sitem fq_is_rec (fq_spec_all inp) k in
        (o = OEnd <-> length (fq_spec_all inp) <= k) /\
        (forall recs, o = OSetOk recs ->
           length recs = Nat.min n r /\
           Forall2 (item_rec_at inp) recs (batch fq_sitem (fq_spec_all inp) k (Nat.min n r)) /\
           (r < n -> length (fq_spec_all inp) <= k + r)) /\
        (forall e, o = OErr e -> r < n /\
           exists e0 l a, nth_error (fq_spec_all inp) (k + r) = Some (QErr e0 l a) /\ e = fq_err_of e0) /\
        ((exists recs, o = OSetOk recs) \/ (exists e, o = OErr e) \/ o = OEnd)
    | Done => o = OEnd
    end.
Proof. exact fq_exact_count. Qed.
Print Assumptions C04q_exact_count.

(** non-vacuity: after one single read, an exact read of 5 yields the 2 records that
    remain (the F3 scenario), and the next exact read reports the end *)
Example C04q_exact_count_nonvacuous :
  let ops := [HNext] in
  std_cfg c04_inp 5 c04_rs [SOk] pol_std (2 * length c04_inp + 4) 50 /\
  hist_ok c04_inp (ops ++ [HSetExact false 5]) /\
  map c04_show (fst (fq_hrun c04_inp (2 * length c04_inp + 4) 50 (ops ++ [HSetExact false 5; HSetExact false 5])
                             (fq_hconf0 5 c04_inp c04_rs [SOk] pol_std))) =
  [(1, [Some ([97], [65;67], [73;73])], (0,0));
   (3, [Some ([98], [71], [73]); Some ([99], [84;84], [74;74])], (0,0)); (6, [], (0,0))].
Proof.
  cbv zeta. split; [apply c04_cfg; [lia | reflexivity]|]. split; [repeat constructor|]. vm_compute. reflexivity.
Qed.

(** earlier filled sets stay unchanged: an operation that is not a set read into slot [s]
    leaves that slot's record set (buffer and positions) as it is, so iterating over it
    shows the same records *)
Theorem C04q_set_unchanged : forall inp fuel ffuel op c s,
  (forall n, op <> set_hop s n) ->
  c_slot (fst (fq_hstep inp fuel ffuel op c)) s = c_slot c s.
Proof. exact fq_set_unchanged. Qed.
Print Assumptions C04q_set_unchanged.

Example C04q_set_unchanged_nonvacuous :
  (forall n, HSet true <> set_hop false n) /\ (forall n, HNext <> set_hop false n).
Proof. split; intros [n|]; discriminate. Qed.

(** a refilled set contains only the new batch; a failed set read leaves the set empty:
    both are part of [C04q_history_refines_cursor] (the slot contents of the abstract
    machine after [h_set_batch] / [h_set_err]); see the examples above *)

(** no operation of such a history panics, runs out of fuel or fails in another way *)
Theorem C04q_never_bad : forall inp cap0 rs ss pol fuel ffuel ops,
  std_cfg inp cap0 rs ss pol fuel ffuel -> hist_ok inp ops ->
  Forall (fun o => forall x, o <> OBad x)
         (fst (fq_hrun inp fuel ffuel ops (fq_hconf0 cap0 inp rs ss pol))).
Proof. exact fq_hist_never_bad. Qed.
Print Assumptions C04q_never_bad.

Example C04q_never_bad_nonvacuous :
  let ops := [HSeek 1; HSet false; HNext; HSeek 0; HSetExact true 3] in
  std_cfg c04_inp 1 c04_rs [SOk] pol_std (2 * length c04_inp + 4) 50 /\ hist_ok c04_inp ops /\
  length (fst (fq_hrun c04_inp (2 * length c04_inp + 4) 50 ops (fq_hconf0 1 c04_inp c04_rs [SOk] pol_std))) = 5.
Proof.
  cbv zeta. split; [apply c04_cfg; [lia | reflexivity]|]. split; [repeat constructor; vm_compute; lia|].
  vm_compute. reflexivity.
Qed.
