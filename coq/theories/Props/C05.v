(** C05 — Positions are true file coordinates (record-by-record reading; seeks and
    record sets are in Props/C05s.v when present).
    Statements only; proofs in Proofs/PositionsP.v (corollaries of the refinement theorems). *)
From SeqIO Require Import Model.Base Model.Fasta Model.Fastq Model.Views Spec.FastaSpec Spec.FastqSpec
     Proofs.Window Proofs.FastaInv Proofs.FastaNextP Proofs.FastaTopP Proofs.FastqNextP Proofs.PositionsP.

(** FASTA: the call that returns the k-th record leaves position() = Some (line, byte)
    of that record as the whole-input specification numbers it (1-based line of the
    header, byte offset of '>'), for every capacity, chunking and policy *)
Theorem C05_fasta_position_after_next : forall inp cap0 rs ss pol fuel ffuel n k o pos i,
  3 <= cap0 -> forallb item_ok rs = true -> PolOk pol ->
  length rs + 2 <= ffuel -> length inp + 2 <= fuel -> k < n ->
  nth_error (fa_run fuel ffuel n (fa_new cap0 (mkSource inp 0 rs ss) pol)) k = Some (o, pos) ->
  nth_error (fa_spec inp) k = Some (SRec i) ->
  pos = Some (fi_line i, fi_byte i) /\ exists rc, o = ORec rc.
Proof. exact fa_position_after_next. Qed.
Print Assumptions C05_fasta_position_after_next.

(** FASTQ: the k-th call leaves the position at the coordinates of the k-th item
    (a record, or the offending group of the error) *)
Theorem C05_fastq_position_after_next : forall inp cap0 rs ss pol fuel ffuel n k o pos,
  1 <= cap0 -> forallb item_ok rs = true -> PolOk pol ->
  length rs + 2 <= ffuel -> length inp + 2 <= fuel -> k < n ->
  nth_error (fq_run fuel ffuel n (fq_new cap0 (mkSource inp 0 rs ss) pol)) k = Some (o, pos) ->
  match nth_error (fq_spec_all inp) k with
  | Some (QRec i) => pos = (qi_line i, qi_byte i) /\ exists rc, o = QORec rc
  | Some (QErr e line byte_) => pos = (line, byte_) /\ o = QOErr (fq_err_of e)
  | None => o = QONone
  end.
Proof. exact fq_position_after_next. Qed.
Print Assumptions C05_fastq_position_after_next.

(** non-vacuity: second record of a CRLF file read at capacity 3 *)
Example C05_example :
  let inp := [13; 10; 62; 97; 13; 10; 65; 10; 62; 98; 10; 71; 71] in
  nth_error (fa_spec inp) 1 = Some (SRec (mkFaItem [98] [[71; 71]] 4 8)) /\
  option_map snd (nth_error (fa_run 40 40 3 (fa_new 3 (mkSource inp 0 [] []) pol_std)) 1) = Some (Some (4, 8)).
Proof. split; vm_compute; reflexivity. Qed.
