(** C05 — Positions are true file coordinates and seeking to one restores the
    stream.  FASTA part.  Statements only; proofs in Proofs/FastaSeekP.v and
    Proofs/FastaHistP.v.

    Positions: the simulation relation of C04 ([hrun_ok], Props/C04fa.v:
    [C04_history_refines_cursor], [C04_next_pinned], [C04_set_pinned]) already
    contains that the position reported after a returned record is that
    record's (line, byte) of the specification, and that a position reported
    after a set read denotes the next unread record.  Here: seeks. *)
From SeqIO Require Import Model.Base Model.Fasta Model.Views Spec.FastaSpec Spec.Cursor
     Proofs.Window Proofs.FastaScanP Proofs.FastaInv Proofs.FastaStream Proofs.FastaNextP Proofs.FastaTopP
     Proofs.FastaSetP Proofs.FastaSeekP Proofs.FastaHistP.

(** From ANY state reached by ANY history [ops1] (reads of all kinds, seeks,
    end of input reached or not), a seek to the position of ANY record [k]
    of the stream succeeds, and whatever history [ops2] follows is observed
    exactly as the cursor machine STARTED AT ITEM [k] allows: the same relation
    that reading sequentially from there satisfies. *)
Theorem C05_seek_restores : forall inp cap0 rs sks pol fuel ffuel items ops1 k ops2 it,
  3 <= cap0 -> forallb item_ok rs = true -> forallb sitem_ok sks = true -> PolOk pol ->
  length rs + 2 <= ffuel -> length inp + 2 <= fuel ->
  FaOSpec inp items -> Forall hop_ok (ops1 ++ HSeek k :: ops2) ->
  nth_error (map to_citem items) k = Some (CRec it) ->
  let obs := fst (fa_hist fuel ffuel (tgt_of items) (ops1 ++ HSeek k :: ops2) (h_init inp cap0 rs sks pol)) in
  exists g c' g',
    nth_error obs (length ops1) = Some (HoOk, None) /\
    hrun_ok inp (map to_citem items) (CAt k) g ops2 (skipn (S (length ops1)) obs) c' g'.
Proof. exact fa_seek_restores. Qed.
Print Assumptions C05_seek_restores.

(** in particular: after the seek, [n] single reads return record [k], record
    [k+1], ... each with its own coordinates, then the end of input for ever *)
Theorem C05_seek_then_next : forall inp cap0 rs sks pol fuel ffuel pos ln its ops1 k n,
  3 <= cap0 -> forallb item_ok rs = true -> forallb sitem_ok sks = true -> PolOk pol ->
  length rs + 2 <= ffuel -> length inp + 2 <= fuel ->
  fa_ostart_of inp = OsRecs pos ln -> FaStream inp pos ln its -> k < length its ->
  Forall hop_ok ops1 ->
  let items := map (fun it => let '(s, line, ends) := it in OiRec s line ends) its in
  let obs := fst (fa_hist fuel ffuel (tgt_of items) (ops1 ++ HSeek k :: repeat HNext n) (h_init inp cap0 rs sks pol)) in
  nth_error obs (length ops1) = Some (HoOk, None) /\
  Forall2 (next_matches inp) (skipn (S (length ops1)) obs) (firstn n (map Some (skipn k its) ++ repeat None n)).
Proof. exact fa_seek_then_next. Qed.
Print Assumptions C05_seek_then_next.

(** one seek, from any state satisfying the between-operations invariant
    [Common] (window of the input, offset invariant): whether the target is
    inside the buffer of a reader that is not New (shortcut: buffer and source
    untouched) or not, or the reader is still New (source seek + refill: the
    buffer then starts at the target; a New reader never takes the shortcut,
    its buffer can only be the partial result of a failed first refill), the
    reader ends up positioned at the target record *)
Theorem C05_seek_both_branches : forall inp ffuel r off s line,
  Common inp ffuel r off -> seek_ok (src r) -> nth_error inp s = Some GT ->
  exists r' off', fa_seek ffuel r line s = (r', OOk) /\
    PosAt inp ffuel r' off' s line /\ seek_ok (src r') /\
    ((off <= s < off + length (buf r) /\ st r <> FNew /\ off' = off /\ buf r' = buf r /\ src r' = src r) \/
     ((~ (off <= s < off + length (buf r)) \/ st r = FNew) /\ off' = s /\ start r' = 0)).
Proof. exact seek_spec. Qed.
Print Assumptions C05_seek_both_branches.

(** ... and the next read returns the target record, leaving the reader in
    the very state sequential reading leaves it in after that record ([AtRec]) *)
Theorem C05_seek_then_first_read : forall inp ffuel fuel r off s line,
  Common inp ffuel r off -> seek_ok (src r) -> nth_error inp s = Some GT -> length inp < fuel ->
  exists r1 r2 off2, fa_seek ffuel r line s = (r1, OOk) /\ fa_position r1 = None /\
    fa_next fuel ffuel r1 = (r2, ORec (fa_cur r2)) /\
    AtRec inp ffuel r2 off2 s line (scan_abs inp (S s) []) /\
    RecAt inp (fa_cur r2) s (FastaNextP.ends_of (scan_abs inp (S s) [])).
Proof. exact seek_then_next. Qed.
Print Assumptions C05_seek_then_first_read.

(** the offset invariant: after ANY history, [position.byte - start] is the
    file offset of the buffer *)
Theorem C05_offset_invariant : forall inp cap0 rs sks pol fuel ffuel pos ln its ops,
  3 <= cap0 -> forallb item_ok rs = true -> forallb sitem_ok sks = true -> PolOk pol ->
  length rs + 2 <= ffuel -> length inp + 2 <= fuel ->
  fa_ostart_of inp = OsRecs pos ln -> FaStream inp pos ln its -> Forall hop_ok ops ->
  let r := h_r (snd (fa_hist fuel ffuel (tgt_of (map oirec its)) ops (h_init inp cap0 rs sks pol))) in
  exists off, buf r = window inp off (s_pos (src r)) /\ pbyte r = start r + off.
Proof. exact fa_offset_invariant. Qed.
Print Assumptions C05_offset_invariant.

(** reading never consumes the seek script: a source whose seeks do not fail stays so *)
Theorem C05_reads_keep_seek_script : forall fuel ffuel n r rs r' rs' x,
  (fa_read_set fuel ffuel n r rs = (r', rs', x) -> s_ss (src r') = s_ss (src r)) /\
  (forall y, fa_next fuel ffuel r = (r', y) -> s_ss (src r') = s_ss (src r)).
Proof. intros. split; [apply fa_read_set_ss | intros y; apply fa_next_ss]. Qed.
Print Assumptions C05_reads_keep_seek_script.

(* ------------------------------------------------------------------ *)
(** non-vacuity: leading blank lines (the first record is at byte 3, line 3),
    capacity 4 (targets outside the buffer: real seeks) and capacity 64
    (targets inside the buffer: the shortcut); seeks from the middle, from the
    end of input and after a set read *)
Example C05_pol_ok : PolOk pol_std.
Proof. exact PolOk_std. Qed.

Example C05_example :
  let C05_inp := [10; 13; 10; 62; 97; 10; 65; 67; 10; 62; 98; 10; 71; 10; 62; 99; 10; 84; 84; 10; 65] in  (* \n\r\n>a\nAC\n>b\nG\n>c\nTT\nA *)
  let show o := let '(c, k, p) := hist_show o in (map fst c, k, p) in
  let ops := [HNext; HNext; HNext; HNext; HSeek 1; HNext; HSeek 0; HSet 0; HSeek 2; HNext; HNext; HSeek 7] in
  map (fun i => match i with SRec x => (fi_line x, fi_byte x) | _ => (0, 0) end) (fa_spec C05_inp)
    = [(3, 3); (5, 9); (7, 14)] /\
  forall cap0, In cap0 [4; 64] ->
  map show (fst (fa_hist 23 4 (tgt_spec C05_inp) ops (h_init C05_inp cap0 [RDeliver 2; RInterrupt] [SOk] pol_std)))
  = [ ([Some [97]], 2, Some (3, 3)); ([Some [98]], 2, Some (5, 9)); ([Some [99]], 2, Some (7, 14));
      ([], 0, Some (7, 14));                             (* end of input *)
      ([], 1, None); ([Some [98]], 2, Some (5, 9));      (* seek to b, read b *)
      ([], 1, None);                                     (* seek to a *)
      (if cap0 =? 4 then [Some [97]] else [Some [97]; Some [98]; Some [99]], 4, None);
      ([], 1, None); ([Some [99]], 2, Some (7, 14)); ([], 0, Some (7, 14));
      ([], 9, Some (7, 14)) ].                           (* index 7 is not a record: no seek *)
Proof.
  split; [vm_compute; reflexivity|].
  intros cap0 [<-|[<-|[]]]; vm_compute; reflexivity.
Qed.
