(** C05 (positions are true file coordinates) / C06 (after an I/O error) — the FASTA
    reader's initialisation is RESUMABLE.  Statements only; proofs in Proofs/FaInitRetryP.v
    (and Proofs/FinalErrP.v for the seek statements).

    The first call of a reader ([init] / [first_byte]) skips leading blank lines, refilling
    the buffer in a loop.  When a refill fails with an I/O error the reader stays New and the
    call can be repeated.  [first_byte] now keeps the number of lines (as it always kept the
    number of bytes) it has consumed in [position], so the repeated call continues counting
    where the failed one stopped.  Proved here, for EVERY input, capacity, policy and every
    read script of the failed attempts:

    - [InitMid inp r] (defined in Proofs/FaInitRetryP.v) describes a reader that is still
      New after any number of failed attempts: its buffer is the part of the input between
      [position.byte] and the position of the source and is not full, and skipping blank
      lines from [position.byte] while counting lines from [position.line] finds what
      skipping blank lines from the start of the input finds.  ([C05_InitMid_plain_words]:
      this is the case when the bytes before [position.byte] are [position.line] complete
      blank lines.)  A new reader satisfies it; a failed attempt preserves it.
    - The attempt that succeeds reports what a fault-free first call reports: the first
      record with its TRUE line number and byte offset, or the [InvalidStart] error with
      the TRUE line number, or the end of the input -- and ([C05_fa_retry_delivers_spec])
      all later calls deliver the rest of the specification stream.

    DEVIATION from the statement that was aimed at: the last two clauses need one extra
    hypothesis, [s_pos (src r) < length inp \/ AllBlank (buf r)]: at the retry the source
    still has at least one byte to deliver, or the buffer left by the failed refill holds
    nothing but blank lines (e.g. is empty or a carried-over CR).  Without it the statement
    is FALSE ([C05_fa_init_retry_may_report_end_example]): [first_byte] takes "the refill
    read no new byte" for the end of the input without looking at what the failed refill
    had already put into the buffer; when that refill had read the input to its end before
    it failed, the retry reports the end of the input and the buffered bytes are never
    parsed.  (C06 permits the end of input after an error has been returned, so this is
    permitted behaviour -- but it is not "the same as a fault-free first call".)  The extra
    hypothesis is true of a new reader but NOT preserved by failed attempts.

    Also here: a reader that is still New never takes the in-buffer shortcut of [seek]
    (its buffer can only be the partial result of a failed first refill): the seek goes to
    the source and the buffer is read again. *)
From SeqIO Require Import Model.Base Model.Fasta Model.Fastq Spec.FastaSpec
     Proofs.Window Proofs.FastaInv Proofs.FastaNextP Proofs.FastaTopP Proofs.FinalErrP Proofs.FaInitRetryP.

(** a new reader is in such a state; a failed attempt keeps the reader in such a state; a
    successful attempt from such a state finds what the specification says, independent
    of the attempts before (under the extra hypothesis discussed above) *)
Theorem C05_fa_init_resumable :
  (forall inp c rs ss p, 3 <= c -> InitMid inp (fa_new c (mkSource inp 0 rs ss) p)) /\
  (forall inp fuel ffuel r r' k, InitMid inp r -> fa_init fuel ffuel r = (r', IErr (FaIo k)) -> InitMid inp r') /\
  (forall inp fuel ffuel r r' b, InitMid inp r -> 3 <= cap r -> no_fail (src r) ->
     length (s_rs (src r)) + 2 <= ffuel -> length inp + 2 <= fuel ->
     (s_pos (src r) < length inp \/ AllBlank (buf r)) ->
     fa_init fuel ffuel r = (r', IOk b) ->
     match fa_spec inp with
     | [] => b = false
     | SInvalidStart _ _ :: _ => False
     | SRec it :: _ => b = true /\ pline r' = fi_line it /\ pbyte r' = fi_byte it
     end) /\
  (forall inp fuel ffuel r r' line found, InitMid inp r -> 3 <= cap r -> no_fail (src r) ->
     length (s_rs (src r)) + 2 <= ffuel -> length inp + 2 <= fuel ->
     (s_pos (src r) < length inp \/ AllBlank (buf r)) ->
     fa_init fuel ffuel r = (r', IErr (FaInvalidStart line found)) ->
     fa_spec inp = [SInvalidStart line found]).
Proof. exact fa_init_resumable. Qed.
Print Assumptions C05_fa_init_resumable.

(** the whole stream: the [n] calls after the failed attempts return the items of the
    line-based specification one by one (heads, sequence lines, TRUE positions; the
    [InvalidStart] error with the true line), then the end of input for ever *)
Theorem C05_fa_retry_delivers_spec : forall inp fuel ffuel n r,
  InitMid inp r -> 3 <= cap r -> no_fail (src r) -> PolOk (polf r) ->
  length (s_rs (src r)) + 2 <= ffuel -> length inp + 2 <= fuel ->
  (s_pos (src r) < length inp \/ AllBlank (buf r)) ->
  Forall2 fa_smatches (fa_run fuel ffuel n r) (firstn n (map Some (fa_spec inp) ++ repeat None n)).
Proof. exact fa_retry_delivers_spec. Qed.
Print Assumptions C05_fa_retry_delivers_spec.

(** [InitMid] in plain words: New, nothing searched, the buffer is the part of the input that
    follows the [position.byte] bytes consumed so far, and those bytes are [position.line]
    complete blank lines -- such a reader (with a buffer that is not full) is [InitMid] *)
Theorem C05_InitMid_plain_words : forall inp r,
  st r = FNew /\ start r = 0 /\ spos r = 0 /\ seqpos r = [] /\
  s_data (src r) = inp /\ length (buf r) <= cap r /\
  buf r = firstn (length (buf r)) (skipn (pbyte r) inp) /\ s_pos (src r) = pbyte r + length (buf r) /\
  pline r = count_occ Nat.eq_dec (firstn (pbyte r) inp) LF /\
  Forall (fun l => trim_cr l = []) (pieces (firstn (pbyte r) inp)) /\
  (pbyte r = 0 \/ nth_error inp (pbyte r - 1) = Some LF) ->
  length (buf r) < cap r ->
  InitMid inp r.
Proof. intros inp r H Hlt. split; [exact (InitMidPlain_mid0 inp r H)|exact Hlt]. Qed.
Print Assumptions C05_InitMid_plain_words.

(** a reader that is still New never takes the in-buffer shortcut of [seek]: for EVERY
    target the source's seek is called (an [EvSeek] event is logged, followed by the
    read events of the refill) *)
Theorem C06_fa_seek_new_reader_reads_again : forall ffuel r line byte_, st r = FNew ->
  exists added, log (fst (fa_seek ffuel r line byte_)) =
                added ++ EvSeek byte_ (snd (src_seek (src r) byte_)) :: log r.
Proof. exact fa_seek_new_seeks_source. Qed.
Print Assumptions C06_fa_seek_new_reader_reads_again.

Theorem C06_fq_seek_new_reader_reads_again : forall ffuel r line byte_, qst r = QNew ->
  exists added, qlog (fst (fq_seek ffuel r line byte_)) =
                added ++ EvSeek byte_ (snd (src_seek (qsrc r) byte_)) :: qlog r.
Proof. exact fq_seek_new_seeks_source. Qed.
Print Assumptions C06_fq_seek_new_reader_reads_again.

(* ------------------------------------------------------------------ *)
(** * Examples *)

(** "\n\n\n\n>a\nA", capacity 3, the second refill fails (kind 5): the first call returns
    the error, the second call returns the record and the position is (line 5, byte 4)
    -- before the repair it was (2, 4) *)
Definition c05i_inp : list byte := [10; 10; 10; 10; 62; 97; 10; 65].
Definition c05i_r0 : fa := fa_new 3 (mkSource c05i_inp 0 [RDeliver 2; RFailI 5] []) pol_std.

Example C05_fa_init_retry_example :
  let c1 := fa_next 20 20 c05i_r0 in
  let c2 := fa_next 20 20 (fst c1) in
  snd c1 = OErr (FaIo 5) /\
  snd c2 = ORec (mkFaRec [62; 97; 10; 65] 0 [2; 4]) /\
  fa_position (fst c2) = Some (5, 4) /\
  map (fun i => match i with SRec x => (fi_line x, fi_byte x) | _ => (0, 0) end) (fa_spec c05i_inp) = [(5, 4)].
Proof. vm_compute. repeat split; reflexivity. Qed.

(** non-vacuity: the reader after the failed attempt is a non-trivial [InitMid] state (three
    blank lines = three bytes consumed) that meets every hypothesis of the third and
    fourth clause and of [C05_fa_retry_delivers_spec] *)
Example C05_fa_init_resumable_nonvacuous :
  let r := fst (fa_next 20 20 c05i_r0) in
  InitMid c05i_inp r /\ (pline r, pbyte r) = (3, 3) /\ 3 <= cap r /\ no_fail (src r) /\ PolOk (polf r) /\
  length (s_rs (src r)) + 2 <= 20 /\ length c05i_inp + 2 <= 20 /\
  (s_pos (src r) < length c05i_inp \/ AllBlank (buf r)) /\
  snd (fa_init 20 20 r) = IOk true.
Proof.
  cbv zeta. split.
  { split; [constructor|]; vm_compute; try reflexivity; lia. }
  split; [vm_compute; reflexivity|]. split; [vm_compute; lia|]. split; [vm_compute; reflexivity|].
  split; [exact PolOk_std|]. split; [vm_compute; lia|]. split; [vm_compute; lia|].
  split; [left; vm_compute; lia|]. vm_compute. reflexivity.
Qed.

(** the extra hypothesis cannot be dropped.  ">a\nA", capacity 64: the first refill reads the
    whole input and then fails (kind 5).  The reader is [InitMid], the source is at the end
    of the input, the buffer is not blank -- and the second call, fault-free, reports the
    END OF INPUT although the specification has a record: the buffered bytes are dropped.
    (C06 permits the end of input after an error has been returned.) *)
Example C05_fa_init_retry_may_report_end_example :
  let inp := [62; 97; 10; 65] in
  let r0 := fa_new 64 (mkSource inp 0 [RDeliver 10; RFailI 5] []) pol_std in
  let c1 := fa_next 20 20 r0 in
  let c2 := fa_next 20 20 (fst c1) in
  snd c1 = OErr (FaIo 5) /\ InitMid inp (fst c1) /\ no_fail (src (fst c1)) /\
  buf (fst c1) = inp /\ s_pos (src (fst c1)) = length inp /\ ~ AllBlank (buf (fst c1)) /\
  snd c2 = ONone /\ st (fst c2) = FFinished /\
  fa_spec inp = [SRec (mkFaItem [97] [[65]] 1 0)].
Proof.
  cbv zeta. split; [vm_compute; reflexivity|]. split.
  { split; [constructor|]; vm_compute; try reflexivity; lia. }
  split; [vm_compute; reflexivity|]. split; [vm_compute; reflexivity|]. split; [vm_compute; reflexivity|].
  split.
  { intros H. destruct (H 0 0 0) as [x Hx]. vm_compute in Hx. discriminate. }
  split; [vm_compute; reflexivity|]. split; vm_compute; reflexivity.
Qed.

(** seek after a failed first call.  ">a\nACGT\n", capacity 64: the first refill delivers 3
    bytes and fails (kind 8); the reader is New with the partial buffer ">a\n".  A seek to
    (line 1, byte 0) -- a target INSIDE that partial buffer -- goes to the source and refills;
    the next call returns the record with its full sequence line ACGT (line ends 2 and 7),
    not a record cut off at the end of the partial buffer *)
Example C06_fa_seek_after_failed_init_example :
  let inp := [62; 97; 10; 65; 67; 71; 84; 10] in
  let r0 := fa_new 64 (mkSource inp 0 [RDeliver 2; RFailI 8] []) pol_std in
  let c1 := fa_next 20 20 r0 in
  let c2 := fa_seek 20 (fst c1) 1 0 in
  let c3 := fa_next 20 20 (fst c2) in
  snd c1 = OErr (FaIo 8) /\ st (fst c1) = FNew /\ buf (fst c1) = [62; 97; 10] /\
  snd c2 = OOk /\
  snd c3 = ORec (mkFaRec inp 0 [2; 7]) /\ fa_position (fst c3) = Some (1, 0).
Proof. vm_compute. repeat split; reflexivity. Qed.
