(** C05 (FASTQ) — positions are true file coordinates; seeking to one restores the stream.

    Notions as in Props/C04q.v.  [coords it] = (line, byte) of the first line of the group
    of stream item [it] (a record, or the invalid group), as the whole-input specification
    [fq_spec_all inp] assigns them — independent of capacity, chunking and policy.
    [HQ inp ffuel r items] (Proofs/FastqSetP.v) is the invariant that holds between any
    two calls on one reader: [items] are the items still to be delivered; it covers the
    fresh reader, the state after [next] returned a record, the positioned states a set
    read or a seek leaves behind (at a group start, or inside a group with a pending
    search) and the finished state.
    Statements only; proofs are in Proofs/FastqSetP.v, FastqSeekP.v, CursorP.v, FastqHistP.v. *)
From SeqIO Require Import Model.Base Model.Fastq Model.Views Spec.FastaSpec Spec.FastqSpec Spec.CursorQ
  Proofs.Window Proofs.FastaInv Proofs.FastqInv Proofs.FastqNextP Proofs.FastqSetP Proofs.FastqSeekP
  Proofs.CursorP Proofs.FastqHistP Proofs.FastqHistEx.

(** after [next] has returned a record, [position()] is that record's location: byte
    offset of its '@' and 1-based line number of its header line, as the specification
    assigns them; the record is item [k] of the stream, [k] the cursor of the abstract run *)
Theorem C05q_position_after_next : forall inp cap0 rs ss pol fuel ffuel ops,
  std_cfg inp cap0 rs ss pol fuel ffuel -> hist_ok inp ops ->
  let c1 := snd (fq_hrun inp fuel ffuel ops (fq_hconf0 cap0 inp rs ss pol)) in
  forall rc, snd (fq_hstep inp fuel ffuel HNext c1) = ORec rc ->
  exists os h k i,
    hrun fq_sitem fq_is_rec (fq_spec_all inp) h_init ops os h /\ h_cur h = At k /\
    nth_error (fq_spec_all inp) k = Some (QRec i) /\ rec_at inp rc i /\
    fq_position (c_rd (fst (fq_hstep inp fuel ffuel HNext c1))) = (qi_line i, qi_byte i).
Proof. exact fq_position_after_next. Qed.
Print Assumptions C05q_position_after_next.

Example C05q_position_after_next_nonvacuous :
  let ops := [HSet false; HSeek 1] in
  let c1 := snd (fq_hrun c04_inp (2 * length c04_inp + 4) 50 ops (fq_hconf0 3 c04_inp c04_rs [SOk] pol_std)) in
  std_cfg c04_inp 3 c04_rs [SOk] pol_std (2 * length c04_inp + 4) 50 /\ hist_ok c04_inp ops /\
  (exists rc, snd (fq_hstep c04_inp (2 * length c04_inp + 4) 50 HNext c1) = ORec rc) /\
  fq_position (c_rd (fst (fq_hstep c04_inp (2 * length c04_inp + 4) 50 HNext c1))) = (5, 11).
Proof.
  cbv zeta. split; [apply c04_cfg; [lia | reflexivity]|]. split; [repeat constructor; vm_compute; lia|].
  split; [eexists; vm_compute; reflexivity | vm_compute; reflexivity].
Qed.

(** after a successful record-set read, [position()] denotes the next unread item: the
    cursor of the abstract run stands at an index [j] behind the batch, and if the stream
    has an item [j] (a record, or the invalid group), its coordinates are reported *)
Theorem C05q_position_after_set : forall inp cap0 rs ss pol fuel ffuel ops s n,
  std_cfg inp cap0 rs ss pol fuel ffuel -> hist_ok inp (ops ++ [set_hop s n]) ->
  let c1 := snd (fq_hrun inp fuel ffuel ops (fq_hconf0 cap0 inp rs ss pol)) in
  forall recs, snd (fq_hstep inp fuel ffuel (set_hop s n) c1) = OSetOk recs ->
  exists os h j,
    hrun fq_sitem fq_is_rec (fq_spec_all inp) h_init (ops ++ [set_hop s n]) os h /\ h_cur h = At j /\
    forall it, nth_error (fq_spec_all inp) j = Some it ->
      fq_position (c_rd (fst (fq_hstep inp fuel ffuel (set_hop s n) c1))) = coords it.
Proof. exact fq_position_after_set. Qed.
Print Assumptions C05q_position_after_set.

Example C05q_position_after_set_nonvacuous :
  let ops := [HNext] in
  let c1 := snd (fq_hrun c04_bad (2 * length c04_bad + 4) 50 ops (fq_hconf0 3 c04_bad c04_rs [SOk] pol_std)) in
  std_cfg c04_bad 3 c04_rs [SOk] pol_std (2 * length c04_bad + 4) 50 /\
  hist_ok c04_bad (ops ++ [set_hop true None]) /\
  (exists recs, snd (fq_hstep c04_bad (2 * length c04_bad + 4) 50 (set_hop true None) c1) = OSetOk recs) /\
  fq_position (c_rd (fst (fq_hstep c04_bad (2 * length c04_bad + 4) 50 (set_hop true None) c1))) = (9, 20) /\
  option_map coords (nth_error (fq_spec_all c04_bad) 2) = Some (9, 20).
Proof.
  cbv zeta. split; [apply c04_cfg; [lia | reflexivity]|]. split; [repeat constructor|].
  split; [eexists; vm_compute; reflexivity|]. split; vm_compute; reflexivity.
Qed.

(** seeking to the position of item [k] — from the state ANY history has reached, whether
    or not the target is still inside the buffer — succeeds, and whatever history follows
    is observed as the abstract machine delivers it from cursor [k] on, i.e. exactly as
    sequential reading does from there *)
Theorem C05q_seek_restores : forall inp cap0 rs ss pol fuel ffuel ops1 k ops2,
  std_cfg inp cap0 rs ss pol fuel ffuel -> hist_ok inp (ops1 ++ HSeek k :: ops2) ->
  let c1 := snd (fq_hrun inp fuel ffuel ops1 (fq_hconf0 cap0 inp rs ss pol)) in
  snd (fq_hstep inp fuel ffuel (HSeek k) c1) = OOk /\
  exists h os2 h',
    h_cur h = At k /\ h_pos h = Some k /\
    hrun fq_sitem fq_is_rec (fq_spec_all inp) h ops2 os2 h' /\
    Forall2 (obs_match inp)
            (fst (fq_hrun inp fuel ffuel ops2 (fst (fq_hstep inp fuel ffuel (HSeek k) c1)))) os2.
Proof. exact fq_seek_restores. Qed.
Print Assumptions C05q_seek_restores.

(** non-vacuity: capacity 40 holds the whole input (the seek uses the in-buffer shortcut,
    from the finished state), capacity 3 forces a real seek of the source; after the seek
    both read a, b, c again from (1, 0) on (in batches of different sizes, by design) *)
Example C05q_seek_restores_nonvacuous :
  let ops1 := [HSet false; HNext] in
  let ops2 := [HPos; HNext; HSet true; HNext] in
  std_cfg c04_inp 40 c04_rs [SOk; SOk] pol_std (2 * length c04_inp + 4) 50 /\
  std_cfg c04_inp 3 c04_rs [SOk; SOk] pol_std (2 * length c04_inp + 4) 50 /\
  hist_ok c04_inp (ops1 ++ HSeek 0 :: ops2) /\
  map c04_show (fst (fq_hrun c04_inp (2 * length c04_inp + 4) 50 (ops1 ++ HSeek 0 :: ops2)
                             (fq_hconf0 40 c04_inp c04_rs [SOk; SOk] pol_std))) =
  [(3, [Some ([97], [65;67], [73;73]); Some ([98], [71], [73]); Some ([99], [84;84], [74;74])], (0,0));
   (6, [], (0,0)); (8, [], (0,0)); (7, [], (1, 0));
   (1, [Some ([97], [65;67], [73;73])], (0,0));
   (3, [Some ([98], [71], [73]); Some ([99], [84;84], [74;74])], (0,0)); (6, [], (0,0))] /\
  map c04_show (fst (fq_hrun c04_inp (2 * length c04_inp + 4) 50 (ops1 ++ HSeek 0 :: ops2)
                             (fq_hconf0 3 c04_inp c04_rs [SOk; SOk] pol_std))) =
  [(3, [Some ([97], [65;67], [73;73])], (0,0)); (1, [Some ([98], [71], [73])], (0,0));
   (8, [], (0,0)); (7, [], (1, 0));
   (1, [Some ([97], [65;67], [73;73])], (0,0));
   (3, [Some ([98], [71], [73])], (0,0)); (1, [Some ([99], [84;84], [74;74])], (0,0))].
Proof.
  cbv zeta. split; [apply c04_cfg; [lia | reflexivity]|]. split; [apply c04_cfg; [lia | reflexivity]|].
  split; [repeat constructor; vm_compute; lia|].
  split; vm_compute; reflexivity.
Qed.

(** seeking to the position of the invalid group reproduces its error: after the error and
    the end have been reported, a seek to item 2 (the invalid group) makes a set read fail
    with the same error, with an empty set, at the same position (9, 20) *)
Example C05q_seek_to_invalid_nonvacuous :
  let ops := [HNext; HNext; HNext; HNext; HSeek 2; HPos; HSet false; HIter false; HPos] in
  std_cfg c04_bad 3 c04_rs [SOk; SOk] pol_std (2 * length c04_bad + 4) 50 /\ hist_ok c04_bad ops /\
  map (fun o => match o with OErr e => Some e | _ => None end)
      (fst (fq_hrun c04_bad (2 * length c04_bad + 4) 50 ops (fq_hconf0 3 c04_bad c04_rs [SOk; SOk] pol_std))) =
  [None; None; Some (FqUnequalLengths 2 1 9 (Some [99])); None; None; None;
   Some (FqUnequalLengths 2 1 9 (Some [99])); None; None] /\
  map c04_show (fst (fq_hrun c04_bad (2 * length c04_bad + 4) 50 ops (fq_hconf0 3 c04_bad c04_rs [SOk; SOk] pol_std))) =
  [(1, [Some ([97], [65;67], [73;73])], (0,0)); (1, [Some ([98], [71], [73])], (0,0)); (5, [], (0,0));
   (6, [], (0,0)); (8, [], (0,0)); (7, [], (9, 20)); (5, [], (0,0)); (4, [], (0,0)); (7, [], (9, 20))].
Proof.
  cbv zeta. split; [apply c04_cfg; [lia | reflexivity]|]. split; [repeat constructor; vm_compute; lia|].
  split; vm_compute; reflexivity.
Qed.

(** the coordinates of the items: the rest of the stream from item [k] on is the parse of
    the input from the item's byte offset, at its line number — positions are true file
    coordinates, the same for every capacity *)
Theorem C05q_item_coordinates : forall inp k it, nth_error (fq_spec_all inp) k = Some it ->
  snd (coords it) <= length inp /\
  skipn k (fq_spec_all inp) =
  FqSpecP.fq_parse (skipn (snd (coords it)) inp) (fst (coords it)) (snd (coords it)).
Proof. exact stream_nth. Qed.
Print Assumptions C05q_item_coordinates.

Example C05q_item_coordinates_nonvacuous :
  nth_error (fq_spec_all c04_bad) 2 = Some (QErr (EUnequal 2 1 9 (Some [99])) 9 20).
Proof. vm_compute. reflexivity. Qed.

(** one seek, from any state between two calls ([HQ]): it succeeds, the reader reports
    the target position, and the items still to be delivered are the parse of the input
    from the target on.  Covers the in-buffer shortcut and the real seek. *)
Theorem C05q_seek_spec : forall inp ffuel r items line byte_,
  HQ inp ffuel r items -> byte_ <= length inp ->
  exists r', fq_seek ffuel r line byte_ = (r', QOOk) /\
    HQ inp ffuel r' (FqSpecP.fq_parse (skipn byte_ inp) line byte_) /\
    qst r' = QPositioned /\ fq_position r' = (line, byte_).
Proof. exact seek_spec. Qed.
Print Assumptions C05q_seek_spec.

(** seek to item [k], then [next]: a record is returned again; the invalid group
    reproduces its error; the position is the item's in both cases *)
Theorem C05q_seek_then_next : forall inp ffuel fuel r items k it,
  HQ inp ffuel r items -> nth_error (fq_spec_all inp) k = Some it -> length inp + 2 <= fuel ->
  exists r1 r2 o,
    fq_seek ffuel r (fst (coords it)) (snd (coords it)) = (r1, QOOk) /\
    fq_next fuel ffuel r1 = (r2, o) /\ fq_position r2 = coords it /\
    match it with
    | QRec i => exists rc, o = QORec rc /\ rec_at inp rc i
    | QErr e _ _ => o = QOErr (fq_err_of e)
    end.
Proof. exact seek_next_item. Qed.
Print Assumptions C05q_seek_then_next.

(** non-vacuity of [HQ]: the fresh reader satisfies it with the whole stream to deliver *)
Example C05q_seek_spec_nonvacuous :
  HQ c04_bad 50 (fq_new 3 (mkSource c04_bad 0 c04_rs [SOk]) pol_std) (fq_spec_all c04_bad) /\
  20 <= length c04_bad /\
  nth_error (fq_spec_all c04_bad) 2 = Some (QErr (EUnequal 2 1 9 (Some [99])) 9 20) /\
  length c04_bad + 2 <= 100.
Proof.
  split.
  - exact (sim_rd _ _ _ _ (Sim_init c04_bad 3 c04_rs [SOk] pol_std 50 ltac:(lia) eq_refl eq_refl
                                      PolOk1_std ltac:(cbn [c04_rs length]; lia))).
  - split; [cbn [c04_bad length]; lia|]. split; [vm_compute; reflexivity | cbn [c04_bad length]; lia].
Qed.
