(** C05 / C06 — seeking to the position of a record restores the stream ALSO from the states a
    source failure leaves behind.  Statements only; proofs in Proofs/SeekAnyP.v.

    Props/C05fa.v and C05q.v prove "seek to a record, then the stream continues from there as
    sequential reading does" from every state that satisfies the refinement invariant (the
    buffer is a window of the input, ...), i.e. every state reachable by fault-free histories.
    Here: the states reachable through an I/O error of the source.  Props/C06f.v shows what
    such an error leaves behind: either the reader is [Finished] and its buffer has been
    dropped ([buf r = []]: error in the search loop of [next] / [read_record_set], or in the
    refill of a [seek]), or the reader is still [New] with a partly filled buffer (error in
    the very first call).  NOTHING else is assumed about such a reader (offsets, position,
    search state, source position are arbitrary): with an empty buffer no target is inside
    the buffer, and a New reader never takes the in-buffer shortcut, so [seek] takes the
    real-seek path, which overwrites them all.

    FASTA
    - [C05_fa_seek_restores_from_failure_states]: from such a state, over a source whose
      scripts are fault-free FROM HERE ON, a seek to the first byte of any header line leads
      to [PosAt inp ffuel r' s s line] -- the very state a seek from a healthy state leads to
      (Proofs/FastaSetP.v), from which [next], the set loop and the history theorems continue.
      No hypothesis beyond the target's was needed ([length (buf r) <= cap r] is not needed:
      the buffer is cleared).  [C05_fa_seek_from_failure_keeps]: the seek keeps capacity and
      policy and leaves a fault-free read script.
    - [C05_fa_seek_then_next_from_failure_states]: the first read then returns the target
      record and leaves the reader in the state sequential reading leaves it in ([AtRec]).
      (Stronger than the target by one conjunct: [fa_position r1 = None] after the seek.)
    - [C06_fa_calls_consume_script]: what a call of [next] / [read_record_set] does to the
      source, whatever the reader state: data and seek script are kept, the policy is kept,
      the capacity does not shrink, and the read script loses fault-free items only -- unless
      the call returns the I/O error of kind [k]: then it lost fault-free items and the item
      [RFailI k] ([Stp], [SrcStep], [consumed] are defined in Proofs/SeekAnyP.v).
    - [C06_fa_state_after_io_error]: a NEW reader over the read script
      [rs1 ++ RFailI k :: rs2] ([rs1], [rs2] fault-free); after [j] calls of [next] the last of
      which returned an I/O error: the error is that of the item, the reader is in a failure
      state as above, the remaining read script is exactly [rs2], data / seek script / policy
      are those of the new reader and the capacity did not shrink.  Everything is derived
      from the new reader and the run; nothing is assumed about the state after the failure.
    - [C05_fa_io_error_then_seek_restores]: end to end -- that history, then the seek to any
      header line at offset [s], then [m] calls of [next]: they deliver the records of the
      offset-based specification stream [FaStream inp s line its] one by one, then the end of
      input for ever ([fa_matches]: the record view denotes the record at that offset with
      those line ends, and the reported position is the record's).
      [C05_fa_io_error_then_seek_restores_spec]: the same against the LINE-BASED
      specification: the target is record [i] of [fa_spec inp], and the calls after the seek
      deliver [skipn i (fa_spec inp)] (heads, sequence lines, true positions), then the end.
    - ANY entry point and ANY history before the failure: [HealthySrc inp k rs2 r] asks of
      the reader before the failing call nothing but: the source holds [inp], its seek script
      is fault-free, the policy never refuses, capacity >= 1, and the read script is
      fault-free items, then [RFailI k], then [rs2].  A new reader has it
      ([C05_fa_healthy_new]); every call of [next], [read_record_set], [seek] ([fa_call]) that
      returns no I/O error keeps it, and the call that returns the I/O error consumed exactly
      the failure item and leaves a failure state ([C06_fa_call_healthy]; [set_policy] keeps
      it too).  [C05_fa_failed_call_then_seek]: so after any such history the failing call
      (whichever entry point), then the seek, then the rest of the stream.

    FASTQ (targets: the coordinates [coords it] of item [it] of [fq_spec_all inp])
    - [C05_fq_seek_restores_from_failure_states]: from a state with [qbuf r = []] or
      [qst r = QNew], a seek to any offset inside the input leads to the between-calls
      invariant [HQ] for the parse from there (Proofs/FastqSetP.v), positioned, [p0 = 0].
    - [C05_fq_seek_then_next_from_failure_states]: seek to item [k], then [next]: a record
      item is returned again, the invalid group reproduces its error; the position is the
      item's in both cases; the reader satisfies [NextOut] (hence [HQ] for the items behind).
    - [C06_fq_next_consumes_script], [C06_fq_state_after_io_error],
      [C05_fq_io_error_then_seek_restores]: as for FASTA, for runs of [next].

    DEVIATIONS from the target statements: none weakened.  The third target theorem left its
    conclusion open ("True"); it is stated with [fa_run] / [fa_matches] over [FaStream], and a
    second time with [fa_smatches] over [skipn i (fa_spec inp)].  The example of the task text
    (read script [RDeliver 3; RFailI 7], capacity 4) does not return record a first: the first
    refill fills the 4-byte buffer with ">a\nA", the record is incomplete, the buffer grows
    and the SECOND refill hits the failure -- the first call returns the I/O error
    ([C05s_fa_example_first_call]).  With one more fault-free item the run is the one the task
    describes ([C05s_fa_example]). *)
From SeqIO Require Import Model.Base Model.Fasta Model.Fastq Model.Alloc Model.Views Spec.FastaSpec Spec.FastqSpec
     Proofs.Window Proofs.FastaScanP Proofs.FastaInv Proofs.FastaStream Proofs.FastaNextP Proofs.FastaTopP
     Proofs.FastaSetP Proofs.FastaSeekP Proofs.FinalErrP
     Proofs.FqSpecP Proofs.FastqInv Proofs.FastqNextP Proofs.FastqSetP Proofs.FastqSeekP
     Proofs.SeekAnyP.

(* ================================================================== *)
(** * FASTA *)

Theorem C05_fa_seek_restores_from_failure_states : forall inp ffuel r s line,
  s_data (src r) = inp ->
  (buf r = [] \/ st r = FNew) ->                       (* what an I/O error leaves behind *)
  no_fail (src r) -> seek_ok (src r) ->                (* the scripts are fault-free FROM HERE ON *)
  length (s_rs (src r)) + 2 <= ffuel -> 1 <= cap r -> PolOk (polf r) ->
  nth_error inp s = Some GT ->                         (* the target is the first byte of a header line *)
  exists r', fa_seek ffuel r line s = (r', OOk) /\ PosAt inp ffuel r' s s line /\ seek_ok (src r') /\ start r' = 0.
Proof. exact fa_seek_restores_from_failure_states. Qed.
Print Assumptions C05_fa_seek_restores_from_failure_states.

Theorem C05_fa_seek_from_failure_keeps : forall inp ffuel r s line,
  s_data (src r) = inp ->
  (buf r = [] \/ st r = FNew) ->
  no_fail (src r) -> seek_ok (src r) ->
  length (s_rs (src r)) + 2 <= ffuel -> 1 <= cap r -> PolOk (polf r) ->
  nth_error inp s = Some GT ->
  exists r', fa_seek ffuel r line s = (r', OOk) /\
             cap r' = cap r /\ polf r' = polf r /\ no_fail (src r') /\ length (s_rs (src r')) <= length (s_rs (src r)).
Proof. exact fa_seek_from_failure_keeps. Qed.
Print Assumptions C05_fa_seek_from_failure_keeps.

(** the first read after such a seek returns the target record, exactly as after a seek from a healthy state *)
Theorem C05_fa_seek_then_next_from_failure_states : forall inp ffuel fuel r s line,
  s_data (src r) = inp ->
  (buf r = [] \/ st r = FNew) ->
  no_fail (src r) -> seek_ok (src r) ->
  length (s_rs (src r)) + 2 <= ffuel -> 1 <= cap r -> PolOk (polf r) ->
  nth_error inp s = Some GT -> length inp < fuel ->
  exists r1 r2 off2, fa_seek ffuel r line s = (r1, OOk) /\ fa_position r1 = None /\
    fa_next fuel ffuel r1 = (r2, ORec (fa_cur r2)) /\
    AtRec inp ffuel r2 off2 s line (scan_abs inp (S s) []) /\
    RecAt inp (fa_cur r2) s (FastaNextP.ends_of (scan_abs inp (S s) [])).
Proof. exact fa_seek_then_next_from_failure. Qed.
Print Assumptions C05_fa_seek_then_next_from_failure_states.

(** what one call does to source, policy and capacity -- for EVERY reader state *)
Theorem C06_fa_calls_consume_script :
  (forall fuel ffuel r r' o, fa_next fuel ffuel r = (r', o) -> Stp (o_io o) r r') /\
  (forall fuel ffuel n r rs r' rs' o, fa_read_set fuel ffuel n r rs = (r', rs', o) -> Stp (o_io o) r r').
Proof. exact fa_calls_consume_script. Qed.
Print Assumptions C06_fa_calls_consume_script.

(** [Stp] in plain words *)
Theorem C06_Stp_plain_words : forall e r r', Stp e r r' <->
  s_data (src r') = s_data (src r) /\ s_ss (src r') = s_ss (src r) /\
  (exists pre, forallb item_ok pre = true /\
     s_rs (src r) = pre ++ match e with None => s_rs (src r') | Some k => RFailI k :: s_rs (src r') end) /\
  polf r' = polf r /\ cap r <= cap r'.
Proof. exact Stp_plain_words. Qed.
Print Assumptions C06_Stp_plain_words.

(** the state after the call that returned the I/O error, derived from the new reader and the run *)
Theorem C06_fa_state_after_io_error : forall inp cap0 rs1 k rs2 sks pol fuel ffuel j r,
  3 <= cap0 -> forallb item_ok rs1 = true -> forallb item_ok rs2 = true -> forallb FastaSeekP.sitem_ok sks = true ->
  let r0 := fa_new cap0 (mkSource inp 0 (rs1 ++ RFailI k :: rs2) sks) pol in
  fa_iter fuel ffuel j r0 = r -> 1 <= j ->
  forall k', snd (fa_next fuel ffuel (fa_iter fuel ffuel (j - 1) r0)) = OErr (FaIo k') ->
  k' = k /\ s_data (src r) = inp /\ (buf r = [] \/ st r = FNew) /\ s_rs (src r) = rs2 /\
  s_ss (src r) = sks /\ polf r = pol /\ cap0 <= cap r.
Proof. exact fa_state_after_io_error. Qed.
Print Assumptions C06_fa_state_after_io_error.

(** end to end: a concrete failure history, then the seek, then the whole rest of the stream *)
Theorem C05_fa_io_error_then_seek_restores : forall inp cap0 rs1 k rs2 sks pol fuel ffuel s line its m,
  (* a new reader whose read script fails once: rs1 ++ RFailI k :: rs2, rs1 and rs2 fault-free *)
  3 <= cap0 -> forallb item_ok rs1 = true -> forallb item_ok rs2 = true -> forallb FastaSeekP.sitem_ok sks = true -> PolOk pol ->
  length (rs1 ++ RFailI k :: rs2) + 2 <= ffuel -> length inp + 2 <= fuel -> nth_error inp s = Some GT ->
  FaStream inp s line its ->
  let r0 := fa_new cap0 (mkSource inp 0 (rs1 ++ RFailI k :: rs2) sks) pol in
  forall j r, (* r is the state after j calls of next, the last of which returned the I/O error *)
    fa_iter fuel ffuel j r0 = r -> snd (fa_next fuel ffuel (fa_iter fuel ffuel (j - 1) r0)) = OErr (FaIo k) -> 1 <= j ->
    exists r1, fa_seek ffuel r line s = (r1, OOk) /\ fa_position r1 = None /\
      Forall2 (fa_matches inp) (fa_run fuel ffuel m r1) (firstn m (map Some its ++ repeat None m)).
Proof. exact fa_io_error_then_seek_restores. Qed.
Print Assumptions C05_fa_io_error_then_seek_restores.

(** ... against the line-based specification: the target is record [i] of [fa_spec inp] *)
Theorem C05_fa_io_error_then_seek_restores_spec : forall inp cap0 rs1 k rs2 sks pol fuel ffuel i it m,
  3 <= cap0 -> forallb item_ok rs1 = true -> forallb item_ok rs2 = true -> forallb FastaSeekP.sitem_ok sks = true -> PolOk pol ->
  length (rs1 ++ RFailI k :: rs2) + 2 <= ffuel -> length inp + 2 <= fuel ->
  nth_error (fa_spec inp) i = Some (SRec it) ->
  let r0 := fa_new cap0 (mkSource inp 0 (rs1 ++ RFailI k :: rs2) sks) pol in
  forall j r,
    fa_iter fuel ffuel j r0 = r -> snd (fa_next fuel ffuel (fa_iter fuel ffuel (j - 1) r0)) = OErr (FaIo k) -> 1 <= j ->
    exists r1, fa_seek ffuel r (fi_line it) (fi_byte it) = (r1, OOk) /\ fa_position r1 = None /\
      Forall2 fa_smatches (fa_run fuel ffuel m r1) (firstn m (map Some (skipn i (fa_spec inp)) ++ repeat None m)).
Proof. exact fa_io_error_then_seek_restores_spec. Qed.
Print Assumptions C05_fa_io_error_then_seek_restores_spec.

(** any history, any entry point *)
Theorem C05_fa_healthy_new : forall inp cap0 rs1 k rs2 sks pol,
  1 <= cap0 -> forallb item_ok rs1 = true -> forallb FastaSeekP.sitem_ok sks = true -> PolOk pol ->
  HealthySrc inp k rs2 (fa_new cap0 (mkSource inp 0 (rs1 ++ RFailI k :: rs2) sks) pol).
Proof. exact HealthySrc_new. Qed.
Print Assumptions C05_fa_healthy_new.

Theorem C06_fa_call_healthy :
  (forall inp k rs2 r r' o, fa_call r r' o -> HealthySrc inp k rs2 r ->
     match o_io o with
     | None => HealthySrc inp k rs2 r'
     | Some k' => k' = k /\ FailState inp rs2 r'
     end) /\
  (forall inp k rs2 r p, PolOk p -> HealthySrc inp k rs2 r -> HealthySrc inp k rs2 (fa_set_policy r p)).
Proof. exact fa_call_healthy_both. Qed.
Print Assumptions C06_fa_call_healthy.

(** [HealthySrc], [FailState], [fa_call] in plain words *)
Theorem C06_healthy_plain_words :
  (forall inp k rs2 r, HealthySrc inp k rs2 r <->
     s_data (src r) = inp /\ seek_ok (src r) /\ PolOk (polf r) /\ 1 <= cap r /\
     exists pre, forallb item_ok pre = true /\ s_rs (src r) = pre ++ RFailI k :: rs2) /\
  (forall inp rs2 r, FailState inp rs2 r <->
     s_data (src r) = inp /\ (buf r = [] \/ st r = FNew) /\ s_rs (src r) = rs2 /\
     seek_ok (src r) /\ PolOk (polf r) /\ 1 <= cap r) /\
  (forall r r' o, fa_call r r' o <->
     (exists fuel ffuel, fa_next fuel ffuel r = (r', o)) \/
     (exists fuel ffuel n rs rs', fa_read_set fuel ffuel n r rs = (r', rs', o)) \/
     (exists ffuel line b, fa_seek ffuel r line b = (r', o))).
Proof. exact healthy_plain_words. Qed.
Print Assumptions C06_healthy_plain_words.

Theorem C05_fa_failed_call_then_seek : forall inp k rs2 r r' k' fuel ffuel s line its m,
  HealthySrc inp k rs2 r -> fa_call r r' (OErr (FaIo k')) ->
  forallb item_ok rs2 = true -> length rs2 + 2 <= ffuel -> length inp < fuel ->
  nth_error inp s = Some GT -> FaStream inp s line its ->
  k' = k /\
  exists r1, fa_seek ffuel r' line s = (r1, OOk) /\ PosAt inp ffuel r1 s s line /\ seek_ok (src r1) /\
    Forall2 (fa_matches inp) (fa_run fuel ffuel m r1) (firstn m (map Some its ++ repeat None m)).
Proof. exact fa_failed_call_then_seek. Qed.
Print Assumptions C05_fa_failed_call_then_seek.

(* ================================================================== *)
(** * FASTQ *)

Theorem C05_fq_seek_restores_from_failure_states : forall inp ffuel r line byte_,
  s_data (qsrc r) = inp ->
  (qbuf r = [] \/ qst r = QNew) ->
  no_fail (qsrc r) -> no_sfail (qsrc r) ->
  length (s_rs (qsrc r)) + 2 <= ffuel -> 1 <= qcap r -> PolOk1 (qpolf r) ->
  byte_ <= length inp ->
  exists r', fq_seek ffuel r line byte_ = (r', QOOk) /\
    HQ inp ffuel r' (fq_parse (skipn byte_ inp) line byte_) /\
    qst r' = QPositioned /\ fq_position r' = (line, byte_) /\ p0 r' = 0.
Proof. exact fq_seek_restores_from_failure_states. Qed.
Print Assumptions C05_fq_seek_restores_from_failure_states.

Theorem C05_fq_seek_then_next_from_failure_states : forall inp ffuel fuel r k it,
  s_data (qsrc r) = inp ->
  (qbuf r = [] \/ qst r = QNew) ->
  no_fail (qsrc r) -> no_sfail (qsrc r) ->
  length (s_rs (qsrc r)) + 2 <= ffuel -> 1 <= qcap r -> PolOk1 (qpolf r) ->
  nth_error (fq_spec_all inp) k = Some it -> length inp + 2 <= fuel ->
  exists r1 r2 o,
    fq_seek ffuel r (fst (coords it)) (snd (coords it)) = (r1, QOOk) /\
    HQ inp ffuel r1 (skipn k (fq_spec_all inp)) /\
    fq_next fuel ffuel r1 = (r2, o) /\ fq_position r2 = coords it /\
    NextOut inp ffuel (skipn k (fq_spec_all inp)) r2 o /\
    match it with
    | QRec i => exists rc, o = QORec rc /\ rec_at inp rc i
    | QErr e _ _ => o = QOErr (fq_err_of e)
    end.
Proof. exact fq_seek_then_next_from_failure. Qed.
Print Assumptions C05_fq_seek_then_next_from_failure_states.

Theorem C06_fq_next_consumes_script : forall fuel ffuel r r' o,
  fq_next fuel ffuel r = (r', o) -> QStp (qo_io o) r r'.
Proof. exact fq_next_step. Qed.
Print Assumptions C06_fq_next_consumes_script.

Theorem C06_QStp_plain_words : forall e r r', QStp e r r' <->
  s_data (qsrc r') = s_data (qsrc r) /\ s_ss (qsrc r') = s_ss (qsrc r) /\
  (exists pre, forallb item_ok pre = true /\
     s_rs (qsrc r) = pre ++ match e with None => s_rs (qsrc r') | Some k => RFailI k :: s_rs (qsrc r') end) /\
  qpolf r' = qpolf r /\ qcap r <= qcap r'.
Proof. exact QStp_plain_words. Qed.
Print Assumptions C06_QStp_plain_words.

Theorem C06_fq_state_after_io_error : forall inp cap0 rs1 k rs2 sks pol fuel ffuel j r,
  forallb item_ok rs1 = true -> forallb item_ok rs2 = true ->
  let r0 := fq_new cap0 (mkSource inp 0 (rs1 ++ RFailI k :: rs2) sks) pol in
  fq_iter fuel ffuel j r0 = r -> 1 <= j ->
  forall k', snd (fq_next fuel ffuel (fq_iter fuel ffuel (j - 1) r0)) = QOErr (FqIo k') ->
  k' = k /\ s_data (qsrc r) = inp /\ (qbuf r = [] \/ qst r = QNew) /\ s_rs (qsrc r) = rs2 /\
  s_ss (qsrc r) = sks /\ qpolf r = pol /\ cap0 <= qcap r.
Proof. exact fq_state_after_io_error. Qed.
Print Assumptions C06_fq_state_after_io_error.

Theorem C05_fq_io_error_then_seek_restores : forall inp cap0 rs1 k rs2 sks pol fuel ffuel i it m,
  1 <= cap0 -> forallb item_ok rs1 = true -> forallb item_ok rs2 = true -> forallb FastqSetP.sitem_ok sks = true -> PolOk1 pol ->
  length (rs1 ++ RFailI k :: rs2) + 2 <= ffuel -> length inp + 2 <= fuel ->
  nth_error (fq_spec_all inp) i = Some it ->
  let r0 := fq_new cap0 (mkSource inp 0 (rs1 ++ RFailI k :: rs2) sks) pol in
  forall j r,
    fq_iter fuel ffuel j r0 = r -> snd (fq_next fuel ffuel (fq_iter fuel ffuel (j - 1) r0)) = QOErr (FqIo k) -> 1 <= j ->
    exists r1, fq_seek ffuel r (fst (coords it)) (snd (coords it)) = (r1, QOOk) /\ fq_position r1 = coords it /\
      Forall2 (fq_matches inp) (fq_run fuel ffuel m r1) (firstn m (map Some (skipn i (fq_spec_all inp)) ++ repeat None m)).
Proof. exact fq_io_error_then_seek_restores. Qed.
Print Assumptions C05_fq_io_error_then_seek_restores.

(* ================================================================== *)
(** * Examples / non-vacuity *)

(** ">a\nAC\n>b\nG\n" *)
Definition c05s_inp : list byte := [62; 97; 10; 65; 67; 10; 62; 98; 10; 71; 10].
Definition c05s_rs1 : list ritem := [RDeliver 3; RDeliver 3].
Definition c05s_rs2 : list ritem := [RDeliver 0; RInterrupt].
Definition c05s_r0 : fa := fa_new 4 (mkSource c05s_inp 0 (c05s_rs1 ++ RFailI 7 :: c05s_rs2) []) pol_std.

(** capacity 4, read script [RDeliver 3; RDeliver 3; RFailI 7; RDeliver 0; RInterrupt]:
    [next] = record a; [next] = I/O error 7 (reader Finished, buffer empty, the rest of the
    script is left); [seek] to b's position (line 3, byte 6) = ok; [next] = record b with
    position (3, 6); [next] = end of input *)
Example C05s_fa_example :
  let c1 := fa_next 20 20 c05s_r0 in
  let c2 := fa_next 20 20 (fst c1) in
  let c3 := fa_seek 20 (fst c2) 3 6 in
  let c4 := fa_next 20 20 (fst c3) in
  let c5 := fa_next 20 20 (fst c4) in
  snd c1 = ORec (mkFaRec [62; 97; 10; 65; 67; 10; 62; 98] 0 [2; 5]) /\
  snd c2 = OErr (FaIo 7) /\ st (fst c2) = FFinished /\ buf (fst c2) = [] /\ s_rs (src (fst c2)) = c05s_rs2 /\
  snd c3 = OOk /\ buf (fst c3) = [62; 98; 10; 71; 10] /\ fa_position (fst c3) = None /\
  snd c4 = ORec (mkFaRec [62; 98; 10; 71; 10] 0 [2; 4]) /\ fa_position (fst c4) = Some (3, 6) /\
  snd c5 = ONone /\
  map (fun i => match i with SRec x => (fi_line x, fi_byte x) | _ => (0, 0) end) (fa_spec c05s_inp) = [(1, 0); (3, 6)].
Proof. vm_compute. repeat split; reflexivity. Qed.

(** [fa_iter .. 2 ..] is the state after these two calls *)
Example C05s_fa_iter_2 : fa_iter 20 20 2 c05s_r0 = fst (fa_next 20 20 (fst (fa_next 20 20 c05s_r0))).
Proof. reflexivity. Qed.

(** the script of the task text, [RDeliver 3; RFailI 7]: the FIRST call returns the error (the
    record does not fit the 4-byte buffer, the refill after growing fails); the reader is
    Finished with an empty buffer (although no record was ever returned); the seek and the
    reads after it behave as above *)
Example C05s_fa_example_first_call :
  let r0 := fa_new 4 (mkSource c05s_inp 0 [RDeliver 3; RFailI 7] []) pol_std in
  let c1 := fa_next 20 20 r0 in
  let c3 := fa_seek 20 (fst c1) 3 6 in
  let c4 := fa_next 20 20 (fst c3) in
  let c5 := fa_next 20 20 (fst c4) in
  snd c1 = OErr (FaIo 7) /\ st (fst c1) = FFinished /\ buf (fst c1) = [] /\
  snd c3 = OOk /\
  snd c4 = ORec (mkFaRec [62; 98; 10; 71; 10] 0 [2; 4]) /\ fa_position (fst c4) = Some (3, 6) /\
  snd c5 = ONone.
Proof. vm_compute. repeat split; reflexivity. Qed.

(** case (b): capacity 64, the first refill delivers 3 bytes and fails: the reader is still
    New with the partial buffer ">a\n"; the seek to b goes to the source; b, then the end *)
Example C05s_fa_example_new_state :
  let r0 := fa_new 64 (mkSource c05s_inp 0 [RDeliver 2; RFailI 8] []) pol_std in
  let c1 := fa_next 20 20 r0 in
  let c3 := fa_seek 20 (fst c1) 3 6 in
  let c4 := fa_next 20 20 (fst c3) in
  let c5 := fa_next 20 20 (fst c4) in
  snd c1 = OErr (FaIo 8) /\ st (fst c1) = FNew /\ buf (fst c1) = [62; 97; 10] /\
  snd c3 = OOk /\ buf (fst c3) = [62; 98; 10; 71; 10] /\
  snd c4 = ORec (mkFaRec [62; 98; 10; 71; 10] 0 [2; 4]) /\ fa_position (fst c4) = Some (3, 6) /\
  snd c5 = ONone.
Proof. vm_compute. repeat split; reflexivity. Qed.

(** non-vacuity of [C05_fa_seek_restores_from_failure_states]: the reader after the failed second
    call is a non-trivial failure state (Finished, source position 8, a read script left) that
    meets every hypothesis; so does the New reader with its partial buffer *)
Example C05s_fa_hypotheses_satisfiable :
  let r := fa_iter 20 20 2 c05s_r0 in
  s_data (src r) = c05s_inp /\ (buf r = [] \/ st r = FNew) /\ no_fail (src r) /\ seek_ok (src r) /\
  length (s_rs (src r)) + 2 <= 20 /\ 1 <= cap r /\ PolOk (polf r) /\ nth_error c05s_inp 6 = Some GT /\
  st r = FFinished /\ s_pos (src r) = 8 /\ s_rs (src r) = c05s_rs2 /\ cap r = 8.
Proof.
  cbv zeta. unfold c05s_r0.
  destruct (C06_fa_state_after_io_error c05s_inp 4 c05s_rs1 7 c05s_rs2 [] pol_std 20 20 2 _
              ltac:(lia) eq_refl eq_refl eq_refl eq_refl ltac:(lia) 7 ltac:(vm_compute; reflexivity))
    as (_ & Hd & Hfs & Hrs & Hss & Hpf & Hc).
  split; [exact Hd|]. split; [exact Hfs|]. split; [unfold no_fail; rewrite Hrs; reflexivity|].
  split; [unfold seek_ok; rewrite Hss; reflexivity|]. split; [rewrite Hrs; cbn; lia|]. split; [lia|].
  split; [rewrite Hpf; exact PolOk_std|]. split; [reflexivity|].
  vm_compute. repeat split; reflexivity.
Qed.

Example C05s_fa_hypotheses_satisfiable_new :
  let r := fst (fa_next 20 20 (fa_new 64 (mkSource c05s_inp 0 ([RDeliver 2] ++ RFailI 8 :: [RInterrupt]) []) pol_std)) in
  s_data (src r) = c05s_inp /\ (buf r = [] \/ st r = FNew) /\ no_fail (src r) /\ seek_ok (src r) /\
  length (s_rs (src r)) + 2 <= 20 /\ 1 <= cap r /\ PolOk (polf r) /\ nth_error c05s_inp 6 = Some GT /\
  st r = FNew /\ buf r = [62; 97; 10] /\ s_pos (src r) = 3.
Proof.
  cbv zeta.
  destruct (C06_fa_state_after_io_error c05s_inp 64 [RDeliver 2] 8 [RInterrupt] [] pol_std 20 20 1 _
              ltac:(lia) eq_refl eq_refl eq_refl eq_refl ltac:(lia) 8 ltac:(vm_compute; reflexivity))
    as (_ & Hd & Hfs & Hrs & Hss & Hpf & Hc).
  cbn [fa_iter] in *.
  split; [exact Hd|]. split; [exact Hfs|]. split; [unfold no_fail; rewrite Hrs; reflexivity|].
  split; [unfold seek_ok; rewrite Hss; reflexivity|]. split; [rewrite Hrs; cbn; lia|]. split; [lia|].
  split; [rewrite Hpf; exact PolOk_std|]. split; [reflexivity|].
  vm_compute. repeat split; reflexivity.
Qed.

(** the end-to-end theorems apply to the run of [C05s_fa_example] (j = 2, target = record 1 of
    the specification): their conclusions are inhabited *)
Example C05s_fa_end_to_end_instance :
  exists r1, fa_seek 20 (fa_iter 20 20 2 c05s_r0) 3 6 = (r1, OOk) /\ fa_position r1 = None /\
    Forall2 fa_smatches (fa_run 20 20 3 r1) (firstn 3 (map Some (skipn 1 (fa_spec c05s_inp)) ++ repeat None 3)).
Proof.
  apply (C05_fa_io_error_then_seek_restores_spec c05s_inp 4 c05s_rs1 7 c05s_rs2 [] pol_std 20 20 1
           (mkFaItem [98] [[71]] 3 6) 3) with (j := 2);
    [lia | reflexivity | reflexivity | reflexivity | exact PolOk_std | cbn; lia | cbn; lia
    | vm_compute; reflexivity | reflexivity | vm_compute; reflexivity | lia].
Qed.

Example C05s_fa_end_to_end_instance_stream :
  FaStream c05s_inp 6 3 [(6, 3, [8; 10])] /\
  exists r1, fa_seek 20 (fa_iter 20 20 2 c05s_r0) 3 6 = (r1, OOk) /\ fa_position r1 = None /\
    Forall2 (fa_matches c05s_inp) (fa_run 20 20 3 r1) (firstn 3 (map Some [(6, 3, [8; 10])] ++ repeat None 3)).
Proof.
  assert (Hst : FaStream c05s_inp 6 3 [(6, 3, [8; 10])]) by (apply (FS_last c05s_inp 6 3 10 [8]); vm_compute; reflexivity).
  split; [exact Hst|].
  apply (C05_fa_io_error_then_seek_restores c05s_inp 4 c05s_rs1 7 c05s_rs2 [] pol_std 20 20 6 3 _ 3) with (j := 2);
    [lia | reflexivity | reflexivity | reflexivity | exact PolOk_std | cbn; lia | cbn; lia
    | reflexivity | exact Hst | reflexivity | vm_compute; reflexivity | lia].
Qed.

(** other entry points: a set read returns record a (the source stays healthy), the next set
    read hits the failure; a seek whose refill fails.  Then the seek to b restores the stream *)
Example C05s_fa_example_set_and_seek :
  let s1 := fa_read_set 20 20 None c05s_r0 fa_set_empty in
  let s2 := fa_read_set 20 20 None (fst (fst s1)) fa_set_empty in
  let c3 := fa_seek 20 (fst (fst s2)) 3 6 in
  snd s1 = OSetOk /\ length (fa_set_records (snd (fst s1))) = 1 /\
  snd s2 = OErr (FaIo 7) /\ st (fst (fst s2)) = FFinished /\ buf (fst (fst s2)) = [] /\
  snd c3 = OOk /\ snd (fa_next 20 20 (fst c3)) = ORec (mkFaRec [62; 98; 10; 71; 10] 0 [2; 4]) /\
  (* a seek beyond the buffer after the first record: the source seek succeeds, the refill fails *)
  let c1 := fa_next 20 20 c05s_r0 in
  let k2 := fa_seek 20 (fst c1) 4 9 in
  let k3 := fa_seek 20 (fst k2) 3 6 in
  snd k2 = OErr (FaIo 7) /\ st (fst k2) = FFinished /\ buf (fst k2) = [] /\
  snd k3 = OOk /\ snd (fa_next 20 20 (fst k3)) = ORec (mkFaRec [62; 98; 10; 71; 10] 0 [2; 4]).
Proof. vm_compute. repeat split; reflexivity. Qed.

(** [C05_fa_failed_call_then_seek] applies to the failing SET READ of the example: the new reader
    is healthy, the first set read (no I/O error) keeps it healthy, the second returns the error *)
Example C05s_fa_failed_set_read_instance :
  let r := fst (fst (fa_read_set 20 20 None c05s_r0 fa_set_empty)) in
  let r' := fst (fst (fa_read_set 20 20 None r fa_set_empty)) in
  HealthySrc c05s_inp 7 c05s_rs2 r /\
  exists r1, fa_seek 20 r' 3 6 = (r1, OOk) /\ PosAt c05s_inp 20 r1 6 6 3 /\ seek_ok (src r1) /\
    Forall2 (fa_matches c05s_inp) (fa_run 20 20 3 r1) (firstn 3 (map Some [(6, 3, [8; 10])] ++ repeat None 3)).
Proof.
  cbv zeta.
  assert (H0 : HealthySrc c05s_inp 7 c05s_rs2 c05s_r0)
    by (apply C05_fa_healthy_new; [lia | reflexivity | reflexivity | exact PolOk_std]).
  assert (Ho1 : snd (fa_read_set 20 20 None c05s_r0 fa_set_empty) = OSetOk) by (vm_compute; reflexivity).
  destruct (fa_read_set 20 20 None c05s_r0 fa_set_empty) as [[r rs1] o1] eqn:E1. cbn [fst snd] in *. subst o1.
  pose proof (proj1 C06_fa_call_healthy c05s_inp 7 c05s_rs2 c05s_r0 r OSetOk (FC_set _ _ _ _ _ _ _ _ E1) H0) as H1.
  cbn [o_io] in H1. split; [exact H1|].
  assert (Ho2 : snd (fa_read_set 20 20 None r fa_set_empty) = OErr (FaIo 7)).
  { replace r with (fst (fst (fa_read_set 20 20 None c05s_r0 fa_set_empty))) by (rewrite E1; reflexivity).
    vm_compute. reflexivity. }
  destruct (fa_read_set 20 20 None r fa_set_empty) as [[r' rs2] o2] eqn:E2. cbn [fst snd] in *. subst o2.
  assert (Hst : FaStream c05s_inp 6 3 [(6, 3, [8; 10])]) by (apply (FS_last c05s_inp 6 3 10 [8]); vm_compute; reflexivity).
  destruct (C05_fa_failed_call_then_seek c05s_inp 7 c05s_rs2 r r' 7 20 20 6 3 [(6, 3, [8; 10])] 3 H1 (FC_set _ _ _ _ _ _ _ _ E2))
    as (_ & Hex); [reflexivity | cbn; lia | cbn; lia | reflexivity | exact Hst | exact Hex].
Qed.

(* ------------------------------------------------------------------ *)
(** FASTQ: "@a\nAC\n+\nII\n@b\nG\n+\nI\n", capacity 12, read script [RDeliver 11; RFailI 4; RDeliver 1] *)
Definition c05s_qinp : list byte :=
  [64; 97; 10; 65; 67; 10; 43; 10; 73; 73; 10; 64; 98; 10; 71; 10; 43; 10; 73; 10].
Definition c05s_q0 : fq := fq_new 12 (mkSource c05s_qinp 0 ([RDeliver 11] ++ RFailI 4 :: [RDeliver 1]) []) pol_std.

(** [next] = record a; [next] = I/O error 4 (Finished, buffer empty); [seek] to b's coordinates
    (line 5, byte 11) = ok; [next] = record b; [next] = end of input *)
Example C05s_fq_example :
  let c1 := fq_next 30 30 c05s_q0 in
  let c2 := fq_next 30 30 (fst c1) in
  let c3 := fq_seek 30 (fst c2) 5 11 in
  let c4 := fq_next 30 30 (fst c3) in
  let c5 := fq_next 30 30 (fst c4) in
  (exists rc, snd c1 = QORec rc) /\
  snd c2 = QOErr (FqIo 4) /\ qst (fst c2) = QFinished /\ qbuf (fst c2) = [] /\ s_rs (qsrc (fst c2)) = [RDeliver 1] /\
  snd c3 = QOOk /\ qbuf (fst c3) = [64; 98; 10; 71; 10; 43; 10; 73; 10] /\ fq_position (fst c3) = (5, 11) /\
  snd c4 = QORec (mkFqRec [64; 98; 10; 71; 10; 43; 10; 73; 10] 0 8 3 5 7) /\ fq_position (fst c4) = (5, 11) /\
  snd c5 = QONone /\
  map coords (fq_spec_all c05s_qinp) = [(1, 0); (5, 11)].
Proof. vm_compute. repeat split; try reflexivity. eexists; reflexivity. Qed.

Example C05s_fq_iter_2 : fq_iter 30 30 2 c05s_q0 = fst (fq_next 30 30 (fst (fq_next 30 30 c05s_q0))).
Proof. reflexivity. Qed.

(** case (b) for FASTQ: capacity 64, the first refill delivers 14 bytes and fails: still New,
    partial buffer; the seek to b goes to the source *)
Example C05s_fq_example_new_state :
  let r0 := fq_new 64 (mkSource c05s_qinp 0 [RDeliver 13; RFailI 4] []) pol_std in
  let c1 := fq_next 30 30 r0 in
  let c3 := fq_seek 30 (fst c1) 5 11 in
  let c4 := fq_next 30 30 (fst c3) in
  snd c1 = QOErr (FqIo 4) /\ qst (fst c1) = QNew /\ length (qbuf (fst c1)) = 14 /\
  snd c3 = QOOk /\
  snd c4 = QORec (mkFqRec [64; 98; 10; 71; 10; 43; 10; 73; 10] 0 8 3 5 7) /\
  snd (fq_next 30 30 (fst c4)) = QONone.
Proof. vm_compute. repeat split; reflexivity. Qed.

(** the reader after the failed call meets every hypothesis of the FASTQ seek theorem *)
Example C05s_fq_hypotheses_satisfiable :
  let r := fq_iter 30 30 2 c05s_q0 in
  s_data (qsrc r) = c05s_qinp /\ (qbuf r = [] \/ qst r = QNew) /\ no_fail (qsrc r) /\ no_sfail (qsrc r) /\
  length (s_rs (qsrc r)) + 2 <= 30 /\ 1 <= qcap r /\ PolOk1 (qpolf r) /\ 11 <= length c05s_qinp /\
  qst r = QFinished /\ s_pos (qsrc r) = 12 /\ s_rs (qsrc r) = [RDeliver 1].
Proof.
  cbv zeta. unfold c05s_q0.
  destruct (C06_fq_state_after_io_error c05s_qinp 12 [RDeliver 11] 4 [RDeliver 1] [] pol_std 30 30 2 _
              eq_refl eq_refl eq_refl ltac:(lia) 4 ltac:(vm_compute; reflexivity))
    as (_ & Hd & Hfs & Hrs & Hss & Hpf & Hc).
  split; [exact Hd|]. split; [exact Hfs|]. split; [unfold no_fail; rewrite Hrs; reflexivity|].
  split; [unfold no_sfail; rewrite Hss; reflexivity|]. split; [rewrite Hrs; cbn; lia|]. split; [lia|].
  split; [rewrite Hpf; exact PolOk1_std|]. split; [cbn; lia|].
  vm_compute. repeat split; reflexivity.
Qed.

Example C05s_fq_end_to_end_instance :
  exists r1, fq_seek 30 (fq_iter 30 30 2 c05s_q0) 5 11 = (r1, QOOk) /\ fq_position r1 = (5, 11) /\
    Forall2 (fq_matches c05s_qinp) (fq_run 30 30 3 r1)
            (firstn 3 (map Some (skipn 1 (fq_spec_all c05s_qinp)) ++ repeat None 3)).
Proof.
  apply (C05_fq_io_error_then_seek_restores c05s_qinp 12 [RDeliver 11] 4 [RDeliver 1] [] pol_std 30 30 1
           (QRec (mkFqItem [98] [71] [73] 5 11)) 3) with (j := 2);
    [lia | reflexivity | reflexivity | reflexivity | exact PolOk1_std | cbn; lia | cbn; lia
    | vm_compute; reflexivity | reflexivity | vm_compute; reflexivity | lia].
Qed.
