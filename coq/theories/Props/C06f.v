(** C06 (after an I/O error) — what an I/O error leaves behind, for EVERY reader state,
    policy, capacity, input and read/seek fault script.

    - An I/O error returned by [seek] is either the failed SOURCE SEEK -- then nothing but the
      source and the log changed, the reader is where it was -- or the failed REFILL after a
      successful source seek -- then the reader is [Finished].
    - An I/O error returned by [next] / [read_record_set] comes from a failed refill: inside
      the search loop ([resume_incomplete_search]) it finishes the reader; inside the
      initialisation ([init] / [first_byte], reader still [New]) it leaves the reader [New],
      and the call can simply be repeated.
    - A finished reader returns end of input from every later [next] / [read_record_set]:
      no panic, no truncated or fabricated record after the error.
    Statements only; proofs are in Proofs/FinalErrP.v (and SeqLinesP.v for the sticky end). *)
From SeqIO Require Import Model.Base Model.Fasta Model.Fastq Proofs.SeqLinesP Proofs.TraceP Proofs.FaultP Proofs.FinalErrP.

(* ================================================================== *)
(** * FASTA *)

Theorem C06_fa_seek_io_error_cases : forall ffuel r line byte_ r' k,
  fa_seek ffuel r line byte_ = (r', OErr (FaIo k)) ->
  (* the source seek failed: only source and log changed *)
  (log r' = EvSeek byte_ (Some k) :: log r /\ r' = set_log (set_src r (src r')) (log r')) \/
  (* the refill after the seek failed: the reader is finished *)
  (exists off rest, log r' = EvRead off (RFailed k) :: rest ++ EvSeek byte_ None :: log r /\
                    st r' = FFinished /\ buf r' = []).
Proof. exact fa_seek_io_state. Qed.
Print Assumptions C06_fa_seek_io_error_cases.

Theorem C06_fa_seek_refill_error_final : forall ffuel r line byte_ r' k off rest,
  fa_seek ffuel r line byte_ = (r', OErr (FaIo k)) -> log r' = EvRead off (RFailed k) :: rest ->
  st r' = FFinished /\
  (forall fuel ffuel2, fa_next fuel ffuel2 r' = (r', ONone)) /\
  (forall fuel ffuel2 n rs, fa_read_set fuel ffuel2 n r' rs = (r', rs, ONone)).
Proof. exact fa_seek_refill_error_final. Qed.
Print Assumptions C06_fa_seek_refill_error_final.

Theorem C06_fa_next_io_error_state : forall fuel ffuel r r' k,
  fa_next fuel ffuel r = (r', OErr (FaIo k)) ->
  (st r = FNew /\ st r' = FNew) \/ st r' = FFinished.
Proof. exact fa_next_io_state. Qed.
Print Assumptions C06_fa_next_io_error_state.

Theorem C06_fa_read_set_io_error_state : forall fuel ffuel n r rs r' rs' k,
  fa_read_set fuel ffuel n r rs = (r', rs', OErr (FaIo k)) ->
  (st r = FNew /\ st r' = FNew) \/ st r' = FFinished.
Proof. exact fa_read_set_io_state. Qed.
Print Assumptions C06_fa_read_set_io_error_state.

(** the error raised inside the search loop is final *)
Theorem C06_fa_resume_io_error_finishes : forall ffuel mk fuel r r' k,
  fa_resume fuel ffuel mk r = (r', RsErr (FaIo k)) -> st r' = FFinished /\ buf r' = [].
Proof. exact fa_resume_io_state. Qed.
Print Assumptions C06_fa_resume_io_error_finishes.

(** the error raised inside the initialisation is not: the reader is unchanged in kind *)
Theorem C06_fa_init_io_error_keeps_state : forall fuel ffuel r r' k,
  fa_init fuel ffuel r = (r', IErr (FaIo k)) -> st r' = st r.
Proof. exact fa_init_io_state. Qed.
Print Assumptions C06_fa_init_io_error_keeps_state.

Theorem C06_fa_next_io_error_final : forall fuel ffuel r r' k,
  fa_next fuel ffuel r = (r', OErr (FaIo k)) -> st r <> FNew ->
  st r' = FFinished /\
  (forall fuel2 ffuel2, fa_next fuel2 ffuel2 r' = (r', ONone)) /\
  (forall fuel2 ffuel2 n rs, fa_read_set fuel2 ffuel2 n r' rs = (r', rs, ONone)).
Proof. exact fa_next_io_error_final. Qed.
Print Assumptions C06_fa_next_io_error_final.

Theorem C06_fa_read_set_io_error_final : forall fuel ffuel n r rs r' rs' k,
  fa_read_set fuel ffuel n r rs = (r', rs', OErr (FaIo k)) -> st r <> FNew ->
  st r' = FFinished /\
  (forall fuel2 ffuel2, fa_next fuel2 ffuel2 r' = (r', ONone)) /\
  (forall fuel2 ffuel2 n2 rs2, fa_read_set fuel2 ffuel2 n2 r' rs2 = (r', rs2, ONone)).
Proof. exact fa_read_set_io_error_final. Qed.
Print Assumptions C06_fa_read_set_io_error_final.

(** the end is sticky for record sets too *)
Theorem C06_fa_read_set_finished_sticky : forall fuel ffuel n r rs,
  st r = FFinished -> fa_read_set fuel ffuel n r rs = (r, rs, ONone).
Proof. exact fa_read_set_finished_sticky. Qed.
Print Assumptions C06_fa_read_set_finished_sticky.

(* ================================================================== *)
(** * FASTQ *)

Theorem C06_fq_seek_io_error_cases : forall ffuel r line byte_ r' k,
  fq_seek ffuel r line byte_ = (r', QOErr (FqIo k)) ->
  (qlog r' = EvSeek byte_ (Some k) :: qlog r /\ r' = qset_log (qset_src r (qsrc r')) (qlog r')) \/
  (exists off rest, qlog r' = EvRead off (RFailed k) :: rest ++ EvSeek byte_ None :: qlog r /\
                    qst r' = QFinished /\ qbuf r' = []).
Proof. exact fq_seek_io_state. Qed.
Print Assumptions C06_fq_seek_io_error_cases.

Theorem C06_fq_seek_refill_error_final : forall ffuel r line byte_ r' k off rest,
  fq_seek ffuel r line byte_ = (r', QOErr (FqIo k)) -> qlog r' = EvRead off (RFailed k) :: rest ->
  qst r' = QFinished /\
  (forall fuel ffuel2, fq_next fuel ffuel2 r' = (r', QONone)) /\
  (forall fuel ffuel2 n rs, fq_read_set fuel ffuel2 n r' rs = (r', rs, QONone)).
Proof. exact fq_seek_refill_error_final. Qed.
Print Assumptions C06_fq_seek_refill_error_final.

Theorem C06_fq_next_io_error_state : forall fuel ffuel r r' k,
  fq_next fuel ffuel r = (r', QOErr (FqIo k)) ->
  (qst r = QNew /\ qst r' = QNew) \/ qst r' = QFinished.
Proof. exact fq_next_io_state. Qed.
Print Assumptions C06_fq_next_io_error_state.

Theorem C06_fq_read_set_io_error_state : forall fuel ffuel n r rs r' rs' k,
  fq_read_set fuel ffuel n r rs = (r', rs', QOErr (FqIo k)) ->
  (qst r = QNew /\ qst r' = QNew) \/ qst r' = QFinished.
Proof. exact fq_read_set_io_state. Qed.
Print Assumptions C06_fq_read_set_io_error_state.

Theorem C06_fq_resume_io_error_finishes : forall ffuel mk fuel s r r' k,
  fq_resume fuel ffuel s mk r = (r', QrErr (FqIo k)) -> qst r' = QFinished /\ qbuf r' = [].
Proof. exact fq_resume_io_state. Qed.
Print Assumptions C06_fq_resume_io_error_finishes.

Theorem C06_fq_next_io_error_final : forall fuel ffuel r r' k,
  fq_next fuel ffuel r = (r', QOErr (FqIo k)) -> qst r <> QNew ->
  qst r' = QFinished /\
  (forall fuel2 ffuel2, fq_next fuel2 ffuel2 r' = (r', QONone)) /\
  (forall fuel2 ffuel2 n rs, fq_read_set fuel2 ffuel2 n r' rs = (r', rs, QONone)).
Proof. exact fq_next_io_error_final. Qed.
Print Assumptions C06_fq_next_io_error_final.

Theorem C06_fq_read_set_io_error_final : forall fuel ffuel n r rs r' rs' k,
  fq_read_set fuel ffuel n r rs = (r', rs', QOErr (FqIo k)) -> qst r <> QNew ->
  qst r' = QFinished /\
  (forall fuel2 ffuel2, fq_next fuel2 ffuel2 r' = (r', QONone)) /\
  (forall fuel2 ffuel2 n2 rs2, fq_read_set fuel2 ffuel2 n2 r' rs2 = (r', rs2, QONone)).
Proof. exact fq_read_set_io_error_final. Qed.
Print Assumptions C06_fq_read_set_io_error_final.

Theorem C06_fq_read_set_finished_sticky : forall fuel ffuel n r rs,
  qst r = QFinished -> fq_read_set fuel ffuel n r rs = (r, rs, QONone).
Proof. exact fq_read_set_finished_sticky. Qed.
Print Assumptions C06_fq_read_set_finished_sticky.

(* ================================================================== *)
(** * the incomplete buffer is dropped; a later seek cannot position into it *)

(** after an I/O error from a failed refill the buffer is empty: [next] / [read_record_set]
    (the reader is either still [New] -- error in the initialisation, buffer kept, call
    repeatable -- or finished with an empty buffer); for [seek] see the [..._io_error_cases] above *)
Theorem C06_fa_next_io_error_drops_buffer : forall fuel ffuel r r' k,
  fa_next fuel ffuel r = (r', OErr (FaIo k)) ->
  (st r = FNew /\ st r' = FNew) \/ (st r' = FFinished /\ buf r' = []).
Proof. exact fa_next_io_buffer. Qed.
Print Assumptions C06_fa_next_io_error_drops_buffer.

Theorem C06_fa_read_set_io_error_drops_buffer : forall fuel ffuel n r rs r' rs' k,
  fa_read_set fuel ffuel n r rs = (r', rs', OErr (FaIo k)) ->
  (st r = FNew /\ st r' = FNew) \/ (st r' = FFinished /\ buf r' = []).
Proof. exact fa_read_set_io_buffer. Qed.
Print Assumptions C06_fa_read_set_io_error_drops_buffer.

Theorem C06_fq_next_io_error_drops_buffer : forall fuel ffuel r r' k,
  fq_next fuel ffuel r = (r', QOErr (FqIo k)) ->
  (qst r = QNew /\ qst r' = QNew) \/ (qst r' = QFinished /\ qbuf r' = []).
Proof. exact fq_next_io_buffer. Qed.
Print Assumptions C06_fq_next_io_error_drops_buffer.

Theorem C06_fq_read_set_io_error_drops_buffer : forall fuel ffuel n r rs r' rs' k,
  fq_read_set fuel ffuel n r rs = (r', rs', QOErr (FqIo k)) ->
  (qst r = QNew /\ qst r' = QNew) \/ (qst r' = QFinished /\ qbuf r' = []).
Proof. exact fq_read_set_io_buffer. Qed.
Print Assumptions C06_fq_read_set_io_error_drops_buffer.

(** with an empty buffer no target is "inside the buffer": [seek] never takes the in-buffer
    shortcut, it calls the source's seek (logs an [EvSeek] event) for EVERY target *)
Theorem C06_fa_seek_after_refill_error_reads_again : forall ffuel r line byte_, buf r = [] ->
  exists added, log (fst (fa_seek ffuel r line byte_)) =
                added ++ EvSeek byte_ (snd (src_seek (src r) byte_)) :: log r.
Proof. exact fa_seek_empty_buffer_seeks_source. Qed.
Print Assumptions C06_fa_seek_after_refill_error_reads_again.

Theorem C06_fq_seek_after_refill_error_reads_again : forall ffuel r line byte_, qbuf r = [] ->
  exists added, qlog (fst (fq_seek ffuel r line byte_)) =
                added ++ EvSeek byte_ (snd (src_seek (qsrc r) byte_)) :: qlog r.
Proof. exact fq_seek_empty_buffer_seeks_source. Qed.
Print Assumptions C06_fq_seek_after_refill_error_reads_again.

(* ================================================================== *)
(** * non-vacuity *)

(** a seek whose source seek succeeds and whose refill fails (kind 6): final *)
Example C06_fa_seek_refill_example :
  let r := fa_new 4 (mkSource c14_fa_input 0 [RFailI 6] []) pol_std in
  let c := fa_seek 30 r 3 8 in
  snd c = OErr (FaIo 6) /\ log (fst c) = [EvRead 4 (RFailed 6); EvSeek 8 None] /\ st (fst c) = FFinished /\
  snd (fa_next 30 30 (fst c)) = ONone /\ snd (fa_read_set 30 30 None (fst c) fa_set_empty) = ONone.
Proof. vm_compute. repeat split; reflexivity. Qed.

(** a seek whose source seek fails (kind 9): the reader is where it was and goes on *)
Example C06_fa_seek_source_error_example :
  let r1 := fst (fa_next 30 30 (fa_new 4 (mkSource c14_fa_input 0 [] [SFailI 9]) pol_std)) in
  let c := fa_seek 30 r1 3 100 in
  snd c = OErr (FaIo 9) /\ log (fst c) = EvSeek 100 (Some 9) :: log r1 /\ st (fst c) = st r1 /\
  (exists rc, snd (fa_next 30 30 (fst c)) = ORec rc).
Proof. vm_compute. repeat split; try reflexivity. eexists; reflexivity. Qed.

(** [next] on a started reader: the failed refill in mid-record is final;
    on a new reader whose very first refill fails: still [New], the repeated call succeeds *)
Example C06_fa_next_io_example :
  let r1 := fst (fa_next 30 30 (fa_new 9 (mkSource c14_fa_input 0 [RDeliver 9; RFailI 4] []) pol_std)) in
  st r1 = FParsing /\ snd (fa_next 30 30 r1) = OErr (FaIo 4) /\ st (fst (fa_next 30 30 r1)) = FFinished /\
  snd (fa_read_set 30 30 None r1 fa_set_empty) = OErr (FaIo 4) /\
  let r0 := fa_new 4 (mkSource c14_fa_input 0 [RFailI 6] []) pol_std in
  snd (fa_next 30 30 r0) = OErr (FaIo 6) /\ st (fst (fa_next 30 30 r0)) = FNew /\
  (exists rc, snd (fa_next 30 30 (fst (fa_next 30 30 r0))) = ORec rc).
Proof. vm_compute. repeat split; try reflexivity. eexists; reflexivity. Qed.

Example C06_fq_seek_refill_example :
  let c := fq_seek 30 (fq_new 4 (mkSource c14_fq_input 0 [RFailI 6] []) pol_std) 5 11 in
  snd c = QOErr (FqIo 6) /\ qlog (fst c) = [EvRead 4 (RFailed 6); EvSeek 11 None] /\ qst (fst c) = QFinished /\
  snd (fq_next 30 30 (fst c)) = QONone /\ snd (fq_read_set 30 30 None (fst c) fq_set_empty) = QONone.
Proof. vm_compute. repeat split; reflexivity. Qed.

Example C06_fq_next_io_example :
  let r1 := fst (fq_next 30 30 (fq_new 12 (mkSource c14_fq_input 0 [RDeliver 11; RFailI 4] []) pol_std)) in
  qst r1 = QParsing /\ snd (fq_next 30 30 r1) = QOErr (FqIo 4) /\ qst (fst (fq_next 30 30 r1)) = QFinished /\
  snd (fq_next 30 30 (fst (fq_next 30 30 r1))) = QONone /\
  snd (fq_read_set 30 30 None r1 fq_set_empty) = QOErr (FqIo 4) /\
  let r0 := fq_new 4 (mkSource c14_fq_input 0 [RFailI 6] []) pol_std in
  snd (fq_next 30 30 r0) = QOErr (FqIo 6) /\ qst (fst (fq_next 30 30 r0)) = QNew.
Proof. vm_compute. repeat split; reflexivity. Qed.

(** after the failed refill in mid-record the buffer is empty; a seek back to the first
    record (byte 0, which WAS in the buffer before the error) goes to the source and the
    reader delivers the records again *)
Example C06_fa_seek_after_refill_error_example :
  let r1 := fst (fa_next 30 30 (fa_new 9 (mkSource c14_fa_input 0 [RDeliver 9; RFailI 4] []) pol_std)) in
  let r2 := fst (fa_next 30 30 r1) in
  snd (fa_next 30 30 r1) = OErr (FaIo 4) /\ buf r2 = [] /\ st r2 = FFinished /\
  let c := fa_seek 30 r2 1 0 in
  snd c = OOk /\ new_events (log (fst c)) (log r2) = [EvRead 9 (RData 9); EvSeek 0 None] /\
  (exists rc, snd (fa_next 30 30 (fst c)) = ORec rc).
Proof. vm_compute. repeat split; try reflexivity. eexists; reflexivity. Qed.

Example C06_fq_seek_after_refill_error_example :
  let r1 := fst (fq_next 30 30 (fq_new 12 (mkSource c14_fq_input 0 [RDeliver 11; RFailI 4] []) pol_std)) in
  let r2 := fst (fq_next 30 30 r1) in
  snd (fq_next 30 30 r1) = QOErr (FqIo 4) /\ qbuf r2 = [] /\ qst r2 = QFinished /\
  let c := fq_seek 30 r2 1 0 in
  snd c = QOOk /\ hd_error (rev (new_events (qlog (fst c)) (qlog r2))) = Some (EvSeek 0 None) /\
  (exists rc, snd (fq_next 30 30 (fst c)) = QORec rc).
Proof. vm_compute. repeat split; try reflexivity. eexists; reflexivity. Qed.
