(** C06 — "No byte string, buffer capacity, read chunking or sequence of calls — reads of
    any kind, seeks to record positions, iteration over returned records and record sets,
    including calls made after an error or after end of input — makes the readers ...
    return a record that is not a record of the input.  After an error has been returned,
    later reads return end of input, an error, or further genuine records in order, never
    corrupt data."   FASTA reader, the unifying theorem.  Statements only; proofs in
    Proofs/GenuineP.v.

    WHAT IS PROVED, in plain words.  Take ANY input, any capacity >= 3, any policy that
    never refuses, ANY read script and ANY seek script of the byte source (short reads,
    interrupts, and FAILURES of reads and of seeks anywhere, any number of them), and ANY
    history of operations on one reader and two record sets: [next], owned reads
    ([next] + [to_owned_record]), [read_record_set], [read_record_set_exact n] (n >= 1),
    re-iteration of a record set, [position], seeks to the positions of records of the
    input — including everything that is called after an I/O error or after the end of
    input was reported.  Then ([C06_fa_every_returned_record_is_genuine]):
      - every borrowed record that [next] returns SHOWS a record [x] of the specification
        [fa_spec inp] ([RecShows]: the view is a window of the input at the offsets of
        the stream item that is, in header, sequence lines, line number and byte offset,
        the record [x]; by [C06_RecShows_views] its accessors return [fi_head x],
        [fi_lines x] and its owned copy is the owned copy of [x]);
      - every owned record is the owned copy of a record of [fa_records inp], and
        [to_owned_record] never panics;
      - every record of every record set that a set read fills, and every record that a
        re-iteration of either set shows — also after later calls failed — shows a record
        of [fa_spec inp];
      - no operation panics or runs out of fuel.
    So whatever else an operation returns is end of input, an error, a successful seek,
    or a position.  [C06_fa_returned_records_in_order]: between two seeks (in any part
    [ops2] of a history that contains no seek, after any history [ops1]) the records
    delivered by the reads — borrowed, owned and in sets, in the order of delivery — are
    records of [fa_spec inp] with STRICTLY INCREASING byte offsets: after an error the
    reader never goes back and never repeats a record.

    HOW.  Between two operations the reader [r] is looked at through its HEALTHY TWIN
    [hl r]: the same state over the source whose scripts are cut just before their first
    failures (Props/C14p.v).  The invariant [RSt inp ffuel its r k] says that the twin
    is in one of three kinds of states ([C06_RSt_kinds]):
      - NEW, possibly after failed attempts of the first call ([InitMid], Props/C05i.v);
      - HEALTHY: one of the call-boundary states of the fault-free theory (Props/C04fa.v:
        the buffer is a window of the input, [position.byte - start] is its offset, the
        search state is that of the whole-input search); [k] is the index of the next
        undelivered record;
      - DEAD: finished with an empty buffer — after a failed refill.
    [C06_fa_ops_whatever_the_source_does] is the preservation theorem, operation by
    operation: an operation either behaves as on the twin — returns the next record(s) of
    the stream and moves the cursor, or reports the end, or seeks — or returns the I/O
    error, and then the reader is New-after-a-failed-attempt, or Dead, or (failed seek of
    the source) unchanged, and the invariant holds for its new twin.  From New and from
    Dead a seek cannot take the in-buffer shortcut, re-reads, and is healthy again; a
    first call repeated at the end of the source reports the end of input and leaves a
    healthy finished reader whose buffer is the tail of the input (the permitted oddity of
    Props/C05i.v), from which an in-buffer seek is correct.

    NO COUNTER-EXAMPLE was found: every case of the proof went through on the current
    model (with the three repaired defects of this family in place).

    DEVIATION from the target statement: none.  The statement
    [C06_fa_every_returned_record_is_genuine] is the target, literally, with
    [RecShows inp rc x := exists s line ends, item_rel inp (OiRec s line ends) (SRec x) /\
    RecAt inp rc s ends] (the relations of Proofs/FastaHistP.v, FastaTopP.v).  The proof
    needs only [length inp + 2 <= fuel] ([C06_fa_genuine_small_fuel]).  No extra
    hypothesis was needed.  The FASTQ reader (stretch goal): Props/C06gq.v, Proofs/GenuineQP.v. *)
From Coq Require Import Sorting.Sorted.
From SeqIO Require Import Model.Base Model.Fasta Model.Views Spec.FastaSpec
     Proofs.Window Proofs.FastaInv Proofs.FastaStream Proofs.FastaNextP Proofs.FastaTopP
     Proofs.FastaSetP Proofs.FastaSeekP Proofs.FastaHistP Proofs.FaPrefixP Proofs.FaInitRetryP
     Proofs.GenuineP.

Theorem C06_fa_every_returned_record_is_genuine : forall inp cap0 rs sks pol fuel ffuel ops,
  3 <= cap0 -> PolOk pol ->
  (* rs and sks are ARBITRARY: interrupts, short reads, failures of reads and seeks anywhere, any number of them *)
  length rs + 2 <= ffuel -> 2 * length inp + 4 <= fuel -> Forall hop_ok ops ->
  let obs := fst (fa_hist fuel ffuel (tgt_spec inp) ops (h_init inp cap0 rs sks pol)) in
  Forall (fun ob =>
            match fst ob with
            | HoRec rc => exists it, In (SRec it) (fa_spec inp) /\ RecShows inp rc it
            | HoOwned (Some hs) => exists it, In it (fa_records inp) /\ item_owned it = Some hs
            | HoOwned None => False                                                      (* no accessor panic *)
            | HoSet rcs => Forall (fun rc => exists it, In (SRec it) (fa_spec inp) /\ RecShows inp rc it) rcs
            | HoAbnormal _ => False
            | _ => True
            end) obs.
Proof. exact fa_every_returned_record_is_genuine_target. Qed.
Print Assumptions C06_fa_every_returned_record_is_genuine.

(** the same with the fuel the proof needs *)
Theorem C06_fa_genuine_small_fuel : forall inp cap0 rs sks pol fuel ffuel ops,
  3 <= cap0 -> PolOk pol -> length rs + 2 <= ffuel -> length inp + 2 <= fuel -> Forall hop_ok ops ->
  Forall (fun ob => genuine_ob inp (fst ob))
         (fst (fa_hist fuel ffuel (tgt_spec inp) ops (h_init inp cap0 rs sks pol))).
Proof. exact fa_every_returned_record_is_genuine. Qed.
Print Assumptions C06_fa_genuine_small_fuel.

(** what "the view shows the record" gives *)
Theorem C06_RecShows_views : forall inp rc x, RecShows inp rc x ->
  fa_head rc = Some (fi_head x) /\ fa_lines rc = Some (fi_lines x) /\ fa_to_owned rc = item_owned x /\
  exists off e, rbuf rc = window inp off e /\ rstart rc + off = fi_byte x.
Proof. exact RecShows_views. Qed.
Print Assumptions C06_RecShows_views.

(** "... further genuine records IN ORDER": in a part of a history without seeks, whatever
    happened before and whatever fails, the delivered records ([delivered_all]: views, owned
    copies and set contents, in the order of delivery) are records of the specification
    with strictly increasing byte offsets *)
Theorem C06_fa_returned_records_in_order : forall inp cap0 rs sks pol fuel ffuel ops1 ops2,
  3 <= cap0 -> PolOk pol -> length rs + 2 <= ffuel -> length inp + 2 <= fuel ->
  Forall hop_ok (ops1 ++ ops2) -> Forall (fun o => is_seek o = false) ops2 ->
  let obs := fst (fa_hist fuel ffuel (tgt_spec inp) (ops1 ++ ops2) (h_init inp cap0 rs sks pol)) in
  exists xs, Forall2 (dlv_is inp) (delivered_all ops2 (skipn (length ops1) obs)) xs /\
             Forall (fun x => In (SRec x) (fa_spec inp)) xs /\
             StronglySorted (fun x y => fi_byte x < fi_byte y) xs.
Proof. exact fa_returned_records_in_order. Qed.
Print Assumptions C06_fa_returned_records_in_order.

(** the invariant is preserved by every operation, whatever the source does *)
Theorem C06_fa_ops_whatever_the_source_does : forall inp fuel ffuel pos0 ln0 its,
  2 <= ffuel -> length inp + 2 <= fuel ->
  fa_ostart_of inp = OsRecs pos0 ln0 -> FaStream inp pos0 ln0 its ->
  (* a new reader *)
  (forall cap0 rs sks pol0, 3 <= cap0 -> PolOk pol0 -> length rs + 2 <= ffuel ->
     RSt inp ffuel its (fa_new cap0 (mkSource inp 0 rs sks) pol0) 0) /\
  (* next *)
  (forall r k r' o, RSt inp ffuel its r k -> fa_next fuel ffuel r = (r', o) ->
     (exists rc it, o = ORec rc /\ nth_error its k = Some it /\ rec_ok inp rc it /\
                    fa_position r' = Some (i_line it, i_s it) /\ RSt inp ffuel its r' (S k)) \/
     (o = ONone /\ exists k', k <= k' /\ RSt inp ffuel its r' k') \/
     (exists e, o = OErr (FaIo e) /\ RSt inp ffuel its r' k)) /\
  (* read_record_set(_exact) *)
  (forall n rs0 r k r' rs' o, count_ok n -> RSt inp ffuel its r k ->
     fa_read_set fuel ffuel n r rs0 = (r', rs', o) ->
     (o = OSetOk /\ exists m, 1 <= m /\ k + m <= length its /\
                    SetRecs inp rs' (firstn m (skipn k its)) /\ RSt inp ffuel its r' (k + m)) \/
     (o = ONone /\ rs' = rs0 /\ exists k', k <= k' /\ RSt inp ffuel its r' k') \/
     (exists e, o = OErr (FaIo e) /\ (rs' = rs0 \/ fa_set_records rs' = []) /\ RSt inp ffuel its r' k)) /\
  (* seek to the position of record k' *)
  (forall r k k' it r' o, RSt inp ffuel its r k -> nth_error its k' = Some it ->
     fa_seek ffuel r (i_line it) (i_s it) = (r', o) ->
     (o = OOk /\ RSt inp ffuel its r' k') \/ (exists e, o = OErr (FaIo e) /\ RSt inp ffuel its r' k)).
Proof. exact fa_ops_whatever_the_source_does. Qed.
Print Assumptions C06_fa_ops_whatever_the_source_does.

(** the invariant in plain terms: New after failed attempts, or finished with an empty
    buffer, or the buffer is a window of the input whose offset is [position.byte - start] *)
Theorem C06_RSt_kinds : forall inp ffuel its r k, RSt inp ffuel its r k ->
  s_data (src r) = inp /\
  ((st r = FNew /\ InitMid inp r) \/
   (st r = FFinished /\ buf r = []) \/
   (exists off, buf r = window inp off (s_pos (src r)) /\ pbyte r = start r + off /\ st r <> FNew)).
Proof. exact RSt_kinds. Qed.
Print Assumptions C06_RSt_kinds.

(* ------------------------------------------------------------------ *)
(** * Examples: the hypotheses are satisfiable, and the histories are not trivial *)

(** display: (contents, kind, position after, I/O error kind) — kinds as in [hist_show]:
    0 end, 1 seek ok, 2 record, 3 owned record, 4 set, 5 position query, 9 other *)
Definition show_io (o : hobs * option (nat * nat)) :=
  (hist_show o, match fst o with HoErr (FaIo k) => Some k | _ => None end).

(** ">a\nAC\n>b\nG\n>c\nTT\nA\n" *)
Definition C06g_inp : list byte := [62; 97; 10; 65; 67; 10; 62; 98; 10; 71; 10; 62; 99; 10; 84; 84; 10; 65; 10].

Example C06g_spec :
  fa_spec C06g_inp = [SRec (mkFaItem [97] [[65; 67]] 1 0); SRec (mkFaItem [98] [[71]] 3 6);
                      SRec (mkFaItem [99] [[84; 84]; [65]] 5 11)].
Proof. vm_compute. reflexivity. Qed.

(** capacity 4; three failing reads (kinds 7, 8, 9) and a failing seek (kind 5) in the
    scripts.  The first [next] fails in the first refill (the reader stays New); the second
    one resumes the initialisation, finds record a incomplete, grows and fails in the refill
    (Dead); two more calls report the end; the first seek to record 1 fails in the source
    (nothing changes), the second succeeds; the set read delivers record b; the re-iteration
    shows it again; the next [next] fails (kind 9, Dead again); the seek to record 0 re-reads;
    two owned reads deliver a and b. *)
Example C06g_example_many_failures :
  map show_io (fst (fa_hist 42 9 (tgt_spec C06g_inp)
     [HNext; HNext; HNext; HNext; HSeek 1; HSeek 1; HSet 0; HIter 0; HNext; HSeek 0; HOwned; HOwned]
     (h_init C06g_inp 4 [RDeliver 1; RFailI 7; RDeliver 5; RDeliver 1; RFailI 8; RDeliver 30; RFailI 9]
             [SFailI 5; SOk] pol_std)))
  = [ ([], 9, None, Some 7); ([], 9, Some (1, 0), Some 8); ([], 0, Some (1, 0), None); ([], 0, Some (1, 0), None);
      ([], 9, Some (1, 0), Some 5); ([], 1, None, None);
      ([(Some [98], Some [[71]])], 4, None, None); ([(Some [98], Some [[71]])], 4, None, None);
      ([], 9, None, Some 9); ([], 1, None, None);
      ([(Some [97], Some [[65; 67]])], 3, Some (1, 0), None); ([(Some [98], Some [[71]])], 3, Some (3, 6), None) ].
Proof. vm_compute. reflexivity. Qed.

(** the theorem applies to this configuration *)
Example C06g_hypotheses_satisfiable :
  let ops := [HNext; HNext; HNext; HNext; HSeek 1; HSeek 1; HSet 0; HIter 0; HNext; HSeek 0; HOwned; HOwned] in
  let obs := fst (fa_hist 42 9 (tgt_spec C06g_inp) ops
     (h_init C06g_inp 4 [RDeliver 1; RFailI 7; RDeliver 5; RDeliver 1; RFailI 8; RDeliver 30; RFailI 9]
             [SFailI 5; SOk] pol_std)) in
  Forall (fun ob => genuine_ob C06g_inp (fst ob)) obs.
Proof.
  apply C06_fa_genuine_small_fuel; [lia | exact PolOk_std | cbn; lia | cbn; lia | repeat constructor].
Qed.

(** two blank lines, then ">a\nAC\n>b\nG" (no final LF) *)
Definition C06g_inp2 : list byte := [10; 13; 10; 62; 97; 10; 65; 67; 10; 62; 98; 10; 71].

(** the permitted oddity, and what follows it: the first refill reads the WHOLE input and
    then fails (kind 7).  The repeated first call reads nothing more and reports the end of
    input (the reader is finished; its buffer holds the input after the blank lines).  The
    seek to record 1 is served from that buffer (the failing seek item of the source is not
    consumed), [next] returns record b with its true position (line 5, byte 9), then the
    end; the seek to record 0 is served from the buffer as well and an exact set read
    delivers a and b. *)
Example C06g_example_early_end_then_seek :
  fa_spec C06g_inp2 = [SRec (mkFaItem [97] [[65; 67]] 3 3); SRec (mkFaItem [98] [[71]] 5 9)] /\
  map show_io (fst (fa_hist 42 8 (tgt_spec C06g_inp2)
     [HNext; HNext; HSeek 1; HNext; HNext; HSeek 0; HSetExact 1 5; HNext]
     (h_init C06g_inp2 32 [RDeliver 30; RFailI 7] [SFailI 5; SOk] pol_std)))
  = [ ([], 9, None, Some 7); ([], 0, None, None); ([], 1, None, None);
      ([(Some [98], Some [[71]])], 2, Some (5, 9), None); ([], 0, Some (5, 9), None); ([], 1, None, None);
      ([(Some [97], Some [[65; 67]]); (Some [98], Some [[71]])], 4, None, None); ([], 0, None, None) ].
Proof. split; vm_compute; reflexivity. Qed.

(** the invariant holds of a non-trivial state: the reader of the first example after its
    second call (the failed refill of [resume_incomplete_search]) is Dead, its source is in
    the middle of the input with failures still ahead *)
Example C06g_dead_state :
  let r := h_r (snd (fa_hist 42 9 (tgt_spec C06g_inp) [HNext; HNext]
     (h_init C06g_inp 4 [RDeliver 1; RFailI 7; RDeliver 5; RDeliver 1; RFailI 8; RDeliver 30; RFailI 9]
             [SFailI 5; SOk] pol_std))) in
  st r = FFinished /\ buf r = [] /\ s_pos (src r) = 6 /\ s_rs (src r) = [RDeliver 30; RFailI 9] /\
  s_rs (src (hl r)) = [RDeliver 30] /\ s_ss (src (hl r)) = [].
Proof. vm_compute. auto 10. Qed.

(** ... and the in-order theorem applies after that prefix: the reads of the seek-free part
    [HSet 0; HIter 0; HNext] that follows the two seeks deliver record b only *)
Example C06g_in_order_instance :
  let ops1 := [HNext; HNext; HNext; HNext; HSeek 1; HSeek 1] in
  let ops2 := [HSet 0; HIter 0; HNext] in
  let obs := fst (fa_hist 42 9 (tgt_spec C06g_inp) (ops1 ++ ops2)
     (h_init C06g_inp 4 [RDeliver 1; RFailI 7; RDeliver 5; RDeliver 1; RFailI 8; RDeliver 30; RFailI 9]
             [SFailI 5; SOk] pol_std)) in
  (exists xs, Forall2 (dlv_is C06g_inp) (delivered_all ops2 (skipn (length ops1) obs)) xs /\
              Forall (fun x => In (SRec x) (fa_spec C06g_inp)) xs /\
              StronglySorted (fun x y => fi_byte x < fi_byte y) xs) /\
  length (delivered_all ops2 (skipn (length ops1) obs)) = 1.
Proof.
  split; [|vm_compute; reflexivity].
  apply C06_fa_returned_records_in_order;
    [lia | exact PolOk_std | cbn; lia | cbn; lia | repeat constructor | repeat constructor].
Qed.
