(** C06 — "... After an error has been returned, later reads return end of input, an
    error, or further genuine records in order, never corrupt data."   FASTQ reader, the
    unifying theorem (the FASTA one is Props/C06g.v).  Statements only; proofs in
    Proofs/GenuineQP.v.

    WHAT IS PROVED, in plain words.  Take ANY input, any capacity >= 1, any policy that
    never refuses, ANY read script and ANY seek script of the byte source (short reads,
    interrupts, and FAILURES of reads and of seeks anywhere, any number of them), and ANY
    history of operations on one reader and two record sets ([hist_ok]: exact counts >= 1,
    seeks go to the positions of items of the specification stream [fq_spec_all inp] —
    records, or the invalid group that ends the stream): [next], owned reads,
    [read_record_set], [read_record_set_exact], re-iteration of a set, [position], seeks —
    including everything called after an I/O error, after a parse error or after the end of
    input.  Then ([C06_fq_every_returned_record_is_genuine]):
      - every borrowed record shows a record item [QRec i] of [fq_spec_all inp]
        ([rec_at]: head, sequence and quality accessors return the fields of [i], the view
        is a window of the input and starts at [qi_byte i]);
      - every owned record is the owned copy of such an item, never [None] (no accessor panic);
      - every record of a filled set, and every record a re-iteration of either set shows —
        also after later calls failed — shows such an item;
      - the only "other" outcome ([OBad]) is a seek that failed with an I/O error: no panic,
        no fuel exhaustion.
    [C06_fq_returned_records_in_order]: in any part [ops2] of a history that contains no seek,
    after any history [ops1], the records delivered by the reads (views, owned copies and set
    contents, in the order of delivery) are records of the stream with STRICTLY INCREASING
    byte offsets.

    HOW.  As for FASTA: the reader [r] is looked at through its healthy twin [hlq r] (scripts
    cut before their first failures, Props/C14pq.v).  The invariant [RQ inp ffuel r k] says
    that the twin is in a state of the fault-free theory ([HQ], Props/C04q.v; [k] is the index
    of the next undelivered item), or New with a buffer that holds the prefix of the input read
    by failed attempts of the first refill ([QMid]), or Dead (finished with an empty buffer
    after a failed refill) ([C06_RQ_kinds]).  [C06_fq_ops_whatever_the_source_does] is the
    preservation theorem, operation by operation.  A repeated first call whose refill reads
    nothing more (the failed attempt had read the whole input) reports the end of input and
    leaves a healthy finished reader whose buffer is the whole input, from which in-buffer seeks
    are correct (second example below).

    NO COUNTER-EXAMPLE was found.  No hypothesis beyond those of the fault-free theorem
    (Props/C04q.v) minus its two "fault-free script" hypotheses was needed. *)
From Coq Require Import Sorting.Sorted.
From SeqIO Require Import Model.Base Model.Fastq Model.Views Spec.FastqSpec Spec.CursorQ
     Proofs.Window Proofs.FastaInv Proofs.FastqInv Proofs.FastqNextP Proofs.FastqSetP Proofs.FastqSeekP
     Proofs.FastqHistP Proofs.FastqHistEx Proofs.GenuineQP.

Theorem C06_fq_every_returned_record_is_genuine : forall inp cap0 rs ss pol fuel ffuel ops,
  1 <= cap0 -> PolOk1 pol ->
  (* rs and ss are ARBITRARY: interrupts, short reads, failures of reads and seeks anywhere, any number of them *)
  length rs + 2 <= ffuel -> 2 * length inp + 4 <= fuel -> hist_ok inp ops ->
  Forall (fun ob =>
            match ob with
            | ORec rc => exists i, In (QRec i) (fq_spec_all inp) /\ rec_at inp rc i
            | OOwned o => exists i, In (QRec i) (fq_spec_all inp) /\ o = Some (qi_head i, qi_seq i, qi_qual i)
            | OSetOk recs => Forall (fun rc => exists i, In (QRec i) (fq_spec_all inp) /\ rec_at inp rc i) recs
            | OIter recs => Forall (fun rc => exists i, In (QRec i) (fq_spec_all inp) /\ rec_at inp rc i) recs
            | OBad o => exists e, o = QOErr (FqIo e)        (* only: a seek that failed with an I/O error *)
            | _ => True
            end)
         (fst (fq_hrun inp fuel ffuel ops (fq_hconf0 cap0 inp rs ss pol))).
Proof. exact fq_every_returned_record_is_genuine. Qed.
Print Assumptions C06_fq_every_returned_record_is_genuine.

(** "... further genuine records IN ORDER" *)
Theorem C06_fq_returned_records_in_order : forall inp cap0 rs ss pol fuel ffuel ops1 ops2,
  1 <= cap0 -> PolOk1 pol -> length rs + 2 <= ffuel -> 2 * length inp + 4 <= fuel ->
  hist_ok inp (ops1 ++ ops2) -> Forall (fun o => q_is_seek o = false) ops2 ->
  let obs := fst (fq_hrun inp fuel ffuel (ops1 ++ ops2) (fq_hconf0 cap0 inp rs ss pol)) in
  exists xs, Forall2 (qdlv_is inp) (q_delivered_all ops2 (skipn (length ops1) obs)) xs /\
             Forall (fun i => In (QRec i) (fq_spec_all inp)) xs /\
             StronglySorted (fun x y => qi_byte x < qi_byte y) xs.
Proof. exact fq_returned_records_in_order. Qed.
Print Assumptions C06_fq_returned_records_in_order.

(** the invariant is preserved by every operation, whatever the source does *)
Theorem C06_fq_ops_whatever_the_source_does : forall inp fuel ffuel, 2 * length inp + 4 <= fuel ->
  (* a new reader *)
  (forall cap0 rs ss pol, 1 <= cap0 -> PolOk1 pol -> length rs + 2 <= ffuel ->
     RQ inp ffuel (fq_new cap0 (mkSource inp 0 rs ss) pol) 0) /\
  (* next *)
  (forall r k r' o, RQ inp ffuel r k -> fq_next fuel ffuel r = (r', o) ->
     (exists rc i, o = QORec rc /\ nth_error (fq_spec_all inp) k = Some (QRec i) /\ rec_at inp rc i /\
                   RQ inp ffuel r' (S k)) \/
     (exists e l a, o = QOErr (fq_err_of e) /\ nth_error (fq_spec_all inp) k = Some (QErr e l a) /\
                    RQ inp ffuel r' (length (fq_spec_all inp))) \/
     (o = QONone /\ exists k', k <= k' /\ RQ inp ffuel r' k') \/
     (exists e, o = QOErr (FqIo e) /\ RQ inp ffuel r' k)) /\
  (* read_record_set(_exact) *)
  (forall n rs r k r' rs' o, n_ok n -> RQ inp ffuel r k -> fq_read_set fuel ffuel n r rs = (r', rs', o) ->
     (o = QOSetOk /\ exists recs1, recs1 <> [] /\ Forall2 (rec_at inp) (fq_set_records rs') recs1 /\
         map QRec recs1 = firstn (length recs1) (skipn k (fq_spec_all inp)) /\ RQ inp ffuel r' (k + length recs1)) \/
     (exists e, o = QOErr (fq_err_of e) /\ qspos rs' = [] /\ k <= length (fq_spec_all inp) /\
                RQ inp ffuel r' (length (fq_spec_all inp))) \/
     (o = QONone /\ (rs' = rs \/ qspos rs' = []) /\ exists k', k <= k' /\ RQ inp ffuel r' k') \/
     (exists e, o = QOErr (FqIo e) /\ (rs' = rs \/ qspos rs' = []) /\ RQ inp ffuel r' k)) /\
  (* seek to the position of item k' *)
  (forall r k k' it r' o, RQ inp ffuel r k -> nth_error (fq_spec_all inp) k' = Some it ->
     fq_seek ffuel r (fst (coords it)) (snd (coords it)) = (r', o) ->
     (o = QOOk /\ RQ inp ffuel r' k') \/ (exists e, o = QOErr (FqIo e) /\ RQ inp ffuel r' k)).
Proof. exact fq_ops_whatever_the_source_does. Qed.
Print Assumptions C06_fq_ops_whatever_the_source_does.

(** the invariant in plain terms *)
Theorem C06_RQ_kinds : forall inp ffuel r k, RQ inp ffuel r k ->
  s_data (qsrc r) = inp /\
  ((qst r = QNew /\ qbuf r = window inp 0 (s_pos (qsrc r)) /\ qbyte r = 0 /\ qline r = 1) \/
   (qst r = QFinished /\ qbuf r = []) \/
   (exists off, qbuf r = window inp off (s_pos (qsrc r)) /\ p0 r + off = qbyte r /\ qst r <> QNew)).
Proof. exact RQ_kinds. Qed.
Print Assumptions C06_RQ_kinds.

(* ------------------------------------------------------------------ *)
(** * Examples *)

(** display: ([c04_show] of Proofs/FastqHistEx.v: tag 1 record, 2 owned, 3 set, 4 iteration,
    5 error, 6 end, 7 position, 8 seek ok, 9 bad; contents as owned copies; I/O error kind) *)
Definition showq (o : hobs) :=
  (c04_show o, match o with OErr (FqIo k) => Some k | OBad (QOErr (FqIo k)) => Some k | _ => None end).

(** [c04_inp] = "@a\nAC\n+\nII\n@b\nG\n+\nI\n@c\nTT\n+\nJJ\n": three records at (line, byte)
    (1,0), (5,11), (9,20) *)
Example C06gq_spec : map coords (fq_spec_all c04_inp) = [(1, 0); (5, 11); (9, 20)].
Proof. vm_compute. reflexivity. Qed.

(** capacity 4; three failing reads (kinds 7, 8, 9) and a failing seek (kind 5).  The first
    [next] fails in the first refill (the reader stays New, 2 bytes in its buffer); the second
    completes the refill, finds record a incomplete, grows and fails in the refill (Dead); the
    third reports the end; the first seek to item 1 fails in the source (nothing changes), the
    second succeeds; the set read delivers record b; the re-iteration shows it again; the
    next [next] fails (kind 9, Dead again), the one after it reports the end; the seek to item 0
    re-reads; two owned reads deliver a and b. *)
Example C06gq_example_many_failures :
  map showq (fst (fq_hrun c04_inp 66 50
     [HNext; HNext; HNext; HSeek 1; HSeek 1; HSet false; HIter false; HNext; HNext; HSeek 0; HOwned; HOwned]
     (fq_hconf0 4 c04_inp [RDeliver 1; RFailI 7; RDeliver 5; RDeliver 1; RFailI 8; RDeliver 30; RDeliver 30; RFailI 9]
                [SFailI 5; SOk] pol_std)))
  = [ (5, [], (0, 0), Some 7); (5, [], (0, 0), Some 8); (6, [], (0, 0), None); (9, [], (0, 0), Some 5);
      (8, [], (0, 0), None); (3, [Some ([98], [71], [73])], (0, 0), None);
      (4, [Some ([98], [71], [73])], (0, 0), None); (5, [], (0, 0), Some 9); (6, [], (0, 0), None);
      (8, [], (0, 0), None);
      (2, [Some ([97], [65; 67], [73; 73])], (0, 0), None); (2, [Some ([98], [71], [73])], (0, 0), None) ].
Proof. vm_compute. reflexivity. Qed.

(** the theorem applies to this configuration *)
Example C06gq_hypotheses_satisfiable :
  let ops := [HNext; HNext; HNext; HSeek 1; HSeek 1; HSet false; HIter false; HNext; HNext; HSeek 0; HOwned; HOwned] in
  Forall (q_genuine_ob c04_inp)
    (fst (fq_hrun c04_inp 66 50 ops
       (fq_hconf0 4 c04_inp [RDeliver 1; RFailI 7; RDeliver 5; RDeliver 1; RFailI 8; RDeliver 30; RDeliver 30; RFailI 9]
                  [SFailI 5; SOk] pol_std))).
Proof.
  apply fq_every_returned_record_is_genuine;
    [lia | exact PolOk1_std | cbn [length]; lia | cbn [c04_inp length]; lia | repeat constructor; vm_compute; lia].
Qed.

(** the states in between: after the first call the reader is New with the two bytes the
    failed refill had read; after the second it is Dead, in the middle of the input, with a
    failure still ahead; its twin has the scripts cut before that failure *)
Example C06gq_states :
  let c1 := snd (fq_hrun c04_inp 66 50 [HNext]
     (fq_hconf0 4 c04_inp [RDeliver 1; RFailI 7; RDeliver 5; RDeliver 1; RFailI 8; RDeliver 30; RDeliver 30; RFailI 9]
                [SFailI 5; SOk] pol_std)) in
  let c2 := snd (fq_hrun c04_inp 66 50 [HNext; HNext]
     (fq_hconf0 4 c04_inp [RDeliver 1; RFailI 7; RDeliver 5; RDeliver 1; RFailI 8; RDeliver 30; RDeliver 30; RFailI 9]
                [SFailI 5; SOk] pol_std)) in
  (qst (c_rd c1) = QNew /\ qbuf (c_rd c1) = [64; 97] /\ s_pos (qsrc (c_rd c1)) = 2 /\
   s_rs (qsrc (hlq (c_rd c1))) = [RDeliver 5; RDeliver 1]) /\
  (qst (c_rd c2) = QFinished /\ qbuf (c_rd c2) = [] /\ s_pos (qsrc (c_rd c2)) = 6 /\
   s_rs (qsrc (c_rd c2)) = [RDeliver 30; RDeliver 30; RFailI 9] /\
   s_rs (qsrc (hlq (c_rd c2))) = [RDeliver 30; RDeliver 30] /\ s_ss (qsrc (hlq (c_rd c2))) = []).
Proof. vm_compute. auto 12. Qed.

(** the first refill reads the WHOLE input (capacity 64) and then fails (kind 7).  The repeated
    first call reads nothing more and reports the end of input; the reader is finished and its
    buffer holds the input.  The seek to item 1 is served from that buffer (the failing seek
    item of the source is not consumed); two reads return b and c; the seek to item 0 is served
    from the buffer as well and an exact set read delivers a, b and c; then the end. *)
Example C06gq_example_early_end_then_seek :
  map showq (fst (fq_hrun c04_inp 66 50
     [HNext; HNext; HSeek 1; HNext; HNext; HSeek 0; HSetExact true 5; HNext]
     (fq_hconf0 64 c04_inp [RDeliver 40; RFailI 7] [SFailI 5; SOk] pol_std)))
  = [ (5, [], (0, 0), Some 7); (6, [], (0, 0), None); (8, [], (0, 0), None);
      (1, [Some ([98], [71], [73])], (0, 0), None); (1, [Some ([99], [84; 84], [74; 74])], (0, 0), None);
      (8, [], (0, 0), None);
      (3, [Some ([97], [65; 67], [73; 73]); Some ([98], [71], [73]); Some ([99], [84; 84], [74; 74])], (0, 0), None);
      (6, [], (0, 0), None) ].
Proof. vm_compute. reflexivity. Qed.

(** the in-order theorem applies after the prefix with the failures and the two seeks: the
    reads of the seek-free part [HSet false; HIter false; HNext; HNext] deliver record b only *)
Example C06gq_in_order_instance :
  let ops1 := [HNext; HNext; HNext; HSeek 1; HSeek 1] in
  let ops2 := [HSet false; HIter false; HNext; HNext] in
  let obs := fst (fq_hrun c04_inp 66 50 (ops1 ++ ops2)
     (fq_hconf0 4 c04_inp [RDeliver 1; RFailI 7; RDeliver 5; RDeliver 1; RFailI 8; RDeliver 30; RDeliver 30; RFailI 9]
                [SFailI 5; SOk] pol_std)) in
  (exists xs, Forall2 (qdlv_is c04_inp) (q_delivered_all ops2 (skipn (length ops1) obs)) xs /\
              Forall (fun i => In (QRec i) (fq_spec_all c04_inp)) xs /\
              StronglySorted (fun x y => qi_byte x < qi_byte y) xs) /\
  length (q_delivered_all ops2 (skipn (length ops1) obs)) = 1.
Proof.
  split; [|vm_compute; reflexivity].
  apply C06_fq_returned_records_in_order;
    [lia | exact PolOk1_std | cbn [length]; lia | cbn [c04_inp length]; lia
    | repeat constructor; vm_compute; lia | repeat constructor].
Qed.
