(** C06 (structural building block) — no reader entry point panics, for any policy,
    capacity, input, read/seek fault script and call history.

    [FaSane] / [FqSane] (Proofs/SaneP.v, Proofs/FqSaneP.v) are simple predicates on reader
    states about the offsets the code slices with:
      FASTA: unless the reader is [Finished] (then nothing is required: it answers every
             read with end of input, [seek] re-establishes the offsets, and after a failed
             refill its buffer has been dropped): [start <= search_pos <= |buffer|], every
             recorded line end is at or after [start]; before the first record all offsets are 0;
      FASTQ: depending on the state flag and on how far the search for the current record
             got ([inc]), the offsets found so far are strictly ordered and inside the buffer
             ([p0 < seq < sep < qual <= p1], [p1 + 1 <= |buffer|] for a complete record).
    They hold for a new reader, are preserved by EVERY entry point -- also by calls that
    return an I/O error, a buffer-limit error, a format error or run out of fuel -- and no
    call made in such a state returns a panic outcome (slice out of range, usize
    underflow).  Hence no history of calls on a new reader ever panics in the model.
    Termination (fuel) and genuineness of the returned records are the other parts of C06.
    Statements only. *)
From SeqIO Require Import Model.Base Model.Fasta Model.Fastq Proofs.FaultP Proofs.SaneP Proofs.FqSaneP.

Theorem C06_fa_sane_preserved :
  (forall c s p, FaSane (fa_new c s p)) /\
  (forall fuel ffuel r r' o, fa_next fuel ffuel r = (r', o) -> FaSane r -> FaSane r') /\
  (forall fuel ffuel n r rs r' rs' o, fa_read_set fuel ffuel n r rs = (r', rs', o) -> FaSane r -> FaSane r') /\
  (forall ffuel r line byte_ r' o, fa_seek ffuel r line byte_ = (r', o) -> FaSane r -> FaSane r') /\
  (forall r p, FaSane r -> FaSane (fa_set_policy r p)).
Proof. exact fa_sane_preserved. Qed.
Print Assumptions C06_fa_sane_preserved.

Theorem C06_fa_sane_no_panic :
  (forall fuel ffuel r s, FaSane r -> snd (fa_next fuel ffuel r) <> OPanic s) /\
  (forall fuel ffuel n r rs s, FaSane r -> snd (fa_read_set fuel ffuel n r rs) <> OPanic s) /\
  (forall ffuel r line byte_ s, FaSane r -> snd (fa_seek ffuel r line byte_) <> OPanic s).
Proof. exact fa_sane_no_panic. Qed.
Print Assumptions C06_fa_sane_no_panic.

Theorem C06_fq_sane_preserved :
  (forall c s p, FqSane (fq_new c s p)) /\
  (forall fuel ffuel r r' o, fq_next fuel ffuel r = (r', o) -> FqSane r -> FqSane r') /\
  (forall fuel ffuel n r rs r' rs' o, fq_read_set fuel ffuel n r rs = (r', rs', o) -> FqSane r -> FqSane r') /\
  (forall ffuel r line byte_ r' o, fq_seek ffuel r line byte_ = (r', o) -> FqSane r -> FqSane r') /\
  (forall r p, FqSane r -> FqSane (fq_set_policy r p)).
Proof. exact fq_sane_preserved. Qed.
Print Assumptions C06_fq_sane_preserved.

Theorem C06_fq_sane_no_panic :
  (forall fuel ffuel r x, FqSane r -> snd (fq_next fuel ffuel r) <> QOPanic x) /\
  (forall fuel ffuel n r rs x, FqSane r -> snd (fq_read_set fuel ffuel n r rs) <> QOPanic x) /\
  (forall ffuel r line byte_ x, FqSane r -> snd (fq_seek ffuel r line byte_) <> QOPanic x).
Proof. exact fq_sane_no_panic. Qed.
Print Assumptions C06_fq_sane_no_panic.

(** non-vacuity: the states left behind by an I/O error in mid-record (the reader is
    finished, with a half-grown buffer and a pending search stage) and by a buffer-limit
    error ([Incomplete], resumable) are sane, and the calls made in them do not panic *)
Example C06_fa_sane_example :
  let r1 := fst (fa_next 30 30 c14_fa_reader) in
  snd (fa_next 30 30 c14_fa_reader) = OErr (FaIo 7) /\ st r1 = FFinished /\ FaSane r1 /\
  snd (fa_next 30 30 r1) = ONone /\
  let q := fa_new 4 (mkSource c14_fa_input 0 [] []) (pol_plus 2 7) in
  snd (fa_next 30 30 q) = OErr FaBufferLimit /\ st (fst (fa_next 30 30 q)) = FIncomplete /\
  FaSane (fst (fa_next 30 30 q)).
Proof.
  cbv zeta. split; [vm_compute; reflexivity|]. split; [vm_compute; reflexivity|]. split.
  - eapply fa_next_sane; [apply surjective_pairing|apply fa_new_sane].
  - split; [vm_compute; reflexivity|]. split; [vm_compute; reflexivity|]. split; [vm_compute; reflexivity|].
    eapply fa_next_sane; [apply surjective_pairing|apply fa_new_sane].
Qed.

Example C06_fq_sane_example :
  let r1 := fst (fq_next 30 30 c14_fq_reader) in
  snd (fq_next 30 30 c14_fq_reader) = QOErr (FqIo 3) /\ inc r1 = Some Seq /\ FqSane r1 /\
  snd (fq_next 30 30 r1) <> QOPanic 0.
Proof.
  cbv zeta. split; [vm_compute; reflexivity|]. split; [vm_compute; reflexivity|].
  assert (S : FqSane (fst (fq_next 30 30 c14_fq_reader))).
  { eapply fq_next_sane; [apply surjective_pairing|apply fq_new_sane]. }
  split; [exact S|]. apply fq_sane_no_panic. exact S.
Qed.
