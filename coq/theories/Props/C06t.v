(** C06 (termination) — the FASTA reader never hangs, for EVERY policy, EVERY read script,
    EVERY seek script, every capacity and every history of calls on a new reader.

    In the model (Model/Fasta.v) the loops of the reader run on fuel: [fa_resume]
    (resume_incomplete_search), [fa_first_byte], [fa_set_loop] (the loop of
    read_record_set(_exact)) on the loop fuel [fuel], the refill loop [fill_buf] on the
    refill fuel [ffuel]; running out of fuel is the outcome [OFuel] ("the call hangs").
    Props/C01.v and C04fa.v show that the fuel suffices for fault-free sources and policies
    that never refuse.  Here: loop fuel [2 * |data| + 4] and refill fuel [|read script| + 2]
    ALWAYS suffice.  Nothing is assumed about the policy function (it may refuse, answer a
    smaller size, the same size, any size, depend on its history), about the read script
    (interrupts, failures, short reads in any order), about the seek script, about the
    capacity (0 included; the [3 <= capacity] assertion of the code is not needed), or about
    the seek targets.

    The invariant [FaTerm fuel ffuel r] is the conjunction of
      - [FaSane r]   (Proofs/SaneP.v, C06s.v): the offsets are in range -- no call panics;
      - [BufFits r]  (Proofs/GrowSitesP.v, C09n.v): [|buffer| <= capacity];
      - [FullInc r]  (ibid.): a reader in state [Incomplete] has a full buffer;
      - [fa_left r <= |data|] where [fa_left r = |buffer| + src_remaining (src r)] is the
        number of bytes in the buffer plus the number of bytes the source can still deliver:
        a refill moves bytes from the source into the buffer, make_room and the consumption of
        records only drop bytes, a real seek empties the buffer, an in-buffer seek and a
        failed seek change nothing; the data of the source never changes;
      - the two fuel bounds [2 * |data| + 4 <= fuel] and [|read script| + 2 <= ffuel].
    No further conjunct was needed; in particular no lower bound on the capacity.
    It holds for a new reader and is preserved by every entry point, whose outcome is then
    neither [OFuel] nor a panic.

    Why the loops end (Proofs/FaTermP.v):
      - [fill_buf]: every iteration consumes an item of the read script or is the last one
        ([fill_buf_enough_fuel], FaultP.v);
      - [first_byte]: a continuing iteration has read at least one byte, so [src_remaining]
        went down: [src_remaining + 1] iterations suffice ([fa_first_byte_term]);
      - [resume_incomplete_search]: entered with a full buffer; the loop continues only after
        a search that ended in a full buffer again; a growing iteration with a full buffer
        makes the capacity strictly larger, so the source delivered at least one byte; only
        the first iteration can be a make-room one: [src_remaining + 2] iterations suffice
        ([fa_resume_term]); a refused growth and a failed refill end the loop;
      - the record-set loop: an appended record moves [start] forward by at least one byte
        (the search position found lies strictly behind the old one, which is at or behind
        [start]), an incomplete search is followed by a resume iteration that ends with a
        record, the end of input or an error: with [todo = (|buffer| - start) +
        src_remaining], [2 * todo + 3] iterations suffice ([fa_set_loop_term]).

    The last theorem is the history-level corollary over [fa_hist] (Proofs/FastaHistP.v):
    no observation of any history on a new reader is [HoAbnormal] -- no fuel exhaustion, no
    panic of the reader, and no outcome of the wrong kind (e.g. [next] never answers "set
    filled", [seek] never answers "end of input").  ([HoOwned None], the panic of a record
    accessor, is not the subject here.)
    Statements only; the proofs are in Proofs/FaTermP.v. *)
From SeqIO Require Import Model.Base Model.Fasta Proofs.FaTraceP Proofs.GrowSitesP Proofs.SaneP
     Proofs.InterruptP Proofs.FastaHistP Proofs.FaTermP.

(** the measure and the invariant, spelled out *)
Theorem C06_fa_left_meaning : forall r, fa_left r = length (buf r) + src_remaining (src r).
Proof. intros. reflexivity. Qed.
Print Assumptions C06_fa_left_meaning.

Theorem C06_FaTerm_meaning : forall fuel ffuel r,
  FaTerm fuel ffuel r <->
  (FaSane r /\ BufFits r /\ FullInc r /\
   fa_left r <= length (s_data (src r)) /\
   2 * length (s_data (src r)) + 4 <= fuel /\ length (s_rs (src r)) + 2 <= ffuel).
Proof. intros. reflexivity. Qed.
Print Assumptions C06_FaTerm_meaning.

(** the invariant holds for a new reader, is kept by every entry point, and no call made
    under it runs out of fuel or panics *)
Theorem C06_fa_terminates :
  (forall c s p fuel ffuel, 2 * length (s_data s) + 4 <= fuel -> length (s_rs s) + 2 <= ffuel -> s_pos s = 0 ->
     FaTerm fuel ffuel (fa_new c s p)) /\
  (forall fuel ffuel r r' o, fa_next fuel ffuel r = (r', o) -> FaTerm fuel ffuel r ->
     FaTerm fuel ffuel r' /\ o <> OFuel /\ (forall x, o <> OPanic x)) /\
  (forall fuel ffuel n r rs r' rs' o, fa_read_set fuel ffuel n r rs = (r', rs', o) -> FaTerm fuel ffuel r ->
     FaTerm fuel ffuel r' /\ o <> OFuel /\ (forall x, o <> OPanic x)) /\
  (forall fuel ffuel r line byte_ r' o, fa_seek ffuel r line byte_ = (r', o) -> FaTerm fuel ffuel r ->
     FaTerm fuel ffuel r' /\ o <> OFuel /\ (forall x, o <> OPanic x)) /\
  (forall fuel ffuel r p, FaTerm fuel ffuel r -> FaTerm fuel ffuel (fa_set_policy r p)).
Proof. exact fa_terminates. Qed.
Print Assumptions C06_fa_terminates.

(** the loops, one by one (every state that satisfies the stated conditions, not only
    reachable ones) *)
Theorem C06_fa_first_byte_terminates : forall ffuel fuel r ln r' res,
  fa_first_byte fuel ffuel r ln = (r', res) ->
  FuelOk ffuel r -> src_remaining (src r) + 1 <= fuel -> res <> FbFuel /\ FuelOk ffuel r'.
Proof. exact fa_first_byte_term. Qed.
Print Assumptions C06_fa_first_byte_terminates.

Theorem C06_fa_resume_terminates : forall ffuel mk fuel r r' res,
  fa_resume fuel ffuel mk r = (r', res) ->
  BufFits r -> cap r <= length (buf r) -> FuelOk ffuel r ->
  src_remaining (src r) + (if negb mk || (start r =? 0) then 1 else 2) <= fuel ->
  res <> RsFuel.
Proof. exact fa_resume_term. Qed.
Print Assumptions C06_fa_resume_terminates.

Theorem C06_fa_set_loop_terminates : forall rfuel ffuel fuel n is_new r rs r' rs' res,
  fa_set_loop fuel rfuel ffuel n is_new r rs = (r', rs', res) ->
  FaOff r -> st r <> FNew -> BufFits r -> FullInc r -> FuelOk ffuel r ->
  src_remaining (src r) + 2 <= rfuel -> loop_need r <= fuel -> res <> LFuel.
Proof. exact fa_set_loop_term. Qed.
Print Assumptions C06_fa_set_loop_terminates.

Theorem C06_loop_need_meaning : forall r,
  loop_need r =
  (if fa_state_eqb (st r) FFinished then 1
   else if fa_state_eqb (st r) FIncomplete
        then 2 * ((length (buf r) - start r) + src_remaining (src r)) + 2
        else 2 * ((length (buf r) - start r) + src_remaining (src r)) + 3) /\
  loop_need r <= 2 * fa_left r + 3.
Proof. exact loop_need_meaning. Qed.
Print Assumptions C06_loop_need_meaning.

(** outcomes the entry points cannot return, in any state *)
Theorem C06_fa_outcome_kinds :
  (forall fuel ffuel r r' o, fa_next fuel ffuel r = (r', o) -> o <> OSetOk /\ o <> OOk) /\
  (forall fuel ffuel n r rs r' rs' o, fa_read_set fuel ffuel n r rs = (r', rs', o) ->
     o <> OOk /\ (forall rc, o <> ORec rc)) /\
  (forall ffuel r line byte_ r' o, fa_seek ffuel r line byte_ = (r', o) ->
     o <> OSetOk /\ o <> ONone /\ (forall rc, o <> ORec rc)).
Proof. exact fa_outcome_kinds. Qed.
Print Assumptions C06_fa_outcome_kinds.

(** no history of calls (next / owned next / read_record_set / read_record_set_exact /
    iteration / position / seek to ARBITRARY targets) on a new reader hangs or panics *)
Theorem C06_fa_history_never_hangs_or_panics : forall inp cap0 rs sks pol fuel ffuel tgt ops,
  2 * length inp + 4 <= fuel -> length rs + 2 <= ffuel ->
  Forall (fun ob => forall o, fst ob <> HoAbnormal o)
         (fst (fa_hist fuel ffuel tgt ops (h_init inp cap0 rs sks pol))).
Proof. exact fa_history_never_hangs_or_panics. Qed.
Print Assumptions C06_fa_history_never_hangs_or_panics.

(* ------------------------------------------------------------------ *)
(** * Non-vacuity *)

(** [c06t_input] (Proofs/FaTermP.v) is the input ">a\nAC\n>b\nGGGG\n" (14 bytes): loop fuel
    2 * 14 + 4 = 32; [c06t_three_nexts fuel ffuel r0] calls [fa_next] three times and returns
    the three outcomes and the final state *)

(** a policy that always refuses, capacity 7: the first record fits, the second does not;
    the buffer-limit error is returned again and again, the reader stays [Incomplete] with a
    full buffer, nothing hangs *)
Example C06t_refusing_policy :
  let r0 := fa_new 7 (mkSource c06t_input 0 [] []) pol_refuse in
  FaTerm 32 2 r0 /\
  let '(o1, o2, o3, r3) := c06t_three_nexts 32 2 r0 in
  o1 = ORec (mkFaRec [62;97;10;65;67;10;62] 0 [2;5]) /\
  o2 = OErr FaBufferLimit /\ o3 = OErr FaBufferLimit /\
  st r3 = FIncomplete /\ length (buf r3) = cap r3 /\ FaTerm 32 2 r3.
Proof.
  cbv zeta. split; [apply FaTerm_new; cbn; lia|].
  assert (T0 : FaTerm 32 2 (fa_new 7 (mkSource c06t_input 0 [] []) pol_refuse)) by (apply FaTerm_new; cbn; lia).
  unfold c06t_three_nexts.
  destruct (fa_next 32 2 (fa_new 7 (mkSource c06t_input 0 [] []) pol_refuse)) as [r1 o1] eqn:E1.
  destruct (fa_next_terminates _ _ _ _ _ E1 T0) as (T1 & _).
  destruct (fa_next 32 2 r1) as [r2 o2] eqn:E2. destruct (fa_next_terminates _ _ _ _ _ E2 T1) as (T2 & _).
  destruct (fa_next 32 2 r2) as [r3 o3] eqn:E3. destruct (fa_next_terminates _ _ _ _ _ E3 T2) as (T3 & _).
  vm_compute in E1. inversion E1; subst r1 o1. vm_compute in E2. inversion E2; subst r2 o2.
  vm_compute in E3. inversion E3; subst r3 o3.
  do 5 (split; [reflexivity|]). exact T3.
Qed.

(** a policy that answers the current size (no growth): treated as a refusal *)
Example C06t_same_size_policy :
  let r0 := fa_new 7 (mkSource c06t_input 0 [] []) (fun _ c => Some c) in
  FaTerm 32 2 r0 /\
  let '(o1, o2, o3, r3) := c06t_three_nexts 32 2 r0 in
  o1 = ORec (mkFaRec [62;97;10;65;67;10;62] 0 [2;5]) /\
  o2 = OErr FaBufferLimit /\ o3 = OErr FaBufferLimit /\ st r3 = FIncomplete /\ cap r3 = 7.
Proof.
  cbv zeta. split; [apply FaTerm_new; cbn; lia|]. vm_compute. repeat split; reflexivity.
Qed.

(** a read script with a short read, an interrupt and a failure (refill fuel 3 + 2): the
    failure during the very first refill is returned and the reader can be asked again *)
Example C06t_failing_reads :
  let r0 := fa_new 7 (mkSource c06t_input 0 [RDeliver 2; RInterrupt; RFailI 5] []) pol_std in
  FaTerm 32 5 r0 /\
  let '(o1, o2, o3, r3) := c06t_three_nexts 32 5 r0 in
  o1 = OErr (FaIo 5) /\
  o2 = ORec (mkFaRec [62;97;10;65;67;10;62] 0 [2;5]) /\
  o3 = ORec (mkFaRec [62;98;10;71;71;71;71;10] 0 [2;7]) /\ st r3 = FFinished.
Proof.
  cbv zeta. split; [apply FaTerm_new; cbn; lia|]. vm_compute. repeat split; reflexivity.
Qed.

(** a failure in the middle of a record is final: error, then end of input *)
Example C06t_failing_reads_mid_record :
  let r0 := fa_new 7 (mkSource c06t_input 0 [RDeliver 2; RInterrupt; RDeliver 5; RFailI 5] []) pol_std in
  FaTerm 32 6 r0 /\
  let '(o1, o2, o3, r3) := c06t_three_nexts 32 6 r0 in
  o1 = ORec (mkFaRec [62;97;10;65;67;10;62] 0 [2;5]) /\ o2 = OErr (FaIo 5) /\ o3 = ONone /\
  st r3 = FFinished /\ buf r3 = [].
Proof.
  cbv zeta. split; [apply FaTerm_new; cbn; lia|]. vm_compute. repeat split; reflexivity.
Qed.

(** capacity 0 (the code asserts 3 <= capacity; termination does not need it) *)
Example C06t_capacity_zero :
  let r0 := fa_new 0 (mkSource c06t_input 0 [] []) (fun _ c => Some (S c)) in
  FaTerm 32 2 r0 /\ fa_next 32 2 r0 = (set_st r0 FFinished, ONone).
Proof. cbv zeta. split; [apply FaTerm_new; cbn; lia|]. vm_compute. reflexivity. Qed.

(** record sets, a refusing policy, a real seek that succeeds, a failing seek *)
Example C06t_sets_and_seeks :
  let r0 := fa_new 7 (mkSource c06t_input 0 [] [SOk; SFailI 3]) pol_refuse in
  FaTerm 32 2 r0 /\
  let '(r1, s1, o1) := fa_read_set 32 2 None r0 fa_set_empty in
  let '(r2, s2, o2) := fa_read_set 32 2 (Some 2) r1 s1 in
  let '(r3, o3) := fa_seek 2 r2 7 3 in
  let '(r4, o4) := fa_next 32 2 r3 in
  let '(r5, o5) := fa_seek 2 r4 1 100 in
  o1 = OSetOk /\ snpos s1 = 1 /\ o2 = OErr FaBufferLimit /\ snpos s2 = 0 /\ o3 = OOk /\
  o4 = ORec (mkFaRec [65;67;10;62;98;10;71] 0 [2]) /\ o5 = OErr (FaIo 3) /\ FaTerm 32 2 r5.
Proof.
  cbv zeta. split; [apply FaTerm_new; cbn; lia|].
  assert (T0 : FaTerm 32 2 (fa_new 7 (mkSource c06t_input 0 [] [SOk; SFailI 3]) pol_refuse)) by (apply FaTerm_new; cbn; lia).
  destruct (fa_read_set 32 2 None _ fa_set_empty) as [[r1 s1] o1] eqn:E1.
  destruct (fa_read_set_terminates _ _ _ _ _ _ _ _ E1 T0) as (T1 & _).
  destruct (fa_read_set 32 2 (Some 2) r1 s1) as [[r2 s2] o2] eqn:E2.
  destruct (fa_read_set_terminates _ _ _ _ _ _ _ _ E2 T1) as (T2 & _).
  destruct (fa_seek 2 r2 7 3) as [r3 o3] eqn:E3. destruct (fa_seek_terminates 32 _ _ _ _ _ _ E3 T2) as (T3 & _).
  destruct (fa_next 32 2 r3) as [r4 o4] eqn:E4. destruct (fa_next_terminates _ _ _ _ _ E4 T3) as (T4 & _).
  destruct (fa_seek 2 r4 1 100) as [r5 o5] eqn:E5. destruct (fa_seek_terminates 32 _ _ _ _ _ _ E5 T4) as (T5 & _).
  vm_compute in E1. inversion E1; subst r1 s1 o1. vm_compute in E2. inversion E2; subst r2 s2 o2.
  vm_compute in E3. inversion E3; subst r3 o3. vm_compute in E4. inversion E4; subst r4 o4.
  vm_compute in E5. inversion E5; subst r5 o5.
  do 7 (split; [reflexivity|]). exact T5.
Qed.

(** a history with arbitrary seek targets (item k -> line k, byte 3k), a read script with a
    one-byte read and an interrupt, a seek script with a failure, a limited policy.  (The
    seek to byte 27, behind the end of the data, leaves an empty buffer; the "record" read
    next is empty and its owned copy panics in the accessor: [HoOwned None] -- the reader
    itself neither hangs nor panics.) *)
Example C06t_history :
  map fst (fst (fa_hist 32 5 (fun k => Some (k, 3 * k))
                        [HSet 0; HSeek 1; HNext; HSeek 9; HOwned; HSetExact 1 2; HSeek 0; HSet 1; HNext]
                        (h_init c06t_input 7 [RDeliver 0; RInterrupt; RDeliver 3] [SOk; SFailI 4] (pol_plus 1 9)))) =
  [HoSet [mkFaRec [62;97;10;65;67;10;62] 0 [2;5]]; HoOk; HoRec (mkFaRec [62;97;10;65;67;10;62] 3 [5]); HoOk;
   HoOwned None; HoEnd; HoErr (FaIo 4); HoEnd; HoEnd].
Proof. vm_compute. reflexivity. Qed.
