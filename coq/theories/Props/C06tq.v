(** C06 (termination, FASTQ) — the FASTQ reader terminates for EVERY growth policy and EVERY
    fault script.

    In the model (Model/Fastq.v) the loops of the reader run on fuel, and running out of fuel
    is the explicit outcome [QOFuel] ("the call hangs"): [fq_resume] (resume_incomplete_search),
    [fq_set_loop] (read_record_set(_exact)) and the refill loop [fill_buf].  Props/C02.v and
    C04q.v show that the fuel suffices for fault-free sources and policies that never refuse.
    Here: fuel [2 * |data| + 4] for the reader loops and [|read script| + 2] for the refill loop
    ALWAYS suffice -- for every policy function (refusing, answering the same or a smaller size,
    answering anything), every read script (interrupted, failed, short reads), every seek
    script, every capacity (also 0) and every history of calls next / read_record_set(_exact) /
    seek / set_policy on a new reader.  And no such call panics.

    [fq_left r   := |qbuf r| + src_remaining (qsrc r)]   bytes still to be looked at
    [FqTerm fuel ffuel r :=  FqSane r                    (offsets in range, Props/C06s.v)
                          /\ QBufFits r                  (|buffer| <= capacity, Props/C09n.v)
                          /\ fq_left r <= |s_data (qsrc r)|
                          /\ 2 * |s_data (qsrc r)| + 4 <= fuel /\ |s_rs (qsrc r)| + 2 <= ffuel]
    (definitions in Proofs/FqTermP.v).  No further conjunct was needed; in particular nothing is
    assumed about the capacity (not even [1 <= qcap r]) or the policy.

    Why it terminates:
    - [fq_resume] ([C06_fq_resume_terminates]): the measure
        [fq_psi mk r = 2 * src_remaining + (1 if the buffer is full) + (1 if make_room can still act)]
      strictly decreases from one iteration to the next, whatever the policy answers: a full
      buffer is either grown to exactly the (strictly larger) size the policy answered, or the
      policy refuses and the loop ends with the buffer-limit error; the refill then either reads
      at least one byte or meets the end of the source, and then the next iteration ends in
      [check_end]; a failed read ends the loop; interrupted reads only consume the read script.
    - [fq_set_loop] ([C06_fq_set_loop_terminates]): the measure
        [fq_phi r = 2 * ((|buffer| - p0) + src_remaining) + (1 if no search is pending)]
      strictly decreases: a found record moves [p0] forward by at least one byte, an incomplete
      search leaves a pending stage, and the iteration after it is a [fq_resume] that ends with a
      record, the end of the input or an error.  [fq_left <= |data|] bounds the measure, and the
      data of the source never changes (refills move bytes from the source into the buffer,
      make_room and a dropped buffer only lose bytes, a seek empties the buffer).

    DEVIATION from the target statement of the history-level corollary.  [fq_hstep]
    (Proofs/FastqHistP.v) shows EVERY outcome of a seek other than [QOOk] as [OBad]; a seek whose
    [io::Seek] call or whose refill fails returns [QOErr (FqIo k)], which is therefore shown as
    [OBad (QOErr (FqIo k))].  So "no observation is [OBad _]" is false for seek/read scripts
    with failures ([C06_fq_history_target_counterexample]).  What is proved instead:
    - [C06_fq_history_never_hangs_or_panics]: for all scripts, an observation [OBad o] can only
      be such an I/O error of a seek -- never [QOFuel], never [QOPanic], never an outcome of the
      wrong kind ([fq_next] never returns [QOSetOk]/[QOOk], [fq_read_set] never [QOOk]/[QORec]);
    - the target conclusion verbatim for histories without seeks
      ([C06_fq_history_never_hangs_or_panics_no_seek]: every policy, every read script), and for
      scripts without failure items ([..._no_failure]: every policy; interrupted and short reads,
      seeks allowed).
    The hypothesis [s_pos s = 0] of the first conjunct of [C06_fq_terminates] is kept from the
    target; it is not used ([fq_new_term]).
    Statements only; proofs are in Proofs/FqTermP.v. *)
From SeqIO Require Import Model.Base Model.Fastq Model.Views Spec.FastaSpec Spec.FastqSpec Spec.CursorQ
  Proofs.FaultP Proofs.FqGrowSitesP Proofs.FqSaneP Proofs.FqInterruptP Proofs.FastqSetP Proofs.FastqHistP
  Proofs.FastqHistEx Proofs.FqTermP.

Theorem C06_fq_terminates :
  (forall c s p fuel ffuel, 2 * length (s_data s) + 4 <= fuel -> length (s_rs s) + 2 <= ffuel -> s_pos s = 0 ->
     FqTerm fuel ffuel (fq_new c s p)) /\
  (forall fuel ffuel r r' o, fq_next fuel ffuel r = (r', o) -> FqTerm fuel ffuel r ->
     FqTerm fuel ffuel r' /\ o <> QOFuel /\ (forall x, o <> QOPanic x)) /\
  (forall fuel ffuel n r rs r' rs' o, fq_read_set fuel ffuel n r rs = (r', rs', o) -> FqTerm fuel ffuel r ->
     FqTerm fuel ffuel r' /\ o <> QOFuel /\ (forall x, o <> QOPanic x)) /\
  (forall fuel ffuel r line byte_ r' o, fq_seek ffuel r line byte_ = (r', o) -> FqTerm fuel ffuel r ->
     FqTerm fuel ffuel r' /\ o <> QOFuel /\ (forall x, o <> QOPanic x)) /\
  (forall fuel ffuel r p, FqTerm fuel ffuel r -> FqTerm fuel ffuel (fq_set_policy r p)).
Proof. exact fq_terminates. Qed.
Print Assumptions C06_fq_terminates.

(** the loops themselves: resume_incomplete_search with more fuel than its measure ... *)
Theorem C06_fq_resume_terminates : forall ffuel mk fuel s r r' res,
  fq_resume fuel ffuel s mk r = (r', res) -> QBufFits r -> QFuelOk ffuel r -> fq_psi mk r < fuel ->
  res <> QrFuel.
Proof. exact fq_resume_terminates. Qed.
Print Assumptions C06_fq_resume_terminates.

Theorem C06_fq_psi_bound : forall mk r, fq_psi mk r <= 2 * length (s_data (qsrc r)) + 2.
Proof. exact fq_psi_bound. Qed.
Print Assumptions C06_fq_psi_bound.

(** ... and the record-set loop ([LoopOk]: the sanity of the state at the head of an iteration) *)
Theorem C06_fq_set_loop_terminates : forall rfuel ffuel fuel n is_new r ps r' ps' res,
  fq_set_loop fuel rfuel ffuel n is_new r ps = (r', ps', res) ->
  LoopOk r -> QBufFits r -> QFuelOk ffuel r -> 2 * length (s_data (qsrc r)) + 3 <= rfuel ->
  (qst r = QFinished /\ 1 <= fuel) \/ fq_phi r + 2 <= fuel ->
  res <> QLFuel.
Proof. exact fq_set_loop_terminates. Qed.
Print Assumptions C06_fq_set_loop_terminates.

(** outcomes of the wrong kind do not occur (needed because the history level shows them as [OBad]) *)
Theorem C06_fq_outcome_kinds :
  (forall fuel ffuel r r' o, fq_next fuel ffuel r = (r', o) -> o <> QOSetOk /\ o <> QOOk) /\
  (forall fuel ffuel n r rs r' rs' o, fq_read_set fuel ffuel n r rs = (r', rs', o) ->
     o <> QOOk /\ (forall x, o <> QORec x)) /\
  (forall ffuel r line byte_ r' o, fq_seek ffuel r line byte_ = (r', o) ->
     o = QOOk \/ (exists k, o = QOErr (FqIo k)) \/ o = QOFuel).
Proof. exact fq_outcome_kinds. Qed.
Print Assumptions C06_fq_outcome_kinds.

(** histories: no call hangs or panics; [OBad] only shows the I/O error of a seek *)
Theorem C06_fq_history_never_hangs_or_panics : forall inp cap0 rs ss pol fuel ffuel ops,
  2 * length inp + 4 <= fuel -> length rs + 2 <= ffuel ->
  Forall (fun op => match op with HSeek k => k < length (fq_spec_all inp) | _ => True end) ops ->
  Forall (fun ob => forall o, ob = OBad o -> exists k, o = QOErr (FqIo k))
         (fst (fq_hrun inp fuel ffuel ops (fq_hconf0 cap0 inp rs ss pol))).
Proof. exact fq_history_never_hangs_or_panics. Qed.
Print Assumptions C06_fq_history_never_hangs_or_panics.

Theorem C06_fq_history_never_hangs_or_panics_no_seek : forall inp cap0 rs ss pol fuel ffuel ops,
  2 * length inp + 4 <= fuel -> length rs + 2 <= ffuel ->
  Forall (fun op => match op with HSeek _ => False | _ => True end) ops ->
  Forall (fun ob => forall o, ob <> OBad o) (fst (fq_hrun inp fuel ffuel ops (fq_hconf0 cap0 inp rs ss pol))).
Proof. exact fq_history_never_hangs_or_panics_no_seek. Qed.
Print Assumptions C06_fq_history_never_hangs_or_panics_no_seek.

Theorem C06_fq_history_never_hangs_or_panics_no_failure : forall inp cap0 rs ss pol fuel ffuel ops,
  2 * length inp + 4 <= fuel -> length rs + 2 <= ffuel ->
  Forall (fun i => match i with RFailI _ => False | _ => True end) rs -> Forall (fun i => i = SOk) ss ->
  Forall (fun op => match op with HSeek k => k < length (fq_spec_all inp) | _ => True end) ops ->
  Forall (fun ob => forall o, ob <> OBad o) (fst (fq_hrun inp fuel ffuel ops (fq_hconf0 cap0 inp rs ss pol))).
Proof. exact fq_history_never_hangs_or_panics_no_failure. Qed.
Print Assumptions C06_fq_history_never_hangs_or_panics_no_failure.

(** the target statement (conclusion [forall o, ob <> OBad o] for all scripts) is false: a failed
    seek, or a failed read during the refill of a seek, is shown as [OBad (QOErr (FqIo k))] *)
Example C06_fq_history_target_counterexample :
  2 * length c04_inp + 4 <= 66 /\ 0 < length (fq_spec_all c04_inp) /\
  fst (fq_hrun c04_inp 66 2 [HSeek 0] (fq_hconf0 4 c04_inp [] [SFailI 3] pol_std)) = [OBad (QOErr (FqIo 3))] /\
  fst (fq_hrun c04_inp 66 3 [HSeek 0] (fq_hconf0 4 c04_inp [RFailI 5] [] pol_std)) = [OBad (QOErr (FqIo 5))].
Proof. split; [vm_compute; lia|]. split; [vm_compute; lia|]. split; vm_compute; reflexivity. Qed.

(** non-vacuity.  Outcome tags ([c06t_tag]): 0 end, 1 record, 2 set ok, 3 seek ok, 4 error.
    A refusing policy, capacity 4 (the first record has 11 bytes), short and interrupted reads:
    every read call returns the buffer-limit error (and can be repeated: still no hang) *)
Example C06_fq_terminates_refusing_policy :
  FqTerm 66 4 c06t_refuse /\
  let a := fq_next 66 4 c06t_refuse in
  let b := fq_next 66 4 (fst a) in
  let c := fq_read_set 66 4 None (fst b) fq_set_empty in
  let d := fq_seek 4 (fst (fst c)) 1 0 in
  let e := fq_read_set 66 4 (Some 2) (fst d) fq_set_empty in
  map c06t_tag [snd a; snd b; snd c; snd d; snd e] =
  [(4, Some FqBufferLimit); (4, Some FqBufferLimit); (4, Some FqBufferLimit); (3, None); (4, Some FqBufferLimit)] /\
  FqTerm 66 4 (fst (fst e)).
Proof.
  assert (T : FqTerm 66 4 c06t_refuse) by (apply fq_new_term; vm_compute; lia).
  split; [exact T|]. cbv zeta. split; [vm_compute; reflexivity|].
  apply FqTerm_read_set, FqTerm_seek, FqTerm_read_set, FqTerm_next, FqTerm_next. exact T.
Qed.

(** a policy that answers the current size, capacity 11: two records are delivered, the third
    needs growth: buffer-limit error; afterwards the reader reports the end *)
Example C06_fq_terminates_same_size_policy :
  FqTerm 66 4 c06t_same /\
  let a := fq_next 66 4 c06t_same in
  let b := fq_next 66 4 (fst a) in
  let c := fq_read_set 66 4 (Some 2) (fst b) fq_set_empty in
  let d := fq_next 66 4 (fst (fst c)) in
  map c06t_tag [snd a; snd b; snd c; snd d] = [(1, None); (1, None); (4, Some FqBufferLimit); (0, None)].
Proof.
  split; [apply fq_new_term; vm_compute; lia|]. vm_compute. reflexivity.
Qed.

(** a failing read script and a failing seek script ([c14_fq_reader] of Proofs/FaultP.v: 20 bytes,
    reads of 5 and 3 bytes, then a failed read; the first seek fails) *)
Example C06_fq_terminates_failing_reads :
  FqTerm 44 5 c14_fq_reader /\
  let a := fq_next 44 5 c14_fq_reader in
  let b := fq_next 44 5 (fst a) in
  let c := fq_seek 5 (fst b) 1 0 in
  let d := fq_read_set 44 5 None (fst c) fq_set_empty in
  map c06t_tag [snd a; snd b; snd c; snd d] = [(4, Some (FqIo 3)); (0, None); (4, Some (FqIo 9)); (0, None)].
Proof.
  split; [apply fq_new_term; vm_compute; lia|]. vm_compute. reflexivity.
Qed.

(** a history with interrupted/short reads, a refusing-at-12 policy and a failing second seek,
    under the fuel of the theorem: tags of [c04_show]: 1 record, 3 set, 5 error, 8 seek ok *)
Example C06_fq_history_nonvacuous :
  let ops := [HNext; HSeek 1; HSet false; HSeek 0; HSetExact true 2; HNext] in
  2 * length c04_inp + 4 <= 66 /\ length [RDeliver 2; RInterrupt] + 2 <= 4 /\
  Forall (fun op => match op with HSeek k => k < length (fq_spec_all c04_inp) | _ => True end) ops /\
  map (fun o => fst (fst (c04_show o)))
      (fst (fq_hrun c04_inp 66 4 ops (fq_hconf0 4 c04_inp [RDeliver 2; RInterrupt] [SOk; SFailI 3] (pol_plus 4 12)))) =
  [1; 8; 3; 8; 5; 1].
Proof.
  cbv zeta. split; [vm_compute; lia|]. split; [vm_compute; lia|]. split.
  - repeat constructor; vm_compute; lia.
  - vm_compute. reflexivity.
Qed.
