(** C07 — Parallel processing delivers every record set exactly once with its own result.
    Statements only; proofs are in Proofs/ParContent.v, Proofs/ParZip.v.
    All protocol theorems hold for every n >= 1, q >= 1, every fill script, every
    consumer behaviour and every schedule (every state reachable by [Par.apply]). *)
From SeqIO Require Import Model.Par Proofs.ParP Proofs.ParEx Proofs.ParInv Proofs.ParContent Proofs.ParZip.
Require Import List Arith Permutation.
Import ListNotations.

(** content conservation: every filled set (contents 0,1,2,..) is in exactly one
    place: delivered, in next()'s hand, in the result channel, with a worker, in the
    job queue, in the reader's hand on its way to the pool, or lost (dropped
    undelivered after the consumer left). *)
Theorem C07_inv : forall cfg s, reachable cfg s ->
  Permutation (contents s) (seq 0 (length (filled s))) /\ filled s = seq 0 (length (filled s)).
Proof. exact content_conservation. Qed.
Print Assumptions C07_inv.

(** every result in the result channel, with a worker after `work` returned, in
    next()'s hand or delivered is the work result of the set it travels with *)
Theorem C07_pairing : forall cfg s, reachable cfg s ->
  Forall (msg_ok cfg) (doneq s) /\ Forall (ajob_ok cfg) (active s) /\
  mpc_ok cfg (mpc s) /\ Forall (fun p => snd p = work cfg (fst p)) (delivered s).
Proof. exact inv_pair_reachable. Qed.
Print Assumptions C07_pairing.

(** no set is delivered twice, only filled sets are delivered, each with its result *)
Theorem C07_at_most_once : forall cfg s, reachable cfg s ->
  NoDup (map fst (delivered s)) /\
  (forall c, In c (map fst (delivered s)) -> In c (filled s)) /\
  (forall c o, In (c, o) (delivered s) -> o = work cfg c).
Proof. exact delivered_at_most_once. Qed.
Print Assumptions C07_at_most_once.

(** a consumer that calls next() until None ([patient]: Drain, or the `result?`
    consumer of parallel_record_impl! when the reader reports no error), no failing
    init closure: when read_parallel_init has returned, every filled set 0..k-1 was
    delivered exactly once with its result, all k sets of the script were filled and
    none was lost. *)
Theorem C07_exactly_once : forall cfg s, wf_config cfg -> reachable cfg s ->
  final s = true -> patient cfg -> rinit_ok cfg = true -> mfail s = false ->
  Permutation (delivered s) (map (fun c => (c, work cfg c)) (seq 0 (nfills cfg))) /\
  length (filled s) = nfills cfg /\ lost s = [].
Proof. exact delivered_exactly_once. Qed.
Print Assumptions C07_exactly_once.

(** one worker thread: delivery in fill order (at any time a prefix of 0,1,2,..; at
    the end, for a patient consumer, exactly 0..k-1) *)
Theorem C07_single_worker_prefix : forall cfg s, wf_config cfg -> reachable cfg s ->
  nworkers cfg = 1 -> exists rest, seq 0 (length (filled s)) = map fst (delivered s) ++ rest.
Proof. exact single_worker_prefix. Qed.
Print Assumptions C07_single_worker_prefix.

Theorem C07_single_worker_order : forall cfg s, wf_config cfg -> reachable cfg s ->
  final s = true -> patient cfg -> rinit_ok cfg = true -> mfail s = false ->
  nworkers cfg = 1 ->
  delivered s = map (fun c => (c, work cfg c)) (seq 0 (nfills cfg)).
Proof. exact single_worker_order. Qed.
Print Assumptions C07_single_worker_order.

(** the end marker is sent only when no job is queued or running and the reader
    holds no filled set; in the channel it is the last message *)
Theorem C07_end_after_all : forall cfg s ok s', wf_config cfg -> reachable cfg s ->
  apply cfg s (ESendEnd ok) = Some s' -> jobs s = [] /\ active s = [] /\ rexec (rpc s) = [].
Proof. exact end_after_all. Qed.
Print Assumptions C07_end_after_all.

Theorem C07_end_is_last : forall cfg s, wf_config cfg -> reachable cfg s ->
  forall l1 l2, doneq s = l1 ++ MEnd :: l2 ->
  l2 = [] /\ jobs s = [] /\ active s = [] /\ end_sent (rpc s) = true.
Proof. exact end_is_last. Qed.
Print Assumptions C07_end_is_last.

(** per-record layer.  [w r d] = the slot value after `work(record, &mut d)`, [d0] =
    record_data_init().  If work overwrites the slot ([w r d = f r]) then, whatever the
    recycled output vector contained (shorter, equal or longer than the record set),
    the first |recs| outputs are the results of the records in order, surplus old
    outputs stay behind them, and the consumer's zip pairs record i with result i. *)
Theorem C07_work_zip : forall (R D : Type) (w : R -> D -> D) (f : R -> D) d0,
  (forall r d, w r d = f r) ->
  forall old recs, firstn (length recs) (work_zip w d0 old recs) = map f recs.
Proof. exact work_zip_firstn. Qed.
Print Assumptions C07_work_zip.

Theorem C07_work_zip_general : forall (R D : Type) (w : R -> D -> D) d0 old recs,
  firstn (length recs) (work_zip w d0 old recs)
  = map (fun p => w (fst p) (snd p)) (combine recs (slots d0 old (length recs))) /\
  skipn (length recs) (work_zip w d0 old recs) = skipn (length recs) old /\
  length (work_zip w d0 old recs) = Nat.max (length old) (length recs).
Proof. exact work_zip_general. Qed.
Print Assumptions C07_work_zip_general.

Theorem C07_consume_zip : forall (R D : Type) (w : R -> D -> D) (f : R -> D) d0,
  (forall r d, w r d = f r) ->
  forall old recs, consume_zip recs (work_zip w d0 old recs) = map (fun r => (r, f r)) recs.
Proof. exact consume_work_zip. Qed.
Print Assumptions C07_consume_zip.

Theorem C07_consume_zip_nth : forall (R D : Type) (recs : list R) (out : list D) i r0 o0,
  i < length recs -> length recs <= length out ->
  nth i (consume_zip recs out) (r0, o0) = (nth i recs r0, nth i out o0).
Proof. exact consume_zip_nth. Qed.
Print Assumptions C07_consume_zip_nth.

(** Non-vacuity.  n = 2, q = 2, 5 sets, draining consumer, under a schedule that
    prefers workers (delivery order differs from fill order with two workers under
    other schedules; here we only need a complete run). *)
Example C07_nonvacuous :
  wf_config c07_cfg /\ patient c07_cfg /\ accepts c07_cfg c07_trace = true /\
  final (end_state c07_cfg c07_trace) = true /\ mfail (end_state c07_cfg c07_trace) = false /\
  length (delivered (end_state c07_cfg c07_trace)) = 5 /\
  existsb (fun e => match e with ESendEnd true => true | _ => false end) c07_trace = true.
Proof.
  split; [split; cbn; auto|]. split; [left; reflexivity|].
  repeat split; vm_compute; reflexivity.
Qed.

(** one worker, the `result?` consumer, last-enabled-first schedule *)
Example C07_nonvacuous_single :
  wf_config c07_cfg1 /\ patient c07_cfg1 /\ nworkers c07_cfg1 = 1 /\
  final (end_state c07_cfg1 c07_trace1) = true /\
  delivered (end_state c07_cfg1 c07_trace1) = [(0,1); (1,2); (2,3); (3,4)].
Proof.
  split; [split; cbn; auto|]. split; [right; split; reflexivity|].
  repeat split; vm_compute; reflexivity.
Qed.

(** two workers can deliver out of order: a reachable state whose delivery order is
    not the fill order (so C07_single_worker_order really needs n = 1) *)
Example C07_two_workers_out_of_order :
  accepts c07_cfg c07_ooo = true /\ delivered (end_state c07_cfg c07_ooo) = [(1, 8)].
Proof. split; vm_compute; reflexivity. Qed.

(** work_zip on concrete vectors: old shorter / longer than the record set *)
Example C07_work_zip_shorter :
  work_zip (fun r (_ : nat) => r * 10) 0 [91] [1; 2; 3] = [10; 20; 30].
Proof. reflexivity. Qed.
Example C07_work_zip_longer :
  work_zip (fun r (_ : nat) => r * 10) 0 [91; 92; 93; 94] [1; 2] = [10; 20; 93; 94] /\
  consume_zip [1; 2] (work_zip (fun r (_ : nat) => r * 10) 0 [91; 92; 93; 94] [1; 2])
  = [(1, 10); (2, 20)].
Proof. split; reflexivity. Qed.

(** a reachable state with the end marker in the result channel (hypothesis of
    C07_end_is_last) *)
Example C07_nonvacuous_end_in_channel :
  existsb (fun n => match doneq (end_state c07_cfg (firstn n c07_trace)) with
                    | [MEnd] => true | _ => false end)
          (seq 0 (length c07_trace)) = true.
Proof. vm_compute; reflexivity. Qed.
