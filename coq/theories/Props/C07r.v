(** C07r (C07 for the per-record functions) — parallel_fasta / parallel_fastq deliver every RECORD
    exactly once, together with the output computed for that very record.

    The per-record functions (macro parallel_record_impl! of /repo/src/parallel.rs) are built on
    read_parallel_init: a data set is (RecordSet, (Vec<D>, S)).  The WORK closure zips the records of
    the set with the recycled output vector and calls work(rec, &mut d), pushing
    record_data_init()-initialised slots for surplus records ([work_zip w d0 old recs], Model/Par.v);
    the CONSUMER closure zips the records with the outputs again and calls func(rec, &mut d) for each
    in order ([consume_zip recs out] = the list of pairs func is called with).  Props/C07.v has the
    protocol (every SET exactly once with its result, for all schedules) and the two zips in
    isolation; Props/C15c.v composes the protocol with the FASTQ/FASTA reader models (the batches the
    reader fills).  Here the last step: from sets to RECORDS.

    Refinement.  Content id c of the protocol carries the batch [nth c batches []].
    Part 1 ([old_of]): the worker turns the output vector that travelled with the recycled set into
       [work_zip w d0 (old_of c) batch_c]; which recycled set meets which batch depends on the
       schedule, so [old_of : nat -> list D] is ARBITRARY (shorter, equal or longer than the batch,
       any contents).  What func is called with over a whole run:
       [seen_of batches w d0 old_of (delivered s)]
         = concat (map (fun p => consume_zip batch_(fst p) (work_zip w d0 (old_of (fst p)) batch_(fst p))) (delivered s)).
    Part 2 (tracked): no assumption on the vectors at all — they are COMPUTED along the event trace:
       [prun batches w d0 cmut evs] keeps [outs t], the output vector of data set (tag) t — empty at
       creation (`vec![]`), rewritten by [work_zip] at every [EWork t c _], and rewritten ARBITRARILY
       ([cmut c], func gets `&mut D`) when the consumer goes through the set at [EConsume (CData t c _)] —
       and [seen], the pairs func was called with, read off [outs t] at that moment.
       [C07_tracked_refines]: for EVERY accepted trace the tracked run is an instance of Part 1
       (the vector of a worked set still is the worker's result for exactly that set when the
       consumer gets it, whatever happened to the other data sets meanwhile: needs that tags and
       contents are in one place at a time, Proofs/ParInv.v / ParContent.v).

    What is proved, in plain words ([w r d = f r]: the work closure overwrites its slot, as the
    documentation of parallel_fastq requires: "old data ... has to be overwritten"):
    - [C07_records_exactly_once] (the target statement, unchanged): draining consumer, any script end,
      n >= 1 workers, queue length q >= 1, EVERY schedule, ANY recycled vectors: when
      read_parallel_init has returned without init failure, func has been called with exactly the
      pairs (r, f r), r ranging over all records of all batches — each record once (as a
      permutation: set order may differ with n > 1, records inside a set stay in file order,
      [C07_records_at_most_once] clause 3), and with one worker in file order.
    - [C07_records_exactly_once_result_consumer]: the same for the consumer parallel_record_impl!
      really uses (`result?`: stops at the first error = DrainStopErr) when the reader reports no error.
      With a reader error this consumer can MISS records of sets in front of the error (the error
      is sent while jobs are still running): [C07r_result_consumer_can_miss_records] — for it only
      the at-most-once clause holds.
    - [C07_records_at_most_once]: ANY configuration (any consumer, in particular [StopAfter k] = func
      returned Some after k sets; failing init closures; any script), ANY reachable state: no set is
      delivered twice, only filled sets; every pair func has seen is (r, f r); what it has seen is the
      concatenation, set by set in file order, of distinct batches, hence a sub-multiset of all
      records with results; with one worker it is (r, f r) for a PREFIX of the file's records, and
      so is every prefix of it (func returning Some in the middle of a set).
    - [C07_records_general_work]: no assumption on [w]: record i of set c is worked into slot i of
      the recycled vector if there is one, into a fresh [d0] otherwise, and func gets exactly that.
    - [C07_parallel_fastq_records_end_to_end] / [C07_parallel_fasta_records_end_to_end]: the batches
      are what the reader models really produce on an input ([fq_fill_seq] / [fa_fill_seq] of
      Proofs/ParComposeP.v); func sees (r, f r) for the owned contents r of the first j items of the
      specification stream (all of them when the input has no invalid record; FASTA: all records
      unless the first line is invalid), permutation / in order with one worker; the error is
      received exactly once otherwise.  (FASTQ: j can be smaller than the number of leading valid
      records, see the counter-example in Props/C15c.v — read_record_set drops the records parsed
      in the same call as the invalid one.)
    - [C07_tracked_records_exactly_once], [C07_tracked_records_at_most_once]: the same two statements
      about the tracked vectors, for every trace.
    No deviation from the target statement; the additional theorems are stronger/extra.
    Statements only; proofs are in Proofs/ParRecordsP.v. *)
From SeqIO Require Import Model.Base Model.Fastq Model.Views Spec.FastaSpec Spec.FastqSpec Spec.CursorQ
  Proofs.Window Proofs.FastaInv Proofs.FqSpecP Proofs.ViewsP Proofs.FastqInv Proofs.FastqNextP
  Proofs.FastqSetP Proofs.FastqSeekP Proofs.CursorP Proofs.CursorBridgeP Proofs.FastqHistP Proofs.FastqHistEx.
From SeqIO Require Import Model.Fasta Spec.Cursor Proofs.FastaStream Proofs.FastaNextP Proofs.FastaTopP
  Proofs.FastaPosP Proofs.FastaInitP Proofs.FastaSetP Proofs.FastaSeekP Proofs.FastaHistP.
From SeqIO Require Import Model.Par Proofs.ParP Proofs.ParEx Proofs.ParInv Proofs.ParContent Proofs.ParZip
  Proofs.ParLive Proofs.ParErr Proofs.ParComposeP Proofs.ParRecordsP.
Require Import List Arith Permutation.
Import ListNotations.

(* ------------------------------------------------------------------ *)
(** * 1. Every record exactly once (the target) *)

Theorem C07_records_exactly_once : forall (R D : Type) (batches : list (list R)) (w : R -> D -> D) (f : R -> D) d0
                                          (old_of : nat -> list D) fe n q wk s,
  (forall r d, w r d = f r) ->                       (* the work closure overwrites its slot: *d = f(rec) *)
  1 <= n -> 1 <= q ->
  let cfg := mkConfig n q true None (length batches, fe) Drain wk in
  reachable cfg s -> final s = true -> mfail s = false ->
  let seen := concat (map (fun p => consume_zip (nth (fst p) batches [])
                                        (work_zip w d0 (old_of (fst p)) (nth (fst p) batches []))) (delivered s)) in
  Permutation seen (map (fun r => (r, f r)) (concat batches)) /\
  (n = 1 -> seen = map (fun r => (r, f r)) (concat batches)).
Proof. exact records_exactly_once. Qed.
Print Assumptions C07_records_exactly_once.

(** the consumer of parallel_record_impl! (`result?`), a reader that reports no error *)
Theorem C07_records_exactly_once_result_consumer : forall (R D : Type) (batches : list (list R)) (w : R -> D -> D)
                                          (f : R -> D) d0 (old_of : nat -> list D) n q wk s,
  (forall r d, w r d = f r) ->
  1 <= n -> 1 <= q ->
  let cfg := mkConfig n q true None (length batches, ScriptEnd) DrainStopErr wk in
  reachable cfg s -> final s = true -> mfail s = false ->
  let seen := concat (map (fun p => consume_zip (nth (fst p) batches [])
                                        (work_zip w d0 (old_of (fst p)) (nth (fst p) batches []))) (delivered s)) in
  Permutation seen (map (fun r => (r, f r)) (concat batches)) /\
  (n = 1 -> seen = map (fun r => (r, f r)) (concat batches)).
Proof. exact records_exactly_once_result_consumer. Qed.
Print Assumptions C07_records_exactly_once_result_consumer.

(* ------------------------------------------------------------------ *)
(** * 2. Early exit, any consumer, any reachable state *)

(** [seen_of batches w d0 old_of dl] is the [seen] of the theorems above for the delivered list [dl];
    [with_result f l = map (fun r => (r, f r)) l]; [recs_of batches ids = concat (map (fun c => nth c batches []) ids)] *)
Theorem C07_records_at_most_once : forall (R D : Type) (batches : list (list R)) (w : R -> D -> D) (f : R -> D) d0
                                          (old_of : nat -> list D) cfg s,
  (forall r d, w r d = f r) ->
  wf_config cfg -> nfills cfg = length batches -> reachable cfg s ->
  let seen := seen_of batches w d0 old_of (delivered s) in
  let ids := map fst (delivered s) in
  NoDup ids /\ (forall c, In c ids -> c < length batches) /\
  seen = with_result f (recs_of batches ids) /\
  Forall (fun p => snd p = f (fst p)) seen /\
  (exists rest, Permutation (with_result f (concat batches)) (seen ++ rest)) /\
  (nworkers cfg = 1 -> ids = seq 0 (length ids) /\
                       seen = with_result f (concat (firstn (length ids) batches)) /\
                       forall j, j <= length seen -> firstn j seen = firstn j (with_result f (concat batches))).
Proof. exact records_at_most_once. Qed.
Print Assumptions C07_records_at_most_once.

(** any work function: record i of a set is worked into slot i of the recycled vector, or into a
    fresh d0 when the vector is too short ([slots], Proofs/ParZip.v), and func gets that value *)
Theorem C07_records_general_work : forall (R D : Type) (batches : list (list R)) (w : R -> D -> D) d0
                                          (old_of : nat -> list D) dl,
  seen_of batches w d0 old_of dl =
  concat (map (fun p => let b := nth (fst p) batches [] in
                        combine b (map (fun x => w (fst x) (snd x)) (combine b (slots d0 (old_of (fst p)) (length b))))) dl).
Proof. exact @seen_of_general. Qed.
Print Assumptions C07_records_general_work.

(* ------------------------------------------------------------------ *)
(** * 3. End to end over the reader models *)

Theorem C07_parallel_fastq_records_end_to_end : forall (D : Type) inp cap0 rs ss pol fuel ffuel m n q
        (w : owned_t -> D -> D) (f : owned_t -> D) d0 (old_of : nat -> list D) wk s,
  std_cfg inp cap0 rs ss pol fuel ffuel -> length (fq_spec_all inp) + 2 <= m -> 1 <= n -> 1 <= q ->
  (forall r d, w r d = f r) ->
  let '(batches, fin) := fq_fill_seq m fuel ffuel (fq_new cap0 (mkSource inp 0 rs ss) pol) fq_set_empty in
  let cfg := mkConfig n q true None (script_of batches fin) Drain wk in
  reachable cfg s -> final s = true -> mfail s = false ->
  let seen := concat (map (fun p => consume_zip (nth (fst p) batches [])
                                        (work_zip w d0 (old_of (fst p)) (nth (fst p) batches []))) (delivered s)) in
  exists j,
    j <= length (lead_recs (fq_spec_all inp)) /\
    Permutation seen (map (fun r => (r, f r)) (map own_of (firstn j (fq_spec_all inp)))) /\
    (n = 1 -> seen = map (fun r => (r, f r)) (map own_of (firstn j (fq_spec_all inp)))) /\
    match first_bad (fq_spec_all inp) with
    | None => j = length (fq_spec_all inp) /\ fin = Some QONone /\ nerr_seen s = 0
    | Some (QErr e l a) => fin = Some (QOErr (fq_err_of e)) /\ nerr_seen s = 1 /\
                           fq_spec_all inp = lead_recs (fq_spec_all inp) ++ [QErr e l a]
    | Some (QRec _) => False
    end.
Proof. exact parallel_fastq_records_end_to_end. Qed.
Print Assumptions C07_parallel_fastq_records_end_to_end.

Theorem C07_parallel_fasta_records_end_to_end : forall (D : Type) inp cap0 rs sks pol fuel ffuel m n q
        (w : fa_owned_t -> D -> D) (f : fa_owned_t -> D) d0 (old_of : nat -> list D) wk s,
  3 <= cap0 -> forallb item_ok rs = true -> PolOk pol ->
  length rs + 2 <= ffuel -> length inp + 2 <= fuel -> length (fa_spec inp) + 2 <= m -> 1 <= n -> 1 <= q ->
  (forall r d, w r d = f r) ->
  let '(batches, fin) := fa_fill_seq m fuel ffuel (fa_new cap0 (mkSource inp 0 rs sks) pol) fa_set_empty in
  let cfg := mkConfig n q true None (fa_script_of batches fin) Drain wk in
  reachable cfg s -> final s = true -> mfail s = false ->
  let seen := concat (map (fun p => consume_zip (nth (fst p) batches [])
                                        (work_zip w d0 (old_of (fst p)) (nth (fst p) batches []))) (delivered s)) in
  match fa_spec inp with
  | [SInvalidStart l b] =>
      seen = [] /\ fin = Some (OErr (FaInvalidStart l b)) /\ nerr_seen s = 1
  | _ =>
      Permutation seen (map (fun r => (r, f r)) (map item_owned (fa_records inp))) /\
      (n = 1 -> seen = map (fun r => (r, f r)) (map item_owned (fa_records inp))) /\
      fin = Some ONone /\ nerr_seen s = 0
  end.
Proof. exact parallel_fasta_records_end_to_end. Qed.
Print Assumptions C07_parallel_fasta_records_end_to_end.

(* ------------------------------------------------------------------ *)
(** * 4. The output vectors tracked along the trace *)

(** [PInv batches w d0 s p]: in state [s] with payload state [p], every worked set — with a worker
    after `work` returned, in the result channel, in next()'s hand — travels with the vector
    [work_zip w d0 (olds p c) batch_c] the worker made for exactly its content c, and what func has
    seen so far is [seen_of batches w d0 (olds p) (delivered s)] *)
Theorem C07_tracked_refines : forall (R D : Type) (batches : list (list R)) (w : R -> D -> D) d0
                                     (cmut : nat -> list D -> list D) cfg evs s,
  wf_config cfg -> run cfg init_state evs = Some s ->
  PInv batches w d0 s (prun batches w d0 cmut evs).
Proof. exact @tracked_refines. Qed.
Print Assumptions C07_tracked_refines.

Theorem C07_tracked_seen : forall (R D : Type) (batches : list (list R)) (w : R -> D -> D) d0
                                  (cmut : nat -> list D -> list D) cfg evs s,
  wf_config cfg -> run cfg init_state evs = Some s ->
  seen (prun batches w d0 cmut evs) = seen_of batches w d0 (olds (prun batches w d0 cmut evs)) (delivered s).
Proof. exact @tracked_seen. Qed.
Print Assumptions C07_tracked_seen.

Theorem C07_tracked_records_exactly_once : forall (R D : Type) (batches : list (list R)) (w : R -> D -> D) d0
                                  (cmut : nat -> list D -> list D) (f : R -> D) fe n q wk evs s,
  (forall r d, w r d = f r) -> 1 <= n -> 1 <= q ->
  let cfg := mkConfig n q true None (length batches, fe) Drain wk in
  run cfg init_state evs = Some s -> final s = true -> mfail s = false ->
  Permutation (seen (prun batches w d0 cmut evs)) (map (fun r => (r, f r)) (concat batches)) /\
  (n = 1 -> seen (prun batches w d0 cmut evs) = map (fun r => (r, f r)) (concat batches)).
Proof. exact @tracked_records_exactly_once. Qed.
Print Assumptions C07_tracked_records_exactly_once.

Theorem C07_tracked_records_at_most_once : forall (R D : Type) (batches : list (list R)) (w : R -> D -> D) d0
                                  (cmut : nat -> list D -> list D) (f : R -> D) cfg evs s,
  (forall r d, w r d = f r) -> wf_config cfg -> nfills cfg = length batches ->
  run cfg init_state evs = Some s ->
  NoDup (map fst (delivered s)) /\
  seen (prun batches w d0 cmut evs) = with_result f (recs_of batches (map fst (delivered s))) /\
  (nworkers cfg = 1 -> forall j, j <= length (seen (prun batches w d0 cmut evs)) ->
     firstn j (seen (prun batches w d0 cmut evs)) = firstn j (with_result f (concat batches))).
Proof. exact @tracked_records_at_most_once. Qed.
Print Assumptions C07_tracked_records_at_most_once.

(* ------------------------------------------------------------------ *)
(** * Non-vacuity and counter-examples *)

(** batches [[1;2;3];[4];[5;6]], work = "ten times the record" into recycled vectors that are shorter
    ([91] for batch 0), longer ([91;92;93] for batch 1) and as long ([91;92] for batch 2) as the batch;
    a complete run (2 workers, queue length 2) under the greedy scheduler of Proofs/ParP.v: the
    hypotheses of [C07_records_exactly_once] hold, the vectors after the work pass, and what func sees *)
Example C07r_nonvacuous :
  let s := end_state (c07r_cfg 2 2) (c07r_trace 2 2 false) in
  (forall r d, c07r_w r d = c07r_f r) /\
  c07r_cfg 2 2 = mkConfig 2 2 true None (length c07r_batches, ScriptEnd) Drain (fun c => c + 1) /\
  reachable (c07r_cfg 2 2) s /\ final s = true /\ mfail s = false /\
  delivered s = [(0, 1); (1, 2); (2, 3)] /\
  map (fun c => work_zip c07r_w 0 (c07r_old c) (nth c c07r_batches [])) [0; 1; 2]
    = [[10; 20; 30]; [40; 92; 93]; [50; 60]] /\
  concat (map (fun p => consume_zip (nth (fst p) c07r_batches [])
                          (work_zip c07r_w 0 (c07r_old (fst p)) (nth (fst p) c07r_batches []))) (delivered s))
    = [(1, 10); (2, 20); (3, 30); (4, 40); (5, 50); (6, 60)].
Proof.
  cbv zeta. split; [reflexivity|]. split; [reflexivity|]. split; [apply reachable_end_state|].
  repeat match goal with |- _ /\ _ => split end; vm_compute; reflexivity.
Qed.

(** two workers, the job of set 1 overtakes the job of set 0 (tracked vectors): func sees the records
    of set 1 first — a permutation of the file order, not the file order, so the clause "in order"
    of [C07_records_exactly_once] really needs n = 1; inside a set the order is the file order *)
Example C07r_two_workers_out_of_order :
  let s := end_state (c07r_cfg 2 2) c07r_ooo in
  run (c07r_cfg 2 2) init_state c07r_ooo = Some s /\ final s = true /\ mfail s = false /\
  delivered s = [(1, 2); (0, 1); (2, 3)] /\
  seen (prun c07r_batches c07r_w 0 c07r_cmut c07r_ooo)
    = [(4, 40); (1, 10); (2, 20); (3, 30); (5, 50); (6, 60)].
Proof. cbv zeta. repeat match goal with |- _ /\ _ => split end; vm_compute; reflexivity. Qed.

(** recycling for real (tracked): four sets through TWO data sets (queue length 1, one worker); func
    leaves 77 in every slot it visits.  Batch 2 = [5;6] meets the LONGER vector [77;77;77] left from
    batch 0, batch 3 = [7;8;9] meets the SHORTER vector [77] left from batch 1; func sees every
    record once, in file order, with its own result *)
Example C07r_tracked_recycling :
  let s := end_state c07r_cfg4 c07r_trace4 in
  let p := prun c07r_batches4 c07r_w 0 c07r_cmut c07r_trace4 in
  c07r_cfg4 = mkConfig 1 1 true None (length c07r_batches4, ScriptEnd) Drain (fun c => c + 1) /\
  run c07r_cfg4 init_state c07r_trace4 = Some s /\ final s = true /\ mfail s = false /\
  length (created s) = 2 /\
  map (olds p) [0; 1; 2; 3] = [[]; []; [77; 77; 77]; [77]] /\
  seen p = [(1, 10); (2, 20); (3, 30); (4, 40); (5, 50); (6, 60); (7, 70); (8, 80); (9, 90)].
Proof. cbv zeta. split; [reflexivity|]. repeat match goal with |- _ /\ _ => split end; vm_compute; reflexivity. Qed.

(** COUNTER-EXAMPLE without the hypothesis [w r d = f r]: a work closure that accumulates into its
    slot (r * 10 + d) instead of overwriting it — the same run: records 5, 6, 7 get results polluted
    by what func left in the recycled vectors (127 instead of 50, ...) *)
Example C07r_overwrite_needed :
  seen (prun c07r_batches4 c07r_wacc 0 c07r_cmut c07r_trace4)
    = [(1, 10); (2, 20); (3, 30); (4, 40); (5, 127); (6, 137); (7, 147); (8, 80); (9, 90)].
Proof. vm_compute; reflexivity. Qed.

(** early exit: the consumer leaves after two sets (func returned Some): a complete run; set 2 is
    dropped undelivered; func has seen the first four records, each once, with its result *)
Example C07r_early_exit :
  let s := end_state c07r_cfg_stop c07r_trace_stop in
  wf_config c07r_cfg_stop /\ nfills c07r_cfg_stop = length c07r_batches /\ consumer c07r_cfg_stop = StopAfter 2 /\
  run c07r_cfg_stop init_state c07r_trace_stop = Some s /\ final s = true /\
  delivered s = [(0, 1); (1, 2)] /\ lost s = [2] /\
  seen (prun c07r_batches c07r_w 0 c07r_cmut c07r_trace_stop) = [(1, 10); (2, 20); (3, 30); (4, 40)].
Proof. cbv zeta. split; [split; cbn; auto|]. repeat match goal with |- _ /\ _ => split end; vm_compute; reflexivity. Qed.

(** the `result?` consumer and a reader error: one set is filled, then the reader reports an error
    and sends it while the job of set 0 has not even started; the consumer receives the error and
    leaves; set 0 is lost — its records precede the error in the file and are never passed to func.
    (With the draining consumer of [C07_records_exactly_once] nothing is lost.) *)
Example C07r_result_consumer_can_miss_records :
  let s := end_state c07r_cfg_err c07r_err_trace in
  wf_config c07r_cfg_err /\ consumer c07r_cfg_err = DrainStopErr /\ fills c07r_cfg_err = (1, ScriptErr) /\
  run c07r_cfg_err init_state c07r_err_trace = Some s /\ final s = true /\ mfail s = false /\
  filled s = [0] /\ delivered s = [] /\ lost s = [0] /\ nerr_seen s = 1.
Proof. cbv zeta. split; [split; cbn; auto|]. repeat match goal with |- _ /\ _ => split end; vm_compute; reflexivity. Qed.

(** end to end, FASTQ: c04_inp = "@a\nAC\n+\nII\n@b\nG\n+\nI\n@c\nTT\n+\nJJ\n" at capacity 12 (three
    batches of one record), 2 workers, queue length 2, per-record work = length of the sequence,
    recycled vectors [9;9] for every set: the hypotheses of [C07_parallel_fastq_records_end_to_end]
    hold and func sees the three records with 2, 1, 2 *)
Example C07r_fastq_nonvacuous :
  let s := c15c_fq_end c04_inp 12 2 2 false in
  let batches := fst (c15c_fq c04_inp 12) in
  std_cfg c04_inp 12 c04_rs [SOk] pol_std (2 * length c04_inp + 4) 50 /\
  length (fq_spec_all c04_inp) + 2 <= 5 /\
  c15c_fq_cfg c04_inp 12 2 2 =
    mkConfig 2 2 true None (script_of (fst (c15c_fq c04_inp 12)) (snd (c15c_fq c04_inp 12))) Drain (fun c => c + 1) /\
  reachable (c15c_fq_cfg c04_inp 12 2 2) s /\ final s = true /\ mfail s = false /\
  concat (map (fun p => consume_zip (nth (fst p) batches [])
                          (work_zip (fun r _ => c07r_fq_f r) 0 [9; 9] (nth (fst p) batches []))) (delivered s))
    = [(Some ([97], [65; 67], [73; 73]), 2); (Some ([98], [71], [73]), 1); (Some ([99], [84; 84], [74; 74]), 2)] /\
  map (fun r => (r, c07r_fq_f r)) (map own_of (fq_spec_all c04_inp))
    = [(Some ([97], [65; 67], [73; 73]), 2); (Some ([98], [71], [73]), 1); (Some ([99], [84; 84], [74; 74]), 2)].
Proof.
  cbv zeta. split; [apply c04_cfg; [lia | reflexivity]|]. split; [vm_compute; lia|].
  split; [reflexivity|]. split; [apply reachable_end_state|].
  repeat match goal with |- _ /\ _ => split end; vm_compute; reflexivity.
Qed.

(** an invalid third record, one worker, queue length 1: records a and b with their results, then the
    error exactly once *)
Example C07r_fastq_nonvacuous_error :
  let s := c15c_fq_end c04_bad 12 1 1 true in
  let batches := fst (c15c_fq c04_bad 12) in
  std_cfg c04_bad 12 c04_rs [SOk] pol_std (2 * length c04_bad + 4) 50 /\
  fills (c15c_fq_cfg c04_bad 12 1 1) = (2, ScriptErr) /\
  reachable (c15c_fq_cfg c04_bad 12 1 1) s /\ final s = true /\ mfail s = false /\ nerr_seen s = 1 /\
  concat (map (fun p => consume_zip (nth (fst p) batches [])
                          (work_zip (fun r _ => c07r_fq_f r) 0 [9; 9] (nth (fst p) batches []))) (delivered s))
    = [(Some ([97], [65; 67], [73; 73]), 2); (Some ([98], [71], [73]), 1)].
Proof.
  cbv zeta. split; [apply c04_cfg; [lia | reflexivity]|]. split; [vm_compute; reflexivity|].
  split; [apply reachable_end_state|]. repeat match goal with |- _ /\ _ => split end; vm_compute; reflexivity.
Qed.

(** FASTA: c15c_fa_inp = ">a\nAC\n>b\nG\n>c\nTT\nA\n" at capacity 5 (three batches), two workers *)
Example C07r_fasta_nonvacuous :
  let s := c15c_fa_end c15c_fa_inp 5 2 2 false in
  let batches := fst (c15c_fa c15c_fa_inp 5) in
  fills (c15c_fa_cfg c15c_fa_inp 5 2 2) = (3, ScriptEnd) /\
  reachable (c15c_fa_cfg c15c_fa_inp 5 2 2) s /\ final s = true /\ mfail s = false /\ nerr_seen s = 0 /\
  concat (map (fun p => consume_zip (nth (fst p) batches [])
                          (work_zip (fun r _ => c07r_fa_f r) 0 [9; 9] (nth (fst p) batches []))) (delivered s))
    = [(Some ([97], [65; 67]), 2); (Some ([98], [71]), 1); (Some ([99], [84; 84; 65]), 3)] /\
  map (fun r => (r, c07r_fa_f r)) (map item_owned (fa_records c15c_fa_inp))
    = [(Some ([97], [65; 67]), 2); (Some ([98], [71]), 1); (Some ([99], [84; 84; 65]), 3)].
Proof.
  cbv zeta. split; [vm_compute; reflexivity|]. split; [apply reachable_end_state|].
  repeat match goal with |- _ /\ _ => split end; vm_compute; reflexivity.
Qed.
