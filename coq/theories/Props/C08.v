(** C08 — Parallel processing always terminates.
    Statements only; proofs are in Proofs/ParLive.v, Proofs/ParInv.v, Proofs/ParContent.v.
    For every n >= 1, q >= 1, every fill script (ending normally or with an error at any
    index), every consumer behaviour (drain, stop at the first error, stop after any
    number of calls, never ask), each init closure failing at any call, and every
    schedule.  What the model cannot show (that OS threads exit, that crossbeam joins,
    that a blocked send wakes on disconnect) is the trusted semantics of the primitives. *)
From SeqIO Require Import Model.Par Proofs.ParP Proofs.ParEx Proofs.ParInv Proofs.ParContent Proofs.ParLive.
Require Import List Arith.
Import ListNotations.

(** no deadlock: in every reachable state in which read_parallel_init has not yet
    returned, some thread can take a step *)
Theorem C08_progress : forall cfg s, wf_config cfg -> reachable cfg s -> final s = false ->
  enabled cfg s <> [].
Proof. exact no_deadlock. Qed.
Print Assumptions C08_progress.

(** [enabled] lists exactly the events that [apply] accepts *)
Theorem C08_enabled_exact : forall cfg s e,
  In e (enabled cfg s) <-> exists s', apply cfg s e = Some s'.
Proof. exact enabled_iff. Qed.
Print Assumptions C08_enabled_exact.

(** every step strictly decreases a natural-number measure: every schedule is finite,
    no fairness assumption is needed *)
Theorem C08_measure : forall cfg s e s', wf_config cfg -> reachable cfg s ->
  apply cfg s e = Some s' -> measure cfg s' < measure cfg s.
Proof. exact measure_decreases. Qed.
Print Assumptions C08_measure.

(** explicit bound on the number of events of any run *)
Theorem C08_run_length : forall cfg evs, wf_config cfg -> accepts cfg evs = true ->
  length evs <= 2 * qlen cfg + 9 * nfills cfg + 20.
Proof. exact accepted_length_bound. Qed.
Print Assumptions C08_run_length.

(** when read_parallel_init has returned, the reader thread has exited, no job is
    queued or running, both channels are empty and closed, and nothing more can happen *)
Theorem C08_final_clean : forall cfg s, wf_config cfg -> reachable cfg s -> final s = true ->
  mpc s = MDone /\ rpc s = RDone /\ jobs s = [] /\ active s = [] /\
  doneq s = [] /\ emptyq s = [] /\ cur s = None /\
  esend_live s = false /\ erecv_live s = false /\ drecv_live s = false /\ senders s = 0.
Proof. exact final_clean. Qed.
Print Assumptions C08_final_clean.

Theorem C08_final_no_step : forall cfg s e s', wf_config cfg -> reachable cfg s ->
  final s = true -> apply cfg s e = Some s' -> False.
Proof. exact final_no_step. Qed.
Print Assumptions C08_final_no_step.

(** the sends on the recycling channel done by the consumer side (initial fill, and
    the `empty_send.send(prev)` inside next()) never block: the channel is not full *)
Theorem C08_recycle_never_blocks : forall cfg s, wf_config cfg -> reachable cfg s ->
  match mpc s with
  | MInitSend _ _ | MRecycle _ _ _ _ => length (emptyq s) < qlen cfg
  | _ => True
  end.
Proof. exact main_send_never_blocks. Qed.
Print Assumptions C08_recycle_never_blocks.

(** Non-vacuity: complete runs for a consumer that leaves early, one that never asks,
    and a reader error, each ending in a final state; and a reachable non-final state. *)
Example C08_nonvacuous :
  wf_config c08_cfg1 /\ wf_config c08_cfg2 /\ wf_config c08_cfg3 /\
  final (end_state c08_cfg1 (greedy true c08_cfg1 300 init_state)) = true /\
  final (end_state c08_cfg1 (greedy false c08_cfg1 300 init_state)) = true /\
  final (end_state c08_cfg2 (greedy true c08_cfg2 300 init_state)) = true /\
  final (end_state c08_cfg3 (greedy false c08_cfg3 300 init_state)) = true /\
  final (end_state c08_cfg1 (firstn 7 (greedy true c08_cfg1 300 init_state))) = false /\
  measure c08_cfg1 init_state = 78.
Proof.
  split; [split; cbn; auto|]. split; [split; cbn; auto|]. split; [split; cbn; auto|].
  repeat split; vm_compute; reflexivity.
Qed.
(** a state in which main is about to recycle (the hypothesis of never-blocks is met) *)
Example C08_nonvacuous_recycle :
  exists evs prev t c o, accepts c08_cfg1 evs = true /\
    mpc (end_state c08_cfg1 evs) = MRecycle prev t c o.
Proof.
  exists [EDatasetInit (Some 0); EEmptySend 0 true; EDatasetInit (Some 1); EEmptySend 1 true;
          EDatasetInit (Some 2); EReaderInit true; EEmptyRecv (Some 0); EFill 0 (FOk 0);
          EExecute 0 0; EJobStart 0 0; EWork 0 0 0; EJobSend 0 0 0 true; EDoneRecv (RData 0 0 0)].
  exists 2, 0, 0, 0. split; vm_compute; reflexivity.
Qed.
