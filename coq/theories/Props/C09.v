(** C09 — The buffer grows only as the policy directs and only when a record does not fit.

    Structural part for BOTH reader models: theorems that hold in EVERY reader
    state (also states left behind by errors), for every fuel, policy, capacity,
    input and fault script -- except where a hypothesis is spelled out (and then
    the hypothesis is shown to be an invariant and its necessity is witnessed).
    The loop-level FASTQ guard is in C09q.v; the input-level statements
    ("fitting input never grows", "fits within the limit parses") need the
    refinement and are not part of this file.
    This file: clauses (a) growth only via the policy and (c) limit iff refusal; C09n.v: (b) only
    when needed and (e) set_policy; C09p.v: (f) the built-in policies.
    Statements only; proofs are in Proofs/TraceP.v, FaTraceP.v, FqTraceP.v,
    GrowP.v, GrowSitesP.v, FqGrowSitesP.v, PolicyP.v.

    Vocabulary (Proofs/TraceP.v): [new_events new old] = the events a call put in
    front of the log; [ev_refuse e]: [e] is [EvGrow c None] or [EvGrow c (Some n)]
    with [n <= c]; [grow_args l]: the arguments of the [EvGrow] events of [l]. *)
From SeqIO Require Import Model.Base Model.Fasta Model.Fastq Gen.PolicyGen
     Proofs.TraceP Proofs.FaTraceP Proofs.FqTraceP Proofs.FaultP Proofs.GrowP Proofs.FastqGrowP
     Proofs.GrowSitesP Proofs.FqGrowSitesP Proofs.PolicyP.

(* ================================================================== *)
(** * (c) a buffer-limit error is returned iff the policy refuses *)

Theorem C09_limit_surfaces_meaning : forall (O : Type) (old new : list ev) (o lim : O),
  LimitSurfaces old new o lim <->
  (let added := new_events new old in
   (* the policy refused during the call IFF the call returns the buffer-limit error *)
   ((exists e, In e added /\ ev_refuse e = true) <-> o = lim) /\
   (* the refusal is the newest event of the call and the only refusal *)
   (forall e, In e added -> ev_refuse e = true ->
      exists rest, added = e :: rest /\ Forall (fun e' => ev_refuse e' = false) rest)).
Proof. intros. reflexivity. Qed.
Print Assumptions C09_limit_surfaces_meaning.

Theorem C09_fa_next_limit_iff_refuse : forall fuel ffuel r r' o,
  fa_next fuel ffuel r = (r', o) -> LimitSurfaces (log r) (log r') o (OErr FaBufferLimit).
Proof. exact fa_next_limit_iff_refuse. Qed.
Print Assumptions C09_fa_next_limit_iff_refuse.

Theorem C09_fa_read_set_limit_iff_refuse : forall fuel ffuel n r rs r' rs' o,
  fa_read_set fuel ffuel n r rs = (r', rs', o) -> LimitSurfaces (log r) (log r') o (OErr FaBufferLimit).
Proof. exact fa_read_set_limit_iff_refuse. Qed.
Print Assumptions C09_fa_read_set_limit_iff_refuse.

Theorem C09_fa_seek_limit_iff_refuse : forall ffuel r line byte_ r' o,
  fa_seek ffuel r line byte_ = (r', o) -> LimitSurfaces (log r) (log r') o (OErr FaBufferLimit).
Proof. exact fa_seek_limit_iff_refuse. Qed.
Print Assumptions C09_fa_seek_limit_iff_refuse.

Theorem C09_fq_next_limit_iff_refuse : forall fuel ffuel r r' o,
  fq_next fuel ffuel r = (r', o) -> LimitSurfaces (qlog r) (qlog r') o (QOErr FqBufferLimit).
Proof. exact fq_next_limit_iff_refuse. Qed.
Print Assumptions C09_fq_next_limit_iff_refuse.

Theorem C09_fq_read_set_limit_iff_refuse : forall fuel ffuel n r rs r' rs' o,
  fq_read_set fuel ffuel n r rs = (r', rs', o) -> LimitSurfaces (qlog r) (qlog r') o (QOErr FqBufferLimit).
Proof. exact fq_read_set_limit_iff_refuse. Qed.
Print Assumptions C09_fq_read_set_limit_iff_refuse.

Theorem C09_fq_seek_limit_iff_refuse : forall ffuel r line byte_ r' o,
  fq_seek ffuel r line byte_ = (r', o) -> LimitSurfaces (qlog r) (qlog r') o (QOErr FqBufferLimit).
Proof. exact fq_seek_limit_iff_refuse. Qed.
Print Assumptions C09_fq_seek_limit_iff_refuse.

(** non-vacuity: the policy "+2 up to 7" lets the FASTA reader grow 4 -> 6 and
    then refuses; "answers 6, then 5" refuses by answering a size that is not larger *)
Example C09_fa_limit_example :
  let r := fa_new 4 (mkSource c14_fa_input 0 [] []) (pol_plus 2 7) in
  let c := fa_next 30 30 r in
  snd c = OErr FaBufferLimit /\
  new_events (log (fst c)) (log r) = [EvGrow 6 None; EvRead 2 (RData 2); EvGrow 4 (Some 6); EvRead 4 (RData 4)].
Proof. vm_compute. split; reflexivity. Qed.

Example C09_fa_limit_not_larger_example :
  let r := fa_new 4 (mkSource c14_fa_input 0 [] []) (pol_script [Some 6; Some 5; Some 20]) in
  let c := fa_read_set 30 30 None r fa_set_empty in
  snd c = OErr FaBufferLimit /\
  hd_error (new_events (log (fst (fst c))) (log r)) = Some (EvGrow 6 (Some 5)).
Proof. vm_compute. split; reflexivity. Qed.

Example C09_fq_limit_example :
  let r := fq_new 5 (mkSource c14_fq_input 0 [] []) (pol_plus 4 12) in
  let c := fq_next 30 30 r in
  snd c = QOErr FqBufferLimit /\
  new_events (qlog (fst c)) (qlog r) = [EvGrow 9 None; EvRead 4 (RData 4); EvGrow 5 (Some 9); EvRead 5 (RData 5)] /\
  snd (fq_read_set 30 30 None r fq_set_empty) = QOErr FqBufferLimit.
Proof. vm_compute. repeat split; reflexivity. Qed.

(** seeks never consult the policy (so never return the buffer-limit error) *)
Example C09_seek_limit_example :
  let r := fst (fa_next 30 30 (fa_new 4 (mkSource c14_fa_input 0 [] []) pol_std)) in
  snd (fa_seek 30 r 3 8) = OOk /\ new_events (log (fst (fa_seek 30 r 3 8))) (log r) = [] /\
  let q := fst (fq_seek 30 (fst (fq_next 30 30 c14_fq_reader)) 5 200) in
  snd (fq_seek 30 q 5 11) = QOOk /\
  new_events (qlog (fst (fq_seek 30 q 5 11))) (qlog q) = [EvRead 9 (RData 9); EvSeek 11 None].
Proof. vm_compute. repeat split; reflexivity. Qed.

(* ================================================================== *)
(** * (a) the capacity changes only in [grow], as the policy directs *)

Theorem C09_policy_directed_meaning : forall ex c pf h added c' pf' h',
  PolicyDirected ex c pf h added c' pf' h' <->
  ((* replaying the added events from capacity c ends in c': the capacity changes only at an
      [EvGrow] with a larger answer, every [EvGrow] carries the capacity of that moment as its
      argument, the new capacity lies between the old one and the answer, and is the answer
      when ex = true *)
   CapTrace ex c added c' /\
   (* every logged answer is the policy's answer to the capacity of that moment, given its history *)
   GrowAnswers pf h added /\
   (* the policy is kept, its history is extended by the arguments it was asked with *)
   pf' = pf /\ h' = grow_args added ++ h).
Proof. intros. reflexivity. Qed.
Print Assumptions C09_policy_directed_meaning.

(** the replay relation, rule by rule (newest event first) *)
Theorem C09_cap_trace_rules : forall ex c,
  CapTrace ex c [] c /\
  (forall e l c1, CapTrace ex c l c1 -> is_grow e = false -> CapTrace ex c (e :: l) c1) /\
  (forall ans l c1, CapTrace ex c l c1 -> ev_refuse (EvGrow c1 ans) = true -> CapTrace ex c (EvGrow c1 ans :: l) c1) /\
  (forall n l c1 c2, CapTrace ex c l c1 -> c1 < n -> c1 <= c2 -> c2 <= n -> (ex = true -> c2 = n) ->
                     CapTrace ex c (EvGrow c1 (Some n) :: l) c2).
Proof. intros. repeat split; intros; [apply ct_nil|apply ct_other|apply ct_refuse|apply ct_grow]; assumption. Qed.
Print Assumptions C09_cap_trace_rules.

(** FASTA.  [ex = false]: every state.  [ex = true] (the adopted capacity IS the
    policy's answer): states in which a pending incomplete search sits in a full
    buffer ([FullInc]); this holds initially and is kept by every call that does
    not end in fuel exhaustion or a panic
    ([C09_fa_invariants_preserved], [C09_fa_FullInc_lost_on_fuel_exhaustion] in C09n.v). *)
Theorem C09_fa_next_policy_directed : forall ex fuel ffuel r r' o,
  fa_next fuel ffuel r = (r', o) -> (ex = true -> FullInc r) ->
  PolicyDirected ex (cap r) (polf r) (polh r) (new_events (log r') (log r)) (cap r') (polf r') (polh r').
Proof. exact fa_next_policy_directed. Qed.
Print Assumptions C09_fa_next_policy_directed.

Theorem C09_fa_read_set_policy_directed : forall ex fuel ffuel n r rs r' rs' o,
  fa_read_set fuel ffuel n r rs = (r', rs', o) -> (ex = true -> FullInc r) ->
  PolicyDirected ex (cap r) (polf r) (polh r) (new_events (log r') (log r)) (cap r') (polf r') (polh r').
Proof. exact fa_read_set_policy_directed. Qed.
Print Assumptions C09_fa_read_set_policy_directed.

Theorem C09_fa_seek_policy_untouched : forall ffuel r line byte_ r' o,
  fa_seek ffuel r line byte_ = (r', o) ->
  cap r' = cap r /\ polf r' = polf r /\ polh r' = polh r /\
  forallb (fun e => negb (is_grow e)) (new_events (log r') (log r)) = true.
Proof. exact fa_seek_policy_untouched. Qed.
Print Assumptions C09_fa_seek_policy_untouched.

(** FASTQ: exact adoption in EVERY state *)
Theorem C09_fq_next_policy_directed : forall fuel ffuel r r' o,
  fq_next fuel ffuel r = (r', o) ->
  PolicyDirected true (qcap r) (qpolf r) (qpolh r) (new_events (qlog r') (qlog r)) (qcap r') (qpolf r') (qpolh r').
Proof. exact fq_next_policy_directed. Qed.
Print Assumptions C09_fq_next_policy_directed.

Theorem C09_fq_read_set_policy_directed : forall fuel ffuel n r rs r' rs' o,
  fq_read_set fuel ffuel n r rs = (r', rs', o) ->
  PolicyDirected true (qcap r) (qpolf r) (qpolh r) (new_events (qlog r') (qlog r)) (qcap r') (qpolf r') (qpolh r').
Proof. exact fq_read_set_policy_directed. Qed.
Print Assumptions C09_fq_read_set_policy_directed.

Theorem C09_fq_seek_policy_untouched : forall ffuel r line byte_ r' o,
  fq_seek ffuel r line byte_ = (r', o) ->
  qcap r' = qcap r /\ qpolf r' = qpolf r /\ qpolh r' = qpolh r /\
  forallb (fun e => negb (is_grow e)) (new_events (qlog r') (qlog r)) = true.
Proof. exact fq_seek_policy_untouched. Qed.
Print Assumptions C09_fq_seek_policy_untouched.

(** consequences for any call that is [PolicyDirected] *)
Theorem C09_cap_changes_only_in_grow : forall ex c pf h added c' pf' h',
  PolicyDirected ex c pf h added c' pf' h' -> c' <> c ->
  exists n, In (EvGrow c (Some n)) added /\ c < n.
Proof. exact PolicyDirected_changed. Qed.
Print Assumptions C09_cap_changes_only_in_grow.

Theorem C09_cap_never_shrinks : forall ex c pf h added c' pf' h',
  PolicyDirected ex c pf h added c' pf' h' -> c <= c'.
Proof. exact PolicyDirected_mono. Qed.
Print Assumptions C09_cap_never_shrinks.

Theorem C09_no_larger_answer_no_change : forall ex c pf h added c' pf' h',
  PolicyDirected ex c pf h added c' pf' h' ->
  (forall a n, In (EvGrow a (Some n)) added -> n <= a) -> c' = c.
Proof. exact PolicyDirected_no_growth. Qed.
Print Assumptions C09_no_larger_answer_no_change.

(** with exact adoption a changed capacity is the last accepted answer *)
Theorem C09_adopts_the_answer : forall c l c',
  CapTrace true c l c' -> c' <> c ->
  exists a n l1 l2, l = l1 ++ EvGrow a (Some n) :: l2 /\ a < n /\ c' = n /\
                    (forall a' n', In (EvGrow a' (Some n')) l1 -> n' <= a').
Proof. exact CapTrace_exact_last. Qed.
Print Assumptions C09_adopts_the_answer.

(** [grow] itself, every state: asks the policy with the CURRENT capacity and
    the history so far, logs question and answer, refuses on [None] or a size
    that is not larger, otherwise reserves the difference: the new capacity is
    the answer when the buffer is full *)
Theorem C09_fa_grow_spec : forall r,
  let c := cap r in let ans := polf r (polh r) c in
  let r' := fst (fa_grow r) in
  log r' = EvGrow c ans :: log r /\ polh r' = c :: polh r /\ polf r' = polf r /\
  match ans with
  | Some n => if n <=? c then snd (fa_grow r) = GErr FaBufferLimit /\ cap r' = c
              else snd (fa_grow r) = GOk /\ c <= cap r' <= n /\ (c <= length (buf r) -> cap r' = n)
  | None => snd (fa_grow r) = GErr FaBufferLimit /\ cap r' = c
  end.
Proof. exact fa_grow_spec. Qed.
Print Assumptions C09_fa_grow_spec.

Theorem C09_fq_grow_spec : forall r,
  let c := qcap r in let ans := qpolf r (qpolh r) c in
  let r' := fst (fq_grow r) in
  qlog r' = EvGrow c ans :: qlog r /\ qpolh r' = c :: qpolh r /\ qpolf r' = qpolf r /\
  match ans with
  | Some n => if n <=? c then snd (fq_grow r) = QGErr FqBufferLimit /\ qcap r' = c
              else snd (fq_grow r) = QGOk /\ c <= qcap r' <= n /\ (c <= length (qbuf r) -> qcap r' = n)
  | None => snd (fq_grow r) = QGErr FqBufferLimit /\ qcap r' = c
  end.
Proof. exact fq_grow_spec. Qed.
Print Assumptions C09_fq_grow_spec.

(** StdBuf::reserve as the readers use it: with a full buffer, reserving
    [n - cap] gives capacity exactly [n] *)
Theorem C09_reserve_full_buffer : forall b c n, c < n ->
  c <= br_reserve b c (n - c) /\ br_reserve b c (n - c) <= n /\ (c <= length b -> br_reserve b c (n - c) = n).
Proof. exact br_reserve_bounds. Qed.
Print Assumptions C09_reserve_full_buffer.

(** non-vacuity: a call in which the capacity goes 3 -> 6 -> 12 (FASTA record
    set, StdPolicy), and the exact replay of its events *)
Example C09_policy_directed_example :
  let r := fa_new 3 (mkSource c14_fa_input 0 [] []) pol_std in
  let c := fa_read_set 30 30 None r fa_set_empty in
  FullInc r /\ cap r = 3 /\ cap (fst (fst c)) = 12 /\
  new_events (log (fst (fst c))) (log r) =
    [EvRead 6 (RData 6); EvGrow 6 (Some 12); EvRead 3 (RData 3); EvGrow 3 (Some 6); EvRead 3 (RData 3)] /\
  polh (fst (fst c)) = [6; 3].
Proof. split; [intros H; discriminate H|]. vm_compute. repeat split; reflexivity. Qed.

Example C09_fq_policy_directed_example :
  let c := fq_next 30 30 c14_fq_reader in
  qcap c14_fq_reader = 5 /\ qcap (fst c) = 9 /\ In (EvGrow 5 (Some 9)) (new_events (qlog (fst c)) (qlog c14_fq_reader)).
Proof. vm_compute. repeat split; auto. Qed.

