(** C09 / C16 / C18 (continued) — EVERY CONSULTATION OF THE POLICY IS JUSTIFIED BY A RECORD
    THAT DOES NOT FIT, AND THE CAPACITY IS BOUNDED BY WHAT THE LARGEST RECORD NEEDS.

    C09n.v says in which reader states the policy is consulted (buffer completely full, the
    current record at offset 0); C09s.v says that an input whose records all fit the initial
    capacity never causes a consultation.  Here the quantitative fact behind C09 ("they ask the
    policy only when the record being parsed does not fit into the current buffer"), C16 ("memory
    use is independent of the input size") and C18 (steady state) is proved END TO END, for both
    formats, for arbitrary histories of [next()], owned reads, plain record-set reads (two set
    slots), re-iteration of a set and position queries -- no exact-count reads (the property
    excludes them, see the counter-examples at the end of each part) and no seeks --, on a
    fault-free source with a never-refusing policy, whatever the length of the input and the
    chunking of the source:

    1. [C09_f?_consultation_means_record_does_not_fit]: every event [EvGrow c _] in the log of
       the reader after the history (= every consultation of the policy that ever happened; [c]
       is the capacity at that moment, C09.v [C09_cap_trace_rules]) was asked at a capacity [c]
       that is SMALLER than the needed window of some record of the input: that record does not
       fit [c].
    2. [C09_f?_capacity_bounded_by_largest_record]: hence, when [W] bounds the needed windows of
       the input and the policy at most doubles ([n <= 2 * c] for every answer [Some n] to
       capacity [c]: [pol_std], [pol_double_until a], proved below for ALL capacities), the
       capacity after the history is at most [max cap0 (2 * (W - 1))] -- a bound in which the
       length of the input does not occur.  The bound is attained (examples [.._tight]).

    "The needed windows of the input" are those of C09s.v / C18.v / DESIGN §7, as a property of
    the INPUT alone:
    - FASTA, [FaNeeded inp nd]: [nd] is an element of [fa_needed (length inp) its] (AllocFitP.v:
      a record's bytes plus one look-ahead position) for the specification stream [its] of the
      input ([fa_ostart_of], [FaStream]), exactly the windows [FaAllRecordsFit] speaks about:
      [FaAllRecordsFit inp c <-> forall nd, FaNeeded inp nd -> nd <= c];
    - FASTQ, [FqNeeded inp nd]: [nd = fq_needed inp a] for an offset [a] at which the reader
      starts to work on a group of four lines ([FqGroupAt], C09s.v); [fq_needed inp a] is the
      length of the four lines with their terminators, one position more when the fourth
      terminator is missing ([fq_fits inp a c <-> fq_needed inp a <= c]); again
      [FqAllRecordsFit inp c <-> forall nd, FqNeeded inp nd -> nd <= c].

    Proof idea (Proofs/CapBoundP.v): along the refinement invariants of [next] and of the set
    loops, [resume_incomplete_search(make_room = true)] consults the policy only when the
    record starts at offset 0 of a full buffer that was searched to its end ([Tight], C09s.v);
    such a window does not contain the record's needed window ([incomplete_not_fit],
    [fq_full_notfit]); the loop keeps this situation until the record is complete.  The bound
    follows by replaying the log with the state-independent facts of C09.v: the capacity
    changes only at an [EvGrow], to at most the answer, and every answer is the policy's.

    Deviations from the statement as first written down: none in substance.  The hypotheses are
    those of C09s.v without [F?AllRecordsFit] (FASTA: [3 <= cap0], [PolOk], fuel
    [length inp + 2]; FASTQ: the configuration of C04q/C05q: [1 <= cap0], [PolOk1] (= [PolOk]),
    fuel [2 * length inp + 4], fault-free seek script); "all needed windows of inp" is the
    predicate [F?Needed inp] instead of a list (the specification stream is given as a
    relation); the doubling hypothesis is stated for all capacities.  Statements only. *)
From SeqIO Require Import Model.Base Model.Fasta Model.Fastq Model.Alloc
     Spec.FastaSpec Spec.FastqSpec Spec.CursorQ
     Proofs.Window Proofs.FastaInv Proofs.FastaStream Proofs.FastaNextP Proofs.FastaTopP
     Proofs.FastaSetP Proofs.FastaHistP
     Proofs.FqSpecP Proofs.FastqInv Proofs.FastqNextP Proofs.FastqSetP Proofs.FastqHistP
     Proofs.AllocFitP Proofs.AllocFqFitP Proofs.FitSetsP Proofs.CapBoundP.

(* ================================================================== *)
(** * FASTA *)

Theorem C09_fa_consultation_means_record_does_not_fit : forall inp cap0 rs sks pol fuel ffuel tgt ops,
  3 <= cap0 -> forallb item_ok rs = true -> PolOk pol ->
  length rs + 2 <= ffuel -> length inp + 2 <= fuel ->
  Forall (fun op => op = FastaHistP.HNext \/ op = FastaHistP.HOwned \/
                    (exists s, op = FastaHistP.HSet s) \/ (exists s, op = FastaHistP.HIter s) \/
                    op = FastaHistP.HPos) ops ->          (* no exact-count reads, no seeks *)
  let h' := snd (fa_hist fuel ffuel tgt ops (FastaHistP.h_init inp cap0 rs sks pol)) in
  Forall (fun e => match e with
                   | EvGrow c _ => exists nd, FaNeeded inp nd /\ c < nd
                   | _ => True
                   end) (log (h_r h')).
Proof. exact fa_consultation_means_record_does_not_fit. Qed.
Print Assumptions C09_fa_consultation_means_record_does_not_fit.

Theorem C09_fa_capacity_bounded_by_largest_record : forall inp cap0 rs sks pol fuel ffuel tgt ops W,
  3 <= cap0 -> forallb item_ok rs = true -> PolOk pol ->
  length rs + 2 <= ffuel -> length inp + 2 <= fuel ->
  Forall (fun op => op = FastaHistP.HNext \/ op = FastaHistP.HOwned \/
                    (exists s, op = FastaHistP.HSet s) \/ (exists s, op = FastaHistP.HIter s) \/
                    op = FastaHistP.HPos) ops ->
  (forall nd, FaNeeded inp nd -> nd <= W) ->
  (forall h c n, pol h c = Some n -> n <= 2 * c) ->          (* a policy that at most doubles *)
  let h' := snd (fa_hist fuel ffuel tgt ops (FastaHistP.h_init inp cap0 rs sks pol)) in
  cap (h_r h') <= Nat.max cap0 (2 * (W - 1)).
Proof. exact fa_capacity_bounded_by_largest_record. Qed.
Print Assumptions C09_fa_capacity_bounded_by_largest_record.

(** the same bound with the hypothesis of C09s.v: [W] is a capacity every record fits *)
Theorem C09_fa_capacity_bounded_fit : forall inp cap0 rs sks pol fuel ffuel tgt ops W,
  3 <= cap0 -> forallb item_ok rs = true -> PolOk pol ->
  length rs + 2 <= ffuel -> length inp + 2 <= fuel ->
  Forall (fun op => op = FastaHistP.HNext \/ op = FastaHistP.HOwned \/
                    (exists s, op = FastaHistP.HSet s) \/ (exists s, op = FastaHistP.HIter s) \/
                    op = FastaHistP.HPos) ops ->
  FaAllRecordsFit inp W ->
  (forall h c n, pol h c = Some n -> n <= 2 * c) ->
  let h' := snd (fa_hist fuel ffuel tgt ops (FastaHistP.h_init inp cap0 rs sks pol)) in
  cap (h_r h') <= Nat.max cap0 (2 * (W - 1)).
Proof. exact fa_capacity_bounded_fit. Qed.
Print Assumptions C09_fa_capacity_bounded_fit.

(** one call: a plain set read from a state at a call boundary of the refinement ([PosAt],
    [IncAt] with [Tight], C09s.v), in front of the records [its]: every consultation it makes
    happens at a capacity smaller than the needed window of one of these records *)
Theorem C09_fa_read_set_call_justified : forall inp ffuel fuel r rs1 off s line its,
  length inp + 2 <= fuel ->
  PosAt inp ffuel r off s line \/ (IncAt inp ffuel r off s line /\ Tight r) ->
  FaStream inp s line its ->
  exists added,
    log (fst (fst (fa_set_finish (fa_set_loop fuel fuel ffuel None true r rs1)))) = added ++ log r /\
    Forall (fun e => match e with
                     | EvGrow c _ => exists nd, In nd (fa_needed (length inp) its) /\ c < nd
                     | _ => True
                     end) added.
Proof. exact set_go_just_call. Qed.
Print Assumptions C09_fa_read_set_call_justified.

(** "all needed windows of the input", unfolded, and its relation to [FaAllRecordsFit] *)
Theorem C09_fa_needed_meaning : forall inp nd,
  FaNeeded inp nd <->
  (exists pos ln its, fa_ostart_of inp = OsRecs pos ln /\ FaStream inp pos ln its /\
                      In nd (fa_needed (length inp) its)).
Proof. intros. reflexivity. Qed.
Print Assumptions C09_fa_needed_meaning.

Theorem C09_fa_all_records_fit_iff_needed : forall inp c,
  FaAllRecordsFit inp c <-> (forall nd, FaNeeded inp nd -> nd <= c).
Proof. exact FaAllRecordsFit_needed. Qed.
Print Assumptions C09_fa_all_records_fit_iff_needed.

(** the built-in policies at most double, at every capacity and after every history *)
Theorem C09_pol_std_at_most_doubles : forall h c n, pol_std h c = Some n -> n <= 2 * c.
Proof. exact pol_std_doubles. Qed.
Print Assumptions C09_pol_std_at_most_doubles.

Theorem C09_pol_double_until_at_most_doubles : forall a h c n,
  pol_double_until a h c = Some n -> n <= 2 * c.
Proof. exact pol_double_until_doubles. Qed.
Print Assumptions C09_pol_double_until_at_most_doubles.

(** non-vacuity, and independence of the input size: 200 records ">ab\nCCCC\n" of 9 bytes
    (1800 bytes; every needed window is 10), initial capacity 3, the standard policy: every
    hypothesis holds, so after ANY history of plain operations, with any fault-free chunking,
    the capacity is at most 18 = 2 * (10 - 1) *)
Example C09_fa_bound_200_records : forall rs sks fuel ffuel tgt ops,
  forallb item_ok rs = true -> length rs + 2 <= ffuel -> 1802 <= fuel ->
  Forall (fun op => op = FastaHistP.HNext \/ op = FastaHistP.HOwned \/
                    (exists s, op = FastaHistP.HSet s) \/ (exists s, op = FastaHistP.HIter s) \/
                    op = FastaHistP.HPos) ops ->
  let h' := snd (fa_hist fuel ffuel tgt ops (FastaHistP.h_init (c09b_inp 200) 3 rs sks pol_std)) in
  length (c09b_inp 200) = 1800 /\ FaNeeded (c09b_inp 200) 10 /\
  (forall nd, FaNeeded (c09b_inp 200) nd -> nd <= 10) /\
  PolOk pol_std /\ (forall h c n, pol_std h c = Some n -> n <= 2 * c) /\
  cap (h_r h') <= 18.
Proof.
  intros rs sks fuel ffuel tgt ops Hrs Hff Hfuel Hops. cbv zeta.
  assert (Hlen : length (c09b_inp 200) = 1800) by (vm_compute; reflexivity).
  split; [exact Hlen|]. split; [exact c09b_needed200|].
  split; [apply FaAllRecordsFit_needed; exact c09b_fits200|].
  split; [exact PolOk_std|]. split; [exact pol_std_doubles|].
  change 18 with (Nat.max 3 (2 * (10 - 1))).
  exact (C09_fa_capacity_bounded_fit (c09b_inp 200) 3 rs sks pol_std fuel ffuel tgt ops 10
           ltac:(lia) Hrs PolOk_std Hff ltac:(rewrite Hlen; lia) Hops c09b_fits200 pol_std_doubles).
Qed.

(** what happens on a 20-record instance: 22 calls of [next] (all records, then the end of
    the input twice), and a mixed history with both set slots: the policy is consulted twice,
    at capacities 3 and 6, both smaller than the needed window 10; the capacity ends at 12 *)
Example C09_fa_run_20_records :
  let run := fa_hist 300 300 (fun _ => None) (repeat FastaHistP.HNext 22)
                     (FastaHistP.h_init (c09b_inp 20) 3 [] [] pol_std) in
  let mixed := fa_hist 300 300 (fun _ => None)
                 ([FastaHistP.HSet 0; FastaHistP.HNext; FastaHistP.HSet 1; FastaHistP.HOwned;
                   FastaHistP.HIter 0; FastaHistP.HPos] ++ repeat (FastaHistP.HSet 0) 20)
                 (FastaHistP.h_init (c09b_inp 20) 3 [] [] pol_std) in
  FaAllRecordsFit (c09b_inp 20) 10 /\
  filter ev_is_grow (log (h_r (snd run))) = [EvGrow 6 (Some 12); EvGrow 3 (Some 6)] /\
  cap (h_r (snd run)) = 12 /\
  filter ev_is_grow (log (h_r (snd mixed))) = [EvGrow 6 (Some 12); EvGrow 3 (Some 6)] /\
  cap (h_r (snd mixed)) = 12 /\ st (h_r (snd mixed)) = FFinished.
Proof.
  cbv zeta. split; [exact c09b_fits20|].
  split; [vm_compute; reflexivity|]. split; [vm_compute; reflexivity|].
  split; [vm_compute; reflexivity|]. split; vm_compute; reflexivity.
Qed.

(** the bound is attained: one record ">a\nCCCC\n" of 8 bytes (needed window 9) at capacity 8
    does not fit; the policy is asked once, at 8 < 9, and the capacity becomes
    16 = 2 * (9 - 1) = max 8 (2 * (9 - 1)) *)
Example C09_fa_bound_tight :
  let run := fa_hist 100 100 (fun _ => None) [FastaHistP.HNext; FastaHistP.HNext]
                     (FastaHistP.h_init c09b_one 8 [] [] pol_std) in
  FaAllRecordsFit c09b_one 9 /\
  filter ev_is_grow (log (h_r (snd run))) = [EvGrow 8 (Some 16)] /\
  cap (h_r (snd run)) = 16 /\ Nat.max 8 (2 * (9 - 1)) = 16.
Proof.
  cbv zeta. split; [exact c09b_one_fits|].
  split; [vm_compute; reflexivity|]. split; [vm_compute; reflexivity|reflexivity].
Qed.

(** exact-count reads are excluded for a reason: four records of 5 bytes (needed window 6,
    C09s.v) at capacity 8; [read_record_set_exact(3)] consults the policy at capacity 8,
    which every record fits, and the capacity 16 exceeds max 8 (2 * (6 - 1)) = 10 *)
Example C09_fa_exact_count_not_covered :
  let run := fa_hist 100 100 (fun _ => None) [FastaHistP.HSetExact 0 3]
                     (FastaHistP.h_init c09s_inp 8 [] [] pol_std) in
  (forall nd, FaNeeded c09s_inp nd -> nd <= 6) /\
  filter ev_is_grow (log (h_r (snd run))) = [EvGrow 8 (Some 16)] /\
  cap (h_r (snd run)) = 16 /\ Nat.max 8 (2 * (6 - 1)) = 10.
Proof.
  cbv zeta. split; [apply FaAllRecordsFit_needed; apply c09s_fits; lia|].
  split; [vm_compute; reflexivity|]. split; [vm_compute; reflexivity|reflexivity].
Qed.

(* ================================================================== *)
(** * FASTQ *)

Theorem C09_fq_consultation_means_record_does_not_fit : forall inp cap0 rs ss pol fuel ffuel ops,
  1 <= cap0 -> forallb item_ok rs = true -> forallb sitem_ok ss = true -> PolOk1 pol ->
  length rs + 2 <= ffuel -> 2 * length inp + 4 <= fuel ->
  Forall (fun op => op = CursorQ.HNext \/ op = CursorQ.HOwned \/
                    (exists s, op = CursorQ.HSet s) \/ (exists s, op = CursorQ.HIter s) \/
                    op = CursorQ.HPos) ops ->             (* no exact-count reads, no seeks *)
  let c' := snd (fq_hrun inp fuel ffuel ops (fq_hconf0 cap0 inp rs ss pol)) in
  Forall (fun e => match e with
                   | EvGrow c _ => exists nd, FqNeeded inp nd /\ c < nd
                   | _ => True
                   end) (qlog (c_rd c')).
Proof. exact fq_consultation_means_record_does_not_fit. Qed.
Print Assumptions C09_fq_consultation_means_record_does_not_fit.

Theorem C09_fq_capacity_bounded_by_largest_record : forall inp cap0 rs ss pol fuel ffuel ops W,
  1 <= cap0 -> forallb item_ok rs = true -> forallb sitem_ok ss = true -> PolOk1 pol ->
  length rs + 2 <= ffuel -> 2 * length inp + 4 <= fuel ->
  Forall (fun op => op = CursorQ.HNext \/ op = CursorQ.HOwned \/
                    (exists s, op = CursorQ.HSet s) \/ (exists s, op = CursorQ.HIter s) \/
                    op = CursorQ.HPos) ops ->
  (forall nd, FqNeeded inp nd -> nd <= W) ->
  (forall h c n, pol h c = Some n -> n <= 2 * c) ->
  let c' := snd (fq_hrun inp fuel ffuel ops (fq_hconf0 cap0 inp rs ss pol)) in
  qcap (c_rd c') <= Nat.max cap0 (2 * (W - 1)).
Proof. exact fq_capacity_bounded_by_largest_record. Qed.
Print Assumptions C09_fq_capacity_bounded_by_largest_record.

Theorem C09_fq_capacity_bounded_fit : forall inp cap0 rs ss pol fuel ffuel ops W,
  1 <= cap0 -> forallb item_ok rs = true -> forallb sitem_ok ss = true -> PolOk1 pol ->
  length rs + 2 <= ffuel -> 2 * length inp + 4 <= fuel ->
  Forall (fun op => op = CursorQ.HNext \/ op = CursorQ.HOwned \/
                    (exists s, op = CursorQ.HSet s) \/ (exists s, op = CursorQ.HIter s) \/
                    op = CursorQ.HPos) ops ->
  FqAllRecordsFit inp W ->
  (forall h c n, pol h c = Some n -> n <= 2 * c) ->
  let c' := snd (fq_hrun inp fuel ffuel ops (fq_hconf0 cap0 inp rs ss pol)) in
  qcap (c_rd c') <= Nat.max cap0 (2 * (W - 1)).
Proof. exact fq_capacity_bounded_fit. Qed.
Print Assumptions C09_fq_capacity_bounded_fit.

(** the needed windows of a FASTQ input *)
Theorem C09_fq_needed_meaning : forall inp nd,
  FqNeeded inp nd <-> (exists a, FqGroupAt inp a /\ nd = fq_needed inp a).
Proof. intros. reflexivity. Qed.
Print Assumptions C09_fq_needed_meaning.

Theorem C09_fq_needed_window_meaning : forall inp a,
  fq_needed inp a = match fq_group_end inp a with
                    | Some e => e - a              (* four terminated lines: their length *)
                    | None => length inp + 1 - a   (* no fourth terminator: to the end, and one more *)
                    end /\
  (forall c, fq_fits inp a c <-> fq_needed inp a <= c).
Proof. intros. split; [reflexivity|]. intros c. apply fq_fits_needed. Qed.
Print Assumptions C09_fq_needed_window_meaning.

Theorem C09_fq_all_records_fit_iff_needed : forall inp c,
  FqAllRecordsFit inp c <-> (forall nd, FqNeeded inp nd -> nd <= c).
Proof. exact FqAllRecordsFit_needed. Qed.
Print Assumptions C09_fq_all_records_fit_iff_needed.

(** non-vacuity: 200 records "@a\nC\n+\nI\n" of 9 bytes (1800 bytes; every group needs 9, the
    end of the input 1), initial capacity 3, the standard policy: after ANY history of plain
    operations the capacity is at most 16 = 2 * (9 - 1) *)
Example C09_fq_bound_200_records : forall rs ss fuel ffuel ops,
  forallb item_ok rs = true -> forallb sitem_ok ss = true -> length rs + 2 <= ffuel -> 3604 <= fuel ->
  Forall (fun op => op = CursorQ.HNext \/ op = CursorQ.HOwned \/
                    (exists s, op = CursorQ.HSet s) \/ (exists s, op = CursorQ.HIter s) \/
                    op = CursorQ.HPos) ops ->
  let c' := snd (fq_hrun (c09b_qinp 200) fuel ffuel ops (fq_hconf0 3 (c09b_qinp 200) rs ss pol_std)) in
  length (c09b_qinp 200) = 1800 /\ FqNeeded (c09b_qinp 200) 9 /\
  (forall nd, FqNeeded (c09b_qinp 200) nd -> nd <= 9) /\
  PolOk1 pol_std /\ (forall h c n, pol_std h c = Some n -> n <= 2 * c) /\
  qcap (c_rd c') <= 16.
Proof.
  intros rs ss fuel ffuel ops Hrs Hss Hff Hfuel Hops. cbv zeta.
  assert (Hlen : length (c09b_qinp 200) = 1800) by (vm_compute; reflexivity).
  split; [exact Hlen|]. split; [exact c09b_qneeded200|].
  split; [apply FqAllRecordsFit_needed; exact c09b_qfits200|].
  split; [exact PolOk1_std|]. split; [exact pol_std_doubles|].
  change 16 with (Nat.max 3 (2 * (9 - 1))).
  exact (C09_fq_capacity_bounded_fit (c09b_qinp 200) 3 rs ss pol_std fuel ffuel ops 9
           ltac:(lia) Hrs Hss PolOk1_std Hff ltac:(rewrite Hlen; lia) Hops c09b_qfits200 pol_std_doubles).
Qed.

(** a 20-record instance: 22 calls of [next], and a mixed history with both set slots: two
    consultations, at 3 and 6 (both < 9); the capacity ends at 12 *)
Example C09_fq_run_20_records :
  let run := fq_hrun (c09b_qinp 20) 400 400 (repeat CursorQ.HNext 22)
                     (fq_hconf0 3 (c09b_qinp 20) [] [] pol_std) in
  let mixed := fq_hrun (c09b_qinp 20) 400 400
                 ([CursorQ.HSet false; CursorQ.HNext; CursorQ.HSet true; CursorQ.HOwned;
                   CursorQ.HIter false; CursorQ.HPos] ++ repeat (CursorQ.HSet false) 20)
                 (fq_hconf0 3 (c09b_qinp 20) [] [] pol_std) in
  filter ev_is_grow (qlog (c_rd (snd run))) = [EvGrow 6 (Some 12); EvGrow 3 (Some 6)] /\
  qcap (c_rd (snd run)) = 12 /\
  filter ev_is_grow (qlog (c_rd (snd mixed))) = [EvGrow 6 (Some 12); EvGrow 3 (Some 6)] /\
  qcap (c_rd (snd mixed)) = 12 /\ qst (c_rd (snd mixed)) = QFinished.
Proof.
  cbv zeta. split; [vm_compute; reflexivity|]. split; [vm_compute; reflexivity|].
  split; [vm_compute; reflexivity|]. split; vm_compute; reflexivity.
Qed.

(** the bound is attained: one record of 9 bytes at capacity 8: asked once at 8 < 9, the
    capacity becomes 16 = 2 * (9 - 1) *)
Example C09_fq_bound_tight :
  let run := fq_hrun (c09b_qinp 1) 100 100 [CursorQ.HNext; CursorQ.HNext]
                     (fq_hconf0 8 (c09b_qinp 1) [] [] pol_std) in
  FqAllRecordsFit (c09b_qinp 1) 9 /\
  filter ev_is_grow (qlog (c_rd (snd run))) = [EvGrow 8 (Some 16)] /\
  qcap (c_rd (snd run)) = 16 /\ Nat.max 8 (2 * (9 - 1)) = 16.
Proof.
  cbv zeta. split; [exact c09b_qone_fits|].
  split; [vm_compute; reflexivity|]. split; [vm_compute; reflexivity|reflexivity].
Qed.

(** exact-count reads are not covered: four records of 9 bytes (C09s.v) at capacity 12, which
    every group fits; [read_record_set_exact(3)] consults the policy at 12 and at 24 and ends
    with capacity 48 > max 12 (2 * (9 - 1)) *)
Example C09_fq_exact_count_not_covered :
  let run := fq_hrun c09s_qinp 100 100 [CursorQ.HSetExact false 3]
                     (fq_hconf0 12 c09s_qinp [] [] pol_std) in
  (forall nd, FqNeeded c09s_qinp nd -> nd <= 9) /\
  filter ev_is_grow (qlog (c_rd (snd run))) = [EvGrow 24 (Some 48); EvGrow 12 (Some 24)] /\
  qcap (c_rd (snd run)) = 48 /\ Nat.max 12 (2 * (9 - 1)) = 16.
Proof.
  cbv zeta. split; [apply FqAllRecordsFit_needed; apply c09s_qfits; lia|].
  split; [vm_compute; reflexivity|]. split; [vm_compute; reflexivity|reflexivity].
Qed.
