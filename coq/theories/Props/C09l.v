(** C09 (continued) — "... records that fit within the permitted sizes are parsed normally, a policy
    installed in mid-stream takes over without disturbing the stream ..."   FASTA and FASTQ.
    Statements only; proofs in Proofs/LimitPrefixP.v.

    The refinement theorems (Props/C01, C02, C04fa, C04q) assume a policy that never refuses and always
    answers a larger size ([PolOk] / [PolOk1]).  Here the policy is ARBITRARY: it may answer [None], or a
    size that is not larger than the capacity it was asked with (both are refusals for [grow]).

    [pol_complete p] is the never-refusing completion of [p]: it answers what [p] answers whenever that is a
    larger size, and [2c+1] otherwise ([C09_pol_complete_ok]: it satisfies [PolOk] and [PolOk1]).
    [fa_polrel r0 r] / [fq_polrel r0 r]: [r0] is exactly the reader state [r] (buffer, capacity, source,
    offsets, position, state flag, consultation history [polh], event log) with the policy replaced by its
    completion:  r0 = set_pol r (pol_complete (polf r)) (polh r).

    (d) [C09_fa_calls_before_refusal] / [C09_fq_calls_before_refusal]: for EVERY pair of related states,
        every fuel, source script and policy, [next] and [read_record_set(_exact)] run on both sides either
        return the SAME outcome and record set and leave related states (so also the same event log: the
        answers recorded in [EvGrow] differ only at a refused consultation) -- or the run under [p] returns
        the buffer-limit error.  [seek] and [position()] never consult the policy: same outcome, related
        states, unconditionally (stronger than the target, which allowed the error alternative for seek).
        [set_policy q] against [set_policy (pol_complete q)] re-establishes the relation.
        Histories ([C09_*_history_before_refusal]): the observations of a history under [pol] agree with
        those under [pol_complete pol] on the first [j] operations, and either [j] is the whole history or
        observation [j] is the buffer-limit error; without any buffer-limit observation the two histories
        are equal ([C09_fa_history_no_refusal]).
        [C09_*_records_before_refusal]: with the refinement theorems C04 (whose [PolOk] hypothesis is now
        discharged by [pol_complete]): before the first buffer-limit error the observations are a run of the
        abstract cursor machine over the specification stream -- every record that fits within the
        permitted sizes is parsed normally: the next record of the Spec stream, once, in order.

    (e) Runs [fa_prun] / [fq_prun] over the operations [PNext] (one [next()], outcome paired with
        [position()]) and [PSetPolicy q] ([set_policy], no outcome).
        [C09_*_policy_swap_transparent]: from a fresh reader with a [PolOk] policy, with any [PolOk]
        policies installed at any points, the outcomes of the [next()] calls are the Spec stream (then end
        of input for ever) -- the same as without any swap (Props/C01.v, C02.v).
        [C09_*_policy_ops_stream] (more than the target): with ARBITRARY policies installed at arbitrary
        points, the outcomes other than buffer-limit errors are still the Spec stream, in order, each item
        once: a refused consultation loses nothing and duplicates nothing.
        [C09_*_generous_policy_resumes] / [C09_*_limit_then_generous_policy_resumes]: after ANY run
        (in particular one that ended in buffer-limit errors), once a [PolOk] policy is installed no later
        call returns the buffer-limit error, and the non-error outcomes before it followed by all outcomes
        after it are the Spec stream: the record whose read was refused is the first one delivered.

    Deviations from the target statements: (1) [fa_prun]/[fq_prun] pair each outcome with the position after
    the call (as [fa_run]/[fq_run] do, [fa_smatches]/[fq_matches] compare both); (2) the seek clause has no
    error alternative; (3) for FASTQ the stream relation is [fq_matches] over [fq_spec_all] (Props/C02.v) and
    the capacity hypothesis is [1 <= cap0] as in C04q; (4) the limit-then-resume theorem is stated with
    explicit splitting of the outcome list instead of "concatenation of the non-BufferLimit outcomes" of the
    whole list (equivalent: the outcomes after the swap contain no such error).  No extra hypotheses. *)
From SeqIO Require Import Model.Base Model.Fasta Model.Views Spec.FastaSpec Spec.Cursor
     Proofs.Window Proofs.FastaInv Proofs.FastaStream Proofs.FastaNextP Proofs.FastaTopP
     Proofs.FastaSetP Proofs.FastaSeekP Proofs.FastaHistP Proofs.FaPrefixP Proofs.LimitPrefixP.

(* ================================================================== *)
(** * FASTA *)

Theorem C09_fa_calls_before_refusal :
  (forall fuel ffuel r0 r r0' o0 r' o, fa_polrel r0 r ->
     fa_next fuel ffuel r0 = (r0', o0) -> fa_next fuel ffuel r = (r', o) ->
     (o = o0 /\ fa_polrel r0' r') \/ o = OErr FaBufferLimit) /\
  (forall fuel ffuel n r0 r rs r0' rs0' o0 r' rs' o, fa_polrel r0 r ->
     fa_read_set fuel ffuel n r0 rs = (r0', rs0', o0) -> fa_read_set fuel ffuel n r rs = (r', rs', o) ->
     (o = o0 /\ rs' = rs0' /\ fa_polrel r0' r') \/ o = OErr FaBufferLimit) /\
  (forall ffuel r0 r line byte_ r0' o0 r' o, fa_polrel r0 r ->
     fa_seek ffuel r0 line byte_ = (r0', o0) -> fa_seek ffuel r line byte_ = (r', o) ->
     o = o0 /\ fa_polrel r0' r') /\
  (forall r0 r, fa_polrel r0 r -> fa_position r = fa_position r0).
Proof. exact fa_calls_before_refusal. Qed.
Print Assumptions C09_fa_calls_before_refusal.

Theorem C09_fa_set_policy_related : forall r0 r q, fa_polrel r0 r ->
  fa_polrel (fa_set_policy r0 (pol_complete q)) (fa_set_policy r q).
Proof. exact fa_set_policy_rel. Qed.
Print Assumptions C09_fa_set_policy_related.

Theorem C09_fa_history_before_refusal : forall inp cap0 rs sks pol fuel ffuel tgt ops,
  let obs  := fst (fa_hist fuel ffuel tgt ops (h_init inp cap0 rs sks pol)) in
  let obs0 := fst (fa_hist fuel ffuel tgt ops (h_init inp cap0 rs sks (pol_complete pol))) in
  exists j, j <= length ops /\ firstn j obs = firstn j obs0 /\
            (j = length ops \/ exists p, nth_error obs j = Some (HoErr FaBufferLimit, p)).
Proof. exact fa_history_before_refusal. Qed.
Print Assumptions C09_fa_history_before_refusal.

(** if no consultation is refused, the whole history is the history of the never-refusing policy *)
Theorem C09_fa_history_no_refusal : forall inp cap0 rs sks pol fuel ffuel tgt ops,
  let obs  := fst (fa_hist fuel ffuel tgt ops (h_init inp cap0 rs sks pol)) in
  let obs0 := fst (fa_hist fuel ffuel tgt ops (h_init inp cap0 rs sks (pol_complete pol))) in
  (forall p, ~ In (HoErr FaBufferLimit, p) obs) -> obs = obs0.
Proof. exact fa_history_no_refusal. Qed.
Print Assumptions C09_fa_history_no_refusal.

(** before the first buffer-limit error the observations are a run of the cursor machine over the
    specification stream: "records that fit within the permitted sizes are parsed normally"
    (the hypotheses of [C04_history_refines_cursor], Props/C04fa.v, except [PolOk pol]) *)
Theorem C09_fa_records_before_refusal : forall inp cap0 rs sks pol fuel ffuel ops,
  3 <= cap0 -> forallb item_ok rs = true -> forallb sitem_ok sks = true ->
  length rs + 2 <= ffuel -> length inp + 2 <= fuel -> Forall hop_ok ops ->
  let obs := fst (fa_hist fuel ffuel (tgt_spec inp) ops (h_init inp cap0 rs sks pol)) in
  exists j items c' g',
    j <= length ops /\
    (j = length ops \/ exists p, nth_error obs j = Some (HoErr FaBufferLimit, p)) /\
    FaOSpec inp items /\ Forall2 (item_rel inp) items (fa_spec inp) /\
    hrun_ok inp (map to_citem items) (CAt 0) ([], []) (firstn j ops) (firstn j obs) c' g'.
Proof. exact fa_records_before_refusal. Qed.
Print Assumptions C09_fa_records_before_refusal.

(** (e) policy swaps among never-refusing policies are invisible *)
Theorem C09_fa_policy_swap_transparent : forall inp cap0 rs ss pol fuel ffuel ops,
  3 <= cap0 -> forallb item_ok rs = true -> PolOk pol -> Forall pop_ok ops ->
  length rs + 2 <= ffuel -> length inp + 2 <= fuel ->
  Forall2 fa_smatches (fa_prun fuel ffuel ops (fa_new cap0 (mkSource inp 0 rs ss) pol))
          (firstn (pnexts ops) (map Some (fa_spec inp) ++ repeat None (pnexts ops))).
Proof.
  intros inp cap0 rs ss pol fuel ffuel ops Hcap Hrs Hpol Hops Hff Hfuel.
  exact (fa_policy_swap_transparent inp cap0 rs ss fuel ffuel Hcap Hrs Hff Hfuel pol ops Hpol Hops).
Qed.
Print Assumptions C09_fa_policy_swap_transparent.

(** arbitrary policies at arbitrary points: the outcomes other than buffer-limit errors are the
    specification stream, in order, each item once *)
Theorem C09_fa_policy_ops_stream : forall inp cap0 rs ss pol fuel ffuel ops,
  3 <= cap0 -> forallb item_ok rs = true -> length rs + 2 <= ffuel -> length inp + 2 <= fuel ->
  let outs := filter not_limit (fa_prun fuel ffuel ops (fa_new cap0 (mkSource inp 0 rs ss) pol)) in
  Forall2 fa_smatches outs (firstn (length outs) (map Some (fa_spec inp) ++ repeat None (length outs))).
Proof.
  intros inp cap0 rs ss pol fuel ffuel ops Hcap Hrs Hff Hfuel.
  exact (fa_policy_ops_stream inp cap0 rs ss fuel ffuel Hcap Hrs Hff Hfuel pol ops).
Qed.
Print Assumptions C09_fa_policy_ops_stream.

(** after any run [ops1] -- whatever its policies were and however many buffer-limit errors it returned --
    a generous policy [q] resumes the stream: no later call returns the error, and the non-error outcomes of
    [ops1] followed by ALL later outcomes are the specification stream *)
Theorem C09_fa_generous_policy_resumes : forall inp cap0 rs ss pol fuel ffuel ops1 q ops2,
  3 <= cap0 -> forallb item_ok rs = true -> length rs + 2 <= ffuel -> length inp + 2 <= fuel ->
  PolOk q -> Forall pop_ok ops2 ->
  let r0 := fa_new cap0 (mkSource inp 0 rs ss) pol in
  let outs1 := fa_prun fuel ffuel ops1 r0 in
  let outs2 := fa_prun fuel ffuel (PSetPolicy q :: ops2) (fa_pstate fuel ffuel ops1 r0) in
  fa_prun fuel ffuel (ops1 ++ PSetPolicy q :: ops2) r0 = outs1 ++ outs2 /\
  length outs1 = pnexts ops1 /\ length outs2 = pnexts ops2 /\
  Forall (fun o => not_limit o = true) outs2 /\
  Forall2 fa_smatches (filter not_limit outs1 ++ outs2)
          (firstn (length (filter not_limit outs1) + pnexts ops2)
                  (map Some (fa_spec inp) ++ repeat None (length (filter not_limit outs1) + pnexts ops2))).
Proof.
  intros inp cap0 rs ss pol fuel ffuel ops1 q ops2 Hcap Hrs Hff Hfuel Hq Hops2.
  exact (fa_generous_policy_resumes inp cap0 rs ss fuel ffuel Hcap Hrs Hff Hfuel pol ops1 q ops2 Hq Hops2).
Qed.
Print Assumptions C09_fa_generous_policy_resumes.

(** the combination the property has in mind: [n1] reads under an arbitrary (refusing) policy, a generous
    policy is installed, [n2] more reads *)
Theorem C09_fa_limit_then_generous_policy_resumes : forall inp cap0 rs ss pol q fuel ffuel n1 n2,
  3 <= cap0 -> forallb item_ok rs = true -> PolOk q ->
  length rs + 2 <= ffuel -> length inp + 2 <= fuel ->
  let r0 := fa_new cap0 (mkSource inp 0 rs ss) pol in
  let outs1 := fa_prun fuel ffuel (repeat PNext n1) r0 in
  let outs2 := fa_prun fuel ffuel (PSetPolicy q :: repeat PNext n2) (fa_pstate fuel ffuel (repeat PNext n1) r0) in
  fa_prun fuel ffuel (repeat PNext n1 ++ [PSetPolicy q] ++ repeat PNext n2) r0 = outs1 ++ outs2 /\
  length outs1 = n1 /\ length outs2 = n2 /\
  Forall (fun o => not_limit o = true) outs2 /\
  Forall2 fa_smatches (filter not_limit outs1 ++ outs2)
          (firstn (length (filter not_limit outs1) + n2)
                  (map Some (fa_spec inp) ++ repeat None (length (filter not_limit outs1) + n2))).
Proof. exact fa_limit_then_generous_policy_resumes. Qed.
Print Assumptions C09_fa_limit_then_generous_policy_resumes.

(* ------------------------------------------------------------------ *)
(** ** non-vacuity (FASTA) *)

(** a fresh reader under [p] and the fresh reader under the completion of [p] are related *)
Example C09l_fa_new_related : forall cap0 s p, fa_polrel (fa_new cap0 s (pol_complete p)) (fa_new cap0 s p).
Proof. exact fa_polrel_new. Qed.

(** three records ">a\nA\n>b\nGGGG\n>c\nT\n": the first needs a window of 6 bytes, the second of 9;
    capacity 4; [pol_plus 2 7] permits 4 -> 6 and refuses 6 -> 8.
    Record a is returned, then the buffer-limit error (again and again: the search is suspended, the position
    is that of record b).  The completed policy delivers all three records and the end of input.
    [pol_plus 2 12] never refuses on this input: the same outcomes as the completed policy. *)
Example C09l_fa_example_runs :
  let inp := [62; 97; 10; 65; 10; 62; 98; 10; 71; 71; 71; 71; 10; 62; 99; 10; 84; 10] in
  let show := fun o : fa_out * option (nat * nat) =>
                (match fst o with ORec rc => inl (fa_head rc, fa_lines rc) | x => inr x end, snd o) in
  let run := fun pol => map show (fa_prun 21 9 (repeat PNext 4) (fa_new 4 (mkSource inp 0 [] []) pol)) in
  run (pol_plus 2 7) =
    [ (inl (Some [97], Some [[65]]), Some (1, 0));
      (inr (OErr FaBufferLimit), Some (3, 5)); (inr (OErr FaBufferLimit), Some (3, 5));
      (inr (OErr FaBufferLimit), Some (3, 5)) ] /\
  run (pol_complete (pol_plus 2 7)) =
    [ (inl (Some [97], Some [[65]]), Some (1, 0));
      (inl (Some [98], Some [[71; 71; 71; 71]]), Some (3, 5));
      (inl (Some [99], Some [[84]]), Some (5, 13));
      (inr ONone, Some (5, 13)) ] /\
  run (pol_plus 2 12) = run (pol_complete (pol_plus 2 7)) /\
  fa_spec inp = [SRec (mkFaItem [97] [[65]] 1 0); SRec (mkFaItem [98] [[71; 71; 71; 71]] 3 5);
                 SRec (mkFaItem [99] [[84]] 5 13)].
Proof. vm_compute. auto 10. Qed.

(** refusal, refusal, then a generous policy ([pol_double_until 8] satisfies [PolOk]): record b -- the SAME
    record -- comes out, then c, then the end; the hypotheses of
    [C09_fa_limit_then_generous_policy_resumes] hold for this configuration (n1 = n2 = 3) *)
Example C09l_fa_example_limit_then_generous :
  let inp := [62; 97; 10; 65; 10; 62; 98; 10; 71; 71; 71; 71; 10; 62; 99; 10; 84; 10] in
  let show := fun o : fa_out * option (nat * nat) =>
                (match fst o with ORec rc => inl (fa_head rc, fa_lines rc) | x => inr x end, snd o) in
  map show (fa_prun 21 9 (repeat PNext 3 ++ [PSetPolicy (pol_double_until 8)] ++ repeat PNext 3)
                    (fa_new 4 (mkSource inp 0 [] []) (pol_plus 2 7))) =
    [ (inl (Some [97], Some [[65]]), Some (1, 0));
      (inr (OErr FaBufferLimit), Some (3, 5)); (inr (OErr FaBufferLimit), Some (3, 5));
      (inl (Some [98], Some [[71; 71; 71; 71]]), Some (3, 5));
      (inl (Some [99], Some [[84]]), Some (5, 13));
      (inr ONone, Some (5, 13)) ] /\
  3 <= 4 /\ forallb item_ok [] = true /\ PolOk (pol_double_until 8) /\
  length (@nil ritem) + 2 <= 9 /\ length inp + 2 <= 21.
Proof.
  cbv zeta. split; [vm_compute; reflexivity|]. split; [lia|]. split; [reflexivity|].
  split; [apply PolOk_double_until; lia|]. cbn [length]. lia.
Qed.

(** a swap between two never-refusing policies in mid-stream: hypotheses satisfiable, outcomes = Spec stream *)
Example C09l_fa_example_swap :
  let inp := [62; 97; 10; 65; 10; 62; 98; 10; 71; 71; 71; 71; 10; 62; 99; 10; 84; 10] in
  let ops := [PNext; PSetPolicy (pol_double_until 8); PNext; PSetPolicy (pol_complete pol_refuse); PNext; PNext] in
  Forall pop_ok ops /\ PolOk (pol_complete (pol_plus 2 7)) /\ pnexts ops = 4 /\
  Forall2 fa_smatches (fa_prun 21 9 ops (fa_new 4 (mkSource inp 0 [] []) (pol_complete (pol_plus 2 7))))
          (firstn 4 (map Some (fa_spec inp) ++ repeat None 4)).
Proof.
  cbv zeta.
  assert (Hops : Forall pop_ok [PNext; PSetPolicy (pol_double_until 8); PNext; PSetPolicy (pol_complete pol_refuse); PNext; PNext]).
  { repeat constructor; cbn [pop_ok]; [apply PolOk_double_until; lia|apply pol_complete_PolOk]. }
  split; [exact Hops|]. split; [apply pol_complete_PolOk|]. split; [reflexivity|].
  apply (C09_fa_policy_swap_transparent _ 4 [] [] _ 21 9
           [PNext; PSetPolicy (pol_double_until 8); PNext; PSetPolicy (pol_complete pol_refuse); PNext; PNext]);
    [lia|reflexivity|apply pol_complete_PolOk|exact Hops|cbn; lia|cbn; lia].
Qed.

(** histories: a record, an owned record, a set read, a record; the second operation hits the refusal: j = 1 *)
Example C09l_fa_example_history :
  let inp := [62; 97; 10; 65; 10; 62; 98; 10; 71; 71; 71; 71; 10; 62; 99; 10; 84; 10] in
  let ops := [HNext; HOwned; HSet 0; HNext] in
  let obs := fst (fa_hist 21 9 (tgt_spec inp) ops (h_init inp 4 [] [] (pol_plus 2 7))) in
  let obs0 := fst (fa_hist 21 9 (tgt_spec inp) ops (h_init inp 4 [] [] (pol_complete (pol_plus 2 7)))) in
  firstn 1 obs = firstn 1 obs0 /\
  map hist_show (firstn 1 obs) = [ ([(Some [97], Some [[65]])], 2, Some (1, 0)) ] /\
  nth_error obs 1 = Some (HoErr FaBufferLimit, Some (3, 5)) /\
  map hist_show obs0 = [ ([(Some [97], Some [[65]])], 2, Some (1, 0));
                         ([(Some [98], Some [[71; 71; 71; 71]])], 3, Some (3, 5));
                         ([(Some [99], Some [[84]])], 4, None); ([], 0, None) ] /\
  fst (fa_hist 21 9 (tgt_spec inp) ops (h_init inp 4 [] [] (pol_plus 2 12))) <> [] /\
  map hist_show (fst (fa_hist 21 9 (tgt_spec inp) ops (h_init inp 4 [] [] (pol_plus 2 12)))) = map hist_show obs0.
Proof. vm_compute. repeat split; auto. discriminate. Qed.

(** the relation holds between two non-trivial states: after the first record, in the middle of the input,
    capacity grown to 6, one consultation in the history and in the log *)
Example C09l_fa_related_mid_input :
  let inp := [62; 97; 10; 65; 10; 62; 98; 10; 71; 71; 71; 71; 10; 62; 99; 10; 84; 10] in
  let r0 := fst (fa_next 21 9 (fa_new 4 (mkSource inp 0 [] []) (pol_complete (pol_plus 2 7)))) in
  let r := fst (fa_next 21 9 (fa_new 4 (mkSource inp 0 [] []) (pol_plus 2 7))) in
  fa_polrel r0 r /\ st r = FParsing /\ buf r = [62; 97; 10; 65; 10; 62] /\ cap r = 6 /\ polh r = [4] /\
  log r = [EvRead 2 (RData 2); EvGrow 4 (Some 6); EvRead 4 (RData 4)] /\
  snd (fa_next 21 9 r) = OErr FaBufferLimit /\
  (exists rc, snd (fa_next 21 9 r0) = ORec rc /\ fa_head rc = Some [98]) /\
  log (fst (fa_next 21 9 r)) = EvGrow 6 None :: EvRead 5 (RData 5) :: log r.
Proof.
  intros inp r0 r. split; [|vm_compute; repeat split; eauto].
  destruct (proj1 C09_fa_calls_before_refusal 21 9 _ _ _ _ _ _
              (fa_polrel_new 4 (mkSource inp 0 [] []) (pol_plus 2 7)) (surjective_pairing _) (surjective_pairing _))
    as [(_ & H)|Hk].
  - exact H.
  - exfalso. vm_compute in Hk. discriminate Hk.
Qed.

(** all hypotheses of [C09_fa_records_before_refusal] hold for that configuration *)
Example C09l_fa_hypotheses_satisfiable :
  let inp := [62; 97; 10; 65; 10; 62; 98; 10; 71; 71; 71; 71; 10; 62; 99; 10; 84; 10] in
  let ops := [HNext; HOwned; HSet 0; HNext] in
  let obs := fst (fa_hist 21 9 (tgt_spec inp) ops (h_init inp 4 [] [] (pol_plus 2 7))) in
  exists j items c' g',
    j <= length ops /\
    (j = length ops \/ exists p, nth_error obs j = Some (HoErr FaBufferLimit, p)) /\
    FaOSpec inp items /\ Forall2 (item_rel inp) items (fa_spec inp) /\
    hrun_ok inp (map to_citem items) (CAt 0) ([], []) (firstn j ops) (firstn j obs) c' g'.
Proof.
  apply C09_fa_records_before_refusal; [lia | reflexivity | reflexivity | cbn; lia | cbn; lia | repeat constructor].
Qed.

(* ================================================================== *)
(** * FASTQ *)
From SeqIO Require Import Model.Fastq Spec.FastqSpec Spec.CursorQ
  Proofs.FastqInv Proofs.FastqNextP Proofs.FastqSetP Proofs.FastqSeekP
  Proofs.CursorP Proofs.CursorBridgeP Proofs.FastqHistP.

Theorem C09_pol_complete_ok : forall p, PolOk (pol_complete p) /\ PolOk1 (pol_complete p).
Proof. exact pol_complete_ok. Qed.
Print Assumptions C09_pol_complete_ok.

Theorem C09_fq_calls_before_refusal :
  (forall fuel ffuel a0 a a0' o0 a' o, fq_polrel a0 a ->
     fq_next fuel ffuel a0 = (a0', o0) -> fq_next fuel ffuel a = (a', o) ->
     (o = o0 /\ fq_polrel a0' a') \/ o = QOErr FqBufferLimit) /\
  (forall fuel ffuel n a0 a rs a0' rs0' o0 a' rs' o, fq_polrel a0 a ->
     fq_read_set fuel ffuel n a0 rs = (a0', rs0', o0) -> fq_read_set fuel ffuel n a rs = (a', rs', o) ->
     (o = o0 /\ rs' = rs0' /\ fq_polrel a0' a') \/ o = QOErr FqBufferLimit) /\
  (forall ffuel a0 a line byte_ a0' o0 a' o, fq_polrel a0 a ->
     fq_seek ffuel a0 line byte_ = (a0', o0) -> fq_seek ffuel a line byte_ = (a', o) ->
     o = o0 /\ fq_polrel a0' a') /\
  (forall a0 a, fq_polrel a0 a -> fq_position a = fq_position a0).
Proof. exact fq_calls_before_refusal. Qed.
Print Assumptions C09_fq_calls_before_refusal.

Theorem C09_fq_set_policy_related : forall a0 a q, fq_polrel a0 a ->
  fq_polrel (fq_set_policy a0 (pol_complete q)) (fq_set_policy a q).
Proof. exact fq_set_policy_rel. Qed.
Print Assumptions C09_fq_set_policy_related.

Theorem C09_fq_history_before_refusal : forall inp cap0 rs ss pol fuel ffuel ops,
  let obs  := fst (fq_hrun inp fuel ffuel ops (fq_hconf0 cap0 inp rs ss pol)) in
  let obs0 := fst (fq_hrun inp fuel ffuel ops (fq_hconf0 cap0 inp rs ss (pol_complete pol))) in
  exists j, j <= length ops /\ firstn j obs = firstn j obs0 /\
            (j = length ops \/ nth_error obs j = Some (OErr FqBufferLimit)).
Proof. exact fq_history_before_refusal. Qed.
Print Assumptions C09_fq_history_before_refusal.

(** the hypotheses of [C04_fq_history_refines_cursor] (Props/C04q.v) except [PolOk1 pol] *)
Theorem C09_fq_records_before_refusal : forall inp cap0 rs ss pol fuel ffuel ops,
  1 <= cap0 -> forallb item_ok rs = true -> forallb sitem_ok ss = true ->
  length rs + 2 <= ffuel -> 2 * length inp + 4 <= fuel -> hist_ok inp ops ->
  let obs := fst (fq_hrun inp fuel ffuel ops (fq_hconf0 cap0 inp rs ss pol)) in
  exists j os h',
    j <= length ops /\
    (j = length ops \/ nth_error obs j = Some (OErr FqBufferLimit)) /\
    hrun fq_sitem fq_is_rec (fq_spec_all inp) h_init (firstn j ops) os h' /\
    Forall2 (obs_match inp) (firstn j obs) os.
Proof. exact fq_records_before_refusal. Qed.
Print Assumptions C09_fq_records_before_refusal.

Theorem C09_fq_policy_swap_transparent : forall inp cap0 rs ss pol fuel ffuel ops,
  1 <= cap0 -> forallb item_ok rs = true -> PolOk pol -> Forall pop_ok ops ->
  length rs + 2 <= ffuel -> length inp + 2 <= fuel ->
  Forall2 (fq_matches inp) (fq_prun fuel ffuel ops (fq_new cap0 (mkSource inp 0 rs ss) pol))
          (firstn (pnexts ops) (map Some (fq_spec_all inp) ++ repeat None (pnexts ops))).
Proof.
  intros inp cap0 rs ss pol fuel ffuel ops Hcap Hrs Hpol Hops Hff Hfuel.
  exact (fq_policy_swap_transparent inp cap0 rs ss fuel ffuel Hcap Hrs Hff Hfuel pol ops Hpol Hops).
Qed.
Print Assumptions C09_fq_policy_swap_transparent.

Theorem C09_fq_policy_ops_stream : forall inp cap0 rs ss pol fuel ffuel ops,
  1 <= cap0 -> forallb item_ok rs = true -> length rs + 2 <= ffuel -> length inp + 2 <= fuel ->
  let outs := filter qnot_limit (fq_prun fuel ffuel ops (fq_new cap0 (mkSource inp 0 rs ss) pol)) in
  Forall2 (fq_matches inp) outs (firstn (length outs) (map Some (fq_spec_all inp) ++ repeat None (length outs))).
Proof.
  intros inp cap0 rs ss pol fuel ffuel ops Hcap Hrs Hff Hfuel.
  exact (fq_policy_ops_stream inp cap0 rs ss fuel ffuel Hcap Hrs Hff Hfuel pol ops).
Qed.
Print Assumptions C09_fq_policy_ops_stream.

Theorem C09_fq_generous_policy_resumes : forall inp cap0 rs ss pol fuel ffuel ops1 q ops2,
  1 <= cap0 -> forallb item_ok rs = true -> length rs + 2 <= ffuel -> length inp + 2 <= fuel ->
  PolOk q -> Forall pop_ok ops2 ->
  let r0 := fq_new cap0 (mkSource inp 0 rs ss) pol in
  let outs1 := fq_prun fuel ffuel ops1 r0 in
  let outs2 := fq_prun fuel ffuel (PSetPolicy q :: ops2) (fq_pstate fuel ffuel ops1 r0) in
  fq_prun fuel ffuel (ops1 ++ PSetPolicy q :: ops2) r0 = outs1 ++ outs2 /\
  length outs1 = pnexts ops1 /\ length outs2 = pnexts ops2 /\
  Forall (fun o => qnot_limit o = true) outs2 /\
  Forall2 (fq_matches inp) (filter qnot_limit outs1 ++ outs2)
          (firstn (length (filter qnot_limit outs1) + pnexts ops2)
                  (map Some (fq_spec_all inp) ++ repeat None (length (filter qnot_limit outs1) + pnexts ops2))).
Proof.
  intros inp cap0 rs ss pol fuel ffuel ops1 q ops2 Hcap Hrs Hff Hfuel Hq Hops2.
  exact (fq_generous_policy_resumes inp cap0 rs ss fuel ffuel Hcap Hrs Hff Hfuel pol ops1 q ops2 Hq Hops2).
Qed.
Print Assumptions C09_fq_generous_policy_resumes.

Theorem C09_fq_limit_then_generous_policy_resumes : forall inp cap0 rs ss pol q fuel ffuel n1 n2,
  1 <= cap0 -> forallb item_ok rs = true -> PolOk q ->
  length rs + 2 <= ffuel -> length inp + 2 <= fuel ->
  let r0 := fq_new cap0 (mkSource inp 0 rs ss) pol in
  let outs1 := fq_prun fuel ffuel (repeat PNext n1) r0 in
  let outs2 := fq_prun fuel ffuel (PSetPolicy q :: repeat PNext n2) (fq_pstate fuel ffuel (repeat PNext n1) r0) in
  fq_prun fuel ffuel (repeat PNext n1 ++ [PSetPolicy q] ++ repeat PNext n2) r0 = outs1 ++ outs2 /\
  length outs1 = n1 /\ length outs2 = n2 /\
  Forall (fun o => qnot_limit o = true) outs2 /\
  Forall2 (fq_matches inp) (filter qnot_limit outs1 ++ outs2)
          (firstn (length (filter qnot_limit outs1) + n2)
                  (map Some (fq_spec_all inp) ++ repeat None (length (filter qnot_limit outs1) + n2))).
Proof. exact fq_limit_then_generous_policy_resumes. Qed.
Print Assumptions C09_fq_limit_then_generous_policy_resumes.

(* ------------------------------------------------------------------ *)
(** ** non-vacuity (FASTQ) *)

Example C09l_fq_new_related : forall cap0 s p, fq_polrel (fq_new cap0 s (pol_complete p)) (fq_new cap0 s p).
Proof. exact fq_polrel_new. Qed.

(** "@a\nA\n+\nI\n" (9 bytes), "@b\nGGGG\n+\nIIII\n" (15 bytes), "@c\nT\n+\nI\n"; capacity 4;
    [pol_plus 2 12] permits 4 -> 6 -> ... -> 12 and refuses 12 -> 14: record a, then the buffer-limit error;
    the completed policy and [pol_plus 2 20] deliver the three records and the end of input; after two
    refusals the generous [pol_double_until 8] (a [PolOk] policy) makes record b come out *)
Example C09l_fq_example_runs :
  let inp := [64; 97; 10; 65; 10; 43; 10; 73; 10;  64; 98; 10; 71; 71; 71; 71; 10; 43; 10; 73; 73; 73; 73; 10;
              64; 99; 10; 84; 10; 43; 10; 73; 10] in
  let show := fun o : fq_out * (nat * nat) =>
                (match fst o with QORec rc => inl (fq_head rc, fq_seq rc, fq_qual rc) | x => inr x end, snd o) in
  let run := fun pol => map show (fq_prun 40 10 (repeat PNext 4) (fq_new 4 (mkSource inp 0 [] []) pol)) in
  run (pol_plus 2 12) =
    [ (inl (Some [97], Some [65], Some [73]), (1, 0));
      (inr (QOErr FqBufferLimit), (5, 9)); (inr (QOErr FqBufferLimit), (5, 9)); (inr (QOErr FqBufferLimit), (5, 9)) ] /\
  run (pol_complete (pol_plus 2 12)) =
    [ (inl (Some [97], Some [65], Some [73]), (1, 0));
      (inl (Some [98], Some [71; 71; 71; 71], Some [73; 73; 73; 73]), (5, 9));
      (inl (Some [99], Some [84], Some [73]), (9, 24));
      (inr QONone, (13, 33)) ] /\
  run (pol_plus 2 20) = run (pol_complete (pol_plus 2 12)) /\
  map show (fq_prun 40 10 (repeat PNext 3 ++ [PSetPolicy (pol_double_until 8)] ++ repeat PNext 3)
                    (fq_new 4 (mkSource inp 0 [] []) (pol_plus 2 12))) =
    [ (inl (Some [97], Some [65], Some [73]), (1, 0));
      (inr (QOErr FqBufferLimit), (5, 9)); (inr (QOErr FqBufferLimit), (5, 9));
      (inl (Some [98], Some [71; 71; 71; 71], Some [73; 73; 73; 73]), (5, 9));
      (inl (Some [99], Some [84], Some [73]), (9, 24));
      (inr QONone, (13, 33)) ] /\
  length (fq_spec_all inp) = 3.
Proof. vm_compute. auto 10. Qed.

(** histories; the relation between two non-trivial states (after the first record; the capacity has grown
    from 4 to 10 in three consultations) *)
Example C09l_fq_example_history :
  let inp := [64; 97; 10; 65; 10; 43; 10; 73; 10;  64; 98; 10; 71; 71; 71; 71; 10; 43; 10; 73; 73; 73; 73; 10;
              64; 99; 10; 84; 10; 43; 10; 73; 10] in
  let ops := [HNext; HOwned; HSet false; HNext] in
  let obs := fst (fq_hrun inp 70 10 ops (fq_hconf0 4 inp [] [] (pol_plus 2 12))) in
  let obs0 := fst (fq_hrun inp 70 10 ops (fq_hconf0 4 inp [] [] (pol_complete (pol_plus 2 12)))) in
  firstn 1 obs = firstn 1 obs0 /\
  nth_error obs 1 = Some (OErr FqBufferLimit) /\
  (exists rc, nth_error obs 0 = Some (ORec rc) /\ fq_head rc = Some [97]) /\
  (exists l, nth_error obs0 2 = Some (OSetOk l) /\ map fq_head l = [Some [99]]) /\
  nth_error obs0 3 = Some OEnd.
Proof. vm_compute. repeat split; eauto. Qed.

Example C09l_fq_related_mid_input :
  let inp := [64; 97; 10; 65; 10; 43; 10; 73; 10;  64; 98; 10; 71; 71; 71; 71; 10; 43; 10; 73; 73; 73; 73; 10;
              64; 99; 10; 84; 10; 43; 10; 73; 10] in
  let a0 := fst (fq_next 40 10 (fq_new 4 (mkSource inp 0 [] []) (pol_complete (pol_plus 2 12)))) in
  let a := fst (fq_next 40 10 (fq_new 4 (mkSource inp 0 [] []) (pol_plus 2 12))) in
  fq_polrel a0 a /\ qst a = QParsing /\ qcap a = 10 /\ qpolh a = [8; 6; 4] /\
  snd (fq_next 40 10 a) = QOErr FqBufferLimit /\
  (exists rc, snd (fq_next 40 10 a0) = QORec rc /\ fq_head rc = Some [98]).
Proof.
  intros inp a0 a. split; [|vm_compute; repeat split; eauto].
  destruct (proj1 C09_fq_calls_before_refusal 40 10 _ _ _ _ _ _
              (fq_polrel_new 4 (mkSource inp 0 [] []) (pol_plus 2 12)) (surjective_pairing _) (surjective_pairing _))
    as [(_ & H)|Hk].
  - exact H.
  - exfalso. vm_compute in Hk. discriminate Hk.
Qed.

(** all hypotheses of [C09_fq_records_before_refusal] hold for that configuration *)
Example C09l_fq_hypotheses_satisfiable :
  let inp := [64; 97; 10; 65; 10; 43; 10; 73; 10;  64; 98; 10; 71; 71; 71; 71; 10; 43; 10; 73; 73; 73; 73; 10;
              64; 99; 10; 84; 10; 43; 10; 73; 10] in
  let ops := [HNext; HOwned; HSet false; HNext] in
  let obs := fst (fq_hrun inp 70 10 ops (fq_hconf0 4 inp [] [] (pol_plus 2 12))) in
  exists j os h',
    j <= length ops /\
    (j = length ops \/ nth_error obs j = Some (OErr FqBufferLimit)) /\
    hrun fq_sitem fq_is_rec (fq_spec_all inp) h_init (firstn j ops) os h' /\
    Forall2 (obs_match inp) (firstn j obs) os.
Proof.
  apply C09_fq_records_before_refusal; [lia | reflexivity | reflexivity | cbn; lia | cbn; lia |].
  unfold hist_ok. repeat constructor.
Qed.

(** a swap between never-refusing policies in mid-stream *)
Example C09l_fq_example_swap :
  let inp := [64; 97; 10; 65; 10; 43; 10; 73; 10;  64; 98; 10; 71; 71; 71; 71; 10; 43; 10; 73; 73; 73; 73; 10;
              64; 99; 10; 84; 10; 43; 10; 73; 10] in
  let ops := [PNext; PSetPolicy (pol_double_until 8); PNext; PSetPolicy (pol_complete pol_refuse); PNext; PNext] in
  Forall2 (fq_matches inp) (fq_prun 40 10 ops (fq_new 4 (mkSource inp 0 [] []) (pol_complete (pol_plus 2 12))))
          (firstn 4 (map Some (fq_spec_all inp) ++ repeat None 4)).
Proof.
  cbv zeta.
  apply (C09_fq_policy_swap_transparent _ 4 [] [] _ 40 10
           [PNext; PSetPolicy (pol_double_until 8); PNext; PSetPolicy (pol_complete pol_refuse); PNext; PNext]);
    [lia|reflexivity|apply pol_complete_PolOk| |cbn; lia|cbn; lia].
  repeat constructor; cbn [pop_ok]; [apply PolOk_double_until; lia|apply pol_complete_PolOk].
Qed.
