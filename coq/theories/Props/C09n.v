(** C09 (continued) — (b) growth is requested only when needed, (e) set_policy.
    See C09.v for the conventions.  Statements only; proofs are in Proofs/GrowSitesP.v,
    FqGrowSitesP.v, GrowP.v. *)
From SeqIO Require Import Model.Base Model.Fasta Model.Fastq
     Proofs.TraceP Proofs.FaTraceP Proofs.FqTraceP Proofs.FaultP Proofs.GrowP Proofs.FastqGrowP
     Proofs.GrowSitesP Proofs.FqGrowSitesP.

(* ================================================================== *)
(** * (b) growth is requested only when needed *)

(** [fa_resume_g] is [fa_resume] instrumented with the list of the states in
    which [fa_grow] is called (cf. [fq_resume_g] in C09q.v) *)
Theorem C09_fa_resume_g_is_resume : forall fuel ffuel mk r,
  fa_resume_g fuel ffuel mk r = (fa_resume fuel ffuel mk r, fa_resume_sites fuel ffuel mk r).
Proof. exact fa_resume_g_erase. Qed.
Print Assumptions C09_fa_resume_g_is_resume.

(** inside [resume_incomplete_search] the FASTA reader consults the policy only
    with a completely full buffer, and only with the record at offset 0 unless
    making room is forbidden; every source and policy.  (Unlike the FASTQ loop,
    the FASTA loop does not test fullness itself: it relies on being entered
    right after a search that ended in a full buffer -- the hypothesis.) *)
Theorem C09_fa_grow_only_when_full : forall fuel ffuel mk r,
  length (buf r) = cap r -> st r = FIncomplete ->
  Forall (fun g => length (buf g) = cap g /\ (mk = false \/ start g = 0))
         (snd (fa_resume_g fuel ffuel mk r)).
Proof. exact fa_grow_only_when_full. Qed.
Print Assumptions C09_fa_grow_only_when_full.

Theorem C09_grows_when_needed_meaning : forall (S : Type) (site_event : S -> ev) (P : S -> Prop) old new sites,
  GrowsWhenNeeded site_event P old new sites <->
  ((* the [EvGrow] events the call logged are exactly the consultations made in the listed
      states, in order (the log is newest first) *)
   filter is_grow (new_events new old) = rev (map site_event sites) /\
   (* and every listed state satisfies P *)
   Forall P sites).
Proof. intros. reflexivity. Qed.
Print Assumptions C09_grows_when_needed_meaning.

(** [fa_next_sites] / [fa_read_set_sites] / [fq_next_sites] / [fq_read_set_sites]
    follow the code of the entry point and list the states in which [grow] is
    entered.  Every policy consultation of a call happens in a state whose
    record starts at offset 0 and whose buffer is completely full
    ([GrowSite s := start s = 0 /\ length (buf s) = cap s]). *)
Theorem C09_fa_next_grows_only_when_needed : forall fuel ffuel r r' o,
  fa_next fuel ffuel r = (r', o) -> BufFits r -> FullInc r ->
  GrowsWhenNeeded fa_site_event GrowSite (log r) (log r') (fa_next_sites fuel ffuel r).
Proof. exact fa_next_grows_only_when_needed. Qed.
Print Assumptions C09_fa_next_grows_only_when_needed.

(** record sets: always a full buffer; offset 0 for plain record sets
    ([n = None]); exact-count batches are excluded from that clause by the property *)
Theorem C09_fa_read_set_grows_only_when_needed : forall fuel ffuel n r rs r' rs' o,
  fa_read_set fuel ffuel n r rs = (r', rs', o) -> BufFits r -> FullInc r ->
  GrowsWhenNeeded fa_site_event (fun s => length (buf s) = cap s /\ (n = None -> start s = 0))
                  (log r) (log r') (fa_read_set_sites fuel ffuel n r rs).
Proof. exact fa_read_set_grows_only_when_needed. Qed.
Print Assumptions C09_fa_read_set_grows_only_when_needed.

Theorem C09_fq_next_grows_only_when_needed : forall fuel ffuel r r' o,
  fq_next fuel ffuel r = (r', o) -> QBufFits r ->
  GrowsWhenNeeded fq_site_event QGrowSite (qlog r) (qlog r') (fq_next_sites fuel ffuel r).
Proof. exact fq_next_grows_only_when_needed. Qed.
Print Assumptions C09_fq_next_grows_only_when_needed.

Theorem C09_fq_read_set_grows_only_when_needed : forall fuel ffuel n r rs r' rs' o,
  fq_read_set fuel ffuel n r rs = (r', rs', o) -> QBufFits r ->
  GrowsWhenNeeded fq_site_event (fun s => length (qbuf s) = qcap s /\ (n = None -> p0 s = 0))
                  (qlog r) (qlog r') (fq_read_set_sites fuel ffuel n r).
Proof. exact fq_read_set_grows_only_when_needed. Qed.
Print Assumptions C09_fq_read_set_grows_only_when_needed.

(** the hypotheses are invariants: [BufFits r := length (buf r) <= cap r] always,
    [FullInc] unless a call ended in fuel exhaustion or a panic
    ([fa_regular_out o := match o with OFuel | OPanic _ => False | _ => True end]) *)
Theorem C09_fa_invariants_preserved :
  (forall c s p, BufFits (fa_new c s p) /\ FullInc (fa_new c s p)) /\
  (forall fuel ffuel r r' o, fa_next fuel ffuel r = (r', o) -> BufFits r -> FullInc r ->
     BufFits r' /\ (fa_regular_out o -> FullInc r')) /\
  (forall fuel ffuel n r rs r' rs' o, fa_read_set fuel ffuel n r rs = (r', rs', o) -> BufFits r -> FullInc r ->
     BufFits r' /\ (fa_regular_out o -> FullInc r')) /\
  (forall ffuel r line byte_ r' o, fa_seek ffuel r line byte_ = (r', o) -> BufFits r -> FullInc r ->
     BufFits r' /\ FullInc r') /\
  (forall r p, BufFits r -> FullInc r -> BufFits (fa_set_policy r p) /\ FullInc (fa_set_policy r p)).
Proof. exact fa_invariants_preserved. Qed.
Print Assumptions C09_fa_invariants_preserved.

Theorem C09_fq_buffer_fits_preserved :
  (forall c s p, QBufFits (fq_new c s p)) /\
  (forall fuel ffuel r r' o, fq_next fuel ffuel r = (r', o) -> QBufFits r -> QBufFits r') /\
  (forall fuel ffuel n r rs r' rs' o, fq_read_set fuel ffuel n r rs = (r', rs', o) -> QBufFits r -> QBufFits r') /\
  (forall ffuel r line byte_ r' o, fq_seek ffuel r line byte_ = (r', o) -> QBufFits r -> QBufFits r') /\
  (forall r p, QBufFits r -> QBufFits (fq_set_policy r p)).
Proof. exact fq_buffer_fits_preserved. Qed.
Print Assumptions C09_fq_buffer_fits_preserved.

(** [FullInc] is lost only by a call that runs out of fuel (or panics, which sane states
    never do: C06s.v).  An I/O error while refilling is final in both readers, so the former
    counter-example (the policy asked again, with room in the buffer, after an I/O error
    inside [resume_incomplete_search]) no longer exists; [fa_regular_out o] is "o is neither
    OFuel nor OPanic".  The fuel exception is real: with refill fuel 0 the loop stops right
    after making room and leaves an [Incomplete] reader whose buffer has room. *)
Theorem C09_fa_FullInc_lost_on_fuel_exhaustion :
  exists r, BufFits r /\ FullInc r /\
    let r1 := fst (fa_next 20 20 r) in
    (exists rc, snd (fa_next 20 20 r) = ORec rc) /\ FullInc r1 /\
    snd (fa_next 20 0 r1) = OFuel /\
    let r2 := fst (fa_next 20 0 r1) in
    st r2 = FIncomplete /\ length (buf r2) < cap r2.
Proof. exact fa_FullInc_lost_on_fuel_exhaustion. Qed.
Print Assumptions C09_fa_FullInc_lost_on_fuel_exhaustion.

(** after an I/O error the invariant holds: the reader is finished *)
Example C09_fa_io_error_keeps_FullInc :
  let r1 := fst (fa_next 30 30 c14_fa_reader) in
  snd (fa_next 30 30 c14_fa_reader) = OErr (FaIo 7) /\ st r1 = FFinished /\ FullInc r1 /\ fa_next_sites 30 30 r1 = [].
Proof. vm_compute. repeat split; try reflexivity. intros H; discriminate H. Qed.

(** non-vacuity *)
Example C09_fa_grow_only_when_full_example :
  let r := set_st (fst (fa_init 30 30 (fa_new 3 (mkSource c14_fa_input 0 [] []) pol_std))) FParsing in
  let r1 := fst (fa_search r) in
  length (buf r1) = cap r1 /\ st r1 = FIncomplete /\
  map (fun g => (start g, length (buf g), cap g)) (snd (fa_resume_g 30 30 true r1)) = [(0, 3, 3); (0, 6, 6)].
Proof. vm_compute. repeat split; reflexivity. Qed.

Example C09_fa_next_grows_example :
  let r := fa_new 4 (mkSource c14_fa_input 0 [] []) (pol_plus 2 7) in
  BufFits r /\ FullInc r /\
  map (fun s => (start s, length (buf s), cap s)) (fa_next_sites 30 30 r) = [(0, 4, 4); (0, 6, 6)] /\
  filter is_grow (new_events (log (fst (fa_next 30 30 r))) (log r)) = [EvGrow 6 None; EvGrow 4 (Some 6)].
Proof. split; [unfold BufFits; cbn; lia|]. split; [intros H; discriminate H|]. vm_compute. repeat split; reflexivity. Qed.

Example C09_fa_read_set_grows_example :
  let r := fa_new 3 (mkSource c14_fa_input 0 [] []) pol_std in
  BufFits r /\ FullInc r /\
  map (fun s => (start s, length (buf s), cap s)) (fa_read_set_sites 30 30 None r fa_set_empty) = [(0, 3, 3); (0, 6, 6)].
Proof. split; [unfold BufFits; cbn; lia|]. split; [intros H; discriminate H|]. vm_compute. reflexivity. Qed.

Example C09_fq_grows_example :
  let r := fq_new 5 (mkSource c14_fq_input 0 [] []) (pol_plus 4 12) in
  QBufFits r /\
  map (fun s => (p0 s, length (qbuf s), qcap s)) (fq_next_sites 30 30 r) = [(0, 5, 5); (0, 9, 9)] /\
  map (fun s => (p0 s, length (qbuf s), qcap s)) (fq_read_set_sites 30 30 None r) = [(0, 5, 5); (0, 9, 9)].
Proof. split; [unfold QBufFits; cbn; lia|]. vm_compute. split; reflexivity. Qed.

(* ================================================================== *)
(** * (e) a policy installed in mid-stream takes over without disturbing the stream *)

Theorem C09_fa_set_policy_keeps_state : forall r p,
  let r' := fa_set_policy r p in
  buf r' = buf r /\ cap r' = cap r /\ src r' = src r /\ start r' = start r /\ seqpos r' = seqpos r /\
  pline r' = pline r /\ pbyte r' = pbyte r /\ spos r' = spos r /\ st r' = st r /\ log r' = log r /\
  polf r' = p /\ polh r' = [].
Proof. exact fa_set_policy_fields. Qed.
Print Assumptions C09_fa_set_policy_keeps_state.

Theorem C09_fq_set_policy_keeps_state : forall r p,
  let r' := fq_set_policy r p in
  qbuf r' = qbuf r /\ qcap r' = qcap r /\ qsrc r' = qsrc r /\ p0 r' = p0 r /\ p1 r' = p1 r /\
  pseq r' = pseq r /\ psep r' = psep r /\ pqual r' = pqual r /\ inc r' = inc r /\
  qline r' = qline r /\ qbyte r' = qbyte r /\ qst r' = qst r /\ qlog r' = qlog r /\
  qpolf r' = p /\ qpolh r' = [].
Proof. exact fq_set_policy_fields. Qed.
Print Assumptions C09_fq_set_policy_keeps_state.

(** every later consultation is answered by the new policy, from an empty history *)
Theorem C09_fa_set_policy_takes_over_next : forall fuel ffuel r p r' o,
  fa_next fuel ffuel (fa_set_policy r p) = (r', o) ->
  let added := new_events (log r') (log r) in
  GrowAnswers p [] added /\ polf r' = p /\ polh r' = grow_args added.
Proof. exact fa_set_policy_takes_over_next. Qed.
Print Assumptions C09_fa_set_policy_takes_over_next.

Theorem C09_fa_set_policy_takes_over_read_set : forall fuel ffuel n r rs p r' rs' o,
  fa_read_set fuel ffuel n (fa_set_policy r p) rs = (r', rs', o) ->
  let added := new_events (log r') (log r) in
  GrowAnswers p [] added /\ polf r' = p /\ polh r' = grow_args added.
Proof. exact fa_set_policy_takes_over_read_set. Qed.
Print Assumptions C09_fa_set_policy_takes_over_read_set.

Theorem C09_fq_set_policy_takes_over_next : forall fuel ffuel r p r' o,
  fq_next fuel ffuel (fq_set_policy r p) = (r', o) ->
  let added := new_events (qlog r') (qlog r) in
  GrowAnswers p [] added /\ qpolf r' = p /\ qpolh r' = grow_args added.
Proof. exact fq_set_policy_takes_over_next. Qed.
Print Assumptions C09_fq_set_policy_takes_over_next.

Theorem C09_fq_set_policy_takes_over_read_set : forall fuel ffuel n r rs p r' rs' o,
  fq_read_set fuel ffuel n (fq_set_policy r p) rs = (r', rs', o) ->
  let added := new_events (qlog r') (qlog r) in
  GrowAnswers p [] added /\ qpolf r' = p /\ qpolh r' = grow_args added.
Proof. exact fq_set_policy_takes_over_read_set. Qed.
Print Assumptions C09_fq_set_policy_takes_over_read_set.

(** non-vacuity: after a buffer-limit error under a scripted policy, the policy
    "+1" is installed; the next call asks it three times (6, 7, 8) and succeeds *)
Example C09_set_policy_example :
  let r := fa_new 4 (mkSource c14_fa_input 0 [] []) (pol_script [Some 6; Some 5; Some 20]) in
  let r1 := fst (fa_next 30 30 r) in
  let c := fa_next 30 30 (fa_set_policy r1 (pol_plus 1 100)) in
  snd (fa_next 30 30 r) = OErr FaBufferLimit /\
  (exists rc, snd c = ORec rc) /\
  filter is_grow (new_events (log (fst c)) (log r1)) = [EvGrow 8 (Some 9); EvGrow 7 (Some 8); EvGrow 6 (Some 7)] /\
  polh (fst c) = [8; 7; 6].
Proof. vm_compute. repeat split; try reflexivity. eexists; reflexivity. Qed.

