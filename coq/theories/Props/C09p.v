(** C09 (continued) — (f) the built-in policies compute the documented sizes.
    Over the definitions GENERATED from src/policy.rs (Gen/PolicyGen.v), and their relation
    to the executable policies of the reader model.  Statements only; proofs in Proofs/PolicyP.v. *)
From SeqIO Require Import Model.Base Gen.PolicyGen Proofs.PolicyP.

(* ================================================================== *)
(** * (f) the built-in policies (GENERATED from src/policy.rs) *)

Theorem C09_std_grow_to : (forall c,
  std_grow_to c = Some (if c <? 2 ^ 23 then 2 * c else c + 2 ^ 23))%Z.
Proof. exact std_grow_to_spec. Qed.
Print Assumptions C09_std_grow_to.

Theorem C09_std_grow_to_larger : (forall c, 1 <= c -> exists n, std_grow_to c = Some n /\ c < n)%Z.
Proof. exact std_grow_to_larger. Qed.
Print Assumptions C09_std_grow_to_larger.

Theorem C09_std_grow_to_mono : (forall c1 c2 n1 n2, 0 <= c1 -> c1 <= c2 ->
  std_grow_to c1 = Some n1 -> std_grow_to c2 = Some n2 -> n1 <= n2)%Z.
Proof. exact std_grow_to_mono. Qed.
Print Assumptions C09_std_grow_to_mono.

Theorem C09_double_until_grow_to : (forall a c,
  double_until_grow_to a c = Some (if c <? a then 2 * c else c + a))%Z.
Proof. exact double_until_grow_to_spec. Qed.
Print Assumptions C09_double_until_grow_to.

Theorem C09_double_until_doubles_below : (forall a c, c < a -> double_until_grow_to a c = Some (2 * c))%Z.
Proof. exact double_until_doubles_below. Qed.
Print Assumptions C09_double_until_doubles_below.

Theorem C09_double_until_adds_above : (forall a c, a <= c -> double_until_grow_to a c = Some (c + a))%Z.
Proof. exact double_until_adds_above. Qed.
Print Assumptions C09_double_until_adds_above.

Theorem C09_double_until_larger : (forall a c, 1 <= c -> 1 <= a ->
  exists n, double_until_grow_to a c = Some n /\ c < n)%Z.
Proof. exact double_until_larger. Qed.
Print Assumptions C09_double_until_larger.

(** with threshold 0 the policy answers the current size (no progress: finding F8) *)
Theorem C09_double_until_zero_no_progress : (forall c, 0 <= c -> double_until_grow_to 0 c = Some c)%Z.
Proof. exact double_until_zero_no_progress. Qed.
Print Assumptions C09_double_until_zero_no_progress.

Theorem C09_double_until_mono : (forall a c1 c2 n1 n2, 0 <= c1 -> c1 <= c2 ->
  double_until_grow_to a c1 = Some n1 -> double_until_grow_to a c2 = Some n2 -> n1 <= n2)%Z.
Proof. exact double_until_mono. Qed.
Print Assumptions C09_double_until_mono.

(** [doubled a c := if c <? a then 2 * c else c + a] *)
Theorem C09_double_until_limited_grow_to : (forall a lim c,
  double_until_limited_grow_to a lim c = if doubled a c <=? lim then Some (doubled a c) else None)%Z.
Proof. exact double_until_limited_spec. Qed.
Print Assumptions C09_double_until_limited_grow_to.

Theorem C09_double_until_limited_refuses_iff : (forall a lim c,
  double_until_limited_grow_to a lim c = None <-> lim < doubled a c)%Z.
Proof. exact double_until_limited_refuses_iff. Qed.
Print Assumptions C09_double_until_limited_refuses_iff.

Theorem C09_double_until_limited_answers_iff : (forall a lim c n,
  double_until_limited_grow_to a lim c = Some n <-> n = doubled a c /\ n <= lim)%Z.
Proof. exact double_until_limited_answers_iff. Qed.
Print Assumptions C09_double_until_limited_answers_iff.

Theorem C09_double_until_limited_larger : (forall a lim c n, 1 <= c -> 1 <= a ->
  double_until_limited_grow_to a lim c = Some n -> c < n)%Z.
Proof. exact double_until_limited_larger. Qed.
Print Assumptions C09_double_until_limited_larger.

Theorem C09_double_until_limited_mono : (forall a lim c1 c2 n2, 0 <= c1 -> c1 <= c2 ->
  double_until_limited_grow_to a lim c2 = Some n2 ->
  exists n1, double_until_limited_grow_to a lim c1 = Some n1 /\ n1 <= n2)%Z.
Proof. exact double_until_limited_mono. Qed.
Print Assumptions C09_double_until_limited_mono.



(** the executable policies of the reader model are the generated ones *)
Theorem C09_pol_std_is_generated : forall h c,
  pol_std h c = option_map Z.to_nat (std_grow_to (Z.of_nat c)).
Proof. exact pol_std_is_generated. Qed.
Print Assumptions C09_pol_std_is_generated.

Theorem C09_pol_double_until_is_generated : forall a h c,
  pol_double_until a h c = option_map Z.to_nat (double_until_grow_to (Z.of_nat a) (Z.of_nat c)).
Proof. exact pol_double_until_is_generated. Qed.
Print Assumptions C09_pol_double_until_is_generated.

Theorem C09_pol_double_until_limited_is_generated : forall a lim h c,
  pol_double_until_limited a lim h c =
  option_map Z.to_nat (double_until_limited_grow_to (Z.of_nat a) (Z.of_nat lim) (Z.of_nat c)).
Proof. exact pol_double_until_limited_is_generated. Qed.
Print Assumptions C09_pol_double_until_limited_is_generated.

(** non-vacuity: values around the thresholds *)
Example C09_builtin_policies_example :
  (std_grow_to 8388607 = Some 16777214 /\ std_grow_to 8388608 = Some 16777216 /\ std_grow_to 1 = Some 2 /\
   double_until_grow_to 10 9 = Some 18 /\ double_until_grow_to 10 10 = Some 20 /\
   double_until_limited_grow_to 10 40 20 = Some 30 /\ double_until_limited_grow_to 10 40 30 = Some 40 /\
   double_until_limited_grow_to 10 40 31 = None /\ double_until_limited_grow_to 10 17 9 = None)%Z /\
  pol_std [] 3 = Some 6 /\ pol_double_until 10 [] 10 = Some 20 /\ pol_double_until_limited 10 40 [] 31 = None.
Proof. vm_compute. repeat split; reflexivity. Qed.
