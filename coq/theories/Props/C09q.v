(** C09 (FASTQ, the guard of [grow]) — inside [resume_incomplete_search] the growth
    policy is consulted only when the buffer is completely full, and only with the
    current record at the start of the buffer ([p0 = 0]) unless making room is forbidden
    (record sets: [mk_room = false]).  For every source (faulty or not) and every policy.

    [fq_resume_g] is [fq_resume] instrumented with the list of the states in which
    [fq_grow] is called; erasing the list gives back [fq_resume].
    Statements only; proofs are in Proofs/FastqGrowP.v. *)
From SeqIO Require Import Model.Base Model.Fastq Proofs.FastqGrowP.

Theorem C09_fq_resume_g_is_resume : forall fuel ffuel s mk r,
  fst (fq_resume_g fuel ffuel s mk r) = fq_resume fuel ffuel s mk r.
Proof. exact fq_resume_g_erase. Qed.
Print Assumptions C09_fq_resume_g_is_resume.

Theorem C09_fq_grow_only_when_full : forall fuel ffuel s mk r,
  length (qbuf r) <= qcap r ->
  Forall (fun g => length (qbuf g) = qcap g /\ (mk = false \/ p0 g = 0))
         (snd (fq_resume_g fuel ffuel s mk r)).
Proof. exact fq_grow_only_when_full. Qed.
Print Assumptions C09_fq_grow_only_when_full.

(** non-vacuity: "@a\nAC\n+\nII\n@b\nG\n+\nI" with capacity 3: the first record needs the
    capacities 3, 6, 12; the policy is asked twice, each time with a full buffer and
    [p0 = 0] *)
Example C09_fq_grow_only_when_full_nonvacuous :
  let inp := [64;97;10;65;67;10;43;10;73;73;10;64;98;10;71;10;43;10;73] in
  let r := qset_inc (fst (fq_init 50 (fq_new 3 (mkSource inp 0 [] []) pol_std))) (Some Head) in
  length (qbuf r) <= qcap r /\
  map (fun g => (length (qbuf g), qcap g, p0 g)) (snd (fq_resume_g 100 50 Head true r)) =
  [(3, 3, 0); (6, 6, 0)].
Proof. cbv zeta. split; vm_compute; [lia | reflexivity]. Qed.
