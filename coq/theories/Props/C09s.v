(** C09 (continued) — (b') input whose records all fit never causes growth, END TO END
    for histories that contain PLAIN RECORD-SET READS.

    C09n.v says WHERE the readers consult the policy (only with a completely full buffer
    whose current record starts at offset 0); C18.v says, for runs of [next()] only, that
    records which fit the capacity are read without consulting it.  Here the same is proved
    for arbitrary histories of [next()], owned reads, plain record-set reads
    ([read_record_set], two set slots), re-iteration of a set and position queries — no
    exact-count reads (the property excludes them, C09n.v) and no seeks —, for both formats:

      if every record of the input fits the initial capacity, then after the whole history
      the log of the reader contains no [EvGrow] event (the policy was never asked) and the
      capacity is still the initial one — whatever the length of the input, the chunking
      of the (fault-free) source and the (never-refusing) policy.

    "Fits" is the notion of C18.v / DESIGN §7, now as a property of the INPUT alone:
    - FASTA, [FaAllRecordsFit inp c]: the needed window ([fa_needed], AllocFitP.v: the
      record's bytes plus one look-ahead position) of every record of the specification
      stream [FaStream] is at most [c];
    - FASTQ, [FqAllRecordsFit inp c]: [fq_fits inp a c] (AllocFqFitP.v: the four lines
      with their terminators; one position more when the fourth terminator is missing)
      for every offset [a] at which the reader starts to work on a group of four lines
      ([FqGroupAt]: 0, and the end of every VALID terminated group reached that way; this
      includes the position behind the last record, where the reader has to see the end of
      the input or trailing blank lines).  [fq_group_valid] is the verdict of the
      specification [fq_spec] on the group ([C09_fq_group_valid_meaning]).

    Proof idea (Proofs/FitSetsP.v): along the refinement invariants of the set loops
    (FastaSetP.v, FastqSetP.v) every state in which [resume_incomplete_search] is entered
    has been searched to the end of a full buffer; if the record started at offset 0 there,
    its needed window would exceed the capacity; so the loop makes room instead of growing,
    and the refill completes the record.  FASTA needs one fact more than the existing
    invariant [IncAt] records: a state left [Incomplete] by a set read has been searched up
    to the last byte of its buffer ([Tight]); it holds after every successful set read, in
    every state of the model.

    Deviations from the statement as first written down for this property: the seek script
    of the source plays no role for FASTA (no hypothesis on it); the theorems hold for every
    seek-target table [tgt] (no seek is performed); FASTQ keeps the configuration of the
    FASTQ history theorem C04q/C05q (capacity >= 1, [PolOk1], which is [PolOk], fuel
    [2 * length inp + 4], fault-free seek script, which the refinement invariant carries).
    Statements only. *)
From SeqIO Require Import Model.Base Model.Fasta Model.Fastq Model.Alloc
     Spec.FastaSpec Spec.FastqSpec Spec.CursorQ
     Proofs.Window Proofs.FastaInv Proofs.FastaStream Proofs.FastaNextP Proofs.FastaTopP
     Proofs.FastaSetP Proofs.FastaHistP
     Proofs.FqSpecP Proofs.FastqInv Proofs.FastqNextP Proofs.FastqSetP Proofs.FastqHistP
     Proofs.AllocFitP Proofs.AllocFqFitP Proofs.FitSetsP.

(* ================================================================== *)
(** * FASTA *)

Theorem C09_fa_fitting_input_never_grows_sets : forall inp cap0 rs sks pol fuel ffuel tgt ops,
  3 <= cap0 -> forallb item_ok rs = true -> PolOk pol ->
  length rs + 2 <= ffuel -> length inp + 2 <= fuel ->
  Forall (fun op => op = FastaHistP.HNext \/ op = FastaHistP.HOwned \/
                    (exists s, op = FastaHistP.HSet s) \/ (exists s, op = FastaHistP.HIter s) \/
                    op = FastaHistP.HPos) ops ->          (* no exact-count reads, no seeks *)
  FaAllRecordsFit inp cap0 ->
  let h' := snd (fa_hist fuel ffuel tgt ops (FastaHistP.h_init inp cap0 rs sks pol)) in
  filter ev_is_grow (log (h_r h')) = [] /\ cap (h_r h') = cap0.
Proof. exact fa_fitting_input_never_grows_sets. Qed.
Print Assumptions C09_fa_fitting_input_never_grows_sets.

(** the hypothesis, unfolded *)
Theorem C09_fa_all_records_fit_meaning : forall inp c,
  FaAllRecordsFit inp c <->
  (forall pos ln its, fa_ostart_of inp = OsRecs pos ln -> FaStream inp pos ln its ->
     Forall (fun nd => nd <= c) (fa_needed (length inp) its)).
Proof. exact FaAllRecordsFit_unfold. Qed.
Print Assumptions C09_fa_all_records_fit_meaning.

(** one call: a plain set read from a state at a call boundary of the refinement
    ([PosAt]: positioned at the start of the record at [s]; [IncAt]: in the middle of the
    search for its end, FastaSetP.v) only reads when the records from [s] on fit *)
Theorem C09_fa_read_set_fitting_call : forall inp ffuel fuel r rs1 off s line its,
  length inp + 2 <= fuel ->
  PosAt inp ffuel r off s line \/ (IncAt inp ffuel r off s line /\ Tight r) ->
  FaStream inp s line its ->
  Forall (fun nd => nd <= cap r) (fa_needed (length inp) its) ->
  only_reads (log r) (log (fst (fst (fa_set_finish (fa_set_loop fuel fuel ffuel None true r rs1))))).
Proof. exact set_go_fit. Qed.
Print Assumptions C09_fa_read_set_fitting_call.

(** [Tight]: an incomplete search has looked at the whole buffer (up to a final LF); every
    successful set read leaves such a state — in every state of the model, any source *)
Theorem C09_fa_tight_meaning : forall r,
  Tight r <-> (st r = FIncomplete -> length (buf r) <= spos r + 1).
Proof. exact Tight_unfold. Qed.
Print Assumptions C09_fa_tight_meaning.

Theorem C09_fa_read_set_leaves_tight : forall fuel ffuel n r rs r' rs',
  fa_read_set fuel ffuel n r rs = (r', rs', Fasta.OSetOk) -> Tight r'.
Proof. exact read_set_tight. Qed.
Print Assumptions C09_fa_read_set_leaves_tight.

(** non-vacuity: four records ">a\nC\n" of 5 bytes (needed window 6), capacity 8, three
    plain set reads: every hypothesis holds, each call delivers one record (the buffer
    holds one complete record and a part of the next: the loop makes room and refills),
    the policy is never asked *)
Example C09_fa_sets_nonvacuous :
  let ops := [FastaHistP.HSet 0; FastaHistP.HSet 0; FastaHistP.HSet 0] in
  let run := fa_hist 100 100 (fun _ => None) ops (FastaHistP.h_init c09s_inp 8 [] [] pol_std) in
  3 <= 8 /\ forallb item_ok [] = true /\ PolOk pol_std /\
  length (@nil ritem) + 2 <= 100 /\ length c09s_inp + 2 <= 100 /\
  FaAllRecordsFit c09s_inp 8 /\
  fa_ostart_of c09s_inp = OsRecs 0 1 /\ FaStream c09s_inp 0 1 c09s_items /\
  fa_needed (length c09s_inp) c09s_items = [6; 6; 6; 6] /\
  map (fun o => match fst o with FastaHistP.HoSet l => length l | _ => 0 end) (fst run) = [1; 1; 1] /\
  st (h_r (snd run)) = FIncomplete /\
  filter ev_is_grow (log (h_r (snd run))) = [] /\ cap (h_r (snd run)) = 8.
Proof.
  cbv zeta.
  split; [lia|]. split; [reflexivity|]. split; [exact PolOk_std|].
  split; [cbn; lia|]. split; [vm_compute; lia|].
  split; [apply c09s_fits; lia|].
  split; [vm_compute; reflexivity|]. split; [exact c09s_stream|]. split; [exact c09s_needed|].
  split; [vm_compute; reflexivity|]. split; [vm_compute; reflexivity|].
  split; vm_compute; reflexivity.
Qed.

(** the bound is sharp: capacity 6 = the needed window still never grows (by the theorem),
    capacity 5 does not fit, and the same history then does ask the policy *)
Example C09_fa_sets_threshold :
  let ops := [FastaHistP.HSet 0; FastaHistP.HSet 0; FastaHistP.HSet 0] in
  let run c := fa_hist 100 100 (fun _ => None) ops (FastaHistP.h_init c09s_inp c [] [] pol_std) in
  FaAllRecordsFit c09s_inp 6 /\
  filter ev_is_grow (log (h_r (snd (run 6)))) = [] /\ cap (h_r (snd (run 6))) = 6 /\
  ~ FaAllRecordsFit c09s_inp 5 /\
  filter ev_is_grow (log (h_r (snd (run 5)))) = [EvGrow 5 (Some 10)] /\ cap (h_r (snd (run 5))) = 10.
Proof.
  cbv zeta.
  split; [apply c09s_fits; lia|].
  split; [|split].
  - apply (C09_fa_fitting_input_never_grows_sets c09s_inp 6 [] [] pol_std 100 100 (fun _ => None));
      try exact PolOk_std; try (apply c09s_fits); try reflexivity; try (cbn; lia); try (vm_compute; lia).
    repeat (apply Forall_cons; [right; right; left; eexists; reflexivity|]); apply Forall_nil.
  - apply (C09_fa_fitting_input_never_grows_sets c09s_inp 6 [] [] pol_std 100 100 (fun _ => None));
      try exact PolOk_std; try (apply c09s_fits); try reflexivity; try (cbn; lia); try (vm_compute; lia).
    repeat (apply Forall_cons; [right; right; left; eexists; reflexivity|]); apply Forall_nil.
  - split; [apply c09s_not_fits; lia|]. split; vm_compute; reflexivity.
Qed.

(** a mixture of [next], owned reads, set reads into both slots, iteration and position
    queries over the same input: record, set of 1, position, owned record, set of 1,
    iteration (1 record), end of input; no growth *)
Example C09_fa_mixed_nonvacuous :
  let ops := [FastaHistP.HNext; FastaHistP.HSet 0; FastaHistP.HPos; FastaHistP.HOwned;
              FastaHistP.HSet 1; FastaHistP.HIter 0; FastaHistP.HNext] in
  let run := fa_hist 100 100 (fun _ => None) ops (FastaHistP.h_init c09s_inp 8 [] [] pol_std) in
  map (fun o => match fst o with
                | FastaHistP.HoSet l => length l | FastaHistP.HoRec _ => 10 | FastaHistP.HoOwned _ => 11
                | FastaHistP.HoPos => 12 | FastaHistP.HoEnd => 13 | _ => 99 end) (fst run)
    = [10; 1; 12; 11; 1; 1; 13] /\
  filter ev_is_grow (log (h_r (snd run))) = [] /\ cap (h_r (snd run)) = 8.
Proof. cbv zeta. split; [vm_compute; reflexivity|]. split; vm_compute; reflexivity. Qed.

(* ================================================================== *)
(** * FASTQ *)

Theorem C09_fq_fitting_input_never_grows_sets : forall inp cap0 rs ss pol fuel ffuel ops,
  1 <= cap0 -> forallb item_ok rs = true -> forallb sitem_ok ss = true -> PolOk1 pol ->
  length rs + 2 <= ffuel -> 2 * length inp + 4 <= fuel ->
  Forall (fun op => op = CursorQ.HNext \/ op = CursorQ.HOwned \/
                    (exists s, op = CursorQ.HSet s) \/ (exists s, op = CursorQ.HIter s) \/
                    op = CursorQ.HPos) ops ->             (* no exact-count reads, no seeks *)
  FqAllRecordsFit inp cap0 ->
  let c' := snd (fq_hrun inp fuel ffuel ops (fq_hconf0 cap0 inp rs ss pol)) in
  filter ev_is_grow (qlog (c_rd c')) = [] /\ qcap (c_rd c') = cap0.
Proof. exact fq_fitting_input_never_grows_sets. Qed.
Print Assumptions C09_fq_fitting_input_never_grows_sets.

(** the same for the configurations the library allows and [PolOk] policies *)
Theorem C09_fq_fitting_input_never_grows_sets_lib : forall inp cap0 rs ss pol fuel ffuel ops,
  3 <= cap0 -> forallb item_ok rs = true -> forallb sitem_ok ss = true -> PolOk pol ->
  length rs + 2 <= ffuel -> 2 * length inp + 4 <= fuel ->
  Forall (fun op => op = CursorQ.HNext \/ op = CursorQ.HOwned \/
                    (exists s, op = CursorQ.HSet s) \/ (exists s, op = CursorQ.HIter s) \/
                    op = CursorQ.HPos) ops ->
  FqAllRecordsFit inp cap0 ->
  let c' := snd (fq_hrun inp fuel ffuel ops (fq_hconf0 cap0 inp rs ss pol)) in
  filter ev_is_grow (qlog (c_rd c')) = [] /\ qcap (c_rd c') = cap0.
Proof. exact fq_fitting_input_never_grows_sets_lib. Qed.
Print Assumptions C09_fq_fitting_input_never_grows_sets_lib.

(** the hypothesis, unfolded: the offsets at which the reader starts to work on a group *)
Theorem C09_fq_all_records_fit_meaning : forall inp c,
  FqAllRecordsFit inp c <-> (forall a, FqGroupAt inp a -> fq_fits inp a c).
Proof. exact FqAllRecordsFit_unfold. Qed.
Print Assumptions C09_fq_all_records_fit_meaning.

Theorem C09_fq_group_starts_meaning : forall inp a,
  FqGroupAt inp a <->
  (a = 0 \/ exists a0, FqGroupAt inp a0 /\ fq_group_end inp a0 = Some a /\ fq_group_valid inp a0 = true).
Proof. exact FqGroupAt_unfold. Qed.
Print Assumptions C09_fq_group_starts_meaning.

(** [fq_group_valid] is the verdict of the specification on a terminated group: a record,
    after which the specification goes on behind the group — or the error, which ends it *)
Theorem C09_fq_group_valid_meaning : forall inp a e l, fq_group_end inp a = Some e ->
  (fq_group_valid inp a = true ->
     exists i, fq_parse (skipn a inp) l a = QRec i :: fq_parse (skipn e inp) (l + 4) e) /\
  (fq_group_valid inp a = false -> exists err, fq_parse (skipn a inp) l a = [QErr err l a]).
Proof. exact fq_group_valid_spec. Qed.
Print Assumptions C09_fq_group_valid_meaning.

(** non-vacuity: four records "@a\nC\n+\nI\n" of 9 bytes, capacity 12, three plain set
    reads of one record each; the groups start at 0, 9, 18, 27 and the end of the input
    (36) is looked at last *)
Example C09_fq_sets_nonvacuous :
  let ops := [CursorQ.HSet false; CursorQ.HSet false; CursorQ.HSet false] in
  let run := fq_hrun c09s_qinp 100 100 ops (fq_hconf0 12 c09s_qinp [] [] pol_std) in
  1 <= 12 /\ forallb item_ok [] = true /\ forallb sitem_ok [] = true /\ PolOk1 pol_std /\
  length (@nil ritem) + 2 <= 100 /\ 2 * length c09s_qinp + 4 <= 100 /\
  FqAllRecordsFit c09s_qinp 12 /\
  (forall a, FqGroupAt c09s_qinp a -> In a [0; 9; 18; 27; 36]) /\
  map (fq_group_end c09s_qinp) [0; 9; 18; 27; 36] = [Some 9; Some 18; Some 27; Some 36; None] /\
  map (fq_group_valid c09s_qinp) [0; 9; 18; 27] = [true; true; true; true] /\
  map (fun o => match o with OSetOk l => length l | _ => 0 end) (fst run) = [1; 1; 1] /\
  filter ev_is_grow (qlog (c_rd (snd run))) = [] /\ qcap (c_rd (snd run)) = 12.
Proof.
  cbv zeta.
  split; [lia|]. split; [reflexivity|]. split; [reflexivity|]. split; [exact PolOk1_std|].
  split; [cbn; lia|]. split; [vm_compute; lia|].
  split; [apply c09s_qfits; lia|]. split; [exact c09s_qstarts|].
  split; [vm_compute; reflexivity|]. split; [vm_compute; reflexivity|].
  split; [vm_compute; reflexivity|].
  split; vm_compute; reflexivity.
Qed.

(** sharp here too: capacity 9 = the length of a group never grows (by the theorem),
    capacity 8 does not fit and the same history asks the policy *)
Example C09_fq_sets_threshold :
  let ops := [CursorQ.HSet false; CursorQ.HSet false; CursorQ.HSet false] in
  let run c := fq_hrun c09s_qinp 100 100 ops (fq_hconf0 c c09s_qinp [] [] pol_std) in
  FqAllRecordsFit c09s_qinp 9 /\
  filter ev_is_grow (qlog (c_rd (snd (run 9)))) = [] /\ qcap (c_rd (snd (run 9))) = 9 /\
  ~ FqAllRecordsFit c09s_qinp 8 /\
  filter ev_is_grow (qlog (c_rd (snd (run 8)))) = [EvGrow 8 (Some 16)] /\ qcap (c_rd (snd (run 8))) = 16.
Proof.
  cbv zeta.
  split; [apply c09s_qfits; lia|].
  split; [|split].
  - apply (C09_fq_fitting_input_never_grows_sets c09s_qinp 9 [] [] pol_std 100 100);
      try exact PolOk1_std; try (apply c09s_qfits); try reflexivity; try (cbn; lia); try (vm_compute; lia).
    repeat (apply Forall_cons; [right; right; left; eexists; reflexivity|]); apply Forall_nil.
  - apply (C09_fq_fitting_input_never_grows_sets c09s_qinp 9 [] [] pol_std 100 100);
      try exact PolOk1_std; try (apply c09s_qfits); try reflexivity; try (cbn; lia); try (vm_compute; lia).
    repeat (apply Forall_cons; [right; right; left; eexists; reflexivity|]); apply Forall_nil.
  - split; [apply c09s_qnot_fits; lia|]. split; vm_compute; reflexivity.
Qed.

Example C09_fq_mixed_nonvacuous :
  let ops := [CursorQ.HNext; CursorQ.HSet false; CursorQ.HPos; CursorQ.HOwned;
              CursorQ.HSet true; CursorQ.HIter false; CursorQ.HNext] in
  let run := fq_hrun c09s_qinp 100 100 ops (fq_hconf0 12 c09s_qinp [] [] pol_std) in
  map (fun o => match o with
                | OSetOk l => length l | ORec _ => 10 | OOwned _ => 11 | OPos _ => 12 | OEnd => 13
                | OIter l => 20 + length l | _ => 99 end) (fst run)
    = [10; 1; 12; 11; 1; 21; 13] /\
  filter ev_is_grow (qlog (c_rd (snd run))) = [] /\ qcap (c_rd (snd run)) = 12.
Proof. cbv zeta. split; [vm_compute; reflexivity|]. split; vm_compute; reflexivity. Qed.
