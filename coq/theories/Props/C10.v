(** C10 — FASTA writing round-trips and wraps at the requested width.
    Statements only; proofs are in Proofs/WritersP.v and Proofs/LinesP.v.

    Vocabulary (Proofs/LinesP.v, Proofs/WritersP.v):
      [no_lf l], [no_cr l], [no_gt l]   boolean checks "l contains no LF / CR / '>'"
                                        ([forallb (fun c => negb (c =? b)) l = true])
      [no_trailing_cr l]                [(last l 0 =? CR) = false]
      [head_of id desc]                 [id ++ SP :: d] for [Some d], [id] for [None]
      [wrap_iter_lines chunks w]        [[[]]] if [concat chunks = []], else
                                        [chunks (length s) w s] with [s = concat chunks]
      [wcall]                           one call of any writer entry point, with
                                        [wcall_out] (bytes written), [wcall_head],
                                        [wcall_seq], [wcall_lines] (sequence lines in the
                                        output), [wcall_ok] (the hypotheses of C10)
      [parses_to out head seq]          [fa_spec out] is exactly one record [i] with
                                        [fi_head i = head], [concat (fi_lines i) = seq],
                                        [fi_line i = 1], [fi_byte i = 0]
    In every round-trip theorem the parsed item is given explicitly:
    [mkFaItem head lines 1 0] = header [head], sequence lines [lines], line 1, byte 0. *)
From SeqIO Require Import Model.Base Model.Fasta Model.WrapLoops Gen.WriteGen Model.Views
  Spec.FastaSpec Proofs.LinesP Proofs.WritersP.

(* ------------------------------------------------------------------ *)
(** * Round trip, entry point by entry point *)

(** write_to (= the [write] method of the Record trait) *)
Theorem C10_roundtrip_write_to : forall head seq,
  no_lf head -> no_trailing_cr head -> no_lf seq -> no_cr seq -> no_gt seq ->
  fa_spec (w_to head seq) = [SRec (mkFaItem head [seq] 1 0)].
Proof. exact rt_to. Qed.
Print Assumptions C10_roundtrip_write_to.

(** write_head followed by write_seq *)
Theorem C10_roundtrip_head_seq : forall head seq,
  no_lf head -> no_trailing_cr head -> no_lf seq -> no_cr seq -> no_gt seq ->
  fa_spec (w_head head ++ w_seq seq) = [SRec (mkFaItem head [seq] 1 0)].
Proof. exact rt_head_seq. Qed.
Print Assumptions C10_roundtrip_head_seq.

(** write_parts: id and description joined by one space *)
Theorem C10_roundtrip_parts : forall id desc seq,
  no_lf (head_of id desc) -> no_trailing_cr (head_of id desc) ->
  no_lf seq -> no_cr seq -> no_gt seq ->
  fa_spec (w_parts id desc seq) = [SRec (mkFaItem (head_of id desc) [seq] 1 0)].
Proof. exact rt_parts. Qed.
Print Assumptions C10_roundtrip_parts.

(** write_head followed by write_seq_iter: the chunks are joined on one line *)
Theorem C10_roundtrip_seq_iter : forall head chunks_,
  no_lf head -> no_trailing_cr head ->
  no_lf (concat chunks_) -> no_cr (concat chunks_) -> no_gt (concat chunks_) ->
  fa_spec (w_head head ++ w_seq_iter chunks_) = [SRec (mkFaItem head [concat chunks_] 1 0)].
Proof. exact rt_seq_iter. Qed.
Print Assumptions C10_roundtrip_seq_iter.

(** OwnedRecord::write *)
Theorem C10_roundtrip_owned : forall head seq,
  no_lf head -> no_trailing_cr head -> no_lf seq -> no_cr seq -> no_gt seq ->
  fa_spec (fa_owned_write head seq) = [SRec (mkFaItem head [seq] 1 0)].
Proof. exact rt_owned. Qed.
Print Assumptions C10_roundtrip_owned.

(** write_wrap: the sequence lines are [seq.chunks(w)]; for the empty sequence
    there is no sequence line at all.  Their concatenation is [seq] by
    C10_wrap_widths. *)
Theorem C10_roundtrip_wrap : forall id desc seq,
  no_lf (head_of id desc) -> no_trailing_cr (head_of id desc) ->
  no_lf seq -> no_cr seq -> no_gt seq -> forall w, 1 <= w ->
  fa_spec (w_wrap id desc seq w) =
  [SRec (mkFaItem (head_of id desc) (chunks (length seq) w seq) 1 0)].
Proof. exact rt_wrap. Qed.
Print Assumptions C10_roundtrip_wrap.

(** write_head followed by write_wrap_seq *)
Theorem C10_roundtrip_wrap_seq : forall head seq,
  no_lf head -> no_trailing_cr head -> no_lf seq -> no_cr seq -> no_gt seq ->
  forall w, 1 <= w ->
  fa_spec (w_head head ++ w_wrap_seq seq w) =
  [SRec (mkFaItem head (chunks (length seq) w seq) 1 0)].
Proof. exact rt_wrap_seq. Qed.
Print Assumptions C10_roundtrip_wrap_seq.

(** write_head followed by write_wrap_seq_iter.  For an empty sequence (no
    chunks, or only empty chunks) the output has ONE EMPTY sequence line (the
    loop always ends with LF) where write_wrap_seq writes none: see
    [wrap_iter_lines] and C10_wrap_iter_lines; the parsed sequence is [seq]
    either way. *)
Theorem C10_roundtrip_wrap_seq_iter : forall head chunks_,
  no_lf head -> no_trailing_cr head ->
  no_lf (concat chunks_) -> no_cr (concat chunks_) -> no_gt (concat chunks_) ->
  forall w, 1 <= w ->
  fa_spec (w_head head ++ w_wrap_seq_iter chunks_ w) =
    [SRec (mkFaItem head (wrap_iter_lines chunks_ w) 1 0)] /\
  concat (wrap_iter_lines chunks_ w) = concat chunks_.
Proof. exact rt_wrap_seq_iter. Qed.
Print Assumptions C10_roundtrip_wrap_seq_iter.

Theorem C10_wrap_iter_lines : forall chunks_ w,
  (concat chunks_ = [] /\ wrap_iter_lines chunks_ w = [[]]) \/
  (concat chunks_ <> [] /\
   wrap_iter_lines chunks_ w = chunks (length (concat chunks_)) w (concat chunks_)).
Proof. exact wrap_iter_lines_cases. Qed.
Print Assumptions C10_wrap_iter_lines.

(** OwnedRecord::write_wrap *)
Theorem C10_roundtrip_owned_wrap : forall head seq,
  no_lf head -> no_trailing_cr head -> no_lf seq -> no_cr seq -> no_gt seq ->
  forall w, 1 <= w ->
  fa_spec (fa_owned_write_wrap head seq w) =
  [SRec (mkFaItem head (chunks (length seq) w seq) 1 0)].
Proof. exact rt_owned_wrap. Qed.
Print Assumptions C10_roundtrip_owned_wrap.

(** RefRecord::write and RefRecord::write_wrap of a record view [r] whose
    accessors give [head] and the sequence lines [lines] *)
Theorem C10_roundtrip_refrecord_write : forall head lines,
  no_lf head -> no_trailing_cr head ->
  no_lf (concat lines) -> no_cr (concat lines) -> no_gt (concat lines) ->
  forall r, fa_head r = Some head -> fa_lines r = Some lines ->
  exists out, fa_write r = Some out /\ parses_to out head (concat lines).
Proof. exact rt_ref_write. Qed.
Print Assumptions C10_roundtrip_refrecord_write.

Theorem C10_roundtrip_refrecord_write_wrap : forall head lines,
  no_lf head -> no_trailing_cr head ->
  no_lf (concat lines) -> no_cr (concat lines) -> no_gt (concat lines) ->
  forall r w, 1 <= w -> fa_head r = Some head -> fa_lines r = Some lines ->
  exists out, fa_write_wrap r w = Some out /\ parses_to out head (concat lines).
Proof. exact rt_ref_write_wrap. Qed.
Print Assumptions C10_roundtrip_refrecord_write_wrap.

(** uniformly, for every entry point [c : wcall] *)
Theorem C10_roundtrip_any : forall c, wcall_ok c ->
  parses_to (wcall_out c) (wcall_head c) (wcall_seq c).
Proof. exact roundtrip_any. Qed.
Print Assumptions C10_roundtrip_any.

(* ------------------------------------------------------------------ *)
(** * Many records written back to back (any mixture of entry points) *)

(** [expected cs 1 0]: one item per call, in order: header, the lines written,
    line number = 1 + number of lines written before, byte = number of bytes
    written before *)
Theorem C10_many : forall cs, Forall wcall_ok cs ->
  fa_spec (concat (map wcall_out cs)) = map SRec (expected cs 1 0).
Proof. exact wcall_many. Qed.
Print Assumptions C10_many.

(** ... hence one record per call, in order, with the headers and sequences written *)
Theorem C10_many_heads_seqs : forall cs, Forall wcall_ok cs ->
  length (fa_spec (concat (map wcall_out cs))) = length cs /\
  map (fun i => (fi_head i, concat (fi_lines i))) (fa_records (concat (map wcall_out cs))) =
  map (fun c => (wcall_head c, wcall_seq c)) cs.
Proof. exact wcall_many_heads_seqs. Qed.
Print Assumptions C10_many_heads_seqs.

(* ------------------------------------------------------------------ *)
(** * Wrapping *)

(** the lines [seq.chunks(w)] written by the wrapping writers: they concatenate
    to [seq], none is empty, none is longer than [w], all but the last have
    exactly [w] bytes (no hypothesis on the bytes of [seq]) *)
Theorem C10_wrap_widths : forall seq w, 1 <= w ->
  let ls := chunks (length seq) w seq in
  concat ls = seq /\
  Forall (fun l => l <> [] /\ length l <= w) ls /\
  Forall (fun l => length l = w) (removelast ls).
Proof. exact wrap_widths. Qed.
Print Assumptions C10_wrap_widths.

(** the same about the sequence lines found by parsing wrapped output, for
    every wrapping entry point; [write_wrap_seq_iter] with an empty sequence
    is excluded: it writes one empty line (C10_roundtrip_wrap_seq_iter) *)
Theorem C10_wrap_widths_parsed : forall c w, wcall_ok c -> wcall_width c = Some w ->
  wcall_seq c <> [] \/ (forall h cs w', c <> WHeadWrapSeqIter h cs w') ->
  exists i, fa_spec (wcall_out c) = [SRec i] /\
    (Forall (fun l => l <> [] /\ length l <= w) (fi_lines i) /\
     Forall (fun l => length l = w) (removelast (fi_lines i))) /\
    concat (fi_lines i) = wcall_seq c.
Proof. exact wcall_wrap_parsed. Qed.
Print Assumptions C10_wrap_widths_parsed.

(** for a non-empty sequence the chunking is irrelevant (empty chunks allowed;
    no hypothesis on the bytes) *)
Theorem C10_chunking_irrelevant : forall chunks_ w, 1 <= w -> concat chunks_ <> [] ->
  w_wrap_seq_iter chunks_ w = w_wrap_seq (concat chunks_) w.
Proof. exact wrap_iter_chunking_irrelevant. Qed.
Print Assumptions C10_chunking_irrelevant.

(** the empty-sequence difference: "" vs "\n" (for every width, even 0) *)
Theorem C10_empty_seq_difference : forall chunks_ w, concat chunks_ = [] ->
  w_wrap_seq (concat chunks_) w = [] /\ w_wrap_seq_iter chunks_ w = [LF].
Proof. exact wrap_empty_difference. Qed.
Print Assumptions C10_empty_seq_difference.

(* ------------------------------------------------------------------ *)
(** * Non-vacuity: concrete instances satisfying the hypotheses *)

(** ">id desc" / "ACGTA" *)
Example C10_ex_write_to :
  let head := [105;100;32;100;101;115;99] in let seq := [65;67;71;84;65] in
  (no_lf head /\ no_trailing_cr head /\ no_lf seq /\ no_cr seq /\ no_gt seq) /\
  w_to head seq = [62;105;100;32;100;101;115;99;10;65;67;71;84;65;10] /\
  fa_spec (w_to head seq) = [SRec (mkFaItem head [seq] 1 0)].
Proof. vm_compute. repeat split. Qed.

Example C10_ex_head_seq :
  let head := [105;100] in let seq := [65;67;71;84;65] in
  (no_lf head /\ no_trailing_cr head /\ no_lf seq /\ no_cr seq /\ no_gt seq) /\
  fa_spec (w_head head ++ w_seq seq) = [SRec (mkFaItem head [seq] 1 0)].
Proof. vm_compute. repeat split. Qed.

(** a header with an interior CR is allowed (only a trailing CR is not) *)
Example C10_ex_parts :
  let id := [105;13;100] in let desc := Some [100;32;101] in let seq := [65;67] in
  (no_lf (head_of id desc) /\ no_trailing_cr (head_of id desc) /\
   no_lf seq /\ no_cr seq /\ no_gt seq) /\
  head_of id desc = [105;13;100;32;100;32;101] /\
  fa_spec (w_parts id desc seq) = [SRec (mkFaItem (head_of id desc) [seq] 1 0)].
Proof. vm_compute. repeat split. Qed.

Example C10_ex_seq_iter :
  let head := [105;100] in let chunks_ := [[65;67]; []; [71]; [84;65]] in
  (no_lf head /\ no_trailing_cr head /\
   no_lf (concat chunks_) /\ no_cr (concat chunks_) /\ no_gt (concat chunks_)) /\
  fa_spec (w_head head ++ w_seq_iter chunks_) = [SRec (mkFaItem head [[65;67;71;84;65]] 1 0)].
Proof. vm_compute. repeat split. Qed.

Example C10_ex_owned :
  let head := [] in let seq := [] in
  (no_lf head /\ no_trailing_cr head /\ no_lf seq /\ no_cr seq /\ no_gt seq) /\
  fa_owned_write head seq = [62;10;10] /\
  fa_spec (fa_owned_write head seq) = [SRec (mkFaItem [] [[]] 1 0)].
Proof. vm_compute. repeat split. Qed.

(** width 2, five bytes: lines AC, GT, A *)
Example C10_ex_wrap :
  let id := [105;100] in let desc := @None (list byte) in let seq := [65;67;71;84;65] in
  (no_lf (head_of id desc) /\ no_trailing_cr (head_of id desc) /\
   no_lf seq /\ no_cr seq /\ no_gt seq /\ 1 <= 2) /\
  w_wrap id desc seq 2 = [62;105;100;10;65;67;10;71;84;10;65;10] /\
  fa_spec (w_wrap id desc seq 2) = [SRec (mkFaItem id [[65;67];[71;84];[65]] 1 0)].
Proof. vm_compute. repeat split; repeat constructor. Qed.

(** length a multiple of the width; and the empty sequence: no sequence line *)
Example C10_ex_wrap_seq :
  let head := [105;100] in let seq := [65;67;71;84] in
  (no_lf head /\ no_trailing_cr head /\ no_lf seq /\ no_cr seq /\ no_gt seq /\ 1 <= 2) /\
  fa_spec (w_head head ++ w_wrap_seq seq 2) = [SRec (mkFaItem head [[65;67];[71;84]] 1 0)] /\
  fa_spec (w_head head ++ w_wrap_seq [] 2) = [SRec (mkFaItem head [] 1 0)].
Proof. vm_compute. repeat split; repeat constructor. Qed.

(** chunks ending exactly at a line end, empty chunks; and the empty sequence:
    one empty sequence line *)
Example C10_ex_wrap_seq_iter :
  let head := [105;100] in let chunks_ := [[65;67]; []; [71]; [84;65;65]; []] in
  (no_lf head /\ no_trailing_cr head /\
   no_lf (concat chunks_) /\ no_cr (concat chunks_) /\ no_gt (concat chunks_) /\ 1 <= 2) /\
  w_head head ++ w_wrap_seq_iter chunks_ 2 = [62;105;100;10;65;67;10;71;84;10;65;65;10] /\
  fa_spec (w_head head ++ w_wrap_seq_iter chunks_ 2) =
    [SRec (mkFaItem head [[65;67];[71;84];[65;65]] 1 0)] /\
  fa_spec (w_head head ++ w_wrap_seq_iter [[];[]] 2) = [SRec (mkFaItem head [[]] 1 0)].
Proof. vm_compute. repeat split; repeat constructor. Qed.

Example C10_ex_owned_wrap :
  let head := [105;100] in let seq := [65;67;71] in
  (no_lf head /\ no_trailing_cr head /\ no_lf seq /\ no_cr seq /\ no_gt seq /\ 1 <= 1) /\
  fa_spec (fa_owned_write_wrap head seq 1) = [SRec (mkFaItem head [[65];[67];[71]] 1 0)].
Proof. vm_compute. repeat split; repeat constructor. Qed.

(** a record view over ">id\nAC\nG\n" *)
Example C10_ex_refrecord :
  let r := mkFaRec [62;105;100;10;65;67;10;71;10] 0 [3;6;8] in
  let head := [105;100] in let lines := [[65;67];[71]] in
  (no_lf head /\ no_trailing_cr head /\
   no_lf (concat lines) /\ no_cr (concat lines) /\ no_gt (concat lines) /\ 1 <= 2) /\
  fa_head r = Some head /\ fa_lines r = Some lines /\
  fa_write r = Some [62;105;100;10;65;67;71;10] /\
  fa_write_wrap r 2 = Some [62;105;100;10;65;67;10;71;10].
Proof. vm_compute. repeat split; repeat constructor. Qed.

(** three records through three different entry points, with coordinates *)
Example C10_ex_many :
  let cs := [WTo [97] [65;67]; WWrap [98] (Some [120]) [65;67;71] 2;
             WHeadWrapSeqIter [99] [[]] 3; WOwned [100] [71]] in
  Forall wcall_ok cs /\
  fa_spec (concat (map wcall_out cs)) =
    [SRec (mkFaItem [97] [[65;67]] 1 0); SRec (mkFaItem [98;32;120] [[65;67];[71]] 3 6);
     SRec (mkFaItem [99] [[]] 6 16); SRec (mkFaItem [100] [[71]] 8 20)] /\
  map wcall_seq cs = [[65;67]; [65;67;71]; []; [71]].
Proof. vm_compute. repeat split; repeat constructor. Qed.

Example C10_ex_any_and_widths :
  let c := WOwnedWrap [105] [65;67;71;84;65;67;71] 3 in
  wcall_ok c /\ wcall_width c = Some 3 /\
  (forall h cs w', c <> WHeadWrapSeqIter h cs w') /\
  wcall_lines c = [[65;67;71];[84;65;67];[71]].
Proof. vm_compute. repeat split; try discriminate; repeat constructor. Qed.

Example C10_ex_chunking :
  let chunks_ := [[]; [65;67;71]; []; [84]; [65;67;71;84;65]] in
  1 <= 4 /\ concat chunks_ <> [] /\
  w_wrap_seq_iter chunks_ 4 = [65;67;71;84;10;65;67;71;84;10;65;10].
Proof. vm_compute. repeat split; try discriminate; repeat constructor. Qed.

Example C10_ex_empty :
  concat [[]; []] = @nil byte /\ w_wrap_seq [] 5 = [] /\ w_wrap_seq_iter [[]; []] 5 = [10].
Proof. vm_compute. repeat split. Qed.
