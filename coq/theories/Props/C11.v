(** C11 — FASTQ writing round-trips (writer part, Spec level).
    The text produced by the FASTQ writers [fqw_to] / [fqw_parts]
    (= generated [gen_fq_write_to] / [gen_fq_write_parts]) is read back by the
    whole-input specification [fq_spec_all] as exactly the written fields, for one
    record and for any number of records written consecutively.
    Statements only; proofs are in Proofs/FqSpecP.v.
    Quantifier of the property: headers without LF not ending in CR; equally long
    sequence / quality strings without LF or CR. *)
From SeqIO Require Import Model.Base Gen.WriteGen Model.Views Spec.FastaSpec Spec.FastqSpec
  Proofs.FqSpecP.

(** one record written with write_to: one item, the three fields, line 1, offset 0, no error *)
Theorem C11_fq_roundtrip : forall head seq qual,
  ~ In LF head -> (forall h', head <> h' ++ [CR]) ->
  ~ In LF seq -> ~ In CR seq -> ~ In LF qual -> ~ In CR qual ->
  length seq = length qual ->
  fq_spec_all (fqw_to head seq qual) = [QRec (mkFqItem head seq qual 1 0)].
Proof. exact fq_roundtrip. Qed.
Print Assumptions C11_fq_roundtrip.

(** one record written with write_parts (id, optional description): the header read
    back is id, or id SP desc *)
Theorem C11_fq_roundtrip_parts : forall id desc seq qual,
  let head := match desc with Some d => id ++ SP :: d | None => id end in
  ~ In LF head -> (forall h', head <> h' ++ [CR]) ->
  ~ In LF seq -> ~ In CR seq -> ~ In LF qual -> ~ In CR qual ->
  length seq = length qual ->
  fq_spec_all (fqw_parts id desc seq qual) = [QRec (mkFqItem head seq qual 1 0)].
Proof. exact fq_roundtrip_parts. Qed.
Print Assumptions C11_fq_roundtrip_parts.

(** write_parts writes the same bytes as write_to with the assembled header *)
Theorem C11_fq_parts_is_to : forall id desc seq qual,
  fqw_parts id desc seq qual =
  fqw_to (match desc with Some d => id ++ SP :: d | None => id end) seq qual.
Proof. exact fqw_parts_to. Qed.
Print Assumptions C11_fq_parts_is_to.

(** many records written consecutively: as many items as records, all of them
    records; the k-th (from 0) has the k-th triple's fields, header line 1 + 4k and
    byte offset = number of bytes written for the records before it *)
Theorem C11_fq_many : forall rs : list (list byte * list byte * list byte),
  Forall (fun r => let '(h, s, q) := r in
            ~ In LF h /\ (forall h', h <> h' ++ [CR]) /\
            ~ In LF s /\ ~ In CR s /\ ~ In LF q /\ ~ In CR q /\ length s = length q) rs ->
  let W := fun r : list byte * list byte * list byte => let '(h, s, q) := r in fqw_to h s q in
  length (fq_spec_all (concat (map W rs))) = length rs /\
  forall k h s q, nth_error rs k = Some (h, s, q) ->
    nth_error (fq_spec_all (concat (map W rs))) k =
    Some (QRec (mkFqItem h s q (1 + 4 * k) (length (concat (map W (firstn k rs)))))).
Proof. exact fq_many_nth. Qed.
Print Assumptions C11_fq_many.

(** the same as one equation: [fq_items w rs line byte] (Proofs/FqSpecP.v) lists
    QRec items for the triples [rs], lines line, line+4, ..., offsets advancing by [w r] *)
Theorem C11_fq_many_items : forall rs : list (list byte * list byte * list byte),
  Forall (fun r => let '(h, s, q) := r in
            ~ In LF h /\ (forall h', h <> h' ++ [CR]) /\
            ~ In LF s /\ ~ In CR s /\ ~ In LF q /\ ~ In CR q /\ length s = length q) rs ->
  let W := fun r : list byte * list byte * list byte => let '(h, s, q) := r in fqw_to h s q in
  fq_spec_all (concat (map W rs)) = fq_items (fun r => length (W r)) rs 1 0.
Proof. exact fq_many. Qed.
Print Assumptions C11_fq_many_items.

(** non-vacuity: header "id d\re" (interior CR allowed), seq "AC", qual "IJ" *)
Example C11_fq_roundtrip_example :
  let head := [105; 100; 32; 100; 13; 101] in
  let seq := [65; 67] in let qual := [73; 74] in
  (~ In LF head /\ (forall h', head <> h' ++ [CR]) /\
   ~ In LF seq /\ ~ In CR seq /\ ~ In LF qual /\ ~ In CR qual /\ length seq = length qual) /\
  fqw_to head seq qual = [64; 105; 100; 32; 100; 13; 101; 10; 65; 67; 10; 43; 10; 73; 74; 10] /\
  fq_spec_all (fqw_to head seq qual) = [QRec (mkFqItem head seq qual 1 0)].
Proof.
  repeat split; try nomem; try (vm_compute; reflexivity).
  apply last_neq_not_ends. vm_compute. discriminate.
Qed.

Example C11_fq_roundtrip_parts_example :
  let id := [105; 100] in let desc := Some [100; 101] in
  let seq := [65; 67] in let qual := [73; 74] in
  let head := [105; 100; 32; 100; 101] in
  (~ In LF head /\ (forall h', head <> h' ++ [CR]) /\
   ~ In LF seq /\ ~ In CR seq /\ ~ In LF qual /\ ~ In CR qual /\ length seq = length qual) /\
  fq_spec_all (fqw_parts id desc seq qual) = [QRec (mkFqItem head seq qual 1 0)].
Proof.
  repeat split; try nomem; try (vm_compute; reflexivity).
  apply last_neq_not_ends. vm_compute. discriminate.
Qed.

(** two records, the second with empty sequence and quality *)
Example C11_fq_many_example :
  let rs := [([114; 49], [65; 67], [73; 73]); ([114; 50; 32; 100], [], [])] in
  let W := fun r : list byte * list byte * list byte => let '(h, s, q) := r in fqw_to h s q in
  Forall (fun r => let '(h, s, q) := r in
            ~ In LF h /\ (forall h', h <> h' ++ [CR]) /\
            ~ In LF s /\ ~ In CR s /\ ~ In LF q /\ ~ In CR q /\ length s = length q) rs /\
  fq_spec_all (concat (map W rs)) =
  [QRec (mkFqItem [114; 49] [65; 67] [73; 73] 1 0);
   QRec (mkFqItem [114; 50; 32; 100] [] [] 5 12)].
Proof.
  split; [|vm_compute; reflexivity].
  repeat constructor; try nomem; apply last_neq_not_ends; vm_compute; discriminate.
Qed.
