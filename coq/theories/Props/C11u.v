(** C11, second half — writing each parsed record unchanged ([write_unchanged]).
    Statements only; proofs are in Proofs/UnchangedP.v (which re-runs the FASTQ
    refinement proof of Proofs/FastqNextP.v with a stronger post-condition and builds
    on FastaNextP / FastaPosP / ViewShiftP for FASTA).

    Vocabulary.
    FASTQ
      [line_end inp x]        offset of the first LF at or after [x]; [length inp] if none
      [fq_rec_end inp a]      [line_end] applied four times from [a] (stepping over each
                              LF): the end of the fourth line of the group starting at
                              [a] -- the offset of the LF ending it, or [length inp]
                              when the fourth line is ended by the end of the input
      [window inp a e]        the bytes [a, e) of [inp]
      [fq_run], [fq_matches]  as in C02
      [fq_wu_out o]           what a caller writes for the outcome [o] of one [next]
                              call: [fq_write_unchanged] of a returned record, nothing
                              at the end of input, [None] for an error / panic
      [opt_concat]            concatenation of such outputs; [None] if one is [None]
      [FqSpecP.render crlf final rs]  the records [rs] (header, sequence, quality), all
                              lines ended by LF or all by CRLF, the last terminator
                              present iff [final]; [FqSpecP.rec_ok]: fields without LF,
                              not ending in CR, |seq| = |qual|
      [fq_unchanged_text crlf final rs]  [render crlf final rs], plus one LF when
                              [final = false] (nothing for [rs = []])
    FASTA
      [fa_data inp s ends]    [window inp s (last ends 0)]: the record from its '>' at [s]
                              to its last line end (the LF there excluded)
      [fa_norm_out d]         [d] if [d] ends in LF, else [d ++ [LF]]
      [FaOSpec inp items]     the offset-based item stream of [inp] (C01: [OiRec s line
                              ends] per record); [fa_omatches]: the returned record is
                              a window of the input placed at [s] with line ends [ends]
      [fa_norm_lines ls]      the lines [ls] without every EMPTY line (zero bytes, not
                              a lone CR) that directly precedes a header line or is
                              the last line
      [FastaSpec.lines_of]    the lines of a text (pieces between LFs, no final empty piece)
      [unlines ls]            every line followed by LF *)
From SeqIO Require Import Model.Base Model.Fasta Model.Fastq Model.Views Spec.FastaSpec Spec.FastqSpec
  Proofs.Window Proofs.FastaInv Proofs.FqSpecP Proofs.FastqInv Proofs.FastqNextP
  Proofs.FastaStream Proofs.LinesP Proofs.FastaNextP Proofs.FastaTopP Proofs.UnchangedP.

(* ================================================================== *)
(** * FASTQ, one record *)

(** For EVERY input, capacity >= 3, fault-free read script, growing policy: each call
    matches the expected item of [fq_spec_all] (as in C02) and, for a record item at
    byte [a], [write_unchanged] of the returned record writes exactly the input bytes
    [a, fq_rec_end inp a) followed by one LF. *)
Theorem C11_unchanged_fq_bytes : forall inp cap0 rs ss pol fuel ffuel n,
  3 <= cap0 -> forallb item_ok rs = true -> PolOk pol ->
  length rs + 2 <= ffuel -> length inp + 2 <= fuel ->
  Forall2 (fun o it =>
             fq_matches inp o it /\
             match it with
             | Some (QRec i) =>
                 exists rc, fst o = QORec rc /\
                   fq_write_unchanged rc =
                   Some (window inp (qi_byte i) (fq_rec_end inp (qi_byte i)) ++ [LF])
             | _ => True
             end)
          (fq_run fuel ffuel n (fq_new cap0 (mkSource inp 0 rs ss) pol))
          (firstn n (map Some (fq_spec_all inp) ++ repeat None n)).
Proof. exact fq_unchanged_bytes. Qed.
Print Assumptions C11_unchanged_fq_bytes.

(** the same for every capacity >= 1 and every policy growing at capacities >= 1 *)
Theorem C11_unchanged_fq_bytes_gen : forall inp cap0 rs ss pol fuel ffuel n,
  1 <= cap0 -> forallb item_ok rs = true -> PolOk1 pol ->
  length rs + 2 <= ffuel -> length inp + 2 <= fuel ->
  Forall2 (fun o it =>
             fq_matches inp o it /\
             match it with
             | Some (QRec i) =>
                 exists rc, fst o = QORec rc /\
                   fq_write_unchanged rc =
                   Some (window inp (qi_byte i) (fq_rec_end inp (qi_byte i)) ++ [LF])
             | _ => True
             end)
          (fq_run fuel ffuel n (fq_new cap0 (mkSource inp 0 rs ss) pol))
          (firstn n (map Some (fq_spec_all inp) ++ repeat None n)).
Proof. exact fq_unchanged_bytes_gen. Qed.
Print Assumptions C11_unchanged_fq_bytes_gen.

(** non-vacuity: CRLF input "@a\r\nAC\r\n+\r\nII\r\n@b\r\nG\r\n+\r\nI" without final
    terminator; capacity 3, awkward chunking.  Record 1 is written with all its CRLFs;
    record 2 ends "I\n": the added terminator is a bare LF. *)
Example C11_unchanged_fq_bytes_nonvacuous :
  let inp := [64;97;13;10;65;67;13;10;43;13;10;73;73;13;10;64;98;13;10;71;13;10;43;13;10;73] in
  let rs := [RDeliver 0; RInterrupt; RDeliver 1] in
  let pol : policy := fun _ c => Some (S c) in
  3 <= 3 /\ forallb item_ok rs = true /\ PolOk pol /\ length rs + 2 <= 50 /\ length inp + 2 <= 100 /\
  fq_spec_all inp = [QRec (mkFqItem [97] [65;67] [73;73] 1 0); QRec (mkFqItem [98] [71] [73] 5 15)] /\
  (fq_rec_end inp 0, fq_rec_end inp 15) = (14, 26) /\
  map fq_wu_out (fq_run 100 50 3 (fq_new 3 (mkSource inp 0 rs []) pol)) =
  [Some [64;97;13;10;65;67;13;10;43;13;10;73;73;13;10];
   Some [64;98;13;10;71;13;10;43;13;10;73;10];
   Some []].
Proof.
  cbv zeta. split; [lia|]. split; [reflexivity|].
  split; [intros h c; exists (S c); split; [reflexivity | lia]|].
  split; [cbn [length]; lia|]. split; [cbn [length]; lia|].
  repeat split; vm_compute; reflexivity.
Qed.

(** "line endings included": when the fourth line is terminated in the input, the bytes
    written are exactly the record's input bytes up to and including that LF (so a CRLF
    record is reproduced with every CRLF); otherwise (last record, no final
    terminator) they are the rest of the input followed by LF. *)
Theorem C11_unchanged_fq_line_endings : forall inp i,
  (fq_rec_end inp (qi_byte i) < length inp ->
   window inp (qi_byte i) (fq_rec_end inp (qi_byte i)) ++ [LF] =
   window inp (qi_byte i) (S (fq_rec_end inp (qi_byte i)))) /\
  (~ fq_rec_end inp (qi_byte i) < length inp ->
   window inp (qi_byte i) (fq_rec_end inp (qi_byte i)) ++ [LF] = skipn (qi_byte i) inp ++ [LF]).
Proof. exact fq_raw_terminated. Qed.
Print Assumptions C11_unchanged_fq_line_endings.

Example C11_unchanged_fq_line_endings_nonvacuous :
  let inp := [64;97;13;10;65;13;10;43;13;10;73;13;10;64;98;10;71;10;43;10;73] in
  fq_rec_end inp 0 = 12 /\ 12 < length inp /\ fq_rec_end inp 13 = 21 /\ ~ 21 < length inp.
Proof. cbv zeta. repeat split; try (vm_compute; reflexivity); cbn [length]; lia. Qed.

(** [fq_rec_end] is the end of the fourth line as the specification cuts lines: if the
    text at [a] is four LF-free lines [h], [s], [p], [q] separated by LFs, the fourth
    followed by LF or by the end of the input, the bytes [a, fq_rec_end inp a) are these
    four lines with the three LFs between them. *)
Theorem C11_unchanged_fq_extent : forall inp a h s p q,
  ~ In LF h -> ~ In LF s -> ~ In LF p -> ~ In LF q ->
  (forall rest, skipn a inp = h ++ LF :: s ++ LF :: p ++ LF :: q ++ LF :: rest ->
     window inp a (fq_rec_end inp a) = h ++ LF :: s ++ LF :: p ++ LF :: q /\
     fq_rec_end inp a < length inp) /\
  (skipn a inp = h ++ LF :: s ++ LF :: p ++ LF :: q ->
     window inp a (fq_rec_end inp a) = h ++ LF :: s ++ LF :: p ++ LF :: q /\
     fq_rec_end inp a = length inp).
Proof. exact fq_extent. Qed.
Print Assumptions C11_unchanged_fq_extent.

Example C11_unchanged_fq_extent_nonvacuous :
  let inp := [64;97;10;65;10;43;10;73;10;64;98;10;71;10;43;10;73] in
  ~ In LF [64;97] /\ ~ In LF [65] /\ ~ In LF [43] /\ ~ In LF [73] /\
  skipn 0 inp = [64;97] ++ LF :: [65] ++ LF :: [43] ++ LF :: [73] ++ LF :: [64;98;10;71;10;43;10;73] /\
  skipn 9 inp = [64;98] ++ LF :: [71] ++ LF :: [43] ++ LF :: [73].
Proof. cbv zeta. repeat split; try (vm_compute; intuition discriminate); reflexivity. Qed.

(* ================================================================== *)
(** * FASTQ, a whole well-formed input *)

(** Input = [render crlf final rs] (any number of well-formed records, LF or CRLF, final
    terminator present or not), optionally followed -- after the final terminator -- by
    a blank tail of at most 2 LFs.  For every capacity >= 3, chunking, growing policy and
    at least [length rs] calls: no call fails, and the concatenation of the records
    written unchanged is the input without the blank tail, plus one LF when the final
    terminator is missing. *)
Theorem C11_unchanged_fq_concat : forall crlf final rs tail cap0 rds ss pol fuel ffuel n,
  Forall FqSpecP.rec_ok rs -> (final = false -> tail = []) ->
  count_lf tail <= 2 -> forallb blank (pieces tail) = true ->
  3 <= cap0 -> forallb item_ok rds = true -> PolOk pol ->
  length rds + 2 <= ffuel -> length (FqSpecP.render crlf final rs ++ tail) + 2 <= fuel ->
  length rs <= n ->
  opt_concat (map fq_wu_out
    (fq_run fuel ffuel n (fq_new cap0 (mkSource (FqSpecP.render crlf final rs ++ tail) 0 rds ss) pol))) =
  Some (fq_unchanged_text crlf final rs).
Proof. exact fq_unchanged_concat. Qed.
Print Assumptions C11_unchanged_fq_concat.

(** call by call (every capacity >= 1): call k writes the k-th record's four lines with
    their terminators, the fourth line of the last record always ending in LF; later
    calls write nothing *)
Theorem C11_unchanged_fq_run : forall crlf final rs tail cap0 rds ss pol fuel ffuel n,
  Forall FqSpecP.rec_ok rs -> (final = false -> tail = []) ->
  count_lf tail <= 2 -> forallb blank (pieces tail) = true ->
  1 <= cap0 -> forallb item_ok rds = true -> PolOk1 pol ->
  length rds + 2 <= ffuel -> length (FqSpecP.render crlf final rs ++ tail) + 2 <= fuel ->
  map fq_wu_out
    (fq_run fuel ffuel n (fq_new cap0 (mkSource (FqSpecP.render crlf final rs ++ tail) 0 rds ss) pol)) =
  firstn n (map Some (fq_wu_outs crlf final rs) ++ repeat (Some []) n).
Proof. exact fq_unchanged_run_gen. Qed.
Print Assumptions C11_unchanged_fq_run.

(** what [fq_unchanged_text] is: with final terminator it is the input (blank tail
    dropped); for LF input it is the LF rendering with final terminator; in general
    the concatenation of the per-record outputs *)
Theorem C11_unchanged_fq_text : forall crlf final rs,
  fq_unchanged_text crlf true rs = FqSpecP.render crlf true rs /\
  fq_unchanged_text false final rs = FqSpecP.render false true rs /\
  (rs <> [] -> fq_unchanged_text crlf false rs = FqSpecP.render crlf false rs ++ [LF]) /\
  concat (fq_wu_outs crlf final rs) = fq_unchanged_text crlf final rs.
Proof. exact fq_unchanged_text_facts. Qed.
Print Assumptions C11_unchanged_fq_text.

(** ... and what it is not: for a CRLF input without final terminator the terminator
    added is a bare LF, so the result is NOT the CRLF rendering with final terminator *)
Theorem C11_unchanged_fq_crlf_nofinal_refuted : exists rs,
  Forall FqSpecP.rec_ok rs /\ fq_unchanged_text true false rs <> FqSpecP.render true true rs.
Proof. exact fq_unchanged_crlf_nofinal_refuted. Qed.
Print Assumptions C11_unchanged_fq_crlf_nofinal_refuted.

(** non-vacuity: two records (one with empty sequence), CRLF, final terminator, blank
    tail "\r\n\n"; capacity 3; the output is the input without the tail *)
Example C11_unchanged_fq_concat_nonvacuous :
  let rs : list rec3 := [([97;32;120], [65;67], [73;73]); ([98], [], [])] in
  let tail := [13;10;10] in
  let inp := FqSpecP.render true true rs ++ tail in
  let rds := [RDeliver 0; RInterrupt; RDeliver 1] in
  let pol : policy := fun _ c => Some (S c) in
  Forall FqSpecP.rec_ok rs /\ (true = false -> tail = []) /\
  count_lf tail <= 2 /\ forallb blank (pieces tail) = true /\
  3 <= 3 /\ forallb item_ok rds = true /\ PolOk pol /\ length rds + 2 <= 50 /\ length inp + 2 <= 100 /\
  length rs <= 3 /\
  opt_concat (map fq_wu_out (fq_run 100 50 3 (fq_new 3 (mkSource inp 0 rds []) pol))) =
  Some (FqSpecP.render true true rs).
Proof.
  cbv zeta. split.
  { apply clean_all_ok. repeat constructor; vm_compute; intuition discriminate. }
  split; [discriminate|]. split; [vm_compute; lia|]. split; [vm_compute; reflexivity|].
  split; [lia|]. split; [reflexivity|].
  split; [intros h c; exists (S c); split; [reflexivity | lia]|].
  split; [cbn [length]; lia|]. split; [vm_compute; lia|]. split; [cbn [length]; lia|].
  vm_compute. reflexivity.
Qed.

(** non-vacuity, CRLF without final terminator: output = input ++ LF *)
Example C11_unchanged_fq_concat_nonvacuous_nofinal :
  let rs : list rec3 := [([97], [65;67], [73;73]); ([98], [71], [33])] in
  let inp := FqSpecP.render true false rs in
  Forall FqSpecP.rec_ok rs /\
  opt_concat (map fq_wu_out (fq_run 100 50 2 (fq_new 4 (mkSource (inp ++ []) 0 [RDeliver 2] []) pol_std))) =
  Some (inp ++ [LF]) /\
  fq_unchanged_text true false rs = inp ++ [LF].
Proof.
  cbv zeta. split.
  { apply clean_all_ok. repeat constructor; vm_compute; intuition discriminate. }
  split; vm_compute; reflexivity.
Qed.

(* ================================================================== *)
(** * FASTA, one record *)

(** For EVERY input, capacity >= 3, fault-free read script, growing policy: each call
    matches the expected item of the offset-based stream (C01); for a record item at
    offset [s] with line ends [ends], the returned record [rc] (header [h], lines [ls])
    is written unchanged as its raw extent [fa_data inp s ends], plus an LF unless the
    extent ends in one; these bytes parse as exactly one record, at line 1 byte 0, with
    the same header and the same lines -- except that, exactly when the extent already
    ends in LF, the last line (then an empty one) is dropped. *)
Theorem C11_unchanged_fa_bytes : forall inp cap0 rs ss pol fuel ffuel n items,
  3 <= cap0 -> forallb item_ok rs = true -> PolOk pol ->
  length rs + 2 <= ffuel -> length inp + 2 <= fuel ->
  FaOSpec inp items ->
  Forall2 (fun o it =>
             fa_omatches inp o it /\
             match it with
             | Some (OiRec s line ends) =>
                 exists rc h ls, fst o = ORec rc /\ fa_head rc = Some h /\ fa_lines rc = Some ls /\
                   fa_write_unchanged rc = Some (fa_norm_out (fa_data inp s ends)) /\
                   fa_spec (fa_norm_out (fa_data inp s ends)) =
                     [SRec (mkFaItem h (if last (fa_data inp s ends) 0 =? LF
                                        then removelast ls else ls) 1 0)] /\
                   ((last (fa_data inp s ends) 0 =? LF) = true -> exists ls', ls = ls' ++ [[]])
             | _ => True
             end)
          (fa_run fuel ffuel n (fa_new cap0 (mkSource inp 0 rs ss) pol))
          (firstn n (map Some items ++ repeat None n)).
Proof. exact fa_unchanged_bytes. Qed.
Print Assumptions C11_unchanged_fa_bytes.

(** consequence for "identical record": same header, same concatenated sequence, same
    non-empty lines ([nonempty_line l] = [l] has at least one byte); the hypothesis is
    what C11_unchanged_fa_bytes gives: the re-parsed lines [ls'] are [ls] or [ls] without
    its empty last line *)
Theorem C11_unchanged_fa_same_record : forall (ls ls' : list (list byte)),
  (ls' = ls \/ ls = ls' ++ [[]]) ->
  concat ls' = concat ls /\ filter nonempty_line ls' = filter nonempty_line ls.
Proof. exact same_record_lines. Qed.
Print Assumptions C11_unchanged_fa_same_record.

(** non-vacuity: ">a x\r\nAC\r\n\r\n>b\nG\n\n>c" -- record a ends with a CRLF blank line
    (kept: extent ends in CR), record b with an empty line (dropped: extent ends in LF),
    record c has no lines and no terminator (LF added) *)
Example C11_unchanged_fa_bytes_nonvacuous :
  let inp := [62;97;32;120;13;10;65;67;13;10;13;10;62;98;10;71;10;10;62;99] in
  fa_ostart_of inp = OsRecs 0 1 /\
  FaOSpec inp [OiRec 0 1 [5;9;11]; OiRec 12 4 [14;16;17]; OiRec 18 7 [20]] /\
  map fa_wu_out (fa_run 50 50 4 (fa_new 3 (mkSource inp 0 (repeat (RDeliver 0) 30) []) pol_std)) =
  [Some [62;97;32;120;13;10;65;67;13;10;13;10]; Some [62;98;10;71;10]; Some [62;99;10]; Some []] /\
  fa_spec [62;97;32;120;13;10;65;67;13;10;13;10] = [SRec (mkFaItem [97;32;120] [[65;67]; []] 1 0)] /\
  fa_spec [62;98;10;71;10] = [SRec (mkFaItem [98] [[71]] 1 0)] /\
  fa_spec inp = [SRec (mkFaItem [97;32;120] [[65;67]; []] 1 0); SRec (mkFaItem [98] [[71]; []] 4 12);
                 SRec (mkFaItem [99] [] 7 18)].
Proof.
  cbv zeta. split; [vm_compute; reflexivity|]. split.
  { apply (FO_recs _ 0 1 [(0, 1, [5;9;11]); (12, 4, [14;16;17]); (18, 7, [20])]); [vm_compute; reflexivity|].
    apply (FS_more _ 0 1 12 [5;9;11]); [vm_compute; reflexivity|].
    apply (FS_more _ 12 4 18 [14;16;17]); [vm_compute; reflexivity|].
    apply (FS_last _ 18 7 20 []). vm_compute. reflexivity. }
  repeat split; vm_compute; reflexivity.
Qed.

(* ================================================================== *)
(** * FASTA, a whole input *)

(** For EVERY input whose first non-blank line starts with '>' (at offset [pos]), every
    capacity >= 3, chunking, growing policy, and at least as many calls as there are
    records: no call fails, and the concatenation of the records written unchanged is
    the text from [pos] on with (1) every empty line that directly precedes a header
    line or ends the text removed and (2) every line terminated by LF (lines keep
    their CR; a missing final LF is added). *)
Theorem C11_unchanged_fa_concat : forall inp pos ln cap0 rs ss pol fuel ffuel n,
  fa_ostart_of inp = OsRecs pos ln ->
  3 <= cap0 -> forallb item_ok rs = true -> PolOk pol ->
  length rs + 2 <= ffuel -> length inp + 2 <= fuel ->
  length (fa_spec inp) <= n ->
  opt_concat (map fa_wu_out (fa_run fuel ffuel n (fa_new cap0 (mkSource inp 0 rs ss) pol))) =
  Some (unlines (fa_norm_lines (FastaSpec.lines_of (skipn pos inp)))).
Proof. exact fa_unchanged_concat. Qed.
Print Assumptions C11_unchanged_fa_concat.

(** an input starting with '>' *)
Theorem C11_unchanged_fa_concat_gt : forall x cap0 rs ss pol fuel ffuel n,
  3 <= cap0 -> forallb item_ok rs = true -> PolOk pol ->
  length rs + 2 <= ffuel -> length (GT :: x) + 2 <= fuel ->
  length (fa_spec (GT :: x)) <= n ->
  opt_concat (map fa_wu_out (fa_run fuel ffuel n (fa_new cap0 (mkSource (GT :: x) 0 rs ss) pol))) =
  Some (unlines (fa_norm_lines (FastaSpec.lines_of (GT :: x)))).
Proof. exact fa_unchanged_concat_gt. Qed.
Print Assumptions C11_unchanged_fa_concat_gt.

(** the normalisation, pinned on its four cases *)
Theorem C11_unchanged_fa_norm_lines : forall (c : byte) (r : list (list byte)) (t x : list byte),
  fa_norm_lines [] = [] /\
  fa_norm_lines [[]] = [] /\
  fa_norm_lines ((c :: t) :: r) = (c :: t) :: fa_norm_lines r /\
  fa_norm_lines ([] :: (GT :: x) :: r) = fa_norm_lines ((GT :: x) :: r) /\
  (is_header x = false -> fa_norm_lines ([] :: x :: r) = [] :: fa_norm_lines (x :: r)).
Proof. exact fa_norm_lines_cases. Qed.
Print Assumptions C11_unchanged_fa_norm_lines.

(** a well-formed file -- header line first, no LF inside a line, no empty line, any
    per-line mixture of LF / CRLF, final terminator present or absent -- is
    reproduced byte for byte, plus one LF when the final terminator is missing *)
Theorem C11_unchanged_fa_wellformed : forall h rest ch final cap0 rs ss pol fuel ffuel n,
  let ls := (GT :: h) :: rest in
  let inp := LinesP.render ls ch final in
  Forall (lacks LF) ls -> Forall (fun l : list byte => l <> []) ls ->
  3 <= cap0 -> forallb item_ok rs = true -> PolOk pol ->
  length rs + 2 <= ffuel -> length inp + 2 <= fuel ->
  length (fa_spec inp) <= n ->
  opt_concat (map fa_wu_out (fa_run fuel ffuel n (fa_new cap0 (mkSource inp 0 rs ss) pol))) =
  Some (inp ++ (if final then [] else [LF])).
Proof. exact fa_unchanged_wellformed. Qed.
Print Assumptions C11_unchanged_fa_wellformed.

(** non-vacuity of the general statement: leading blank lines, CRLF, blank lines of
    both kinds before headers and at the end: "\n>a\nAC\n\n>b\r\n\r\n>c\nG\n\n\n" *)
Example C11_unchanged_fa_concat_nonvacuous :
  let inp := [10;62;97;10;65;67;10;10;62;98;13;10;13;10;62;99;10;71;10;10;10] in
  fa_ostart_of inp = OsRecs 1 2 /\ 3 <= 3 /\ PolOk pol_std /\
  length (fa_spec inp) <= 4 /\
  opt_concat (map fa_wu_out (fa_run 50 50 4 (fa_new 3 (mkSource inp 0 (repeat (RDeliver 0) 30) []) pol_std))) =
  Some [62;97;10;65;67;10;62;98;13;10;13;10;62;99;10;71;10;10] /\
  unlines (fa_norm_lines (FastaSpec.lines_of (skipn 1 inp))) =
  [62;97;10;65;67;10;62;98;13;10;13;10;62;99;10;71;10;10].
Proof.
  cbv zeta. split; [vm_compute; reflexivity|]. split; [lia|].
  split; [exact FastaTopP.PolOk_std|]. split; [vm_compute; lia|].
  split; vm_compute; reflexivity.
Qed.

(** non-vacuity of the well-formed statement: mixed terminators, no final terminator *)
Example C11_unchanged_fa_wellformed_nonvacuous :
  let ls := [[62;97;32;120]; [65;67]; [71]; [62;98]; [84]] in
  let ch := [true; false; true; false] in
  let inp := LinesP.render ls ch false in
  Forall (lacks LF) ls /\ Forall (fun l : list byte => l <> []) ls /\
  inp = [62;97;32;120;13;10;65;67;10;71;13;10;62;98;10;84] /\
  length (fa_spec inp) <= 3 /\
  opt_concat (map fa_wu_out (fa_run 50 50 3 (fa_new 3 (mkSource inp 0 [RDeliver 0; RInterrupt] []) pol_std))) =
  Some (inp ++ [LF]).
Proof.
  cbv zeta. split; [repeat constructor|]. split; [repeat constructor; discriminate|].
  split; [vm_compute; reflexivity|]. split; [vm_compute; lia|]. vm_compute. reflexivity.
Qed.
