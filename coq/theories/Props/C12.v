(** C12 (FASTA half) — LF and CRLF versions of a file parse identically.
    Statements only; proofs are in Proofs/LinesP.v.

    Vocabulary (Proofs/LinesP.v):
      [line_ok l]            [no_lf l /\ no_cr l]: the line contains neither LF nor CR
      [render ls ch final]   the file with lines [ls]; line i is terminated by CRLF if
                             the i-th element of [ch] is [true], by LF otherwise (also
                             when [ch] is too short); the last line gets its terminator
                             only if [final = true], otherwise nothing follows it
      [render ls [] true]    the all-LF rendering with final terminator
      [drop_byte]            an item of [fa_spec] without its byte offset:
                             [PRec head lines line] or [PInvalidStart line found]
      [clean_item]           a record item whose header and sequence lines contain no CR *)
From SeqIO Require Import Model.Base Spec.FastaSpec Proofs.LinesP.

(** Any per-line mixture of LF and CRLF, final terminator present or absent:
    the same items (records with identical headers, sequence lines and line
    numbers; the same InvalidStart error) as the all-LF rendering; only the
    byte offsets differ.  The visible restriction: when the final terminator
    is absent the last line is not empty -- an empty unterminated last line is
    not there at all, see C12_fasta_empty_last and the refutation below. *)
Theorem C12_fasta_parse_alike : forall ls ch final, Forall line_ok ls ->
  (final = true \/ last ls [] <> []) ->
  map drop_byte (fa_spec (render ls ch final)) = map drop_byte (fa_spec (render ls [] true)).
Proof. exact render_parse_alike. Qed.
Print Assumptions C12_fasta_parse_alike.

(** the corner: rendering [ls] plus an empty last line without final terminator
    gives byte for byte the rendering of [ls] with final terminator (no
    hypothesis on the lines) *)
Theorem C12_fasta_empty_last : forall ls ch,
  render (ls ++ [[]]) ch false = render ls ch true /\
  fa_spec (render (ls ++ [[]]) ch false) = fa_spec (render ls ch true).
Proof. intros ls ch. split; [apply render_empty_last | apply render_parse_empty_last]. Qed.
Print Assumptions C12_fasta_empty_last.

(** without the restriction the statement is false: lines [">a"; ""] without
    final terminator are the text ">a\n" (record a, no sequence line), with it
    ">a\n\n" (record a, one empty sequence line) *)
Theorem C12_fasta_parse_alike_unrestricted_refuted :
  exists ls ch final, Forall line_ok ls /\
    map drop_byte (fa_spec (render ls ch final)) <> map drop_byte (fa_spec (render ls [] true)).
Proof. exact render_parse_alike_unrestricted_refuted. Qed.
Print Assumptions C12_fasta_parse_alike_unrestricted_refuted.

(** no CR in any returned header or sequence line, for every rendering (no
    restriction on the last line) *)
Theorem C12_fasta_no_cr : forall ls ch final, Forall line_ok ls ->
  Forall clean_item (fa_spec (render ls ch final)).
Proof. exact render_no_cr. Qed.
Print Assumptions C12_fasta_no_cr.

(* ------------------------------------------------------------------ *)
(** * Non-vacuity *)

(** blank line first, two records, an empty line inside a record, mixed
    terminators, no final terminator: "\r\n>a b\r\nAC\n\r\nG\r\n>c\nT" *)
Example C12_fasta_ex_mixed :
  let ls := [[]; [62;97;32;98]; [65;67]; []; [71]; [62;99]; [84]] in
  let ch := [true; true; false; true; true; false; true] in
  Forall line_ok ls /\ last ls [] <> [] /\
  render ls ch false = [13;10; 62;97;32;98;13;10; 65;67;10; 13;10; 71;13;10; 62;99;10; 84] /\
  render ls [] true = [10; 62;97;32;98;10; 65;67;10; 10; 71;10; 62;99;10; 84;10] /\
  fa_spec (render ls ch false) =
    [SRec (mkFaItem [97;32;98] [[65;67]; []; [71]] 2 2);
     SRec (mkFaItem [99] [[84]] 6 16)] /\
  fa_spec (render ls [] true) =
    [SRec (mkFaItem [97;32;98] [[65;67]; []; [71]] 2 1);
     SRec (mkFaItem [99] [[84]] 6 12)] /\
  Forall clean_item (fa_spec (render ls ch false)).
Proof. vm_compute. repeat split; try discriminate; repeat constructor. Qed.

(** the error case: first non-blank line does not start with '>' *)
Example C12_fasta_ex_invalid_start :
  let ls := [[]; [65;67]] in
  Forall line_ok ls /\
  fa_spec (render ls [true; true] true) = [SInvalidStart 2 65] /\
  fa_spec (render ls [] true) = [SInvalidStart 2 65].
Proof. vm_compute. repeat split; repeat constructor. Qed.

(** the hypothesis "no CR in the lines" matters: a line ending in CR loses it
    in the LF rendering but keeps one in the CRLF rendering *)
Example C12_fasta_ex_cr_in_line :
  let ls := [[62;97;13]] in
  fa_spec (render ls [true] true) = [SRec (mkFaItem [97;13] [] 1 0)] /\
  fa_spec (render ls [] true) = [SRec (mkFaItem [97] [] 1 0)].
Proof. vm_compute. repeat split. Qed.
