(** C12 (FASTQ half, Spec level) — LF and CRLF versions of a file parse identically.
    [render crlf final rs] (Proofs/FqSpecP.v) writes the records [rs] = (head, seq, qual)
    as four lines each, '@' head / seq / '+' / qual, every line ended by LF
    ([crlf = false]) or CR LF ([crlf = true]); the terminator after the very last line
    is present ([final = true]) or absent ([final = false]).
    [drop_byte] sets the byte offset of an item to 0 (offsets necessarily differ
    between the LF and the CRLF text); [fq_items w rs line byte] is the list of QRec
    items of the triples [rs] at lines line, line+4, ... and offsets advancing by [w r].
    Statements only; proofs are in Proofs/FqSpecP.v.

    Corner cases covered by the statements (none needs an extra hypothesis): the
    empty record list (all four renderings are the empty text, no items); empty
    fields, in particular empty sequence and quality on the last record without final
    terminator (text ends "...+\n" resp. "...+\r\n": still a record); CRLF without
    final terminator (sequence line carries a CR, quality line does not: accepted
    because the Spec compares the trimmed lengths only). *)
From SeqIO Require Import Model.Base Gen.WriteGen Model.Views Spec.FastaSpec Spec.FastqSpec
  Proofs.FqSpecP.

(** each of the four renderings parses to exactly the records rendered: same heads,
    sequences, qualities, line numbers 1, 5, 9, ...; no error item *)
Theorem C12_fastq : forall (rs : list (list byte * list byte * list byte)) (crlf final : bool),
  Forall (fun r => let '(h, s, q) := r in
            ~ In LF h /\ ~ In CR h /\ ~ In LF s /\ ~ In CR s /\ ~ In LF q /\ ~ In CR q /\
            length s = length q) rs ->
  map drop_byte (fq_spec_all (render crlf final rs)) = fq_items (fun _ => 0) rs 1 0.
Proof. intros rs crlf final H. exact (fq_render_nobyte crlf final rs H). Qed.
Print Assumptions C12_fastq.

(** hence any two of the four renderings give the same items up to the byte offset *)
Theorem C12_fastq_same : forall (rs : list (list byte * list byte * list byte)),
  Forall (fun r => let '(h, s, q) := r in
            ~ In LF h /\ ~ In CR h /\ ~ In LF s /\ ~ In CR s /\ ~ In LF q /\ ~ In CR q /\
            length s = length q) rs ->
  forall crlf1 final1 crlf2 final2,
  map drop_byte (fq_spec_all (render crlf1 final1 rs)) =
  map drop_byte (fq_spec_all (render crlf2 final2 rs)).
Proof. exact fq_render_same. Qed.
Print Assumptions C12_fastq_same.

(** the same without auxiliary list: as many items as records, and the k-th item is
    the k-th record at line 1 + 4k *)
Theorem C12_fastq_nth : forall (rs : list (list byte * list byte * list byte)) (crlf final : bool),
  Forall (fun r => let '(h, s, q) := r in
            ~ In LF h /\ ~ In CR h /\ ~ In LF s /\ ~ In CR s /\ ~ In LF q /\ ~ In CR q /\
            length s = length q) rs ->
  length (fq_spec_all (render crlf final rs)) = length rs /\
  forall k h s q, nth_error rs k = Some (h, s, q) ->
    nth_error (map drop_byte (fq_spec_all (render crlf final rs))) k =
    Some (QRec (mkFqItem h s q (1 + 4 * k) 0)).
Proof. intros rs crlf final H. exact (fq_render_nth crlf final rs H). Qed.
Print Assumptions C12_fastq_nth.

(** with the byte offsets: each record advances the offset by its rendered length
    (terminators included) *)
Theorem C12_fastq_exact : forall (rs : list (list byte * list byte * list byte)) (crlf final : bool),
  Forall (fun r => let '(h, s, q) := r in
            ~ In LF h /\ ~ In CR h /\ ~ In LF s /\ ~ In CR s /\ ~ In LF q /\ ~ In CR q /\
            length s = length q) rs ->
  fq_spec_all (render crlf final rs) =
  fq_items (fun r => length (body crlf r ++ eol crlf)) rs 1 0.
Proof. intros rs crlf final H. exact (fq_render_exact crlf final rs H). Qed.
Print Assumptions C12_fastq_exact.

(** no carriage return in any returned field, and no error item, for every rendering
    (in particular the CRLF ones) *)
Theorem C12_fastq_no_cr : forall (rs : list (list byte * list byte * list byte)) (crlf final : bool),
  Forall (fun r => let '(h, s, q) := r in
            ~ In LF h /\ ~ In CR h /\ ~ In LF s /\ ~ In CR s /\ ~ In LF q /\ ~ In CR q /\
            length s = length q) rs ->
  forall i, In i (fq_spec_all (render crlf final rs)) ->
  exists x, i = QRec x /\ ~ In CR (qi_head x) /\ ~ In CR (qi_seq x) /\ ~ In CR (qi_qual x).
Proof. intros rs crlf final H. exact (fq_render_no_cr crlf final rs H). Qed.
Print Assumptions C12_fastq_no_cr.

(** the LF rendering with final terminator is what the FASTQ writer produces (link to C11) *)
Theorem C12_fastq_lf_is_writer : forall rs : list (list byte * list byte * list byte),
  render false true rs = concat (map (fun r => let '(h, s, q) := r in fqw_to h s q) rs).
Proof. exact render_lf_is_writer. Qed.
Print Assumptions C12_fastq_lf_is_writer.

(** the hypothesis "fields free of CR" is needed: sequence "A\r" with quality "I\r" is
    returned with the CRs from the CRLF text and without them from the LF text *)
Theorem C12_fastq_cr_field_refuted : exists rs : list (list byte * list byte * list byte),
  Forall (fun r => let '(h, s, q) := r in
            ~ In LF h /\ ~ In LF s /\ ~ In LF q /\ length s = length q) rs /\
  map drop_byte (fq_spec_all (render true true rs)) <>
  map drop_byte (fq_spec_all (render false true rs)).
Proof. exact render_cr_field_refuted. Qed.
Print Assumptions C12_fastq_cr_field_refuted.

(** non-vacuity: two records, the last with empty sequence and quality; the four texts
    and their parse *)
Example C12_fastq_example :
  let rs := [([114; 49], [65; 67], [73; 73]); ([114; 50], [], [])] in
  Forall (fun r => let '(h, s, q) := r in
            ~ In LF h /\ ~ In CR h /\ ~ In LF s /\ ~ In CR s /\ ~ In LF q /\ ~ In CR q /\
            length s = length q) rs /\
  render false true rs = [64;114;49;10; 65;67;10; 43;10; 73;73;10; 64;114;50;10; 10; 43;10; 10] /\
  render false false rs = [64;114;49;10; 65;67;10; 43;10; 73;73;10; 64;114;50;10; 10; 43;10] /\
  render true true rs = [64;114;49;13;10; 65;67;13;10; 43;13;10; 73;73;13;10;
                         64;114;50;13;10; 13;10; 43;13;10; 13;10] /\
  render true false rs = [64;114;49;13;10; 65;67;13;10; 43;13;10; 73;73;13;10;
                          64;114;50;13;10; 13;10; 43;13;10] /\
  (forall crlf final, map drop_byte (fq_spec_all (render crlf final rs)) =
     [QRec (mkFqItem [114; 49] [65; 67] [73; 73] 1 0); QRec (mkFqItem [114; 50] [] [] 5 0)]) /\
  fq_spec_all (render true false rs) =
     [QRec (mkFqItem [114; 49] [65; 67] [73; 73] 1 0); QRec (mkFqItem [114; 50] [] [] 5 16)].
Proof.
  split; [repeat constructor; nomem|].
  repeat split; try (vm_compute; reflexivity).
  intros [|] [|]; vm_compute; reflexivity.
Qed.

(** the empty list: all four renderings are the empty text *)
Example C12_fastq_example_empty : forall crlf final,
  render crlf final [] = [] /\ fq_spec_all (render crlf final []) = [].
Proof. intros crlf final. split; reflexivity. Qed.
