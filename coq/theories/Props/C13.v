(** C13 — All views of a record agree with each other.
    Statements only; proofs are in Proofs/ViewsP.v and Proofs/Utf8P.v
    (which reuse the deque refinement of Proofs/SeqLinesP.v).

    Hypotheses on a FASTA record view (definitions in Proofs/ViewsP.v):
    - [FaRecWf r]: [rseqpos r = p0 :: ps], [rstart r < p0], the stored line
      ends strictly increase, the last one is [<= length (rbuf r)];
    - [FaRecLf r]: [FaRecWf r], every stored line end except the last indexes
      an LF, and there is no other LF between the first and the last one.
    Both are what the FASTA reader establishes for every record it returns
    (from [next], and from record sets, which store the same offsets).
    [FqRecWf r]: [r0+2 <= rseq], [rseq+1 <= rsep <= rqual <= r1 <= length buf].
    Owned copies are by construction the values returned by [fa_to_owned] /
    [fq_to_owned]; the header accessors are functions of the head bytes only,
    so they are the same functions on RefRecord, OwnedRecord and set members. *)
From SeqIO Require Import Model.Base Model.Fasta Model.Fastq Model.Views
  Proofs.SeqLinesP Proofs.ViewsP Proofs.Utf8P.

(** No accessor of a well-formed FASTA record view panics. *)
Theorem C13_fa_views_total : forall r, FaRecWf r ->
  (exists h, fa_head r = Some h) /\ (exists x, fa_seq_raw r = Some x) /\
  (exists ls, fa_lines r = Some ls) /\ (exists n, fa_num_seq_lines r = Some n) /\
  (exists x, fa_owned_seq r = Some x) /\ (exists p, fa_full_seq r = Some p) /\
  (exists p, fa_to_owned r = Some p).
Proof. exact fa_views_total. Qed.
Print Assumptions C13_fa_views_total.

(** The lines [ls] seen by [for l in rec.seq_lines()] determine every other
    view: there is one line per pair of consecutive stored line ends;
    [num_seq_lines()] and the iterator's [len()] are [length ls];
    [owned_seq()], [full_seq()] and the owned record's sequence are
    [concat ls]; [full_seq()] is borrowed exactly when there is one line; the
    owned record's head is [head()]; draining the iterator from the back gives
    [rev ls]; and under ANY schedule [ds] of front/back steps the lines handed
    out at the front, the lines not yet handed out, and the reversed lines
    handed out at the back are a partition of [ls] in order -- with nothing
    left once [ds] has at least [length ls] steps (every line exactly once,
    the two ends meet without overlap, no panic). *)
Theorem C13_fa_views_agree : forall r, FaRecWf r ->
  exists ls,
    fa_lines r = Some ls /\
    length ls = length (rseqpos r) - 1 /\
    fa_num_seq_lines r = Some (length ls) /\
    fa_owned_seq r = Some (concat ls) /\
    (exists b, fa_full_seq r = Some (b, concat ls) /\ (b = true <-> length ls = 1)) /\
    (exists h, fa_head r = Some h /\ fa_to_owned r = Some (h, concat ls)) /\
    (exists s, fa_seq_lines r = Some s /\ sl_len s = length ls /\
       (forall fuel, length ls <= fuel -> sl_drain fuel s = Some ls) /\
       (forall fuel, length ls <= fuel -> sl_drain_back fuel s = Some (rev ls)) /\
       (forall ds, exists fr bk rest, sl_collect s ds = Some (fr, bk) /\
           fr ++ rest ++ rev bk = ls /\ (length ls <= length ds -> rest = []))).
Proof. exact fa_views_agree. Qed.
Print Assumptions C13_fa_views_agree.

(** Instance: strictly alternating front, back, front, ... for [length ls] steps. *)
Theorem C13_fa_alternate : forall r, FaRecWf r ->
  exists ls s fr bk, fa_lines r = Some ls /\ fa_seq_lines r = Some s /\
    sl_collect s (alternate (length ls) DFront) = Some (fr, bk) /\ fr ++ rev bk = ls.
Proof. exact fa_alternate. Qed.
Print Assumptions C13_fa_alternate.

(** The raw sequence [seq()] differs from the lines only by terminators:
    removing every LF and one CR directly before each LF (nothing at the very
    end) gives exactly the concatenated lines.  No extra hypothesis on CRs is
    needed: [seq()] removes the one CR at the very end itself, before
    [strip_terminators] sees it (lines may end in any number of further CRs,
    which are kept by both sides). *)
Theorem C13_fa_raw_seq : forall r, FaRecLf r ->
  exists raw ls, fa_seq_raw r = Some raw /\ fa_lines r = Some ls /\
    strip_terminators raw = concat ls.
Proof. exact fa_raw_seq. Qed.
Print Assumptions C13_fa_raw_seq.

(** What is true of the trailing CR (DESIGN section 7): on the extent between
    the first and the last stored line end, i.e. before [seq()]'s own
    [trim_cr], stripping the terminators leaves the lines plus exactly one CR
    when the extent ends in CR, and the lines otherwise. *)
Theorem C13_fa_raw_extent : forall r, FaRecLf r -> forall f e t, rseqpos r = f :: e :: t ->
  exists ls, fa_lines r = Some ls /\
    fa_seq_raw r = Some (trim_cr (sub (rbuf r) (f + 1) (last (rseqpos r) 0))) /\
    strip_terminators (sub (rbuf r) (f + 1) (last (rseqpos r) 0)) =
      concat ls ++ (if ends_cr (sub (rbuf r) (f + 1) (last (rseqpos r) 0)) then [CR] else []).
Proof. exact fa_raw_extent. Qed.
Print Assumptions C13_fa_raw_extent.

(** Witnesses delimiting the claim.
    (1) [FaRecLf] cannot be weakened to [FaRecWf]: ">a\nA\r\nC\n" with offsets
        [2;7] (an LF the offsets do not record). *)
Theorem C13_fa_raw_seq_needs_lf_refuted :
  exists r raw ls, FaRecWf r /\ fa_seq_raw r = Some raw /\ fa_lines r = Some ls /\
                   strip_terminators raw <> concat ls.
Proof. exact fa_raw_seq_needs_lf_refuted. Qed.
Print Assumptions C13_fa_raw_seq_needs_lf_refuted.

(** (2) Without [seq()]'s own trim the equality fails: ">a\nAC\r" (last line
        without LF, ending in CR). *)
Theorem C13_fa_raw_extent_refuted :
  exists r f e t ls, FaRecLf r /\ rseqpos r = f :: e :: t /\ fa_lines r = Some ls /\
    strip_terminators (sub (rbuf r) (f + 1) (last (rseqpos r) 0)) <> concat ls.
Proof. exact fa_raw_extent_refuted. Qed.
Print Assumptions C13_fa_raw_extent_refuted.

(** (3) The order matters: trimming the final CR after stripping is wrong for
        ">a\nA\r\r\n\n" (a line ending in two CRs followed by an empty last line). *)
Theorem C13_fa_raw_trim_after_refuted :
  exists r f e t ls, FaRecLf r /\ rseqpos r = f :: e :: t /\ fa_lines r = Some ls /\
    trim_cr (strip_terminators (sub (rbuf r) (f + 1) (last (rseqpos r) 0))) <> concat ls.
Proof. exact fa_raw_trim_after_refuted. Qed.
Print Assumptions C13_fa_raw_trim_after_refuted.

(** The id is the header up to the first space, the description the rest. *)
Theorem C13_id_desc : forall head,
  head = id_bytes head ++ (match desc_bytes head with Some d => SP :: d | None => [] end) /\
  ~ In SP (id_bytes head) /\
  (desc_bytes head = None <-> ~ In SP head) /\
  id_desc_bytes head = (id_bytes head, desc_bytes head).
Proof. exact id_desc_split. Qed.
Print Assumptions C13_id_desc.

(** UTF-8 validity splits at a space, and at any other ASCII separator. *)
Theorem C13_utf8_split : forall a b : list byte,
  utf8_valid (a ++ [32] ++ b) = utf8_valid a && utf8_valid b.
Proof. exact utf8_split. Qed.
Print Assumptions C13_utf8_split.

Theorem C13_utf8_split_sep : forall (s : byte) (a b : list byte), s <= 127 ->
  utf8_valid (a ++ [s] ++ b) = utf8_valid a && utf8_valid b.
Proof. exact utf8_split_sep. Qed.
Print Assumptions C13_utf8_split_sep.

(** The text accessors: [id_desc()] succeeds exactly when [id()] succeeds and
    [desc()] is not [Some(Err)]; whatever succeeds returns the bytes of the
    corresponding [*_bytes] accessor, and those bytes are valid UTF-8;
    [desc()] is [None] exactly when [desc_bytes()] is. *)
Theorem C13_text_accessors : forall head,
  ((exists p, id_desc_str head = Some p) <->
   ((exists i, id_str head = Some i) /\ desc_str head <> Some None)) /\
  (forall p, id_desc_str head = Some p ->
     p = id_desc_bytes head /\ id_str head = Some (id_bytes head) /\
     desc_str head = option_map Some (desc_bytes head)) /\
  (forall i, id_str head = Some i -> i = id_bytes head /\ utf8_valid i = true) /\
  (forall d, desc_str head = Some (Some d) -> desc_bytes head = Some d /\ utf8_valid d = true) /\
  (desc_str head = None <-> desc_bytes head = None).
Proof. exact text_accessors. Qed.
Print Assumptions C13_text_accessors.

(** FASTQ: with the four offsets in order inside the buffer all three
    accessors succeed, return the trimmed slices, and the owned record is the
    triple of them. *)
Theorem C13_fq_views : forall r, FqRecWf r ->
  fq_head r = Some (trim_cr (sub (qrbuf r) (r0 r + 1) (rseq r - 1))) /\
  fq_seq r = Some (trim_cr (sub (qrbuf r) (rseq r) (rsep r - 1))) /\
  fq_qual r = Some (trim_cr (sub (qrbuf r) (rqual r) (r1 r))) /\
  exists h s q, fq_head r = Some h /\ fq_seq r = Some s /\ fq_qual r = Some q /\
                fq_to_owned r = Some (h, s, q).
Proof. exact fq_views. Qed.
Print Assumptions C13_fq_views.

(* ------------------------------------------------------------------ *)
(** Non-vacuity. *)

(** ">id x\nAC\r\nGT\n\nA\n": four lines, one with CR LF, one empty. *)
Example C13_example_fa :
  let r := mkFaRec [62;105;100;32;120;10;65;67;13;10;71;84;10;10;65;10] 0 [5;9;12;13;15] in
  FaRecWf r /\ FaRecLf r /\
  fa_head r = Some [105;100;32;120] /\
  fa_lines r = Some [[65;67];[71;84];[];[65]] /\
  fa_seq_raw r = Some [65;67;13;10;71;84;10;10;65] /\
  fa_num_seq_lines r = Some 4 /\
  fa_full_seq r = Some (false, [65;67;71;84;65]) /\
  fa_to_owned r = Some ([105;100;32;120], [65;67;71;84;65]) /\
  exists s, fa_seq_lines r = Some s /\
    sl_drain_back 5 s = Some [[65];[];[71;84];[65;67]] /\
    sl_collect s [DFront; DBack; DFront; DBack] = Some ([[65;67];[71;84]], [[65];[]]).
Proof.
  split; [apply fa_rec_wf_b_sound; vm_compute; reflexivity|].
  split; [apply fa_rec_lf_b_sound; vm_compute; reflexivity|].
  vm_compute. repeat (split; [reflexivity|]). eexists. repeat split.
Qed.

(** ">a\nAC\r\n": a single line, borrowed; and the last line without LF but with CR. *)
Example C13_example_fa_single :
  let r := mkFaRec [62;97;10;65;67;13;10] 0 [2;6] in
  FaRecLf r /\ fa_full_seq r = Some (true, [65;67]) /\ fa_seq_raw r = Some [65;67] /\
  let r' := mkFaRec [62;97;10;65;67;13] 0 [2;6] in
  FaRecLf r' /\ fa_full_seq r' = Some (true, [65;67]) /\ rseqpos r' = 2 :: 6 :: [].
Proof.
  split; [apply fa_rec_lf_b_sound; vm_compute; reflexivity|].
  split; [vm_compute; reflexivity|]. split; [vm_compute; reflexivity|].
  split; [apply fa_rec_lf_b_sound; vm_compute; reflexivity|].
  split; vm_compute; reflexivity.
Qed.

(** "@id\nAC\n+\nII": offsets 0 / 4 / 7 / 9 / 11. *)
Example C13_example_fq :
  let r := mkFqRec [64;105;100;10;65;67;10;43;10;73;73;10] 0 11 4 7 9 in
  FqRecWf r /\ fq_to_owned r = Some ([105;100], [65;67], [73;73]).
Proof. split; [unfold FqRecWf; cbn; lia | vm_compute; reflexivity]. Qed.

(** headers: "id x y" (valid), [255] SP "A" (invalid id, valid description),
    "é" cut by the separator position is impossible: "Ã" SP "©" is invalid on both sides. *)
Example C13_example_text :
  id_desc_str [105;100;32;120;32;121] = Some ([105;100], Some [120;32;121]) /\
  id_str [255;32;65] = None /\ desc_str [255;32;65] = Some (Some [65]) /\
  id_desc_str [255;32;65] = None /\
  utf8_valid [195;169] = true /\ utf8_valid ([195] ++ [32] ++ [169]) = false /\
  (32 <= 127).
Proof. vm_compute. repeat split; try reflexivity. lia. Qed.
