(** C14 — Source errors surface unchanged; interrupted reads are invisible.

    Structural part: theorems about the refill loop and about every entry point
    of BOTH reader models that hold in EVERY reader state (also states left
    behind by earlier errors), for every fuel, policy, capacity, input and
    read/seek fault script.  No refinement invariant is assumed.
    ("Records returned before the failure are the leading records of the
    input" is the refinement part: C01/C02/C03 for the fault-free prefix.)
    Statements only; proofs are in Proofs/TraceP.v, FaTraceP.v, FqTraceP.v, FaultP.v.

    Vocabulary (Proofs/TraceP.v, Proofs/FaultP.v):
    - [new_events new old]: the events in front of [old] in the log [new] (newest first);
    - [ev_fail e = Some k]: [e] is a failed read [EvRead _ (RFailed k)] or a
      failed seek [EvSeek _ (Some k)];
    - [ErrorSurfaces old new o io]: see [C14_error_surfaces_meaning]. *)
From SeqIO Require Import Model.Base Model.Fasta Model.Fastq
     Proofs.TraceP Proofs.FaTraceP Proofs.FqTraceP Proofs.FaultP.

(** what [ErrorSurfaces] says, spelled out *)
Theorem C14_error_surfaces_meaning : forall (O : Type) (old new : list ev) (o : O) (io : nat -> O),
  ErrorSurfaces old new o io <->
  (let added := new_events new old in
   (* the log was only extended *)
   new = added ++ old /\
   (* a failure of kind k was raised during the call IFF this call returns the I/O error of kind k *)
   (forall k, (exists e, In e added /\ ev_fail e = Some k) <-> o = io k) /\
   (* the failure is the newest event (the source was not touched afterwards) and the only one *)
   (forall e k, In e added -> ev_fail e = Some k ->
      exists rest, added = e :: rest /\ Forall (fun e' => ev_fail e' = None) rest)).
Proof. intros. reflexivity. Qed.
Print Assumptions C14_error_surfaces_meaning.

(** ** the refill loop *)

(** for every fuel, buffer, capacity, source and log: [fill_buf] adds only read
    events; its result is [FillErr k] iff the newest added event is a read that
    failed with kind [k]; a failed read anywhere among the added events forces
    [FillErr] of that kind, is the newest event (no later read happened) and no
    other read of the call failed -- so [FillOk]/[FillFuel] results gain no
    failed read *)
Theorem C14_fill_buf_error_iff_failed_read : forall fuel buf cap s lg nr b s' lg' res,
  fill_buf fuel buf cap s lg nr = (b, s', lg', res) ->
  let added := new_events lg' lg in
  lg' = added ++ lg /\ forallb is_read added = true /\
  (forall k, res = FillErr k <-> exists o rest, added = EvRead o (RFailed k) :: rest) /\
  (forall o k, In (EvRead o (RFailed k)) added ->
     res = FillErr k /\ exists rest, added = EvRead o (RFailed k) :: rest /\
                                      forall o' k', ~ In (EvRead o' (RFailed k')) rest).
Proof. exact fill_buf_fault. Qed.
Print Assumptions C14_fill_buf_error_iff_failed_read.

Example C14_fill_buf_error_example :
  fill_buf 10 [] 4 (mkSource [1;2;3;4;5] 0 [RDeliver 0; RInterrupt; RFailI 2] []) [] 0 =
  ([1], mkSource [1;2;3;4;5] 1 [] [],
   [EvRead 3 (RFailed 2); EvRead 3 RInterrupted; EvRead 4 (RData 1)], FillErr 2).
Proof. vm_compute. reflexivity. Qed.

(** interrupted reads never change what the refill does: on the script with the
    [RInterrupt] items removed ([strip_src]) it produces the same buffer, the
    same source state, the same result (also the same error), and the same log
    up to the interrupted read events ([strip_ev]); with the fuel that always
    suffices the result is never [FillFuel].  Scripts may contain failures. *)
Theorem C14_interrupts_invisible_fill : forall fuel fuel2 buf cap s lg lg2 nr,
  length (s_rs s) + 2 <= fuel -> length (strip_rs (s_rs s)) + 2 <= fuel2 ->
  exists b s' added res,
    fill_buf fuel buf cap s lg nr = (b, s', added ++ lg, res) /\
    fill_buf fuel2 buf cap (strip_src s) lg2 nr = (b, strip_src s', strip_ev added ++ lg2, res) /\
    res <> FillFuel.
Proof. exact fill_buf_interrupts_invisible. Qed.
Print Assumptions C14_interrupts_invisible_fill.

Example C14_interrupts_invisible_example :
  let s := mkSource [1;2;3;4;5] 0 [RInterrupt; RDeliver 0; RInterrupt; RInterrupt; RFailI 2] [] in
  length (s_rs s) + 2 <= 7 /\ length (strip_rs (s_rs s)) + 2 <= 4 /\
  fill_buf 7 [9] 4 s [] 0 =
    ([9;1], mkSource [1;2;3;4;5] 1 [] [],
     [EvRead 2 (RFailed 2); EvRead 2 RInterrupted; EvRead 2 RInterrupted; EvRead 3 (RData 1); EvRead 3 RInterrupted],
     FillErr 2) /\
  fill_buf 4 [9] 4 (strip_src s) [] 0 =
    ([9;1], mkSource [1;2;3;4;5] 1 [] [], [EvRead 2 (RFailed 2); EvRead 3 (RData 1)], FillErr 2).
Proof. vm_compute. repeat split; lia. Qed.

(** ** the six entry points, every state *)

Theorem C14_fa_next_error_surfaces : forall fuel ffuel r r' o,
  fa_next fuel ffuel r = (r', o) ->
  ErrorSurfaces (log r) (log r') o (fun k => OErr (FaIo k)).
Proof. exact fa_next_error_surfaces. Qed.
Print Assumptions C14_fa_next_error_surfaces.

Theorem C14_fa_read_set_error_surfaces : forall fuel ffuel n r rs r' rs' o,
  fa_read_set fuel ffuel n r rs = (r', rs', o) ->
  ErrorSurfaces (log r) (log r') o (fun k => OErr (FaIo k)).
Proof. exact fa_read_set_error_surfaces. Qed.
Print Assumptions C14_fa_read_set_error_surfaces.

Theorem C14_fa_seek_error_surfaces : forall ffuel r line byte_ r' o,
  fa_seek ffuel r line byte_ = (r', o) ->
  ErrorSurfaces (log r) (log r') o (fun k => OErr (FaIo k)).
Proof. exact fa_seek_error_surfaces. Qed.
Print Assumptions C14_fa_seek_error_surfaces.

Theorem C14_fq_next_error_surfaces : forall fuel ffuel r r' o,
  fq_next fuel ffuel r = (r', o) ->
  ErrorSurfaces (qlog r) (qlog r') o (fun k => QOErr (FqIo k)).
Proof. exact fq_next_error_surfaces. Qed.
Print Assumptions C14_fq_next_error_surfaces.

Theorem C14_fq_read_set_error_surfaces : forall fuel ffuel n r rs r' rs' o,
  fq_read_set fuel ffuel n r rs = (r', rs', o) ->
  ErrorSurfaces (qlog r) (qlog r') o (fun k => QOErr (FqIo k)).
Proof. exact fq_read_set_error_surfaces. Qed.
Print Assumptions C14_fq_read_set_error_surfaces.

Theorem C14_fq_seek_error_surfaces : forall ffuel r line byte_ r' o,
  fq_seek ffuel r line byte_ = (r', o) ->
  ErrorSurfaces (qlog r) (qlog r') o (fun k => QOErr (FqIo k)).
Proof. exact fq_seek_error_surfaces. Qed.
Print Assumptions C14_fq_seek_error_surfaces.

(** readable consequences (any outcome type [O], any of the six calls):
    a failed read / a failed seek during the call forces the I/O-error outcome
    of the same kind -- hence not end of input, not a format or truncation
    error, not a record *)
Theorem C14_failed_read_is_returned : forall (O : Type) old new (o : O) io off k,
  ErrorSurfaces old new o io -> In (EvRead off (RFailed k)) (new_events new old) -> o = io k.
Proof. exact @ErrorSurfaces_read. Qed.
Print Assumptions C14_failed_read_is_returned.

Theorem C14_failed_seek_is_returned : forall (O : Type) old new (o : O) io tgt k,
  ErrorSurfaces old new o io -> In (EvSeek tgt (Some k)) (new_events new old) -> o = io k.
Proof. exact @ErrorSurfaces_seek. Qed.
Print Assumptions C14_failed_seek_is_returned.

(** conversely an I/O-error outcome exhibits the failure, of the same kind, as
    the newest event of the call, and nothing else failed in the call *)
Theorem C14_io_error_has_its_failure : forall (O : Type) old new (o : O) io k,
  ErrorSurfaces old new o io -> o = io k ->
  exists e rest, new = e :: rest ++ old /\ ev_fail e = Some k /\ Forall (fun e' => ev_fail e' = None) rest.
Proof. exact @ErrorSurfaces_io. Qed.
Print Assumptions C14_io_error_has_its_failure.

(** ** non-vacuity: faults really occur and really surface *)

(** [c14_fa_reader] (Proofs/FaultP.v): input ">a\nACGT\n>b\nGG\n", capacity 4, StdPolicy,
    read script [Deliver 3; Interrupt; Deliver 0; Fail 7; Deliver 5], seek script [Fail 9] *)

(** the fourth read fails with kind 7 in the middle of the first record: the
    call returns Io 7 (not a record, not end of input); the interrupted read
    before it left no trace in the outcome *)
Example C14_fa_next_example :
  let c1 := fa_next 30 30 c14_fa_reader in
  snd c1 = OErr (FaIo 7) /\
  new_events (log (fst c1)) (log c14_fa_reader) =
    [EvRead 3 (RFailed 7); EvRead 4 (RData 1); EvRead 4 RInterrupted; EvGrow 4 (Some 8); EvRead 4 (RData 4)].
Proof. vm_compute. split; reflexivity. Qed.

Example C14_fa_read_set_example :
  let c1 := fa_read_set 30 30 None c14_fa_reader fa_set_empty in
  snd c1 = OErr (FaIo 7) /\
  hd_error (new_events (log (fst (fst c1))) (log c14_fa_reader)) = Some (EvRead 3 (RFailed 7)).
Proof. vm_compute. split; reflexivity. Qed.

(** a failing seek (kind 9) after three further calls (the reader state is the
    one left behind by the I/O error and the retries) *)
Example C14_fa_seek_example :
  let r3 := fst (fa_next 30 30 (fst (fa_next 30 30 (fst (fa_next 30 30 c14_fa_reader))))) in
  let c := fa_seek 30 r3 1 100 in
  snd c = OErr (FaIo 9) /\ new_events (log (fst c)) (log r3) = [EvSeek 100 (Some 9)].
Proof. vm_compute. split; reflexivity. Qed.

(** [c14_fq_reader]: input "@a\nAC\n+\nII\n@b\nG\n+\nI\n", capacity 5, policy +4 up to 12,
    read script [Deliver 4; Deliver 2; Fail 3], seek script [Fail 9] *)

Example C14_fq_next_example :
  let c1 := fq_next 30 30 c14_fq_reader in
  snd c1 = QOErr (FqIo 3) /\
  new_events (qlog (fst c1)) (qlog c14_fq_reader) =
    [EvRead 1 (RFailed 3); EvRead 4 (RData 3); EvGrow 5 (Some 9); EvRead 5 (RData 5)].
Proof. vm_compute. split; reflexivity. Qed.

Example C14_fq_read_set_example :
  let c1 := fq_read_set 30 30 None c14_fq_reader fq_set_empty in
  snd c1 = QOErr (FqIo 3) /\
  hd_error (new_events (qlog (fst (fst c1))) (qlog c14_fq_reader)) = Some (EvRead 1 (RFailed 3)).
Proof. vm_compute. split; reflexivity. Qed.

Example C14_fq_seek_example :
  let r1 := fst (fq_next 30 30 c14_fq_reader) in
  let c := fq_seek 30 r1 5 200 in
  snd c = QOErr (FqIo 9) /\ new_events (qlog (fst c)) (qlog r1) = [EvSeek 200 (Some 9)].
Proof. vm_compute. split; reflexivity. Qed.
