(** C14 (continued) — interrupted reads are invisible at the level of the readers.

    [fa_strip r] / [fq_strip r] is the reader state [r] over the source whose read script
    has the [RInterrupt] items removed (and with the interrupted read events removed from
    the log); [fa_strip (fa_new c s p) = fa_new c (strip_src s) p].  Every entry point run
    from the stripped state returns the SAME outcome (record, record set, error, end of
    input) and the stripped successor state: by induction over a history, a source with
    interrupted reads and the same source without them are indistinguishable call by
    call.  For EVERY reader state, policy, capacity, input and script -- also scripts with
    read and seek failures.  Hypothesis: the refill fuel covers the remaining read script
    ([FuelOk ffuel r := length (s_rs (src r)) + 2 <= ffuel]), which is then also true of
    the successor state.  Statements only; proofs in Proofs/InterruptP.v, FqInterruptP.v. *)
From SeqIO Require Import Model.Base Model.Fasta Model.Fastq Proofs.FaultP Proofs.InterruptP Proofs.FqInterruptP.

Theorem C14_fa_strip_new : forall c s p, fa_strip (fa_new c s p) = fa_new c (strip_src s) p.
Proof. exact fa_strip_new. Qed.
Print Assumptions C14_fa_strip_new.

Theorem C14_fa_next_interrupts_invisible : forall fuel ffuel r, FuelOk ffuel r ->
  fa_next fuel ffuel (fa_strip r) = (fa_strip (fst (fa_next fuel ffuel r)), snd (fa_next fuel ffuel r)) /\
  FuelOk ffuel (fst (fa_next fuel ffuel r)).
Proof. exact fa_next_strip. Qed.
Print Assumptions C14_fa_next_interrupts_invisible.

Theorem C14_fa_read_set_interrupts_invisible : forall fuel ffuel n r rs, FuelOk ffuel r ->
  let x := fa_read_set fuel ffuel n r rs in
  fa_read_set fuel ffuel n (fa_strip r) rs = (fa_strip (fst (fst x)), snd (fst x), snd x) /\
  FuelOk ffuel (fst (fst x)).
Proof. exact fa_read_set_strip. Qed.
Print Assumptions C14_fa_read_set_interrupts_invisible.

Theorem C14_fa_seek_interrupts_invisible : forall ffuel r line byte_, FuelOk ffuel r ->
  fa_seek ffuel (fa_strip r) line byte_ =
    (fa_strip (fst (fa_seek ffuel r line byte_)), snd (fa_seek ffuel r line byte_)) /\
  FuelOk ffuel (fst (fa_seek ffuel r line byte_)).
Proof. exact fa_seek_strip. Qed.
Print Assumptions C14_fa_seek_interrupts_invisible.

Theorem C14_fq_strip_new : forall c s p, fq_strip (fq_new c s p) = fq_new c (strip_src s) p.
Proof. exact fq_strip_new. Qed.
Print Assumptions C14_fq_strip_new.

Theorem C14_fq_next_interrupts_invisible : forall fuel ffuel r, QFuelOk ffuel r ->
  fq_next fuel ffuel (fq_strip r) = (fq_strip (fst (fq_next fuel ffuel r)), snd (fq_next fuel ffuel r)) /\
  QFuelOk ffuel (fst (fq_next fuel ffuel r)).
Proof. exact fq_next_strip. Qed.
Print Assumptions C14_fq_next_interrupts_invisible.

Theorem C14_fq_read_set_interrupts_invisible : forall fuel ffuel n r rs, QFuelOk ffuel r ->
  let x := fq_read_set fuel ffuel n r rs in
  fq_read_set fuel ffuel n (fq_strip r) rs = (fq_strip (fst (fst x)), snd (fst x), snd x) /\
  QFuelOk ffuel (fst (fst x)).
Proof. exact fq_read_set_strip. Qed.
Print Assumptions C14_fq_read_set_interrupts_invisible.

Theorem C14_fq_seek_interrupts_invisible : forall ffuel r line byte_, QFuelOk ffuel r ->
  fq_seek ffuel (fq_strip r) line byte_ =
    (fq_strip (fst (fq_seek ffuel r line byte_)), snd (fq_seek ffuel r line byte_)) /\
  QFuelOk ffuel (fst (fq_seek ffuel r line byte_)).
Proof. exact fq_seek_strip. Qed.
Print Assumptions C14_fq_seek_interrupts_invisible.

(** non-vacuity: the script of [c14_fa_reader] has an interrupted read (and a failing one);
    the reader over the stripped script returns the same outcomes call by call *)
Example C14_interrupts_invisible_example :
  FuelOk 30 c14_fa_reader /\
  s_rs (src c14_fa_reader) = [RDeliver 3; RInterrupt; RDeliver 0; RFailI 7; RDeliver 5] /\
  s_rs (src (fa_strip c14_fa_reader)) = [RDeliver 3; RDeliver 0; RFailI 7; RDeliver 5] /\
  let a1 := fa_next 30 30 c14_fa_reader in let b1 := fa_next 30 30 (fa_strip c14_fa_reader) in
  let a2 := fa_next 30 30 (fst a1) in let b2 := fa_next 30 30 (fst b1) in
  snd a1 = OErr (FaIo 7) /\ snd b1 = snd a1 /\ snd b2 = snd a2 /\ snd a2 = ONone.
Proof.
  split; [unfold FuelOk; cbn; lia|]. vm_compute. repeat split; reflexivity.
Qed.

Example C14_fq_interrupts_invisible_example :
  let r := fq_new 5 (mkSource c14_fq_input 0 [RInterrupt; RDeliver 4; RInterrupt; RInterrupt; RDeliver 2] []) pol_std in
  QFuelOk 30 r /\
  snd (fq_next 30 30 (fq_strip r)) = snd (fq_next 30 30 r) /\ (exists rc, snd (fq_next 30 30 r) = QORec rc) /\
  snd (fq_read_set 30 30 None (fq_strip r) fq_set_empty) = snd (fq_read_set 30 30 None r fq_set_empty).
Proof.
  split; [unfold QFuelOk; cbn; lia|]. vm_compute. repeat split; try reflexivity. eexists; reflexivity.
Qed.
