(** C14 (continued) — "All records returned before the failure are exactly the leading
    records of the input."  FASTA part.  Statements only; proofs in Proofs/FaPrefixP.v.

    The byte source is driven by a read script and a seek script (Model/Base.v); an
    [RFailI k] / [SFailI k] item makes the read / seek call that consumes it fail with
    I/O error kind [k].  [src_cut s0 s] says that [s0] is the source [s] with both scripts
    CUT just before a failure item: same data, same position, [s_rs s = s_rs s0 ++ rt]
    where [rt] is empty or starts with a failure ([rtail_ok]), and the same for the seek
    script ([stail_ok]).  An exhausted script delivers everything that fits and lets every
    seek succeed, so [s0] is "the same source without the failure".  [fa_cut r0 r] says
    that [r] is exactly the reader state [r0] (buffer, capacity, offsets, position, state
    flag, policy and its history, event log) over such a source.  Note that [rt] need not
    be cut at the FIRST failure of the script: the theorems hold for every cut point (if
    [s_rs s0] itself contains failures, both runs fail alike).

    [C14_fa_calls_before_failure]: for EVERY pair of related reader states, every fuel,
    capacity and policy, every entry point ([next], [read_record_set(_exact)], [seek])
    run on both sides either returns the SAME outcome (record, filled record set, end of
    input, parse error, ...) and leaves related states — or the run over the failing
    source returns an I/O error ([is_io]); [set_policy] preserves the relation and
    [position()] agrees.  No hypothesis on fuel: both sides take the same steps.
    By induction over a history ([C14_fa_history_before_failure]): the observations of a
    history over the scripts [rs1 ++ rt], [sks1 ++ st_] agree with the observations of
    the same history over the cut scripts [rs1], [sks1] on the first [j] operations, and
    either [j] is the whole history or observation [j] is an I/O error (so the prefix
    ends at the first I/O error that the cut run does not have).
    [C14_fa_records_before_failure]: when the cut scripts are fault-free (the hypotheses
    of C04, Props/C04fa.v), that common prefix is a run of the abstract cursor machine
    (Spec/Cursor.v) over the specification stream of the input: every record returned
    before the I/O error is the next leading record of [fa_spec inp], once, in order.

    No deviation from the target statements. *)
From SeqIO Require Import Model.Base Model.Fasta Model.Views Spec.FastaSpec Spec.Cursor
     Proofs.Window Proofs.FastaInv Proofs.FastaStream Proofs.FastaNextP Proofs.FastaTopP
     Proofs.FastaSetP Proofs.FastaSeekP Proofs.FastaHistP Proofs.FaPrefixP.

Theorem C14_fa_calls_before_failure :
  (forall fuel ffuel r0 r r0' o0 r' o, fa_cut r0 r ->
     fa_next fuel ffuel r0 = (r0', o0) -> fa_next fuel ffuel r = (r', o) ->
     (o = o0 /\ fa_cut r0' r') \/ is_io o) /\
  (forall fuel ffuel n r0 r rs r0' rs0' o0 r' rs' o, fa_cut r0 r ->
     fa_read_set fuel ffuel n r0 rs = (r0', rs0', o0) -> fa_read_set fuel ffuel n r rs = (r', rs', o) ->
     (o = o0 /\ rs' = rs0' /\ fa_cut r0' r') \/ is_io o) /\
  (forall ffuel r0 r line byte_ r0' o0 r' o, fa_cut r0 r ->
     fa_seek ffuel r0 line byte_ = (r0', o0) -> fa_seek ffuel r line byte_ = (r', o) ->
     (o = o0 /\ fa_cut r0' r') \/ is_io o) /\
  (forall r0 r p, fa_cut r0 r -> fa_cut (fa_set_policy r0 p) (fa_set_policy r p)) /\
  (forall r0 r, fa_cut r0 r -> fa_position r = fa_position r0).
Proof. exact fa_calls_before_failure. Qed.
Print Assumptions C14_fa_calls_before_failure.

Theorem C14_fa_history_before_failure : forall inp cap0 rs1 rt sks1 st_ pol fuel ffuel tgt ops,
  rtail_ok rt -> stail_ok st_ ->
  let obs  := fst (fa_hist fuel ffuel tgt ops (h_init inp cap0 (rs1 ++ rt) (sks1 ++ st_) pol)) in
  let obs0 := fst (fa_hist fuel ffuel tgt ops (h_init inp cap0 rs1 sks1 pol)) in
  exists j, j <= length ops /\ firstn j obs = firstn j obs0 /\
            (j = length ops \/ exists k p, nth_error obs j = Some (HoErr (FaIo k), p)).
Proof. exact fa_history_before_failure. Qed.
Print Assumptions C14_fa_history_before_failure.

(** the observations before the first I/O error are a run of the cursor machine over the specification stream:
    "all records returned before the failure are exactly the leading records of the input" *)
Theorem C14_fa_records_before_failure : forall inp cap0 rs1 rt sks1 st_ pol fuel ffuel ops,
  3 <= cap0 -> forallb item_ok rs1 = true -> forallb sitem_ok sks1 = true -> PolOk pol ->
  rtail_ok rt -> stail_ok st_ ->
  length rs1 + 2 <= ffuel -> length inp + 2 <= fuel -> Forall hop_ok ops ->
  let obs := fst (fa_hist fuel ffuel (tgt_spec inp) ops (h_init inp cap0 (rs1 ++ rt) (sks1 ++ st_) pol)) in
  exists j items c' g',
    j <= length ops /\
    (j = length ops \/ exists k p, nth_error obs j = Some (HoErr (FaIo k), p)) /\
    FaOSpec inp items /\ Forall2 (item_rel inp) items (fa_spec inp) /\
    hrun_ok inp (map to_citem items) (CAt 0) ([], []) (firstn j ops) (firstn j obs) c' g'.
Proof. exact fa_records_before_failure. Qed.
Print Assumptions C14_fa_records_before_failure.

(* ------------------------------------------------------------------ *)
(** non-vacuity *)

(** a fresh reader over a failing script is related to the fresh reader over the cut script *)
Example C14p_new_related : forall inp cap0 rs1 rt sks1 st_ pol, rtail_ok rt -> stail_ok st_ ->
  fa_cut (fa_new cap0 (mkSource inp 0 rs1 sks1) pol) (fa_new cap0 (mkSource inp 0 (rs1 ++ rt) (sks1 ++ st_)) pol).
Proof. intros inp cap0 rs1 rt sks1 st_ pol Hrt Hst. exact (proj1 (h_init_cut inp cap0 rs1 rt sks1 st_ pol Hrt Hst)). Qed.

(** three records (">a\nAC\n>b\nG\n>c\nTT\nA\n"), capacity 4, read script
    [RDeliver 2; RDeliver 0; RFailI 7; RDeliver 1] (cut: the first two items), four [next()]:
    the first two reads fill the 4-byte buffer with ">a\nA", the record is incomplete, the
    buffer grows and the refill hits the failure: the very first call returns the I/O error
    (the common prefix is empty, j = 0), while the cut run returns the three records *)
Example C14p_example_first_call :
  let inp := [62; 97; 10; 65; 67; 10; 62; 98; 10; 71; 10; 62; 99; 10; 84; 84; 10; 65; 10] in
  let ops := [HNext; HNext; HNext; HNext] in
  map fst (fst (fa_hist 21 9 (tgt_spec inp) ops (h_init inp 4 ([RDeliver 2; RDeliver 0] ++ [RFailI 7; RDeliver 1]) [] pol_std)))
  = [HoErr (FaIo 7); HoEnd; HoEnd; HoEnd] /\
  map hist_show (fst (fa_hist 21 9 (tgt_spec inp) ops (h_init inp 4 [RDeliver 2; RDeliver 0] [] pol_std)))
  = [ ([(Some [97], Some [[65; 67]])], 2, Some (1, 0));
      ([(Some [98], Some [[71]])], 2, Some (3, 6));
      ([(Some [99], Some [[84; 84]; [65]])], 2, Some (5, 11));
      ([], 0, Some (5, 11)) ].
Proof. split; vm_compute; reflexivity. Qed.

(** the same input and capacity, three full reads before the failure: the first two calls
    return the records a and b (the same observations as the cut run, which goes on to
    return c and the end of input), the third call returns the I/O error: j = 2 *)
Example C14p_example_records_then_error :
  let inp := [62; 97; 10; 65; 67; 10; 62; 98; 10; 71; 10; 62; 99; 10; 84; 84; 10; 65; 10] in
  let ops := [HNext; HNext; HNext; HNext] in
  let obs := fst (fa_hist 21 9 (tgt_spec inp) ops
                  (h_init inp 4 ([RDeliver 5; RDeliver 5; RDeliver 5] ++ [RFailI 7; RDeliver 1]) [] pol_std)) in
  let obs0 := fst (fa_hist 21 9 (tgt_spec inp) ops (h_init inp 4 [RDeliver 5; RDeliver 5; RDeliver 5] [] pol_std)) in
  map hist_show (firstn 2 obs) = [ ([(Some [97], Some [[65; 67]])], 2, Some (1, 0));
                                   ([(Some [98], Some [[71]])], 2, Some (3, 6)) ] /\
  firstn 2 obs = firstn 2 obs0 /\
  nth_error obs 2 = Some (HoErr (FaIo 7), None) /\
  map hist_show (skipn 2 obs0) = [ ([(Some [99], Some [[84; 84]; [65]])], 2, Some (5, 11)); ([], 0, Some (5, 11)) ] /\
  fa_spec inp = [SRec (mkFaItem [97] [[65; 67]] 1 0); SRec (mkFaItem [98] [[71]] 3 6);
                 SRec (mkFaItem [99] [[84; 84]; [65]] 5 11)].
Proof. vm_compute. auto 10. Qed.

(** record sets and a failing seek: the set read returns the first batch, the seek to
    record 2 leaves the buffer and consumes the failing seek item *)
Example C14p_example_seek_failure :
  let inp := [62; 97; 10; 65; 67; 10; 62; 98; 10; 71; 10; 62; 99; 10; 84; 84; 10; 65; 10] in
  let ops := [HSet 0; HSeek 2; HNext] in
  let obs := fst (fa_hist 21 9 (tgt_spec inp) ops (h_init inp 8 [] ([] ++ [SFailI 5]) pol_std)) in
  let obs0 := fst (fa_hist 21 9 (tgt_spec inp) ops (h_init inp 8 [] [] pol_std)) in
  firstn 1 obs = firstn 1 obs0 /\
  map hist_show (firstn 1 obs) = [ ([(Some [97], Some [[65; 67]])], 4, None) ] /\
  map fst (skipn 1 obs) = [HoErr (FaIo 5); HoRec (mkFaRec [62; 98; 10; 71; 10; 62; 99; 10] 0 [2; 4])] /\
  map hist_show (skipn 1 obs0) = [ ([], 1, None); ([(Some [99], Some [[84; 84]; [65]])], 2, Some (5, 11)) ].
Proof. vm_compute. auto 10. Qed.

(** the relation holds between two non-trivial states: the readers after the first record,
    in the middle of the input, one over the failing script and one over the cut script *)
Example C14p_related_mid_input :
  let inp := [62; 97; 10; 65; 67; 10; 62; 98; 10; 71; 10; 62; 99; 10; 84; 84; 10; 65; 10] in
  let r0 := fst (fa_next 21 9 (fa_new 4 (mkSource inp 0 [RDeliver 5; RDeliver 5; RDeliver 5] []) pol_std)) in
  let r := fst (fa_next 21 9 (fa_new 4 (mkSource inp 0 ([RDeliver 5; RDeliver 5; RDeliver 5] ++ [RFailI 7; RDeliver 1]) []) pol_std)) in
  fa_cut r0 r /\ st r0 = FParsing /\ buf r0 = [62; 97; 10; 65; 67; 10; 62; 98] /\ s_pos (src r0) = 8 /\
  s_rs (src r0) = [RDeliver 5] /\ s_rs (src r) = [RDeliver 5; RFailI 7; RDeliver 1].
Proof.
  intros inp r0 r. split; [|vm_compute; auto 10].
  assert (Hnew : fa_cut (fa_new 4 (mkSource inp 0 [RDeliver 5; RDeliver 5; RDeliver 5] []) pol_std)
                        (fa_new 4 (mkSource inp 0 ([RDeliver 5; RDeliver 5; RDeliver 5] ++ [RFailI 7; RDeliver 1]) ([] ++ [])) pol_std))
    by (apply (proj1 (h_init_cut inp 4 [RDeliver 5; RDeliver 5; RDeliver 5] [RFailI 7; RDeliver 1] [] [] pol_std I I))).
  destruct (proj1 C14_fa_calls_before_failure 21 9 _ _ _ _ _ _ Hnew (surjective_pairing _) (surjective_pairing _))
    as [(_ & H)|(k & Hk)].
  - exact H.
  - exfalso. vm_compute in Hk. discriminate Hk.
Qed.

(** all hypotheses of [C14_fa_records_before_failure] hold for the configurations above
    (default policy: [PolOk_std]), so its conclusion is inhabited *)
Example C14p_hypotheses_satisfiable :
  let inp := [62; 97; 10; 65; 67; 10; 62; 98; 10; 71; 10; 62; 99; 10; 84; 84; 10; 65; 10] in
  let ops := [HNext; HNext; HNext; HNext] in
  let obs := fst (fa_hist 21 9 (tgt_spec inp) ops
                  (h_init inp 4 ([RDeliver 2; RDeliver 0] ++ [RFailI 7; RDeliver 1]) ([] ++ []) pol_std)) in
  exists j items c' g',
    j <= length ops /\
    (j = length ops \/ exists k p, nth_error obs j = Some (HoErr (FaIo k), p)) /\
    FaOSpec inp items /\ Forall2 (item_rel inp) items (fa_spec inp) /\
    hrun_ok inp (map to_citem items) (CAt 0) ([], []) (firstn j ops) (firstn j obs) c' g'.
Proof.
  apply C14_fa_records_before_failure;
    [lia | reflexivity | reflexivity | exact PolOk_std | exact I | exact I | cbn; lia | cbn; lia | repeat constructor].
Qed.

Example C14p_hypotheses_satisfiable_2 :
  let inp := [62; 97; 10; 65; 67; 10; 62; 98; 10; 71; 10; 62; 99; 10; 84; 84; 10; 65; 10] in
  let ops := [HSet 0; HNext; HSeek 0; HSetExact 1 2; HOwned] in
  let obs := fst (fa_hist 21 9 (tgt_spec inp) ops
                  (h_init inp 4 ([RDeliver 5; RDeliver 5; RDeliver 5] ++ [RFailI 7; RDeliver 1]) ([SOk] ++ [SFailI 3]) pol_std)) in
  exists j items c' g',
    j <= length ops /\
    (j = length ops \/ exists k p, nth_error obs j = Some (HoErr (FaIo k), p)) /\
    FaOSpec inp items /\ Forall2 (item_rel inp) items (fa_spec inp) /\
    hrun_ok inp (map to_citem items) (CAt 0) ([], []) (firstn j ops) (firstn j obs) c' g'.
Proof.
  apply C14_fa_records_before_failure;
    [lia | reflexivity | reflexivity | exact PolOk_std | exact I | exact I | cbn; lia | cbn; lia | repeat constructor].
Qed.
