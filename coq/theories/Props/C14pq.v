(** C14 (FASTQ, continued) — "All records returned before the failure are exactly the leading
    records of the input."

    What is proved, in plain words.  Take a FASTQ reader over a source whose read script
    and/or seek script contains a failure ([RFailI k] / [SFailI k]), and the SAME reader over
    the source whose scripts are cut just before that failure (a cut script behaves like a
    fault-free source: once exhausted it delivers everything that fits / every seek
    succeeds).  Then the two runs are IDENTICAL call by call -- same outcome (record, record
    set, end of input, format error, ...), same record set contents, same successor state up
    to the source, same [position()] -- until the call of the faulty run that returns the I/O
    error [QOErr (FqIo k)].  No hypothesis on fuel, capacity, policy, reader state or input:
    both sides run with the same fuel and take the same steps until the failure.

    [rtail_ok rt] / [stail_ok st_]   the part cut off a script is empty or starts with a failure;
    [src_cut s0 s]                   [s0] is [s] with both scripts cut: same data, same position,
                                     [s_rs s = s_rs s0 ++ rt], [s_ss s = s_ss s0 ++ st_];
    [fq_cut r0 r]                    [r0] is the reader state [r] (buffer, offsets, position,
                                     state flag, policy, log) over the cut source;
    [is_qio o]                       [o] is an I/O error [QOErr (FqIo k)].
    (Definitions in Proofs/FqPrefixP.v.  [src_cut] does not even require the cut scripts to be
    failure-free: a failure they still contain is met by both runs in the same way.)

    [C14_fq_calls_before_failure]    the entry points [fq_next], [fq_read_set], [fq_seek],
                                     [fq_set_policy], [fq_position]: equal outcome and related
                                     successor states, or the faulty run returned an I/O error.
    [C14_fq_history_before_failure]  histories ([fq_hrun] of Proofs/FastqHistP.v) from a fresh
                                     reader: the observations of the faulty run and of the cut
                                     run agree on the first [j] operations, and either [j] is the
                                     whole history or observation [j] of the faulty run is the
                                     I/O error ([fq_hstep] shows a failing read call as
                                     [OErr (FqIo k)] and a failing seek as [OBad (QOErr (FqIo k))]).
    [C14_fq_records_before_failure]  with the hypotheses of [C04q_history_refines_cursor] on the
                                     CUT configuration (capacity >= 1, cut scripts fault-free,
                                     policy grants more, enough fuel, exact counts >= 1, seeks to
                                     items): the observations before the first I/O error are
                                     those of a run of the abstract cursor machine
                                     (Spec/CursorQ.v) over the specification stream
                                     [fq_spec_all inp] on the first [j] operations -- i.e. the
                                     records returned before the failure are the leading records
                                     of the input, each exactly once, in order.

    The statements are the targets of the task, unchanged; no extra hypothesis was needed.
    Statements only; proofs in Proofs/FqPrefixP.v. *)
From SeqIO Require Import Model.Base Model.Fastq Model.Views Spec.FastaSpec Spec.FastqSpec Spec.CursorQ
  Proofs.Window Proofs.FastaInv Proofs.FastqInv Proofs.FastqNextP Proofs.FastqSetP Proofs.FastqSeekP
  Proofs.CursorP Proofs.CursorBridgeP Proofs.FastqHistP Proofs.FastqHistEx Proofs.FqPrefixP.

Theorem C14_fq_calls_before_failure :
  (forall fuel ffuel r0 r r0' o0 r' o, fq_cut r0 r ->
     fq_next fuel ffuel r0 = (r0', o0) -> fq_next fuel ffuel r = (r', o) ->
     (o = o0 /\ fq_cut r0' r') \/ is_qio o) /\
  (forall fuel ffuel n r0 r rs r0' rs0' o0 r' rs' o, fq_cut r0 r ->
     fq_read_set fuel ffuel n r0 rs = (r0', rs0', o0) -> fq_read_set fuel ffuel n r rs = (r', rs', o) ->
     (o = o0 /\ rs' = rs0' /\ fq_cut r0' r') \/ is_qio o) /\
  (forall ffuel r0 r line byte_ r0' o0 r' o, fq_cut r0 r ->
     fq_seek ffuel r0 line byte_ = (r0', o0) -> fq_seek ffuel r line byte_ = (r', o) ->
     (o = o0 /\ fq_cut r0' r') \/ is_qio o) /\
  (forall r0 r p, fq_cut r0 r -> fq_cut (fq_set_policy r0 p) (fq_set_policy r p)) /\
  (forall r0 r, fq_cut r0 r -> fq_position r = fq_position r0).
Proof. exact fq_calls_before_failure. Qed.
Print Assumptions C14_fq_calls_before_failure.

(** non-vacuity: a fresh reader (capacity 4, which every record outgrows) over the 3-record
    input [c04_inp] with a read script that fails at its 5th item, and the same reader over
    the script cut before the failure.  The first call returns the same record on both sides
    and related successor states; the second call of the faulty run returns the I/O error
    while the cut run returns the second record. *)
Example C14_fq_calls_before_failure_nonvacuous :
  let r0 := fq_new 4 (mkSource c04_inp 0 [RDeliver 2; RDeliver 0; RDeliver 3; RDeliver 7] []) pol_std in
  let r  := fq_new 4 (mkSource c04_inp 0 [RDeliver 2; RDeliver 0; RDeliver 3; RDeliver 7; RFailI 7; RDeliver 1] []) pol_std in
  fq_cut r0 r /\
  (exists rc, snd (fq_next 66 50 r0) = QORec rc /\ snd (fq_next 66 50 r) = QORec rc /\
              fq_to_owned rc = Some ([97], [65;67], [73;73])) /\
  fq_cut (fst (fq_next 66 50 r0)) (fst (fq_next 66 50 r)) /\
  snd (fq_next 66 50 (fst (fq_next 66 50 r))) = QOErr (FqIo 7) /\
  is_qio (snd (fq_next 66 50 (fst (fq_next 66 50 r)))) /\
  (exists rc, snd (fq_next 66 50 (fst (fq_next 66 50 r0))) = QORec rc /\ fq_to_owned rc = Some ([98], [71], [73])).
Proof.
  cbv zeta.
  (* no [set]: reader states must not be normalised ([vm_compute] on [pol_std] itself does not terminate in
     reasonable memory), only outcomes are computed *)
  match goal with |- fq_cut ?a0 ?a /\ _ =>
    assert (Hcut : fq_cut a0 a);
    [| assert (Hrec : exists rc, snd (fq_next 66 50 a0) = QORec rc /\ snd (fq_next 66 50 a) = QORec rc /\
                                 fq_to_owned rc = Some ([97], [65;67], [73;73])) ]
  end.
  { split; [reflexivity|]. unfold fq_new, src_cut. cbn [qsrc s_data s_pos s_rs s_ss].
    split; [reflexivity|]. split; [reflexivity|].
    split; [exists [RFailI 7; RDeliver 1] | exists []]; split; [reflexivity | exact I | reflexivity | exact I]. }
  { clear Hcut. eexists. vm_compute. repeat split; reflexivity. }
  split; [exact Hcut|].
  split; [exact Hrec|].
  split.
  { (* by the theorem: the faulty run did not return an I/O error, so the successor states are related *)
    destruct C14_fq_calls_before_failure as (Hnext & _).
    destruct (Hnext 66 50 _ _ _ _ _ _ Hcut (surjective_pairing _) (surjective_pairing _)) as [[_ H]|(k & Hk)];
      [exact H|].
    destruct Hrec as (rc & _ & E & _). rewrite E in Hk. discriminate Hk. }
  clear Hcut Hrec.
  split; [vm_compute; reflexivity|].
  split; [exists 7; vm_compute; reflexivity|].
  eexists. vm_compute. split; reflexivity.
Qed.

Theorem C14_fq_history_before_failure : forall inp cap0 rs1 rt ss1 st_ pol fuel ffuel ops,
  rtail_ok rt -> stail_ok st_ ->
  let obs  := fst (fq_hrun inp fuel ffuel ops (fq_hconf0 cap0 inp (rs1 ++ rt) (ss1 ++ st_) pol)) in
  let obs0 := fst (fq_hrun inp fuel ffuel ops (fq_hconf0 cap0 inp rs1 ss1 pol)) in
  exists j, j <= length ops /\ firstn j obs = firstn j obs0 /\
            (j = length ops \/ exists k, nth_error obs j = Some (OErr (FqIo k)) \/ nth_error obs j = Some (OBad (QOErr (FqIo k)))).
Proof. exact fq_history_before_failure. Qed.
Print Assumptions C14_fq_history_before_failure.

(** non-vacuity ([c04_show]: tag 1 = record, 5 = error, 6 = end, 8 = seek ok, 9 = bad).
    (a) the script of the task, [RDeliver 2; RDeliver 0; RFailI 7; RDeliver 1], capacity 4: the
        two deliveries fill the buffer of 4 bytes, the first record needs a refill, which fails:
        the prefix before the error is empty and observation 0 is [OErr (FqIo 7)], while the cut
        run delivers the three records;
    (b) a failure two refills later: the records a and b are delivered by both runs, observation
        2 of the faulty run is [OErr (FqIo 7)], the cut run goes on to record c;
    (c) a failing seek: [SOk; SFailI 9; SOk] cut to [SOk]: record a, seek ok, record c on both
        sides, then observation 3 of the faulty run is [OBad (QOErr (FqIo 9))]. *)
Example C14_fq_history_before_failure_nonvacuous :
  let ops := [HNext; HNext; HNext; HNext] in
  let run rs ss ops := fst (fq_hrun c04_inp 66 50 ops (fq_hconf0 4 c04_inp rs ss pol_std)) in
  rtail_ok [RFailI 7; RDeliver 1] /\ stail_ok [] /\ stail_ok [SFailI 9; SOk] /\ rtail_ok [] /\
  (* (a) *)
  nth_error (run ([RDeliver 2; RDeliver 0] ++ [RFailI 7; RDeliver 1]) [] ops) 0 = Some (OErr (FqIo 7)) /\
  map c04_show (run [RDeliver 2; RDeliver 0] [] ops) =
    [(1, [Some ([97], [65;67], [73;73])], (0,0)); (1, [Some ([98], [71], [73])], (0,0));
     (1, [Some ([99], [84;84], [74;74])], (0,0)); (6, [], (0,0))] /\
  (* (b) *)
  (let rs1 := [RDeliver 2; RDeliver 0; RDeliver 3; RDeliver 7; RDeliver 5; RDeliver 9] in
   firstn 2 (run (rs1 ++ [RFailI 7; RDeliver 1]) [] ops) = firstn 2 (run rs1 [] ops) /\
   map c04_show (firstn 2 (run (rs1 ++ [RFailI 7; RDeliver 1]) [] ops)) =
     [(1, [Some ([97], [65;67], [73;73])], (0,0)); (1, [Some ([98], [71], [73])], (0,0))] /\
   nth_error (run (rs1 ++ [RFailI 7; RDeliver 1]) [] ops) 2 = Some (OErr (FqIo 7)) /\
   map c04_show (skipn 2 (run rs1 [] ops)) = [(1, [Some ([99], [84;84], [74;74])], (0,0)); (6, [], (0,0))]) /\
  (* (c) *)
  (let ops' := [HNext; HSeek 2; HNext; HSeek 0; HNext] in
   firstn 3 (run [RDeliver 2] ([SOk] ++ [SFailI 9; SOk]) ops') = firstn 3 (run [RDeliver 2] [SOk] ops') /\
   map c04_show (firstn 3 (run [RDeliver 2] ([SOk] ++ [SFailI 9; SOk]) ops')) =
     [(1, [Some ([97], [65;67], [73;73])], (0,0)); (8, [], (0,0)); (1, [Some ([99], [84;84], [74;74])], (0,0))] /\
   nth_error (run [RDeliver 2] ([SOk] ++ [SFailI 9; SOk]) ops') 3 = Some (OBad (QOErr (FqIo 9))) /\
   map c04_show (skipn 3 (run [RDeliver 2] [SOk] ops')) =
     [(8, [], (0,0)); (1, [Some ([97], [65;67], [73;73])], (0,0))]).
Proof.
  cbv zeta. split; [exact I|]. split; [exact I|]. split; [exact I|]. split; [exact I|].
  vm_compute. repeat split; reflexivity.
Qed.

Theorem C14_fq_records_before_failure : forall inp cap0 rs1 rt ss1 st_ pol fuel ffuel ops,
  1 <= cap0 -> forallb item_ok rs1 = true -> forallb sitem_ok ss1 = true -> PolOk1 pol ->
  rtail_ok rt -> stail_ok st_ ->
  length rs1 + 2 <= ffuel -> 2 * length inp + 4 <= fuel -> hist_ok inp ops ->
  let obs := fst (fq_hrun inp fuel ffuel ops (fq_hconf0 cap0 inp (rs1 ++ rt) (ss1 ++ st_) pol)) in
  exists j os h',
    j <= length ops /\
    (j = length ops \/ exists k, nth_error obs j = Some (OErr (FqIo k)) \/ nth_error obs j = Some (OBad (QOErr (FqIo k)))) /\
    hrun fq_sitem fq_is_rec (fq_spec_all inp) h_init (firstn j ops) os h' /\
    Forall2 (obs_match inp) (firstn j obs) os.
Proof. exact fq_records_before_failure. Qed.
Print Assumptions C14_fq_records_before_failure.

(** non-vacuity: the hypotheses hold for the script of the task (and for the longer script of
    (b) above, where two records precede the error), capacity 4, the standard policy, the
    history of four single reads, and for the seek scripts of (c) *)
Example C14_fq_records_before_failure_nonvacuous :
  let ops := [HNext; HNext; HNext; HNext] in
  1 <= 4 /\ forallb item_ok [RDeliver 2; RDeliver 0] = true /\
  forallb item_ok [RDeliver 2; RDeliver 0; RDeliver 3; RDeliver 7; RDeliver 5; RDeliver 9] = true /\
  forallb sitem_ok [] = true /\ forallb sitem_ok [SOk] = true /\ PolOk1 pol_std /\
  rtail_ok [RFailI 7; RDeliver 1] /\ stail_ok [] /\ stail_ok [SFailI 9; SOk] /\
  length [RDeliver 2; RDeliver 0; RDeliver 3; RDeliver 7; RDeliver 5; RDeliver 9] + 2 <= 50 /\
  2 * length c04_inp + 4 <= 66 /\ hist_ok c04_inp ops /\
  hist_ok c04_inp [HNext; HSeek 2; HNext; HSeek 0; HNext] /\
  length (fq_spec_all c04_inp) = 3 /\
  nth_error (fst (fq_hrun c04_inp 66 50 ops
                    (fq_hconf0 4 c04_inp ([RDeliver 2; RDeliver 0] ++ [RFailI 7; RDeliver 1]) ([] ++ []) pol_std))) 0
    = Some (OErr (FqIo 7)).
Proof.
  cbv zeta. split; [lia|]. split; [reflexivity|]. split; [reflexivity|]. split; [reflexivity|].
  split; [reflexivity|]. split; [exact PolOk1_std|]. split; [exact I|]. split; [exact I|]. split; [exact I|].
  split; [cbn [length]; lia|]. split; [cbn [c04_inp length]; lia|].
  split; [repeat constructor|]. split; [repeat constructor; vm_compute; lia|].
  split; vm_compute; reflexivity.
Qed.
