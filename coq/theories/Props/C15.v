(** C15 — Errors reach the caller of the parallel functions.
    Statements only; proofs are in Proofs/ParErr.v (and ParContent.v, ParLive.v).
    For every n >= 1, q >= 1, error index e, consumer behaviour and schedule.
    The model carries no error payload: there is one reader error per run (the script
    ends with it), so "the same error" is "the one MErr message"; that its value is the
    sequential reader's error is C01/C02 (the reader in the real code is the same
    read_record_set). *)
From SeqIO Require Import Model.Par Proofs.ParP Proofs.ParEx Proofs.ParInv Proofs.ParContent Proofs.ParLive Proofs.ParErr.
Require Import List Arith Bool Permutation.
Import ListNotations.

(** the error message is enqueued at most once, only by a script that ends with an
    error; every enqueued error is accounted for: returned by next(), about to be
    returned, still queued, or dropped with the channel after the consumer left *)
Theorem C15_error_once : forall cfg s, wf_config cfg -> reachable cfg s ->
  nerr s <= 1 /\ (nerr s = 1 -> fend cfg = ScriptErr /\ length (filled s) <= nfills cfg) /\
  nerr_seen s + merr_pend (mpc s) + qerrs (doneq s) + nerr_lost s = nerr s.
Proof. exact error_enqueued_at_most_once. Qed.
Print Assumptions C15_error_once.

(** the error is sent only after exactly the e successful fills, and never twice *)
Theorem C15_send_err_at_index : forall cfg s ok s', wf_config cfg -> reachable cfg s ->
  apply cfg s (ESendErr ok) = Some s' ->
  fend cfg = ScriptErr /\ length (filled s) = nfills cfg /\ nerr s = 0.
Proof. exact send_err_only_at_script_end. Qed.
Print Assumptions C15_send_err_at_index.

(** no set with index >= e is ever filled (hence none is created, worked on or delivered) *)
Theorem C15_nothing_past_error : forall cfg s c, wf_config cfg -> reachable cfg s ->
  In c (filled s) -> c < nfills cfg.
Proof. exact filled_below_script. Qed.
Print Assumptions C15_nothing_past_error.

(** a consumer that keeps calling next() until None or until the first Err (Drain, or
    the `result?` consumer of parallel_record_impl!) has, when read_parallel_init
    returns, received the reader's error exactly once; it was enqueued and not lost *)
Theorem C15_error_reaches_consumer : forall cfg s, wf_config cfg -> reachable cfg s ->
  final s = true -> err_waiting cfg -> fend cfg = ScriptErr -> rinit_ok cfg = true ->
  mfail s = false -> nerr_seen s = 1 /\ nerr s = 1 /\ nerr_lost s = 0.
Proof. exact error_seen_once. Qed.
Print Assumptions C15_error_reaches_consumer.

(** the draining consumer moreover receives every set before the error exactly once
    with its result (in any order relative to the error: jobs may still be running
    when the error is sent) *)
Theorem C15_drain_receives_all_before_error : forall cfg s, wf_config cfg -> reachable cfg s ->
  final s = true -> consumer cfg = Drain -> fend cfg = ScriptErr -> rinit_ok cfg = true ->
  mfail s = false ->
  Permutation (delivered s) (map (fun c => (c, work cfg c)) (seq 0 (nfills cfg))) /\
  nerr_seen s = 1.
Proof. exact drain_receives_all_before_error. Qed.
Print Assumptions C15_drain_receives_all_before_error.

(** init closures.  The value returned by read_parallel_init is Ok iff reader_init
    succeeded and no dataset_init call failed; a terminated run ends with that return.
    (That every run terminates, also with failing closures, is C08.) *)
Theorem C15_return_value : forall cfg s ok s', apply cfg s (EReturn ok) = Some s' ->
  ok = rinit_ok cfg && negb (mfail s).
Proof. exact return_value. Qed.
Print Assumptions C15_return_value.

Theorem C15_init_failures : forall cfg evs s, wf_config cfg ->
  run cfg init_state evs = Some s -> final s = true ->
  (rinit_ok cfg = false \/ In (EDatasetInit None) evs) ->
  exists pre, evs = pre ++ [EReturn false].
Proof. exact init_failure_returns_err. Qed.
Print Assumptions C15_init_failures.

Theorem C15_no_failure_returns_ok : forall cfg evs s, wf_config cfg ->
  run cfg init_state evs = Some s -> final s = true ->
  rinit_ok cfg = true -> ~ In (EDatasetInit None) evs ->
  exists pre, evs = pre ++ [EReturn true].
Proof. exact no_failure_returns_ok. Qed.
Print Assumptions C15_no_failure_returns_ok.

(** reader_init failed: every recv of next() finds the channel closed and next()
    returns None (no panic); nothing is read or delivered *)
Theorem C15_reader_init_failure_closed : forall cfg s, wf_config cfg -> reachable cfg s ->
  rinit_ok cfg = false ->
  (forall r s', apply cfg s (EDoneRecv r) = Some s' -> r = RClosed) /\
  (forall r s', apply cfg s (EConsume r) = Some s' -> r = CNone) /\
  delivered s = [] /\ filled s = [] /\ nerr_seen s = 0.
Proof. exact rinit_fail_closed. Qed.
Print Assumptions C15_reader_init_failure_closed.

(** Non-vacuity *)
Example C15_nonvacuous_error :
  wf_config c15_cfg1 /\ err_waiting c15_cfg1 /\ final (end_state c15_cfg1 c15_t1) = true /\
  nerr_seen (end_state c15_cfg1 c15_t1) = 1 /\
  existsb (fun e => match e with ESendErr true => true | _ => false end) c15_t1 = true /\
  final (end_state c15_cfg2 c15_t2) = true /\
  length (delivered (end_state c15_cfg2 c15_t2)) = 3 /\
  nerr_seen (end_state c15_cfg2 c15_t2) = 1.
Proof.
  split; [split; cbn; auto|]. split; [right; reflexivity|].
  repeat split; vm_compute; reflexivity.
Qed.
Example C15_nonvacuous_init :
  wf_config c15_cfg3 /\ rinit_ok c15_cfg3 = false /\
  accepts c15_cfg3 c15_t3 = true /\ final (end_state c15_cfg3 c15_t3) = true /\
  last c15_t3 EDropHandle = EReturn false /\
  existsb (fun e => match e with EDoneRecv RClosed => true | _ => false end) c15_t3 = true /\
  accepts c15_cfg4 c15_t4 = true /\ final (end_state c15_cfg4 c15_t4) = true /\
  existsb (fun e => match e with EDatasetInit None => true | _ => false end) c15_t4 = true /\
  last c15_t4 EDropHandle = EReturn false.
Proof.
  split; [split; cbn; auto|]. repeat split; vm_compute; reflexivity.
Qed.
