(** C15c (C07/C15, composed) — the parallel functions over a REAL reader, end to end.

    Model/Par.v abstracts the reader thread's [fill_data] closure to a script
    "k successful fills, then None or an error" and proves C07/C15/C08/C16 for
    every script, thread count, queue length and schedule.  Model/Fastq.v and
    Model/Fasta.v model the readers; [fq_read_set fuel ffuel None r rs] /
    [fa_read_set ...] is [reader.read_record_set(&mut rset)], exactly what the
    [fill_data] closures of [parallel_fastq] / [parallel_fasta] call.  Here the
    two are COMPOSED: the script is instantiated with what the reader really
    does on an input, and the conclusions are about RECORDS.

    Definitions (Proofs/ParComposeP.v):
    [fq_fill_seq m fuel ffuel r rs]   read_record_set again and again (at most m calls) until it does
                                      not return Some(Ok): (the owned contents (header, sequence,
                                      quality) of every filled set in fill order, the outcome that ended
                                      the sequence); [fa_fill_seq] the same for FASTA (header, sequence);
    [fq_fill_seq_with sets i ...]     the same with an ARBITRARY record set [sets i] passed to the i-th
                                      call (read_parallel_init passes fresh and recycled sets);
    [lead_recs l] / [first_bad l]     the record items in front of the first non-record item of a
                                      specification stream / that item, if any
                                      (= [firstn (run_len l) l] / [nth_error l (run_len l)], Spec/CursorQ.v);
    [own_of] / [item_owned]           the owned contents of a stream item (Proofs/FastqHistP.v, FastaHistP.v);
    [script_of batches fin]           = (length batches, ScriptEnd if fin = Some None-outcome else ScriptErr):
                                      the protocol's fill script; [fa_script_of] for FASTA;
    [fq_next_seq] / [fa_next_seq]     sequential reading: next() until it does not return a record.
    [std_cfg] (Proofs/FastqHistP.v): capacity >= 1, fault-free scripts, a policy that grants more,
    ffuel >= |rs| + 2, fuel >= 2|inp| + 4.  The protocol configuration is
    [mkConfig n q true None script Drain w]: n workers, queue length q, no failing init closure, the
    draining consumer, any work function [w] (content id -> result).

    What is proved, in plain words:
    1. Independence of the set passed in: the reader state after read_record_set and its outcome do
       not depend on the record set passed in; after Some(Ok) the FASTQ set itself (buffer, positions)
       and the records the FASTA set shows (it keeps stale entries behind npos) do not either.  Hence
       the fills are the same whatever fresh or recycled sets are passed to the calls.
    2. Reader side (FASTQ): the filled sets are non-empty and contain, in order, exactly once, the first
       j items of [fq_spec_all inp], all of them records in front of the first invalid record; if the
       input has no invalid record, j = everything and the sequence ends with None; otherwise it ends
       with THE error of the first invalid record (field by field [fq_err_of e]), which is the last item
       of the stream, and this is the outcome that also ends sequential reading with next().
       DEVIATION FROM THE SUGGESTED TARGET.  The suggested statement "concat batches = all leading
       records" is FALSE for inputs with an invalid record: read_record_set clears the set before it
       returns the error, so the records that were parsed in the SAME call as the invalid record are
       dropped (src/fastq.rs, read_record_set_exact: `rset.buf_positions.clear(); return Some(Err(e))`;
       the cursor machine of Spec/CursorQ.v allows exactly this, rule [set_err]).  Counter-example
       [C15_fq_leading_records_can_be_dropped]: c04_bad (records a, b, invalid c) at capacity 100: no
       set is filled although two valid records precede the invalid one; at capacity 12 both are
       delivered.  The theorems therefore say "a prefix (length j) of the leading records, all of
       them if the input is valid".  Sequential reading delivers ALL leading records before the error
       ([C15_fq_fill_seq_vs_sequential]): the parallel path may deliver fewer records than the
       sequential path before the SAME error — never other records, never in another order.
    3. Composition (FASTQ and FASTA), for ALL schedules: when read_parallel_init has returned, the
       draining consumer has received every filled set exactly once with the work result for it; the
       records of the received sets are a permutation of the records the reader produced (in file
       order with one worker thread); the error is received exactly once iff the input has an invalid
       record, and it is the sequential reader's error.
    4. FASTA: the only parse error is an invalid first line; then no set is filled and the error is
       reported; otherwise all records of [fa_records inp] are delivered — nothing can be dropped.
    Statements only; proofs are in Proofs/ParComposeP.v. *)
From SeqIO Require Import Model.Base Model.Fastq Model.Views Spec.FastaSpec Spec.FastqSpec Spec.CursorQ
  Proofs.Window Proofs.FastaInv Proofs.FqSpecP Proofs.ViewsP Proofs.FastqInv Proofs.FastqNextP
  Proofs.FastqSetP Proofs.FastqSeekP Proofs.CursorP Proofs.CursorBridgeP Proofs.FastqHistP Proofs.FastqHistEx.
From SeqIO Require Import Model.Fasta Spec.Cursor Proofs.FastaStream Proofs.FastaNextP Proofs.FastaTopP
  Proofs.FastaPosP Proofs.FastaInitP Proofs.FastaSetP Proofs.FastaSeekP Proofs.FastaHistP.
From SeqIO Require Import Model.Par Proofs.ParP Proofs.ParEx Proofs.ParInv Proofs.ParContent Proofs.ParZip
  Proofs.ParLive Proofs.ParErr Proofs.ParComposeP.
Require Import Permutation.

(* ------------------------------------------------------------------ *)
(** * 1. The set passed in does not matter *)

Theorem C15_fq_read_set_indep_of_set : forall fuel ffuel n r rs rs',
  fst (fst (fq_read_set fuel ffuel n r rs)) = fst (fst (fq_read_set fuel ffuel n r rs')) /\
  snd (fq_read_set fuel ffuel n r rs) = snd (fq_read_set fuel ffuel n r rs') /\
  (snd (fq_read_set fuel ffuel n r rs) = QOSetOk ->
   snd (fst (fq_read_set fuel ffuel n r rs)) = snd (fst (fq_read_set fuel ffuel n r rs'))).
Proof. exact fq_read_set_indep_of_set. Qed.
Print Assumptions C15_fq_read_set_indep_of_set.

(** whatever set the i-th call receives, the fills are those of [fq_fill_seq] *)
Theorem C15_fq_fill_seq_any_sets : forall sets fuel ffuel m i r rs,
  fq_fill_seq_with sets i m fuel ffuel r = fq_fill_seq m fuel ffuel r rs.
Proof. exact fq_fill_seq_with_eq. Qed.
Print Assumptions C15_fq_fill_seq_any_sets.

Theorem C15_fa_read_set_indep_of_set : forall fuel ffuel n r rs rs',
  fst (fst (fa_read_set fuel ffuel n r rs)) = fst (fst (fa_read_set fuel ffuel n r rs')) /\
  snd (fa_read_set fuel ffuel n r rs) = snd (fa_read_set fuel ffuel n r rs') /\
  (snd (fa_read_set fuel ffuel n r rs) = OSetOk ->
   fa_set_records (snd (fst (fa_read_set fuel ffuel n r rs))) =
   fa_set_records (snd (fst (fa_read_set fuel ffuel n r rs')))).
Proof. exact fa_read_set_indep_of_set. Qed.
Print Assumptions C15_fa_read_set_indep_of_set.

Theorem C15_fa_fill_seq_any_sets : forall sets fuel ffuel m i r rs,
  fa_fill_seq_with sets i m fuel ffuel r = fa_fill_seq m fuel ffuel r rs.
Proof. exact fa_fill_seq_with_eq. Qed.
Print Assumptions C15_fa_fill_seq_any_sets.

(** non-vacuity: a set that already holds a batch of three records (c04_inp read at capacity 100) is
    passed to a reader at capacity 12: the same outcome and the same one-record set as with an empty set *)
Example C15_fq_read_set_indep_nonvacuous :
  let r := fq_new 12 (mkSource c04_inp 0 c04_rs [SOk]) pol_std in
  let used := snd (fst (fq_read_set 66 50 None (fq_new 100 (mkSource c04_inp 0 [] [SOk]) pol_std) fq_set_empty)) in
  length (fq_set_records used) = 3 /\
  snd (fq_read_set 66 50 None r used) = QOSetOk /\
  map fq_to_owned (fq_set_records (snd (fst (fq_read_set 66 50 None r used)))) = [Some ([97], [65; 67], [73; 73])] /\
  map fq_to_owned (fq_set_records (snd (fst (fq_read_set 66 50 None r fq_set_empty)))) = [Some ([97], [65; 67], [73; 73])].
Proof. cbv zeta. split; [|split; [|split]]; vm_compute; reflexivity. Qed.

(** FASTA: the recycled set holds three entries; refilled with one record it shows one record (two stale
    entries stay behind npos), the same record as a fresh set shows *)
Example C15_fa_read_set_indep_nonvacuous :
  let rs := [RDeliver 0; RInterrupt; RDeliver 1] in
  let r := fa_new 5 (mkSource c15c_fa_inp 0 rs []) pol_std in
  let used := snd (fst (fa_read_set 21 9 None (fa_new 64 (mkSource c15c_fa_inp 0 [] []) pol_std) fa_set_empty)) in
  length (fa_set_records used) = 3 /\
  snd (fa_read_set 21 9 None r used) = OSetOk /\
  length (spositions (snd (fst (fa_read_set 21 9 None r used)))) = 3 /\
  length (spositions (snd (fst (fa_read_set 21 9 None r fa_set_empty)))) = 1 /\
  map fa_to_owned (fa_set_records (snd (fst (fa_read_set 21 9 None r used)))) = [Some ([97], [65; 67])] /\
  map fa_to_owned (fa_set_records (snd (fst (fa_read_set 21 9 None r fa_set_empty)))) = [Some ([97], [65; 67])].
Proof. cbv zeta. repeat match goal with |- _ /\ _ => split end; vm_compute; reflexivity. Qed.

(* ------------------------------------------------------------------ *)
(** * 2. Reader side *)

Theorem C15_fq_fill_seq_spec : forall inp cap0 rs ss pol fuel ffuel m,
  std_cfg inp cap0 rs ss pol fuel ffuel -> length (fq_spec_all inp) + 2 <= m ->
  let '(batches, fin) := fq_fill_seq m fuel ffuel (fq_new cap0 (mkSource inp 0 rs ss) pol) fq_set_empty in
  exists j,
    j <= length (lead_recs (fq_spec_all inp)) /\
    concat batches = map own_of (firstn j (fq_spec_all inp)) /\
    Forall (fun b => b <> []) batches /\
    match first_bad (fq_spec_all inp) with
    | None => fin = Some QONone /\ j = length (fq_spec_all inp)
    | Some (QErr e l a) => fin = Some (QOErr (fq_err_of e)) /\
                           fq_spec_all inp = lead_recs (fq_spec_all inp) ++ [QErr e l a]
    | Some (QRec _) => False
    end.
Proof. exact fq_fill_seq_spec. Qed.
Print Assumptions C15_fq_fill_seq_spec.

(** the fills against sequential reading (next() until no record is returned) of the same input with
    the same reader configuration: the SAME final outcome (the end, or the same error value); the
    records of the filled sets are a prefix of the sequentially read records, and all of them when
    sequential reading ends with None *)
Theorem C15_fq_fill_seq_vs_sequential : forall inp cap0 rs ss pol fuel ffuel m,
  std_cfg inp cap0 rs ss pol fuel ffuel -> length (fq_spec_all inp) + 2 <= m ->
  let r0 := fq_new cap0 (mkSource inp 0 rs ss) pol in
  snd (fq_fill_seq m fuel ffuel r0 fq_set_empty) = snd (fq_next_seq m fuel ffuel r0) /\
  (exists j, concat (fst (fq_fill_seq m fuel ffuel r0 fq_set_empty)) = firstn j (fst (fq_next_seq m fuel ffuel r0))) /\
  (snd (fq_next_seq m fuel ffuel r0) = Some QONone ->
   concat (fst (fq_fill_seq m fuel ffuel r0 fq_set_empty)) = fst (fq_next_seq m fuel ffuel r0)).
Proof. exact fq_fill_seq_vs_sequential. Qed.
Print Assumptions C15_fq_fill_seq_vs_sequential.

(** sequential reading itself: all leading records, then the end or the error of the first invalid record *)
Theorem C15_fq_next_seq_spec : forall inp cap0 rs ss pol fuel ffuel m,
  std_cfg inp cap0 rs ss pol fuel ffuel -> length (fq_spec_all inp) + 2 <= m ->
  fst (fq_next_seq m fuel ffuel (fq_new cap0 (mkSource inp 0 rs ss) pol)) = map own_of (lead_recs (fq_spec_all inp)) /\
  snd (fq_next_seq m fuel ffuel (fq_new cap0 (mkSource inp 0 rs ss) pol)) =
    match first_bad (fq_spec_all inp) with
    | None => Some QONone
    | Some (QErr e l a) => Some (QOErr (fq_err_of e))
    | Some (QRec i) => None
    end.
Proof. exact fq_next_seq_spec. Qed.
Print Assumptions C15_fq_next_seq_spec.

(** non-vacuity: c04_inp = "@a\nAC\n+\nII\n@b\nG\n+\nI\n@c\nTT\n+\nJJ\n" at capacity 12 (read script
    c04_rs: 1 byte, an interrupt, 2 bytes, then everything offered): three batches, then None *)
Example C15_fq_fill_seq_spec_nonvacuous :
  std_cfg c04_inp 12 c04_rs [SOk] pol_std (2 * length c04_inp + 4) 50 /\
  length (fq_spec_all c04_inp) + 2 <= 5 /\
  first_bad (fq_spec_all c04_inp) = None /\
  fst (fq_fill_seq 5 (2 * length c04_inp + 4) 50 (fq_new 12 (mkSource c04_inp 0 c04_rs [SOk]) pol_std) fq_set_empty) =
    [[Some ([97], [65; 67], [73; 73])]; [Some ([98], [71], [73])]; [Some ([99], [84; 84], [74; 74])]] /\
  snd (fq_fill_seq 5 (2 * length c04_inp + 4) 50 (fq_new 12 (mkSource c04_inp 0 c04_rs [SOk]) pol_std) fq_set_empty) =
    Some QONone.
Proof.
  split; [apply c04_cfg; [lia | reflexivity]|]. split; [vm_compute; lia|].
  split; [|split]; vm_compute; reflexivity.
Qed.

(** c04_bad (the same with an invalid third record: quality one byte short) at capacity 12: the
    batches [a], [b], then the error of the third record — the error item of the specification *)
Example C15_fq_fill_seq_spec_nonvacuous_error :
  std_cfg c04_bad 12 c04_rs [SOk] pol_std (2 * length c04_bad + 4) 50 /\
  length (fq_spec_all c04_bad) + 2 <= 5 /\
  first_bad (fq_spec_all c04_bad) = Some (QErr (EUnequal 2 1 9 (Some [99])) 9 20) /\
  map own_of (lead_recs (fq_spec_all c04_bad)) = [Some ([97], [65; 67], [73; 73]); Some ([98], [71], [73])] /\
  fst (fq_fill_seq 5 (2 * length c04_bad + 4) 50 (fq_new 12 (mkSource c04_bad 0 c04_rs [SOk]) pol_std) fq_set_empty) =
    [[Some ([97], [65; 67], [73; 73])]; [Some ([98], [71], [73])]] /\
  snd (fq_fill_seq 5 (2 * length c04_bad + 4) 50 (fq_new 12 (mkSource c04_bad 0 c04_rs [SOk]) pol_std) fq_set_empty) =
    Some (QOErr (FqUnequalLengths 2 1 9 (Some [99]))) /\
  fq_err_of (EUnequal 2 1 9 (Some [99])) = FqUnequalLengths 2 1 9 (Some [99]).
Proof.
  split; [apply c04_cfg; [lia | reflexivity]|]. split; [vm_compute; lia|].
  split; [|split; [|split; [|split]]]; vm_compute; reflexivity.
Qed.

(** COUNTER-EXAMPLE to "the filled sets contain ALL records in front of the first invalid record":
    c04_bad at capacity 100 — the whole input is in the buffer at the first call, the call meets the
    invalid third record and returns its error with an emptied set; the valid records a and b are
    never delivered (j = 0 in [C15_fq_fill_seq_spec]), while sequential reading delivers both *)
Example C15_fq_leading_records_can_be_dropped :
  std_cfg c04_bad 100 c04_rs [SOk] pol_std (2 * length c04_bad + 4) 50 /\
  map own_of (lead_recs (fq_spec_all c04_bad)) = [Some ([97], [65; 67], [73; 73]); Some ([98], [71], [73])] /\
  fq_fill_seq 5 (2 * length c04_bad + 4) 50 (fq_new 100 (mkSource c04_bad 0 c04_rs [SOk]) pol_std) fq_set_empty =
    ([], Some (QOErr (FqUnequalLengths 2 1 9 (Some [99])))) /\
  fq_next_seq 5 (2 * length c04_bad + 4) 50 (fq_new 100 (mkSource c04_bad 0 c04_rs [SOk]) pol_std) =
    ([Some ([97], [65; 67], [73; 73]); Some ([98], [71], [73])], Some (QOErr (FqUnequalLengths 2 1 9 (Some [99])))).
Proof.
  split; [apply c04_cfg; [lia | reflexivity]|]. split; [|split]; vm_compute; reflexivity.
Qed.

(** FASTA.  On an input with an invalid first line no set is filled and the error is reported;
    otherwise every filled set is non-empty, the sets contain the records of the input, each once, in
    order, and the sequence ends with None *)
Theorem C15_fa_fill_seq_spec : forall inp cap0 rs sks pol fuel ffuel m,
  3 <= cap0 -> forallb item_ok rs = true -> PolOk pol ->
  length rs + 2 <= ffuel -> length inp + 2 <= fuel -> length (fa_spec inp) + 2 <= m ->
  let '(batches, fin) := fa_fill_seq m fuel ffuel (fa_new cap0 (mkSource inp 0 rs sks) pol) fa_set_empty in
  Forall (fun b => b <> []) batches /\
  match fa_spec inp with
  | [SInvalidStart l b] => batches = [] /\ fin = Some (OErr (FaInvalidStart l b))
  | _ => concat batches = map item_owned (fa_records inp) /\ fin = Some ONone
  end.
Proof. exact fa_fill_seq_spec. Qed.
Print Assumptions C15_fa_fill_seq_spec.

(** the same records in the same order and the same final outcome as sequential reading *)
Theorem C15_fa_fill_seq_vs_sequential : forall inp cap0 rs sks pol fuel ffuel m,
  3 <= cap0 -> forallb item_ok rs = true -> PolOk pol ->
  length rs + 2 <= ffuel -> length inp + 2 <= fuel -> length (fa_spec inp) + 2 <= m ->
  let r0 := fa_new cap0 (mkSource inp 0 rs sks) pol in
  concat (fst (fa_fill_seq m fuel ffuel r0 fa_set_empty)) = fst (fa_next_seq m fuel ffuel r0) /\
  snd (fa_fill_seq m fuel ffuel r0 fa_set_empty) = snd (fa_next_seq m fuel ffuel r0).
Proof. exact fa_fill_seq_vs_sequential. Qed.
Print Assumptions C15_fa_fill_seq_vs_sequential.

(** non-vacuity: c15c_fa_inp = ">a\nAC\n>b\nG\n>c\nTT\nA\n" at capacity 5 (three batches) and 64 (one
    batch); c15c_fa_bad = "\nA\n>a\n" *)
Example C15_fa_fill_seq_spec_nonvacuous :
  let rs := [RDeliver 0; RInterrupt; RDeliver 1] in
  3 <= 5 /\ forallb item_ok rs = true /\ PolOk pol_std /\ length rs + 2 <= 9 /\
  length (fa_spec c15c_fa_inp) + 2 <= 5 /\
  map item_owned (fa_records c15c_fa_inp) = [Some ([97], [65; 67]); Some ([98], [71]); Some ([99], [84; 84; 65])] /\
  fa_fill_seq 5 (length c15c_fa_inp + 2) 9 (fa_new 5 (mkSource c15c_fa_inp 0 rs []) pol_std) fa_set_empty =
    ([[Some ([97], [65; 67])]; [Some ([98], [71])]; [Some ([99], [84; 84; 65])]], Some ONone) /\
  fa_fill_seq 5 (length c15c_fa_inp + 2) 9 (fa_new 64 (mkSource c15c_fa_inp 0 rs []) pol_std) fa_set_empty =
    ([[Some ([97], [65; 67]); Some ([98], [71]); Some ([99], [84; 84; 65])]], Some ONone) /\
  fa_spec c15c_fa_bad = [SInvalidStart 2 65] /\
  fa_fill_seq 5 (length c15c_fa_bad + 2) 9 (fa_new 5 (mkSource c15c_fa_bad 0 rs []) pol_std) fa_set_empty =
    ([], Some (OErr (FaInvalidStart 2 65))).
Proof.
  cbv zeta. split; [lia|]. split; [reflexivity|]. split; [exact PolOk_std|]. split; [cbn [length]; lia|].
  split; [vm_compute; lia|]. split; [|split; [|split; [|split]]]; vm_compute; reflexivity.
Qed.

(* ------------------------------------------------------------------ *)
(** * 3. Composition with the protocol, for all schedules *)

(** [parallel_fastq] with the draining consumer.  [s] is ANY state reachable by the protocol
    (every interleaving of main, reader and worker threads) in which read_parallel_init has
    returned without an init failure:
    - every set the reader filled was received exactly once, with the work result for it;
    - the records of the received sets are, up to the order of the sets, the first j items of the
      specification stream — all of them records that precede the first invalid record — and with one
      worker thread they come in file order;
    - a valid input: j = everything, and no error is received;
    - an input with an invalid record: the error is received exactly once; it is the error
      [fq_err_of e] of the first invalid item [QErr e l a] of the stream, the value sequential
      reading reports ([C15_fq_next_seq_spec]), and that item is the last of the stream. *)
Theorem C15_parallel_fastq_end_to_end : forall inp cap0 rs ss pol fuel ffuel m n q w s,
  std_cfg inp cap0 rs ss pol fuel ffuel -> length (fq_spec_all inp) + 2 <= m -> 1 <= n -> 1 <= q ->
  let '(batches, fin) := fq_fill_seq m fuel ffuel (fq_new cap0 (mkSource inp 0 rs ss) pol) fq_set_empty in
  let cfg := mkConfig n q true None (script_of batches fin) Drain w in
  reachable cfg s -> final s = true -> mfail s = false ->
  exists j,
    j <= length (lead_recs (fq_spec_all inp)) /\
    Permutation (delivered s) (map (fun c => (c, w c)) (seq 0 (length batches))) /\
    Permutation (concat (map (fun p => nth (fst p) batches []) (delivered s)))
                (map own_of (firstn j (fq_spec_all inp))) /\
    (n = 1 -> concat (map (fun p => nth (fst p) batches []) (delivered s)) = map own_of (firstn j (fq_spec_all inp))) /\
    match first_bad (fq_spec_all inp) with
    | None => j = length (fq_spec_all inp) /\ fin = Some QONone /\ nerr_seen s = 0
    | Some (QErr e l a) => fin = Some (QOErr (fq_err_of e)) /\ nerr_seen s = 1 /\
                           fq_spec_all inp = lead_recs (fq_spec_all inp) ++ [QErr e l a]
    | Some (QRec _) => False
    end.
Proof. exact parallel_fastq_end_to_end. Qed.
Print Assumptions C15_parallel_fastq_end_to_end.

(** the protocol part alone, for any list of batches and either script end *)
Theorem C15_drain_batches : forall (A : Type) (batches : list (list A)) (fe : fill_end) n q w s,
  1 <= n -> 1 <= q ->
  let cfg := mkConfig n q true None (length batches, fe) Drain w in
  reachable cfg s -> final s = true -> mfail s = false ->
  Permutation (delivered s) (map (fun c => (c, w c)) (seq 0 (length batches))) /\
  Permutation (concat (map (fun p => nth (fst p) batches []) (delivered s))) (concat batches) /\
  (n = 1 -> concat (map (fun p => nth (fst p) batches []) (delivered s)) = concat batches) /\
  nerr_seen s = match fe with ScriptEnd => 0 | ScriptErr => 1 end.
Proof. exact @drain_batches. Qed.
Print Assumptions C15_drain_batches.

(** [parallel_fasta] with the draining consumer *)
Theorem C15_parallel_fasta_end_to_end : forall inp cap0 rs sks pol fuel ffuel m n q w s,
  3 <= cap0 -> forallb item_ok rs = true -> PolOk pol ->
  length rs + 2 <= ffuel -> length inp + 2 <= fuel -> length (fa_spec inp) + 2 <= m -> 1 <= n -> 1 <= q ->
  let '(batches, fin) := fa_fill_seq m fuel ffuel (fa_new cap0 (mkSource inp 0 rs sks) pol) fa_set_empty in
  let cfg := mkConfig n q true None (fa_script_of batches fin) Drain w in
  reachable cfg s -> final s = true -> mfail s = false ->
  Permutation (delivered s) (map (fun c => (c, w c)) (seq 0 (length batches))) /\
  match fa_spec inp with
  | [SInvalidStart l b] =>
      delivered s = [] /\ fin = Some (OErr (FaInvalidStart l b)) /\ nerr_seen s = 1
  | _ =>
      Permutation (concat (map (fun p => nth (fst p) batches []) (delivered s))) (map item_owned (fa_records inp)) /\
      (n = 1 -> concat (map (fun p => nth (fst p) batches []) (delivered s)) = map item_owned (fa_records inp)) /\
      fin = Some ONone /\ nerr_seen s = 0
  end.
Proof. exact parallel_fasta_end_to_end. Qed.
Print Assumptions C15_parallel_fasta_end_to_end.

(** non-vacuity.  [c15c_fq inp cap] is [fq_fill_seq 5 (2|inp|+4) 50] of a fresh reader (read script
    c04_rs, default policy); [c15c_fq_cfg inp cap n q] the configuration of the theorem with
    [w c = c + 1]; [c15c_fq_end inp cap n q last] the state after a complete run under the greedy
    scheduler of Model/Par.v.  A valid input, 2 workers, queue length 2: all three records, no error *)
Example C15_parallel_fastq_nonvacuous :
  let s := c15c_fq_end c04_inp 12 2 2 false in
  std_cfg c04_inp 12 c04_rs [SOk] pol_std (2 * length c04_inp + 4) 50 /\
  length (fq_spec_all c04_inp) + 2 <= 5 /\
  c15c_fq_cfg c04_inp 12 2 2 =
    mkConfig 2 2 true None (script_of (fst (c15c_fq c04_inp 12)) (snd (c15c_fq c04_inp 12))) Drain (fun c => c + 1) /\
  fills (c15c_fq_cfg c04_inp 12 2 2) = (3, ScriptEnd) /\
  reachable (c15c_fq_cfg c04_inp 12 2 2) s /\ final s = true /\ mfail s = false /\
  delivered s = [(0, 1); (1, 2); (2, 3)] /\ nerr_seen s = 0 /\
  concat (map (fun p => nth (fst p) (fst (c15c_fq c04_inp 12)) []) (delivered s)) =
    [Some ([97], [65; 67], [73; 73]); Some ([98], [71], [73]); Some ([99], [84; 84], [74; 74])].
Proof.
  cbv zeta. split; [apply c04_cfg; [lia | reflexivity]|]. split; [vm_compute; lia|].
  split; [reflexivity|]. split; [vm_compute; reflexivity|].
  split; [apply reachable_end_state|].
  split; [|split; [|split; [|split]]]; vm_compute; reflexivity.
Qed.

(** an input with an invalid third record, one worker, queue length 1: records a and b, then the
    error exactly once *)
Example C15_parallel_fastq_nonvacuous_error :
  let s := c15c_fq_end c04_bad 12 1 1 true in
  std_cfg c04_bad 12 c04_rs [SOk] pol_std (2 * length c04_bad + 4) 50 /\
  fills (c15c_fq_cfg c04_bad 12 1 1) = (2, ScriptErr) /\
  snd (c15c_fq c04_bad 12) = Some (QOErr (FqUnequalLengths 2 1 9 (Some [99]))) /\
  reachable (c15c_fq_cfg c04_bad 12 1 1) s /\ final s = true /\ mfail s = false /\
  delivered s = [(0, 1); (1, 2)] /\ nerr_seen s = 1 /\
  concat (map (fun p => nth (fst p) (fst (c15c_fq c04_bad 12)) []) (delivered s)) =
    [Some ([97], [65; 67], [73; 73]); Some ([98], [71], [73])].
Proof.
  cbv zeta. split; [apply c04_cfg; [lia | reflexivity]|]. split; [vm_compute; reflexivity|].
  split; [vm_compute; reflexivity|]. split; [apply reachable_end_state|].
  split; [|split; [|split; [|split]]]; vm_compute; reflexivity.
Qed.

(** FASTA: three records at capacity 5 with two workers; an invalid first line *)
Example C15_parallel_fasta_nonvacuous :
  let s := c15c_fa_end c15c_fa_inp 5 2 2 false in
  let s' := c15c_fa_end c15c_fa_bad 5 2 2 false in
  fills (c15c_fa_cfg c15c_fa_inp 5 2 2) = (3, ScriptEnd) /\
  reachable (c15c_fa_cfg c15c_fa_inp 5 2 2) s /\ final s = true /\ mfail s = false /\
  delivered s = [(0, 1); (1, 2); (2, 3)] /\ nerr_seen s = 0 /\
  concat (map (fun p => nth (fst p) (fst (c15c_fa c15c_fa_inp 5)) []) (delivered s)) =
    [Some ([97], [65; 67]); Some ([98], [71]); Some ([99], [84; 84; 65])] /\
  fills (c15c_fa_cfg c15c_fa_bad 5 2 2) = (0, ScriptErr) /\
  reachable (c15c_fa_cfg c15c_fa_bad 5 2 2) s' /\ final s' = true /\ mfail s' = false /\
  delivered s' = [] /\ nerr_seen s' = 1.
Proof.
  cbv zeta. repeat match goal with |- _ /\ _ => split end;
    try apply reachable_end_state; vm_compute; reflexivity.
Qed.
