(** C16 — Parallel processing uses a fixed number of recycled data sets.
    Statements only; proofs are in Proofs/ParInv.v, Proofs/ParContent.v.
    All theorems hold for every n >= 1, q >= 1, every fill script, every consumer
    behaviour and every schedule (every state reachable by [Par.apply]). *)
From SeqIO Require Import Model.Par Proofs.ParP Proofs.ParEx Proofs.ParInv Proofs.ParContent.
Require Import List Arith.
Import ListNotations.

(** at most queue_len + 1 data sets are ever created (calls of dataset_init) *)
Theorem C16_created_bound : forall cfg s, wf_config cfg -> reachable cfg s ->
  length (created s) <= qlen cfg + 1.
Proof. exact created_bound. Qed.
Print Assumptions C16_created_bound.

(** every created data set is, at any time, in exactly one place: the recycling
    channel, the reader's hand, the job queue, a worker, the result channel, the
    consumer's current set, main's hand (about to be sent back), or destroyed. *)
Theorem C16_token_conservation : forall cfg s, wf_config cfg -> reachable cfg s ->
  Permutation.Permutation (tokens s) (seq 0 (length (created s))) /\ created s = seq 0 (length (created s)).
Proof. exact token_conservation. Qed.
Print Assumptions C16_token_conservation.

(** the reader cannot run ahead: the filled sets not yet received by the consumer
    (handed to the pool, queued, being worked on, or waiting in the result channel)
    are at most queue_len ... *)
Theorem C16_reader_ahead : forall cfg s, wf_config cfg -> reachable cfg s ->
  in_flight s <= qlen cfg.
Proof. exact in_flight_bound. Qed.
Print Assumptions C16_reader_ahead.

(** ... in terms of the counters: #filled <= #delivered + (1 if next() holds one that
    it is about to return) + #dropped-undelivered-after-the-consumer-left + queue_len *)
Theorem C16_reader_ahead_counts : forall cfg s, wf_config cfg -> reachable cfg s ->
  length (filled s) <=
  length (delivered s) + length (mpend (mpc s)) + length (lost s) + qlen cfg.
Proof. exact filled_ahead_bound. Qed.
Print Assumptions C16_reader_ahead_counts.

(** every call of fill_data is handed a data set that dataset_init created before
    (no fresh allocation per batch) *)
Theorem C16_reuse : forall cfg s t r s', wf_config cfg -> reachable cfg s ->
  apply cfg s (EFill t r) = Some s' -> In t (created s).
Proof. exact fill_uses_created_tag. Qed.
Print Assumptions C16_reuse.

(** Non-vacuity: n = 2, q = 2, 5 sets, draining consumer; a complete run creates
    exactly q + 1 = 3 sets and fills 5. *)
Example C16_nonvacuous :
  wf_config c16_cfg /\ accepts c16_cfg c16_trace = true /\
  final (end_state c16_cfg c16_trace) = true /\
  length (created (end_state c16_cfg c16_trace)) = 3 /\
  length (filled (end_state c16_cfg c16_trace)) = 5 /\
  existsb (fun e => match e with EFill _ _ => true | _ => false end) c16_trace = true.
Proof. split; [split; cbn; auto|]. repeat split; vm_compute; reflexivity. Qed.
