(** C16r — the per-record parallel functions (macro parallel_record_impl!) create a bounded number
    of OUTPUT SLOTS, however many batches the input has.
    Statements only; proofs are in Proofs/ParSlotsP.v (on top of Proofs/ParRecordsP.v, ParInv.v).

    Every data set of the per-record functions carries an output vector `Vec<D>`.  The work closure
    ([work_zip], Model/Par.v) overwrites the first [length recs] slots of the recycled vector and
    calls record_data_init() only for the surplus of the batch over the vector ([pushes]).
    [slot_inits evs pinit] counts these calls along an event trace [evs], with the vector each set
    carries at the moment of the EWork event (the tracked payload state [pstep]/[prun] of
    Proofs/ParRecordsP.v).

    What is proved, for every n >= 1, q >= 1, every fill script, every consumer and every schedule:
      - C16_record_slots_bounded: along every accepted trace the number of slot creations is at
        most (queue_len + 1) * M, M = the largest batch; independent of the number of batches;
      - C16_record_slots_exact: it is exactly the sum, over the created data sets, of the longest
        batch each set has worked on (= the sum of the lengths of their vectors);
      - C16_record_slots_per_set: for every event list (no protocol needed) the vector of set t is
        as long as the longest batch t has worked on, and that many slots were created for t;
      - C16_record_slots_monotone: a vector never gets shorter.
    The only hypothesis on the closures is [cmut_len]: the consumer's `func` gets `&mut D` for each
    slot, so it cannot change the LENGTH of the vector (Example C16r_cmut_len_needed: a consumer
    that could clear the vector breaks the bound).

    Contrast with the seeded defect (`out.truncate(n)` before the surplus loop, [work_zip_trunc]):
    C16r_truncating_variant_unbounded_gen: one data set, k+1 rounds of a long and a short batch create
    |long| + k * (|long| - |short|) slots, while the library creates at most M for any sequence
    (C16r_single_set_bounded); concrete instances by computation, also over real accepted traces. *)
From SeqIO Require Import Model.Par Proofs.ParP Proofs.ParEx Proofs.ParInv Proofs.ParContent
  Proofs.ParRecordsP Proofs.ParSlotsP.
Require Import List Arith Bool.
Import ListNotations.

(** one run of the work closure: the vector grows exactly by the surplus of the batch *)
Theorem C16_work_zip_length : forall (R D : Type) (w : R -> D -> D) (d0 : D) (old : list D) (recs : list R),
  length (work_zip w d0 old recs) = Nat.max (length old) (length recs).
Proof. exact (@work_zip_length). Qed.
Print Assumptions C16_work_zip_length.

Theorem C16_work_zip_length_pushes : forall (R D : Type) (w : R -> D -> D) (d0 : D) (old : list D) (recs : list R),
  length (work_zip w d0 old recs) = length old + pushes old recs.
Proof. exact (@work_zip_length_pushes). Qed.
Print Assumptions C16_work_zip_length_pushes.

(** THE BOUND: along every accepted trace, at most (queue_len + 1) * M calls of record_data_init() *)
Theorem C16_record_slots_bounded :
  forall (R D : Type) (batches : list (list R)) (w : R -> D -> D) (d0 : D) (cmut : nat -> list D -> list D),
  (forall c l, length (cmut c l) = length l) ->
  forall cfg evs s M,
  wf_config cfg -> run cfg init_state evs = Some s ->
  (forall b, In b batches -> length b <= M) ->
  slot_inits batches w d0 cmut evs pinit <= (qlen cfg + 1) * M.
Proof. exact (@record_slots_bounded). Qed.
Print Assumptions C16_record_slots_bounded.

(** exactly: the sum over the created data sets of the longest batch each has worked on
    = the sum of the lengths of their vectors *)
Theorem C16_record_slots_exact :
  forall (R D : Type) (batches : list (list R)) (w : R -> D -> D) (d0 : D) (cmut : nat -> list D -> list D),
  (forall c l, length (cmut c l) = length l) ->
  forall cfg evs s,
  wf_config cfg -> run cfg init_state evs = Some s ->
  slot_inits batches w d0 cmut evs pinit
    = sum_below (fun t => max_batch_seen batches t evs) (length (created s)) /\
  slot_inits batches w d0 cmut evs pinit
    = sum_below (fun t => length (outs (prun batches w d0 cmut evs) t)) (length (created s)).
Proof. exact (@record_slots_exact). Qed.
Print Assumptions C16_record_slots_exact.

(** per data set, for every event list: the vector is as long as the longest batch the set has
    worked on, and exactly that many slots were created for it *)
Theorem C16_record_slots_per_set :
  forall (R D : Type) (batches : list (list R)) (w : R -> D -> D) (d0 : D) (cmut : nat -> list D -> list D),
  (forall c l, length (cmut c l) = length l) ->
  forall evs t,
  length (outs (prun batches w d0 cmut evs) t) = max_batch_seen batches t evs /\
  slot_inits_of batches w d0 cmut t evs pinit = max_batch_seen batches t evs.
Proof. exact (@record_slots_per_set). Qed.
Print Assumptions C16_record_slots_per_set.

Theorem C16_record_slots_per_set_bounded :
  forall (R D : Type) (batches : list (list R)) (w : R -> D -> D) (d0 : D) (cmut : nat -> list D -> list D),
  (forall c l, length (cmut c l) = length l) ->
  forall evs t M,
  (forall b, In b batches -> length b <= M) ->
  length (outs (prun batches w d0 cmut evs) t) <= M /\ slot_inits_of batches w d0 cmut t evs pinit <= M.
Proof. exact (@record_slots_per_set_bounded). Qed.
Print Assumptions C16_record_slots_per_set_bounded.

(** a vector never gets shorter *)
Theorem C16_record_slots_monotone :
  forall (R D : Type) (batches : list (list R)) (w : R -> D -> D) (d0 : D) (cmut : nat -> list D -> list D),
  (forall c l, length (cmut c l) = length l) ->
  forall evs e t,
  length (outs (prun batches w d0 cmut evs) t) <= length (outs (prun batches w d0 cmut (evs ++ [e])) t).
Proof. exact (@record_slots_monotone). Qed.
Print Assumptions C16_record_slots_monotone.

(** the trace-generic form: n data sets (all EWork tags below n), batches of at most M records *)
Theorem C16_record_slots_generic :
  forall (R D : Type) (batches : list (list R)) (w : R -> D -> D) (d0 : D) (cmut : nat -> list D -> list D),
  (forall c l, length (cmut c l) = length l) ->
  forall n M evs,
  Forall (work_tag_lt n) evs -> (forall b, In b batches -> length b <= M) ->
  slot_inits batches w d0 cmut evs pinit = sum_below (fun t => max_batch_seen batches t evs) n /\
  slot_inits batches w d0 cmut evs pinit <= n * M.
Proof. exact (@slot_inits_generic). Qed.
Print Assumptions C16_record_slots_generic.

(** the protocol fact used: a work closure only ever runs on a data set created before *)
Theorem C16_work_on_created : forall cfg, wf_config cfg -> forall evs s0 s,
  reachable cfg s0 -> run cfg s0 evs = Some s -> Forall (work_tag_lt (length (created s))) evs.
Proof. exact work_on_created. Qed.
Print Assumptions C16_work_on_created.

(** ONE data set working through any sequence of batches: the library creates at most M slots ... *)
Theorem C16r_single_set_bounded : forall (R D : Type) (w : R -> D -> D) (d0 : D) M (bs : list (list R)),
  (forall b, In b bs -> length b <= M) -> set_inits (work_zip w d0) [] bs <= M.
Proof. exact (@set_inits_work_zip_bound). Qed.
Print Assumptions C16r_single_set_bounded.

(** ... the truncating variant creates slots without bound: k+1 rounds [long; short] *)
Theorem C16r_truncating_variant_unbounded_gen : forall (R D : Type) (w : R -> D -> D) (d0 : D) (long short : list R),
  length short <= length long -> forall k,
  set_inits (work_zip_trunc w d0) [] (concat (repeat [long; short] (S k)))
  = length long + k * (length long - length short).
Proof. exact (@set_inits_trunc_unbounded). Qed.
Print Assumptions C16r_truncating_variant_unbounded_gen.

(* ------------------------------------------------------------------ *)
(** * Examples *)

(** one data set, six batches of lengths 3,1,3,1,3,1: 3 creations in the library,
    3 + 2 + 2 = 7 with truncation (and 3 + 2 * 9 = 21 after ten rounds, still 3 in the library) *)
Example C16r_truncating_variant_unbounded :
  map (@length nat) (c16r_alt 3) = [3; 1; 3; 1; 3; 1] /\
  set_inits (work_zip c07r_w 0) [] (c16r_alt 3) = 3 /\
  set_inits (work_zip_trunc c07r_w 0) [] (c16r_alt 3) = 7 /\
  set_inits (work_zip c07r_w 0) [] (c16r_alt 10) = 3 /\
  set_inits (work_zip_trunc c07r_w 0) [] (c16r_alt 10) = 21.
Proof. repeat split; vm_compute; reflexivity. Qed.

(** Non-vacuity over a real accepted trace (n = 1, q = 1, four batches of lengths 3,1,2,3 through
    two data sets): all hypotheses hold; 6 slots are created, the bound (1 + 1) * 3 = 6 is attained;
    both vectors end with 3 slots *)
Example C16r_nonvacuous :
  let s := end_state c07r_cfg4 c07r_trace4 in
  wf_config c07r_cfg4 /\
  run c07r_cfg4 init_state c07r_trace4 = Some s /\ final s = true /\
  (forall c l, length (c07r_cmut c l) = length l) /\
  (forall b, In b c07r_batches4 -> length b <= 3) /\
  map (@length nat) c07r_batches4 = [3; 1; 2; 3] /\
  length (created s) = 2 /\ qlen c07r_cfg4 = 1 /\
  filter (fun e => match e with EWork _ _ _ => true | _ => false end) c07r_trace4
    = [EWork 0 0 1; EWork 1 1 2; EWork 0 2 3; EWork 1 3 4] /\
  slot_inits c07r_batches4 c07r_w 0 c07r_cmut c07r_trace4 pinit = 6 /\
  map (fun t => max_batch_seen c07r_batches4 t c07r_trace4) [0; 1; 2] = [3; 3; 0] /\
  map (fun t => length (outs (prun c07r_batches4 c07r_w 0 c07r_cmut c07r_trace4) t)) [0; 1; 2] = [3; 3; 0].
Proof.
  cbv zeta. split; [split; cbn; auto|].
  split; [vm_compute; reflexivity|]. split; [vm_compute; reflexivity|].
  split; [intros c l; apply map_length|].
  split; [intros b Hb; cbn in Hb; repeat (destruct Hb as [<-|Hb]; [cbn; auto|]); contradiction|].
  repeat split; vm_compute; reflexivity.
Qed.

(** the hypothesis [cmut_len] is needed: with a consumer that could clear the vector the same
    trace creates 3 + 1 + 2 + 3 = 9 > 6 slots *)
Example C16r_cmut_len_needed :
  slot_inits c07r_batches4 c07r_w 0 c16r_cmut_clear c07r_trace4 pinit = 9.
Proof. vm_compute; reflexivity. Qed.

(** the defect on the tracked model, over real accepted complete traces (n = 1, q = 1, 4k batches of
    lengths 3,3,1,1,3,3,1,1,.. through two data sets): the library creates 6 slots whatever k,
    the truncating variant 6, 10, 14 for k = 1, 2, 3; the bound (1 + 1) * 3 = 6 is broken from k = 2 on *)
Example C16r_truncating_variant_traces :
  map (fun k => accepts (c16r_cfg k) (c16r_trace k) && final (end_state (c16r_cfg k) (c16r_trace k))) [1; 2; 3]
    = [true; true; true] /\
  map (fun k => length (created (end_state (c16r_cfg k) (c16r_trace k)))) [1; 2; 3] = [2; 2; 2] /\
  map (fun k => slot_inits (c16r_batches k) c07r_w 0 c07r_cmut (c16r_trace k) pinit) [1; 2; 3] = [6; 6; 6] /\
  map (fun k => slot_inits_trunc (c16r_batches k) c07r_w 0 c07r_cmut (c16r_trace k) pinit) [1; 2; 3] = [6; 10; 14].
Proof. repeat split; vm_compute; reflexivity. Qed.
