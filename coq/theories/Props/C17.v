(** C17 — Parse errors pinpoint the offending record (the error FIELDS; the message
    clause is in Props/C17m.v).  Statements only; proofs in Proofs/PositionsP.v. *)
From SeqIO Require Import Model.Base Model.Fasta Model.Fastq Model.Views Spec.FastaSpec Spec.FastqSpec
     Proofs.Window Proofs.FastaInv Proofs.FastaNextP Proofs.FastaTopP Proofs.FastqNextP Proofs.PositionsP
     Proofs.FqSpecP.

(** FASTA: the invalid-start error carries exactly the line number of the first
    non-blank line and the byte found there, as the whole-input specification
    determines them — identically for every capacity, chunking and policy *)
Theorem C17_fasta_error_fields : forall inp cap0 rs ss pol fuel ffuel n k o pos line found,
  3 <= cap0 -> forallb item_ok rs = true -> PolOk pol ->
  length rs + 2 <= ffuel -> length inp + 2 <= fuel -> k < n ->
  nth_error (fa_run fuel ffuel n (fa_new cap0 (mkSource inp 0 rs ss) pol)) k = Some (o, pos) ->
  nth_error (fa_spec inp) k = Some (SInvalidStart line found) ->
  o = OErr (FaInvalidStart line found).
Proof. exact fa_error_fields. Qed.
Print Assumptions C17_fasta_error_fields.

(** FASTQ: the error returned by the k-th call is the specification's error item,
    field by field (line, found byte, actual lengths, id), for every configuration;
    which rule breach yields which variant with which line is C02s.v's
    C02_spec_error_kinds *)
Theorem C17_fastq_error_fields : forall inp cap0 rs ss pol fuel ffuel n k o pos,
  1 <= cap0 -> forallb item_ok rs = true -> PolOk pol ->
  length rs + 2 <= ffuel -> length inp + 2 <= fuel -> k < n ->
  nth_error (fq_run fuel ffuel n (fq_new cap0 (mkSource inp 0 rs ss) pol)) k = Some (o, pos) ->
  match nth_error (fq_spec_all inp) k with
  | Some (QRec i) => pos = (qi_line i, qi_byte i) /\ exists rc, o = QORec rc
  | Some (QErr e line byte_) => pos = (line, byte_) /\ o = QOErr (fq_err_of e)
  | None => o = QONone
  end.
Proof. exact fq_position_after_next. Qed.
Print Assumptions C17_fastq_error_fields.

(** non-vacuity: unequal lengths in the second record, capacity 4, two bytes per read *)
Example C17_example :
  let inp := [64; 120; 10; 65; 10; 43; 10; 73; 10; 64; 105; 100; 32; 100; 10; 65; 67; 10; 43; 10; 73; 10] in
  nth_error (fq_spec_all inp) 1 = Some (QErr (EUnequal 2 1 5 (Some [105; 100])) 5 9) /\
  option_map fst (nth_error (fq_run 60 60 3 (fq_new 4 (mkSource inp 0 (repeat (RDeliver 1) 20) []) pol_std)) 1)
  = Some (QOErr (FqUnequalLengths 2 1 5 (Some [105; 100]))).
Proof. split; vm_compute; reflexivity. Qed.
