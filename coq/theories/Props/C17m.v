(** C17 (message clause) — "The human-readable message contains these values".
    Statements only; proofs are in Proofs/DisplayP.v.

    The Display text is [render_all] (Model/Display.v) applied to the format
    strings of Gen/DisplayGen.v, which are regenerated from the Rust source on
    every run: dropping a `{}` hole or an argument from a `write!` changes the
    generated constant and these theorems are re-checked against it.

      infix a b := exists p s, b = p ++ a ++ s          (Proofs/DisplayP.v)

    [fq_message e = None] is the case the model does not render: the id is not
    valid UTF-8 (lossy conversion not modelled); see C17_msg_fq_defined. *)
From SeqIO Require Import Model.Base Model.Fasta Model.Fastq Model.Views Model.Display
     Gen.DisplayGen Model.Run Proofs.DisplayP.

(** FASTA InvalidStart: the message contains the decimal line number and the
    escaped found byte *)
Theorem C17_msg_fa_invalid_start : forall line found,
  infix (dec line) (fa_message (FaInvalidStart line found)) /\
  infix (escape_default found) (fa_message (FaInvalidStart line found)).
Proof. exact fa_invalid_start_msg. Qed.
Print Assumptions C17_msg_fa_invalid_start.

(** FASTQ InvalidStart: found byte, line, and the id when there is one *)
Theorem C17_msg_fq_invalid_start : forall found line id m,
  fq_message (FqInvalidStart found line id) = Some m ->
  infix (escape_default found) m /\ infix (dec line) m /\
  (forall i, id = Some i -> infix i m /\ utf8_valid i = true).
Proof. exact fq_invalid_start_msg. Qed.
Print Assumptions C17_msg_fq_invalid_start.

(** FASTQ InvalidSep: found byte, line, id *)
Theorem C17_msg_fq_invalid_sep : forall found line id m,
  fq_message (FqInvalidSep found line id) = Some m ->
  infix (escape_default found) m /\ infix (dec line) m /\
  (forall i, id = Some i -> infix i m /\ utf8_valid i = true).
Proof. exact fq_invalid_sep_msg. Qed.
Print Assumptions C17_msg_fq_invalid_sep.

(** FASTQ UnequalLengths: both lengths, line, id *)
Theorem C17_msg_fq_unequal_lengths : forall sq ql line id m,
  fq_message (FqUnequalLengths sq ql line id) = Some m ->
  infix (dec sq) m /\ infix (dec ql) m /\ infix (dec line) m /\
  (forall i, id = Some i -> infix i m /\ utf8_valid i = true).
Proof. exact fq_unequal_lengths_msg. Qed.
Print Assumptions C17_msg_fq_unequal_lengths.

(** FASTQ UnexpectedEnd: line, id *)
Theorem C17_msg_fq_unexpected_end : forall line id m,
  fq_message (FqUnexpectedEnd line id) = Some m ->
  infix (dec line) m /\
  (forall i, id = Some i -> infix i m /\ utf8_valid i = true).
Proof. exact fq_unexpected_end_msg. Qed.
Print Assumptions C17_msg_fq_unexpected_end.

(** the model renders a FASTQ message exactly when the error's id is absent
    or valid UTF-8 (so the hypotheses above exclude nothing else) *)
Theorem C17_msg_fq_defined : forall e,
  (forall i, fq_err_id e = Some i -> utf8_valid i = true) <-> (exists m, fq_message e = Some m).
Proof. exact fq_message_defined. Qed.
Print Assumptions C17_msg_fq_defined.

(** the generic fact behind the above: [render_all] shows every hole that has
    a literal piece in front of it *)
Theorem C17_msg_render_all_shows : forall e a ws,
  arg_shown_all a ws = true -> infix (show e a) (render_all e ws).
Proof. exact render_all_shows. Qed.
Print Assumptions C17_msg_render_all_shows.

(** decimal rendering: never empty *)
Theorem C17_msg_dec_nonempty : forall n, dec n <> [].
Proof. exact dec_nonempty. Qed.
Print Assumptions C17_msg_dec_nonempty.

(** decimal rendering: only the characters '0'..'9' *)
Theorem C17_msg_dec_digits : forall n, Forall (fun c => 48 <= c <= 57) (dec n).
Proof. exact dec_digits. Qed.
Print Assumptions C17_msg_dec_digits.

(** decimal rendering reads back as the number (undec of Model/Run.v) *)
Theorem C17_msg_dec_undec : forall n, undec (dec n) = n.
Proof. exact undec_dec. Qed.
Print Assumptions C17_msg_dec_undec.

(** hence different numbers have different texts *)
Theorem C17_msg_dec_injective : forall a b, dec a = dec b -> a = b.
Proof. exact dec_injective. Qed.
Print Assumptions C17_msg_dec_injective.

(** no leading zero, except for 0 itself, which is "0" *)
Theorem C17_msg_dec_no_leading_zero : (forall n, hd 0 (dec n) = 48 -> n = 0) /\ dec 0 = [48].
Proof. exact (conj dec_no_leading_zero dec_zero). Qed.
Print Assumptions C17_msg_dec_no_leading_zero.

(** the escaped found byte is never empty and determines the byte *)
Theorem C17_msg_escape_default_faithful :
  (forall b, escape_default b <> []) /\
  (forall b b', b < 256 -> b' < 256 -> escape_default b = escape_default b' -> b = b').
Proof. exact (conj escape_default_nonempty escape_default_injective). Qed.
Print Assumptions C17_msg_escape_default_faithful.

(* ------------------------------------------------------------------ *)
(** Non-vacuity: concrete messages *)

(** "FASTA parse error: expected '>' but found '\n' at file start, line 12." *)
Example C17_msg_fa_example :
  fa_message (FaInvalidStart 12 10) =
  [70; 65; 83; 84; 65; 32; 112; 97; 114; 115; 101; 32; 101; 114; 114; 111; 114; 58; 32;
   101; 120; 112; 101; 99; 116; 101; 100; 32; 39; 62; 39; 32; 98; 117; 116; 32; 102; 111;
   117; 110; 100; 32; 39; 92; 110; 39; 32; 97; 116; 32; 102; 105; 108; 101; 32; 115; 116;
   97; 114; 116; 44; 32; 108; 105; 110; 101; 32; 49; 50; 46]
  /\ dec 12 = [49; 50] /\ escape_default 10 = [92; 110].
Proof. vm_compute. repeat split. Qed.

(** "FASTQ parse error: expected '@' at record start but found '\n' (record 'id' at line 3)." *)
Example C17_msg_fq_invalid_start_example :
  fq_message (FqInvalidStart 10 3 (Some [105; 100])) = Some
  [70; 65; 83; 84; 81; 32; 112; 97; 114; 115; 101; 32; 101; 114; 114; 111; 114; 58; 32;
   101; 120; 112; 101; 99; 116; 101; 100; 32; 39; 64; 39; 32; 97; 116; 32; 114; 101; 99;
   111; 114; 100; 32; 115; 116; 97; 114; 116; 32; 98; 117; 116; 32; 102; 111; 117; 110;
   100; 32; 39; 92; 110; 39; 32; 40; 114; 101; 99; 111; 114; 100; 32; 39; 105; 100; 39;
   32; 97; 116; 32; 108; 105; 110; 101; 32; 51; 41; 46].
Proof. vm_compute. reflexivity. Qed.

(** "FASTQ parse error: Expected '+' separator but found 'A' (line 7)." — no id *)
Example C17_msg_fq_invalid_sep_example :
  fq_message (FqInvalidSep 65 7 None) = Some
  [70; 65; 83; 84; 81; 32; 112; 97; 114; 115; 101; 32; 101; 114; 114; 111; 114; 58; 32;
   69; 120; 112; 101; 99; 116; 101; 100; 32; 39; 43; 39; 32; 115; 101; 112; 97; 114; 97;
   116; 111; 114; 32; 98; 117; 116; 32; 102; 111; 117; 110; 100; 32; 39; 65; 39; 32; 40;
   108; 105; 110; 101; 32; 55; 41; 46].
Proof. vm_compute. reflexivity. Qed.

(** "FASTQ parse error: sequence length is 4, but quality length is 13 (record 'id' at line 9)." *)
Example C17_msg_fq_unequal_lengths_example :
  fq_message (FqUnequalLengths 4 13 9 (Some [105; 100])) = Some
  [70; 65; 83; 84; 81; 32; 112; 97; 114; 115; 101; 32; 101; 114; 114; 111; 114; 58; 32;
   115; 101; 113; 117; 101; 110; 99; 101; 32; 108; 101; 110; 103; 116; 104; 32; 105; 115;
   32; 52; 44; 32; 98; 117; 116; 32; 113; 117; 97; 108; 105; 116; 121; 32; 108; 101; 110;
   103; 116; 104; 32; 105; 115; 32; 49; 51; 32; 40; 114; 101; 99; 111; 114; 100; 32; 39;
   105; 100; 39; 32; 97; 116; 32; 108; 105; 110; 101; 32; 57; 41; 46].
Proof. vm_compute. reflexivity. Qed.

(** UnexpectedEnd with a two-byte UTF-8 id is rendered; with a truncated
    UTF-8 id it is not (the excluded case) *)
Example C17_msg_fq_unexpected_end_example :
  (exists m, fq_message (FqUnexpectedEnd 104 (Some [195; 169])) = Some m /\ length m = 69) /\
  fq_message (FqUnexpectedEnd 104 (Some [195])) = None.
Proof. split; [eexists; split|]; vm_compute; reflexivity. Qed.

(** hypothesis of C17_msg_render_all_shows on a generated format *)
Example C17_msg_render_example :
  arg_shown_all ArgQual fq_msg_UnequalLengths = true /\
  arg_shown_all ArgId fq_pos_with_id = true /\
  arg_shown_all ArgId fq_pos_without_id = false.
Proof. vm_compute. repeat split. Qed.

Example C17_msg_dec_example :
  dec 1203 = [49; 50; 48; 51] /\ escape_default 200 = [92; 117; 123; 99; 56; 125].
Proof. vm_compute. split; reflexivity. Qed.
