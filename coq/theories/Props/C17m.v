(** C17 (message clause) — "The human-readable message contains these values".
    Statements only; proofs are in Proofs/DisplayP.v.

    The Display text is [render_all] (Model/Display.v) applied to the format
    strings of Gen/DisplayGen.v, which are regenerated from the Rust source on
    every run: dropping a `{}` hole or an argument from a `write!` changes the
    generated constant and these theorems are re-checked against it.

      infix a b := exists p s, b = p ++ a ++ s          (Proofs/DisplayP.v)

    [fq_message e = None] is the case the model does not render: the id is not
    valid UTF-8 (lossy conversion not modelled); see C17_msg_fq_defined. *)
From SeqIO Require Import Model.Base Model.Fasta Model.Fastq Model.Views Model.Display
     Gen.DisplayGen Model.Run Proofs.DisplayP.

(** FASTA InvalidStart: the message contains the decimal line number and the
    escaped found byte *)
Theorem C17_msg_fa_invalid_start : forall line found,
  infix (dec line) (fa_message (FaInvalidStart line found)) /\
  infix (escape_default found) (fa_message (FaInvalidStart line found)).
Proof. exact fa_invalid_start_msg. Qed.
Print Assumptions C17_msg_fa_invalid_start.

(** FASTQ InvalidStart: found byte, line, and the id when there is one *)
Theorem C17_msg_fq_invalid_start : forall found line id m,
  fq_message (FqInvalidStart found line id) = Some m ->
  infix (escape_default found) m /\ infix (dec line) m /\
  (forall i, id = Some i -> infix i m /\ utf8_valid i = true).
Proof. exact fq_invalid_start_msg. Qed.
Print Assumptions C17_msg_fq_invalid_start.

(** FASTQ InvalidSep: found byte, line, id *)
Theorem C17_msg_fq_invalid_sep : forall found line id m,
  fq_message (FqInvalidSep found line id) = Some m ->
  infix (escape_default found) m /\ infix (dec line) m /\
  (forall i, id = Some i -> infix i m /\ utf8_valid i = true).
Proof. exact fq_invalid_sep_msg. Qed.
Print Assumptions C17_msg_fq_invalid_sep.

(** FASTQ UnequalLengths: both lengths, line, id *)
Theorem C17_msg_fq_unequal_lengths : forall sq ql line id m,
  fq_message (FqUnequalLengths sq ql line id) = Some m ->
  infix (dec sq) m /\ infix (dec ql) m /\ infix (dec line) m /\
  (forall i, id = Some i -> infix i m /\ utf8_valid i = true).
Proof. exact fq_unequal_lengths_msg. Qed.
Print Assumptions C17_msg_fq_unequal_lengths.

(** FASTQ UnexpectedEnd: line, id *)
Theorem C17_msg_fq_unexpected_end : forall line id m,
  fq_message (FqUnexpectedEnd line id) = Some m ->
  infix (dec line) m /\
  (forall i, id = Some i -> infix i m /\ utf8_valid i = true).
Proof. exact fq_unexpected_end_msg. Qed.
Print Assumptions C17_msg_fq_unexpected_end.

(** the model renders a FASTQ message exactly when the error's id is absent
    or valid UTF-8 (so the hypotheses above exclude nothing else) *)
Theorem C17_msg_fq_defined : forall e,
  (forall i, fq_err_id e = Some i -> utf8_valid i = true) <-> (exists m, fq_message e = Some m).
Proof. exact fq_message_defined. Qed.
Print Assumptions C17_msg_fq_defined.

(** the generic fact behind the above: [render_all] shows every hole that has
    a literal piece in front of it *)
Theorem C17_msg_render_all_shows : forall e a ws,
  arg_shown_all a ws = true -> infix (show e a) (render_all e ws).
Proof. exact render_all_shows. Qed.
Print Assumptions C17_msg_render_all_shows.

(** decimal rendering: never empty *)
Theorem C17_msg_dec_nonempty : forall n, dec n <> [].
Proof. exact dec_nonempty. Qed.
Print Assumptions C17_msg_dec_nonempty.

(** decimal rendering: only the characters '0'..'9' *)
Theorem C17_msg_dec_digits : forall n, Forall (fun c => 48 <= c <= 57) (dec n).
Proof. exact dec_digits. Qed.
Print Assumptions C17_msg_dec_digits.

(** decimal rendering reads back as the number (undec of Model/Run.v) *)
Theorem C17_msg_dec_undec : forall n, undec (dec n) = n.
Proof. exact undec_dec. Qed.
Print Assumptions C17_msg_dec_undec.

(** hence different numbers have different texts *)
Theorem C17_msg_dec_injective : forall a b, dec a = dec b -> a = b.
Proof. exact dec_injective. Qed.
Print Assumptions C17_msg_dec_injective.

(** no leading zero, except for 0 itself, which is "0" *)
Theorem C17_msg_dec_no_leading_zero : (forall n, hd 0 (dec n) = 48 -> n = 0) /\ dec 0 = [48].
Proof. exact (conj dec_no_leading_zero dec_zero). Qed.
Print Assumptions C17_msg_dec_no_leading_zero.

(** the escaped found byte is never empty and determines the byte *)
Theorem C17_msg_escape_default_faithful :
  (forall b, escape_default b <> []) /\
  (forall b b', b < 256 -> b' < 256 -> escape_default b = escape_default b' -> b = b').
Proof. exact (conj escape_default_nonempty escape_default_injective). Qed.
Print Assumptions C17_msg_escape_default_faithful.

(* ------------------------------------------------------------------ *)
(** Non-vacuity: concrete messages.  The examples do not pin the wording (the format
    strings are regenerated from the source; rewording a message while keeping its values
    must not break anything): they show that the rendered text is defined, shows the
    values and contains more than the values. *)

(** e.g. "FASTA parse error: expected '>' but found '\n' at file start, line 12." *)
Example C17_msg_fa_example :
  dec 12 = [49; 50] /\ escape_default 10 = [92; 110] /\
  infix [49; 50] (fa_message (FaInvalidStart 12 10)) /\ infix [92; 110] (fa_message (FaInvalidStart 12 10)) /\
  length (dec 12) + length (escape_default 10) < length (fa_message (FaInvalidStart 12 10)).
Proof.
  split; [vm_compute; reflexivity|]. split; [vm_compute; reflexivity|].
  split; [exact (proj1 (fa_invalid_start_msg 12 10))|]. split; [exact (proj2 (fa_invalid_start_msg 12 10))|].
  vm_compute. lia.
Qed.

(** e.g. "FASTQ parse error: expected '@' at record start but found '\n' (record 'id' at line 3)." *)
Example C17_msg_fq_invalid_start_example :
  exists m, fq_message (FqInvalidStart 10 3 (Some [105; 100])) = Some m /\
            infix [92; 110] m /\ infix [51] m /\ infix [105; 100] m /\ 2 + 1 + 2 < length m.
Proof.
  destruct (fq_message (FqInvalidStart 10 3 (Some [105; 100]))) as [m|] eqn:E; [|vm_compute in E; discriminate].
  exists m. split; [reflexivity|].
  destruct (fq_invalid_start_msg _ _ _ _ E) as (A & B & C). destruct (C _ eq_refl) as [D _].
  split; [exact A|]. split; [exact B|]. split; [exact D|].
  vm_compute in E. injection E as <-. vm_compute. lia.
Qed.

(** e.g. "FASTQ parse error: Expected '+' separator but found 'A' (line 7)." — no id *)
Example C17_msg_fq_invalid_sep_example :
  exists m, fq_message (FqInvalidSep 65 7 None) = Some m /\ infix [65] m /\ infix [55] m /\ 2 < length m.
Proof.
  destruct (fq_message (FqInvalidSep 65 7 None)) as [m|] eqn:E; [|vm_compute in E; discriminate].
  exists m. split; [reflexivity|].
  destruct (fq_invalid_sep_msg _ _ _ _ E) as (A & B & _).
  split; [exact A|]. split; [exact B|].
  vm_compute in E. injection E as <-. vm_compute. lia.
Qed.

(** e.g. "FASTQ parse error: sequence length is 4, but quality length is 13 (record 'id' at line 9)." *)
Example C17_msg_fq_unequal_lengths_example :
  exists m, fq_message (FqUnequalLengths 4 13 9 (Some [105; 100])) = Some m /\
            infix [52] m /\ infix [49; 51] m /\ infix [57] m /\ infix [105; 100] m /\ 6 < length m.
Proof.
  destruct (fq_message (FqUnequalLengths 4 13 9 (Some [105; 100]))) as [m|] eqn:E; [|vm_compute in E; discriminate].
  exists m. split; [reflexivity|].
  destruct (fq_unequal_lengths_msg _ _ _ _ _ E) as (A & B & C & D). destruct (D _ eq_refl) as [D' _].
  split; [exact A|]. split; [exact B|]. split; [exact C|]. split; [exact D'|].
  vm_compute in E. injection E as <-. vm_compute. lia.
Qed.

(** UnexpectedEnd with a two-byte UTF-8 id is rendered; with a truncated
    UTF-8 id it is not (the excluded case) *)
Example C17_msg_fq_unexpected_end_example :
  (exists m, fq_message (FqUnexpectedEnd 104 (Some [195; 169])) = Some m /\ infix [49; 48; 52] m /\ infix [195; 169] m) /\
  fq_message (FqUnexpectedEnd 104 (Some [195])) = None.
Proof.
  split; [|vm_compute; reflexivity].
  destruct (fq_message (FqUnexpectedEnd 104 (Some [195; 169]))) as [m|] eqn:E; [|vm_compute in E; discriminate].
  exists m. split; [reflexivity|].
  destruct (fq_unexpected_end_msg _ _ _ E) as (A & B). destruct (B _ eq_refl) as [B' _].
  split; [exact A | exact B'].
Qed.

(** hypothesis of C17_msg_render_all_shows on a generated format *)
Example C17_msg_render_example :
  arg_shown_all ArgQual fq_msg_UnequalLengths = true /\
  arg_shown_all ArgId fq_pos_with_id = true /\
  arg_shown_all ArgId fq_pos_without_id = false.
Proof. vm_compute. repeat split. Qed.

Example C17_msg_dec_example :
  dec 1203 = [49; 50; 48; 51] /\ escape_default 200 = [92; 117; 123; 99; 56; 125].
Proof. vm_compute. split; reflexivity. Qed.
